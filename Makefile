# `make setup` : full .vo build of the Coq development (never -vos), offline.
.PHONY: setup clean
setup:
	cd coq && coq_makefile -f _CoqProject -o Makefile && timeout 3000 $(MAKE) -j16
	@echo setup done
clean:
	rm -rf build coq/Makefile coq/Makefile.conf coq/.Makefile.d
	find coq -name '*.vo' -o -name '*.vok' -o -name '*.vos' -o -name '*.glob' -o -name '.*.aux' | xargs rm -f
