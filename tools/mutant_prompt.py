#!/usr/bin/env python3
"""mutant_prompt.py Cxx -> prints the prompt for a fresh sub-agent that seeds changes breaking property Cxx
(contains ONLY the property text and the scratch worktree path; nothing from /verif)."""
import json, sys
pid = sys.argv[1]
avoid = sys.argv[2] if len(sys.argv) > 2 else ""
p = [json.loads(l) for l in open("/verif/properties.jsonl") if json.loads(l)["id"] == pid][0]
wt = f"/tmp/mw/{pid}"
anch = p["anchors"]
print(f"""You are helping to test a verification effort by producing realistic, subtle bugs ("seeded changes") in a Python library. Work ONLY inside the git worktree {wt} (a scratch checkout of the library `causationentropy`: causal network discovery from time series via optimal causation entropy). Do not look at or touch /verif or /repo. Use `/venv/bin/python` with `PYTHONPATH={wt}`. No network.

The property to break -- "{p['title']}": {p['statement']}
It is quantified as follows: {p['quantifier']['text']}
Code it is anchored in: files {anch.get('files')}; mechanisms {json.dumps(anch.get('mechanism'))}.

Produce TWO independent changes (mutation 1 and mutation 2) to the library source (under causationentropy/, not the tests) each of which (a) breaks this property, (b) still lets the whole existing test suite pass: run `cd {wt} && PYTHONPATH={wt} /venv/bin/python -m pytest -q -p no:cacheprovider --timeout=900 -x --no-cov` and require "381 passed"; (c) looks like a plausible refactor / optimisation / bug-fix a maintainer might commit, and (d) needs something specific to manifest -- NOT something ordinary use exposes at once: a particular combination of arguments or an unusual-but-legal input, a boundary value, a multi-step sequence of operations or call history, a rarely taken branch, or two cooperating sites that each look fine alone. Use different sites / mechanisms for the two mutations.{(' Avoid these ideas, which have been used already: ' + avoid) if avoid else ''}

For each mutation N in {{1,2}} write into {wt}/out/: `mutN.diff` (output of `git diff` for that mutation alone, applying cleanly with `git apply` to the clean checkout), `demoN.py` (a small standalone program: exits 0 on the clean checkout and non-zero with the mutation applied, printing what it observed; deterministic: fixed seeds; runtime under 2 minutes; if the property is statistical keep the demo's threshold far from both behaviours so it is not flaky), and `mutN.txt` (what was changed, why it violates the property, exactly what it needs in order to manifest, and why the existing tests do not notice). Never use `git stash` (the stash is shared between all worktrees of this repository and other agents work in sibling worktrees); to switch between mutations use `git diff > file`, `git checkout -- .`, `git apply file`. Leave the worktree clean at the end (`git checkout -- .`; the out/ directory is untracked and stays). Verify everything yourself: clean -> demo exit 0 and 381 passed; each mutation alone -> demo exit non-zero and 381 passed. Report a short summary of the two mutations.""")
