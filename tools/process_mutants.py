#!/usr/bin/env python3
"""process_mutants.py Cxx [...]: confirm the two mutations in /tmp/mw/Cxx/out, file them as the next seeded ids,
remove the scratch worktree, run the property's quick check against each (scratch repo), print a summary."""
import glob, json, os, re, subprocess, sys
for pid in sys.argv[1:]:
    wt = f"/tmp/mw/{pid}"
    have = [int(re.search(r"-m(\d+)$", d).group(1)) for d in glob.glob(f"/verif/seeded/{pid}-m*")]
    k = max(have, default=0)
    ids = []
    for N in (1, 2):
        if not os.path.exists(f"{wt}/out/mut{N}.diff"):
            print(pid, "mutation", N, "missing"); continue
        sid = f"{pid}-m{k + N}"
        r = subprocess.run(["python3", "/verif/tools/confirm_mutant.py", pid, str(N), wt, f"{wt}/out", sid], capture_output=True, text=True)
        last = [l for l in r.stdout.splitlines() if l.startswith("{")][-1:]
        ok = last and json.loads(last[0])["confirmed"]
        print(sid, "confirmed" if ok else f"NOT CONFIRMED {last} {r.stderr[-300:]}")
        if ok:
            ids.append(sid)
    subprocess.run(["git", "-C", "/repo", "worktree", "remove", "--force", wt])
    for sid in ids:
        r = subprocess.run(["python3", "/verif/tools/try_seeded.py", sid], capture_output=True, text=True, env=dict(os.environ, SEED_SCRATCH="1"))
        lines = [l.strip()[:150] for l in r.stdout.splitlines() if "VIOLATION" in l or l.strip().startswith("[")]
        print("  ", sid, "->", "REPORTED" if any("VIOLATION" in l for l in lines) else "MISSED", "|", (lines[:1] + lines[-1:])[0] if lines else r.stderr[-200:])
