#!/bin/bash
# run every claimed quick (or $1=thorough) check on the current tree, 4 at a time; print the summary lines
cd /verif
TIER=${1:-quick}
python3 -c "import json; print('\n'.join(c['property_id'] for c in json.load(open('MANIFEST.json'))['checks']))" \
 | xargs -P 4 -I{} sh -c "./check {} --tier $TIER > build/last_{}.log 2>&1; tail -1 build/last_{}.log; grep -h '^VIOLATION\|^KNOWN' build/last_{}.log"
