#!/usr/bin/env python3
"""update_design_tables.py: splice the generated tables (seeded changes: tools/seeded_table.py; axioms: tools/axioms_table.py)
into DESIGN.md sections 9.45 and 9.5."""
import re, subprocess
p = "/verif/DESIGN.md"
s = open(p).read()
def gen(tool):
    out = subprocess.run(["python3", f"/verif/tools/{tool}"], capture_output=True, text=True).stdout
    return "\n".join(l for l in out.splitlines() if l.startswith("|")) + "\n"
def splice(s, header_start, new):
    i = s.index(header_start)
    j = i
    lines = s[i:].splitlines(keepends=True)
    n = 0
    for l in lines:
        if not l.startswith("|"):
            break
        n += len(l)
    return s[:i] + new + s[i + n:]
s = splice(s, "| seeded change | breaks |", gen("seeded_table.py"))
s = splice(s, "| id | theorems | closed under the global context |", gen("axioms_table.py"))
open(p, "w").write(s)
print("tables updated")
