From Coq Require Import ZArith List.
From Interval Require Import Specific_bigint Specific_ops Float_full Xreal Interval Basic.
From Bignums Require Import BigZ.
Import ListNotations.
Module F := SpecificFloat BigIntRadix2.
Module I := FloatIntervalFull F.
Definition prec := F.PtoP 80.
Definition iz (z : Z) := I.fromZ prec z.
(* data on a 2^-10 grid: integers, scale s = 1024 *)
Definition sq (x : I.type) := I.mul prec x x.
Definition dist2 (p q : list Z) : Z := fold_left Z.add (map (fun ab => (fst ab - snd ab) * (fst ab - snd ab))%Z (combine p q)) 0%Z.
(* log-density up to constants: ln (sum_j exp(-d2/(2 h^2 s^2))) with h^2 = 1/2 -> exp(-d2/s^2) *)
Definition logdens (s2 : Z) (all : list (list Z)) (p : list Z) : I.type :=
  I.ln prec (fold_left (fun acc q => I.add prec acc (I.exp prec (I.neg (I.div prec (iz (dist2 p q)) (iz s2))))) all (iz 0)).
Definition ent (s2 : Z) (all : list (list Z)) : I.type :=
  I.neg (I.div prec (fold_left (fun acc p => I.add prec acc (logdens s2 all p)) all (iz 0)) (iz (Z.of_nat (length all)))).
Fixpoint mk (n : nat) (seed : Z) : list (list Z) :=
  match n with O => [] | S n' => [ (seed * 7919 mod 4001 - 2000)%Z ; (seed * 104729 mod 3989 - 1990)%Z ; (seed * 1299709 mod 4003 - 2001)%Z ] :: mk n' (seed * 48271 mod 2147483647)%Z end.
Definition data := mk 30 12345.
Time Eval vm_compute in ent (1024*1024) data.
