From Coq Require Import ZArith List Lia Sorting Permutation Bool ZifyBool Mergesort Orders.
Import ListNotations.
Open Scope Z_scope.

Module ZOrder <: TotalLeBool.
  Definition t := Z.
  Definition leb := Z.leb.
  Theorem leb_total : forall a1 a2, leb a1 a2 = true \/ leb a2 a1 = true.
  Proof. intros; unfold leb; lia. Qed.
End ZOrder.
Module ZSort := Sort ZOrder.

Lemma sorted_perm_eq : forall l1 l2 : list Z,
  StronglySorted Z.le l1 -> StronglySorted Z.le l2 -> Permutation l1 l2 -> l1 = l2.
Proof.
  induction l1 as [|a l1 IH]; intros l2 H1 H2 P.
  - apply Permutation_nil in P. congruence.
  - destruct l2 as [|b l2]; [apply Permutation_sym, Permutation_nil in P; discriminate|].
    inversion H1 as [|? ? S1 F1]; inversion H2 as [|? ? S2 F2]; subst.
    assert (a = b).
    { assert (In a (b :: l2)) by (eapply Permutation_in; [exact P|left; reflexivity]).
      assert (In b (a :: l1)) by (eapply Permutation_in; [apply Permutation_sym; exact P|left; reflexivity]).
      rewrite Forall_forall in F1, F2. destruct H as [->|H]; [reflexivity|]. destruct H0 as [->|H0]; [reflexivity|].
      specialize (F1 _ H0). specialize (F2 _ H). lia. }
    subst b. f_equal. apply IH; auto. eapply Permutation_cons_inv; exact P.
Qed.

Lemma sort_sorted l : StronglySorted Z.le (ZSort.sort l).
Proof.
  pose proof (ZSort.StronglySorted_sort l) as H.
  assert (Transitive (fun x y => is_true (ZOrder.leb x y))) by (intros x y z; unfold ZOrder.leb, is_true; lia).
  specialize (H H0). clear H0. induction H; constructor; auto.
  rewrite Forall_forall in *. intros x Hx. specialize (H0 x Hx). unfold ZOrder.leb, is_true in H0. lia.
Qed.

Lemma sort_perm_inv l1 l2 : Permutation l1 l2 -> ZSort.sort l1 = ZSort.sort l2.
Proof.
  intros P. apply sorted_perm_eq; try apply sort_sorted.
  eapply Permutation_trans; [apply Permutation_sym, ZSort.Permuted_sort|].
  eapply Permutation_trans; [exact P|apply ZSort.Permuted_sort].
Qed.

Lemma filter_len_perm {A} (f : A -> bool) l1 l2 : Permutation l1 l2 -> length (filter f l1) = length (filter f l2).
Proof. induction 1; cbn [filter]; try (destruct (f x)); try (destruct (f y)); cbn [length]; congruence. Qed.

Section Knn.
Variable S : Type.                 (* a sample (x,y,z) *)
Variables dJ dA : S -> S -> Z.     (* joint and one marginal distance *)
Variable k : nat.
Definition eps (all : list S) (p : S) := nth k (ZSort.sort (map (dJ p) all)) 0.
Definition cnt (all : list S) (p : S) := length (filter (fun q => dA p q <? eps all p) all).
Definition counts (all : list S) := map (cnt all) all.

Lemma eps_perm all all' p : Permutation all all' -> eps all p = eps all' p.
Proof. intros P. unfold eps. rewrite (sort_perm_inv (map (dJ p) all) (map (dJ p) all')); [reflexivity|]. apply Permutation_map, P. Qed.
Lemma cnt_perm all all' p : Permutation all all' -> cnt all p = cnt all' p.
Proof. intros P. unfold cnt. rewrite (eps_perm all all' p P). apply filter_len_perm, P. Qed.
Theorem counts_row_perm all all' : Permutation all all' -> Permutation (counts all) (counts all').
Proof.
  intros P. unfold counts.
  rewrite (map_ext_in (cnt all) (cnt all')) by (intros; apply cnt_perm, P).
  apply Permutation_map, P.
Qed.
End Knn.
Print Assumptions counts_row_perm.
