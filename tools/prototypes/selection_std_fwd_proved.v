From Coq Require Import List Arith Lia Bool Permutation ZArith.
Import ListNotations.

Section OCSE.
Variable f : nat -> list nat -> Z.          (* information of candidate given conditioning list *)
Variable gF gB : nat -> list nat -> bool.   (* forward / backward test verdicts *)
Variable init : list nat.                   (* initial conditioning set (own lags) or [] *)

(* first index of the maximum, as numpy argmax *)
Fixpoint argmax_first (score : nat -> Z) (best : nat) (l : list nat) : nat :=
  match l with [] => best | j :: l' => if (score best <? score j)%Z then argmax_first score j l' else argmax_first score best l' end.
Definition argmax score l := match l with [] => 0 | j :: l' => argmax_first score j l' end.

Lemma argmax_first_spec score l : forall best, let r := argmax_first score best l in
  In r (best :: l) /\ (forall j, In j (best :: l) -> (score j <= score r)%Z).
Proof.
  induction l as [|x l IH]; intros best; cbn [argmax_first].
  - split; [left; reflexivity|]. intros j [->|[]]; lia.
  - destruct (score best <? score x)%Z eqn:E.
    + destruct (IH x) as [Hin Hmax]. split.
      * destruct Hin as [<-|Hin]; [right; left; reflexivity| right; right; exact Hin].
      * intros j [<-|[<-|Hj]]; [|apply Hmax; left; reflexivity|apply Hmax; right; exact Hj].
        apply Z.ltb_lt in E. specialize (Hmax x (or_introl eq_refl)). lia.
    + destruct (IH best) as [Hin Hmax]. split.
      * destruct Hin as [<-|Hin]; [left; reflexivity| right; right; exact Hin].
      * intros j [<-|[<-|Hj]]; [apply Hmax; left; reflexivity| |apply Hmax; right; exact Hj].
        apply Z.ltb_ge in E. specialize (Hmax best (or_introl eq_refl)). lia.
Qed.

(* standard forward: every candidate decided once; rejected ones discarded *)
Fixpoint std_fwd (fuel : nat) (cands S : list nat) : list nat :=
  match fuel with 0 => S | S fuel' =>
    match cands with [] => S | _ =>
      let j := argmax (fun j => f j (init ++ S)) cands in
      let cands' := remove Nat.eq_dec j cands in
      if gF j (init ++ S) then std_fwd fuel' cands' (S ++ [j]) else std_fwd fuel' cands' S
    end end.

(* relational rule *)
Inductive std_rule : list nat -> list nat -> list nat -> Prop :=
| sr_done S : std_rule [] S S
| sr_step cands S j R : In j cands ->
    (forall j', In j' cands -> (f j' (init ++ S) <= f j (init ++ S))%Z) ->
    std_rule (remove Nat.eq_dec j cands) (if gF j (init ++ S) then S ++ [j] else S) R ->
    std_rule cands S R.

Lemma remove_length_lt j l : In j l -> length (remove Nat.eq_dec j l) < length l.
Proof. induction l as [|x l IH]; [intros []|]. intros H. cbn [remove]. destruct (Nat.eq_dec j x).
  - pose proof (remove_length_le Nat.eq_dec l j). cbn [length]. lia.
  - cbn [length]. destruct H; [congruence|]. specialize (IH H). lia. Qed.

Theorem std_fwd_sound : forall fuel cands S, length cands <= fuel -> std_rule cands S (std_fwd fuel cands S).
Proof.
  induction fuel as [|fuel IH]; intros cands S Hlen.
  - destruct cands; [constructor| cbn in Hlen; lia].
  - destruct cands as [|c cs]; [constructor|].
    cbn [std_fwd]. set (cands := c :: cs) in *.
    set (j := argmax (fun j => f j (init ++ S)) cands).
    destruct (argmax_first_spec (fun j => f j (init ++ S)) cs c) as [Hin Hmax]. fold cands in Hin, Hmax.
    change (argmax_first _ c cs) with j in Hin, Hmax.
    apply sr_step with (j := j); [exact Hin|exact Hmax|].
    pose proof (remove_length_lt j cands Hin).
    destruct (gF j (init ++ S)); apply IH; lia.
Qed.

(* backward elimination along a visiting order *)
Fixpoint bwd (order S : list nat) : list nat :=
  match order with [] => S | j :: order' =>
    let Z := remove Nat.eq_dec j S in
    if gB j Z then bwd order' S else bwd order' Z end.

Lemma bwd_incl order : forall S, incl (bwd order S) S.
Proof. induction order as [|j o IH]; intros S; cbn [bwd]; [apply incl_refl|].
  destruct (gB j _); [apply IH|]. eapply incl_tran; [apply IH|]. intros x Hx. apply in_remove in Hx. tauto. Qed.
End OCSE.
Print Assumptions std_fwd_sound.
