From mathcomp Require Import all_ssreflect all_algebra.
Set Implicit Arguments. Unset Strict Implicit. Unset Printing Implicit Defensive.
Import GRing.Theory.
Local Open Scope ring_scope.

Section Schur.
Variable F : fieldType.
Variables (n1 n2 : nat).
Variables (A : 'M[F]_n1) (B : 'M[F]_(n1, n2)) (C : 'M[F]_(n2, n1)) (D : 'M[F]_n2).
Hypothesis Au : A \in unitmx.

Lemma schur_factor :
  block_mx A B C D = block_mx 1%:M 0 (C *m invmx A) 1%:M *m block_mx A B 0 (D - C *m invmx A *m B).
Proof.
rewrite mulmx_block !mul1mx !mul0mx !addr0.
by rewrite -[C *m invmx A *m A]mulmxA (mulVmx Au) mulmx1 addrC subrK.
Qed.

Theorem det_schur : \det (block_mx A B C D) = \det A * \det (D - C *m invmx A *m B).
Proof. by rewrite schur_factor det_mulmx det_lblock det_ublock !det1 !mul1r. Qed.
End Schur.
Print Assumptions det_schur.
