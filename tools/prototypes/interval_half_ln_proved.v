From Coq Require Import Reals ZArith Lra Lia.
From Interval Require Import Specific_bigint Specific_ops Float_full Xreal Interval Basic.
From Bignums Require Import BigZ.
Module F := SpecificFloat BigIntRadix2.
Module I := FloatIntervalFull F.
Definition prec := F.PtoP 90.
Open Scope R_scope.
(* real model *)
Definition half_ln_ratio (n d : Z) : R := / 2 * ln (IZR n / IZR d).
(* interval model *)
Definition half_ln_ratio_I (n d : Z) : I.type :=
  I.mul prec (I.inv prec (I.fromZ prec 2)) (I.ln prec (I.div prec (I.fromZ prec n) (I.fromZ prec d))).
Eval vm_compute in half_ln_ratio_I 7 3.
Lemma half_ln_ratio_correct n d : (0 < d)%Z -> (0 < n)%Z ->
  contains (I.convert (half_ln_ratio_I n d)) (Xreal (half_ln_ratio n d)).
Proof.
  intros Hd Hn. unfold half_ln_ratio_I, half_ln_ratio.
  assert (Hq : 0 < IZR n / IZR d) by (apply Rdiv_lt_0_compat; apply IZR_lt; assumption).
  replace (Xreal (/ 2 * ln (IZR n / IZR d))) with (Xmul (Xinv (Xreal 2)) (Xln (Xdiv (Xreal (IZR n)) (Xreal (IZR d))))).
  - apply I.mul_correct. + apply I.inv_correct. apply I.fromZ_correct.
    + apply I.ln_correct. apply I.div_correct; apply I.fromZ_correct.
  - unfold Xinv, Xinv', Xdiv, Xdiv', Xln, Xln', Xmul. simpl.
    destruct (is_zero_spec 2); [lra|]. destruct (is_zero_spec (IZR d)); [apply eq_IZR_R0 in H0; lia|].
    destruct (is_positive_spec (IZR n / IZR d)); [reflexivity|lra].
Qed.
Print Assumptions half_ln_ratio_correct.
