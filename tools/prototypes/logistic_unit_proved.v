From Coq Require Import Reals Lra Psatz List.
Import ListNotations.
Open Scope R_scope.
Definition fmap (r x : R) := r * x * (1 - x).
Lemma quarter x : x*(1-x) <= 1/4.
Proof. pose proof (Rle_0_sqr (x - 1/2)) as H. unfold Rsqr in H. lra. Qed.
Lemma fmap_unit r x : 0 <= r <= 4 -> 0 <= x <= 1 -> 0 <= fmap r x <= 1.
Proof. intros [Hr0 Hr4] [Hx0 Hx1]. unfold fmap. pose proof (quarter x) as H2. assert (H1 : 0 <= x*(1-x)) by nra.
  replace (r*x*(1-x)) with (r*(x*(1-x))) by ring. split; nra. Qed.
Fixpoint dot (w f : list R) : R := match w, f with a::w', b::f' => a*b + dot w' f' | _, _ => 0 end.
Fixpoint sum (w : list R) := match w with [] => 0 | a :: w' => a + sum w' end.
Lemma sum_nonneg w : Forall (fun a => 0 <= a) w -> 0 <= sum w.
Proof. induction 1; simpl; lra. Qed.
Lemma dot_bounds w : Forall (fun a => 0 <= a) w -> forall f, Forall (fun b => 0 <= b <= 1) f -> 0 <= dot w f <= sum w.
Proof.
  induction 1 as [|a w Ha Hw IH]; intros f Hf; simpl; [destruct f; lra|].
  destruct f as [|b f]; simpl.
  - pose proof (sum_nonneg w Hw). lra.
  - inversion Hf as [|? ? [Hb0 Hb1] Hf']; subst. destruct (IH f Hf') as [I0 I1]. split; nra.
Qed.
Lemma update_unit s fi w f : 0 <= s <= 1 -> 0 <= fi <= 1 -> Forall (fun a => 0 <= a) w -> sum w <= 1 ->
  Forall (fun b => 0 <= b <= 1) f -> 0 <= fi - s * (fi - dot w f) <= 1.
Proof. intros [Hs0 Hs1] [Hf0 Hf1] Hw Hsum Hf. destruct (dot_bounds w Hw f Hf) as [D0 D1].
  replace (fi - s * (fi - dot w f)) with ((1-s)*fi + s * dot w f) by ring. split; nra. Qed.
Print Assumptions update_unit.
