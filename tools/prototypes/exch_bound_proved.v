From mathcomp Require Import all_ssreflect fingroup perm.
Set Implicit Arguments. Unset Strict Implicit. Unset Printing Implicit Defensive.
Section Exch.
Variables (n m : nat) (val : 'I_m -> nat).
Notation tup := {ffun 'I_n.+1 -> 'I_m}.
Definition cnt_ge (t : tup) (j : 'I_n.+1) := #|[set i | (i != j) && (val (t j) <= val (t i))]|.
Definition extreme c (t : tup) j := cnt_ge t j <= c.
Lemma per_tuple c (t : tup) : #|[set j | extreme c t j]| <= c.+1.
Proof.
set E := [set j | extreme c t j].
case: (set_0Vmem E) => [->|[j0 j0E]]; first by rewrite cards0.
pose jm := [arg min_(j < j0 | j \in E) val (t j)].
have [jmE jmmin] : jm \in E /\ forall j, j \in E -> val (t jm) <= val (t j).
  by rewrite /jm; case: arg_minnP => // i iE H; split.
have sub : E :\ jm \subset [set i | (i != jm) && (val (t jm) <= val (t i))].
  apply/subsetP => i; rewrite !inE => /andP[ne iE]; rewrite ne /=.
  by apply: jmmin; rewrite inE.
have := subset_leq_card sub.
move: jmE; rewrite {1}/E inE /extreme /cnt_ge => le1 le2.
by rewrite (cardsD1 jm) (_ : jm \in E) ?add1n ?ltnS ?(leq_trans le2 le1) // /E inE.
Qed.
Definition swp (j : 'I_n.+1) (t : tup) : tup := [ffun i => t (tperm ord0 j i)].
Lemma swpK j : involutive (swp j).
Proof. by move=> t; apply/ffunP => i; rewrite !ffunE tpermK. Qed.
Lemma cnt_swp j t : cnt_ge (swp j t) ord0 = cnt_ge t j.
Proof.
rewrite /cnt_ge.
have inj : injective (tperm ord0 j) by exact: perm_inj.
rewrite -[RHS](card_imset _ inj).
apply: eq_card => i; rewrite !inE /swp !ffunE tpermL.
apply/idP/imsetP => [/andP[ne le]|[i' ]].
  exists (tperm ord0 j i); last by rewrite tpermK.
  by rewrite inE le andbT -{2}(tpermL ord0 j) (inj_eq inj).
rewrite inE => /andP[ne le] ->; rewrite tpermK le andbT.
by rewrite -{2}(tpermR ord0 j) (inj_eq inj).
Qed.
Lemma symm c j : #|[set t | extreme c t j]| = #|[set t | extreme c t ord0]|.
Proof.
have inj := inv_inj (swpK j).
rewrite -[RHS](card_imset _ inj).
apply: eq_card => t; rewrite !inE.
apply/idP/imsetP => [H|[t' ]].
  by exists (swp j t); rewrite ?swpK // inE /extreme cnt_swp.
by rewrite inE /extreme => H ->; rewrite -cnt_swp swpK.
Qed.
Theorem exch_bound c : #|[set t | extreme c t ord0]| * n.+1 <= c.+1 * #|{: tup}|.
Proof.
have -> : #|[set t | extreme c t ord0]| * n.+1 = \sum_(j < n.+1) #|[set t | extreme c t j]|.
  rewrite (eq_bigr (fun _ => #|[set t | extreme c t ord0]|)); last by move=> j _; rewrite symm.
  by rewrite sum_nat_const card_ord mulnC.
have -> : \sum_(j < n.+1) #|[set t | extreme c t j]| = \sum_(t : tup) #|[set j | extreme c t j]|.
  rewrite (eq_bigr (fun j => \sum_(t : tup) (extreme c t j : nat))); last first.
    by move=> j _; rewrite -sum1dep_card big_mkcond /=; apply: eq_bigr => t _; case: (extreme c t j).
  rewrite exchange_big /=; apply: eq_bigr => t _.
  by rewrite -sum1dep_card [RHS]big_mkcond /=; apply: eq_bigr => j _; case: (extreme c t j).
rewrite mulnC -sum_nat_const; apply: leq_sum => t _; exact: per_tuple.
Qed.
End Exch.
Print Assumptions exch_bound.
