From mathcomp Require Import all_ssreflect.
Set Implicit Arguments. Unset Strict Implicit. Unset Printing Implicit Defensive.

Section Glue.
Variables (n m : nat) (val : 'I_m -> nat).
Notation tup := {ffun 'I_n.+1 -> 'I_m}.
Definition cnt_ge (t : tup) (j : 'I_n.+1) := #|[set i | (i != j) && (val (t j) <= val (t i))]|.
(* list view used by the stdlib model: surrogate values in position order *)
Definition nulls (t : tup) : seq nat := [seq val (t (lift ord0 i)) | i <- enum 'I_n].
Definition cge (obs : nat) (l : seq nat) := size (filter (fun v => obs <= v) l).

Lemma cnt_ge_list t : cnt_ge t ord0 = cge (val (t ord0)) (nulls t).
Proof.
rewrite /cge /nulls size_filter count_map -sum1_count /cnt_ge.
rewrite -sum1dep_card big_mkcond big_ord_recl eqxx /= add0n.
rewrite -big_mkcond /= big_enum_cond /=.
by apply: eq_bigl => i.
Qed.
End Glue.
Print Assumptions cnt_ge_list.
