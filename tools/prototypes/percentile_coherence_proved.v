From Coq Require Import ZArith List Lia Sorting Permutation Bool ZifyBool.
Import ListNotations.
Open Scope Z_scope.

Definition cge (obs : Z) (l : list Z) : nat := length (filter (fun v => obs <=? v) l).
Definition count_ge obs l := Z.of_nat (cge obs l).
Definition len (l : list Z) := Z.of_nat (length l).

Definition thr_b (a b : Z) (s : list Z) : Z :=
  let h := (len s - 1) * (b - a) in
  let lo := h / b in let rem := h mod b in
  let vlo := nth (Z.to_nat lo) s 0 in
  let vhi := nth (Z.to_nat (lo + 1)) s vlo in
  vlo * b + rem * (vhi - vlo).
Definition pass_strict a b obs s := thr_b a b s <? obs * b.
Definition pass_weak a b obs s := thr_b a b s <=? obs * b.

Lemma cge_cons obs x l : cge obs (x :: l) = ((if (obs <=? x)%Z then 1 else 0) + cge obs l)%nat.
Proof. unfold cge; cbn [filter]. destruct (obs <=? x); reflexivity. Qed.
Lemma cge_le obs l : (cge obs l <= length l)%nat.
Proof. induction l as [|x l IH]; [reflexivity|]. rewrite cge_cons; cbn [length]. destruct (obs <=? x); lia. Qed.
Lemma cge_all obs x l : obs <= x -> Forall (Z.le x) l -> cge obs l = length l.
Proof. intros Hx H; induction H as [|y l Hy _ IH]; [reflexivity|]. rewrite cge_cons, IH; cbn [length].
  destruct (obs <=? y) eqn:E; lia. Qed.

Lemma sorted_nth_le x s i : Forall (Z.le x) s -> (i < length s)%nat -> x <= nth i s 0.
Proof. intros H Hi. rewrite Forall_forall in H. apply H, nth_In, Hi. Qed.

Lemma count_below obs s : StronglySorted Z.le s -> forall i, (i < length s)%nat -> nth i s 0 < obs ->
  (cge obs s + i + 1 <= length s)%nat.
Proof.
  induction 1 as [|x s' Hs IH Hx]; intros i Hi Hn; cbn [length] in *; [lia|].
  rewrite cge_cons. destruct i as [|i']; cbn [nth] in Hn.
  - pose proof (cge_le obs s'). destruct (obs <=? x) eqn:E; lia.
  - pose proof (sorted_nth_le x s' i' Hx ltac:(lia)). specialize (IH i' ltac:(lia) Hn).
    destruct (obs <=? x) eqn:E; lia.
Qed.

Lemma count_above obs s : StronglySorted Z.le s -> forall i, (i < length s)%nat -> obs <= nth i s 0 ->
  (length s <= cge obs s + i)%nat.
Proof.
  induction 1 as [|x s' Hs IH Hx]; intros i Hi Hn; cbn [length] in *; [lia|].
  rewrite cge_cons. destruct i as [|i']; cbn [nth] in Hn.
  - rewrite (cge_all obs x s' Hn Hx). destruct (obs <=? x) eqn:E; lia.
  - specialize (IH i' ltac:(lia) Hn). destruct (obs <=? x); lia.
Qed.

Lemma sorted_succ s : StronglySorted Z.le s -> forall k, (S k < length s)%nat -> nth k s 0 <= nth (S k) s 0.
Proof.
  induction 1 as [|x s' Hs IH Hx]; intros k Hk; cbn [length] in *; [lia|].
  destruct k as [|k]; cbn [nth].
  - apply (sorted_nth_le x s' 0%nat Hx). lia.
  - apply IH. lia.
Qed.

Section Coh.
Variables (a b obs : Z) (s : list Z).
Hypothesis Hab : 0 < a < b.
Hypothesis Hn : (2 <= length s)%nat.
Hypothesis Hs : StronglySorted Z.le s.
Let n := len s.
Let h := (n - 1) * (b - a).
Let lo := h / b.
Let r := h mod b.
Let vlo := nth (Z.to_nat lo) s 0.
Let vhi := nth (Z.to_nat (lo + 1)) s vlo.

Lemma facts : 2 <= n /\ 0 <= lo <= n - 1 /\ 0 <= r < b /\ h = b * lo + r /\ vlo <= vhi /\ (lo = n - 1 -> r = 0)
  /\ thr_b a b s = vlo * b + r * (vhi - vlo).
Proof.
  assert (Hn2 : 2 <= n) by (unfold n, len; lia).
  assert (Hr : 0 <= r < b) by (apply Z.mod_pos_bound; lia).
  assert (Hdiv : h = b * lo + r) by (apply Z.div_mod; lia).
  assert (Hh : 0 <= h <= (n-1) * b - 1) by (unfold h; nia).
  assert (Hlo : 0 <= lo <= n - 1) by nia.
  assert (Hlast : lo = n - 1 -> r = 0) by (intros E; nia).
  repeat split; try lia.
  unfold vhi. destruct (Z.eq_dec lo (n-1)) as [E|E].
  - rewrite nth_overflow; [lia|]. unfold n, len in *; lia.
  - rewrite (nth_indep s vlo 0) by (unfold n, len in *; lia).
      unfold vlo. replace (Z.to_nat (lo+1)) with (S (Z.to_nat lo)) by lia.
      apply sorted_succ; [exact Hs|]. unfold n, len in *; lia.
Qed.

Theorem strict_pass_coherent : pass_strict a b obs s = true -> count_ge obs s * b <= a * n + b.
Proof.
  destruct facts as (Hn2 & Hlo & Hr & Hdiv & Hle & _ & Ht).
  unfold pass_strict. rewrite Ht. intros Hp. apply Z.ltb_lt in Hp.
  assert (Hv : vlo < obs) by nia.
  pose proof (count_below obs s Hs (Z.to_nat lo) ltac:(unfold n, len in *; lia) Hv) as Hc.
  unfold count_ge. unfold n, len in *. unfold h in Hdiv. nia.
Qed.

Theorem strict_fail_coherent : pass_strict a b obs s = false -> a * n - b <= count_ge obs s * b.
Proof.
  destruct facts as (Hn2 & Hlo & Hr & Hdiv & Hle & Hlast & Ht).
  unfold pass_strict. rewrite Ht. intros Hp. apply Z.ltb_ge in Hp.
  (* obs*b <= vlo*b + r*(vhi-vlo) <= vhi*b, so obs <= vhi ; if r = 0 then obs <= vlo *)
  destruct (Z.eq_dec r 0) as [E0|E0].
  - assert (Hv : obs <= vlo) by nia.
    pose proof (count_above obs s Hs (Z.to_nat lo) ltac:(unfold n, len in *; lia) Hv) as Hc.
    unfold count_ge. unfold n, len in *. unfold h in Hdiv. nia.
  - assert (Hv : obs <= vhi) by nia.
    assert (Hlt : lo < n - 1) by (destruct (Z.eq_dec lo (n-1)); [specialize (Hlast e); lia|lia]).
    unfold vhi in Hv. rewrite (nth_indep s vlo 0) in Hv by (unfold n, len in *; lia).
    pose proof (count_above obs s Hs (Z.to_nat (lo+1)) ltac:(unfold n, len in *; lia) Hv) as Hc.
    unfold count_ge. unfold n, len in *. unfold h in Hdiv. nia.
Qed.

Theorem all_tied_never_strict : (forall v, In v s -> v = obs) -> pass_strict a b obs s = false.
Proof.
  intros Hall. destruct facts as (Hn2 & Hlo & Hr & Hdiv & Hle & Hlast & Ht).
  unfold pass_strict. rewrite Ht. apply Z.ltb_ge.
  assert (vlo = obs) by (apply Hall, nth_In; unfold n, len in *; lia).
  assert (vhi = obs).
  { unfold vhi. destruct (Z.eq_dec lo (n-1)) as [E|E].
    - rewrite nth_overflow; [lia|]. unfold n, len in *; lia.
    - apply Hall. rewrite (nth_indep s vlo 0) by (unfold n, len in *; lia). apply nth_In. unfold n, len in *; lia. }
  nia.
Qed.
End Coh.

(* the pinned code's non-strict verdict is refuted *)
Example weak_refuted : pass_weak 1 20 0 [0;0;0;0] = true /\ count_ge 0 [0;0;0;0] * 20 > 1 * 4 + 20.
Proof. vm_compute. split; reflexivity. Qed.
Print Assumptions strict_pass_coherent.
Print Assumptions strict_fail_coherent.
