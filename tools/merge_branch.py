#!/usr/bin/env python3
"""merge_branch.py <branch>: merge an agent branch; union-resolve coq/_CoqProject and tools/claims.json, regenerate MANIFEST."""
import json, subprocess, sys
br = sys.argv[1]
def git(*a, check=True):
    return subprocess.run(["git", "-C", "/verif", *a], capture_output=True, text=True, check=check).stdout
base = git("merge-base", "HEAD", br).strip()
subprocess.run(["git", "-C", "/verif", "merge", "--no-commit", "--no-ff", br], capture_output=True, text=True)
# _CoqProject: ours + lines of theirs not in ours
ours = git("show", "HEAD:coq/_CoqProject").splitlines()
theirs = git("show", f"{br}:coq/_CoqProject").splitlines()
new = ours + [l for l in theirs if l not in ours]
open("/verif/coq/_CoqProject", "w").write("\n".join(new) + "\n")
co = json.loads(git("show", "HEAD:tools/claims.json")); ct = json.loads(git("show", f"{br}:tools/claims.json"))
for k, v in ct.items():
    if k not in co:
        co[k] = v
json.dump(co, open("/verif/tools/claims.json", "w"), indent=1)
for f in ("MANIFEST.json",):
    subprocess.run(["git", "-C", "/verif", "checkout", "--ours", f], capture_output=True)
st = git("status", "--porcelain")
for line in st.splitlines():
    if line[:2] in ("UU", "AA") and line[3:] not in ("coq/_CoqProject", "tools/claims.json"):
        print("unresolved:", line)
        if line[3:].startswith("evidence/") or line[3:] == "MANIFEST.json":
            subprocess.run(["git", "-C", "/verif", "checkout", "--theirs" if line[3:].startswith("evidence/") else "--ours", line[3:]])
subprocess.run(["python3", "/verif/tools/manifest.py"])
subprocess.run(["git", "-C", "/verif", "add", "-A"])
print(git("status", "--short")[:1500])
