#!/usr/bin/env python3
"""try_seeded.py <seed-id> [property ...]  -- apply seeded/<id>/patch.diff to /repo, run the quick check(s), undo.
Records which check reported it in seeded/<id>/meta.json."""
import json, os, subprocess, sys
sid = sys.argv[1]
d = f"/verif/seeded/{sid}"
meta = json.load(open(f"{d}/meta.json"))
pids = sys.argv[2:] or [meta["property"]]
# TARGET: /repo itself (default) or, with SEED_SCRATCH=1, a scratch worktree of /repo's HEAD (used while other work reads /repo)
REPO = "/repo"
if os.environ.get("SEED_SCRATCH"):
    REPO = os.environ.get("SEED_SCRATCH_DIR", "/tmp/rw/main")
    if not os.path.isdir(REPO):
        subprocess.run(["git", "-C", "/repo", "worktree", "add", "-q", "--detach", REPO, "HEAD"], check=True)
    subprocess.run(["git", "-C", REPO, "checkout", "-q", "--detach", subprocess.run(["git", "-C", "/repo", "rev-parse", "HEAD"], capture_output=True, text=True).stdout.strip()], check=True)
assert subprocess.run(["git", "-C", REPO, "status", "--porcelain"], capture_output=True, text=True).stdout.strip() == "", f"{REPO} not clean"
subprocess.run(["git", "-C", REPO, "apply", f"{d}/patch.diff"], check=True)
res = {}
import shutil
for pid in pids:          # evidence written while a seeded change is applied must not replace the committed evidence
    if os.path.exists(f"/verif/evidence/{pid}.json"):
        shutil.copy(f"/verif/evidence/{pid}.json", f"/tmp/evidence_backup_{pid}.json")
try:
    for pid in pids:
        p = subprocess.run(["/verif/check", pid, "--tier", "quick"], capture_output=True, text=True, cwd="/verif", env=dict(os.environ, CE_REPO=REPO))
        lines = [l for l in p.stdout.splitlines() if l.startswith(("VIOLATION", "KNOWN-FINDING", "["))]
        res[pid] = {"rc": p.returncode, "lines": lines[:4]}
        print(pid, p.returncode, *lines[:4], sep="\n  ")
finally:
    subprocess.run(["git", "-C", REPO, "checkout", "--", "."], check=True)
    for pid in pids:
        if os.path.exists(f"/tmp/evidence_backup_{pid}.json"):
            shutil.move(f"/tmp/evidence_backup_{pid}.json", f"/verif/evidence/{pid}.json")
for v in res.values():
    v["target"] = REPO
meta.setdefault("detection", {}).update(res)
meta["detected"] = any(v["rc"] == 1 for v in meta["detection"].values())
json.dump(meta, open(f"{d}/meta.json", "w"), indent=1)
