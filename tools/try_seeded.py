#!/usr/bin/env python3
"""try_seeded.py <seed-id> [property ...]  -- apply seeded/<id>/patch.diff to /repo, run the quick check(s), undo.
Records which check reported it in seeded/<id>/meta.json."""
import json, os, subprocess, sys
sid = sys.argv[1]
d = f"/verif/seeded/{sid}"
meta = json.load(open(f"{d}/meta.json"))
pids = sys.argv[2:] or [meta["property"]]
assert subprocess.run(["git", "-C", "/repo", "status", "--porcelain"], capture_output=True, text=True).stdout.strip() == "", "/repo not clean"
subprocess.run(["git", "-C", "/repo", "apply", f"{d}/patch.diff"], check=True)
res = {}
import shutil
for pid in pids:          # evidence written while a seeded change is applied must not replace the committed evidence
    if os.path.exists(f"/verif/evidence/{pid}.json"):
        shutil.copy(f"/verif/evidence/{pid}.json", f"/tmp/evidence_backup_{pid}.json")
try:
    for pid in pids:
        p = subprocess.run(["/verif/check", pid, "--tier", "quick"], capture_output=True, text=True, cwd="/verif")
        lines = [l for l in p.stdout.splitlines() if l.startswith(("VIOLATION", "KNOWN-FINDING", "["))]
        res[pid] = {"rc": p.returncode, "lines": lines[:4]}
        print(pid, p.returncode, *lines[:4], sep="\n  ")
finally:
    subprocess.run(["git", "-C", "/repo", "checkout", "--", "."], check=True)
    for pid in pids:
        if os.path.exists(f"/tmp/evidence_backup_{pid}.json"):
            shutil.move(f"/tmp/evidence_backup_{pid}.json", f"/verif/evidence/{pid}.json")
meta.setdefault("detection", {}).update(res)
meta["detected"] = any(v["rc"] == 1 for v in meta["detection"].values())
json.dump(meta, open(f"{d}/meta.json", "w"), indent=1)
