#!/usr/bin/env python3
"""rerun_seeded.py [workers]: run every seeded change against the CURRENT quick check of its property (scratch worktrees of /repo,
one per worker; properties are partitioned over the workers so that evidence backups never collide) and print the ones not reported."""
import glob, json, os, re, subprocess, sys
from concurrent.futures import ThreadPoolExecutor
W = int(sys.argv[1]) if len(sys.argv) > 1 else 4
ids = sorted(os.path.basename(d) for d in glob.glob("/verif/seeded/C*-m*"))
byp = {}
for sid in ids:
    byp.setdefault(sid.split("-")[0], []).append(sid)
props = sorted(byp, key=lambda p: -len(byp[p]))
parts = [props[i::W] for i in range(W)]


def work(i):
    out = []
    env = dict(os.environ, SEED_SCRATCH="1", SEED_SCRATCH_DIR=f"/tmp/rw/w{i}", CE_RUN_TAG=f"w{i}")
    for p in parts[i]:
        for sid in sorted(byp[p], key=lambda s: int(re.search(r"-m(\d+)$", s).group(1))):
            r = subprocess.run(["python3", "/verif/tools/try_seeded.py", sid], capture_output=True, text=True, env=env)
            viol = [l for l in r.stdout.splitlines() if "VIOLATION" in l]
            cex = [l for l in viol if "no-failing-input-found" not in l]
            out.append((sid, "counterexample" if cex else "no-failing-input-found" if viol else "MISSED", r.stderr[-200:] if not viol else ""))
            print(out[-1][:2], flush=True)
    return out


with ThreadPoolExecutor(max_workers=W) as ex:
    res = [x for part in ex.map(work, range(W)) for x in part]
for i in range(W):
    subprocess.run(["git", "-C", "/repo", "worktree", "remove", "--force", f"/tmp/rw/w{i}"], capture_output=True)
print("total", len(res), "missed", [r for r in res if r[1] == "MISSED"], "suffix-only", [r[0] for r in res if r[1] == "no-failing-input-found"])
