#!/usr/bin/env python3
"""try_patch.py <patch.diff> [pid ...]: apply a patch to a scratch worktree of /repo's HEAD, run the quick checks (all by
default, 4 at a time) against it with CE_REPO, restore the evidence files, print per property: exit code and whether the
VIOLATION lines are counterexamples or `no-failing-input-found`.  Used to look for FALSE ALARMS on behaviour-preserving
refactorings and to cross-check seeded changes against every property."""
import json, os, shutil, subprocess, sys
from concurrent.futures import ThreadPoolExecutor
patch = os.path.abspath(sys.argv[1])
pids = sys.argv[2:] or [c["property_id"] for c in json.load(open("/verif/MANIFEST.json"))["checks"]]
WT = os.environ.get("PATCH_SCRATCH_DIR", "/tmp/rw/ref")
head = subprocess.run(["git", "-C", "/repo", "rev-parse", "HEAD"], capture_output=True, text=True).stdout.strip()
if not os.path.isdir(WT):
    subprocess.run(["git", "-C", "/repo", "worktree", "add", "-q", "--detach", WT, "HEAD"], check=True)
subprocess.run(["git", "-C", WT, "checkout", "-q", "--detach", head], check=True)
subprocess.run(["git", "-C", WT, "checkout", "--", "."], check=True)
subprocess.run(["git", "-C", WT, "apply", patch], check=True)
bak = f"/tmp/evidence_backup_{os.getpid()}"
shutil.copytree("/verif/evidence", bak)


def one(pid):
    p = subprocess.run(["/verif/check", pid, "--tier", "quick"], capture_output=True, text=True, cwd="/verif", env=dict(os.environ, CE_REPO=WT, CE_RUN_TAG="patch" + os.path.basename(WT)))
    v = [l for l in p.stdout.splitlines() if l.startswith("VIOLATION")]
    cex = [l for l in v if "no-failing-input-found" not in l]
    what = []
    for l in v[:2]:
        try:
            what.append(json.load(open(l.split("replay=")[1].split()[0]))["what"][:260])
        except Exception:
            pass
    return pid, p.returncode, len(cex), len(v) - len(cex), what


try:
    with ThreadPoolExecutor(max_workers=int(os.environ.get("PATCH_JOBS", "4"))) as ex:
        res = list(ex.map(one, pids))
finally:
    subprocess.run(["git", "-C", WT, "checkout", "--", "."], check=True)
    for f in os.listdir(bak):
        shutil.copy(os.path.join(bak, f), os.path.join("/verif/evidence", f))
    shutil.rmtree(bak)
quiet = [r[0] for r in res if r[1] == 0]
print("quiet:", " ".join(quiet))
for pid, rc, ncex, nsuf, what in res:
    if rc:
        print(f"ALARM {pid}: counterexamples={ncex} no-failing-input-found={nsuf}")
        for w in what:
            print("     ", w)
