#!/usr/bin/env python3
"""confirm_mutant.py <prop> <N> <worktree> <outdir> <seed-id>
Confirms a sub-agent's seeded change in a scratch worktree (demo passes clean, fails mutated; baseline
suite passes mutated) and files it under /verif/seeded/<seed-id>/."""
import json, os, shutil, subprocess, sys
prop, N, wt, out, sid = sys.argv[1:6]
env = dict(os.environ, PYTHONPATH=wt, PYTHONHASHSEED="0", MPLBACKEND="Agg")
def run(cmd, **kw):
    p = subprocess.run(cmd, cwd=wt, env=env, stdout=subprocess.PIPE, stderr=subprocess.STDOUT, text=True, **kw)
    return p.returncode, p.stdout
diff, demo, txt = f"{out}/mut{N}.diff", f"{out}/demo{N}.py", f"{out}/mut{N}.txt"
run(["git", "checkout", "--", "."])
rc_clean, o1 = run(["/venv/bin/python", demo])
rc_apply, o = run(["git", "apply", diff])
assert rc_apply == 0, o
rc_mut, o2 = run(["/venv/bin/python", demo])
rc_t, ot = run(["/venv/bin/python", "-m", "pytest", "-q", "-p", "no:cacheprovider", "--timeout=900", "-x", "--no-cov"])
tail = [l for l in ot.strip().splitlines() if "passed" in l or "failed" in l][-1:]
run(["git", "checkout", "--", "."])
ok = rc_clean == 0 and rc_mut != 0 and rc_t == 0 and tail and "381 passed" in tail[0]
res = {"property": prop, "id": sid, "demo_clean_rc": rc_clean, "demo_mutated_rc": rc_mut, "suite_rc": rc_t,
       "suite_tail": tail, "confirmed": bool(ok),
       "needs": open(txt).read() if os.path.exists(txt) else "",
       "ran": [f"PYTHONPATH=<wt> /venv/bin/python demo.py (clean -> rc {rc_clean}; with patch -> rc {rc_mut})",
               f"PYTHONPATH=<wt> /venv/bin/python -m pytest -q -p no:cacheprovider --timeout=900 -x --no-cov (with patch -> {tail})"],
       "demo_mutated_output_tail": o2[-600:]}
if ok:
    d = f"/verif/seeded/{sid}"
    os.makedirs(d, exist_ok=True)
    shutil.copy(diff, f"{d}/patch.diff"); shutil.copy(demo, f"{d}/demo.py")
    json.dump(res, open(f"{d}/meta.json", "w"), indent=1)
print(json.dumps({k: res[k] for k in ("id", "confirmed", "demo_clean_rc", "demo_mutated_rc", "suite_tail")}))
