#!/usr/bin/env python3
"""Regenerates MANIFEST.json from tools/claims.json (one entry per claimed property)."""
import json
V="/verif"
props=[json.loads(l) for l in open(f"{V}/properties.jsonl")]
claims=json.load(open(f"{V}/tools/claims.json"))
man=json.load(open(f"{V}/MANIFEST.json"))
man["checks"]=[]; man["not_applicable"]=[]
served=[]
for p in props:
    pid=p["id"]
    c=claims.get(pid)
    if not c or c.get("pending"):
        man["not_applicable"].append({"property_id":pid,"reason":(c or {}).get("reason","check not built yet (work in progress; see DESIGN.md section 8 for the build order)")})
        continue
    served.append(pid)
    man["checks"].append({"property_id":pid,"quick_cmd":f"./check {pid} --tier quick","thorough_cmd":f"./check {pid} --tier thorough",
      "evidence_file":f"/verif/evidence/{pid}.json","replay_cmd_template":f"./check {pid} --replay {{path}}","engine":"coq-model+correspondence",
      "level_claimed":{"category":"proof","text":c["text"],"design_ref":c.get("design_ref",f"DESIGN.md section 4 {pid}")},
      "level_note":c["note"],"technique":c["technique"]})
man["engines"][0]["serves_properties"]=served
json.dump(man,open(f"{V}/MANIFEST.json","w"),indent=1)
print("claimed",served)
