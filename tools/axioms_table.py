#!/usr/bin/env python3
"""axioms_table.py: prints the per-property axiom table of DESIGN 9.5 from evidence/*.json (key theorem_axioms)."""
import glob, json, os
def find(o, key):
    if isinstance(o, dict):
        if key in o:
            return o[key]
        for v in o.values():
            r = find(v, key)
            if r is not None:
                return r
    if isinstance(o, list):
        for v in o:
            r = find(v, key)
            if r is not None:
                return r
    return None
SHORT = {"ClassicalDedekindReals.sig_forall_dec": "sig_forall_dec", "ClassicalDedekindReals.sig_not_dec": "sig_not_dec",
         "FunctionalExtensionality.functional_extensionality_dep": "functional_extensionality_dep", "Classical_Prop.classic": "classic"}
print("| id | theorems | closed under the global context | axioms of the others (as `Print Assumptions` reports them) |")
print("|---|---|---|---|")
for f in sorted(glob.glob("/verif/evidence/C*.json")):
    pid = os.path.basename(f)[:-5]
    ta = find(json.load(open(f)), "theorem_axioms") or {}
    closed = sum(1 for v in ta.values() if not v)
    names = set()
    for v in ta.values():
        for a in v:
            a = a.split(":")[0].strip()
            if a.startswith(("Uint63.", "PrimInt63.", "Sint63.")):
                names.add("Int63 primitives + specs")
            elif a.startswith(("PrimFloat.", "FloatAxioms.")):
                names.add("primitive floats + FloatAxioms specs")
            else:
                names.add(SHORT.get(a, a))
    print(f"| {pid} | {len(ta)} | {closed} | {', '.join(sorted(names)) or '—'} |")
