#!/usr/bin/env python3
"""Prints the markdown table 'seeded change -> which check reports it' from seeded/*/meta.json."""
import glob, json, os
rows = []
for d in sorted(glob.glob("/verif/seeded/*")):
    m = json.load(open(f"{d}/meta.json"))
    needs = " ".join((m.get("needs") or "").split())
    first = needs.split("Violation:")[0].split("Why it violates")[0][:230]
    det = m.get("detection", {})
    by = ", ".join(f"{p} ({'VIOLATION' if v['rc'] == 1 else 'not reported'}"
                   f"{'; counterexample' if any('no-failing-input-found' not in l and l.startswith('VIOLATION') for l in v.get('lines', [])) else ''})"
                   for p, v in det.items()) or "not run yet"
    rows.append(f"| {os.path.basename(d)} | {m.get('property')} | {first} | {by} |")
print("| seeded change | breaks | what it changes / needs | reported by (quick tier) |\n|---|---|---|---|")
print("\n".join(rows))
