(* C18 tier 2 (mathcomp; every size n): the spectral part of "the linear Gaussian generator returns a matrix A
   supported on the transposed graph with spectral radius rho (0 if acyclic)".
     - a matrix supported on a DAG (edges go strictly down a rank function) is nilpotent, its characteristic
       polynomial is 'X^n, its only eigenvalue is 0                                   (any ring / any field)
     - eigenvalues, characteristic polynomial and support under scaling by s          (any field / ring)
     - over a numClosedFieldType (e.g. algC) the spectral radius IS a function (max modulus of the roots of the
       characteristic polynomial); it is characterised by "bounds every eigenvalue and is attained", obeys
       spectral_radius (s *: A) = `|s| * spectral_radius A, is 0 on DAG-supported matrices, and dividing by it and
       multiplying by rho yields radius rho.
   The code stores the edge j -> i at A[i][j]; r is a topological rank: A i j != 0 -> r j < r i. *)
From mathcomp Require Import all_ssreflect fingroup perm all_algebra.
Set Implicit Arguments. Unset Strict Implicit. Unset Printing Implicit Defensive.
Import Order.TTheory GRing.Theory Num.Theory.
Local Open Scope ring_scope.

(* matrix power for EVERY size n (mathcomp's ring structure on 'M_n, hence ^+, needs n = n'.+1) *)
Definition pow_mx (R : ringType) n (A : 'M[R]_n) (m : nat) : 'M[R]_n := iter m (mulmx A) 1%:M.
(* every edge of the support goes strictly down the rank function *)
Definition dag_supported (R : ringType) n (A : 'M[R]_n) (r : 'I_n -> nat) : Prop :=
  forall i j, A i j != 0 -> (r j < r i)%N.
(* number of vertices of strictly smaller rank: a rank function with values < n *)
Definition crank n (r : 'I_n -> nat) (i : 'I_n) : nat := #|[pred j | (r j < r i)%N]|.
Definition two_cycle (R : ringType) : 'M[R]_2 := \matrix_(i, j) (i != j)%:R.

Section Nilpotent.
Variable R : ringType.

Lemma pow_mxS n (A : 'M[R]_n) m : pow_mx A m.+1 = A *m pow_mx A m.
Proof. by []. Qed.

Lemma pow_mxE n (A : 'M[R]_n.+1) m : pow_mx A m = A ^+ m.
Proof. by elim: m => [|m IH] //; rewrite pow_mxS IH exprS. Qed.

(* a non-zero entry (i, j) of A^m is a walk of length m from i down to j: the rank drops by at least m *)
Lemma pow_mx_rank n (A : 'M[R]_n) r m : dag_supported A r ->
  forall i j, pow_mx A m i j != 0 -> (r j + m <= r i)%N.
Proof.
move=> dagA; elim: m => [|m IH] i j.
  by rewrite /pow_mx /= mxE addn0; have [->|_] := eqVneq i j; rewrite ?eqxx.
rewrite pow_mxS mxE => nz.
have [k nzk|all0] := pickP (fun k => A i k * pow_mx A m k j != 0).
  have nz1 : A i k != 0 by apply: contraNneq nzk => ->; rewrite mul0r.
  have nz2 : pow_mx A m k j != 0 by apply: contraNneq nzk => ->; rewrite mulr0.
  by rewrite addnS; apply: leq_ltn_trans (IH _ _ nz2) (dagA _ _ nz1).
by case/negP: nz; rewrite big1 // => k _; apply/eqP; move/negbFE: (all0 k).
Qed.

Theorem dag_nilpotent_above n (A : 'M[R]_n) r m : dag_supported A r -> (forall i, (r i < m)%N) -> pow_mx A m = 0.
Proof.
move=> dagA ltm; apply/matrixP => i j; rewrite [RHS]mxE; apply/eqP/negPn/negP => nz.
have := leq_trans (leq_addl _ _) (pow_mx_rank dagA nz).
by rewrite leqNgt ltm.
Qed.

Lemma crank_lt n (r : 'I_n -> nat) i : (crank r i < n)%N.
Proof.
rewrite -[X in (_ < X)%N]card_ord -(cardC [pred j | (r j < r i)%N]) /crank -[X in (X < _)%N]addn0 ltn_add2l.
by apply/card_gt0P; exists i; rewrite !inE ltnn.
Qed.

Lemma crank_mono n (r : 'I_n -> nat) i j : (r j < r i)%N -> (crank r j < crank r i)%N.
Proof.
move=> ltji; apply: proper_card; apply/properP; split.
  by apply/subsetP => k; rewrite !inE => ltkj; apply: ltn_trans ltkj ltji.
by exists j; rewrite !inE ?ltnn.
Qed.

Lemma dag_supported_crank n (A : 'M[R]_n) r : dag_supported A r -> dag_supported A (crank r).
Proof. by move=> dagA i j nz; apply: crank_mono; apply: dagA. Qed.

(* ACYCLIC => NILPOTENT, with the exponent n for every rank function *)
Theorem dag_nilpotent n (A : 'M[R]_n) r : dag_supported A r -> pow_mx A n = 0.
Proof. by move=> dagA; apply: (dag_nilpotent_above (dag_supported_crank dagA)) => i; apply: crank_lt. Qed.

Corollary dag_nilpotent_expr n (A : 'M[R]_n.+1) r : dag_supported A r -> A ^+ n.+1 = 0.
Proof. by move=> dagA; rewrite -pow_mxE; apply: dag_nilpotent dagA. Qed.

Lemma dag_diag0 n (A : 'M[R]_n) r i : dag_supported A r -> A i i = 0.
Proof. by move=> dagA; apply/eqP/negPn/negP => /dagA; rewrite ltnn. Qed.

(* supports under scaling; an integral domain makes it an equivalence *)
Lemma scale_support_sub n (A : 'M[R]_n) s i j : (s *: A) i j != 0 -> A i j != 0.
Proof. by rewrite mxE; apply: contraNneq => ->; rewrite mulr0. Qed.

Lemma dag_supported_scale n (A : 'M[R]_n) r s : dag_supported A r -> dag_supported (s *: A) r.
Proof. by move=> dagA i j /scale_support_sub/dagA. Qed.

(* non-vacuity of dag_supported: the strictly lower triangular all-ones matrix (complete DAG, every edge j -> i with j < i)
   with the rank r i = i; it is nilpotent by the theorem although every entry below the diagonal is non-zero *)
Example strict_lower_dag n : dag_supported (\matrix_(i < n, j < n) (j < i)%:R : 'M[R]_n) (fun i => i).
Proof. by move=> i j; rewrite mxE; case: (j < i)%N; rewrite ?eqxx. Qed.
Example strict_lower_nilpotent n : pow_mx (\matrix_(i < n, j < n) (j < i)%:R : 'M[R]_n) n = 0.
Proof. exact: dag_nilpotent (@strict_lower_dag n). Qed.

(* a 2-cycle is not nilpotent *)
Lemma two_cycle_sq : two_cycle R *m two_cycle R = 1%:M.
Proof.
apply/matrixP => i j; rewrite !mxE big_ord_recl big_ord1 !mxE.
by case: i => [[|[|i]] //= ?]; case: j => [[|[|j]] //= ?]; rewrite ?mulr0 ?mul0r ?mulr1 ?addr0 ?add0r.
Qed.

Lemma two_cycle_neq0 : two_cycle R != 0.
Proof.
apply/eqP => /matrixP /(_ 0 1); rewrite !mxE /= => /eqP; by rewrite oner_eq0.
Qed.

Lemma two_cycle_pow m : pow_mx (two_cycle R) m.+2 = pow_mx (two_cycle R) m.
Proof. by rewrite !pow_mxS mulmxA two_cycle_sq mul1mx. Qed.

Lemma two_cycle_not_nilpotent m : pow_mx (two_cycle R) m != 0.
Proof.
elim: m {-2}m (leqnn m) => [|k IH] [|[|m]] //.
- move=> _; apply/eqP => /matrixP /(_ 0 0); rewrite !mxE /= => /eqP; by rewrite oner_eq0.
- move=> _; apply/eqP => /matrixP /(_ 0 0); rewrite !mxE /= => /eqP; by rewrite oner_eq0.
- by move=> _; rewrite pow_mxS mulmx1 two_cycle_neq0.
- by rewrite ltnS => lemk; rewrite two_cycle_pow; apply: IH; apply: leq_trans lemk; apply: leqnSn.
Qed.

End Nilpotent.

Section ComRing.
Variable R : comRingType.

(* the characteristic polynomial of a DAG-supported matrix is 'X^n: in the Leibniz expansion of det('X - A)
   every permutation other than the identity has a factor on an absent edge *)
Theorem dag_char_poly n (A : 'M[R]_n) r : dag_supported A r -> char_poly A = 'X^n.
Proof.
move=> dagA; rewrite /char_poly /determinant (bigD1 (1%g : 'S_n)) //=.
rewrite [X in _ + X]big1 ?addr0 => [|s sn1].
  rewrite odd_perm1 expr0 mul1r (eq_bigr (fun=> 'X)) ?prodr_const ?card_ord // => i _.
  by rewrite perm1 !mxE eqxx (dag_diag0 _ dagA) polyC0 subr0.
have [i0 mv0] : exists i, s i != i.
  apply/existsP; apply: contraNT sn1; rewrite negb_exists => /forallP fx.
  by apply/eqP/permP => i; rewrite perm1; apply/eqP; move: (fx i); rewrite negbK.
case: (@arg_minnP _ i0 (fun i => s i != i) r mv0) => i mvi mini.
have mvsi : s (s i) != s i by rewrite (inj_eq perm_inj).
have zi : A i (s i) = 0.
  by apply/eqP/negPn/negP => /dagA; rewrite ltnNge mini.
rewrite (bigD1 i) //= !mxE zi polyC0 subr0 eq_sym (negbTE mvi) mulr0n mul0r mulr0 //.
Qed.

End ComRing.

Section Domain.
Variable R : idomainType.

Lemma scale_support n (A : 'M[R]_n) s i j : s != 0 -> ((s *: A) i j != 0) = (A i j != 0).
Proof. by move=> nzs; rewrite mxE mulf_eq0 (negbTE nzs). Qed.

Lemma dag_supported_scale_iff n (A : 'M[R]_n) r s : s != 0 -> dag_supported (s *: A) r <-> dag_supported A r.
Proof.
move=> nzs; split; last exact: dag_supported_scale.
by move=> dagsA i j nz; apply: dagsA; rewrite scale_support.
Qed.

End Domain.

Section Field.
Variable F : fieldType.

Lemma pow_mx_eigen n (A : 'M[F]_n) a (v : 'rV_n) m : v *m A = a *: v -> v *m pow_mx A m = a ^+ m *: v.
Proof.
move=> eq; elim: m => [|m IH]; first by rewrite /pow_mx /= mulmx1 expr0 scale1r.
by rewrite pow_mxS mulmxA eq -scalemxAl IH scalerA -exprS.
Qed.

(* a nilpotent matrix has no eigenvalue other than 0 *)
Theorem nilpotent_eigenvalue0 n (A : 'M[F]_n) m a : pow_mx A m = 0 -> eigenvalue A a -> a = 0.
Proof.
move=> nil /eigenvalueP [v eq nzv]; have := pow_mx_eigen m eq.
rewrite nil mulmx0 => /esym/eqP; rewrite scaler_eq0 (negbTE nzv) orbF expf_eq0.
by case/andP => _ /eqP.
Qed.

Theorem dag_eigenvalue0 n (A : 'M[F]_n) r a : dag_supported A r -> eigenvalue A a -> a = 0.
Proof. by move=> /dag_nilpotent; apply: nilpotent_eigenvalue0. Qed.

(* ... and for n > 0 it does have the eigenvalue 0 *)
Theorem dag_eigenvalue_is0 n (A : 'M[F]_n.+1) r : dag_supported A r -> eigenvalue A 0.
Proof. by move=> dagA; rewrite eigenvalue_root_char (dag_char_poly dagA) rootE hornerXn expr0n. Qed.

(* SCALING LAW for eigenvalues *)
Theorem eigenvalue_scale n (A : 'M[F]_n) s a : s != 0 -> eigenvalue (s *: A) (s * a) = eigenvalue A a.
Proof.
move=> nzs; apply/eigenvalueP/eigenvalueP => [] [v eq nzv]; exists v => //.
  by apply: (scalerI nzs); rewrite scalerA -eq -scalemxAr.
by rewrite -scalemxAr eq scalerA.
Qed.

Corollary eigenvalue_scale_div n (A : 'M[F]_n) s b : s != 0 -> eigenvalue (s *: A) b = eigenvalue A (b / s).
Proof. by move=> nzs; rewrite -{1}[b](mulfVK nzs) [b / s * s]mulrC eigenvalue_scale. Qed.

(* ... and for the characteristic polynomial: chi_(sA)(s X) = s^n chi_A(X) *)
Theorem char_poly_scale n (A : 'M[F]_n) s : char_poly (s *: A) \Po (s *: 'X) = s ^+ n *: char_poly A.
Proof.
rewrite /char_poly -det_map_mx -[RHS]mul_polyC polyC_exp -detZ; congr (\det _).
apply/matrixP => i j; rewrite !mxE /= rmorphB /= rmorphMn /= comp_polyX comp_polyC.
by rewrite mulrBr mulrnAr -polyCM mul_polyC.
Qed.

Corollary root_char_poly_scale n (A : 'M[F]_n) s a : s != 0 ->
  root (char_poly (s *: A)) (s * a) = root (char_poly A) a.
Proof. by move=> nzs; rewrite -!eigenvalue_root_char eigenvalue_scale. Qed.

(* the 2-cycle has the eigenvalue 1 (so its spectral radius is not 0) *)
Lemma two_cycle_eigenvalue1 : eigenvalue (two_cycle F) 1.
Proof.
apply/eigenvalueP; exists (const_mx 1).
  apply/matrixP => i j; rewrite !mxE big_ord_recl big_ord1 !mxE.
  by case: j => [[|[|j]] //= ?]; rewrite ?mulr0 ?mul0r ?mulr1 ?addr0 ?add0r.
by apply/eqP => /matrixP /(_ 0 0); rewrite !mxE => /eqP; rewrite oner_eq0.
Qed.

End Field.

(* ---------------- the spectral radius as a function, over a numClosedFieldType (algC is one) ---------------- *)
Section Radius.
Variable C : numClosedFieldType.

Fixpoint max_norm (s : seq C) : C :=
  if s is z :: s' then (if max_norm s' <= `|z| then `|z| else max_norm s') else 0.
(* the eigenvalues with multiplicity: the roots of the characteristic polynomial *)
Definition eigen_seq n (A : 'M[C]_n) : seq C := sval (closed_field_poly_normal (char_poly A)).
Definition spectral_radius n (A : 'M[C]_n) : C := max_norm (eigen_seq A).
(* the defining property of a spectral radius: bounds the modulus of every eigenvalue, attained by one *)
Definition is_spectral_radius n (A : 'M[C]_n) (R : C) : Prop :=
  (forall a, eigenvalue A a -> `|a| <= R) /\ (exists2 a, eigenvalue A a & `|a| = R).

Lemma max_norm_ge0 s : 0 <= max_norm s.
Proof. by elim: s => //= z s IH; case: ifP. Qed.

Lemma max_norm_ge s z : z \in s -> `|z| <= max_norm s.
Proof.
elim: s => //= w s IH; rewrite inE => /orP [/eqP ->|/IH le]; case: ifP => // H.
- have := real_leVge (ger0_real (max_norm_ge0 s)) (normr_real w).
  by rewrite H /=.
- exact: le_trans le H.
Qed.

Lemma max_norm_attained s : s != [::] -> exists2 z, z \in s & `|z| = max_norm s.
Proof.
elim: s => //= w [|w' s] IH _.
  by exists w; rewrite ?inE //= normr_ge0.
case: ifP => _; first by exists w; rewrite ?inE ?eqxx.
by have [//|z zin eq] := IH; exists z; rewrite // inE zin orbT.
Qed.

Lemma char_poly_eigen_seq n (A : 'M[C]_n) : char_poly A = \prod_(z <- eigen_seq A) ('X - z%:P).
Proof.
rewrite /eigen_seq; case: closed_field_poly_normal => rs /= ->.
by rewrite (monicP (char_poly_monic A)) scale1r.
Qed.

Lemma eigen_seqP n (A : 'M[C]_n) a : (a \in eigen_seq A) = eigenvalue A a.
Proof. by rewrite eigenvalue_root_char char_poly_eigen_seq root_prod_XsubC. Qed.

Lemma size_eigen_seq n (A : 'M[C]_n) : size (eigen_seq A) = n.
Proof. by apply/eqP; rewrite -eqSS -(size_prod_XsubC _ id) -char_poly_eigen_seq size_char_poly. Qed.

Lemma spectral_radius_ge0 n (A : 'M[C]_n) : 0 <= spectral_radius A.
Proof. exact: max_norm_ge0. Qed.

Lemma spectral_radius0 (A : 'M[C]_0) : spectral_radius A = 0.
Proof. by rewrite /spectral_radius; have /size0nil -> := size_eigen_seq A. Qed.

(* for n > 0 the function has the defining property ... *)
Theorem spectral_radiusP n (A : 'M[C]_n.+1) : is_spectral_radius A (spectral_radius A).
Proof.
split=> [a|]; first by rewrite -eigen_seqP; apply: max_norm_ge.
have ne : eigen_seq A != [::] by rewrite -size_eq0 size_eigen_seq.
by have [z zin eq] := max_norm_attained ne; exists z; rewrite -?eigen_seqP.
Qed.

(* ... which determines it *)
Lemma is_spectral_radius_uniq n (A : 'M[C]_n) R1 R2 : is_spectral_radius A R1 -> is_spectral_radius A R2 -> R1 = R2.
Proof.
move=> [le1 [a1 ev1 eq1]] [le2 [a2 ev2 eq2]]; apply: le_anti.
by rewrite -{1}eq1 -{2}eq2 le2 // le1.
Qed.

Corollary spectral_radius_eq n (A : 'M[C]_n.+1) R : is_spectral_radius A R -> spectral_radius A = R.
Proof. by move=> H; apply: is_spectral_radius_uniq (spectral_radiusP A) H. Qed.

(* SCALING LAW on the defining property: s != 0, any complex s *)
Theorem is_spectral_radius_scale n (A : 'M[C]_n) s R : s != 0 ->
  is_spectral_radius A R -> is_spectral_radius (s *: A) (`|s| * R).
Proof.
move=> nzs [le [a ev eq]]; split=> [b|].
  rewrite (eigenvalue_scale_div _ _ nzs) => /le leb.
  by rewrite -[b](mulfVK nzs) mulrC normrM ler_wpmul2l.
by exists (s * a); rewrite ?eigenvalue_scale // normrM eq.
Qed.

Lemma is_spectral_radius_zero n : is_spectral_radius (0 : 'M[C]_n.+1) 0.
Proof.
have dag0 : dag_supported (0 : 'M[C]_n.+1) (fun=> 0%N) by move=> i j; rewrite mxE eqxx.
split=> [a /(dag_eigenvalue0 dag0) ->|]; first by rewrite normr0.
by exists 0; rewrite ?normr0 //; apply: dag_eigenvalue_is0 dag0.
Qed.

(* SCALING LAW for the function: every size, every scalar (0 included) *)
Theorem spectral_radius_scale n (A : 'M[C]_n) s : spectral_radius (s *: A) = `|s| * spectral_radius A.
Proof.
case: n A => [|n] A; first by rewrite !spectral_radius0 mulr0.
have [->|nzs] := eqVneq s 0.
  by rewrite scale0r normr0 mul0r; apply/spectral_radius_eq/is_spectral_radius_zero.
by apply/spectral_radius_eq/is_spectral_radius_scale/spectral_radiusP.
Qed.

(* "0 IF ACYCLIC" *)
Theorem dag_spectral_radius n (A : 'M[C]_n) r : dag_supported A r -> spectral_radius A = 0.
Proof.
case: n A r => [|n] A r dagA; first exact: spectral_radius0.
apply: spectral_radius_eq; split=> [a /(dag_eigenvalue0 dagA) ->|]; first by rewrite normr0.
by exists 0; rewrite ?normr0 //; apply: dag_eigenvalue_is0 dagA.
Qed.

(* lines 52-54 of synthetic.py in exact arithmetic: M scaled by rho / m *)
Theorem normalised_radius_general n (M : 'M[C]_n) rho m :
  spectral_radius ((rho / m) *: M) = `|rho| / `|m| * spectral_radius M.
Proof. by rewrite spectral_radius_scale normrM normfV. Qed.

(* dividing by the true radius (non-zero: the graph has a cycle that survives) and multiplying by rho >= 0 gives
   radius exactly rho; an acyclic support keeps radius 0 whatever the factor *)
Theorem normalised_radius_is_rho n (M : 'M[C]_n) rho : 0 <= rho -> spectral_radius M != 0 ->
  spectral_radius ((rho / spectral_radius M) *: M) = rho.
Proof.
move=> rho0 nz; rewrite normalised_radius_general (ger0_norm rho0) (ger0_norm (spectral_radius_ge0 M)).
by rewrite mulfVK.
Qed.

Theorem normalised_radius_acyclic n (M : 'M[C]_n) r s : dag_supported M r -> spectral_radius (s *: M) = 0.
Proof. by move=> dagM; rewrite spectral_radius_scale (dag_spectral_radius dagM) mulr0. Qed.

(* the 2-cycle has radius 1 >= 1 > 0 *)
Lemma two_cycle_radius_ge1 : 1 <= spectral_radius (two_cycle C).
Proof. by have [le _] := spectral_radiusP (two_cycle C); rewrite -[1]normr1; apply/le/two_cycle_eigenvalue1. Qed.

(* non-vacuity of the hypotheses of normalised_radius_is_rho: the 2-cycle normalised to any rho >= 0 has radius rho *)
Example two_cycle_normalised rho : 0 <= rho ->
  spectral_radius ((rho / spectral_radius (two_cycle C)) *: two_cycle C) = rho.
Proof.
move=> rho0; apply: normalised_radius_is_rho => //.
by rewrite gt_eqF // (lt_le_trans ltr01 two_cycle_radius_ge1).
Qed.

(* packaged statements for Properties/C18Mx.v *)
Theorem two_cycle_facts : eigenvalue (two_cycle C) 1 /\ 1 <= spectral_radius (two_cycle C).
Proof. by split; [exact: two_cycle_eigenvalue1|exact: two_cycle_radius_ge1]. Qed.

Theorem spectral_radius_char n (A : 'M[C]_n.+1) :
  is_spectral_radius A (spectral_radius A) /\ forall R, is_spectral_radius A R -> spectral_radius A = R.
Proof. by split; [exact: spectral_radiusP|exact: spectral_radius_eq]. Qed.

Theorem normalised_radius n (M : 'M[C]_n) rho :
  (forall m, spectral_radius ((rho / m) *: M) = `|rho| / `|m| * spectral_radius M) /\
  (0 <= rho -> spectral_radius M != 0 -> spectral_radius ((rho / spectral_radius M) *: M) = rho) /\
  (forall r s, dag_supported M r -> spectral_radius (s *: M) = 0).
Proof.
split; first by move=> m; exact: normalised_radius_general.
by split; [exact: normalised_radius_is_rho|move=> r s; exact: normalised_radius_acyclic].
Qed.

End Radius.
