(* C12: the MathComp rank theorems of GeoRankMx.v as theorems about the executable list functions of Model/GeoEllipsoid.v
   (centred, gram) and Model/GeoRank.v (zdet, gram_rows, rank_one), for EVERY neighbourhood size k+1 and dimension d.

   nb = the sample and its k nearest neighbours (k+1 integer points of length d);  A = centred nb d = (k+1) x (nb - column
   means) (integers);  G = gram A d = A^T A;  gram_rows A = A A^T.
     centred_mx        mx_of_zmat (centred nb d) = (k+1) *: centre (mx_of_zmat nb)       (GeoRankMx.centre, over rat)
     gram_mx, gram_rows_mx   the list Gram matrices are gramT / gramS of the embedded matrix
     zdet_gram_centred_eq0      k < d  ->  zdet d (gram (centred nb d) d) = 0             (transport of det_gramT_rat)
     zdet_gram_rows_centred_eq0          zdet (k+1) (gram_rows (centred nb d)) = 0         (transport of det_gramS_eq0)
     det_piv_gram_centred_None  k < d  ->  Gauss.det_piv on the same matrix meets a zero pivot
     rank_one_exact_part        what Model/GeoRank.rank_one computes by exact arithmetic is determined: only the comparisons
                                with the recorded singular values (and, for k >= d, "G is non-singular") remain data *)
From Coq Require Import QArith ZArith List.
From mathcomp Require Import all_ssreflect all_algebra.
From mathcomp Require Import ssrZ.
From CE Require Import GeneratorsMxBridge LinAlgBridge GeoRankMx.
From CE Require Model.Gauss Model.GeoKnn Model.GeoEllipsoid Model.GeoRank Proofs.GaussProofs Proofs.GeoEllipsoidProofs.
Set Implicit Arguments. Unset Strict Implicit. Unset Printing Implicit Defensive.
Import GRing.Theory Num.Theory.
Close Scope Q_scope. Close Scope Z_scope. Close Scope R_scope.
Local Open Scope ring_scope.

Notation pointsP d nb := (List.Forall (fun q : seq Z => List.length q = d) nb).

Lemma pointsP_all d (nb : seq (seq Z)) : pointsP d nb <-> all (fun q => size q == d) nb.
Proof. by split=> [/(ForallP (p := fun q => size q == d))|/(ForallP (P := fun q => List.length q = d))]; apply=> x; exact: eqP. Qed.

Lemma zget_tab (f : nat -> nat -> Z) n m i j : (i < n)%N -> (j < m)%N ->
  zget (map (fun i => map (fun j => f i j) (iota 0 m)) (iota 0 n)) i j = f i j.
Proof.
by move=> lti ltj; rewrite /zget (nth_map 0%N) ?size_iota // (nth_map 0%N) ?size_iota // !nth_iota.
Qed.

(* G = A^T A *)
Lemma gram_mx k d (A : seq (seq Z)) : size A = k.+1 ->
  mx_of_zmat d d (GeoEllipsoid.gram A d) = gramT (mx_of_zmat k.+1 d A).
Proof.
move=> sz; apply/matrixP => i j; rewrite !mxE /GeoEllipsoid.gram !seqE zget_tab // fold_rightE (Zrat_zsum _ [::]) sz.
by apply: eq_bigr => l _; rewrite !mxE Zrat_mul !nthE.
Qed.

Lemma size_gram A d : size (GeoEllipsoid.gram A d) = d.
Proof. by rewrite /GeoEllipsoid.gram size_map seqE size_iota. Qed.

(* A A^T *)
Lemma zdot_sum d a b : size a = d -> size b = d ->
  Zrat (GeoRank.zdot a b) = \sum_(l < d) Zrat (nth Z0 a l) * Zrat (nth Z0 b l).
Proof.
move=> sa sb; rewrite /GeoRank.zdot fold_rightE combineE (Zrat_zsum _ (Z0, Z0)) size_zip sa sb minnn.
by apply: eq_bigr => l _; rewrite nth_zip ?sa ?sb //= Zrat_mul.
Qed.

Lemma gram_rows_mx k d (A : seq (seq Z)) : wf_mat k.+1 d A ->
  mx_of_zmat k.+1 k.+1 (GeoRank.gram_rows A) = gramS (mx_of_zmat k.+1 d A).
Proof.
move=> wf; have sz : size A = k.+1 by case/andP: wf => /eqP.
apply/matrixP => i j; rewrite !mxE /GeoRank.gram_rows /zget (nth_map [::]) ?sz // (nth_map [::]) ?sz //.
rewrite (@zdot_sum d) ?(wf_mat_row wf) //.
by apply: eq_bigr => l _; rewrite !mxE.
Qed.

Lemma size_gram_rows A : size (GeoRank.gram_rows A) = size A.
Proof. by rewrite /GeoRank.gram_rows size_map. Qed.

(* shape and column sums of the executable centring *)
Lemma centred_wf d nb : pointsP d nb -> wf_mat (size nb) d (GeoEllipsoid.centred nb d).
Proof.
move=> H; rewrite /wf_mat /GeoEllipsoid.centred size_map eqxx all_map /=.
apply/(all_nthP [::]) => i lti /=; apply/eqP; apply: GeoEllipsoidProofs.fold_vadd_length.
have /pointsP_all/(all_nthP [::])/(_ i lti)/eqP sp := H.
apply/(ForallP (p := fun v => size v == d)); first by move=> x; exact: eqP.
rewrite all_map; apply/(all_nthP [::]) => l ltl /=.
have /pointsP_all/(all_nthP [::])/(_ l ltl)/eqP sl := H.
by rewrite /GeoEllipsoid.vsub size_map combineE size_zip sp sl minnn.
Qed.

Lemma colsum_mx n m (A : seq (seq Z)) (j : 'I_m) : size A = n ->
  \sum_(l < n) mx_of_zmat n m A l j = Zrat (GeoEllipsoidProofs.zsum (GeoEllipsoidProofs.col j A)).
Proof.
move=> sz; rewrite /GeoEllipsoidProofs.zsum /GeoEllipsoidProofs.col fold_rightE (Zrat_zsum _ [::]) sz.
by apply: eq_bigr => l _; rewrite mxE nthE.
Qed.

Lemma ones_centred k d nb : size nb = k.+1 -> pointsP d nb ->
  ones rat_fieldType k *m mx_of_zmat k.+1 d (GeoEllipsoid.centred nb d) = 0.
Proof.
move=> sz H; apply/matrixP => i j; rewrite !mxE.
rewrite (eq_bigr (fun l => mx_of_zmat k.+1 d (GeoEllipsoid.centred nb d) l j)); last by move=> l _; rewrite mxE mul1r.
rewrite colsum_mx; last by rewrite /GeoEllipsoid.centred size_map.
by rewrite GeoEllipsoidProofs.centred_colsum_zero.
Qed.

(* a matrix whose columns sum to zero is its own centring *)
Lemma centre_id (F : fieldType) k d (Y : 'M[F]_(k.+1, d)) : ones F k *m Y = 0 -> centre Y = Y.
Proof. by move=> H; rewrite /centre /colmean H scaler0 mulmx0 subr0. Qed.

(* the executable centring is (k+1) x GeoRankMx.centre of the points *)
Lemma centred_mx k d nb : size nb = k.+1 -> pointsP d nb ->
  mx_of_zmat k.+1 d (GeoEllipsoid.centred nb d) = (k.+1)%:R *: centre (mx_of_zmat k.+1 d nb).
Proof.
move=> sz H; apply/matrixP => i j; rewrite !mxE big_ord1 !mxE mul1r.
rewrite (eq_bigr (fun l => mx_of_zmat k.+1 d nb l j)); last by move=> l _; rewrite mxE mul1r.
rewrite mulrBr mulrA divff ?pnatr_eq0 // mul1r colsum_mx //.
rewrite /zget /GeoEllipsoid.centred (nth_map [::]) ?sz // -nthE GeoEllipsoidProofs.centred_entry //; last first.
  by have /pointsP_all/(all_nthP [::]) Hn := H; apply/eqP/Hn; rewrite sz.
by rewrite Zrat_sub Zrat_mul Zrat_of_nat -[List.length nb]/(size nb) sz nthE.
Qed.

Section Singular.
Variables (k d : nat) (nb : seq (seq Z)).
Hypothesis sz : size nb = k.+1.
Hypothesis shape : pointsP d nb.
Let A := GeoEllipsoid.centred nb d.

Lemma sizeA : size A = k.+1.
Proof. by rewrite /A /GeoEllipsoid.centred size_map. Qed.

(* (k+1) x (k+1) Gram matrix of the rows: always singular *)
Theorem zdet_gram_rows_centred_eq0 : GeoRank.zdet k.+1 (GeoRank.gram_rows A) = Z0.
Proof.
apply/zdet_eq0; first by rewrite size_gram_rows sizeA.
have wf := centred_wf shape; rewrite sz in wf.
by rewrite (gram_rows_mx wf) -(centre_id (ones_centred sz shape)) det_gramS_eq0 // pnatr_eq0.
Qed.

(* d x d Gram matrix: singular as soon as k < d *)
Theorem zdet_gram_centred_eq0 : (k < d)%N -> GeoRank.zdet d (GeoEllipsoid.gram A d) = Z0.
Proof.
move=> kd; apply/zdet_eq0; first exact: size_gram.
by rewrite (gram_mx _ sizeA) -(centre_id (ones_centred sz shape)) det_gramT_rat.
Qed.

Lemma gramQ_wf : wf_mat d d (map (map inject_Z) (GeoEllipsoid.gram A d)).
Proof.
rewrite /wf_mat size_map size_gram eqxx all_map /GeoEllipsoid.gram all_map /=.
by apply/allP => i _ /=; rewrite !size_map seqE size_iota.
Qed.

Lemma gramZ_wf : wf_mat d d (GeoEllipsoid.gram A d).
Proof. by have := gramQ_wf; rewrite /wf_mat size_map all_map; congr (_ && _); apply: eq_all => r /=; rewrite size_map. Qed.

(* whenever Gauss.v's elimination succeeds on G it returns the (non-zero) value of the cofactor expansion *)
Theorem det_piv_gram_centred v : Gauss.det_piv (map (map inject_Z) (GeoEllipsoid.gram A d)) = Some v ->
  ~ Qeq v (Qmake Z0 xH) /\ Qeq v (inject_Z (GeoRank.zdet d (GeoEllipsoid.gram A d))).
Proof. by move=> Hv; split; [exact: GaussProofs.det_piv_nonzero Hv|exact: det_piv_zdet gramZ_wf Hv]. Qed.

(* ... hence it meets a zero pivot when k < d *)
Theorem det_piv_gram_centred_None : (k < d)%N -> Gauss.det_piv (map (map inject_Z) (GeoEllipsoid.gram A d)) = None.
Proof.
move=> kd; case E: (Gauss.det_piv _) => [v|] //; have [nz] := det_piv_gram_centred E.
by rewrite zdet_gram_centred_eq0.
Qed.
End Singular.

(* Model/GeoRank.rank_one, the per-neighbourhood check of the correspondence: every conjunct that is computed by exact
   arithmetic on the neighbourhood is a theorem; what remains is the comparison with the recorded singular values
   (s0 > 0; k < d: trailing/leading <= 1e-12 in squares) and, for k >= d, that the Gram matrix is non-singular. *)
Theorem rank_one_exact_part d (p : seq Z) (l : seq (seq Z)) (s0 st : Q) : pointsP d (p :: l) ->
  GeoRank.rank_one d p l s0 st =
  negb (Qle_bool s0 (Qmake Z0 xH)) &&
  (if Nat.ltb (List.length l) d then Qle_bool (Qmult st GeoRank.E12) s0
   else if Gauss.det_piv (List.map (List.map inject_Z) (GeoEllipsoid.gram (GeoEllipsoid.centred (p :: l) d) d)) is Some _
        then true else false).
Proof.
move=> H; have sz : size (p :: l) = (size l).+1 by [].
rewrite /GeoRank.rank_one; cbv zeta; rewrite GeoEllipsoidProofs.colsums0_centred // andTb.
case: Nat.ltb_spec => [/ltP kd|/leP dk]; congr (_ && _).
  rewrite (zdet_gram_rows_centred_eq0 sz H) (zdet_gram_centred_eq0 sz H kd).
  by rewrite (det_piv_gram_centred_None sz H kd).
case E: (Gauss.det_piv _) => [v|] //; have [nz eq] := det_piv_gram_centred E.
have /Qeq_bool_iff -> := eq; rewrite andbT.
by case E0: (Qeq_bool v _) => //; case: nz; exact/Qeq_bool_iff.
Qed.

(* summaries for Properties/C12Mx.v *)
Theorem centred_mx_facts k d (nb : seq (seq Z)) : size nb = k.+1 -> pointsP d nb ->
  mx_of_zmat k.+1 d (GeoEllipsoid.centred nb d) = (k.+1)%:R *: centre (mx_of_zmat k.+1 d nb) /\
  mx_of_zmat d d (GeoEllipsoid.gram (GeoEllipsoid.centred nb d) d) = gramT (mx_of_zmat k.+1 d (GeoEllipsoid.centred nb d)) /\
  mx_of_zmat k.+1 k.+1 (GeoRank.gram_rows (GeoEllipsoid.centred nb d)) = gramS (mx_of_zmat k.+1 d (GeoEllipsoid.centred nb d)).
Proof.
move=> sz H; split; first exact: centred_mx.
have wf := centred_wf H; rewrite sz in wf.
by split; [apply: gram_mx; case/andP: wf => /eqP|exact: gram_rows_mx].
Qed.

Theorem centred_gram_determinants (nb : seq (seq Z)) d : nb <> [::] -> pointsP d nb ->
  GeoRank.zdet (List.length nb) (GeoRank.gram_rows (GeoEllipsoid.centred nb d)) = Z0 /\
  ((List.length nb <= d)%coq_nat ->
     GeoRank.zdet d (GeoEllipsoid.gram (GeoEllipsoid.centred nb d) d) = Z0 /\
     Gauss.det_piv (List.map (List.map inject_Z) (GeoEllipsoid.gram (GeoEllipsoid.centred nb d) d)) = None).
Proof.
case: nb => [|p l] // _ H; have sz : size (p :: l) = (size l).+1 by [].
split; first exact: zdet_gram_rows_centred_eq0 sz H.
by move/leP => kd; split; [exact: zdet_gram_centred_eq0 sz H kd|exact: det_piv_gram_centred_None sz H kd].
Qed.

(* non-vacuity: three points in dimension 4 (k = 2 < d = 4) satisfy the hypotheses; the conclusions, here also computed;
   and in dimension 2 (k = 2 >= d) the Gram determinant of the same points' first two coordinates is not 0 *)
Example ex_rank_hypotheses :
  let nb := [:: [:: Zpos 1; Zpos 2; Zpos 3; Z0]; [:: Zpos 4; Z0; Zpos 2; Zneg 1]; [:: Z0; Zpos 5; Zpos 1; Zpos 7]] in
  nb <> [::] /\ pointsP 4%N nb /\ (List.length nb <= 4%N)%coq_nat /\
  GeoRank.zdet 4%N (GeoEllipsoid.gram (GeoEllipsoid.centred nb 4%N) 4%N) = Z0 /\
  GeoRank.zdet 3%N (GeoRank.gram_rows (GeoEllipsoid.centred nb 4%N)) = Z0 /\
  GeoRank.zdet 2%N (GeoEllipsoid.gram (GeoEllipsoid.centred (map (take 2%N) nb) 2%N) 2%N) <> Z0.
Proof. by do !split=> //; do !constructor. Qed.
