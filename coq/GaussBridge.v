(* C08: the MathComp theorems of GaussMx.v (Schur determinant, determinant form = residual form, X/Y swap, mixing of Z) as
   theorems about the executable list functions of Model/Gauss.v (sc, gram, det_idx, ratio_det), for EVERY block size.

   D = the sample (list of rows over Q), idx = list of column indices, N = size D.
     cmx N D n idx : 'M[rat]_(N, n)    the CENTRED columns idx_0 .. idx_(n-1) of the sample (entry minus column mean)
     gram_cmx        mx_of_mat n n (Gauss.gram D idx) = GaussMx.gram (cmx N D n idx) = (cmx N D n idx)^T *m cmx N D n idx
     cmx_cat         cmx D (n1 + n2) (ix ++ iz) = row_mx (cmx D n1 ix) (cmx D n2 iz)
     det_idx_det     det_idx D idx = Some q -> \det (gram (cmx N D n idx)) = Qrat q
     ratio_det_mx    ratio_det D ix iy iz = Some q -> Qrat q = ratio_mx X Y Z   (X, Y, Z the centred blocks) *)
From Coq Require Import QArith ZArith List.
From mathcomp Require Import all_ssreflect all_fingroup all_algebra.
From mathcomp Require Import ssrZ.
From CE Require Import GeneratorsMxBridge LinAlgBridge GaussMx.
From CE Require Model.Gauss Proofs.GaussProofs.
Set Implicit Arguments. Unset Strict Implicit. Unset Printing Implicit Defensive.
Import GRing.Theory Num.Theory.
Close Scope Q_scope. Close Scope Z_scope.
Local Open Scope ring_scope.

Notation Q0 := (Qmake Z0 xH).

(* centred value of column i in row l *)
Definition cval (D : seq (seq Q)) (i l : nat) : Q := Qminus (Gauss.getc i (nth [::] D l)) (Gauss.mean (Gauss.getc i) D).
Definition cmx (N : nat) (D : seq (seq Q)) (n : nat) (idx : seq nat) : 'M[rat]_(N, n) :=
  \matrix_(l, a) Qrat (cval D (nth 0%N idx a) l).

Lemma qget_gram D idx a b : (a < size idx)%N -> (b < size idx)%N ->
  qget (Gauss.gram D idx) a b = Gauss.sc D (nth 0%N idx a) (nth 0%N idx b).
Proof. by move=> lta ltb; rewrite /qget /Gauss.gram (nth_map 0%N) // (nth_map 0%N). Qed.

Lemma gram_wf D idx : wf_mat (size idx) (size idx) (Gauss.gram D idx).
Proof. by rewrite /wf_mat /Gauss.gram size_map eqxx all_map; apply/allP => i _ /=; rewrite size_map. Qed.

Lemma Qrat_sc N D i j : D <> [::] -> size D = N ->
  Qrat (Gauss.sc D i j) = \sum_(l < N) Qrat (cval D i l) * Qrat (cval D j l).
Proof.
move=> HD <-; rewrite (Qrat_eq (@GaussProofs.sc_is_centred D i j HD)) /Gauss.sc_centred (Qrat_qsum _ [::]).
by apply: eq_bigr => l _; rewrite Qrat_mul.
Qed.

(* the scatter matrix of the model is the Gram matrix of the centred columns; leading blocks included (n <= size idx) *)
Lemma gram_cmx N D n idx : D <> [::] -> size D = N -> (n <= size idx)%N ->
  mx_of_mat n n (Gauss.gram D idx) = gram (cmx N D n idx).
Proof.
move=> HD sD le; apply/matrixP => a b; rewrite !mxE qget_gram ?(leq_trans (ltn_ord _) le) // (Qrat_sc _ _ HD sD).
by apply: eq_bigr => l _; rewrite !mxE.
Qed.

Lemma cmx_cat N D n1 n2 ix iz : size ix = n1 -> cmx N D (n1 + n2) (ix ++ iz) = row_mx (cmx N D n1 ix) (cmx N D n2 iz).
Proof.
move=> sx; apply/matrixP => l a; rewrite !mxE nth_cat sx; case: splitP => a' ->; rewrite mxE.
  by [].
by rewrite addKn.
Qed.

Theorem det_idx_det N D n idx q : D <> [::] -> size D = N -> size idx = n -> Gauss.det_idx D idx = Some q ->
  \det (gram (cmx N D n idx)) = Qrat q.
Proof.
move=> HD sD sz Hq; rewrite -gram_cmx ?sz //; apply: det_piv_det Hq; rewrite -sz; exact: gram_wf.
Qed.

Lemma ratio_ofP a b c d q : Gauss.ratio_of a b c d = Some q ->
  exists a' b' c' d', [/\ a = Some a', b = Some b', c = Some c', d = Some d' & q = Qred (Qdiv (Qmult a' b') (Qmult c' d'))].
Proof. by case: a b c d => [a'|] [b'|] [c'|] [d'|] //= [<-]; exists a', b', c', d'. Qed.

(* the determinant form evaluated on lists is the determinant form of the mathcomp development, every block size *)
Theorem ratio_det_mx N D ix iy iz q : D <> [::] -> size D = N -> Gauss.ratio_det D ix iy iz = Some q ->
  Qrat q = ratio_mx (cmx N D (size ix) ix) (cmx N D (size iy) iy) (cmx N D (size iz) iz).
Proof.
move=> HD sD /ratio_ofP[a [b [c [d [Ha Hb Hc Hd ->]]]]]; rewrite /ratio_mx !Qrat_morph.
rewrite -!cmx_cat ?size_cat //.
rewrite (det_idx_det HD sD _ Ha) ?size_cat // (det_idx_det HD sD _ Hb) ?size_cat // (det_idx_det HD sD _ Hc) //.
by rewrite (det_idx_det HD sD _ (q := d)) ?size_cat // -?catA.
Qed.

(* ---- when is det_idx defined?  exactly when the centred columns are linearly independent -------------------------- *)
Section RankGram.
Variable R : realFieldType.

Lemma mulmx_tr_eq0 m n (M : 'M[R]_(m, n)) : M *m M^T = 0 -> M = 0.
Proof.
move=> H; apply/matrixP => i j; rewrite [RHS]mxE.
have /matrixP/(_ i i) := H; rewrite !mxE => /eqP.
rewrite psumr_eq0; last by move=> l _; rewrite !mxE -expr2 sqr_ge0.
by move/allP/(_ j (mem_index_enum _)); rewrite !mxE -expr2 sqrf_eq0 => /implyP/(_ isT)/eqP.
Qed.

Lemma rank_gram N n (A : 'M[R]_(N, n)) : \rank (gram A) = \rank A.
Proof.
have E : (kermx (gram A) :=: kermx A^T)%MS.
  apply/eqmxP/andP; split; apply/sub_kermxP.
    apply: mulmx_tr_eq0; rewrite trmx_mul trmxK mulmxA -[_ *m A^T *m A]mulmxA -/(gram A) mulmx_ker mul0mx.
    by [].
  by rewrite /gram mulmxA mulmx_ker mul0mx.
have := mxrank_ker (gram A); rewrite E mxrank_ker mxrank_tr => H.
have l1 : (\rank A <= n)%N by exact: rank_leq_col.
have l2 : (\rank (gram A) <= n)%N by exact: rank_leq_col.
by rewrite -(subKn l1) H subKn.
Qed.

Lemma det_gram_neq0 N n (A : 'M[R]_(N, n)) : (\det (gram A) != 0) = (\rank A == n).
Proof. by rewrite -unitfE -unitmxE -row_free_unit /row_free rank_gram. Qed.

Lemma gram_unit N n (A : 'M[R]_(N, n)) : (gram A \in unitmx) = (\rank A == n).
Proof. by rewrite unitmxE unitfE det_gram_neq0. Qed.

(* the first k columns of a matrix with independent columns are independent *)
Lemma rank_prefix N n k (A : 'M[R]_(N, n)) (Ak : 'M[R]_(N, k)) : (k <= n)%N ->
  (forall l (b : 'I_k) (b' : 'I_n), b = b' :> nat -> Ak l b = A l b') -> \rank A = n -> \rank Ak = k.
Proof.
move=> kn H rA.
have -> : Ak = A *m (pid_mx k : 'M_(n, k)).
  apply/matrixP => l b; rewrite !mxE (bigD1 (widen_ord kn b)) //= big1 ?addr0.
    by rewrite mxE /= eqxx ltn_ord mulr1; exact: H.
  by move=> a ne; rewrite mxE; case: eqP => [E|]; [case/eqP: ne; exact: val_inj|rewrite mulr0].
by rewrite -mxrank_tr trmx_mul mxrankMfree ?mxrank_tr ?rank_pid_mx // /row_free mxrank_tr rA.
Qed.

Lemma rank_row_mx_full N n1 n2 (A : 'M[R]_(N, n1)) (B : 'M[R]_(N, n2)) :
  \rank (row_mx A B) = (n1 + n2)%N -> \rank A = n1 /\ \rank B = n2.
Proof.
rewrite -mxrank_tr tr_row_mx -addsmxE => E.
have := mxrank_adds_leqif A^T B^T; rewrite E !mxrank_tr => -[le _].
have lA : (\rank A <= n1)%N := rank_leq_col A.
have lB : (\rank B <= n2)%N := rank_leq_col B.
split; apply/eqP; rewrite eqn_leq ?lA ?lB /=.
  by rewrite -(leq_add2r n2); apply: leq_trans le _; rewrite leq_add2l.
by rewrite -(leq_add2l n1); apply: leq_trans le _; rewrite leq_add2r.
Qed.

Lemma rank_row_mxC N n1 n2 (A : 'M[R]_(N, n1)) (B : 'M[R]_(N, n2)) : \rank (row_mx A B) = \rank (row_mx B A).
Proof. by rewrite -mxrank_tr tr_row_mx -addsmxE addsmxC addsmxE -tr_row_mx mxrank_tr. Qed.

Lemma rank_row3 N n1 n2 n3 (A : 'M[R]_(N, n1)) (B : 'M[R]_(N, n2)) (C : 'M[R]_(N, n3)) :
  \rank (row_mx (row_mx A B) C) = \rank (A^T + B^T + C^T)%MS.
Proof.
rewrite -mxrank_tr tr_row_mx -addsmxE tr_row_mx.
have E : (col_mx A^T B^T + C^T :=: (A^T + B^T) + C^T)%MS := adds_eqmx (eqmx_sym (addsmxE _ _)) (eqmx_refl _).
by rewrite E.
Qed.

Lemma rank_row3r N n1 n2 n3 (A : 'M[R]_(N, n1)) (B : 'M[R]_(N, n2)) (C : 'M[R]_(N, n3)) :
  \rank (row_mx A (row_mx B C)) = \rank (A^T + (B^T + C^T))%MS.
Proof.
rewrite -mxrank_tr tr_row_mx -addsmxE tr_row_mx.
have E : (A^T + col_mx B^T C^T :=: A^T + (B^T + C^T))%MS := adds_eqmx (eqmx_refl _) (eqmx_sym (addsmxE _ _)).
by rewrite E.
Qed.

Lemma rank_row_mxCA N n1 n2 n3 (A : 'M[R]_(N, n1)) (B : 'M[R]_(N, n2)) (C : 'M[R]_(N, n3)) :
  \rank (row_mx (row_mx A B) C) = \rank (row_mx (row_mx B A) C).
Proof. by rewrite !rank_row3 [(A^T + B^T)%MS]addsmxC. Qed.

Lemma rank_row_mxA N n1 n2 n3 (A : 'M[R]_(N, n1)) (B : 'M[R]_(N, n2)) (C : 'M[R]_(N, n3)) :
  \rank (row_mx (row_mx A B) C) = \rank (row_mx A (row_mx B C)).
Proof. by rewrite rank_row3 rank_row3r addsmxA. Qed.

(* three blocks: exchanging the first two keeps the Gram determinant (GaussMx.swap_xy's core, under independence) *)
Lemma det_gram_swap3 N n1 n2 n3 (X : 'M[R]_(N, n1)) (Y : 'M[R]_(N, n2)) (Z : 'M[R]_(N, n3)) :
  \rank (row_mx (row_mx X Y) Z) = (n1 + n2 + n3)%N ->
  \det (gram (row_mx (row_mx Y X) Z)) = \det (gram (row_mx (row_mx X Y) Z)).
Proof.
move=> rk; have [rXY rZ] := rank_row_mx_full rk; have [rX rY] := rank_row_mx_full rXY.
have Gu : gram Z \in unitmx by rewrite gram_unit rZ.
rewrite !(det_ratio_is_residual_form _ Gu) !resid_row; congr (_ * _); apply: det_gram_swap.
have : \det (gram (row_mx X Z)) != 0.
  rewrite det_gram_neq0; move: rk; rewrite rank_row_mxCA rank_row_mxA [(n1 + n2)%N]addnC -addnA.
  by case/rank_row_mx_full => _ ->.
by rewrite (det_ratio_is_residual_form _ Gu) mulf_eq0 negb_or unitmxE unitfE => /andP[].
Qed.
End RankGram.

(* det_idx D idx is defined exactly when the centred columns idx of the sample are linearly independent *)
Theorem det_idx_SomeP N D n idx : D <> [::] -> size D = N -> size idx = n ->
  (exists q, Gauss.det_idx D idx = Some q) <-> \rank (cmx N D n idx) = n.
Proof.
move=> HD sD sz; have wf : wf_mat n n (Gauss.gram D idx) by rewrite -sz; exact: gram_wf.
split=> [[q Hq]|rk].
  by apply/eqP; rewrite -det_gram_neq0 -gram_cmx ?sz //; exact: det_piv_Some_minors wf Hq n (leqnn n).
apply/(det_piv_SomeP wf) => k kn; rewrite (gram_cmx HD sD) ?sz // det_gram_neq0; apply/eqP.
by apply: rank_prefix rk => // l b b' E; rewrite !mxE E.
Qed.

(* the values returned by det_piv are in lowest terms, so Qeq on them is Leibniz equality *)
Lemma qprod_red ps : Qred (Gauss.qprod ps) = Gauss.qprod ps.
Proof. by case: ps => [|p ps] //; rewrite qprod_consE; apply: Qred_complete; exact: Qred_correct. Qed.
Lemma det_piv_red G q : Gauss.det_piv G = Some q -> Qred q = q.
Proof. by rewrite /Gauss.det_piv; case: (Gauss.pivots _ _) => [ps|] // [<-]; exact: qprod_red. Qed.

Lemma det_piv_eq G G' q q' : Gauss.det_piv G = Some q -> Gauss.det_piv G' = Some q' -> Qrat q = Qrat q' -> q = q'.
Proof. by move=> H1 H2 /Qrat_eqP/Qred_complete; rewrite (det_piv_red H1) (det_piv_red H2). Qed.

(* the joint determinant does not depend on the order of the first two blocks: value AND definedness *)
Theorem det_idx_swap D ix iy iz : D <> [::] ->
  Gauss.det_idx D (ix ++ iy ++ iz) = Gauss.det_idx D (iy ++ ix ++ iz).
Proof.
move=> HD; have sD := erefl (size D).
set X := cmx (size D) D (size ix) ix; set Y := cmx (size D) D (size iy) iy; set Z := cmx (size D) D (size iz) iz.
have s1 : size (ix ++ iy ++ iz) = (size ix + size iy + size iz)%N by rewrite !size_cat addnA.
have s2 : size (iy ++ ix ++ iz) = (size iy + size ix + size iz)%N by rewrite !size_cat addnA.
have E1 : cmx (size D) D (size ix + size iy + size iz) (ix ++ iy ++ iz) = row_mx (row_mx X Y) Z.
  by rewrite catA !cmx_cat ?size_cat.
have E2 : cmx (size D) D (size iy + size ix + size iz) (iy ++ ix ++ iz) = row_mx (row_mx Y X) Z.
  by rewrite catA !cmx_cat ?size_cat.
have rkE : \rank (row_mx (row_mx Y X) Z) = (size iy + size ix + size iz)%N <->
           \rank (row_mx (row_mx X Y) Z) = (size ix + size iy + size iz)%N.
  by rewrite rank_row_mxCA [(size iy + _)%N]addnC.
case H1: (Gauss.det_idx D (ix ++ iy ++ iz)) => [d|]; case H2: (Gauss.det_idx D (iy ++ ix ++ iz)) => [d'|] //.
- have /(det_idx_SomeP HD sD s1) rk : exists q, Gauss.det_idx D (ix ++ iy ++ iz) = Some q by exists d.
  rewrite E1 in rk; congr Some; apply: (det_piv_eq H1 H2).
  by rewrite -(det_idx_det HD sD s1 H1) -(det_idx_det HD sD s2 H2) E1 E2 (det_gram_swap3 rk).
- have /(det_idx_SomeP HD sD s1) rk : exists q, Gauss.det_idx D (ix ++ iy ++ iz) = Some q by exists d.
  by move: rk; rewrite E1 => /rkE; rewrite -E2 => /(det_idx_SomeP HD sD s2)[q]; rewrite H2.
- have /(det_idx_SomeP HD sD s2) rk : exists q, Gauss.det_idx D (iy ++ ix ++ iz) = Some q by exists d'.
  by move: rk; rewrite E2 => /rkE; rewrite -E1 => /(det_idx_SomeP HD sD s1)[q]; rewrite H1.
Qed.

Lemma det_idx_nilD idx : Gauss.det_idx [::] idx = if idx is [::] then Some (Qmake (Zpos xH) xH) else None.
Proof. by case: idx. Qed.

(* FULL X/Y symmetry of the determinant form on lists: every sample, every block size, definedness included *)
Theorem ratio_det_symmetric D ix iy iz : Gauss.ratio_det D ix iy iz = Gauss.ratio_det D iy ix iz.
Proof.
apply: GaussProofs.ratio_det_swap_partial; case: D => [|r D]; last exact: det_idx_swap.
by rewrite !det_idx_nilD; case: ix iy => [|? ?] [|? ?].
Qed.

(* ---- consequences for the list model ------------------------------------------------------------------------------ *)
Lemma rank3_full (R : realFieldType) N n1 n2 n3 (X : 'M[R]_(N, n1)) (Y : 'M[R]_(N, n2)) (Z : 'M[R]_(N, n3)) :
  \rank (row_mx (row_mx X Y) Z) = (n1 + n2 + n3)%N ->
  [/\ \rank (row_mx X Z) = (n1 + n3)%N, \rank (row_mx Y Z) = (n2 + n3)%N & \rank Z = n3].
Proof.
move=> rk; have [_ rZ] := rank_row_mx_full rk; split=> //.
  by move: rk; rewrite rank_row_mxCA rank_row_mxA [(n1 + n2)%N]addnC -addnA; case/rank_row_mx_full.
by move: rk; rewrite rank_row_mxA -addnA; case/rank_row_mx_full.
Qed.

Section ListModel.
Variables (N : nat) (D : seq (seq Q)) (ix iy iz : seq nat).
Hypothesis HD : D <> [::].
Hypothesis sD : size D = N.
Let X := cmx N D (size ix) ix.
Let Y := cmx N D (size iy) iy.
Let Z := cmx N D (size iz) iz.

Lemma cmx3 : cmx N D (size ix + size iy + size iz) (ix ++ iy ++ iz) = row_mx (row_mx X Y) Z.
Proof. by rewrite catA !cmx_cat ?size_cat. Qed.

Lemma size3 : size (ix ++ iy ++ iz) = (size ix + size iy + size iz)%N.
Proof. by rewrite !size_cat addnA. Qed.

(* the determinant form on lists is defined exactly when the centred columns X, Y, Z are jointly independent *)
Theorem ratio_det_SomeP :
  (exists q, Gauss.ratio_det D ix iy iz = Some q) <-> \rank (row_mx (row_mx X Y) Z) = (size ix + size iy + size iz)%N.
Proof.
split=> [[q /ratio_ofP[a [b [c [d [_ _ _ Hd _]]]]]]|rk].
  by rewrite -cmx3; apply/(det_idx_SomeP HD sD size3); exists d.
have [rXZ rYZ rZ] := rank3_full rk.
have [|d Hd] := (det_idx_SomeP HD sD size3).2; first by rewrite cmx3.
have [|a Ha] := (det_idx_SomeP (idx := ix ++ iz) HD sD (size_cat _ _)).2; first by rewrite cmx_cat.
have [|b Hb] := (det_idx_SomeP (idx := iy ++ iz) HD sD (size_cat _ _)).2; first by rewrite cmx_cat.
have [|c Hc] := (det_idx_SomeP (idx := iz) HD sD (erefl _)).2; first by [].
by rewrite /Gauss.ratio_det Ha Hb Hc Hd /=; eexists.
Qed.

(* ... and then it is the residual (partial covariance) form of the mathcomp development: determinant form = residual form *)
Theorem ratio_det_residual_mx q : Gauss.ratio_det D ix iy iz = Some q ->
  Qrat q = \det (gram (resid Z X)) * \det (gram (resid Z Y)) / \det (gram (row_mx (resid Z X) (resid Z Y))).
Proof.
move=> Hq; rewrite (ratio_det_mx HD sD Hq); apply: cmi_det_form_is_residual_form.
have /ratio_det_SomeP/rank3_full[_ _ rZ] : exists q, Gauss.ratio_det D ix iy iz = Some q by exists q.
by rewrite gram_unit rZ.
Qed.

Lemma ratio_det_red q : Gauss.ratio_det D ix iy iz = Some q -> Qred q = q.
Proof. by case/ratio_ofP => a [b [c [d [_ _ _ _ ->]]]]; apply: Qred_complete; exact: Qred_correct. Qed.
End ListModel.

(* summary for Properties/C08Mx.v *)
Theorem ratio_det_facts N D ix iy iz : D <> [::] -> size D = N ->
  let X := cmx N D (size ix) ix in let Y := cmx N D (size iy) iy in let Z := cmx N D (size iz) iz in
  (forall q, Gauss.ratio_det D ix iy iz = Some q -> Qrat q = ratio_mx X Y Z) /\
  ((exists q, Gauss.ratio_det D ix iy iz = Some q) <-> \rank (row_mx (row_mx X Y) Z) = (size ix + size iy + size iz)%N) /\
  (forall q, Gauss.ratio_det D ix iy iz = Some q ->
     Qrat q = \det (gram (resid Z X)) * \det (gram (resid Z Y)) / \det (gram (row_mx (resid Z X) (resid Z Y)))).
Proof.
move=> HD sD X Y Z; split; first by move=> q; exact: ratio_det_mx.
by split; [exact: ratio_det_SomeP|move=> q; exact: ratio_det_residual_mx].
Qed.

(* the same with the block sizes as parameters (so that two samples can be compared in one matrix type) *)
Theorem ratio_det_mxk N D ix iy iz kx ky kz q : D <> [::] -> size D = N -> size ix = kx -> size iy = ky -> size iz = kz ->
  Gauss.ratio_det D ix iy iz = Some q -> Qrat q = ratio_mx (cmx N D kx ix) (cmx N D ky iy) (cmx N D kz iz).
Proof. by move=> HD sD <- <- <-; exact: ratio_det_mx. Qed.

Theorem ratio_det_SomePk N D ix iy iz kx ky kz : D <> [::] -> size D = N -> size ix = kx -> size iy = ky -> size iz = kz ->
  (exists q, Gauss.ratio_det D ix iy iz = Some q) <->
  \rank (row_mx (row_mx (cmx N D kx ix) (cmx N D ky iy)) (cmx N D kz iz)) = (kx + ky + kz)%N.
Proof. by move=> HD sD <- <- <-; exact: ratio_det_SomeP. Qed.

(* two samples whose centred blocks have the same independence status and the same matrix ratio give the same result *)
Lemma ratio_det_ext N D D' ix iy iz ix' iy' iz' kx ky kz : D <> [::] -> D' <> [::] -> size D = N -> size D' = N ->
  size ix = kx -> size iy = ky -> size iz = kz -> size ix' = kx -> size iy' = ky -> size iz' = kz ->
  (\rank (row_mx (row_mx (cmx N D' kx ix') (cmx N D' ky iy')) (cmx N D' kz iz')) = (kx + ky + kz)%N <->
   \rank (row_mx (row_mx (cmx N D kx ix) (cmx N D ky iy)) (cmx N D kz iz)) = (kx + ky + kz)%N) ->
  ratio_mx (cmx N D' kx ix') (cmx N D' ky iy') (cmx N D' kz iz') =
  ratio_mx (cmx N D kx ix) (cmx N D ky iy) (cmx N D kz iz) ->
  Gauss.ratio_det D' ix' iy' iz' = Gauss.ratio_det D ix iy iz.
Proof.
move=> HD HD' sD sD' sx sy sz sx' sy' sz' rkE mxE.
have P := ratio_det_SomePk HD sD sx sy sz; have P' := ratio_det_SomePk HD' sD' sx' sy' sz'.
case H': (Gauss.ratio_det D' ix' iy' iz') => [q'|]; case H: (Gauss.ratio_det D ix iy iz) => [q|] //.
- rewrite -(ratio_det_red H) -(ratio_det_red H'); congr Some; apply: Qred_complete; apply/Qrat_eqP.
  by rewrite (ratio_det_mxk HD sD sx sy sz H) (ratio_det_mxk HD' sD' sx' sy' sz' H').
- have /P'/rkE/P[q] : exists q, Gauss.ratio_det D' ix' iy' iz' = Some q by exists q'.
  by rewrite H.
- have /P/rkE/P'[q'] : exists q, Gauss.ratio_det D ix iy iz = Some q by exists q.
  by rewrite H'.
Qed.

(* ---- invertible mixing of the conditioning columns, on lists ----------------------------------------------------- *)
(* raw (uncentred) columns, and centring as left multiplication by  1 - J/N  *)
Definition rmx (N : nat) (D : seq (seq Q)) (n : nat) (idx : seq nat) : 'M[rat]_(N, n) :=
  \matrix_(l, a) Qrat (Gauss.getc (nth 0%N idx a) (nth [::] D l)).
Definition centring (N : nat) : 'M[rat]_N := 1%:M - N%:R^-1 *: const_mx 1.

Lemma Qrat_mean N D f : size D = N ->
  Qrat (Gauss.mean f D) = N%:R^-1 * \sum_(l < N) Qrat (f (nth [::] D l)).
Proof.
move=> <-; rewrite /Gauss.mean /Gauss.nrows Qrat_div Qrat_injZ Zrat_of_nat (Qrat_qsum _ [::]) mulrC.
by [].
Qed.

Lemma cmx_centring N D n idx : size D = N -> cmx N D n idx = centring N *m rmx N D n idx.
Proof.
move=> sD; rewrite /centring mulmxBl mul1mx -scalemxAl.
apply/matrixP => l a; rewrite !mxE /cval Qrat_sub (Qrat_mean _ sD); congr (_ - _ * _).
by apply: eq_bigr => l' _; rewrite !mxE mul1r.
Qed.

(* list-level descriptions: columns idx' of D' are the columns idx of D;  columns iz' of D' are the columns iz of D
   mixed by the list matrix M (new column b = sum_a old column a * M[a][b]) *)
Definition same_cols (D D' : seq (seq Q)) (idx idx' : seq nat) : Prop :=
  size idx' = size idx /\
  forall l a, (l < size D)%N -> (a < size idx)%N ->
    Qeq (Gauss.getc (nth 0%N idx' a) (nth [::] D' l)) (Gauss.getc (nth 0%N idx a) (nth [::] D l)).
Definition mixed_cols (D D' : seq (seq Q)) (iz iz' : seq nat) (M : seq (seq Q)) : Prop :=
  size iz' = size iz /\
  forall l b, (l < size D)%N -> (b < size iz)%N ->
    Qeq (Gauss.getc (nth 0%N iz' b) (nth [::] D' l))
        (Gauss.qsum (map (fun a => Qmult (Gauss.getc (nth 0%N iz a) (nth [::] D l)) (qget M a b)) (iota 0 (size iz)))).

Lemma same_cols_rmx N D D' idx idx' : size D = N -> same_cols D D' idx idx' ->
  rmx N D' (size idx) idx' = rmx N D (size idx) idx.
Proof. by move=> sD [_ H]; apply/matrixP => l a; rewrite !mxE; apply/Qrat_eq/H; rewrite ?sD. Qed.

Lemma mixed_cols_rmx N D D' iz iz' M : size D = N -> mixed_cols D D' iz iz' M ->
  rmx N D' (size iz) iz' = rmx N D (size iz) iz *m mx_of_mat (size iz) (size iz) M.
Proof.
move=> sD [_ H]; apply/matrixP => l b; rewrite !mxE (Qrat_eq (H l b _ _)) ?sD // (Qrat_qsum _ 0%N) size_iota.
by apply: eq_bigr => a _; rewrite !mxE nth_iota // add0n Qrat_mul.
Qed.

Lemma rank_mixr (R : realFieldType) N n1 n2 (A : 'M[R]_(N, n1)) (Z : 'M[R]_(N, n2)) (M : 'M[R]_n2) :
  M \in unitmx -> \rank (row_mx A (Z *m M)) = \rank (row_mx A Z).
Proof.
move=> Mu; rewrite row_mx_mixr mxrankMfree // row_free_unit unitmxE det_ublock det1 mul1r -unitmxE.
by [].
Qed.

(* invariance of the determinant form ON LISTS under invertible mixing of the conditioning columns: value and definedness *)
Theorem ratio_det_mixing D D' ix iy iz ix' iy' iz' M : D <> [::] -> size D' = size D ->
  same_cols D D' ix ix' -> same_cols D D' iy iy' -> mixed_cols D D' iz iz' M ->
  \det (mx_of_mat (size iz) (size iz) M) != 0 ->
  Gauss.ratio_det D' ix' iy' iz' = Gauss.ratio_det D ix iy iz.
Proof.
move=> HD sD' cx cy cz Mn0.
have HD' : D' <> [::] by move=> E; move: sD' HD; rewrite E; case: (D).
have Mu : mx_of_mat (size iz) (size iz) M \in unitmx by rewrite unitmxE unitfE.
have EX : cmx (size D) D' (size ix) ix' = cmx (size D) D (size ix) ix.
  by rewrite !cmx_centring // (same_cols_rmx (erefl _) cx).
have EY : cmx (size D) D' (size iy) iy' = cmx (size D) D (size iy) iy.
  by rewrite !cmx_centring // (same_cols_rmx (erefl _) cy).
have EZ : cmx (size D) D' (size iz) iz' = cmx (size D) D (size iz) iz *m mx_of_mat (size iz) (size iz) M.
  by rewrite !cmx_centring // (mixed_cols_rmx (erefl _) cz) mulmxA.
apply: (@ratio_det_ext (size D) D D' ix iy iz ix' iy' iz' (size ix) (size iy) (size iz)) => //;
  try by [case: cx|case: cy|case: cz].
  by rewrite EX EY EZ rank_mixr.
by rewrite EX EY EZ z_mixing_invariant.
Qed.

Corollary ratio_det_mixing_det_piv D D' ix iy iz ix' iy' iz' M m : D <> [::] -> size D' = size D ->
  same_cols D D' ix ix' -> same_cols D D' iy iy' -> mixed_cols D D' iz iz' M ->
  wf_mat (size iz) (size iz) M -> Gauss.det_piv M = Some m ->
  Gauss.ratio_det D' ix' iy' iz' = Gauss.ratio_det D ix iy iz.
Proof.
move=> HD sD' cx cy cz wf Hm; apply: ratio_det_mixing cx cy cz _ => //.
exact: det_piv_Some_minors wf Hm _ (leqnn _).
Qed.

(* a concrete mixing operation on samples: every row gets size iz new leading entries, the image of its conditioning
   entries under M; the old column i is then column (size iz + i) and the mixed block is columns 0 .. size iz - 1 *)
Definition mix_row (iz : seq nat) (M : seq (seq Q)) (r : seq Q) : seq Q :=
  map (fun b => Gauss.qsum (map (fun a => Qmult (Gauss.getc (nth 0%N iz a) r) (qget M a b)) (iota 0 (size iz)))) (iota 0 (size iz)) ++ r.
Definition mix_sample (iz : seq nat) (M : seq (seq Q)) (D : seq (seq Q)) : seq (seq Q) := map (mix_row iz M) D.

Lemma same_cols_mix D iz M idx : same_cols D (mix_sample iz M D) idx (map (addn (size iz)) idx).
Proof.
split=> [|l a ltl lta]; first by rewrite size_map.
rewrite /mix_sample (nth_map [::]) // (nth_map 0%N) // /Gauss.getc !nthE /mix_row nth_cat size_map size_iota.
by rewrite ltnNge leq_addr /= addKn; exact: Qeq_refl.
Qed.

Lemma mixed_cols_mix D iz M : mixed_cols D (mix_sample iz M D) iz (iota 0 (size iz)) M.
Proof.
split=> [|l b ltl ltb]; first by rewrite size_iota.
rewrite /mix_sample (nth_map [::]) // nth_iota // add0n {1}/Gauss.getc nthE /mix_row nth_cat size_map size_iota ltb.
by rewrite (nth_map 0%N) ?size_iota // nth_iota // add0n; exact: Qeq_refl.
Qed.

Theorem ratio_det_mix_sample D ix iy iz M : D <> [::] -> \det (mx_of_mat (size iz) (size iz) M) != 0 ->
  Gauss.ratio_det (mix_sample iz M D) (map (addn (size iz)) ix) (map (addn (size iz)) iy) (iota 0 (size iz)) =
  Gauss.ratio_det D ix iy iz.
Proof.
move=> HD Mn0; apply: ratio_det_mixing HD _ (same_cols_mix _ _ _ _) (same_cols_mix _ _ _ _) (mixed_cols_mix _ _ _) Mn0.
by rewrite /mix_sample size_map.
Qed.

Corollary ratio_det_mix_sample_det_piv D ix iy iz M m : D <> [::] -> wf_mat (size iz) (size iz) M -> Gauss.det_piv M = Some m ->
  Gauss.ratio_det (mix_sample iz M D) (map (addn (size iz)) ix) (map (addn (size iz)) iy) (iota 0 (size iz)) =
  Gauss.ratio_det D ix iy iz.
Proof. by move=> HD wf Hm; apply: ratio_det_mix_sample HD _; exact: det_piv_Some_minors wf Hm _ (leqnn _). Qed.

(* non-vacuity: an invertible 2 x 2 mixing of the two conditioning columns of GaussProofs.exD; both sides are defined *)
Example ex_mixing :
  let M := [:: [:: Qmake 1 1; Qmake 3 2]; [:: Qmake (-2) 1; Qmake 1 3]] in
  Gauss.det_piv M <> None /\
  Gauss.ratio_det (mix_sample [:: 2; 3]%N M GaussProofs.exD) [:: 2]%N [:: 3]%N [:: 0; 1]%N =
  Gauss.ratio_det GaussProofs.exD [:: 0]%N [:: 1]%N [:: 2; 3]%N /\
  Gauss.ratio_det GaussProofs.exD [:: 0]%N [:: 1]%N [:: 2; 3]%N <> None.
Proof. by vm_compute. Qed.

(* ---- any re-ordering of the column index list: the scatter determinant (value and definedness) is unchanged ------ *)
Lemma det_gram_col_perm (F : fieldType) N n (A : 'M[F]_(N, n)) (p : 'S_n) : \det (gram (col_perm p A)) = \det (gram A).
Proof. by rewrite col_permE det_gram_mulr det_perm sqrr_sign mul1r. Qed.

Lemma rank_col_perm (F : fieldType) N n (A : 'M[F]_(N, n)) (p : 'S_n) : \rank (col_perm p A) = \rank A.
Proof. by rewrite col_permE mxrankMfree // row_free_unit unitmx_perm. Qed.

Lemma cmx_perm N D n idx idx' : size idx = n -> perm_eq idx' idx -> exists p : 'S_n, cmx N D n idx' = col_perm p (cmx N D n idx).
Proof.
move=> sz; rewrite -[idx]/(tval (in_tuple idx)); move: (in_tuple idx); rewrite sz => t /tuple_permP[p ->].
by exists p; apply/matrixP => l a; rewrite !mxE nth_mktuple (tnth_nth 0%N).
Qed.

Theorem det_idx_perm D idx idx' : D <> [::] -> perm_eq idx' idx -> Gauss.det_idx D idx' = Gauss.det_idx D idx.
Proof.
move=> HD pe; have sD := erefl (size D); have sz' : size idx' = size idx by exact: perm_size.
have [p Ep] := cmx_perm (size D) D (erefl (size idx)) pe.
have P := det_idx_SomeP HD sD (erefl (size idx)); have P' := det_idx_SomeP HD sD sz'.
case H': (Gauss.det_idx D idx') => [q'|]; case H: (Gauss.det_idx D idx) => [q|] //.
- congr Some; apply: (det_piv_eq H' H).
  by rewrite -(det_idx_det HD sD sz' H') -(det_idx_det HD sD (erefl _) H) Ep det_gram_col_perm.
- have /P' : exists q, Gauss.det_idx D idx' = Some q by exists q'.
  by rewrite Ep rank_col_perm => /P[q]; rewrite H.
- have /P : exists q, Gauss.det_idx D idx = Some q by exists q.
  by rewrite -(rank_col_perm _ p) -Ep => /P'[q']; rewrite H'.
Qed.

(* the determinant form depends on the index lists X, Y, Z only up to the order inside each block *)
Theorem ratio_det_perm D ix iy iz ix' iy' iz' : perm_eq ix' ix -> perm_eq iy' iy -> perm_eq iz' iz ->
  Gauss.ratio_det D ix' iy' iz' = Gauss.ratio_det D ix iy iz.
Proof.
move=> px py pz; rewrite /Gauss.ratio_det.
have E idx idx' : perm_eq idx' idx -> Gauss.det_idx D idx' = Gauss.det_idx D idx.
  case: D => [|r D] pe; last exact: det_idx_perm.
  by rewrite !det_idx_nilD; move/perm_size: pe; case: idx idx' => [|? ?] [|? ?].
by rewrite (E _ _ pz) (E (ix ++ iz) (ix' ++ iz')) ?perm_cat // (E (iy ++ iz) (iy' ++ iz')) ?perm_cat //
           (E (ix ++ iy ++ iz) (ix' ++ iy' ++ iz')) ?perm_cat.
Qed.
