(* C08: the MathComp theorems of GaussMx.v (Schur determinant, determinant form = residual form, X/Y swap, mixing of Z) as
   theorems about the executable list functions of Model/Gauss.v (sc, gram, det_idx, ratio_det), for EVERY block size.

   D = the sample (list of rows over Q), idx = list of column indices, N = size D.
     cmx D n idx : 'M[rat]_(N, n)    the CENTRED columns idx_0 .. idx_(n-1) of the sample (entry minus column mean)
     gram_cmx        mx_of_mat n n (Gauss.gram D idx) = GaussMx.gram (cmx D n idx) = (cmx D n idx)^T *m cmx D n idx
     cmx_cat         cmx D (n1 + n2) (ix ++ iz) = row_mx (cmx D n1 ix) (cmx D n2 iz)
     det_idx_det     det_idx D idx = Some q -> \det (gram (cmx D n idx)) = Qrat q
     ratio_det_mx    ratio_det D ix iy iz = Some q -> Qrat q = ratio_mx X Y Z   (X, Y, Z the centred blocks) *)
From Coq Require Import QArith ZArith List.
From mathcomp Require Import all_ssreflect all_algebra.
From mathcomp Require Import ssrZ.
From CE Require Import GeneratorsMxBridge LinAlgBridge GaussMx.
From CE Require Model.Gauss Proofs.GaussProofs.
Set Implicit Arguments. Unset Strict Implicit. Unset Printing Implicit Defensive.
Import GRing.Theory Num.Theory.
Close Scope Q_scope. Close Scope Z_scope.
Local Open Scope ring_scope.

Notation Q0 := (Qmake Z0 xH).

(* centred value of column i in row l *)
Definition cval (D : seq (seq Q)) (i l : nat) : Q := Qminus (Gauss.getc i (nth [::] D l)) (Gauss.mean (Gauss.getc i) D).
Definition cmx (D : seq (seq Q)) (n : nat) (idx : seq nat) : 'M[rat]_(size D, n) :=
  \matrix_(l, a) Qrat (cval D (nth 0%N idx a) l).

Lemma qget_gram D idx a b : (a < size idx)%N -> (b < size idx)%N ->
  qget (Gauss.gram D idx) a b = Gauss.sc D (nth 0%N idx a) (nth 0%N idx b).
Proof. by move=> lta ltb; rewrite /qget /Gauss.gram (nth_map 0%N) // (nth_map 0%N). Qed.

Lemma gram_wf D idx : wf_mat (size idx) (size idx) (Gauss.gram D idx).
Proof. by rewrite /wf_mat /Gauss.gram size_map eqxx all_map; apply/allP => i _ /=; rewrite size_map. Qed.

Lemma Qrat_sc D i j : D <> [::] ->
  Qrat (Gauss.sc D i j) = \sum_(l < size D) Qrat (cval D i l) * Qrat (cval D j l).
Proof.
move=> HD; rewrite (Qrat_eq (@GaussProofs.sc_is_centred D i j HD)) /Gauss.sc_centred (Qrat_qsum _ [::]).
by apply: eq_bigr => l _; rewrite Qrat_mul.
Qed.

(* the scatter matrix of the model is the Gram matrix of the centred columns; leading blocks included (n <= size idx) *)
Lemma gram_cmx D n idx : D <> [::] -> (n <= size idx)%N -> mx_of_mat n n (Gauss.gram D idx) = gram (cmx D n idx).
Proof.
move=> HD le; apply/matrixP => a b; rewrite !mxE qget_gram ?(leq_trans (ltn_ord _) le) // Qrat_sc //.
by apply: eq_bigr => l _; rewrite !mxE.
Qed.

Lemma cmx_cat D n1 n2 ix iz : size ix = n1 -> cmx D (n1 + n2) (ix ++ iz) = row_mx (cmx D n1 ix) (cmx D n2 iz).
Proof.
move=> sx; apply/matrixP => l a; rewrite !mxE nth_cat sx; case: splitP => a' ->; rewrite mxE.
  by [].
by rewrite addKn.
Qed.

Theorem det_idx_det D n idx q : D <> [::] -> size idx = n -> Gauss.det_idx D idx = Some q ->
  \det (gram (cmx D n idx)) = Qrat q.
Proof.
move=> HD sz Hq; rewrite -gram_cmx ?sz //; apply: det_piv_det Hq; rewrite -sz; exact: gram_wf.
Qed.

Lemma ratio_ofP a b c d q : Gauss.ratio_of a b c d = Some q ->
  exists a' b' c' d', [/\ a = Some a', b = Some b', c = Some c', d = Some d' & q = Qred (Qdiv (Qmult a' b') (Qmult c' d'))].
Proof. by case: a b c d => [a'|] [b'|] [c'|] [d'|] //= [<-]; exists a', b', c', d'. Qed.

(* the determinant form evaluated on lists is the determinant form of the mathcomp development, every block size *)
Theorem ratio_det_mx D ix iy iz q : D <> [::] -> Gauss.ratio_det D ix iy iz = Some q ->
  Qrat q = ratio_mx (cmx D (size ix) ix) (cmx D (size iy) iy) (cmx D (size iz) iz).
Proof.
move=> HD /ratio_ofP[a [b [c [d [Ha Hb Hc Hd ->]]]]]; rewrite /ratio_mx !Qrat_morph.
rewrite -!cmx_cat ?size_cat //.
rewrite (det_idx_det HD _ Ha) ?size_cat // (det_idx_det HD _ Hb) ?size_cat // (det_idx_det HD _ Hc) //.
by rewrite (det_idx_det HD _ (q := d)) ?size_cat // -?catA.
Qed.

(* ---- when is det_idx defined?  exactly when the centred columns are linearly independent -------------------------- *)
Section RankGram.
Variable R : realFieldType.

Lemma mulmx_tr_eq0 m n (M : 'M[R]_(m, n)) : M *m M^T = 0 -> M = 0.
Proof.
move=> H; apply/matrixP => i j; rewrite [RHS]mxE.
have /matrixP/(_ i i) := H; rewrite !mxE => /eqP.
rewrite psumr_eq0; last by move=> l _; rewrite !mxE -expr2 sqr_ge0.
by move/allP/(_ j (mem_index_enum _)); rewrite !mxE -expr2 sqrf_eq0 => /implyP/(_ isT)/eqP.
Qed.

Lemma rank_gram N n (A : 'M[R]_(N, n)) : \rank (gram A) = \rank A.
Proof.
have E : (kermx (gram A) :=: kermx A^T)%MS.
  apply/eqmxP/andP; split; apply/sub_kermxP.
    apply: mulmx_tr_eq0; rewrite trmx_mul trmxK mulmxA -[_ *m A^T *m A]mulmxA -/(gram A) mulmx_ker mul0mx.
    by [].
  by rewrite /gram mulmxA mulmx_ker mul0mx.
have := mxrank_ker (gram A); rewrite E mxrank_ker mxrank_tr => H.
have l1 : (\rank A <= n)%N by exact: rank_leq_col.
have l2 : (\rank (gram A) <= n)%N by exact: rank_leq_col.
by rewrite -(subKn l1) H subKn.
Qed.

Lemma det_gram_neq0 N n (A : 'M[R]_(N, n)) : (\det (gram A) != 0) = (\rank A == n).
Proof. by rewrite -unitfE -unitmxE -row_free_unit /row_free rank_gram. Qed.

Lemma gram_unit N n (A : 'M[R]_(N, n)) : (gram A \in unitmx) = (\rank A == n).
Proof. by rewrite unitmxE unitfE det_gram_neq0. Qed.

(* the first k columns of a matrix with independent columns are independent *)
Lemma rank_prefix N n k (A : 'M[R]_(N, n)) (Ak : 'M[R]_(N, k)) : (k <= n)%N ->
  (forall l (b : 'I_k) (b' : 'I_n), b = b' :> nat -> Ak l b = A l b') -> \rank A = n -> \rank Ak = k.
Proof.
move=> kn H rA.
have -> : Ak = A *m (pid_mx k : 'M_(n, k)).
  apply/matrixP => l b; rewrite !mxE (bigD1 (widen_ord kn b)) //= big1 ?addr0.
    by rewrite mxE /= eqxx ltn_ord mulr1; exact: H.
  by move=> a ne; rewrite mxE; case: eqP => [E|]; [case/eqP: ne; exact: val_inj|rewrite mulr0].
by rewrite -mxrank_tr trmx_mul mxrankMfree ?mxrank_tr ?rank_pid_mx // /row_free mxrank_tr rA.
Qed.

Lemma rank_row_mx_full N n1 n2 (A : 'M[R]_(N, n1)) (B : 'M[R]_(N, n2)) :
  \rank (row_mx A B) = (n1 + n2)%N -> \rank A = n1 /\ \rank B = n2.
Proof.
rewrite -mxrank_tr tr_row_mx -addsmxE => E.
have := mxrank_adds_leqif A^T B^T; rewrite E !mxrank_tr => -[le _].
have lA : (\rank A <= n1)%N := rank_leq_col A.
have lB : (\rank B <= n2)%N := rank_leq_col B.
split; apply/eqP; rewrite eqn_leq ?lA ?lB /=.
  by rewrite -(leq_add2r n2); apply: leq_trans le _; rewrite leq_add2l.
by rewrite -(leq_add2l n1); apply: leq_trans le _; rewrite leq_add2r.
Qed.

Lemma rank_row_mxC N n1 n2 (A : 'M[R]_(N, n1)) (B : 'M[R]_(N, n2)) : \rank (row_mx A B) = \rank (row_mx B A).
Proof. by rewrite -mxrank_tr tr_row_mx -addsmxE addsmxC addsmxE -tr_row_mx mxrank_tr. Qed.

Lemma rank_row3 N n1 n2 n3 (A : 'M[R]_(N, n1)) (B : 'M[R]_(N, n2)) (C : 'M[R]_(N, n3)) :
  \rank (row_mx (row_mx A B) C) = \rank (A^T + B^T + C^T)%MS.
Proof.
rewrite -mxrank_tr tr_row_mx -addsmxE tr_row_mx.
have E : (col_mx A^T B^T + C^T :=: (A^T + B^T) + C^T)%MS := adds_eqmx (eqmx_sym (addsmxE _ _)) (eqmx_refl _).
by rewrite E.
Qed.

Lemma rank_row3r N n1 n2 n3 (A : 'M[R]_(N, n1)) (B : 'M[R]_(N, n2)) (C : 'M[R]_(N, n3)) :
  \rank (row_mx A (row_mx B C)) = \rank (A^T + (B^T + C^T))%MS.
Proof.
rewrite -mxrank_tr tr_row_mx -addsmxE tr_row_mx.
have E : (A^T + col_mx B^T C^T :=: A^T + (B^T + C^T))%MS := adds_eqmx (eqmx_refl _) (eqmx_sym (addsmxE _ _)).
by rewrite E.
Qed.

Lemma rank_row_mxCA N n1 n2 n3 (A : 'M[R]_(N, n1)) (B : 'M[R]_(N, n2)) (C : 'M[R]_(N, n3)) :
  \rank (row_mx (row_mx A B) C) = \rank (row_mx (row_mx B A) C).
Proof. by rewrite !rank_row3 [(A^T + B^T)%MS]addsmxC. Qed.

Lemma rank_row_mxA N n1 n2 n3 (A : 'M[R]_(N, n1)) (B : 'M[R]_(N, n2)) (C : 'M[R]_(N, n3)) :
  \rank (row_mx (row_mx A B) C) = \rank (row_mx A (row_mx B C)).
Proof. by rewrite rank_row3 rank_row3r addsmxA. Qed.

(* three blocks: exchanging the first two keeps the Gram determinant (GaussMx.swap_xy's core, under independence) *)
Lemma det_gram_swap3 N n1 n2 n3 (X : 'M[R]_(N, n1)) (Y : 'M[R]_(N, n2)) (Z : 'M[R]_(N, n3)) :
  \rank (row_mx (row_mx X Y) Z) = (n1 + n2 + n3)%N ->
  \det (gram (row_mx (row_mx Y X) Z)) = \det (gram (row_mx (row_mx X Y) Z)).
Proof.
move=> rk; have [rXY rZ] := rank_row_mx_full rk; have [rX rY] := rank_row_mx_full rXY.
have Gu : gram Z \in unitmx by rewrite gram_unit rZ.
rewrite !(det_ratio_is_residual_form _ Gu) !resid_row; congr (_ * _); apply: det_gram_swap.
have : \det (gram (row_mx X Z)) != 0.
  rewrite det_gram_neq0; move: rk; rewrite rank_row_mxCA rank_row_mxA [(n1 + n2)%N]addnC -addnA.
  by case/rank_row_mx_full => _ ->.
by rewrite (det_ratio_is_residual_form _ Gu) mulf_eq0 negb_or unitmxE unitfE => /andP[].
Qed.
End RankGram.

(* det_idx D idx is defined exactly when the centred columns idx of the sample are linearly independent *)
Theorem det_idx_SomeP D n idx : D <> [::] -> size idx = n ->
  (exists q, Gauss.det_idx D idx = Some q) <-> \rank (cmx D n idx) = n.
Proof.
move=> HD sz; have wf : wf_mat n n (Gauss.gram D idx) by rewrite -sz; exact: gram_wf.
split=> [[q Hq]|rk].
  by apply/eqP; rewrite -det_gram_neq0 -gram_cmx ?sz //; exact: det_piv_Some_minors wf Hq n (leqnn n).
apply/(det_piv_SomeP wf) => k kn; rewrite gram_cmx ?sz // det_gram_neq0; apply/eqP.
by apply: rank_prefix rk => // l b b' E; rewrite !mxE E.
Qed.

(* the values returned by det_piv are in lowest terms, so Qeq on them is Leibniz equality *)
Lemma qprod_red ps : Qred (Gauss.qprod ps) = Gauss.qprod ps.
Proof. by case: ps => [|p ps] //; rewrite qprod_consE; apply: Qred_complete; exact: Qred_correct. Qed.
Lemma det_piv_red G q : Gauss.det_piv G = Some q -> Qred q = q.
Proof. by rewrite /Gauss.det_piv; case: (Gauss.pivots _ _) => [ps|] // [<-]; exact: qprod_red. Qed.

Lemma det_piv_eq G G' q q' : Gauss.det_piv G = Some q -> Gauss.det_piv G' = Some q' -> Qrat q = Qrat q' -> q = q'.
Proof. by move=> H1 H2 /Qrat_eqP/Qred_complete; rewrite (det_piv_red H1) (det_piv_red H2). Qed.

(* the joint determinant does not depend on the order of the first two blocks: value AND definedness *)
Theorem det_idx_swap D ix iy iz : D <> [::] ->
  Gauss.det_idx D (ix ++ iy ++ iz) = Gauss.det_idx D (iy ++ ix ++ iz).
Proof.
move=> HD; set X := cmx D (size ix) ix; set Y := cmx D (size iy) iy; set Z := cmx D (size iz) iz.
have s1 : size (ix ++ iy ++ iz) = (size ix + size iy + size iz)%N by rewrite !size_cat addnA.
have s2 : size (iy ++ ix ++ iz) = (size iy + size ix + size iz)%N by rewrite !size_cat addnA.
have E1 : cmx D (size ix + size iy + size iz) (ix ++ iy ++ iz) = row_mx (row_mx X Y) Z.
  by rewrite catA !cmx_cat ?size_cat.
have E2 : cmx D (size iy + size ix + size iz) (iy ++ ix ++ iz) = row_mx (row_mx Y X) Z.
  by rewrite catA !cmx_cat ?size_cat.
have rkE : \rank (row_mx (row_mx Y X) Z) = (size iy + size ix + size iz)%N <->
           \rank (row_mx (row_mx X Y) Z) = (size ix + size iy + size iz)%N.
  by rewrite rank_row_mxCA [(size iy + _)%N]addnC.
case H1: (Gauss.det_idx D (ix ++ iy ++ iz)) => [d|]; case H2: (Gauss.det_idx D (iy ++ ix ++ iz)) => [d'|] //.
- have /(det_idx_SomeP HD s1) rk : exists q, Gauss.det_idx D (ix ++ iy ++ iz) = Some q by exists d.
  rewrite E1 in rk; congr Some; apply: (det_piv_eq H1 H2).
  by rewrite -(det_idx_det HD s1 H1) -(det_idx_det HD s2 H2) E1 E2 (det_gram_swap3 rk).
- have /(det_idx_SomeP HD s1) rk : exists q, Gauss.det_idx D (ix ++ iy ++ iz) = Some q by exists d.
  by move: rk; rewrite E1 => /rkE; rewrite -E2 => /(det_idx_SomeP HD s2)[q]; rewrite H2.
- have /(det_idx_SomeP HD s2) rk : exists q, Gauss.det_idx D (iy ++ ix ++ iz) = Some q by exists d'.
  by move: rk; rewrite E2 => /rkE; rewrite -E1 => /(det_idx_SomeP HD s1)[q]; rewrite H1.
Qed.

Lemma det_idx_nilD idx : Gauss.det_idx [::] idx = if idx is [::] then Some (Qmake (Zpos xH) xH) else None.
Proof. by case: idx. Qed.

(* FULL X/Y symmetry of the determinant form on lists: every sample, every block size, definedness included *)
Theorem ratio_det_symmetric D ix iy iz : Gauss.ratio_det D ix iy iz = Gauss.ratio_det D iy ix iz.
Proof.
apply: GaussProofs.ratio_det_swap_partial; case: D => [|r D]; last exact: det_idx_swap.
by rewrite !det_idx_nilD; case: ix iy => [|? ?] [|? ?].
Qed.
