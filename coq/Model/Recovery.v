(* C05: LASSO selection (indices of non-zero coefficients) and the executable statement of the recovery
   consequence checked on recorded landscapes.
     lasso_optimal_causation_entropy:  S = np.where(lasso.coef_ != 0)[0].tolist()
   The coefficient vector is an oracle (scikit-learn). *)
From Coq Require Import List Arith ZArith Bool.
From CE Require Import Model.Selection Model.Lagged.
Import ListNotations.

Definition lasso_sel (coef : nat -> Z) (n : nat) : list nat := filter (fun c => negb (Z.eqb (coef c) 0)) (seq 0 n).

(* case = (standard?, n, init, f table, gF table, gB table, visiting order, L, (u, tau), edges into the target)
   the model's selection on the recorded landscape, mapped to labels, must contain (u, tau) exactly when the
   implementation's edge list does *)
Definition pair_mem (p : nat * nat) (l : list (nat * nat)) : bool :=
  existsb (fun q => Nat.eqb (fst p) (fst q) && Nat.eqb (snd p) (snd q)) l.
(* verdict / information tables with an explicit default: a query the implementation never made falls back to it *)
Definition tbl_g_d (d : bool) (tbl : list (nat * list nat * bool)) : nat -> list nat -> bool :=
  fun j Zs => lookup tbl d j (sort_nat Zs).
Definition tbl_f_d (d : Z) (tbl : list (nat * list nat * Z)) : nat -> list nat -> Z :=
  fun j Zs => lookup tbl d j (sort_nat Zs).
Definition check_recovery_case
  (c : bool * nat * nat * list nat * list (nat * list nat * Z) * list (nat * list nat * bool)
       * list (nat * list nat * bool) * list nat * (nat * nat) * list (nat * nat)) : bool :=
  let '(std, n, L, init, tf, tF, tB, order, planted, edges) := c in
  let v := if std then Standard else Alternative in
  let run := fun (df : Z) (dg : bool) => ocse (tbl_f_d df tf) (tbl_g_d dg tF) (tbl_g_d dg tB) init v n order in
  let sel := run 0%Z false in
  (* the rule must not need any evaluation or test the implementation did not make: the result may not depend on the
     value assumed for an unrecorded query *)
  list_nat_eqb sel (run 0%Z true) && list_nat_eqb sel (run 1000000%Z false) && list_nat_eqb sel (run (-1)%Z true) &&
  Bool.eqb (existsb (Nat.eqb (feature_index L (fst planted) (snd planted))) sel) (pair_mem planted edges).
