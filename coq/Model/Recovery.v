(* C05: LASSO selection (indices of non-zero coefficients) and the executable statement of the recovery
   consequence checked on recorded landscapes.
     lasso_optimal_causation_entropy:  S = np.where(lasso.coef_ != 0)[0].tolist()
   The coefficient vector is an oracle (scikit-learn). *)
From Coq Require Import List Arith ZArith Bool.
From CE Require Import Model.Selection Model.Lagged.
Import ListNotations.

Definition lasso_sel (coef : nat -> Z) (n : nat) : list nat := filter (fun c => negb (Z.eqb (coef c) 0)) (seq 0 n).

(* case = (standard?, n, init, f table, gF table, gB table, visiting order, L, (u, tau), edges into the target)
   the model's selection on the recorded landscape, mapped to labels, must contain (u, tau) exactly when the
   implementation's edge list does *)
Definition pair_mem (p : nat * nat) (l : list (nat * nat)) : bool :=
  existsb (fun q => Nat.eqb (fst p) (fst q) && Nat.eqb (snd p) (snd q)) l.
Definition check_recovery_case
  (c : bool * nat * nat * list nat * list (nat * list nat * Z) * list (nat * list nat * bool)
       * list (nat * list nat * bool) * list nat * (nat * nat) * list (nat * nat)) : bool :=
  let '(std, n, L, init, tf, tF, tB, order, planted, edges) := c in
  let sel := ocse (tbl_f tf) (tbl_g tF) (tbl_g tB) init (if std then Standard else Alternative) n order in
  Bool.eqb (existsb (Nat.eqb (feature_index L (fst planted) (snd planted))) sel) (pair_mem planted edges).
