(* Model of causationentropy/core/linalg.py : subnetwork and companion_matrix.
   Nodes are their insertion index 0..n-1 (the harness maps labels to indices); an edge carries
   its lag and its two numeric attributes.  The model is built the way the code builds the
   matrix: per-lag adjacency blocks of the lag subnetworks in the first block row, identity
   blocks below. *)
From Coq Require Import List Arith ZArith QArith Bool.
Import ListNotations.
Local Open Scope nat_scope.

Record edge := { src : nat; dst : nat; lag : nat; cmi : Q; pval : Q }.

(* subnetwork(G, k): all nodes, exactly the edges whose lag is k, with cmi and p_value *)
Definition subnet (k : nat) (es : list edge) : list edge := filter (fun e => Nat.eqb (lag e) k) es.

Definition max_lag (es : list edge) : nat := fold_right (fun e m => Nat.max (lag e) m) 0 es.

(* nx.adjacency_matrix(H).toarray(): source row, target column, node insertion order *)
Definition adj_row (n : nat) (H : list edge) (u : nat) : list Z :=
  map (fun v => if existsb (fun e => Nat.eqb (src e) u && Nat.eqb (dst e) v) H then 1%Z else 0%Z) (seq 0 n).

Definition top_row (n K : nat) (es : list edge) (u : nat) : list Z :=
  flat_map (fun l => adj_row n (subnet l es) u) (seq 1 K).

Definition unit_row (len pos : nat) : list Z := map (fun c => if Nat.eqb c pos then 1%Z else 0%Z) (seq 0 len).

Definition companion (n : nat) (es : list edge) : list (list Z) :=
  let K := max_lag es in
  if Nat.eqb K 0 then []
  else map (top_row n K es) (seq 0 n) ++ map (fun r => unit_row (n * K) (r - n)) (seq n (n * K - n)).

(* the complete characterisation of an entry, as a function *)
Definition entry_spec (n : nat) (es : list edge) (r c : nat) : Z :=
  if Nat.ltb r n then
    (if existsb (fun e => Nat.eqb (src e) r && Nat.eqb (dst e) (c mod n) && Nat.eqb (lag e) (c / n + 1)) es then 1%Z else 0%Z)
  else (if Nat.eqb c (r - n) then 1%Z else 0%Z).

(* ---- correspondence ------------------------------------------------------------------------ *)
Definition edge_eqb (a b : edge) : bool :=
  Nat.eqb (src a) (src b) && Nat.eqb (dst a) (dst b) && Nat.eqb (lag a) (lag b)
  && Qeq_bool (cmi a) (cmi b) && Qeq_bool (pval a) (pval b).
Definition incl_b (a b : list edge) : bool := forallb (fun x => existsb (edge_eqb x) b) a.
Definition same_edges (a b : list edge) : bool := Nat.eqb (length a) (length b) && incl_b a b && incl_b b a.

Definition mk (t : nat * nat * nat * Q * Q) : edge :=
  let '(s, d, l, c, p) := t in {| src := s; dst := d; lag := l; cmi := c; pval := p |}.

(* case = (edges of G, k, edges of subnetwork(G,k) as returned, with lag field set to k by the harness) *)
Definition check_subnet_case (c : list (nat * nat * nat * Q * Q) * nat * list (nat * nat * nat * Q * Q)) : bool :=
  let '(es, k, out) := c in same_edges (subnet k (map mk es)) (map mk out).

Fixpoint zrow_eqb (a b : list Z) : bool :=
  match a, b with [], [] => true | x :: a', y :: b' => Z.eqb x y && zrow_eqb a' b' | _, _ => false end.
Fixpoint zmat_eqb (a b : list (list Z)) : bool :=
  match a, b with [], [] => true | x :: a', y :: b' => zrow_eqb x y && zmat_eqb a' b' | _, _ => false end.
Definition check_companion_case (c : nat * list (nat * nat * nat * Q * Q) * list (list Z)) : bool :=
  let '(n, es, M) := c in zmat_eqb (companion n (map mk es)) M.
