(* Model of the layout / normalisation logic of causationentropy/core/plotting.py (discrete and rational part).

     _communities_seed_order   -> seed_order   (the community finder is an ORACLE: any list of lists of nodes)
     optimize_circular_order   -> optimize     (the random stream and the cost function are ORACLES: the run is a
                                                list of (proposed move, accepted?) decisions of any length)
     plot_causal_network       -> group_by_lag, norm, widths, alpha_of, cmap_index
                                  (lines 464-475 edge grouping, 507-528 per-lag normalisation, 521/565 palette cycling)

   Nodes are any type with a boolean equality; the correspondence instantiates it with Z (index of the node in
   G.nodes()).  The positions on the circle (cos/sin) live in Model/LayoutPos.v. *)
From Coq Require Import List Arith ZArith QArith Bool.
From CE Require Import Model.Harness.
Import ListNotations.

Section Nodes.
Context {A : Type}.
Variable eqb : A -> A -> bool.

Fixpoint mem (x : A) (l : list A) : bool :=
  match l with [] => false | y :: r => eqb x y || mem x r end.

(* ---- _communities_seed_order ------------------------------------------------------------------ *)
(* Python's sorted(xs, key=lambda s: -key(s)) / list.sort(key=...): stable, descending in key *)
Fixpoint insert_desc {B} (key : B -> Z) (x : B) (l : list B) : list B :=
  match l with
  | [] => [x]
  | y :: r => if (key x <? key y)%Z then y :: insert_desc key x r else x :: y :: r
  end.
Definition sort_desc {B} (key : B -> Z) (l : list B) : list B := fold_right (insert_desc key) [] l.

(* G.degree(n) of a MultiDiGraph: in-degree + out-degree, every parallel edge counted, a self-loop counts twice *)
Definition degree (edges : list (A * A)) (n : A) : Z :=
  Z.of_nat (length (filter (fun e => eqb (fst e) n) edges) + length (filter (fun e => eqb (snd e) n) edges)).

(* the `seen`/`uniq` loop: keep the elements of l not yet in seen, first occurrence only *)
Fixpoint dedup (seen : list A) (l : list A) : list A :=
  match l with
  | [] => []
  | x :: r => if mem x seen then dedup seen r else x :: dedup (x :: seen) r
  end.

Definition size_key (c : list A) : Z := Z.of_nat (length c).

Definition seed_order (deg : A -> Z) (comms : list (list A)) (nodes : list A) : list A :=
  let order := concat (map (sort_desc deg) (sort_desc size_key comms)) in
  let uniq := dedup [] order in
  uniq ++ dedup uniq nodes.

(* ---- optimize_circular_order ------------------------------------------------------------------- *)
Inductive move := Swap (i j : nat) | Reverse (i j : nat).

Fixpoint update (i : nat) (x : A) (l : list A) : list A :=
  match l, i with
  | [], _ => []
  | _ :: r, O => x :: r
  | y :: r, S k => y :: update k x r
  end.
(* cur[i], cur[j] = cur[j], cur[i]   (identity when an index is out of range; Python never proposes that) *)
Definition swap (i j : nat) (l : list A) : list A :=
  match nth_error l i, nth_error l j with
  | Some a, Some b => update j a (update i b l)
  | _, _ => l
  end.
(* cur[i:j+1] = reversed(cur[i:j+1]) *)
Definition reverse (i j : nat) (l : list A) : list A :=
  if (i <=? j)%nat then firstn i l ++ rev (firstn (S j - i) (skipn i l)) ++ skipn (S j) l else l.

Definition apply_move (m : move) (l : list A) : list A :=
  match m with Swap i j => swap i j l | Reverse i j => reverse i j l end.

(* one run of the optimiser: `best` after processing the decisions (any number of iterations, any random
   stream, any objective, any annealing schedule) *)
Definition step (best : list A) (d : move * bool) : list A :=
  if snd d then apply_move (fst d) best else best.
Definition optimize (decisions : list (move * bool)) (seed : list A) : list A := fold_left step decisions seed.

(* ---- the acceptor used by the property predicate: is l1 a permutation of l2 ? -------------------- *)
Fixpoint remove1 (x : A) (l : list A) : option (list A) :=
  match l with
  | [] => None
  | y :: r => if eqb x y then Some r else match remove1 x r with Some r' => Some (y :: r') | None => None end
  end.
Fixpoint is_perm (l1 l2 : list A) : bool :=
  match l1 with
  | [] => match l2 with [] => true | _ => false end
  | x :: r => match remove1 x l2 with Some l2' => is_perm r l2' | None => false end
  end.

(* ---- trace acceptor: the observed sequence of evaluated orders is a run of `optimize` ------------- *)
(* all moves the implementation can propose on a list of length N *)
Definition pairs (N : nat) : list (nat * nat) :=
  flat_map (fun i => map (fun j => (i, j)) (seq (S i) (N - S i))) (seq 0 N).
Definition candidate_moves (allow_rev : bool) (N : nat) : list move :=
  map (fun p => Swap (fst p) (snd p)) (pairs N) ++
  (if allow_rev then map (fun p => Reverse (fst p) (snd p)) (pairs N) else []).
Definition one_move (allow_rev : bool) (best cur : list A) : option move :=
  find (fun m => list_eqb eqb (apply_move m best) cur) (candidate_moves allow_rev (length best)).
Definition reaches (allow_rev : bool) (cur best : list A) : bool :=
  match one_move allow_rev best cur with Some _ => true | None => false end.

(* bests = the orders that can be the current `best`; each evaluated order `cur` must be one move away from
   the current best, and afterwards best is either cur (accepted) or unchanged (rejected) *)
Fixpoint check_trace (allow_rev : bool) (bests : list (list A)) (trace : list (list A)) (result : list A) : bool :=
  match trace with
  | [] => existsb (fun b => list_eqb eqb b result) bests
  | cur :: rest =>
      match filter (reaches allow_rev cur) bests with
      | [] => false
      | ok => check_trace allow_rev (cur :: ok) rest result
      end
  end.
End Nodes.

(* ---- plot_causal_network: edge grouping, normalisation, palette index ---------------------------- *)
(* edge = (source, target, lag, cmi attribute, p_value attribute or None) *)
Definition edge := (Z * Z * Z * Q * option Q)%type.
Definition e_src (e : edge) : Z := let '(u, _, _, _, _) := e in u.
Definition e_dst (e : edge) : Z := let '(_, v, _, _, _) := e in v.
Definition e_lag (e : edge) : Z := let '(_, _, l, _, _) := e in l.
Definition e_cmi (e : edge) : Q := let '(_, _, _, c, _) := e in c.
Definition e_p (e : edge) : option Q := let '(_, _, _, _, p) := e in p.

Definition non_loops (es : list edge) : list edge := filter (fun e => negb (e_src e =? e_dst e)%Z) es.

(* sorted(edge_data.keys()) : the distinct lags of the non-self-loop edges, ascending *)
Fixpoint insert_asc (x : Z) (l : list Z) : list Z :=
  match l with
  | [] => [x]
  | y :: r => if (x <? y)%Z then x :: y :: r else if (x =? y)%Z then y :: r else y :: insert_asc x r
  end.
Definition sorted_lags (es : list edge) : list Z := fold_right insert_asc [] (map e_lag (non_loops es)).
(* edge_data[lag], in G.edges() order *)
Definition group (es : list edge) (lag : Z) : list edge := filter (fun e => (e_lag e =? lag)%Z) (non_loops es).

(* cmi = max(0.0, float(cmi)) *)
Definition clamp0 (c : Q) : Q := if Qle_bool 0 c then c else 0.
Definition qmax (a b : Q) : Q := if Qle_bool a b then b else a.
Fixpoint qmax_list (l : list Q) : Q :=
  match l with [] => 0 | x :: r => match r with [] => x | _ => qmax x (qmax_list r) end end.
(* max_cmi = cmis.max() if cmis.max() > 0 else 1.0 *)
Definition denom (mx : Q) : Q := if Qle_bool mx 0 then 1 else mx.
Definition norm (raw : list Q) : list Q :=
  let c := map clamp0 raw in
  let d := denom (qmax_list c) in
  map (fun x => x / d) c.
(* widths = w0 + (w1 - w0) * norm_cmis *)
Definition widths (w0 w1 : Q) (raw : list Q) : list Q := map (fun x => w0 + (w1 - w0) * x) (norm raw).
(* np.where(p < threshold, 1.0, 0.3) with a missing p_value read as 1.0 *)
Definition alpha_of (thr : Q) (p : option Q) : Q :=
  let pv := match p with Some q => q | None => 1 end in
  if negb (Qle_bool thr pv) then 1 else 3 # 10.
(* colormaps[i % len(colormaps)] *)
Definition cmap_index (i len : nat) : nat := i mod len.

(* ---- correspondence cases ------------------------------------------------------------------------ *)
Definition zl_eqb := list_eqb Z.eqb.

(* (edges as (u,v), communities recorded by the spy, G.nodes(), value returned by _communities_seed_order) *)
Definition check_seed_case (c : list (Z * Z) * list (list Z) * list Z * list Z) : bool :=
  let '(edges, comms, nodes, out) := c in
  zl_eqb (seed_order Z.eqb (degree Z.eqb edges) comms nodes) out.

(* `if block_moves and N >= 6 and random.random() < 0.5`: block reversals are proposed only from 6 nodes on *)
Definition rev_min_nodes : nat := 6.
(* (block_moves, seed order, traced?, orders passed to _objective after the first, returned order, G.nodes()) *)
Definition check_opt_case (c : bool * list Z * bool * list (list Z) * list Z * list Z) : bool :=
  let '(block, seed, traced, trace, result, nodes) := c in
  is_perm Z.eqb result nodes &&
  (if traced then check_trace Z.eqb (block && (rev_min_nodes <=? length seed)%nat) [seed] trace result else true).

Fixpoint close_list (tol : Q) (a b : list Q) : bool :=
  match a, b with
  | [], [] => true
  | x :: a', y :: b' => Qclose tol x y && close_list tol a' b'
  | _, _ => false
  end.
(* one draw_networkx_edges call = (lag, edgelist, widths, alpha column) ; palette name index per call *)
Definition drawn := (Z * list (Z * Z) * list Q * list Q)%type.
Definition check_group (tol w0 w1 thr : Q) (use_alpha : bool) (es : list edge) (d : drawn) : bool :=
  let '(lag, el, ws, al) := d in
  let g := group es lag in
  list_eqb (fun a b => (fst a =? fst b)%Z && (snd a =? snd b)%Z) (map (fun e => (e_src e, e_dst e)) g) el &&
  close_list tol (widths w0 w1 (map e_cmi g)) ws &&
  (if use_alpha then close_list tol (map (fun e => alpha_of thr (e_p e)) g) al else true).
(* (w0, w1, threshold, use_pvalue_alpha, edges in G.edges() order, draw calls in order, palette length,
    palette index observed per draw call) *)
Definition check_draw_case (tol : Q) (c : Q * Q * Q * bool * list edge * list drawn * nat * list nat) : bool :=
  let '(w0, w1, thr, ua, es, ds, plen, idx) := c in
  zl_eqb (sorted_lags es) (map (fun d => let '(lag, _, _, _) := d in lag) ds) &&
  forallb (check_group tol w0 w1 thr ua es) ds &&
  list_eqb Nat.eqb (map (fun i => cmap_index i plen) (seq 0 (length ds))) idx.
