(* Static side of C07: the EFFECT TABLE of the package, regenerated from /repo's current source on every run by
   harness/translate_C07.py (Python `ast`, fail-closed), and the boolean checks evaluated on it.

   One entry per function of every package module reachable from causationentropy/core/discovery.py:
     fname  "core.discovery:discover_network"
     calls  the package functions it references, each with what is passed in the callee's `rng` slot
     flags  every use of hidden or ambient state found in its body (empty = none):
              numpy.random.<global-state function>, random.<module function>, global / nonlocal, reads of
              non-constant module-level names, writes through module-level names, cache decorators, mutable or
              computed default arguments, time / os.urandom / uuid / secrets, id / hash / open / eval,
              generator constructors called without a literal seed
            (methods of a LOCAL Generator such as rng.permutation are not flagged)
     rngk   how the function gets its generator: none, created inside from a literal seed, received as the
            parameter `rng` (possibly normalised by default_rng(rng)), or anything else (bad)
   No proofs in this file. *)
From Coq Require Import List ZArith Bool String.
Import ListNotations.
Open Scope string_scope.

Inductive rng_kind := NoRng | RngSeeded (seed : Z) | RngParam | RngBad.
Inductive rng_arg :=
| ArgRng      (* the caller passes its own generator variable *)
| ArgMissing  (* the callee has an `rng` parameter and the call site leaves it to its default *)
| ArgOther    (* anything else (another expression, *args, a bare reference to the function) *)
| ArgNA.      (* the callee has no `rng` parameter *)

Record fn := mk_fn { fname : string; calls : list (string * rng_arg); flags : list string; rngk : rng_kind }.
Definition table := list fn.

Fixpoint lookup_fn (t : table) (f : string) : option fn :=
  match t with
  | [] => None
  | e :: r => if String.eqb f (fname e) then Some e else lookup_fn r f
  end.

Definition mem (s : string) (l : list string) : bool := existsb (String.eqb s) l.

Definition succs (t : table) (f : string) : list string :=
  match lookup_fn t f with Some e => map fst (calls e) | None => [] end.

(* fuelled worklist closure of the call graph *)
Fixpoint reach (fuel : nat) (t : table) (seen frontier : list string) : list string :=
  match fuel with
  | O => seen
  | S k => match frontier with
           | [] => seen
           | f :: rest => if mem f seen then reach k t seen rest
                          else reach k t (f :: seen) (succs t f ++ rest)
           end
  end.

Definition fuel_for (t : table) : nat :=
  S (fold_right (fun e n => S (List.length (calls e) + n)) 0 t).

Definition reach_set (t : table) (root : string) : list string := reach (fuel_for t) t [] [root].

(* every member is defined in the table and all its callees are members: together with `root in s` this makes s
   an over-approximation of the functions reachable from root, whatever the fuel was *)
Definition closed (t : table) (s : list string) : bool :=
  forallb (fun f => match lookup_fn t f with
                    | Some e => forallb (fun c => mem (fst c) s) (calls e)
                    | None => false
                    end) s.

Definition scope_ok (t : table) (root : string) : bool :=
  let s := reach_set t root in mem root s && closed t s.

Definition is_nil {A} (l : list A) : bool := match l with [] => true | _ => false end.

Definition no_global_rng_reachable (t : table) (root : string) : bool :=
  scope_ok t root &&
  forallb (fun f => match lookup_fn t f with Some e => is_nil (flags e) | None => false end) (reach_set t root).

Definition seed_is_literal (t : table) (root : string) : bool :=
  match lookup_fn t root with
  | Some e => match rngk e with RngSeeded _ => true | _ => false end
  | None => false
  end.

Definition carries (k : rng_kind) : bool := match k with RngSeeded _ | RngParam => true | _ => false end.
Definition arg_is_rng (a : rng_arg) : bool := match a with ArgRng => true | _ => false end.

(* a call site is fine when the callee takes no generator, or receives the caller's own generator and the
   caller has one (created from a literal seed, or received in turn) *)
Definition site_ok (t : table) (caller : fn) (c : string * rng_arg) : bool :=
  match lookup_fn t (fst c) with
  | Some g => match rngk g with
              | RngParam => arg_is_rng (snd c) && carries (rngk caller)
              | RngBad => false
              | _ => true
              end
  | None => false
  end.

Definition rng_threaded_to_every_test (t : table) (root : string) (tests : list string) : bool :=
  scope_ok t root &&
  forallb (fun f => match lookup_fn t f with
                    | Some e => match rngk e with RngBad => false | _ => true end && forallb (site_ok t e) (calls e)
                    | None => false
                    end) (reach_set t root) &&
  negb (is_nil tests) &&
  forallb (fun x => mem x (reach_set t root) &&
                    match lookup_fn t x with Some e => match rngk e with RngParam => true | _ => false end | None => false end)
          tests.

(* dynamic cross-check of the translator: functions observed (sys.setprofile) during real calls must all be in
   the static reachable set *)
Definition covers (t : table) (root : string) (observed : list string) : bool :=
  forallb (fun f => mem f (reach_set t root)) observed.
