(* Model for C07: discovery is a function of (data, parameters) only.

   discover_network(data, ...) (causationentropy/core/discovery.py) creates `rng = np.random.default_rng(42)`
   inside the call, threads it to every shuffle_test, converts a DataFrame with `data.values` /
   `list(data.columns)` and anything else with `np.asarray(data)` (node names "X0", "X1", ...).

   The model makes the intended reading precise:
     * a REQUEST is an abstract matrix (rows of exact rationals) and a parameter record;
     * the many PRESENTATIONS of the same numbers (C / Fortran order, nested lists, labelled columns of a
       data frame, integer or float typed counts, mixed frames) are a datatype with an executable abstraction
       `abs` to one matrix: column-major presentations are transposed, integers are injected, every entry is
       reduced, labels are dropped (they only rename the nodes of the answer);
     * the WORLD is (global NumPy generator state, global Python generator state, everything else), all
       abstract; a history is a list of operations: calls (on any request), reseeding / advancing either global
       generator, anything else that changes the rest of the world;
     * a call answers `discover (abs p, params)` for a PURE function `discover` (Section variable: the
       estimators, the permutation stream of the fixed literal seed and the selection procedure are external
       here) and leaves the world unchanged.
   The model has no hidden state BY CONSTRUCTION; the theorems in Proofs/HistoryProofs.v say what this means
   and the history correspondence (harness/props/C07.py) establishes that the implementation behaves like it.
   No proofs in this file. *)
From Coq Require Import List ZArith QArith Bool String Ascii DecimalString.
Import ListNotations.
Open Scope string_scope.

(* ------------------------------------------------------------------ numbers and matrices *)
Definition matrix := list (list Q).

Definition q_eqb (a b : Q) : bool := Z.eqb (Qnum a) (Qnum b) && Pos.eqb (Qden a) (Qden b).

Fixpoint leqb {A} (eqb : A -> A -> bool) (a b : list A) : bool :=
  match a, b with
  | [], [] => true
  | x :: a', y :: b' => eqb x y && leqb eqb a' b'
  | _, _ => false
  end.

Fixpoint map2 {A B C} (f : A -> B -> C) (a : list A) (b : list B) : list C :=
  match a, b with
  | x :: a', y :: b' => f x y :: map2 f a' b'
  | _, _ => []
  end.

(* list of columns -> list of rows (and back) *)
Fixpoint transpose {A} (cols : list (list A)) : list (list A) :=
  match cols with
  | [] => []
  | c :: rest => match rest with
                 | [] => map (fun x => [x]) c
                 | _ => map2 cons c (transpose rest)
                 end
  end.

Definition ncols (m : matrix) : nat := match m with [] => 0 | r :: _ => List.length r end.

(* ------------------------------------------------------------------ presentations *)
Inductive column := QCol (v : list Q) | ZCol (v : list Z).

Inductive presentation :=
| ArrC (rows : list (list Q))                       (* float ndarray, C order: stored by rows *)
| ArrF (cols : list (list Q))                       (* float ndarray, Fortran order: stored by columns *)
| Nested (rows : list (list Q))                     (* list of lists of floats *)
| IntArrC (rows : list (list Z))                    (* integer ndarray, C order *)
| IntArrF (cols : list (list Z))                    (* integer ndarray, Fortran order *)
| IntNested (rows : list (list Z))                  (* list of lists of Python ints *)
| Frame (labels : list string) (cols : list column) (* DataFrame: labelled columns, each int or float typed *).

Definition col_values (c : column) : list Q :=
  match c with QCol v => v | ZCol v => map inject_Z v end.

Definition of_ints (m : list (list Z)) : matrix := map (map inject_Z) m.

Definition raw_matrix (p : presentation) : matrix :=
  match p with
  | ArrC rows | Nested rows => rows
  | ArrF cols => transpose cols
  | IntArrC rows | IntNested rows => of_ints rows
  | IntArrF cols => transpose (of_ints cols)
  | Frame _ cols => transpose (map col_values cols)
  end.

(* the abstraction: one matrix of reduced rationals *)
Definition abs (p : presentation) : matrix := map (map Qred) (raw_matrix p).

Definition default_label (i : nat) : string := "X" ++ NilEmpty.string_of_uint (Nat.to_uint i).

Definition labels (p : presentation) : list string :=
  match p with
  | Frame l _ => l
  | _ => map default_label (seq 0 (ncols (abs p)))
  end.

Definition is_frame (p : presentation) : bool := match p with Frame _ _ => true | _ => false end.

(* ------------------------------------------------------------------ parameters and requests *)
Record params := mk_params {
  p_method : string; p_info : string; p_max_lag : Z; p_alpha_f : Q; p_alpha_b : Q;
  p_k : Z; p_n_shuffles : Z; p_metric : string; p_bandwidth : string }.

Definition norm_params (a : params) : params :=
  mk_params (p_method a) (p_info a) (p_max_lag a) (Qred (p_alpha_f a)) (Qred (p_alpha_b a))
            (p_k a) (p_n_shuffles a) (p_metric a) (p_bandwidth a).

Definition params_eqb (a b : params) : bool :=
  String.eqb (p_method a) (p_method b) && String.eqb (p_info a) (p_info b) && Z.eqb (p_max_lag a) (p_max_lag b)
  && q_eqb (p_alpha_f a) (p_alpha_f b) && q_eqb (p_alpha_b a) (p_alpha_b b) && Z.eqb (p_k a) (p_k b)
  && Z.eqb (p_n_shuffles a) (p_n_shuffles b) && String.eqb (p_metric a) (p_metric b)
  && String.eqb (p_bandwidth a) (p_bandwidth b).

Definition request := (matrix * params)%type.
Definition mk_req (p : presentation) (prm : params) : request := (abs p, norm_params prm).
Definition req_eqb (a b : request) : bool :=
  leqb (leqb q_eqb) (fst a) (fst b) && params_eqb (snd a) (snd b).

(* ------------------------------------------------------------------ results *)
(* a float of the implementation: an exact rational, or one of the three non-finite values *)
Inductive fnum := Fin (q : Q) | PInf | NInf | NaN.
Definition fnum_eqb (a b : fnum) : bool :=
  match a, b with
  | Fin x, Fin y => q_eqb x y
  | PInf, PInf | NInf, NInf | NaN, NaN => true
  | _, _ => false
  end.

Record edge := mk_edge { e_src : nat; e_dst : nat; e_lag : Z; e_cmi : fnum; e_p : fnum }.
Definition edge_eqb (a b : edge) : bool :=
  Nat.eqb (e_src a) (e_src b) && Nat.eqb (e_dst a) (e_dst b) && Z.eqb (e_lag a) (e_lag b)
  && fnum_eqb (e_cmi a) (e_cmi b) && fnum_eqb (e_p a) (e_p b).
Definition result := list edge.

Record named_edge := mk_named { n_src : string; n_dst : string; n_lag : Z; n_cmi : fnum; n_p : fnum }.
(* what a caller sees: the node names and the edges between names *)
Definition response := (list string * list named_edge)%type.

Definition name_edge (ls : list string) (e : edge) : named_edge :=
  mk_named (nth (e_src e) ls "") (nth (e_dst e) ls "") (e_lag e) (e_cmi e) (e_p e).
Definition name_edges (ls : list string) (r : result) : list named_edge := map (name_edge ls) r.

Fixpoint index_of (s : string) (ls : list string) : option nat :=
  match ls with
  | [] => None
  | x :: r => if String.eqb s x then Some 0%nat else option_map S (index_of s r)
  end.

Definition unname_edge (ls : list string) (e : named_edge) : option edge :=
  match index_of (n_src e) ls, index_of (n_dst e) ls with
  | Some i, Some j => Some (mk_edge i j (n_lag e) (n_cmi e) (n_p e))
  | _, _ => None
  end.
(* map the node names of an answer back to column indices ("labels mapped") *)
Fixpoint unname (ls : list string) (es : list named_edge) : option result :=
  match es with
  | [] => Some []
  | e :: r => match unname_edge ls e, unname ls r with
              | Some x, Some xs => Some (x :: xs)
              | _, _ => None
              end
  end.

(* ------------------------------------------------------------------ the stateful reading *)
Section Model.
  Variables NpState PyState Rest : Type.
  Variable discover : request -> result.

  Record world := mk_world { np_rng : NpState; py_rng : PyState; rest : Rest }.

  (* `Call` covers calls on the probe data and on any other data / parameters (DESIGN's CallOther) *)
  Inductive op :=
  | Call (p : presentation) (prm : params)
  | ReseedNp (s : NpState) | ReseedPy (s : PyState)
  | AdvanceNp (f : NpState -> NpState) | AdvancePy (f : PyState -> PyState)
  | Elsewhere (f : Rest -> Rest).

  Definition respond (p : presentation) (prm : params) : response :=
    (labels p, name_edges (labels p) (discover (mk_req p prm))).

  Definition step (w : world) (o : op) : world * option response :=
    match o with
    | Call p prm => (w, Some (respond p prm))
    | ReseedNp s => (mk_world s (py_rng w) (rest w), None)
    | ReseedPy s => (mk_world (np_rng w) s (rest w), None)
    | AdvanceNp f => (mk_world (f (np_rng w)) (py_rng w) (rest w), None)
    | AdvancePy f => (mk_world (np_rng w) (f (py_rng w)) (rest w), None)
    | Elsewhere f => (mk_world (np_rng w) (py_rng w) (f (rest w)), None)
    end.

  (* the world after each operation together with the answer of that operation *)
  Fixpoint trace (h : list op) (w : world) : list (world * option response) :=
    match h with
    | [] => []
    | o :: h' => let '(w', r) := step w o in (w', r) :: trace h' w'
    end.

  Fixpoint run (h : list op) (w : world) : world :=
    match h with [] => w | o :: h' => run h' (fst (step w o)) end.

  Definition resp_after (h : list op) (w : world) (p : presentation) (prm : params) : option response :=
    snd (step (run h w) (Call p prm)).

  Definition is_call (o : op) : bool := match o with Call _ _ => true | _ => false end.

  (* ---- the abstract specification: a table from abstract request to the FIRST answer given for it *)
  Definition memo := list (request * result).
  Fixpoint lookup (rq : request) (m : memo) : option result :=
    match m with
    | [] => None
    | (k, v) :: m' => if req_eqb rq k then Some v else lookup rq m'
    end.

  Definition spec_step (m : memo) (o : op) : memo * option response :=
    match o with
    | Call p prm =>
        let rq := mk_req p prm in
        match lookup rq m with
        | Some r => (m, Some (labels p, name_edges (labels p) r))
        | None => let r := discover rq in ((rq, r) :: m, Some (labels p, name_edges (labels p) r))
        end
    | _ => (m, None)
    end.

  Fixpoint spec_answers (h : list op) (m : memo) : list (option response) :=
    match h with
    | [] => []
    | o :: h' => let '(m', r) := spec_step m o in r :: spec_answers h' m'
    end.
End Model.

Arguments Call {NpState PyState Rest}.
Arguments ReseedNp {NpState PyState Rest}.
Arguments ReseedPy {NpState PyState Rest}.
Arguments AdvanceNp {NpState PyState Rest}.
Arguments AdvancePy {NpState PyState Rest}.
Arguments Elsewhere {NpState PyState Rest}.
Arguments mk_world {NpState PyState Rest}.
Arguments np_rng {NpState PyState Rest}.
Arguments py_rng {NpState PyState Rest}.
Arguments rest {NpState PyState Rest}.

(* ------------------------------------------------------------------ the correspondence check *)
(* canonical form of an observed answer: names mapped back to column indices, edges sorted by (dst, src, lag) *)
Definition edge_leb (a b : edge) : bool :=
  if Nat.ltb (e_dst a) (e_dst b) then true else if Nat.ltb (e_dst b) (e_dst a) then false else
  if Nat.ltb (e_src a) (e_src b) then true else if Nat.ltb (e_src b) (e_src a) then false else
  Z.leb (e_lag a) (e_lag b).
Fixpoint insert_edge (e : edge) (l : result) : result :=
  match l with
  | [] => [e]
  | x :: r => if edge_leb e x then e :: l else x :: insert_edge e r
  end.
Definition sort_edges (l : result) : result := fold_right insert_edge [] l.

Definition canon (ls : list string) (es : list named_edge) : option result :=
  option_map sort_edges (unname ls es).

(* one observed operation of a history run against the real implementation.  Global generator states enter
   as digests (Z) of np.random.get_state() / random.getstate() taken after the operation. *)
Inductive event :=
| ECall (p : presentation) (prm : params) (obs : response) (np_after py_after : Z)
| ESeedNp (np_after : Z) | EDrawNp (np_after : Z)
| ESeedPy (py_after : Z) | EDrawPy (py_after : Z)
| EOther (np_after py_after : Z).

Definition zworld := world Z Z nat.

Definition ops_of (e : event) : list (op Z Z nat) :=
  match e with
  | ECall p prm _ _ _ => [Call p prm]
  | ESeedNp s => [ReseedNp s]
  | EDrawNp s => [AdvanceNp (fun _ => s)]
  | ESeedPy s => [ReseedPy s]
  | EDrawPy s => [AdvancePy (fun _ => s)]
  | EOther a b => [ReseedNp a; ReseedPy b; Elsewhere S]
  end.

(* the first canonical answer observed for each abstract request *)
Fixpoint first_answers (es : list event) (m : memo) : memo :=
  match es with
  | [] => m
  | ECall p prm obs _ _ :: r =>
      let rq := mk_req p prm in
      match lookup rq m, canon (labels p) (snd obs) with
      | None, Some c => first_answers r ((rq, c) :: m)
      | _, _ => first_answers r m
      end
  | _ :: r => first_answers r m
  end.

Definition discover_of (m : memo) (rq : request) : result :=
  match lookup rq m with Some r => r | None => [] end.

Definition named_eqb (a b : named_edge) : bool :=
  String.eqb (n_src a) (n_src b) && String.eqb (n_dst a) (n_dst b) && Z.eqb (n_lag a) (n_lag b)
  && fnum_eqb (n_cmi a) (n_cmi b) && fnum_eqb (n_p a) (n_p b).

(* the model's answer (names included) against the observed one, order of edges canonicalised *)
Definition response_matches (model obs : response) : bool :=
  leqb String.eqb (fst model) (fst obs) &&
  match canon (fst model) (snd model), canon (fst model) (snd obs) with
  | Some a, Some b => leqb edge_eqb a b
  | _, _ => false
  end.

(* run the model over the observed history, with `discover` := first observed answer per abstract request, and
   compare after every call: the answer (i.e. it equals the first answer to the same abstract request, under
   whatever presentation, with the nodes named after the presentation's labels) and the two global generator
   digests (unchanged by the call: the model's world still holds the last values the history put there). *)
Fixpoint check_events (d : request -> result) (w : zworld) (es : list event) : bool :=
  match es with
  | [] => true
  | e :: r =>
      let w' := run Z Z nat d (ops_of e) w in
      match e with
      | ECall p prm obs np_a py_a =>
          match resp_after Z Z nat d [] w p prm with
          | Some m => response_matches m obs
          | None => false
          end && Z.eqb (np_rng w') np_a && Z.eqb (py_rng w') py_a
      | _ => true
      end && check_events d w' r
  end.

Definition has_call (es : list event) : bool :=
  existsb (fun e => match e with ECall _ _ _ _ _ => true | _ => false end) es.

Definition call_known (m : memo) (e : event) : bool :=
  match e with
  | ECall p prm _ _ _ => match lookup (mk_req p prm) m with Some _ => true | None => false end
  | _ => true
  end.

(* A case = one history run against the implementation, plus REFERENCE answers: every request of the history was
   also answered once in a fresh process (empty history, pristine world, C-ordered float array).  The model's
   `discover` is read off the references, so the check is the instance h2 = [] of history_independent: the answer
   after the observed history equals the answer after no history at all, under every presentation.
   nreq: the number of distinct (data, parameters) requests the harness issued; the model must find the same
   number of distinct ABSTRACT requests among the references, i.e. `abs` identifies exactly the presentations of
   the same numbers (this ties the executable abstraction to what NumPy / pandas did with the objects). *)
Definition history_case := (Z * Z * nat * list event * list event)%type.
Definition check_history_case (c : history_case) : bool :=
  let '(np0, py0, nreq, refs, es) := c in
  let m := first_answers refs [] in
  has_call es && Nat.eqb (List.length m) nreq && Nat.eqb (List.length refs) nreq && forallb (call_known m) es
  && check_events (discover_of m) (mk_world np0 py0 0%nat) es.
