(* Model of causationentropy/core/discovery.py : shuffle_test.

   Values live on an integer grid (the harness scales dyadic floats to integers), the level is
   the exact rational alpha = a/b.  The model follows the source:
       null_cmi[i] = estimator(X[perm_i, :], Y, Z)          i = 0 .. n_shuffles-1
       threshold   = np.percentile(null_cmi, 100*(1-alpha))   (linear interpolation)
       p_value     = mean(null_cmi >= observed)
       Pass        = observed > threshold                     (strict since fix 0b215f2)
   [thr_b] is b times NumPy's linear-interpolation percentile at position (n-1)(b-a)/b of the
   SORTED sample, written with / and mod so that every quantity stays an integer. *)
From Coq Require Import ZArith List Lia Sorting Permutation Bool Mergesort Orders.
Import ListNotations.
Open Scope Z_scope.

Module ZOrder <: TotalLeBool.
  Definition t := Z.
  Definition leb := Z.leb.
  Theorem leb_total : forall a1 a2, leb a1 a2 = true \/ leb a2 a1 = true.
  Proof. intros; unfold leb; lia. Qed.
End ZOrder.
Module ZSort := Sort ZOrder.

Definition cge (obs : Z) (l : list Z) : nat := length (filter (fun v => obs <=? v) l).
Definition count_ge obs l := Z.of_nat (cge obs l).
Definition len (l : list Z) := Z.of_nat (length l).

Definition thr_b (a b : Z) (s : list Z) : Z :=
  let h := (len s - 1) * (b - a) in
  let lo := h / b in let rem := h mod b in
  let vlo := nth (Z.to_nat lo) s 0 in
  let vhi := nth (Z.to_nat (lo + 1)) s vlo in
  vlo * b + rem * (vhi - vlo).

(* the verdict comparator is a parameter of the rule record so that the translator can re-emit
   what the source currently says *)
Inductive cmp := Gt | Ge | Lt | Le.
Definition cmp_eval (c : cmp) (x y : Z) : bool :=
  match c with Gt => y <? x | Ge => y <=? x | Lt => x <? y | Le => x <=? y end.

Record rule := { cmp_pass : cmp; cmp_p : cmp; permuted_arg : nat (* 0 = X, 1 = Y, 2 = Z *);
                 pct_is_one_minus_alpha : bool }.
Definition repaired_rule := {| cmp_pass := Gt; cmp_p := Ge; permuted_arg := 0; pct_is_one_minus_alpha := true |}.
Definition pinned_rule   := {| cmp_pass := Ge; cmp_p := Ge; permuted_arg := 0; pct_is_one_minus_alpha := true |}.

Definition pass_strict a b obs s := thr_b a b s <? obs * b.     (* observed > threshold  *)
Definition pass_weak   a b obs s := thr_b a b s <=? obs * b.    (* observed >= threshold *)

Record result := { r_thr_b : Z; r_count : Z; r_n : Z; r_pass : bool; r_value : Z }.

(* the whole test on the list of surrogate values, in the order they were produced *)
Definition shuffle_model (a b obs : Z) (nulls : list Z) : result :=
  let s := ZSort.sort nulls in
  {| r_thr_b := thr_b a b s; r_count := count_ge obs nulls; r_n := len nulls;
     r_pass := pass_strict a b obs s; r_value := obs |}.

(* surrogate data sets: rows of X re-ordered by a permutation of the row indices *)
Definition permute_rows {A} (X : list A) (d : A) (perm : list nat) : list A := map (fun i => nth i X d) perm.
Definition surrogates {A} (X : list A) (d : A) (perms : list (list nat)) : list (list A) :=
  map (permute_rows X d) perms.

(* --- correspondence check ---------------------------------------------------
   case = (a, b, scale, obs, nulls, impl_thr_num, impl_thr_den, impl_count, impl_pass)
   The implementation's threshold (an exact dyadic num/den) must agree with thr_b/(b*scale)
   within tol_num/tol_den; count must agree exactly; the verdict must agree unless the
   observed value is within the same tolerance of the exact threshold (float boundary). *)
Definition check_case (c : Z * Z * Z * Z * list Z * Z * Z * Z * bool * Z * Z) : bool :=
  let '(a, b, scale, obs, nulls, tn, td, cnt, pas, toln, told) := c in
  let r := shuffle_model a b obs nulls in
  (* | thr_b/(b*scale) - tn/td | <= toln/told   <->  |thr_b*td - tn*b*scale| * told <= toln * b*scale*td *)
  let close := Z.abs (r_thr_b r * td - tn * b * scale) * told <=? toln * (b * scale * td) in
  let near  := Z.abs (r_thr_b r - obs * b) * told <=? toln * (b * scale) in
  close && (r_count r =? cnt) && (near || Bool.eqb (r_pass r) pas).
