(* Model of the public entry point conditional_mutual_information (the dispatcher):
       cmi = <estimator selected by name>(X, Y, Z, settings it accepts)
       if np.isfinite(cmi): return max(0.0, cmi)   else: return cmi
   Estimator results live in the value domain [val]; the route table (name, Z present?) ->
   (callee, forwarded settings) is regenerated from the source by the translator. *)
From Coq Require Import QArith String List Bool.
Import ListNotations.
Open Scope string_scope.

Inductive val := Fin (q : Q) | NaN | PInf | NInf.

Definition floor0 (v : val) : val :=
  match v with
  | Fin q => Fin (if Qle_bool 0 q then q else 0%Q)
  | other => other
  end.

Definition finite_negative (v : val) : bool :=
  match v with Fin q => negb (Qle_bool 0 q) | _ => false end.

(* settings that may be forwarded *)
Definition settings := list string.                 (* subset of ["k"; "metric"; "bandwidth"; "kernel"] *)
Record route := { r_name : string; r_zpresent : bool; r_callee : string; r_forwards : settings }.

(* what each callee accepts *)
Definition accepts (callee : string) : settings :=
  if String.eqb callee "gaussian_conditional_mutual_information" then []
  else if String.eqb callee "gaussian_mutual_information" then []
  else if String.eqb callee "kde_conditional_mutual_information" then ["bandwidth"; "kernel"]
  else if String.eqb callee "kde_mutual_information" then ["bandwidth"; "kernel"]
  else if String.eqb callee "knn_conditional_mutual_information" then ["metric"; "k"]
  else if String.eqb callee "knn_mutual_information" then ["metric"; "k"]
  else if String.eqb callee "geometric_knn_conditional_mutual_information" then ["metric"; "k"]
  else if String.eqb callee "geometric_knn_mutual_information" then ["metric"; "k"]
  else if String.eqb callee "poisson_conditional_mutual_information" then []
  else [].

Definition mem (s : string) (l : list string) : bool := existsb (String.eqb s) l.
Definition forwards_all (r : route) : bool := forallb (fun s => mem s (r_forwards r)) (accepts (r_callee r)).

(* the one deviation present in the pinned tree and pinned by a baseline test (known finding K1) *)
Definition is_K1 (r : route) : bool := String.eqb (r_name r) "geometric_knn" && negb (r_zpresent r).

Definition names : list string := ["gaussian"; "kde"; "kernel_density"; "knn"; "geometric_knn"; "poisson"].

(* the route table as modelled (what the source said when the model was written) *)
Definition modelled_routes : list route :=
  [ {| r_name := "gaussian"; r_zpresent := true;  r_callee := "gaussian_conditional_mutual_information"; r_forwards := [] |};
    {| r_name := "gaussian"; r_zpresent := false; r_callee := "gaussian_mutual_information"; r_forwards := [] |};
    {| r_name := "kde"; r_zpresent := true;  r_callee := "kde_conditional_mutual_information"; r_forwards := ["bandwidth"; "kernel"] |};
    {| r_name := "kde"; r_zpresent := false; r_callee := "kde_mutual_information"; r_forwards := ["bandwidth"; "kernel"] |};
    {| r_name := "kernel_density"; r_zpresent := true;  r_callee := "kde_conditional_mutual_information"; r_forwards := ["bandwidth"; "kernel"] |};
    {| r_name := "kernel_density"; r_zpresent := false; r_callee := "kde_mutual_information"; r_forwards := ["bandwidth"; "kernel"] |};
    {| r_name := "knn"; r_zpresent := true;  r_callee := "knn_conditional_mutual_information"; r_forwards := ["metric"; "k"] |};
    {| r_name := "knn"; r_zpresent := false; r_callee := "knn_mutual_information"; r_forwards := ["metric"; "k"] |};
    {| r_name := "geometric_knn"; r_zpresent := true;  r_callee := "geometric_knn_conditional_mutual_information"; r_forwards := ["metric"; "k"] |};
    {| r_name := "geometric_knn"; r_zpresent := false; r_callee := "geometric_knn_mutual_information"; r_forwards := [] |};
    {| r_name := "poisson"; r_zpresent := true;  r_callee := "poisson_conditional_mutual_information"; r_forwards := [] |};
    {| r_name := "poisson"; r_zpresent := false; r_callee := "poisson_conditional_mutual_information"; r_forwards := [] |} ].

Definition lookup_route (tbl : list route) (name : string) (zp : bool) : option route :=
  find (fun r => String.eqb (r_name r) name && Bool.eqb (r_zpresent r) zp) tbl.

(* dispatcher: None = ValueError (unknown name) *)
Definition dispatch (tbl : list route) (est : route -> val) (name : string) (zp : bool) : option val :=
  match lookup_route tbl name zp with
  | Some r => Some (floor0 (est r))
  | None => None
  end.

(* correspondence: the implementation's floor applied to a scripted callee value *)
Definition val_eqb (a b : val) : bool :=
  match a, b with
  | Fin p, Fin q => Qeq_bool p q
  | NaN, NaN | PInf, PInf | NInf, NInf => true
  | _, _ => false
  end.
Definition check_floor_case (c : val * val) : bool := let '(v, out) := c in val_eqb (floor0 v) out.
