(* Model of the UNCONDITIONAL Poisson mutual information
     causationentropy/core/information/conditional_mutual_information.py :
     poisson_conditional_mutual_information(X, Y, Z=None)

       SXY = corrcoef(X.T, Y.T)                      n x n computed correlation matrix r  (n = k_x + k_y)
       l_est = SXY - diag(diag(SXY))                 off-diagonal part
       fill_diagonal(SXY, diag(SXY) - sum(l_est, axis=0))     d_i = r_ii - s_i,   s_i = sum_{j<>i} r_ji
       Dcov = diag(SXY) + sum(l_est, axis=0)                  d_i + s_i
       TF = poisson_joint_entropy(SXY) = sum_i h(|d_i|) + sum_{i<j} r_ij
       FT = sum_i h(|Dcov_i|)
       return FT - TF
   h = poisson_entropy (modelled in Model/Poisson.v; abstract here).  The matrix is a function on indices < n;
   every float is a rational. *)
From Coq Require Import List Arith ZArith QArith Bool.
Import ListNotations.
Open Scope Q_scope.

Fixpoint sumn (n : nat) (f : nat -> Q) : Q := match n with O => 0 | S m => sumn m f + f m end.
Definition Qabsq (q : Q) : Q := if Qle_bool 0 q then q else - q.

Section PMI.
Variable h : Q -> Q.
Variable n : nat.
Variable r : nat -> nat -> Q.
Definition offsum (i : nat) : Q := sumn n (fun j => r j i) - r i i.        (* sum(l_est, axis=0)[i] *)
Definition dg (i : nat) : Q := r i i - offsum i.
Definition upper : Q := sumn n (fun i => sumn n (fun j => if Nat.ltb i j then r i j else 0)).
Definition joint : Q := sumn n (fun i => h (Qabsq (dg i))) + upper.
Definition marg : Q := sumn n (fun i => h (Qabsq (dg i + offsum i))).
Definition pmi : Q := marg - joint.
End PMI.

(* ---- correspondence: case = (corrcoef matrix, h(|d_i|) list, h(|Dcov_i|) list, returned value, tolerance);
   the entropy values are the implementation's own poisson_entropy on the model's arguments *)
Definition matf (M : list (list Q)) (i j : nat) : Q := nth j (nth i M []) 0.
Definition check_pmi_case (c : list (list Q) * list Q * list Q * Q * Q) : bool :=
  let '(M, hd_, hm, out, tol) := c in
  let n := length M in
  let r := matf M in
  let model := sumn n (fun i => nth i hm 0) - (sumn n (fun i => nth i hd_ 0) + upper n r) in
  Qle_bool (Qabsq (model - out)) tol.
(* the arguments at which the entropy is needed *)
Definition pmi_args (M : list (list Q)) : list Q * list Q :=
  let n := length M in let r := matf M in
  (map (fun i => Qred (Qabsq (dg n r i))) (seq 0 n), map (fun i => Qred (Qabsq (dg n r i + offsum n r i))) (seq 0 n)).
