(* Model of causationentropy/datasets/synthetic.py :
     linear_stochastic_gaussian_process  (lines 38-60)
       A  = (adjacency^T o R) * s,  s = rho / radius if radius > 1e-12 else rho      (lines 46-54)
       XY[0] = eps * w_0 ;  XY[t] = A XY[t-1] + eps * w_t                           (lines 55-59)
     poisson_coupled_oscillators         (lines 96-112)
       A = adjacency ; X[0] ~ Poisson(base) ;
       X[t,i] ~ Poisson( max(0.1, base + c * sum_j A[j,i] X[t-1,j]) )
   RNG draws (the uniform weights R, the standard-normal vectors w_t, the Poisson variates) and the
   eigenvalue routine are EXTERNAL: they enter as data (noise vectors, weight matrix, the measured radius)
   or as a Section variable (spectral radius).  Every float is a rational, so everything is stated over Q. *)
From Coq Require Import List QArith ZArith Bool.
Import ListNotations.
Open Scope Q_scope.

Definition vec := list Q.
Definition mat := list (list Q).

Fixpoint dot (a b : vec) : Q :=
  match a, b with x :: a', y :: b' => x * y + dot a' b' | _, _ => 0 end.
Definition mulmv (A : mat) (x : vec) : vec := map (fun row => dot row x) A.
Fixpoint vadd (a b : vec) : vec :=
  match a, b with x :: a', y :: b' => (x + y) :: vadd a' b' | _, _ => [] end.
Fixpoint vsub (a b : vec) : vec :=
  match a, b with x :: a', y :: b' => (x - y) :: vsub a' b' | _, _ => [] end.
Definition vscale (c : Q) (a : vec) : vec := map (Qmult c) a.

(* element-wise rational equality of vectors / of lists of vectors *)
Definition veq (a b : vec) : Prop := Forall2 Qeq a b.
Definition meq (a b : list vec) : Prop := Forall2 veq a b.

(* ---------------- linear stochastic Gaussian process ---------------- *)
(* one step of line 58 *)
Definition ar_step (A : mat) (eps : Q) (prev w : vec) : vec := vadd (mulmv A prev) (vscale eps w).
Fixpoint lin_from (A : mat) (eps : Q) (prev : vec) (noise : list vec) : list vec :=
  match noise with
  | [] => []
  | w :: r => let x := ar_step A eps prev w in x :: lin_from A eps x r
  end.
(* the whole series (lines 55-59); noise = the T standard-normal vectors in the order they are drawn *)
Definition lin_series (A : mat) (eps : Q) (noise : list vec) : list vec :=
  match noise with
  | [] => []
  | w0 :: r => let x0 := vscale eps w0 in x0 :: lin_from A eps x0 r
  end.

(* what a consumer of (XY, A) can compute: row 0, then X_t - A X_{t-1} *)
Fixpoint residuals_from (A : mat) (prev : vec) (X : list vec) : list vec :=
  match X with
  | [] => []
  | x :: r => vsub x (mulmv A prev) :: residuals_from A x r
  end.
Definition residuals (A : mat) (X : list vec) : list vec :=
  match X with [] => [] | x0 :: r => x0 :: residuals_from A x0 r end.

(* matrices by index *)
Definition get (M : mat) (i j : nat) : Q := nth j (nth i M []) 0.
Definition tab (n : nat) (f : nat -> nat -> Q) : mat :=
  map (fun i => map (fun j => f i j) (seq 0 n)) (seq 0 n).
Definition transpose (n : nat) (M : mat) : mat := tab n (fun i j => get M j i).
Definition hadamard (n : nat) (M R : mat) : mat := tab n (fun i j => get M i j * get R i j).
Definition mscale (s : Q) (M : mat) : mat := map (map (Qmult s)) M.

Definition radius_floor : Q := 1 # 1000000000000.
(* lines 52-54: divide by the radius only when it is significant, then multiply by rho *)
Definition scale_factor (rho m : Q) : Q := if Qle_bool m radius_floor then rho else rho / m.
(* lines 46-54; adj = adjacency of the graph (adj[u][v] = 1 iff u -> v), R = weights, m = measured radius of adj^T o R *)
Definition build_A (n : nat) (adj R : mat) (rho m : Q) : mat :=
  mscale (scale_factor rho m) (hadamard n (transpose n adj) R).

(* A[i][j] <> 0 only where the graph has the edge j -> i *)
Definition support_ok (n : nat) (adj A : mat) : bool :=
  forallb (fun i => forallb (fun j => Qeq_bool (get A i j) 0 || negb (Qeq_bool (get adj j i) 0)) (seq 0 n)) (seq 0 n).
Definition is01 (n : nat) (M : mat) : bool :=
  forallb (fun i => forallb (fun j => Qeq_bool (get M i j) 0 || Qeq_bool (get M i j) 1) (seq 0 n)) (seq 0 n).
Definition shape_ok (T n : nat) (X : list vec) : bool :=
  Nat.eqb (length X) T && forallb (fun x => Nat.eqb (length x) n) X.

(* ---------------- Poisson network ---------------- *)
Definition Qmax' (a b : Q) : Q := if Qle_bool a b then b else a.
Definition rate_floor : Q := 1 # 10.
Definition col (i : nat) (A : mat) : vec := map (fun row => nth i row 0) A.
(* lines 107-109: the conditional mean of node i given the previous counts *)
Definition rate (A : mat) (base c : Q) (xprev : vec) (i : nat) : Q :=
  Qmax' rate_floor (base + c * dot (col i A) xprev).
Definition rate_row (n : nat) (A : mat) (base c : Q) (xprev : vec) : vec :=
  map (rate A base c xprev) (seq 0 n).
(* rate table of rows 1..T-1, computed from the EMITTED counts *)
Fixpoint poisson_rates (n : nat) (A : mat) (base c : Q) (X : list vec) : list vec :=
  match X with
  | x :: ((_ :: _) as r) => rate_row n A base c x :: poisson_rates n A base c r
  | _ => []
  end.
Fixpoint sumf (n : nat) (f : nat -> Q) : Q :=
  match n with O => 0 | S k => sumf k f + f k end.
Definition adjacency (n : nat) (edges : list (nat * nat)) : mat :=
  tab n (fun i j => if existsb (fun e => Nat.eqb (fst e) i && Nat.eqb (snd e) j) edges then 1 else 0).

(* ---------------- acyclic support: topological-order witness and exact nilpotency ---------------- *)
Fixpoint index_of (x : nat) (l : list nat) : nat :=
  match l with [] => O | y :: r => if Nat.eqb x y then O else S (index_of x r) end.
(* rank of node i = its position in the supplied order (= length of the order if i does not occur) *)
Definition rank_of (order : list nat) (i : nat) : nat := index_of i order.
(* the order lists every index 0..n-1 and has n entries *)
Definition order_ok (n : nat) (order : list nat) : bool :=
  Nat.eqb (length order) n && forallb (fun i => existsb (Nat.eqb i) order) (seq 0 n).
(* every non-zero A[i][j] (the code stores the edge j -> i there) has j strictly before i in the order *)
Definition dag_witness_ok (order : list nat) (n : nat) (A : mat) : bool :=
  forallb (fun i => forallb (fun j => Qeq_bool (get A i j) 0 || Nat.ltb (rank_of order j) (rank_of order i)) (seq 0 n)) (seq 0 n).
(* matrix product, identity, power, zero test on n x n lists *)
Definition mmul (n : nat) (A B : mat) : mat := tab n (fun i j => sumf n (fun k => get A i k * get B k j)).
Definition mident (n : nat) : mat := tab n (fun i j => if Nat.eqb i j then 1 else 0).
Fixpoint mpow (n : nat) (A : mat) (m : nat) : mat :=
  match m with O => mident n | S k => mmul n A (mpow n A k) end.
Definition mzero (n : nat) (M : mat) : bool :=
  forallb (fun i => forallb (fun j => Qeq_bool (get M i j) 0) (seq 0 n)) (seq 0 n).
(* A^n = 0, exactly *)
Definition nilpotent_ok (n : nat) (A : mat) : bool := mzero n (mpow n A n).

(* ============ executable variants with reduced fractions, and the correspondence checks ============ *)
Fixpoint dot_red (a b : vec) : Q :=
  match a, b with x :: a', y :: b' => Qred (x * y + dot_red a' b') | _, _ => 0 end.
Definition ar_step_red (A : mat) (eps : Q) (prev w : vec) : vec :=
  map Qred (vadd (map (fun row => dot_red row prev) A) (vscale eps w)).
Fixpoint lin_from_red (A : mat) (eps : Q) (prev : vec) (noise : list vec) : list vec :=
  match noise with
  | [] => []
  | w :: r => let x := ar_step_red A eps prev w in x :: lin_from_red A eps x r
  end.
Definition lin_series_red (A : mat) (eps : Q) (noise : list vec) : list vec :=
  match noise with
  | [] => []
  | w0 :: r => let x0 := map Qred (vscale eps w0) in x0 :: lin_from_red A eps x0 r
  end.

Definition Qabs' (q : Q) : Q := if Qle_bool 0 q then q else - q.
(* |a - b| <= tol * (scale + |b|) *)
Definition qclose (tol scale a b : Q) : bool := Qle_bool (Qabs' (a - b)) (tol * (scale + Qabs' b)).
Fixpoint vclose (tol scale : Q) (a b : vec) : bool :=
  match a, b with
  | [], [] => true
  | x :: a', y :: b' => qclose tol scale x y && vclose tol scale a' b'
  | _, _ => false
  end.
Fixpoint mclose (tol scale : Q) (a b : list vec) : bool :=
  match a, b with
  | [], [] => true
  | x :: a', y :: b' => vclose tol scale x y && mclose tol scale a' b'
  | _, _ => false
  end.
(* step-wise: the model step applied to the implementation's own row t-1 reproduces row t *)
Fixpoint rows_ok (tol : Q) (A : mat) (eps : Q) (prev : vec) (X noise : list vec) : bool :=
  match X, noise with
  | [], [] => true
  | x :: X', w :: noise' => vclose tol eps (ar_step_red A eps prev w) x && rows_ok tol A eps x X' noise'
  | _, _ => false
  end.
Definition series_stepwise_ok (tol : Q) (A : mat) (eps : Q) (X noise : list vec) : bool :=
  match X, noise with
  | [], [] => true
  | x0 :: X', w0 :: noise' => vclose tol eps (vscale eps w0) x0 && rows_ok tol A eps x0 X' noise'
  | _, _ => false
  end.

Fixpoint sumf_red (n : nat) (f : nat -> Q) : Q :=
  match n with O => 0 | S k => Qred (sumf_red k f + f k) end.
Definition mmul_red (n : nat) (A B : mat) : mat := tab n (fun i j => sumf_red n (fun k => get A i k * get B k j)).
Fixpoint mpow_red (n : nat) (A : mat) (m : nat) : mat :=
  match m with O => mident n | S k => mmul_red n A (mpow_red n A k) end.
Definition nilpotent_red_ok (n : nat) (A : mat) : bool := mzero n (mpow_red n A n).
(* what is evaluated on a returned matrix whose graph the harness found acyclic: the supplied order is a topological
   order of the GRAPH USED (adj[u][v] <> 0 -> u before v), the RETURNED A goes strictly down that order, and A^n = 0 *)
Definition acyclic_ok (n : nat) (order : list nat) (adj A : mat) : bool :=
  order_ok n order && dag_witness_ok order n (transpose n adj) && dag_witness_ok order n A && nilpotent_red_ok n A.

Record lin_case := {
  lc_n : nat; lc_T : nat;
  lc_adj : mat;           (* adjacency of the graph used *)
  lc_R : mat;             (* replayed uniform weights 2(u - 1/2) *)
  lc_rho : Q; lc_m : Q;   (* rho; radius of adj^T o R as measured by numpy *)
  lc_eps : Q;
  lc_noise : list vec;    (* replayed standard normals, T rows *)
  lc_A : mat;             (* returned matrix *)
  lc_X : list vec;        (* returned series *)
  lc_K : nat;             (* number of leading rows compared with the free-running model *)
  lc_acyclic : bool;      (* the harness (networkx) found the graph used acyclic ... *)
  lc_order : list nat     (* ... and this topological order of its node indices (sources first) *)
}.
Definition check_lin_case (tol : Q) (c : lin_case) : bool :=
  let n := lc_n c in
  shape_ok (lc_T c) n (lc_X c) && shape_ok n n (lc_A c) && shape_ok (lc_T c) n (lc_noise c)
  && support_ok n (lc_adj c) (lc_A c)
  && mclose tol (Qabs' (scale_factor (lc_rho c) (lc_m c))) (build_A n (lc_adj c) (lc_R c) (lc_rho c) (lc_m c)) (lc_A c)
  && mclose tol (lc_eps c) (lin_series_red (lc_A c) (lc_eps c) (firstn (lc_K c) (lc_noise c))) (firstn (lc_K c) (lc_X c))
  && series_stepwise_ok tol (lc_A c) (lc_eps c) (lc_X c) (lc_noise c)
  && (if lc_acyclic c then acyclic_ok n (lc_order c) (lc_adj c) (lc_A c) else true).

Definition zmatQ (X : list (list Z)) : list vec := map (map inject_Z) X.
Definition rates_red (n : nat) (A : mat) (base c : Q) (X : list vec) : list vec :=
  map (map Qred) (poisson_rates n A base c X).
Fixpoint zlist_eqb (a b : list Z) : bool :=
  match a, b with [], [] => true | x :: a', y :: b' => Z.eqb x y && zlist_eqb a' b' | _, _ => false end.
Fixpoint zmat_eqb (a b : list (list Z)) : bool :=
  match a, b with [], [] => true | x :: a', y :: b' => zlist_eqb x y && zmat_eqb a' b' | _, _ => false end.
Fixpoint veqb (u v : vec) : bool :=
  match u, v with [], [] => true | p :: u', q :: v' => Qeq_bool p q && veqb u' v' | _, _ => false end.
Fixpoint meqb (a b : list vec) : bool :=
  match a, b with [], [] => true | x :: a', y :: b' => veqb x y && meqb a' b' | _, _ => false end.

Record pois_case := {
  pc_n : nat; pc_T : nat;
  pc_edges : list (nat * nat);   (* edges u -> v of the graph used *)
  pc_base : Q; pc_c : Q;
  pc_A : mat;                    (* returned matrix *)
  pc_X : list (list Z);          (* returned counts *)
  pc_lam : list vec;             (* the rates that were pushed through the replayed rng.poisson, rows 1..T-1 *)
  pc_regen : list (list Z)       (* the counts that came out *)
}.
Definition check_pois_case (tol : Q) (c : pois_case) : bool :=
  let n := pc_n c in
  let X := zmatQ (pc_X c) in
  shape_ok (pc_T c) n X && shape_ok n n (pc_A c)
  && is01 n (pc_A c) && meqb (adjacency n (pc_edges c)) (pc_A c)
  && forallb (forallb (fun z => Z.leb 0 z)) (pc_X c)
  && mclose tol 0 (rates_red n (pc_A c) (pc_base c) (pc_c c) X) (pc_lam c)
  && zmat_eqb (pc_regen c) (pc_X c).
