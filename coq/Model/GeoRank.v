(* Rank of the centred neighbourhood of geometric_knn_entropy, evaluated exactly on grid data.

   Y = neighbourhood (the sample and its k nearest neighbours, (k+1) x d) minus its column means.  The row of ones
   annihilates Y, so rank Y <= k (GeoRankMx.v, for abstract matrices over any field of characteristic not dividing k+1).
   Hence  det (Y Y^T) = 0  always ((k+1) x (k+1)), and  det (Y^T Y) = 0  whenever k < d (d x d): the (k+1)-th largest
   squared singular value is exactly 0 -- the reason the code (after F6) and Model/GeoKnn.v read only the first k singular values.
   Here the same facts are COMPUTED on the integer matrix A = (k+1) * Y * D (so no division occurs) of the neighbourhoods
   the implementation ran on, and compared with the singular values numpy.linalg.svd returned for them:
     k <  d :  column sums of A are 0, det (A A^T) = 0 (the product of ALL k+1 squared singular values), det (A^T A) = 0
               (cofactor expansion over Z, and Model/Gauss.v's elimination meets a zero pivot), and the recorded trailing
               singular value is <= 1e-6 x the leading one;
     k >= d :  column sums 0, and det (A^T A) <> 0 with the two determinant functions (cofactor expansion over Z; Gauss.v's
               pivots over Q) agreeing -- the neighbourhood has full column rank d, so the bound k is not what limits the
               rank there.  (det (A A^T) = 0 holds there too but is not evaluated: a 9 x 9 cofactor expansion is too slow.) *)
From Coq Require Import List ZArith QArith Bool.
From CE Require Import Model.Itv Model.KnnCounts Model.GeoKnn Model.GeoEllipsoid.
From CE Require Model.Gauss.
Import ListNotations.
Open Scope Z_scope.

Definition colsums0 (A : list (list Z)) (d : nat) : bool :=
  forallb (fun j => Z.eqb (fold_right Z.add 0 (map (fun r => nth j r 0) A)) 0) (seq 0 d).

(* determinant of the leading n x n part by cofactor expansion along the first column (total; no pivoting question) *)
Fixpoint zdet (n : nat) (M : list (list Z)) : Z :=
  match n with
  | O => 1
  | S n' =>
      let fix go (before after : list (list Z)) (sgn : Z) {struct after} : Z :=
        match after with
        | [] => 0
        | r :: rest => sgn * hd 0 r * zdet n' (map (@tl Z) (rev_append before rest)) + go (r :: before) rest (- sgn)
        end in
      go [] (firstn n M) 1
  end.

Definition zdot (a b : list Z) : Z := fold_right Z.add 0 (map (fun xy => fst xy * snd xy) (combine a b)).
(* A A^T *)
Definition gram_rows (A : list (list Z)) : list (list Z) := map (fun r => map (zdot r) A) A.

Definition E12 : Q := 1000000000000 # 1.

(* one neighbourhood: s0, st = squares of the first and of the last singular value numpy returned (it returns min(k+1, d)) *)
Definition rank_one (d : nat) (p : point) (l : list point) (s0 st : Q) : bool :=
  let A := centred (p :: l) d in
  let G := gram A d in
  let gq := Gauss.det_piv (map (map inject_Z) G) in
  colsums0 A d && negb (Qle_bool s0 0) &&
  (if Nat.ltb (length l) d
   then Z.eqb (zdet (S (length l)) (gram_rows A)) 0 && Z.eqb (zdet d G) 0 &&
        (match gq with None => true | Some v => Qeq_bool v 0 end) && Qle_bool (st * E12) s0
   else match gq with Some v => negb (Qeq_bool v 0) && Qeq_bool v (inject_Z (zdet d G)) | None => false end).

Fixpoint rank_all (d k : nat) (pts ps : list point) (svs : list (Q * Q)) : bool :=
  match ps, svs with
  | [], [] => true
  | p :: ps', (s0, st) :: svs' => rank_one d p (nbrs k pts p) s0 st && rank_all d k pts ps' svs'
  | _, _ => false
  end.
(* case = (d, k, points, per sample (leading, last) squared singular values recorded from the implementation) *)
Definition check_rank_case (c : nat * nat * list point * list (Q * Q)) : bool :=
  let '(d, k, pts, svs) := c in forallb (fun p => Nat.eqb (length p) d) pts && rank_all d k pts pts svs.
