(* Exact linear algebra on grid data for geometric_knn_entropy: the hyperellipsoid test for every d, and the
   closed form of the singular-value term for d = 2 (so that no SVD oracle remains for d <= 2).

   Exact evaluation of the hyperellipsoid test of geometric_knn_entropy on grid data.
     hyperellipsoid_check((U, S, Vt), z) = sum_{l < r} ((z . Vt[l]) / S[l])^2 <= 1,    r = min(k+1, d)
   For a centred neighbourhood Y ((k+1) x d) of full column rank d (k >= d, generic) this is  z^T (Y^T Y)^(-1) z <= 1,
   a rational function of the data.  With A = (k+1) * (integer points minus their mean) (integers), G = A^T A and
   z the integer difference vector:   z^T (Y^T Y)^(-1) z = (k+1)^2 * z^T G^(-1) z   (the grid scale cancels).
   z^T G^(-1) z is read off the Schur complement after eliminating the G block of [[G, z], [z^T, 0]] (no pivoting:
   G is symmetric positive definite).  For k < d the rank is k < r and the test fails for every neighbour
   (the left singular vectors give sum = 2 > 1), so the count is 0. *)
From Coq Require Import List ZArith QArith Bool.
From CE Require Import Model.Itv Model.KnnCounts Model.GeoKnn.
Import ListNotations.
Open Scope Q_scope.

Definition qsub_scaled (f : Q) (r prow : list Q) : list Q := map (fun xy => Qred (fst xy - f * snd xy)) (combine r prow).
(* n elimination steps; each removes the first row and column; None on a zero pivot *)
Fixpoint elim (n : nat) (rows : list (list Q)) : option (list (list Q)) :=
  match n with
  | O => Some rows
  | S n' =>
      match rows with
      | (piv :: prow) :: rest =>
          if Qeq_bool piv 0 then None
          else elim n' (map (fun r => match r with a :: r' => qsub_scaled (a / piv) r' prow | [] => [] end) rest)
      | _ => None
      end
  end.

Local Open Scope Z_scope.
Definition vsub (a b : list Z) : list Z := map (fun xy => fst xy - snd xy) (combine a b).
Definition vadd (a b : list Z) : list Z := map (fun xy => fst xy + snd xy) (combine a b).
(* row of A for the point p:  (k+1) * (p - mean) = sum over the neighbourhood r of (p - r) *)
Definition centred (nb : list point) (d : nat) : list (list Z) :=
  map (fun p => fold_right vadd (repeat 0 d) (map (vsub p) nb)) nb.
(* G = A^T A *)
Definition gram (A : list (list Z)) (d : nat) : list (list Z) :=
  map (fun i => map (fun j => fold_right Z.add 0 (map (fun r => nth i r 0 * nth j r 0) A)) (seq 0 d)) (seq 0 d).
Local Close Scope Z_scope.

(* (k+1)^2 z^T G^-1 z as a rational; None when G is singular *)
Definition ell_value (d : nat) (p : point) (l : list point) (q : point) : option Q :=
  let nb := p :: l in
  let G := gram (centred nb d) d in
  let z := vsub q p in
  let M := map (fun gr => map inject_Z (fst gr ++ [snd gr])) (combine G z) ++ [map inject_Z (z ++ [0%Z])] in
  match elim d M with
  | Some [[s]] => Some (inject_Z (Z.of_nat (length nb) * Z.of_nat (length nb)) * - s)
  | _ => None
  end.
Definition ins_exact (d : nat) (p : point) (l : list point) : option Z :=
  if Nat.ltb (length l) d then Some 0%Z
  else fold_right (fun q acc => match acc, ell_value d p l q with
                                | Some n, Some v => Some (if Qle_bool v 1 then n + 1 else n)%Z
                                | _, _ => None end) (Some 0%Z) l.

(* the count as SVD-free replacement of the [ins] data of Model/GeoKnn.v (0 on singular neighbourhoods, which the
   property excludes) *)
Definition ins_x (d : nat) (D : Z) (p : point) (l : list point) : Z :=
  match ins_exact d p l with Some n => n | None => 0%Z end.

(* case = (d, k, points, inside-counts the harness derived from the implementation's SVD factors) *)
Fixpoint ins_all (d k : nat) (pts ps : list point) (insl : list Z) : bool :=
  match ps, insl with
  | [], [] => true
  | p :: ps', n :: insl' => (match ins_exact d p (nbrs k pts p) with Some m => Z.eqb m n | None => false end) && ins_all d k pts ps' insl'
  | _, _ => false
  end.
Definition check_ins_case (c : nat * nat * list point * list Z) : bool :=
  let '(d, k, pts, insl) := c in ins_all d k pts pts insl.

(* ---- d = 2 without SVD data ------------------------------------------------------------------------
   Y^T Y = G / u with G = A^T A (integers), u = (k+1)^2 D^2.  Its eigenvalues (the squared singular values) are the
   roots of x^2 - tr x + det:  lambda_0 = (tr + sqrt(tr^2 - 4 det)) / 2,  lambda_1 = det / lambda_0, hence
       log(sigma_1 / sigma_0) = 1/2 log det - log lambda_0.
   For k = 1 the neighbourhood has rank 1: the code skips the (numerically zero) second singular value and the term
   is log(sigma_0/sigma_0) = 0.  This form is for samples on which no `> 1e-12` guard triggers. *)
Local Open Scope Z_scope.
Definition tr_det2 (p : point) (l : list point) : Z * Z :=
  match gram (centred (p :: l) 2) 2 with
  | [[a; b]; [_; c]] => (a + c, a * c - b * b)
  | _ => (0, 0)
  end.
Definition sv_term2 (D : Z) (p : point) (l : list point) : expr :=
  if Nat.ltb (length l) 2 then EZ 0
  else
    let n := Z.of_nat (length (p :: l)) in
    let u := n * n * (D * D) in
    let '(t, dt) := tr_det2 p l in
    ESub (half_ln (EDiv (EZ dt) (EZ (u * u))))
         (ELn (EDiv (EAdd (EZ t) (ESqrt (EZ (t * t - 4 * dt)))) (EZ (2 * u)))).
Definition corr2 (D : Z) (p : point) (l : list point) : expr :=
  EAdd (ins_term (ins_x 2 D p l)) (sv_term2 D p l).
Definition geo2_entropy_expr (D : Z) (k : nat) (pts : list point) : expr :=
  let N := Z.of_nat (length pts) in
  EAdd (EAdd (EAdd (ELn (EZ N)) (ELn (ball_expr 2)))
             (EMul (EDiv (EZ 2) (EZ N)) (ESum (map (fun p => rho_term D (rho2 k pts p)) pts))))
       (EDiv (ESum (map (fun p => corr2 D p (nbrs k pts p)) pts)) (EZ N)).
Definition check_geo2_case (c : Z * nat * list point * Z * Z * Z * Z) : bool :=
  let '(D, k, pts, vn, vd, tn, td) := c in
  forallb (fun p => Nat.eqb (length p) 2) pts && close_check (geo2_entropy_expr D k pts) (EQ vn vd) (EQ tn td).
