(* Model of causationentropy/core/stats.py : Compute_TPR_FPR and auc.

   A matrix is a list of rows of integers; entry (i,j) is read with [nth] (default 0),
   exactly the cells NumPy's elementwise operations visit for an n x n array.
   [tpr_code]/[fpr_code] follow the source line by line:
       false_negatives = np.sum((A - B) > 0)
       false_positives = np.sum((A - B) < 0)
       total_positives = np.sum(A)
       total_negatives = n*(n-1) - total_positives
       TPR = 1 - FN/P if P > 0 else 1.0 ;  FPR = FP/Nn if Nn > 0 else 0.0
   [tpr_def]/[fpr_def] are the confusion-matrix definitions over off-diagonal pairs. *)
From Coq Require Import List ZArith QArith Bool Lia.
Import ListNotations.
Open Scope Z_scope.

Definition mat := list (list Z).
Definition ent (A : mat) (i j : nat) : Z := nth j (nth i A []) 0.

Fixpoint sumn (n : nat) (g : nat -> Z) : Z :=
  match n with O => 0 | S k => sumn k g + g k end.
Definition sum2 (n : nat) (f : nat -> nat -> Z) : Z := sumn n (fun i => sumn n (fun j => f i j)).

Definition ind (b : bool) : Z := if b then 1 else 0.

(* --- the code's route ------------------------------------------------------- *)
Definition fn_code n A B := sum2 n (fun i j => ind (0 <? ent A i j - ent B i j)).
Definition fp_code n A B := sum2 n (fun i j => ind (ent A i j - ent B i j <? 0)).
Definition pos_code n A := sum2 n (fun i j => ent A i j).
Definition neg_code n A := Z.of_nat n * (Z.of_nat n - 1) - pos_code n A.

Definition tpr_code n A B : Q :=
  if 0 <? pos_code n A then 1 - inject_Z (fn_code n A B) / inject_Z (pos_code n A) else 1%Q.
Definition fpr_code n A B : Q :=
  if 0 <? neg_code n A then inject_Z (fp_code n A B) / inject_Z (neg_code n A) else 0%Q.

(* --- the definitions -------------------------------------------------------- *)
Definition offd (i j : nat) (b : bool) : Z := if Nat.eqb i j then 0 else ind b.
Definition TP n A B := sum2 n (fun i j => offd i j ((ent A i j =? 1) && (ent B i j =? 1))).
Definition FN n A B := sum2 n (fun i j => offd i j ((ent A i j =? 1) && (ent B i j =? 0))).
Definition FP n A B := sum2 n (fun i j => offd i j ((ent A i j =? 0) && (ent B i j =? 1))).
Definition TN n A B := sum2 n (fun i j => offd i j ((ent A i j =? 0) && (ent B i j =? 0))).

Definition tpr_def n A B : Q :=
  if TP n A B + FN n A B =? 0 then 1%Q
  else inject_Z (TP n A B) / inject_Z (TP n A B + FN n A B).
Definition fpr_def n A B : Q :=
  if FP n A B + TN n A B =? 0 then 0%Q
  else inject_Z (FP n A B) / inject_Z (FP n A B + TN n A B).

(* --- hypotheses of the property, as boolean predicates ---------------------- *)
Definition binary_b n (A : mat) : bool :=
  forallb (fun i => forallb (fun j => (ent A i j =? 0) || (ent A i j =? 1)) (seq 0 n)) (seq 0 n).
Definition zero_diag_b n (A : mat) : bool := forallb (fun i => ent A i i =? 0) (seq 0 n).
Definition square_b n (A : mat) : bool :=
  (length A =? n)%nat && forallb (fun r => (length r =? n)%nat) A.

Definition binary n A := forall i j, (i < n)%nat -> (j < n)%nat -> ent A i j = 0 \/ ent A i j = 1.
Definition zero_diag n A := forall i, (i < n)%nat -> ent A i i = 0.

(* off-diagonal complement of a 0/1 matrix *)
Definition complement n (A : mat) : mat :=
  map (fun i => map (fun j => if Nat.eqb i j then 0 else 1 - ent A i j) (seq 0 n)) (seq 0 n).

(* --- AUC: trapezoid rule, np.trapz(TPRs, FPRs) ------------------------------ *)
Open Scope Q_scope.
Fixpoint auc (ys xs : list Q) : Q :=
  match ys, xs with
  | y0 :: ys', x0 :: xs' =>
      match ys', xs' with
      | y1 :: _, x1 :: _ => (x1 - x0) * (y0 + y1) / 2 + auc ys' xs'
      | _, _ => 0
      end
  | _, _ => 0
  end.

(* checks used by the correspondence files *)
Definition Qeqb (a b : Q) := Qeq_bool a b.
Definition check_rates (c : nat * mat * mat * Q * Q) : bool :=
  let '(n, A, B, t, f) := c in
  Qeqb (tpr_code n A B) t && Qeqb (fpr_code n A B) f.
(* tolerance version: |model - impl| <= tol, for 1 - FN/P computed in floats *)
Definition Qabs' (q : Q) : Q := if Qle_bool 0 q then q else - q.
Definition check_rates_tol (tol : Q) (c : nat * mat * mat * Q * Q) : bool :=
  let '(n, A, B, t, f) := c in
  Qle_bool (Qabs' (tpr_code n A B - t)) tol && Qle_bool (Qabs' (fpr_code n A B - f)) tol
  && (if binary_b n A && binary_b n B && zero_diag_b n A && zero_diag_b n B
      then Qle_bool (Qabs' (tpr_def n A B - t)) tol && Qle_bool (Qabs' (fpr_def n A B - f)) tol
      else true).
Definition check_auc_tol (tol : Q) (c : list Q * list Q * Q) : bool :=
  let '(ys, xs, a) := c in Qle_bool (Qabs' (auc ys xs - a)) tol.
