(* Helpers shared by all generated correspondence files (cases_*.v).
   The harness writes the inputs it ran the implementation on, together with the
   implementation's observable outputs, as a Gallina list literal; the kernel's VM
   evaluates the model on every input, compares inside Coq, and prints only the
   indices of the cases on which model and implementation differ. *)
From Coq Require Import List NArith ZArith QArith Bool.
Import ListNotations.

Fixpoint bad_from {A} (chk : A -> bool) (i : N) (l : list A) : list N :=
  match l with
  | [] => []
  | x :: r => if chk x then bad_from chk (N.succ i) r else i :: bad_from chk (N.succ i) r
  end.
Definition bad_idx {A} (chk : A -> bool) (l : list A) : list N := bad_from chk 0%N l.

(* exact rational helpers used by numeric correspondences *)
Definition Qabs' (q : Q) : Q := if Qle_bool 0 q then q else Qopp q.
Definition Qclose (tol a b : Q) : bool := Qle_bool (Qabs' (a - b)) tol.
Definition Qeqb (a b : Q) : bool := Qeq_bool a b.

Fixpoint list_eqb {A} (eqb : A -> A -> bool) (a b : list A) : bool :=
  match a, b with
  | [], [] => true
  | x :: a', y :: b' => eqb x y && list_eqb eqb a' b'
  | _, _ => false
  end.

Definition opt_eqb {A} (eqb : A -> A -> bool) (a b : option A) : bool :=
  match a, b with
  | None, None => true
  | Some x, Some y => eqb x y
  | _, _ => false
  end.
