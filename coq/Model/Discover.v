(* Model of discover_network's request validation and of the graph it emits.
   Selection results, estimator values and test counts are oracles. *)
From Coq Require Import List Arith ZArith QArith String Bool.
From CE Require Import Model.Lagged Model.Dispatch.
Import ListNotations.
Open Scope string_scope.

Inductive outcome := Ok | NotImplemented | ValueErr.

Definition supported_methods : list string := ["standard"; "alternative"; "information_lasso"; "lasso"].
Definition supported_information : list string := ["gaussian"; "knn"; "kde"; "geometric_knn"; "poisson"].

(* guard order as in the source: method, information, then length *)
Definition validate (methods infos : list string) (method info : string) (T L : nat) : outcome :=
  if negb (mem method methods) then NotImplemented
  else if negb (mem info infos) then NotImplemented
  else if Nat.leb T (L + 2) then ValueErr
  else Ok.

Record edge := { e_src : nat; e_dst : nat; e_lag : nat; e_cmi : val; e_count : Z (* p = count / n_shuffles *) }.

Section Emit.
Variable n L : nat.
Variable sel : nat -> list nat.                 (* selected candidate indices per target *)
Variable est : nat -> nat -> val.               (* raw estimator value for (target, selected index) *)
Variable cnt : nat -> nat -> Z.                 (* #surrogates >= observed for (target, selected index) *)

Definition edges_of_target (i : nat) : list edge :=
  map (fun s => {| e_src := fst (feature L s); e_dst := i; e_lag := snd (feature L s);
                   e_cmi := floor0 (est i s); e_count := cnt i s |}) (sel i).
Definition discover_edges : list edge := flat_map edges_of_target (seq 0 n).
End Emit.

(* well-formedness checker, applied in the kernel to the implementation's graphs as well *)
Definition triple_eqb (a b : edge) : bool :=
  Nat.eqb (e_src a) (e_src b) && Nat.eqb (e_dst a) (e_dst b) && Nat.eqb (e_lag a) (e_lag b).
Fixpoint nodup_triples (l : list edge) : bool :=
  match l with [] => true | e :: r => negb (existsb (triple_eqb e) r) && nodup_triples r end.
Definition edge_ok (n L : nat) (nsh : Z) (e : edge) : bool :=
  Nat.ltb (e_src e) n && Nat.ltb (e_dst e) n && Nat.leb 1 (e_lag e) && Nat.leb (e_lag e) L
  && negb (finite_negative (e_cmi e)) && Z.leb 0 (e_count e) && Z.leb (e_count e) nsh.
Definition wf_graph (n L : nat) (nsh : Z) (es : list edge) : bool :=
  forallb (edge_ok n L nsh) es && nodup_triples es.

(* correspondence cases *)
Definition outcome_eqb (a b : outcome) : bool :=
  match a, b with Ok, Ok | NotImplemented, NotImplemented | ValueErr, ValueErr => true | _, _ => false end.
Definition check_validate_case (c : string * string * nat * nat * outcome) : bool :=
  let '(m, i, T, L, o) := c in outcome_eqb (validate supported_methods supported_information m i T L) o.
Definition check_wf_case (c : nat * nat * Z * list (nat * nat * nat * val * Z)) : bool :=
  let '(n, L, nsh, es) := c in
  wf_graph n L nsh (map (fun '(s, d, l, v, k) => {| e_src := s; e_dst := d; e_lag := l; e_cmi := v; e_count := k |}) es).
