(* Source text that hand-written models were written from, for anchors that are straight-line code.
   harness/translate_est.py re-reads the functions from /repo on every run (locals inlined, so renaming
   temporaries changes nothing) and a generated lemma states that the source still says this.

   stats_source          -> Model/Stats.v   (FN = #(A-B>0), FP = #(A-B<0), P = sum A, N = n(n-1)-P, guards; trapezoid)
   poisson_joint_source  -> Model/Poisson.v (joint_entropy: entropies of the diagonal + strictly upper triangle) *)
From Coq Require Import String List.
Import ListNotations.
Open Scope string_scope.

Definition stats_source : list (string * string) :=
  [("Compute_TPR_FPR.signature",
    "A,B");
   ("Compute_TPR_FPR.assert",
    "A.shape[0]==A.shape[1]==B.shape[0]==B.shape[1]");
   ("Compute_TPR_FPR.return[always]",
    "(1-np.sum(A-B>0)/np.sum(A)ifnp.sum(A)>0else1.0,np.sum(A-B<0)/(A.shape[0]*(A.shape[0]-1)-np.sum(A))ifA.shape[0]*(A.shape[0]-1)-np.sum(A)>0else0.0)");
   ("auc.signature",
    "TPRs,FPRs");
   ("auc.return[always]",
    "np.trapezoid(TPRs,FPRs)ifhasattr(np,'trapezoid')elsenp.trapz(TPRs,FPRs)")].

Definition poisson_joint_source : list (string * string) :=
  [("poisson_joint_entropy.signature",
    "Cov");
   ("poisson_joint_entropy.return[always]",
    "np.sum(poisson_entropy(lambdas=np.matrix(np.diag(Cov))))+np.sum(np.matrix(np.triu(Cov,1)))")].
