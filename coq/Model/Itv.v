(* Real layer with verified enclosures.

   Real-valued models are written as expression trees [expr]; [evalR] is their meaning in R and
   [evalI] evaluates them with Coq-Interval's floating-point intervals (BigZ mantissas, radix 2).
   [le0_check e = true] is a kernel-checked certificate that [evalR e <= 0] (and that every partial
   operation inside e was defined: no division by 0, no ln of a non-positive number).  The
   correspondence files use it to decide  |model - implementation| <= tolerance  inside Coq. *)
From Coq Require Import Reals ZArith List.
From Interval Require Import Specific_bigint Specific_ops Float_full Xreal Interval Basic.
From Bignums Require Import BigZ.
Import ListNotations.

Module F := SpecificFloat BigIntRadix2.
Module I := FloatIntervalFull F.

Inductive expr :=
| EZ (z : Z)
| EVar (n : nat)                       (* let-bound value, de Bruijn level from the end of the env *)
| ELet (a body : expr)
| EAdd (a b : expr) | ESub (a b : expr) | EMul (a b : expr) | EDiv (a b : expr)
| ENeg (a : expr) | EAbs (a : expr)
| EExp (a : expr) | ELn (a : expr) | ESqrt (a : expr) | ECos (a : expr) | ESin (a : expr) | EPi
| ESum (l : list expr).

Definition EQ (n d : Z) : expr := EDiv (EZ n) (EZ d).

Section Eval.
Variable prec : F.precision.

Fixpoint evalR (env : list R) (e : expr) : R :=
  match e with
  | EZ z => IZR z
  | EVar n => nth n env 0%R
  | ELet a b => evalR (env ++ [evalR env a]) b
  | EAdd a b => evalR env a + evalR env b
  | ESub a b => evalR env a - evalR env b
  | EMul a b => evalR env a * evalR env b
  | EDiv a b => evalR env a / evalR env b
  | ENeg a => - evalR env a
  | EAbs a => Rabs (evalR env a)
  | EExp a => exp (evalR env a)
  | ELn a => ln (evalR env a)
  | ESqrt a => sqrt (evalR env a)
  | ECos a => cos (evalR env a)
  | ESin a => sin (evalR env a)
  | EPi => PI
  | ESum l => fold_right (fun x acc => evalR env x + acc) 0 l
  end%R.

Fixpoint evalX (env : list ExtendedR) (e : expr) : ExtendedR :=
  match e with
  | EZ z => Xreal (IZR z)
  | EVar n => nth n env Xnan
  | ELet a b => match evalX env a with Xnan => Xnan | Xreal r => evalX (env ++ [Xreal r]) b end
  | EAdd a b => Xadd (evalX env a) (evalX env b)
  | ESub a b => Xsub (evalX env a) (evalX env b)
  | EMul a b => Xmul (evalX env a) (evalX env b)
  | EDiv a b => Xdiv (evalX env a) (evalX env b)
  | ENeg a => Xneg (evalX env a)
  | EAbs a => Xabs (evalX env a)
  | EExp a => Xexp (evalX env a)
  | ELn a => Xln (evalX env a)
  | ESqrt a => Xsqrt (evalX env a)
  | ECos a => Xcos (evalX env a)
  | ESin a => Xsin (evalX env a)
  | EPi => Xreal PI
  | ESum l => fold_right (fun x acc => Xadd (evalX env x) acc) (Xreal 0) l
  end.

Fixpoint evalI (env : list I.type) (e : expr) : I.type :=
  match e with
  | EZ z => I.fromZ prec z
  | EVar n => nth n env I.nai
  | ELet a b => match evalI env a with Float.Inan => Float.Inan | ia => evalI (env ++ [ia]) b end
  | EAdd a b => I.add prec (evalI env a) (evalI env b)
  | ESub a b => I.sub prec (evalI env a) (evalI env b)
  | EMul a b => I.mul prec (evalI env a) (evalI env b)
  | EDiv a b => I.div prec (evalI env a) (evalI env b)
  | ENeg a => I.neg (evalI env a)
  | EAbs a => I.abs (evalI env a)
  | EExp a => I.exp prec (evalI env a)
  | ELn a => I.ln prec (evalI env a)
  | ESqrt a => I.sqrt prec (evalI env a)
  | ECos a => I.cos prec (evalI env a)
  | ESin a => I.sin prec (evalI env a)
  | EPi => I.pi prec
  | ESum l => fold_right (fun x acc => I.add prec (evalI env x) acc) (I.fromZ prec 0) l
  end.

Definition le0_check (e : expr) : bool :=
  match I.sign_large (evalI [] e) with Xlt | Xeq => true | _ => false end.
End Eval.

Definition prec80 := F.PtoP 80.
(* |a - b| <= tol *)
Definition close_expr (a b tol : expr) : expr := ESub (EAbs (ESub a b)) tol.
Definition close_check (a b tol : expr) : bool := le0_check prec80 (close_expr a b tol).
