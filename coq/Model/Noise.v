(* C04 -- composed model: the oCSE selection (Model/Selection.v) whose forward / backward verdicts
   are the permutation test (Model/ShuffleTest.v) applied to the information value of the tested
   candidate and to the surrogate values the estimator returned on the re-shuffled predictor.

   Source anchors (causationentropy/core):
     discovery.py  shuffle_test              threshold = np.percentile(null, 100*(1-alpha)); Pass = observed > threshold
     discovery.py  standard_forward / alternative_forward / backward   `passed = shuffle_test(...)["Pass"]`
     information/conditional_mutual_information.py   `return max(0.0, cmi)` for finite cmi (floor at 0)

   Information values and surrogate values are ORACLES here (Section variables): for candidate j
   and conditioning columns Zs, [f j Zs] is the (floored) estimate on the data, [nullF j Zs] /
   [nullB j Zs] the n_shuffles estimates on the surrogates drawn in the forward / backward test. *)
From Coq Require Import ZArith List Bool.
From CE Require Import Model.ShuffleTest Model.Selection.
Import ListNotations.
Open Scope Z_scope.

(* the non-negativity floor of the dispatcher, on the integer grid *)
Definition clamp0 (v : Z) : Z := Z.max 0 v.

(* verdict of shuffle_test on the surrogate values in the order they were produced;
   strict = true is the current source (>), strict = false the pre-fix source (>=) *)
Definition verdict (strict : bool) (a b obs : Z) (nulls : list Z) : bool :=
  if strict then pass_strict a b obs (ZSort.sort nulls) else pass_weak a b obs (ZSort.sort nulls).

(* position arithmetic of the (1-alpha) percentile of n surrogates, alpha = a/b:
   lo = floor((n-1)(1-alpha));  a strict pass leaves at most n-1-lo surrogates >= observed;
   the exact size of the test is therefore at most (n - lo)/(n + 1) *)
Definition lo_idx (a b n : Z) : Z := ((n - 1) * (b - a)) / b.
Definition max_ge (a b n : Z) : Z := n - 1 - lo_idx a b n.
Definition bound_num (a b n : Z) : Z := n - lo_idx a b n.
Definition bound_den (n : Z) : Z := n + 1.
(* the parameters for which (n-lo)/(n+1) <= alpha + 1/n, i.e. for which the bound stated in the
   property follows for an ARBITRARY statistic *)
Definition regime (a b n : Z) : bool := (n - lo_idx a b n) * n * b <=? (a * n + b) * (n + 1).

Section Net.
Variable strict : bool.
Variables aF bF aB bB : Z.                       (* alpha_forward = aF/bF, alpha_backward = aB/bB *)
Variable f : nat -> list nat -> Z.
Variable nullF nullB : nat -> list nat -> list Z.
Variable init : list nat.

Definition gateF (j : nat) (Zs : list nat) : bool := verdict strict aF bF (f j Zs) (nullF j Zs).
Definition gateB (j : nat) (Zs : list nat) : bool := verdict strict aB bB (f j Zs) (nullB j Zs).

(* parents selected for one target: column indices of X_lagged *)
Definition network (v : variant) (n : nat) (order : list nat) : list nat :=
  ocse f gateF gateB init v n order.
End Net.

(* ---- correspondence checks ------------------------------------------------------------------
   (1) per test: see check_verdict_case below.
   (2) all-tied landscape: every information value and every surrogate value recorded while the
       parents of one target were selected equals v0; the model is run on that constant landscape
       and must return what the implementation returned.
       case = (standard?, candidates, init, n_shuffles, a, b, v0, implementation's selected list) *)
Definition check_tied_case (c : bool * nat * list nat * nat * Z * Z * Z * list nat) : bool :=
  let '(std, n, init, nsh, a, b, v0, impl) := c in
  list_nat_eqb
    (network true a b a b (fun _ _ => v0) (fun _ _ => repeat v0 nsh) (fun _ _ => repeat v0 nsh) init
             (if std then Standard else Alternative) n [])
    impl.

(* (1') verdict and count of one test, exact at exact ties.
       case = (a, b, scale, obs, nulls, impl count, impl Pass, tol_num, tol_den)
       tol_num = 0 demands the same verdict (the harness uses it when the two order statistics
       around the percentile position are equal, where NumPy's interpolation is exact: the
       all-tied null is such a case); otherwise the verdict must agree unless the observed value
       lies within tol of the exact threshold (float interpolation error). *)
Definition check_verdict_case (c : Z * Z * Z * Z * list Z * Z * bool * Z * Z) : bool :=
  let '(a, b, scale, obs, nulls, cnt, pas, toln, told) := c in
  let s := ZSort.sort nulls in
  let near := negb (toln =? 0) && (Z.abs (thr_b a b s - obs * b) * told <=? toln * (b * scale)) in
  (count_ge obs nulls =? cnt) && (near || Bool.eqb (verdict true a b obs nulls) pas).

(* (3) the bound the measured rejection rate is compared with, recomputed inside Coq:
       case = (a, b, n, harness's numerator, harness's denominator, harness's regime flag) *)
Definition check_bound_case (c : Z * Z * Z * Z * Z * bool) : bool :=
  let '(a, b, n, num, den, reg) := c in
  (bound_num a b n =? num) && (bound_den n =? den) && Bool.eqb (regime a b n) reg.
