(* Model of the CONDITIONAL Poisson estimator
     causationentropy/core/information/conditional_mutual_information.py :
     poisson_conditional_mutual_information(X, Y, Z)      -- the `else:` branch (Z present)

       SzX, SzY, SzZ = widths;  indX/indY/indZ = np.matrix(arange ...)         (1 x k index ROW matrices)
       SXYZ = np.corrcoef(hstack(X, Y, Z).T)                                    n x n,  n = SzX + SzY + SzZ        (oracle: data)
       SS = SXYZ                                                                ALIAS: later writes change both names
       Sa = SXYZ - np.diag(np.diag(SXYZ))                                       a new array: off-diagonal part (diagonal r_ii - r_ii)
       np.fill_diagonal(SS, np.diagonal(SS) - Sa)                               value is a MATRIX v[i][j] = r_jj - Sa[i][j] ((n,)-(n,n) broadcast);
                                                                                fill_diagonal writes v.flat[i] to (i,i): the FIRST ROW of v
       SS[0:SzX, 0:SzX] = SS[0:SzX, 0:SzX] + SXYZ[0:SzX, SzX:SzX+SzY]           shapes (SzX,SzX) + (SzX,SzY): ValueError unless they agree
       SS[SzX:SzX+SzY, SzX:SzX+SzY] = SS[...same...] + SXYZ[SzX:SzX+SzY, 0:SzX]
       S_est1 = SS[concat(indY.T, indZ.T), concat(indY.T, indZ.T)]              two equal (m,1) index arrays: ELEMENT-WISE fancy indexing,
       S_est2 = SS[concat(indX.T, indZ.T), concat(indX.T, indZ.T)]              an (m,1) column of DIAGONAL entries SS[a][a]
       SindZ  = SS[indZ, indZ]                                                  a (1,SzZ) row of diagonal entries
       HYZ = poisson_joint_entropy(S_est1);  HZ = poisson_joint_entropy(SindZ)
       HXYZ = poisson_joint_entropy(SXYZ - np.diag(Sa));  HXZ = poisson_joint_entropy(S_est2)
                                                                                np.diag(Sa) is the (n,) vector of Sa's diagonal, subtracted from every row
       return (HXYZ - HXZ) - (HYZ - HZ)

     poisson_joint_entropy(C) = np.sum(poisson_entropy(np.matrix(np.diag(C)))) + np.sum(np.triu(C, 1))
       on a 2-D array of ANY shape: np.diag takes C[i][i] for i < min(rows, cols), np.triu(C,1) keeps column > row.

   Arrays are modelled as a shape and an entry function; every float is a rational; the Poisson entropy h is abstract.
   The model's output is the list of signed arguments handed to poisson_entropy and the entropy-free (linear) remainder:
       estimate = sum_i s_i * h(|a_i|) + lin.
   No proofs in this file. *)
From Coq Require Import List Arith ZArith QArith Bool Reals Qreals.
From CE Require Import Model.PoissonMI.
Import ListNotations.
Open Scope Q_scope.

Record arr := mkarr { nr : nat; nc : nat; at_ : nat -> nat -> Q }.

Definition of_lists (M : list (list Q)) : arr := mkarr (length M) (length (hd [] M)) (matf M).
(* np.diag of a 2-D array: the main diagonal, min(rows, cols) entries *)
Definition np_diag2 (a : arr) : list Q := map (fun i => at_ a i i) (seq 0 (Nat.min (nr a) (nc a))).
(* np.sum(np.triu(a, 1)) *)
Definition triu1_sum (a : arr) : Q := sumn (nr a) (fun i => sumn (nc a) (fun j => if Nat.ltb i j then at_ a i j else 0)).
(* a.flat[k] (row-major) *)
Definition flat (a : arr) (k : nat) : Q := at_ a (k / nc a) (k mod nc a).
(* np.fill_diagonal(a, v) for an array v with at least as many entries as a's diagonal: (i,i) <- v.flat[i] *)
Definition fill_diagonal (a v : arr) : arr := mkarr (nr a) (nc a) (fun i j => if Nat.eqb i j then flat v i else at_ a i j).
(* a[I, I] with I an (m,1) column / a (1,m) row of indices: element-wise, the diagonal entries a[I_p][I_p] *)
Definition fancy_col (a : arr) (idx : list nat) : arr := mkarr (length idx) 1 (fun p _ => at_ a (nth p idx O) (nth p idx O)).
Definition fancy_row (a : arr) (idx : list nat) : arr := mkarr 1 (length idx) (fun _ p => at_ a (nth p idx O) (nth p idx O)).
(* the same variables listed in another order: entry (i,j) of the new matrix is entry (s i, s j) of the old one *)
Definition reindex (s : nat -> nat) (a : arr) : arr := mkarr (nr a) (nc a) (fun i j => at_ a (s i) (s j)).

Section Branch.
Variables kx ky kz : nat.
Variable S : arr.                       (* np.corrcoef's result, before the code overwrites it *)
Definition nvars : nat := (kx + ky + kz)%nat.
Definition Sa : arr := mkarr nvars nvars (fun i j => at_ S i j - (if Nat.eqb i j then at_ S i i else 0)).
Definition fill_value : arr := mkarr nvars nvars (fun i j => at_ S j j - at_ Sa i j).      (* np.diagonal(SS) - Sa *)
Definition SS1 : arr := fill_diagonal (mkarr nvars nvars (at_ S)) fill_value.
Definition SS2 : arr := mkarr nvars nvars (fun i j =>
  if Nat.ltb i kx && Nat.ltb j kx then at_ SS1 i j + at_ SS1 i (kx + j) else at_ SS1 i j).
Definition inY (i : nat) : bool := Nat.leb kx i && Nat.ltb i (kx + ky).
Definition SS3 : arr := mkarr nvars nvars (fun i j =>
  if inY i && inY j then at_ SS2 i j + at_ SS2 i (j - kx) else at_ SS2 i j).
Definition idxX : list nat := seq 0 kx.
Definition idxY : list nat := seq kx ky.
Definition idxZ : list nat := seq (kx + ky) kz.
Definition S_est1 : arr := fancy_col SS3 (idxY ++ idxZ).
Definition S_est2 : arr := fancy_col SS3 (idxX ++ idxZ).
Definition SindZ : arr := fancy_row SS3 idxZ.
Definition HXYZ_arg : arr := mkarr nvars nvars (fun i j => at_ SS3 i j - at_ Sa j j).
(* the four poisson_joint_entropy calls in program order with the sign each result has in the returned value;
   None = the two block additions raise ValueError (k_x <> k_y) *)
Definition joint_calls : option (list (Q * arr)) :=
  if Nat.eqb kx ky then Some [(- (1), S_est1); (1, SindZ); (1, HXYZ_arg); (- (1), S_est2)] else None.
End Branch.

(* signed poisson_entropy arguments and the linear remainder *)
Definition call_rates (c : Q * arr) : list (Q * Q) := map (fun a => (fst c, a)) (np_diag2 (snd c)).
Fixpoint lsumq (l : list Q) : Q := match l with [] => 0 | a :: t => a + lsumq t end.
Definition terms_of (cs : list (Q * arr)) : list (Q * Q) * Q :=
  (flat_map call_rates cs, lsumq (map (fun c => fst c * triu1_sum (snd c)) cs)).
Definition pcmi_terms (kx ky kz : nat) (S : arr) : option (list (Q * Q) * Q) :=
  match joint_calls kx ky kz S with Some cs => Some (terms_of cs) | None => None end.
Definition pcmi_value (h : Q -> Q) (t : list (Q * Q) * Q) : Q :=
  lsumq (map (fun sa => fst sa * h (Qabsq (snd sa))) (fst t)) + snd t.

Definition pcmi_est (h : Q -> Q) (kx ky kz : nat) (S : arr) : option Q :=
  match pcmi_terms kx ky kz S with Some t => Some (pcmi_value h t) | None => None end.

(* the same signed sum for a real-valued entropy function (the Poisson entropy itself: Proofs/PoissonSeries.v partial_entropy) *)
Definition pcmi_valueR (hR : R -> R) (t : list (Q * Q) * Q) : R :=
  (fold_right Rplus 0 (map (fun sa => Q2R (fst sa) * hR (Q2R (Qabsq (snd sa)))) (fst t)) + Q2R (snd t))%R.
(* multiplicity of a signed argument in a list of signed arguments *)
Definition count_sr (x : Q * Q) (l : list (Q * Q)) : nat :=
  length (filter (fun y => Qeq_bool (fst x) (fst y) && Qeq_bool (snd x) (snd y)) l).

(* ---- what the branch computes, written out (k = k_x = k_y >= 1, k_z >= 1; proved equal in Proofs/PoissonCMIProofs.v):
     d_i = r_ii - (r_0i, or 0 for i = 0) + (r_{i,k+i} for an X column, r_{i,i-k} for a Y column, nothing for a Z column)
     estimate = sum_i h|d_i| - h|d_0| - h|d_k| + h|d_2k| + sum_{p=1..k_z-1} d_{2k+p} + sum_{i<j} r_ij + sum_{i<j<k} (r_{i,k+j} + r_{k+i,j}) ---- *)
Definition dform (k : nat) (S : arr) (i : nat) : Q :=
  at_ S i i - (at_ S O i - (if Nat.eqb O i then at_ S O O else 0))
  + (if Nat.ltb i k then at_ S i (k + i) else if Nat.ltb i (k + k) then at_ S i (i - k) else 0).
Definition cross (k : nat) (S : arr) (i j : nat) : Q := at_ S i (k + j) + at_ S (k + i) j.
Definition pcmi_closed (h : Q -> Q) (k kz : nat) (d : nat -> Q) (S : arr) : Q :=
  sumn (k + k + kz) (fun i => h (Qabsq (d i))) - h (Qabsq (d O)) - h (Qabsq (d k)) + h (Qabsq (d (k + k)%nat))
  + sumn kz (fun p => if Nat.ltb 0 p then d (k + k + p)%nat else 0)
  + upper (k + k + kz) (at_ S) + upper k (cross k S).

(* ---- the transformed calls of property C10 are the same function on a re-indexed correlation matrix ---- *)
(* (Y, X, Z): new variable i is old variable swap_xyz i *)
Definition swap_xyz (kx ky i : nat) : nat :=
  if Nat.ltb i ky then (kx + i)%nat else if Nat.ltb i (kx + ky) then (i - ky)%nat else i.
(* (X, Y, Z[:, tau]): new Z column p is old Z column tau_p *)
Definition zcols (kx ky : nat) (tau : list nat) (i : nat) : nat :=
  if Nat.ltb i (kx + ky) then i else (kx + ky + nth (i - (kx + ky)) tau O)%nat.
Definition tab (s : list nat) (i : nat) : nat := nth i s i.

(* ---- correspondence ----------------------------------------------------------------------------------
   case = one sample: the matrix np.corrcoef returned in the ORIGINAL call and, for the original and every transformed call, the variable
           order of that call, whether it raised, the recorded (argument, result) pairs of every poisson_entropy element it evaluated and
           the value it returned; tolerance on arguments, tolerance on the value.
   The model's signed arguments and the recorded arguments are compared as multisets (both sorted); the returned value must be
   the model's signed sum of the RECORDED entropies plus the model's linear remainder. *)
Fixpoint insert_by {A : Type} (key : A -> Q) (x : A) (l : list A) : list A :=
  match l with [] => [x] | y :: t => if Qle_bool (key x) (key y) then x :: l else y :: insert_by key x t end.
Definition sort_by {A : Type} (key : A -> Q) (l : list A) : list A := fold_right (insert_by key) [] l.
Fixpoint all2 {A B : Type} (p : A -> B -> bool) (l : list A) (m : list B) : bool :=
  match l, m with [] , [] => true | a :: l', b :: m' => p a b && all2 p l' m' | _, _ => false end.
Definition square (M : list (list Q)) (n : nat) : bool := Nat.eqb (length M) n && forallb (fun r => Nat.eqb (length r) n) M.

(* one call: (X and Y exchanged?, variable order s of this call (new -> old), raised?, recorded (argument, result) pairs, returned value) *)
Definition check_pcmi_call (kx ky kz : nat) (S0 : arr) (tolr tolv : Q) (v : bool * list nat * bool * list (Q * Q) * Q) : bool :=
  let '(swapped, s, raised, rec, out) := v in
  match pcmi_terms (if swapped then ky else kx) (if swapped then kx else ky) kz (reindex (tab s) S0) with
  | None => raised
  | Some (rates, lin) =>
      negb raised &&
      let ms := sort_by (fun sa : Q * Q => snd sa) rates in
      let rs := sort_by (fun ah : Q * Q => fst ah) rec in
      all2 (fun (sa ah : Q * Q) => Qle_bool (Qabsq (snd sa - fst ah)) tolr) ms rs &&
      Qle_bool (Qabsq (lsumq (map (fun p : (Q * Q) * (Q * Q) => fst (fst p) * snd (snd p)) (combine ms rs)) + lin - out)) tolv
  end.
(* one sample: (k_x, k_y, k_z of the original call, its correlation matrix, tolerances, the original call and the transformed calls) *)
Definition check_pcmi_case (c : nat * nat * nat * list (list Q) * Q * Q * list (bool * list nat * bool * list (Q * Q) * Q)) : bool :=
  let '(kx, ky, kz, M, tolr, tolv, calls) := c in
  square M (kx + ky + kz) && forallb (check_pcmi_call kx ky kz (of_lists M) tolr tolv) calls.

(* ---- the witness of the two refutation theorems (Proofs/PoissonCMIProofs.v): k_x = k_y = 1, k_z = 2;
   it is the correlation matrix of the 8-row count sample built in harness/props/C10.py ---- *)
Definition witness : list (list Q) := [[1; 0; 1 # 2; 0]; [0; 1; 0; 0]; [1 # 2; 0; 1; 0]; [0; 0; 0; 1]].
(* the 8-row count sample (columns X | Y | Z1 Z2) and the statement "M is the correlation matrix of these rows":
   with c_ij = N sum x_i x_j - sum x_i sum x_j :  c_ii > 0,  M_ij^2 c_ii c_jj = c_ij^2  and  M_ij, c_ij have the same sign *)
Definition witness_sample : list (list Z) :=
  [[2; 2; 8; 2]; [2; 2; 4; 0]; [2; 0; 6; 0]; [2; 0; 2; 2]; [0; 2; 2; 2]; [0; 2; 2; 0]; [0; 0; 4; 0]; [0; 0; 4; 2]]%Z.
Definition zsum (l : list Z) : Z := fold_right Z.add 0%Z l.
Definition col (rows : list (list Z)) (j : nat) : list Z := map (fun r => nth j r 0%Z) rows.
Definition cprod (rows : list (list Z)) (i j : nat) : Z :=
  (Z.of_nat (length rows) * zsum (map (fun r => nth i r 0 * nth j r 0) rows) - zsum (col rows i) * zsum (col rows j))%Z.
Definition is_corr_of (rows : list (list Z)) (M : list (list Q)) (n : nat) : bool :=
  square M n && forallb (fun r => Nat.eqb (length r) n) rows &&
  forallb (fun i => (0 <? cprod rows i i)%Z &&
    forallb (fun j => let m := matf M i j in let c := cprod rows i j in
                      Qeq_bool (m * m * inject_Z (cprod rows i i * cprod rows j j)) (inject_Z (c * c)) &&
                      Bool.eqb (Qle_bool 0 m) (0 <=? c)%Z && Bool.eqb (Qle_bool m 0) (c <=? 0)%Z) (seq 0 n)) (seq 0 n).
(* symmetric with unit diagonal and entries in [-1, 1] *)
Definition sym_unit (M : list (list Q)) (n : nat) : bool :=
  square M n && forallb (fun i => Qeq_bool (matf M i i) 1 &&
    forallb (fun j => Qeq_bool (matf M i j) (matf M j i) && Qle_bool (- (1)) (matf M i j) && Qle_bool (matf M i j) 1) (seq 0 n)) (seq 0 n).
Definition witness_terms (s : nat -> nat) : option (list (Q * Q) * Q) := pcmi_terms 1 1 2 (reindex s (of_lists witness)).
(* the two Poisson entropies the witness needs, to 16 digits; certified against the series in Proofs/PoissonCMIProofs.v *)
Definition h_half : Q := 9276374674957975 # 10000000000000000.
Definition h_one : Q := 13048422422562513 # 10000000000000000.
Definition h_witness (q : Q) : Q := if Qeq_bool q (1 # 2) then h_half else if Qeq_bool q 1 then h_one else 0.
(* case = (variable order s, the rows of the sample, the matrix np.corrcoef returned in this call, returned value, tolerances): the recorded matrix is the
   re-indexed witness and the implementation's value on the witness sample is the model's value with the certified entropies *)
Definition rows_eqb (a b : list (list Z)) : bool :=
  Nat.eqb (length a) (length b) && forallb (fun p => Nat.eqb (length (fst p)) (length (snd p)) &&
    forallb (fun q => Z.eqb (fst q) (snd q)) (combine (fst p) (snd p))) (combine a b).
Definition check_witness_case (c : list nat * list (list Z) * list (list Q) * Q * Q * Q) : bool :=
  let '(s, rows, M, out, tolm, tolv) := c in
  rows_eqb rows witness_sample &&      (* X | Y | Z of the ORIGINAL call *)
  square M 4 &&
  forallb (fun i => forallb (fun j => Qle_bool (Qabsq (matf M i j - matf witness (tab s i) (tab s j))) tolm) (seq 0 4)) (seq 0 4) &&
  match witness_terms (tab s) with
  | Some t => forallb (fun sa : Q * Q => Qeq_bool (snd sa) (1 # 2) || Qeq_bool (snd sa) 1) (fst t) &&
              Qle_bool (Qabsq (pcmi_value h_witness t - out)) tolv
  | None => false
  end.
