(* Model of the oCSE selection logic in causationentropy/core/discovery.py:
   standard_forward, alternative_forward, backward and the two *_optimal_causation_entropy drivers.

   Candidates are column indices 0..n-1 of X_lagged.  The information estimator and the
   significance test are ORACLES (Section variables): f j Zs is the information of candidate j
   given the conditioning columns Zs, gF/gB are the verdicts of the forward / backward tests.
   Conditioning sets are lists in the order the code stacks the columns (init ++ S); oracles
   that only depend on the set are the special case the property talks about. *)
From Coq Require Import List Arith ZArith Bool.
Import ListNotations.

Section OCSE.
Variable f : nat -> list nat -> Z.
Variable gF gB : nat -> list nat -> bool.
Variable init : list nat.       (* own lags of the target (standard) or [] (alternative) *)

(* numpy argmax: first index attaining the maximum *)
Fixpoint argmax_first (score : nat -> Z) (best : nat) (l : list nat) : nat :=
  match l with
  | [] => best
  | j :: l' => if (score best <? score j)%Z then argmax_first score j l' else argmax_first score best l'
  end.
Definition argmax (score : nat -> Z) (l : list nat) : nat :=
  match l with [] => 0 | j :: l' => argmax_first score j l' end.

(* standard_forward: every candidate is decided exactly once; a rejected one is discarded *)
Fixpoint std_fwd (fuel : nat) (cands S : list nat) : list nat :=
  match fuel with
  | 0 => S
  | S fuel' =>
    match cands with
    | [] => S
    | _ =>
      let j := argmax (fun j => f j (init ++ S)) cands in
      let cands' := remove Nat.eq_dec j cands in
      if gF j (init ++ S) then std_fwd fuel' cands' (S ++ [j]) else std_fwd fuel' cands' S
    end
  end.

(* alternative_forward: stop at the first rejection *)
Fixpoint alt_fwd (fuel : nat) (cands S : list nat) : list nat :=
  match fuel with
  | 0 => S
  | S fuel' =>
    match cands with
    | [] => S
    | _ =>
      let j := argmax (fun j => f j (init ++ S)) cands in
      if gF j (init ++ S) then alt_fwd fuel' (remove Nat.eq_dec j cands) (S ++ [j]) else S
    end
  end.

(* backward: visit `order`; condition on the current survivors minus j; drop j on failure *)
Fixpoint bwd (order S : list nat) : list nat :=
  match order with
  | [] => S
  | j :: order' =>
    let Zc := remove Nat.eq_dec j S in
    if gB j Zc then bwd order' S else bwd order' Zc
  end.

Inductive variant := Standard | Alternative.

Definition fwd (v : variant) (n : nat) : list nat :=
  match v with
  | Standard => std_fwd n (seq 0 n) []
  | Alternative => alt_fwd n (seq 0 n) []
  end.

Definition ocse (v : variant) (n : nat) (order : list nat) : list nat := bwd order (fwd v n).

(* ---- the oCSE rule as a relation, written from the property text ------------------------
   any maximal not-yet-decided candidate may be taken; the backward phase may visit the
   forward set in any order, each element exactly once *)
Definition maximal (cands S : list nat) (j : nat) : Prop :=
  In j cands /\ forall j', In j' cands -> (f j' (init ++ S) <= f j (init ++ S))%Z.

Inductive std_rule : list nat -> list nat -> list nat -> Prop :=
| sr_done S : std_rule [] S S
| sr_step cands S j R : maximal cands S j ->
    std_rule (remove Nat.eq_dec j cands) (if gF j (init ++ S) then S ++ [j] else S) R ->
    std_rule cands S R.

Inductive alt_rule : list nat -> list nat -> list nat -> Prop :=
| ar_done S : alt_rule [] S S
| ar_stop cands S j : maximal cands S j -> gF j (init ++ S) = false -> alt_rule cands S S
| ar_step cands S j R : maximal cands S j -> gF j (init ++ S) = true ->
    alt_rule (remove Nat.eq_dec j cands) (S ++ [j]) R -> alt_rule cands S R.

Inductive bwd_rule : list nat -> list nat -> list nat -> Prop :=
| br_done S : bwd_rule [] S S
| br_step todo j S R : In j todo ->
    bwd_rule (remove Nat.eq_dec j todo) (if gB j (remove Nat.eq_dec j S) then S else remove Nat.eq_dec j S) R ->
    bwd_rule todo S R.

Definition fwd_rule (v : variant) (n : nat) (F : list nat) : Prop :=
  match v with
  | Standard => std_rule (seq 0 n) [] F
  | Alternative => alt_rule (seq 0 n) [] F
  end.

Definition ocse_spec (v : variant) (n : nat) (R : list nat) : Prop :=
  exists F, fwd_rule v n F /\ bwd_rule F F R.
End OCSE.

(* ---- executable instances used by the correspondence files --------------------------------
   oracles given as finite tables keyed by (candidate, sorted conditioning list) *)
Fixpoint insert_sorted (x : nat) (l : list nat) : list nat :=
  match l with
  | [] => [x]
  | y :: l' => if Nat.eqb x y then l else if Nat.ltb x y then x :: l else y :: insert_sorted x l'
  end.
(* sorted and duplicate-free: the oracles of the correspondence depend on the conditioning SET
   (in the standard variant an own lag of the target can be both in init and accepted) *)
Definition sort_nat (l : list nat) : list nat := fold_right insert_sorted [] l.

Fixpoint list_nat_eqb (a b : list nat) : bool :=
  match a, b with
  | [], [] => true
  | x :: a', y :: b' => Nat.eqb x y && list_nat_eqb a' b'
  | _, _ => false
  end.

Fixpoint lookup {A} (tbl : list (nat * list nat * A)) (d : A) (j : nat) (Zs : list nat) : A :=
  match tbl with
  | [] => d
  | (j', Zs', v) :: t => if Nat.eqb j j' && list_nat_eqb Zs Zs' then v else lookup t d j Zs
  end.

Definition tbl_f (tbl : list (nat * list nat * Z)) : nat -> list nat -> Z :=
  fun j Zs => lookup tbl 0%Z j (sort_nat Zs).
Definition tbl_g (tbl : list (nat * list nat * bool)) : nat -> list nat -> bool :=
  fun j Zs => lookup tbl false j (sort_nat Zs).

(* case = (standard?, n, init, f table, gF table, gB table, visiting order, implementation's result) *)
Definition check_case
  (c : bool * nat * list nat * list (nat * list nat * Z) * list (nat * list nat * bool)
       * list (nat * list nat * bool) * list nat * list nat) : bool :=
  let '(std, n, init, tf, tF, tB, order, impl) := c in
  list_nat_eqb (ocse (tbl_f tf) (tbl_g tF) (tbl_g tB) init (if std then Standard else Alternative) n order) impl.

(* forward phase alone (standard_forward / alternative_forward) *)
Definition check_fwd_case
  (c : bool * nat * list nat * list (nat * list nat * Z) * list (nat * list nat * bool) * list nat) : bool :=
  let '(std, n, init, tf, tF, impl) := c in
  list_nat_eqb (fwd (tbl_f tf) (tbl_g tF) init (if std then Standard else Alternative) n) impl.

(* backward phase alone: given S_init and the visiting order *)
Definition check_bwd_case
  (c : list nat * list (nat * list nat * bool) * list nat * list nat) : bool :=
  let '(S0, tB, order, impl) := c in
  list_nat_eqb (bwd (tbl_g tB) order S0) impl.

(* through discover_network: edges into one target, as (variable, lag) labels in emission order *)
From CE Require Import Model.Lagged.
Fixpoint list_pair_eqb (a b : list (nat * nat)) : bool :=
  match a, b with
  | [], [] => true
  | (x1, x2) :: a', (y1, y2) :: b' => Nat.eqb x1 y1 && Nat.eqb x2 y2 && list_pair_eqb a' b'
  | _, _ => false
  end.
Definition check_discover_case
  (c : bool * nat * nat * list nat * list (nat * list nat * Z) * list (nat * list nat * bool)
       * list (nat * list nat * bool) * list nat * list (nat * nat)) : bool :=
  let '(std, n, L, init, tf, tF, tB, order, edges) := c in
  list_pair_eqb (map (feature L)
     (sort_nat (ocse (tbl_f tf) (tbl_g tF) (tbl_g tB) init (if std then Standard else Alternative) n order))) edges.

(* what the model assumes about the source's selection code; the translator re-reads these facts
   from /repo on every run and the generated lemma compares them with this table *)
From Coq Require Import String.
Open Scope string_scope.
Definition modelled_facts : list (string * string) :=
  [ ("std.pick", "argmax"); ("std.on_reject", "discard_and_continue"); ("std.cond", "init_then_accepted");
    ("std.test_level", "alpha"); ("std.tested_value", "value_of_best");
    ("alt.pick", "argmax"); ("alt.on_reject", "stop"); ("alt.cond", "accepted"); ("alt.test_level", "alpha");
    ("alt.tested_value", "value_of_best");
    ("bwd.visit", "rng.permutation(S_init)"); ("bwd.cond", "survivors_minus_j"); ("bwd.on_reject", "remove_j");
    ("bwd.test_level", "alpha");
    ("std_driver.forward_level", "alpha1"); ("std_driver.backward_level", "alpha2");
    ("alt_driver.forward_level", "alpha1"); ("alt_driver.backward_level", "alpha2");
    ("discover.std_levels", "alpha_forward,alpha_backward"); ("discover.alt_levels", "alpha_forward,alpha_backward") ].
