(* Model of the lag construction in discover_network (discovery.py lines 165-195, 226-261):
       col        = series[max_lag - tau : T - tau, j]            for j in range(n), tau in 1..max_lag
       feature_names.append((j, tau))
       Y_all      = series[max_lag:, :]
       Z_init     = [series[max_lag - tau : T - tau, i] for tau in 1..max_lag]     (standard)
   and of the edge record (X_predictor, Y_target, Z_cond) emitted for each selected index. *)
From Coq Require Import List Arith.
Import ListNotations.

Section Lagged.
Context {V : Type} (d : V).

Definition series := list (list V).                       (* T rows, n columns *)
Definition cell (s : series) (t j : nat) : V := nth j (nth t s []) d.
Definition col (j : nat) (s : series) : list V := map (fun row => nth j row d) s.
Definition slice {A} (lo hi : nat) (l : list A) : list A := firstn (hi - lo) (skipn lo l).

(* Python slice series[L - tau : T - tau, j] *)
Definition lagged_col (s : series) (L tau j : nat) : list V :=
  slice (L - tau) (length s - tau) (col j s).
(* series[L:, i] *)
Definition y_col (s : series) (L i : nat) : list V := slice L (length s) (col i s).

(* column index c of X_lagged  <->  (variable, lag) *)
Definition feature (L c : nat) : nat * nat := (c / L, c mod L + 1).
Definition feature_index (L j tau : nat) : nat := j * L + tau - 1.
Definition feature_names (n L : nat) : list (nat * nat) :=
  flat_map (fun j => map (fun tau => (j, tau)) (seq 1 L)) (seq 0 n).

Definition x_lagged_col (s : series) (L c : nat) : list V :=
  lagged_col s L (snd (feature L c)) (fst (feature L c)).
Definition own_lags (s : series) (L i : nat) : list (list V) :=
  map (fun tau => lagged_col s L tau i) (seq 1 L).

(* the triple handed to the estimator / test when the edge for selected index sidx is emitted *)
Definition edge_triple (s : series) (L i : nat) (S : list nat) (sidx : nat)
  : list V * list V * list (list V) :=
  (x_lagged_col s L sidx, y_col s L i,
   map (x_lagged_col s L) (filter (fun k => negb (Nat.eqb k sidx)) S)).

(* (source variable, target variable, lag) of that edge *)
Definition edge_label (L i sidx : nat) : nat * nat * nat :=
  (fst (feature L sidx), i, snd (feature L sidx)).

(* pointwise, slicing-free description used by the theorems *)
Definition delayed (s : series) (L tau j : nat) : list V :=
  map (fun t => cell s (t - tau) j) (seq L (length s - L)).
Definition present (s : series) (L i : nat) : list V :=
  map (fun t => cell s t i) (seq L (length s - L)).
End Lagged.

(* ---- correspondence check (cells are integers) ------------------------------------------------ *)
From Coq Require Import ZArith Bool.
Fixpoint zlist_eqb (a b : list Z) : bool :=
  match a, b with
  | [], [] => true
  | x :: a', y :: b' => Z.eqb x y && zlist_eqb a' b'
  | _, _ => false
  end.
Fixpoint zmat_eqb (a b : list (list Z)) : bool :=
  match a, b with
  | [], [] => true
  | x :: a', y :: b' => zlist_eqb x y && zmat_eqb a' b'
  | _, _ => false
  end.
(* case = (series, L, target i, selected S, sidx, X handed to the estimator, Y, Z columns, (u, v, lag) of the edge) *)
Definition check_edge_case
  (c : list (list Z) * nat * nat * list nat * nat * list Z * list Z * list (list Z) * (nat * nat * nat)) : bool :=
  let '(s, L, i, Sel, sidx, X, Y, Zs, lbl) := c in
  let '(mx, my, mz) := edge_triple 0%Z s L i Sel sidx in
  let '(u, v, lag) := lbl in
  let '(mu, mv, mlag) := edge_label L i sidx in
  zlist_eqb mx X && zlist_eqb my Y && zmat_eqb mz Zs && Nat.eqb u mu && Nat.eqb v mv && Nat.eqb lag mlag.
(* selection phase: candidate column c and (standard) the own-lag block *)
Definition check_column_case (c : list (list Z) * nat * nat * list Z) : bool :=
  let '(s, L, cidx, X) := c in zlist_eqb (x_lagged_col 0%Z s L cidx) X.
Definition check_ownlags_case (c : list (list Z) * nat * nat * list (list Z)) : bool :=
  let '(s, L, i, Zs) := c in zmat_eqb (own_lags 0%Z s L i) Zs.
