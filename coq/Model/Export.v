(* Model of causationentropy/graph/utils.py : network_to_dataframe and pcmci_network_to_dataframe.
   A data frame is its column list plus one association list per row.  Node labels are opaque ids
   (for the PCMCI export the harness numbers labels by the order of their str(), which is the key
   the code sorts symmetric endpoints by). *)
From Coq Require Import List Arith ZArith QArith String Bool.
Import ListNotations.
Open Scope nat_scope.
Open Scope string_scope.

Inductive cell := CLabel (n : nat) | CInt (z : Z) | CNum (q : Q) | CStr (s : string) | CBool (b : bool) | CNone.

Definition cell_eqb (a b : cell) : bool :=
  match a, b with
  | CLabel x, CLabel y => Nat.eqb x y
  | CInt x, CInt y => Z.eqb x y
  | CNum x, CNum y => Qeq_bool x y
  | CStr x, CStr y => String.eqb x y
  | CBool x, CBool y => Bool.eqb x y
  | CNone, CNone => true
  | _, _ => false
  end.

(* ---------------- network_to_dataframe ------------------------------------------------------- *)
Record nedge := { n_u : nat; n_v : nat; n_lag : option Z; n_cmi : option Q; n_p : option Q }.

Definition base_cols : list string := ["Source"; "Sink"; "Lag"; "CMI"; "P_Value"].
(* the documented order of the optional metadata columns = order of the keyword arguments *)
Definition metadata_order : list string :=
  ["Method"; "Information"; "Alpha_Forward"; "Alpha_Backward"; "Metric"; "Bandwidth"; "K_Means"; "N_Shuffles"; "Max_Lag"].
(* order in which the if-chain inserts them into each row dict *)
Definition chain_order : list string := metadata_order.

Definition opt_cell {A} (f : A -> cell) (o : option A) : cell := match o with Some x => f x | None => CNone end.

Definition row_dict (chain : list string) (meta : list (option cell)) (e : nedge) : list (string * cell) :=
  [ ("Source", CLabel (n_u e)); ("Sink", CLabel (n_v e));
    ("Lag", match n_lag e with Some z => CInt z | None => CInt 0 end);
    ("CMI", opt_cell CNum (n_cmi e)); ("P_Value", opt_cell CNum (n_p e)) ]
  ++ flat_map (fun nm : string * option cell => match snd nm with Some c => [(fst nm, c)] | None => [] end) (combine chain meta).

Fixpoint lookup (k : string) (d : list (string * cell)) : option cell :=
  match d with [] => None | (k', v) :: r => if String.eqb k k' then Some v else lookup k r end.

(* pandas: columns of DataFrame(list of dicts) = keys in first-seen order; then df[final_col_order] *)
Definition final_cols (order : list string) (d : list (string * cell)) : list string :=
  base_cols ++ filter (fun c => match lookup c d with Some _ => true | None => false end) order.

Definition to_frame (chain order : list string) (meta : list (option cell)) (es : list nedge)
  : list string * list (list cell) :=
  match es with
  | [] => (base_cols, [])
  | e0 :: _ =>
      let cols := final_cols order (row_dict chain meta e0) in
      (cols, map (fun e => map (fun c => match lookup c (row_dict chain meta e) with Some v => v | None => CNone end) cols) es)
  end.

(* specification: base columns, then one constant column per supplied argument in documented order *)
Definition spec_cols (meta : list (option cell)) : list string :=
  base_cols ++ flat_map (fun nm : string * option cell => match snd nm with Some _ => [fst nm] | None => [] end) (combine metadata_order meta).
Definition spec_row (meta : list (option cell)) (e : nedge) : list cell :=
  [ CLabel (n_u e); CLabel (n_v e); match n_lag e with Some z => CInt z | None => CInt 0 end;
    opt_cell CNum (n_cmi e); opt_cell CNum (n_p e) ]
  ++ flat_map (fun m : option cell => match m with Some c => [c] | None => [] end) meta.
Definition spec_frame (meta : list (option cell)) (es : list nedge) : list string * list (list cell) :=
  match es with [] => (base_cols, []) | _ => (spec_cols meta, map (spec_row meta) es) end.

(* all 2^9 presence patterns *)
Fixpoint masks (k : nat) : list (list bool) :=
  match k with 0 => [[]] | S k' => map (cons true) (masks k') ++ map (cons false) (masks k') end.
Definition meta_of_mask (m : list bool) : list (option cell) :=
  map (fun ib : nat * bool => if snd ib then Some (CInt (Z.of_nat (fst ib))) else None) (combine (seq 0 (List.length m)) m).

Fixpoint cells_eqb (a b : list cell) : bool :=
  match a, b with [], [] => true | x :: a', y :: b' => cell_eqb x y && cells_eqb a' b' | _, _ => false end.
Fixpoint rows_eqb (a b : list (list cell)) : bool :=
  match a, b with [] , [] => true | x :: a', y :: b' => cells_eqb x y && rows_eqb a' b' | _, _ => false end.
Fixpoint strs_eqb (a b : list string) : bool :=
  match a, b with [], [] => true | x :: a', y :: b' => String.eqb x y && strs_eqb a' b' | _, _ => false end.
Definition frame_eqb (a b : list string * list (list cell)) : bool :=
  strs_eqb (fst a) (fst b) && rows_eqb (snd a) (snd b).

Definition probe_edges : list nedge :=
  [ {| n_u := 0; n_v := 1; n_lag := Some 2%Z; n_cmi := Some (1#2); n_p := None |};
    {| n_u := 1; n_v := 1; n_lag := None; n_cmi := None; n_p := Some 0%Q |} ].
Definition all_masks_ok (chain order : list string) : bool :=
  forallb (fun m => frame_eqb (to_frame chain order (meta_of_mask m) probe_edges) (spec_frame (meta_of_mask m) probe_edges)) (masks 9).

(* ---------------- pcmci_network_to_dataframe ------------------------------------------------- *)
Inductive ltype := Directed | Undirected | Conflicting | Possible | Other (s : string).
Definition symmetric (t : ltype) : bool := match t with Undirected | Conflicting => true | _ => false end.
Definition ltype_eqb (a b : ltype) : bool :=
  match a, b with
  | Directed, Directed | Undirected, Undirected | Conflicting, Conflicting | Possible, Possible => true
  | Other x, Other y => String.eqb x y
  | _, _ => false
  end.
Definition ltype_str (t : ltype) : string :=
  match t with Directed => "directed" | Undirected => "undirected" | Conflicting => "conflicting"
             | Possible => "possible_directed" | Other s => s end.

(* labels are numbered by the order of str(label) *)
Record pedge := { p_u : nat; p_v : nat; p_lag : Z; p_type : ltype; p_val : option Q; p_p : option Q; p_sig : option bool }.
Record prow := { r_src : nat; r_snk : nat; r_lag : Z; r_val : option Q; r_p : option Q; r_type : ltype; r_sig : option bool }.

Definition key := (nat * nat * Z * ltype)%type.
Definition key_eqb (a b : key) : bool :=
  let '(a1, a2, a3, a4) := a in let '(b1, b2, b3, b4) := b in
  Nat.eqb a1 b1 && Nat.eqb a2 b2 && Z.eqb a3 b3 && ltype_eqb a4 b4.
Definition canon (e : pedge) : key :=
  if Nat.leb (p_u e) (p_v e) then (p_u e, p_v e, p_lag e, p_type e) else (p_v e, p_u e, p_lag e, p_type e).
Definition mem_key (k : key) (l : list key) : bool := existsb (key_eqb k) l.

Definition mkrow (s t : nat) (e : pedge) : prow :=
  {| r_src := s; r_snk := t; r_lag := p_lag e; r_val := p_val e; r_p := p_p e; r_type := p_type e; r_sig := p_sig e |}.

Fixpoint prows (seen : list key) (es : list pedge) : list prow :=
  match es with
  | [] => []
  | e :: r =>
      if symmetric (p_type e) then
        let k := canon e in
        if mem_key k seen then prows seen r
        else let '(s, t, _, _) := k in mkrow s t e :: prows (k :: seen) r
      else mkrow (p_u e) (p_v e) e :: prows seen r
  end.
Definition pcmci_rows (es : list pedge) : list prow := prows [] es.

Definition pcmci_cols (rows : list prow) (nonempty : bool) : list string :=
  ["Source"; "Sink"; "Lag"; "Val"; "P_Value"; "Link_Type"]
  ++ (if negb nonempty || existsb (fun r => match r_sig r with Some _ => true | None => false end) rows then ["Significant"] else []).

(* correspondence *)
Definition oq_eqb (a b : option Q) : bool :=
  match a, b with Some x, Some y => Qeq_bool x y | None, None => true | _, _ => false end.
Definition ob_eqb (a b : option bool) : bool :=
  match a, b with Some x, Some y => Bool.eqb x y | None, None => true | _, _ => false end.
Definition prow_eqb (a b : prow) : bool :=
  Nat.eqb (r_src a) (r_src b) && Nat.eqb (r_snk a) (r_snk b) && Z.eqb (r_lag a) (r_lag b) && oq_eqb (r_val a) (r_val b)
  && oq_eqb (r_p a) (r_p b) && ltype_eqb (r_type a) (r_type b) && ob_eqb (r_sig a) (r_sig b).
Fixpoint prows_eqb (a b : list prow) : bool :=
  match a, b with [], [] => true | x :: a', y :: b' => prow_eqb x y && prows_eqb a' b' | _, _ => false end.

Definition mkp (t : nat * nat * Z * ltype * option Q * option Q * option bool) : pedge :=
  let '(u, v, l, ty, va, p, sg) := t in {| p_u := u; p_v := v; p_lag := l; p_type := ty; p_val := va; p_p := p; p_sig := sg |}.
Definition mkr (t : nat * nat * Z * ltype * option Q * option Q * option bool) : prow :=
  let '(u, v, l, ty, va, p, sg) := t in {| r_src := u; r_snk := v; r_lag := l; r_val := va; r_p := p; r_type := ty; r_sig := sg |}.
Definition check_pcmci_case (c : list (nat * nat * Z * ltype * option Q * option Q * option bool)
                                * list (nat * nat * Z * ltype * option Q * option Q * option bool) * list string) : bool :=
  let '(es, rows, cols) := c in
  let m := pcmci_rows (map mkp es) in
  prows_eqb m (map mkr rows) && strs_eqb (pcmci_cols m (negb (Nat.eqb (List.length m) 0))) cols.

Definition mkn (t : nat * nat * option Z * option Q * option Q) : nedge :=
  let '(u, v, l, c, p) := t in {| n_u := u; n_v := v; n_lag := l; n_cmi := c; n_p := p |}.
Definition check_network_case (c : list (option cell) * list (nat * nat * option Z * option Q * option Q)
                                   * list string * list (list cell)) : bool :=
  let '(meta, es, cols, rows) := c in
  frame_eqb (to_frame chain_order metadata_order meta (map mkn es)) (cols, rows).
