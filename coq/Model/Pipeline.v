(* End-to-end executable model of discover_network (causationentropy/core/discovery.py) for the
   `standard` and `alternative` methods (and, with the scikit-learn solver's support handed in as
   data, the two LASSO methods).  It COMPOSES the pieces modelled separately elsewhere -- it calls

       Lagged.feature / feature_index      column index  <->  (variable, lag)
       Selection.ocse (fwd + bwd)          forward selection / backward elimination
       ShuffleTest.shuffle_model           percentile threshold, verdict, #surrogates >= observed
       Dispatch.floor0                     the dispatcher's floor on the edge attribute
       Discover.discover_edges             the emitted edge records, in insertion order

   and has exactly three external inputs, all on ABSTRACT column identities (variable, lag):

       cmi  i x zs   raw estimator value, in grid units 1/scale, of I( column x ; X_i now | columns zs )
       sur  i x zs   raw values of the n_shuffles row-shuffled surrogates of that query, in production order
       order i       the order in which backward() visits the forward set of target i (rng.permutation)

   No number of the time series enters: which edges exist, and their attributes, are functions of
   the two oracles (and the visiting order) only.  Values are finite (integers on the grid); NaN /
   infinite estimator values are outside this model as they are outside C02. *)
From Coq Require Import List Arith ZArith QArith Bool.
From CE Require Import Model.Lagged Model.Selection Model.ShuffleTest Model.Dispatch Model.Discover.
Import ListNotations.
Local Open Scope nat_scope.

Definition label := (nat * nat)%type.                         (* (variable, lag) *)

(* the dispatcher's max(0.0, cmi) on the integer grid; every value discovery.py sees went through it *)
Definition fl (z : Z) : Z := Z.max 0%Z z.
(* [idx for idx in S if idx != s] -- the same filter as in Lagged.edge_triple *)
Definition others (S : list nat) (s : nat) : list nat := filter (fun k => negb (Nat.eqb k s)) S.

Section Pipeline.
Variables n L : nat.
Variable scale : positive.
Variables aF bF aB bB : Z.                                    (* alpha_forward = aF/bF, alpha_backward = aB/bB *)
Variable cmi : nat -> label -> list label -> Z.
Variable sur : nat -> label -> list label -> list Z.

Definition lab (c : nat) : label := feature L c.
Definition labs (cs : list nat) : list label := map lab cs.

(* what conditional_mutual_information returns to discovery.py for target i, candidate column j,
   conditioning columns Zs (in the order the code stacks them) *)
Definition info (i j : nat) (Zs : list nat) : Z := fl (cmi i (lab j) (labs Zs)).
Definition nulls (i j : nat) (Zs : list nat) : list Z := map fl (sur i (lab j) (labs Zs)).
(* shuffle_test(X_j, Y_i, Z, observed = info, alpha = a/b) *)
Definition test (a b : Z) (i j : nat) (Zs : list nat) : result := shuffle_model a b (info i j Zs) (nulls i j Zs).
Definition gF (i j : nat) (Zs : list nat) : bool := r_pass (test aF bF i j Zs).
Definition gB (i j : nat) (Zs : list nat) : bool := r_pass (test aB bB i j Zs).

(* Z_init: the target's own lags 1..L (standard) or nothing (alternative), as candidate indices *)
Definition init_of (vr : variant) (i : nat) : list nat :=
  match vr with Standard => map (feature_index L i) (seq 1 L) | Alternative => [] end.

(* S = *_optimal_causation_entropy(...) for target i *)
Definition parents (vr : variant) (order : nat -> list nat) (i : nat) : list nat :=
  ocse (info i) (gF i) (gB i) (init_of vr i) vr (n * L) (order i).

(* edge annotation loop: cmi and shuffle_test on (X_s, Y_i, the other selected columns) at alpha_backward *)
Definition edge_est (sel : nat -> list nat) (i s : nat) : val :=
  Fin (cmi i (lab s) (labs (others (sel i) s)) # scale).
Definition edge_cnt (sel : nat -> list nat) (i s : nat) : Z := r_count (test aB bB i s (others (sel i) s)).
Definition discover_with (sel : nat -> list nat) : list edge :=
  discover_edges n L sel (edge_est sel) (edge_cnt sel).

Definition discover_model (vr : variant) (order : nat -> list nat) : list edge := discover_with (parents vr order).
(* method in {lasso, information_lasso}: sel i = indices of the non-zero coefficients reported by scikit-learn *)
Definition discover_model_lasso (support : nat -> list nat) : list edge := discover_with support.
End Pipeline.

(* ---- which oracle entries a run reads ----------------------------------------------------------
   (false, j, Zs): the estimator is evaluated on (j | Zs); (true, j, Zs): the test on (j | Zs) is run
   (reads the estimator value AND the surrogates of that query).  PipelineProofs shows that the result
   depends on the oracles only through these entries; the correspondence check refuses a table
   that does not contain every one of them. *)
Definition query := (bool * nat * list nat)%type.

Section Trace.
Variable f : nat -> list nat -> Z.
Variables g : nat -> list nat -> bool.
Variable init : list nat.

Definition round_q (cands Zc : list nat) (j : nat) : list query :=
  map (fun c => (false, c, Zc)) cands ++ [(true, j, Zc)].

Fixpoint std_fwd_q (fuel : nat) (cands S : list nat) : list query :=
  match fuel with
  | 0 => []
  | Datatypes.S fuel' =>
    match cands with
    | [] => []
    | _ =>
      let j := argmax (fun j => f j (init ++ S)) cands in
      let cands' := remove Nat.eq_dec j cands in
      round_q cands (init ++ S) j ++
      (if g j (init ++ S) then std_fwd_q fuel' cands' (S ++ [j]) else std_fwd_q fuel' cands' S)
    end
  end.

Fixpoint alt_fwd_q (fuel : nat) (cands S : list nat) : list query :=
  match fuel with
  | 0 => []
  | Datatypes.S fuel' =>
    match cands with
    | [] => []
    | _ =>
      let j := argmax (fun j => f j (init ++ S)) cands in
      round_q cands (init ++ S) j ++
      (if g j (init ++ S) then alt_fwd_q fuel' (remove Nat.eq_dec j cands) (S ++ [j]) else [])
    end
  end.

Fixpoint bwd_q (order S : list nat) : list query :=
  match order with
  | [] => []
  | j :: order' =>
    let Zc := remove Nat.eq_dec j S in
    (false, j, Zc) :: (true, j, Zc) :: (if g j Zc then bwd_q order' S else bwd_q order' Zc)
  end.

Definition fwd_q (vr : variant) (m : nat) : list query :=
  match vr with
  | Standard => std_fwd_q m (seq 0 m) []
  | Alternative => alt_fwd_q m (seq 0 m) []
  end.
End Trace.

Definition emit_q (S : list nat) : list query :=
  flat_map (fun s => [(false, s, others S s); (true, s, others S s)]) S.

Section TraceOf.
Variables n L : nat.
Variables aF bF aB bB : Z.
Variable cmi : nat -> label -> list label -> Z.
Variable sur : nat -> label -> list label -> list Z.

Definition select_q (vr : variant) (order : nat -> list nat) (i : nat) : list query :=
  fwd_q (info L cmi i) (gF L aF bF cmi sur i) (init_of L vr i) vr (n * L)
  ++ bwd_q (gB L aB bB cmi sur i) (order i) (fwd (info L cmi i) (gF L aF bF cmi sur i) (init_of L vr i) vr (n * L)).
Definition target_q (vr : variant) (order : nat -> list nat) (i : nat) : list query :=
  select_q vr order i ++ emit_q (parents n L aF bF aB bB cmi sur vr order i).
(* the same, as abstract oracle entries (is-test, target, X label, Z labels in stacking order) *)
Definition as_entry (i : nat) (q : query) : bool * nat * label * list label :=
  let '(b, j, Zs) := q in (b, i, lab L j, labs L Zs).
Definition entries (vr : variant) (order : nat -> list nat) : list (bool * nat * label * list label) :=
  flat_map (fun i => map (as_entry i) (target_q vr order i)) (seq 0 n).
Definition entries_lasso (support : nat -> list nat) : list (bool * nat * label * list label) :=
  flat_map (fun i => map (as_entry i) (emit_q (support i))) (seq 0 n).
End TraceOf.

(* ---- oracles as finite tables -------------------------------------------------------------------
   keyed by (target, X label, conditioning labels sorted and duplicate-free): the scripted estimator
   of the harness is a function of the conditioning SET.  A missing key is not defaulted silently:
   [covered] below must hold for every entry the model reads. *)
Definition label_ltb (a b : label) : bool :=
  Nat.ltb (fst a) (fst b) || (Nat.eqb (fst a) (fst b) && Nat.ltb (snd a) (snd b)).
Definition label_eqb (a b : label) : bool := Nat.eqb (fst a) (fst b) && Nat.eqb (snd a) (snd b).
Fixpoint insert_label (x : label) (l : list label) : list label :=
  match l with
  | [] => [x]
  | y :: l' => if label_eqb x y then l else if label_ltb x y then x :: l else y :: insert_label x l'
  end.
Definition sort_labels (l : list label) : list label := fold_right insert_label [] l.
Fixpoint labels_eqb (a b : list label) : bool :=
  match a, b with
  | [], [] => true
  | x :: a', y :: b' => label_eqb x y && labels_eqb a' b'
  | _, _ => false
  end.

Definition key := (nat * label * list label)%type.
Definition key_eqb (a b : key) : bool :=
  let '(i, x, zs) := a in let '(i', x', zs') := b in Nat.eqb i i' && label_eqb x x' && labels_eqb zs zs'.
Fixpoint find_key {A} (tbl : list (key * A)) (k : key) : option A :=
  match tbl with
  | [] => None
  | (k', v) :: t => if key_eqb k k' then Some v else find_key t k
  end.
Definition tbl_cmi (tbl : list (key * Z)) : nat -> label -> list label -> Z :=
  fun i x zs => match find_key tbl (i, x, sort_labels zs) with Some v => v | None => 0%Z end.
Definition tbl_sur (tbl : list (key * list Z)) : nat -> label -> list label -> list Z :=
  fun i x zs => match find_key tbl (i, x, sort_labels zs) with Some v => v | None => [] end.
Definition has_key {A} (tbl : list (key * A)) (k : key) : bool :=
  match find_key tbl k with Some _ => true | None => false end.
Definition covered (tc : list (key * Z)) (ts : list (key * list Z)) (e : bool * nat * label * list label) : bool :=
  let '(b, i, x, zs) := e in
  has_key tc (i, x, sort_labels zs) && (negb b || has_key ts (i, x, sort_labels zs)).

(* ---- correspondence cases ------------------------------------------------------------------------ *)
Definition mk_edge (t : nat * nat * nat * val * Z) : edge :=
  let '(s, d, l, v, k) := t in {| e_src := s; e_dst := d; e_lag := l; e_cmi := v; e_count := k |}.
Definition edge_eqb (a b : edge) : bool :=
  Nat.eqb (e_src a) (e_src b) && Nat.eqb (e_dst a) (e_dst b) && Nat.eqb (e_lag a) (e_lag b)
  && val_eqb (e_cmi a) (e_cmi b) && Z.eqb (e_count a) (e_count b).
Fixpoint edges_eqb (a b : list edge) : bool :=
  match a, b with
  | [], [] => true
  | x :: a', y :: b' => edge_eqb x y && edges_eqb a' b'
  | _, _ => false
  end.
(* when the insertion order could not be observed: same edges as a set (both sides duplicate-free) *)
Definition edges_same_set (a b : list edge) : bool :=
  Nat.eqb (length a) (length b) && forallb (fun x => existsb (edge_eqb x) b) a
  && forallb (fun y => existsb (edge_eqb y) a) b.
Definition compare_edges (ordered : bool) (model impl : list edge) : bool :=
  if ordered then edges_eqb model impl else edges_same_set model impl.

Record pcase := {
  pc_std : bool; pc_ordered : bool; pc_seam_ok : bool;
  pc_n : nat; pc_L : nat; pc_scale : positive;
  pc_aF : Z; pc_bF : Z; pc_aB : Z; pc_bB : Z; pc_nsh : Z;
  pc_cmi : list (key * Z); pc_sur : list (key * list Z);
  pc_orders : list (list nat);
  pc_edges : list (nat * nat * nat * val * Z) }.

Definition pcase_model (c : pcase) : list edge :=
  discover_model (pc_n c) (pc_L c) (pc_scale c) (pc_aF c) (pc_bF c) (pc_aB c) (pc_bB c)
    (tbl_cmi (pc_cmi c)) (tbl_sur (pc_sur c)) (if pc_std c then Standard else Alternative)
    (fun i => nth i (pc_orders c) []).
Definition pcase_entries (c : pcase) :=
  entries (pc_n c) (pc_L c) (pc_aF c) (pc_bF c) (pc_aB c) (pc_bB c) (tbl_cmi (pc_cmi c)) (tbl_sur (pc_sur c))
    (if pc_std c then Standard else Alternative) (fun i => nth i (pc_orders c) []).
(* 1 every oracle entry the model reads is in the tables (was answered by the scripted estimator during the
     real run) and every surrogate list has n_shuffles values; 2 the model's edge list is the implementation's *)
Definition check_pipeline_case (c : pcase) : bool :=
  pc_seam_ok c
  && forallb (covered (pc_cmi c) (pc_sur c)) (pcase_entries c)
  && forallb (fun kv => Z.eqb (Z.of_nat (length (snd kv))) (pc_nsh c)) (pc_sur c)
  && compare_edges (pc_ordered c) (pcase_model c) (map mk_edge (pc_edges c)).

Record lcase := {
  lc_ordered : bool; lc_seam_ok : bool; lc_n : nat; lc_L : nat; lc_scale : positive; lc_aB : Z; lc_bB : Z; lc_nsh : Z;
  lc_cmi : list (key * Z); lc_sur : list (key * list Z);
  lc_support : list (list nat);
  lc_edges : list (nat * nat * nat * val * Z) }.
Definition check_lasso_case (c : lcase) : bool :=
  let sup := fun i => nth i (lc_support c) [] in
  lc_seam_ok c
  && forallb (covered (lc_cmi c) (lc_sur c)) (entries_lasso (lc_n c) (lc_L c) sup)
  && forallb (fun kv => Z.eqb (Z.of_nat (length (snd kv))) (lc_nsh c)) (lc_sur c)
  && compare_edges (lc_ordered c)
       (discover_model_lasso (lc_n c) (lc_L c) (lc_scale c) (lc_aB c) (lc_bB c) (tbl_cmi (lc_cmi c)) (tbl_sur (lc_sur c)) sup)
       (map mk_edge (lc_edges c)).
