(* Model of causationentropy/datasets/synthetic.py : logistic_map and logisic_dynamics (after fix 818d213).
       A  = adjacency with rows normalised to sum 1 (rows without connections stay 0)      =: R
       returned matrix = R^T ;  L = I - R
       XY[t] = f(XY[t-1]) - sigma * L f(XY[t-1])   with f(x) = r x (1 - x)
   i.e. x_i' = f_i - sigma (f_i - sum_j R_ij f_j): a convex combination of logistic-map images.
   Every float is a rational, so the model is stated over Q (and covers every float input exactly). *)
From Coq Require Import List QArith.
Import ListNotations.
Open Scope Q_scope.

Definition fmap (r x : Q) : Q := r * x * (1 - x).

Fixpoint dot (w f : list Q) : Q :=
  match w, f with a :: w', b :: f' => a * b + dot w' f' | _, _ => 0 end.
Fixpoint qsum (w : list Q) : Q := match w with [] => 0 | a :: w' => a + qsum w' end.

Definition update (s fi d : Q) : Q := fi - s * (fi - d).

(* one time step for the whole state; W = list of rows of R *)
Definition step (r s : Q) (W : list (list Q)) (x : list Q) : list Q :=
  let f := map (fmap r) x in
  map (fun '(w, fi) => update s fi (dot w f)) (combine W f).

Fixpoint traj (r s : Q) (W : list (list Q)) (x0 : list Q) (steps : nat) : list (list Q) :=
  match steps with O => [x0] | S k => x0 :: traj r s W (step r s W x0) k end.

(* row normalisation of lines 17-20: rows with positive sum are divided by it *)
Definition normalise_row (row : list Q) : list Q :=
  let s := qsum row in if Qle_bool s 0 then row else map (fun a => a / s) row.

Definition in_unit (x : Q) : Prop := 0 <= x /\ x <= 1.
Definition substochastic (w : list Q) : Prop := Forall (fun a => 0 <= a) w /\ qsum w <= 1.

(* ---- executable variant with reduced fractions (same values, small terms) for the correspondence -- *)
Fixpoint dot_red (w f : list Q) : Q :=
  match w, f with a :: w', b :: f' => Qred (a * b + dot_red w' f') | _, _ => 0 end.
Definition step_red (r s : Q) (W : list (list Q)) (x : list Q) : list Q :=
  let f := map (fun v => Qred (fmap r v)) x in
  map (fun '(w, fi) => Qred (update s fi (dot_red w f))) (combine W f).

Definition Qabs' (q : Q) : Q := if Qle_bool 0 q then q else - q.
Fixpoint close_list (tol : Q) (a b : list Q) : bool :=
  match a, b with
  | [], [] => true
  | x :: a', y :: b' => Qle_bool (Qabs' (x - y)) tol && close_list tol a' b'
  | _, _ => false
  end.
(* case = (r, sigma, rows of R, the implementation's trajectory): every row t must be the model step of row t-1 *)
Fixpoint check_rows (tol r s : Q) (W : list (list Q)) (rows : list (list Q)) : bool :=
  match rows with
  | x :: ((y :: _) as rest) => close_list tol (step_red r s W x) y && check_rows tol r s W rest
  | _ => true
  end.
Definition check_traj_case (tol : Q) (c : Q * Q * list (list Q) * list (list Q)) : bool :=
  let '(r, s, W, rows) := c in check_rows tol r s W rows.
