(* Model of the geometric k-nearest-neighbour estimators
     causationentropy/core/information/entropy.py : geometric_knn_entropy, hyperellipsoid_check
     causationentropy/core/information/mutual_information.py : geometric_knn_mutual_information
     causationentropy/core/information/conditional_mutual_information.py : geometric_knn_conditional_mutual_information

   geometric_knn_entropy(X, Xdist, k):                              (N, d = X.shape)
       Xknn[i, :] = argsort(Xdist[i, :])[1 : k+1]                   (index 0 of the argsort is the sample itself)
       H  = log N + log(pi^(d/2) / gamma(1 + d/2))
       rho_i = ||X[i] - X[Xknn[i, k-1]]||_2 ;  H += d/N * sum_i (log rho_i  if rho_i > 1e-12 else -12.0)
       for each i:  Y_i = rows [i, Xknn[i,:]] of X minus their mean ((k+1) x d);  Z_i = X[Xknn[i,:]] - X[i]
           U, S, Vt = svd(Y_i)   (S has r = min(k+1, d) entries, decreasing)
           inside_i = #{ j < k : sum_{l<r} ((Z_i[j] . Vt[l]) / S[l])^2 <= 1 }
           corr_i = - log(max(1, inside_i))
                    + [S[0] > 1e-12] * sum_{l < min(d, r)} [S[l] > 1e-12] * (log(S[l]/S[0]) if S[l]/S[0] > 1e-12 else -12.0)
       H += mean_i corr_i
   geometric_knn_mutual_information = max(0, H(X) + H(Y) - H(X,Y))   (non-finite -> 0)
   geometric_knn_conditional_mutual_information = H(X,Z) + H(Y,Z) - H(X,Y,Z) - H(Z)   (not floored; Z=None -> the MI with default k)

   EXACT SKELETON (Z).  Samples are integer points p with the real sample being p / D (the harness scales dyadic
   floats by a power of two; every finite family of rationals has such a representation).  Squared Euclidean
   distances, their sorting, the squared radius rho_i^2 (index k of the sorted squared distances from i, index 0
   being i itself) and the neighbour set are computed exactly.
   SVD DATA.  The squared singular values of each centred neighbourhood and the inside-count of the ellipsoid test
   enter as VALUES: in a correspondence case as recorded lists (squares of the floats numpy.linalg.svd returned,
   exact rationals), in the theorems as section variables [sv2], [ins] (functions of the scale D, the sample and
   its neighbour list) with explicit hypotheses.  (Model/GeoEllipsoid.v computes the inside-count exactly for every d and
   gives the d = 2 closed form.)  For d = 1 they are computed here ([sv2_1], [ins_1]) so no
   oracle remains:  sigma_0^2 = sum of squared centred values = (1/(2(k+1))) * sum over ordered pairs of the
   neighbourhood of the squared distance.
   REAL LAYER.  The estimate is an expression tree of Model/Itv.v.  The guards `> 1e-12` are decided exactly on the
   squares (`> 1e-24`): on r / D^2 for the radius, on the rationals for the singular values. *)
From Coq Require Import List ZArith QArith Bool.
From CE Require Import Model.Itv Model.KnnCounts.
Import ListNotations.
Open Scope Z_scope.

Definition point := list Z.
Definition d2 (p q : point) : Z := dist Euclid p q.

(* index k of the sorted squared distances from p (index 0 is p itself at distance 0) *)
Definition rho2 (k : nat) (pts : list point) (p : point) : Z := nth k (ZSort.sort (map (d2 p) pts)) 0.
(* the other samples not farther than the k-th nearest one, in sample order (exactly k of them on tie-free samples) *)
Definition nbrs_r (r : Z) (pts : list point) (p : point) : list point :=
  filter (fun q => (0 <? d2 p q) && (d2 p q <=? r)) pts.
(* the radius is an argument so that call-by-value evaluation computes it once per sample *)
Definition nbrs (k : nat) (pts : list point) (p : point) : list point := nbrs_r (rho2 k pts p) pts p.

(* ---- guards ---- *)
Definition E24 : Z := 1000000000000000000000000.
Definition thr24 : Q := 1 # 1000000000000000000000000.
(* rho > 1e-12  <->  r / D^2 > 1e-24 *)
Definition rho_ok (D r : Z) : bool := D * D <? r * E24.
(* sigma > 1e-12  <->  sigma^2 > 1e-24 *)
Definition gt24 (s : Q) : bool := negb (Qle_bool s thr24).
(* sigma / sigma_0 > 1e-12  <->  sigma^2 > 1e-24 * sigma_0^2 *)
Definition ratio_ok (s0 s : Q) : bool := negb (Qle_bool s (thr24 * s0)).

(* ---- expression pieces ---- *)
Definition Qe (q : Q) : expr := EQ (Qnum q) (Zpos (Qden q)).
Definition half_ln (e : expr) : expr := EMul (EQ 1 2) (ELn e).

(* log rho = 1/2 log(r / D^2) *)
Definition rho_term (D r : Z) : expr :=
  if rho_ok D r then half_ln (EDiv (EZ r) (EZ (D * D))) else EZ (-12).

(* log(sigma / sigma_0) = 1/2 log(s / s0) on the squares *)
Definition sv_one (s0 s : Q) : expr :=
  if gt24 s then (if ratio_ok s0 s then half_ln (EDiv (Qe s) (Qe s0)) else EZ (-12)) else EZ 0.
Definition sv_term (d : nat) (svl : list Q) : expr :=
  match svl with
  | [] => EZ 0
  | s0 :: _ => if gt24 s0 then ESum (map (sv_one s0) (firstn d svl)) else EZ 0
  end.
Definition ins_term (n : Z) : expr := ENeg (ELn (EZ (Z.max 1 n))).

(* local data of one sample: squared radius (grid units), squared singular values (real units), inside-count *)
(* l_sv2: the singular values the code looks at -- of the min(k+1, d) that the SVD of a centred (k+1)-point neighbourhood
   returns only the first k (its rank is at most k; /repo 2752a61, finding F6), of which [sv_term] reads the first d:
   `for l in range(min(d, len(sing_Yi), k))` *)
Record loc := mkloc { l_rho2 : Z; l_sv2 : list Q; l_ins : Z }.
Definition corr (d : nat) (l : loc) : expr := EAdd (ins_term (l_ins l)) (sv_term d (l_sv2 l)).

(* volume of the d-dimensional unit ball pi^(d/2) / Gamma(d/2 + 1) = q * pi^m:
   c_0 = 1, c_1 = 2, c_(d+2) = 2 pi / (d+2) * c_d *)
Fixpoint ball_qp (d : nat) : Q * nat :=
  match d with
  | O => (1%Q, O)
  | S O => (2%Q, O)
  | S (S d') => let '(q, m) := ball_qp d' in (Qred (q * (2 # Pos.of_nat (S (S d'))))%Q, S m)
  end.
Fixpoint pi_pow (m : nat) : expr := match m with O => EZ 1 | S m' => EMul EPi (pi_pow m') end.
Definition ball_expr (d : nat) : expr := EMul (Qe (fst (ball_qp d))) (pi_pow (snd (ball_qp d))).

(* H = ln N + ln c_d + d/N * sum_i ln rho_i + (sum_i corr_i) / N *)
Definition geo_expr_of (D : Z) (d : nat) (locs : list loc) : expr :=
  let N := Z.of_nat (length locs) in
  EAdd (EAdd (EAdd (ELn (EZ N)) (ELn (ball_expr d)))
             (EMul (EDiv (EZ (Z.of_nat d)) (EZ N)) (ESum (map (fun l => rho_term D (l_rho2 l)) locs))))
       (EDiv (ESum (map (corr d) locs)) (EZ N)).

(* ---- the estimator with the SVD data as functions of (scale, sample, neighbours) ---- *)
Section Oracle.
Variable sv2 : Z -> point -> list point -> list Q.
Variable ins : Z -> point -> list point -> Z.

Definition loc_of (D : Z) (k : nat) (pts : list point) (p : point) : loc :=
  mkloc (rho2 k pts p) (firstn k (sv2 D p (nbrs k pts p))) (ins D p (nbrs k pts p)).
Definition geo_entropy_expr (D : Z) (d k : nat) (pts : list point) : expr :=
  geo_expr_of D d (map (loc_of D k pts) pts).

(* I(X;Y) before the floor, and I(X;Y|Z) *)
Definition geo_mi_expr (D : Z) (k : nat) (all : list sample) : expr :=
  let dx := length (sx (hd (mk ([], [], [])) all)) in let dy := length (sy (hd (mk ([], [], [])) all)) in
  ESub (EAdd (geo_entropy_expr D dx k (map sx all)) (geo_entropy_expr D dy k (map sy all)))
       (geo_entropy_expr D (dx + dy) k (map (fun s => sx s ++ sy s) all)).
Definition geo_cmi_expr (D : Z) (k : nat) (all : list sample) : expr :=
  let dx := length (sx (hd (mk ([], [], [])) all)) in let dy := length (sy (hd (mk ([], [], [])) all)) in
  let dz := length (sz (hd (mk ([], [], [])) all)) in
  ESub (ESub (EAdd (geo_entropy_expr D (dx + dz) k (map pxz all)) (geo_entropy_expr D (dy + dz) k (map pyz all)))
             (geo_entropy_expr D (dx + dy + dz) k (map pj all)))
       (geo_entropy_expr D dz k (map sz all)).
End Oracle.

(* max(0, x) = (x + |x|) / 2 *)
Definition floor0 (e : expr) : expr := ELet e (EDiv (EAdd (EVar 0) (EAbs (EVar 0))) (EZ 2)).

(* ---- d = 1: the SVD data computed exactly ---- *)
(* sum over ordered pairs of the neighbourhood of the squared distance = 2 (k+1) * sum of squared centred values *)
Definition pair_sum (l : list point) : Z := fold_right Z.add 0 (map (fun a => fold_right Z.add 0 (map (d2 a) l)) l).
Definition sv2_1 (D : Z) (p : point) (l : list point) : list Q :=
  [ Qmake (pair_sum (p :: l)) (Z.to_pos (2 * Z.of_nat (length (p :: l)) * (D * D))) ].
(* (z / sigma_0)^2 <= 1  <->  2 (k+1) |q - p|^2 <= pair_sum *)
Definition ins_1 (D : Z) (p : point) (l : list point) : Z :=
  Z.of_nat (length (filter (fun q => 2 * Z.of_nat (length (p :: l)) * d2 p q <=? pair_sum (p :: l)) l)).
Definition geo1_entropy_expr (D : Z) (k : nat) (pts : list point) : expr := geo_entropy_expr sv2_1 ins_1 D 1 k pts.

(* ---- correspondence ------------------------------------------------------------------------------ *)
(* the estimator on recorded SVD data: one list of squared singular values and one inside-count per sample *)
Fixpoint locs_of (k : nat) (pts : list point) (ps : list point) (svl : list (list Q)) (insl : list Z) : list loc :=
  match ps, svl, insl with
  | p :: ps', sv :: svl', n :: insl' => mkloc (rho2 k pts p) (firstn k sv) n :: locs_of k pts ps' svl' insl'
  | _, _, _ => []
  end.
Definition geo_case_expr (D : Z) (d k : nat) (pts : list point) (svl : list (list Q)) (insl : list Z) : expr :=
  geo_expr_of D d (locs_of k pts pts svl insl).

Definition shape_ok (d : nat) (pts : list point) (svl : list (list Q)) (insl : list Z) : bool :=
  forallb (fun p => Nat.eqb (length p) d) pts && Nat.eqb (length svl) (length pts) && Nat.eqb (length insl) (length pts).

(* case = (D, d, k, points, squared singular values, inside-counts, value num, value den, tol num, tol den) *)
Definition check_geo_case (c : Z * nat * nat * list point * list (list Q) * list Z * Z * Z * Z * Z) : bool :=
  let '(D, d, k, pts, svl, insl, vn, vd, tn, td) := c in
  shape_ok d pts svl insl && close_check (geo_case_expr D d k pts svl insl) (EQ vn vd) (EQ tn td).

(* signed sums of entropies on recorded data (mutual information: X, Y, -XY, floored; conditional: XZ, YZ, -XYZ, -Z):
   case = (floor?, [(positive?, D, d, k, points, squared singular values, inside-counts)], value, tolerance) *)
Definition term_case := (bool * Z * nat * nat * list point * list (list Q) * list Z)%type.
Definition term_expr (t : term_case) : expr :=
  let '(pos, D, d, k, pts, svl, insl) := t in
  if pos then geo_case_expr D d k pts svl insl else ENeg (geo_case_expr D d k pts svl insl).
Definition term_shape (t : term_case) : bool := let '(_, _, d, _, pts, svl, insl) := t in shape_ok d pts svl insl.
Definition combo_expr (fl : bool) (ts : list term_case) : expr :=
  let e := ESum (map term_expr ts) in if fl then floor0 e else e.
Definition check_geo_combo_case (c : bool * list term_case * Z * Z * Z * Z) : bool :=
  let '(fl, ts, vn, vd, tn, td) := c in
  forallb term_shape ts && close_check (combo_expr fl ts) (EQ vn vd) (EQ tn td).

(* d = 1 without any recorded SVD data *)
Definition check_geo1_case (c : Z * nat * list point * Z * Z * Z * Z) : bool :=
  let '(D, k, pts, vn, vd, tn, td) := c in
  forallb (fun p => Nat.eqb (length p) 1) pts && close_check (geo1_entropy_expr D k pts) (EQ vn vd) (EQ tn td).

(* skeleton: the neighbour lists the implementation handed to the SVD (recovered by the spy, nearest first)
   are the model's neighbour sets, the last of them is at the model's squared radius, and for d = 1 the
   implementation's inside-counts are the exactly computed ones *)
Fixpoint pt_eqb (a b : point) : bool :=
  match a, b with [], [] => true | x :: a', y :: b' => Z.eqb x y && pt_eqb a' b' | _, _ => false end.
Definition same_set (a b : list point) : bool :=
  Nat.eqb (length a) (length b) && forallb (fun q => existsb (pt_eqb q) b) a && forallb (fun q => existsb (pt_eqb q) a) b.
Definition skel_one (k : nat) (pts : list point) (p : point) (nb : list point) : bool :=
  same_set nb (nbrs k pts p) && Z.eqb (d2 p (last nb [])) (rho2 k pts p) && Nat.eqb (length nb) k.
Fixpoint skel_all (k : nat) (pts ps : list point) (nbl : list (list point)) : bool :=
  match ps, nbl with
  | [], [] => true
  | p :: ps', nb :: nbl' => skel_one k pts p nb && skel_all k pts ps' nbl'
  | _, _ => false
  end.
(* case = (k, points, recovered neighbour lists, inside-counts); the inside-counts are compared with the exactly computed
   ones when the sample is 1-dimensional (otherwise they are oracle data of the value cases) *)
Definition check_skel_case (c : nat * list point * list (list point) * list Z) : bool :=
  let '(k, pts, nbl, insl) := c in
  skel_all k pts pts nbl &&
  (if forallb (fun p => Nat.eqb (length p) 1) pts then zl_eqb (map (fun p => ins_1 1 p (nbrs k pts p)) pts) insl else true).
