(* Model of causationentropy/graph/utils.py : pcmci_to_networkx and networkx_to_pcmci
   (with the repair of commit 9f43b13: a '<--' whose mirror entry is '-->' is not emitted a second
   time; networkx_to_pcmci writes the '<--' mirror of a lag-0 directed link into an empty slot).

   A PCMCI result is (N, number of lags, finite map cell -> (mark, value, p)); absent cells are
   ('', 0, 1).  A graph is the list of edge records in the order networkx iterates them
   (G.edges(data=True): by source node, then by first insertion of the target, then by key);
   [nx_order] models that iteration order, the container itself is not modelled. *)
From Coq Require Import List Arith ZArith QArith Bool.
Import ListNotations.
Local Open Scope nat_scope.

Inductive mark := Empty | Fwd | Bwd | OO | XX | Poss | Unknown.
Definition mark_eqb (a b : mark) : bool :=
  match a, b with
  | Empty, Empty | Fwd, Fwd | Bwd, Bwd | OO, OO | XX, XX | Poss, Poss | Unknown, Unknown => true
  | _, _ => false
  end.
Inductive kind := Directed | Undirected | Conflicting | PossibleDirected.
Definition kind_eqb (a b : kind) : bool :=
  match a, b with
  | Directed, Directed | Undirected, Undirected | Conflicting, Conflicting | PossibleDirected, PossibleDirected => true
  | _, _ => false
  end.

Definition cellid := (nat * nat * nat)%type.                       (* (i, j, lag) *)
Definition cid_eqb (a b : cellid) : bool :=
  let '(a1, a2, a3) := a in let '(b1, b2, b3) := b in Nat.eqb a1 b1 && Nat.eqb a2 b2 && Nat.eqb a3 b3.
Record entry := { e_mark : mark; e_val : Q; e_p : Q }.
Definition empty_entry := {| e_mark := Empty; e_val := 0; e_p := 1 |}.
Definition table := list (cellid * entry).                          (* first binding wins *)
Fixpoint get (t : table) (c : cellid) : entry :=
  match t with [] => empty_entry | (c', e) :: r => if cid_eqb c c' then e else get r c end.
Definition put (t : table) (c : cellid) (e : entry) : table := (c, e) :: t.

Record pcmci := { p_n : nat; p_lags : nat; p_tab : table }.

Record gedge := { g_src : nat; g_dst : nat; g_lag : nat; g_val : Q; g_p : Q; g_kind : kind; g_sig : option bool }.

(* ---------------- pcmci_to_networkx ------------------------------------------------------------ *)
Definition sig_of (binarize : bool) (level p : Q) : option bool :=
  if binarize then Some (negb (Qle_bool level p)) else None.          (* p < level *)

Definition mk_edge (s d l : nat) (e : entry) (k : kind) (sg : option bool) : gedge :=
  {| g_src := s; g_dst := d; g_lag := l; g_val := e_val e; g_p := e_p e; g_kind := k; g_sig := sg |}.

(* edges emitted when the triple loop visits cell (i, j, lag) *)
Definition emit (t : table) (binarize : bool) (level : Q) (c : cellid) : list gedge :=
  let '(i, j, l) := c in
  let e := get t c in
  let sg := sig_of binarize level (e_p e) in
  match e_mark e with
  | Empty | Unknown => []
  | Fwd => [mk_edge i j l e Directed sg]
  | Bwd => if mark_eqb (e_mark (get t (j, i, l))) Fwd then [] else [mk_edge j i l e Directed sg]
  | OO => if Nat.ltb i j then [mk_edge i j l e Undirected sg; mk_edge j i l e Undirected sg] else []
  | XX => if Nat.ltb i j then [mk_edge i j l e Conflicting sg; mk_edge j i l e Conflicting sg] else []
  | Poss => [mk_edge i j l e PossibleDirected sg]
  end.

Definition cells (n lags : nat) : list cellid :=
  flat_map (fun i => flat_map (fun j => map (fun l => (i, j, l)) (seq 0 lags)) (seq 0 n)) (seq 0 n).

Definition has_unknown (r : pcmci) : bool :=
  existsb (fun c => mark_eqb (e_mark (get (p_tab r) c)) Unknown) (cells (p_n r) (p_lags r)).

(* emission order (order of add_edge calls); None = ValueError (unknown mark) *)
Definition to_graph_emitted (r : pcmci) (binarize : bool) (level : Q) : option (list gedge) :=
  if has_unknown r then None
  else Some (flat_map (emit (p_tab r) binarize level) (cells (p_n r) (p_lags r))).

(* networkx iteration order of a MultiDiGraph whose nodes 0..n-1 were added first *)
Fixpoint dsts_in_order (es : list gedge) (seen : list nat) : list nat :=
  match es with
  | [] => []
  | e :: r => if existsb (Nat.eqb (g_dst e)) seen then dsts_in_order r seen else g_dst e :: dsts_in_order r (g_dst e :: seen)
  end.
Definition nx_order (n : nat) (es : list gedge) : list gedge :=
  flat_map (fun u =>
    let from_u := filter (fun e => Nat.eqb (g_src e) u) es in
    flat_map (fun v => filter (fun e => Nat.eqb (g_dst e) v) from_u) (dsts_in_order from_u [])) (seq 0 n).

Definition to_graph (r : pcmci) (binarize : bool) (level : Q) : option (list gedge) :=
  match to_graph_emitted r binarize level with Some es => Some (nx_order (p_n r) es) | None => None end.

(* ---------------- networkx_to_pcmci ------------------------------------------------------------ *)
Definition max_lag (es : list gedge) : nat := fold_right (fun e m => Nat.max (g_lag e) m) 0 es.

Definition mark_of_kind (k : kind) : mark :=
  match k with Directed => Fwd | Undirected => OO | Conflicting => XX | PossibleDirected => Poss end.

(* one edge; [seen] = processed (min, max, lag) keys of symmetric links *)
Definition write_edge (st : table * list cellid) (e : gedge) : table * list cellid :=
  let '(t, seen) := st in
  let u := g_src e in let v := g_dst e in let l := g_lag e in
  let en := {| e_mark := mark_of_kind (g_kind e); e_val := g_val e; e_p := g_p e |} in
  match g_kind e with
  | Directed =>
      let t1 := put t (u, v, l) en in
      if Nat.eqb l 0 && negb (Nat.eqb u v) && mark_eqb (e_mark (get t1 (v, u, l))) Empty
      then (put t1 (v, u, l) {| e_mark := Bwd; e_val := g_val e; e_p := g_p e |}, seen)
      else (t1, seen)
  | PossibleDirected => (put t (u, v, l) en, seen)
  | Undirected | Conflicting =>
      let k := (Nat.min u v, Nat.max u v, l) in
      if existsb (cid_eqb k) seen then (t, seen)
      else (put (put t (u, v, l) en) (v, u, l) en, k :: seen)
  end.

Definition to_pcmci (n : nat) (es : list gedge) : pcmci :=
  {| p_n := n; p_lags := S (max_lag es); p_tab := fst (fold_left write_edge es ([], [])) |}.

(* ---------------- canonical views used by the round-trip statements ---------------------------- *)
Definition gkey (e : gedge) : nat * nat * nat * kind := (g_src e, g_dst e, g_lag e, g_kind e).
Definition gedge_eqb (a b : gedge) : bool :=
  Nat.eqb (g_src a) (g_src b) && Nat.eqb (g_dst a) (g_dst b) && Nat.eqb (g_lag a) (g_lag b)
  && kind_eqb (g_kind a) (g_kind b) && Qeq_bool (g_val a) (g_val b) && Qeq_bool (g_p a) (g_p b).
Definition gsub (a b : list gedge) : bool := forallb (fun x => existsb (gedge_eqb x) b) a.
Definition same_links (a b : list gedge) : bool := Nat.eqb (length a) (length b) && gsub a b && gsub b a.

Definition entry_eqb (a b : entry) : bool :=
  mark_eqb (e_mark a) (e_mark b) && Qeq_bool (e_val a) (e_val b) && Qeq_bool (e_p a) (e_p b).

(* graph -> PCMCI -> graph returns the same set of (source, target, lag, kind, value, p) *)
Definition graph_roundtrip_ok (n : nat) (es : list gedge) : bool :=
  match to_graph (to_pcmci n es) false 0 with
  | Some es' => same_links es' es
  | None => false
  end.

(* PCMCI -> graph -> PCMCI reproduces mark, value and p at every entry that carries a link *)
Definition pcmci_roundtrip_ok (r : pcmci) : bool :=
  match to_graph r false 0 with
  | Some es =>
      let r' := to_pcmci (p_n r) es in
      forallb (fun c => let e := get (p_tab r) c in
                        mark_eqb (e_mark e) Empty || entry_eqb (get (p_tab r') c) e) (cells (p_n r) (p_lags r))
  | None => false
  end.

(* consistent mark patterns (DESIGN.md section 3, C14) *)
Definition sym_mark (m : mark) : bool := match m with OO | XX => true | _ => false end.
Definition lag0_pair_ok (a b : mark) : bool :=
  match a, b with
  | Empty, Empty | Fwd, Bwd | Bwd, Fwd | Fwd, Empty | Empty, Fwd | Bwd, Empty | Empty, Bwd | Fwd, Fwd
  | OO, OO | XX, XX | Poss, Empty | Empty, Poss | Poss, Poss | Poss, Fwd | Fwd, Poss => true
  | _, _ => false
  end.
Definition consistent (r : pcmci) : bool :=
  forallb (fun c =>
    let '(i, j, l) := c in
    let e := get (p_tab r) c in let e' := get (p_tab r) (j, i, l) in
    negb (mark_eqb (e_mark e) Unknown) &&
    (if Nat.eqb l 0 then
       (if Nat.eqb i j then mark_eqb (e_mark e) Empty else lag0_pair_ok (e_mark e) (e_mark e'))
     else negb (mark_eqb (e_mark e) Bwd)) &&
    (if sym_mark (e_mark e) then negb (Nat.eqb i j) && entry_eqb e e' else true) &&
    (* a mirrored contemporaneous link is ONE link stored in two cells: same numbers *)
    (if mark_eqb (e_mark e) Bwd && mark_eqb (e_mark e') Fwd
     then Qeq_bool (e_val e) (e_val e') && Qeq_bool (e_p e) (e_p e') else true))
  (cells (p_n r) (p_lags r)).

(* ---------------- correspondence cases ---------------------------------------------------------- *)
Definition mk_tab (l : list (nat * nat * nat * mark * Q * Q)) : table :=
  map (fun '(i, j, t, m, v, p) => ((i, j, t), {| e_mark := m; e_val := v; e_p := p |})) l.
Definition mk_g (t : nat * nat * nat * Q * Q * kind * option bool) : gedge :=
  let '(s, d, l, v, p, k, sg) := t in {| g_src := s; g_dst := d; g_lag := l; g_val := v; g_p := p; g_kind := k; g_sig := sg |}.
Definition osig_eqb (a b : option bool) : bool :=
  match a, b with Some x, Some y => Bool.eqb x y | None, None => true | _, _ => false end.
Fixpoint glist_eqb (a b : list gedge) : bool :=
  match a, b with
  | [], [] => true
  | x :: a', y :: b' => gedge_eqb x y && osig_eqb (g_sig x) (g_sig y) && glist_eqb a' b'
  | _, _ => false
  end.
(* (N, lags, cells, binarize, level, implementation's edge list in G.edges order or None for ValueError) *)
Definition check_to_graph_case
  (c : nat * nat * list (nat * nat * nat * mark * Q * Q) * bool * Q * option (list (nat * nat * nat * Q * Q * kind * option bool))) : bool :=
  let '(n, lags, tab, bin, level, out) := c in
  match to_graph {| p_n := n; p_lags := lags; p_tab := mk_tab tab |} bin level, out with
  | Some es, Some o => glist_eqb es (map mk_g o)
  | None, None => true
  | _, _ => false
  end.
(* (n, edges in G.edges order, implementation's non-empty cells, number of lags) *)
Definition check_to_pcmci_case
  (c : nat * list (nat * nat * nat * Q * Q * kind * option bool) * list (nat * nat * nat * mark * Q * Q) * nat) : bool :=
  let '(n, es, tab, lags) := c in
  let r := to_pcmci n (map mk_g es) in
  let t := mk_tab tab in
  Nat.eqb (p_lags r) lags &&
  forallb (fun c => entry_eqb (get (p_tab r) c) (get t c)) (cells n lags).
