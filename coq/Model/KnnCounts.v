(* Model of the k-nearest-neighbour estimators
     causationentropy/core/information/mutual_information.py : knn_mutual_information
     causationentropy/core/information/conditional_mutual_information.py : knn_conditional_mutual_information

   knn_mutual_information(X, Y, metric, k):
       JS = column_stack((X, Y));  epsilon_i = sort(cdist(JS, JS, metric), axis=1)[i, k]
       nx_i = #{j : d(X_i, X_j) < epsilon_i} - 1       (the sample itself is at distance 0 and is removed)
       ny_i likewise;   mi = digamma(k) + digamma(n) - mean(digamma(nx+1) + digamma(ny+1))
   knn_conditional_mutual_information(X, Y, Z, metric, k)  (Z present):
       JS = column_stack((X, Y, Z)); epsilon as above; nxz, nyz, nz counted in (X,Z), (Y,Z), Z
       I = digamma(k) - mean(digamma(nxz+1) + digamma(nyz+1) - digamma(nz+1))

   EXACT LAYER.  Samples live on an integer grid (the harness scales dyadic floats by a power of two);
   distances are represented by strictly monotone images that stay in Z:
       euclidean -> sum of squared differences, cityblock -> sum of |differences|, chebyshev -> max |difference|
   so every comparison  d < epsilon  has the same outcome as on the true distances.
   digamma at a positive integer n is H_{n-1} - gamma (H = harmonic number); gamma cancels in both
   formulas (Proofs/KnnProofs.v), so the estimates are exact rationals. *)
From Coq Require Import List ZArith QArith Bool Sorting.Mergesort Orders Lia.
Import ListNotations.

Inductive metric := Euclid | City | Cheb.

(* coordinate contribution and aggregation *)
Definition cd (m : metric) (ab : Z * Z) : Z :=
  let d := (fst ab - snd ab)%Z in match m with Euclid => (d * d)%Z | _ => Z.abs d end.
Definition agg (m : metric) (l : list Z) : Z :=
  match m with Cheb => fold_right Z.max 0%Z l | _ => fold_right Z.add 0%Z l end.
Definition dist (m : metric) (p q : list Z) : Z := agg m (map (cd m) (combine p q)).

Module ZOrder <: TotalLeBool.
  Definition t := Z.
  Definition leb := Z.leb.
  Theorem leb_total : forall a1 a2, leb a1 a2 = true \/ leb a2 a1 = true.
  Proof. intros a1 a2; unfold leb; destruct (Z.leb_spec a1 a2); [left; reflexivity|right; apply Z.leb_le; lia]. Qed.
End ZOrder.
Module ZSort := Sort ZOrder.

(* a sample = (x, y, z) coordinate blocks; Z absent = [] *)
Record sample := { sx : list Z; sy : list Z; sz : list Z }.
Definition pj (s : sample) : list Z := sx s ++ sy s ++ sz s.       (* column_stack((X, Y, Z)) *)
Definition pxz (s : sample) : list Z := sx s ++ sz s.
Definition pyz (s : sample) : list Z := sy s ++ sz s.

Section Knn.
Variable m : metric.
Variable k : nat.

(* np.sort(cdist(JS, JS))[i, k]: index 0 is the sample itself (distance 0) *)
Definition eps (all : list sample) (p : sample) : Z := nth k (ZSort.sort (map (fun q => dist m (pj p) (pj q)) all)) 0%Z.
(* np.sum(D < eps) - 1 *)
(* the radius is an argument so that call-by-value evaluation computes it once per sample *)
Definition cnt_e (proj : sample -> list Z) (all : list sample) (p : sample) (e : Z) : Z :=
  (Z.of_nat (length (filter (fun q => Z.ltb (dist m (proj p) (proj q)) e) all)) - 1)%Z.
Definition cnt (proj : sample -> list Z) (all : list sample) (p : sample) : Z := cnt_e proj all p (eps all p).
End Knn.

(* harmonic numbers; digamma(n) = harm (n-1) - gamma for integer n >= 1 *)
Local Open Scope Q_scope.
Fixpoint harm (n : nat) : Q :=
  match n with O => 0 | S n' => Qred (harm n' + (1 # (Pos.of_nat n))) end.
Definition harmZ (n : Z) : Q := harm (Z.to_nat n).

Fixpoint qsum (l : list Q) : Q := match l with [] => 0 | a :: r => Qred (a + qsum r) end.
Definition qmean (l : list Q) : Q := qsum l / inject_Z (Z.of_nat (length l)).

(* the estimate is defined when every radius is positive (no duplicate joint sample among the k nearest)
   and 1 <= k < N; otherwise the implementation evaluates digamma(0) and the property excludes the input *)
Definition radii_ok (m : metric) (k : nat) (all : list sample) : bool :=
  (1 <=? k)%nat && (k <? length all)%nat && forallb (fun p => Z.ltb 0 (eps m k all p)) all.

Definition knn_mi (m : metric) (k : nat) (all : list sample) : option Q :=
  if radii_ok m k all then
    Some (harm (k - 1) + harm (length all - 1)
          - qmean (map (fun p => harmZ (cnt m k sx all p) + harmZ (cnt m k sy all p)) all))
  else None.

Definition knn_cmi (m : metric) (k : nat) (all : list sample) : option Q :=
  if radii_ok m k all then
    Some (harm (k - 1)
          - qmean (map (fun p => harmZ (cnt m k pxz all p) + harmZ (cnt m k pyz all p) - harmZ (cnt m k sz all p)) all))
  else None.

(* ---- correspondence ------------------------------------------------------------------------------ *)
Definition mk (xyz : list Z * list Z * list Z) : sample := let '(x, y, z) := xyz in {| sx := x; sy := y; sz := z |}.
Definition Qabs' (q : Q) : Q := if Qle_bool 0 q then q else Qopp q.
(* case = (metric, k, conditional?, rows, implementation value, tolerance); a non-finite implementation value is
   sent as None and must coincide with the model's "undefined" *)
Definition check_knn_case (c : metric * nat * bool * list (list Z * list Z * list Z) * option Q * Q) : bool :=
  let '(m, k, cond, rows, out, tol) := c in
  let all := map mk rows in
  match (if cond then knn_cmi m k all else knn_mi m k all), out with
  | Some v, Some w => Qle_bool (Qabs' (v - w)) tol
  | None, None => true
  | _, _ => false
  end.
(* the counts themselves (recomputed by the harness with explicit loops) *)
Definition counts_of (m : metric) (k : nat) (cond : bool) (rows : list (list Z * list Z * list Z)) : list (list Z) :=
  let all := map mk rows in
  map (fun p => if cond then [cnt m k pxz all p; cnt m k pyz all p; cnt m k sz all p]
                else [cnt m k sx all p; cnt m k sy all p]) all.
Fixpoint zl_eqb (a b : list Z) : bool :=
  match a, b with [], [] => true | x :: a', y :: b' => Z.eqb x y && zl_eqb a' b' | _, _ => false end.
Fixpoint zll_eqb (a b : list (list Z)) : bool :=
  match a, b with [], [] => true | x :: a', y :: b' => zl_eqb x y && zll_eqb a' b' | _, _ => false end.
Definition check_counts_case (c : metric * nat * bool * list (list Z * list Z * list Z) * list (list Z)) : bool :=
  let '(m, k, cond, rows, cs) := c in zll_eqb (counts_of m k cond rows) cs.
