(* Model of causationentropy/core/information/entropy.py : poisson_entropy (after fix 8632d73) and
   poisson_joint_entropy.

   poisson_entropy(lambdas):
       lambdas = abs(lambdas); First = exp(-lambdas); Psum = First; P = [First]; small = 1; i = 1
       while max(1 - Psum) > 1e-16 and small > 1e-75:
           prob = pmf(i, lambdas); Psum += prob; P.append(prob)
           if i >= max(lambdas): small = max(prob)           (pinned code: min(prob))
           i += 1
       est = - sum_k xlogy(P_k, P_k)                           (pinned code: P*log(P), nan at 0)

   TERMINATION LOGIC (this file, exact): the floating-point partial sums enter only through the
   per-element boolean oracle  left j m  = "1 - Psum_j > 1e-16 after terms 0..m", the pmf values through
   prob j i  (rationals: every float is one).  A scalar call on element j is the same loop on [j]. *)
From Coq Require Import List Arith ZArith QArith Bool.
Import ListNotations.
Open Scope Q_scope.

Definition delta : Q := 1 / inject_Z (10 ^ 75).

Inductive rule := MaxRule | MinRule.

Section Term.
Variable left : nat -> nat -> bool.
Variable prob : nat -> nat -> Q.
Variable lam : nat -> Q.

Definition qmaxl (d : Q) (l : list Q) : Q := fold_right (fun a m => if Qle_bool m a then a else m) d l.
Definition qminl (d : Q) (l : list Q) : Q := fold_right (fun a m => if Qle_bool a m then a else m) d l.

Definition maxlam (els : list nat) : Q := match els with [] => 0 | j :: r => qmaxl (lam j) (map lam r) end.
Definition pick (ru : rule) (els : list nat) (i : nat) : Q :=
  match els with
  | [] => 0
  | j :: r => match ru with MaxRule => qmaxl (prob j i) (map (fun k => prob k i) r)
                          | MinRule => qminl (prob j i) (map (fun k => prob k i) r) end
  end.

(* returns the index of the first term NOT appended (terms 0 .. result-1 are summed) *)
Fixpoint loop (ru : rule) (els : list nat) (fuel i : nat) (small : Q) : nat :=
  match fuel with
  | O => i
  | S f =>
      if existsb (fun j => left j (i - 1)) els && negb (Qle_bool small delta)
      then loop ru els f (S i)
             (if Qle_bool (maxlam els) (inject_Z (Z.of_nat i)) then pick ru els i else small)
      else i
  end.

Definition terms (ru : rule) (els : list nat) (fuel : nat) : nat := loop ru els fuel 1 1.
End Term.

(* ---- poisson_joint_entropy: marginal entropies of the diagonal rates + strictly upper triangle ---- *)
Section Joint.
Variable h : Q -> Q.              (* the (scalar) Poisson entropy, abstract here *)
Definition ent (C : list (list Q)) (i j : nat) : Q := nth j (nth i C []) 0.
Fixpoint qsum (l : list Q) : Q := match l with [] => 0 | a :: r => a + qsum r end.
Definition Qabs' (q : Q) : Q := if Qle_bool 0 q then q else - q.
(* np.triu(C, 1): keep entries with column > row *)
Definition triu1 (C : list (list Q)) : list (list Q) :=
  map (fun '(i, row) => map (fun '(j, x) => if Nat.ltb i j then x else 0) (combine (seq 0 (length row)) row))
      (combine (seq 0 (length C)) C).
Definition diag (C : list (list Q)) : list Q := map (fun i => ent C i i) (seq 0 (length C)).
Definition joint_entropy (C : list (list Q)) : Q :=
  qsum (map (fun x => h (Qabs' x)) (diag C)) + qsum (map qsum (triu1 C)).
(* specification: sum_i h(|C_ii|) + sum_{i<j} C_ij *)
Definition upper_sum (n : nat) (C : list (list Q)) : Q :=
  qsum (map (fun i => qsum (map (fun j => if Nat.ltb i j then ent C i j else 0) (seq 0 n))) (seq 0 n)).
End Joint.

(* ---- correspondence ------------------------------------------------------------------------------ *)
Definition tbl_b (t : list (list bool)) (j m : nat) : bool := nth m (nth j t []) false.
(* floats cross the boundary as exact dyadics (mantissa, exponent): m * 2^e *)
Definition dy (me : Z * Z) : Q :=
  let '(m, e) := me in if (0 <=? e)%Z then inject_Z (m * 2 ^ e) else Qmake m (Z.to_pos (2 ^ (- e))).
Definition tbl_q (t : list (list (Z * Z))) (j i : nat) : Q := dy (nth (i - 1) (nth j t []) (0, 0)%Z).
(* case = (|lambda_j| list, left table [j][m], prob table [j][i-1], number of pmf evaluations the implementation made) *)
Definition check_terms_case (c : list Q * list (list bool) * list (list (Z * Z)) * nat) : bool :=
  let '(lams, lt, pt, K) := c in
  let els := seq 0 (length lams) in
  Nat.eqb (terms (tbl_b lt) (tbl_q pt) (fun j => nth j lams 0) MaxRule els (K + 5)) (K + 1).

(* joint entropy with the implementation's own marginal entropies as oracle values *)
Definition check_joint_case (tol : Q) (c : list (list Q) * list Q * Q) : bool :=
  let '(C, hs, out) := c in
  let model := qsum hs + qsum (map qsum (triu1 C)) in
  Qle_bool (Qabs' (model - out)) tol.

(* ---- the value: truncated Poisson entropy as a real-valued expression (Model/Itv.v) ---------------
   p_k = lambda^k e^{-lambda} / k! = exp(q_k),  q_k = -lambda + k ln lambda - ln k!,
   entropy_trunc K lambda = - sum_{k=0..K} p_k ln p_k = - sum exp(q_k) * q_k          (lambda > 0) *)
From CE Require Import Model.Itv.
(* env: 0 = lambda, 1 = ln lambda, 2+k = ln k! (k = 0..K, built by the recurrence ln k! = ln (k-1)! + ln k),
   K+3 = q_k inside each term *)
Fixpoint bind_all (bs : list expr) (body : expr) : expr :=
  match bs with [] => body | b :: r => ELet b (bind_all r body) end.
Definition lnfact_bindings (K : nat) : list expr :=
  EZ 0 :: map (fun k => EAdd (EVar (2 + k - 1)) (ELn (EZ (Z.of_nat k)))) (seq 1 K).
Definition term_expr (K k : nat) : expr :=
  ELet (ESub (EAdd (ENeg (EVar 0)) (EMul (EZ (Z.of_nat k)) (EVar 1))) (EVar (2 + k)))
       (EMul (EExp (EVar (K + 3))) (EVar (K + 3))).
Definition entropy_trunc_expr (K : nat) (lam : expr) : expr :=
  ELet lam (ELet (ELn (EVar 0))
    (bind_all (lnfact_bindings K) (ENeg (ESum (map (term_expr K) (seq 0 (S K))))))).
(* case = (lambda = ln/ld > 0, K, implementation's value vn/vd, tolerance tn/td) *)
Definition check_entropy_case (c : Z * Z * nat * Z * Z * Z * Z) : bool :=
  let '(ln_, ld, K, vn, vd, tn, td) := c in
  close_check (entropy_trunc_expr K (EQ ln_ ld)) (EQ vn vd) (EQ tn td).

(* ---- the complete accuracy check (Proofs/PoissonSeries.v, PoissonTail.v): lambda > 0, 2 lambda <= K+1 (geometric decay
   from term K on), p_K <= 1e-18, and |sum_{k<=K} -p_k ln p_k - v| <= 1e-9 - 1e-16.  Together with the proved tail bound
   delta (-ln delta + 2 ln 2) <= 1e-16 this certifies |sum_{k<=K+M} -p_k ln p_k - v| <= 1e-9 for EVERY M. *)
Definition delta18 : expr := EQ 1 (10 ^ 18).
Definition tail_margin : expr := EQ 1 (10 ^ 16).
Definition pK_expr (K : nat) (lamE : expr) : expr :=   (* p_K - 1e-18, with ln K! as a sum of logarithms *)
  ELet lamE (ESub (EExp (ESub (EAdd (ENeg (EVar 0)) (EMul (EZ (Z.of_nat K)) (ELn (EVar 0))))
                              (ESum (map (fun j => ELn (EZ (Z.of_nat j))) (seq 1 K))))) delta18).
(* case = (lambda = ln/ld, K, implementation's value vn/vd) *)
Definition check_entropy_full_case (c : Z * Z * nat * Z * Z) : bool :=
  let '(ln_, ld, K, vn, vd) := c in
  (0 <? ln_)%Z && (0 <? ld)%Z && (0 <? vd)%Z &&
  (2 * ln_ <=? Z.of_nat (S K) * ld)%Z &&
  le0_check prec80 (pK_expr K (EQ ln_ ld)) &&
  close_check (entropy_trunc_expr K (EQ ln_ ld)) (EQ vn vd) (ESub (EQ 1 (10 ^ 9)) tail_margin).
