(* Model of _circular_positions (causationentropy/core/plotting.py lines 47-53) in the real layer:
       theta_i = 2 * pi * i / N ,   pos[order[i]] = (radius * cos theta_i, radius * sin theta_i)
   written in the expression language of Model/Itv.v, so that the same term has a meaning in R (theorems in
   Proofs/LayoutPosProofs.v) and is executed with verified interval arithmetic for the correspondence. *)
From Coq Require Import Reals ZArith List Bool.
From CE Require Import Model.Harness Model.Itv.
Import ListNotations.

(* 2 * math.pi * i / N, parsed as ((2 * pi) * i) / N *)
Definition theta (N i : nat) : expr := EDiv (EMul (EMul (EZ 2) EPi) (EZ (Z.of_nat i))) (EZ (Z.of_nat N)).
Definition pos_x (r : expr) (N i : nat) : expr := EMul r (ECos (theta N i)).
Definition pos_y (r : expr) (N i : nat) : expr := EMul r (ESin (theta N i)).

Definition circular_positions {A} (r : expr) (order : list A) : list (A * (expr * expr)) :=
  let N := length order in
  map (fun p => (snd p, (pos_x r N (fst p), pos_y r N (fst p)))) (combine (seq 0 N) order).

(* case = (order passed to _circular_positions, items of the returned dict in insertion order with the two
   coordinates as exact fractions num/den of the floats); tolerance tn/td *)
Definition obs := (Z * (Z * Z) * (Z * Z))%type.
Fixpoint check_items (tn td : Z) (model : list (Z * (expr * expr))) (o : list obs) : bool :=
  match model, o with
  | [], [] => true
  | (n, (ex, ey)) :: m', (n', (xn, xd), (yn, yd)) :: o' =>
      Z.eqb n n' && close_check ex (EQ xn xd) (EQ tn td) && close_check ey (EQ yn yd) (EQ tn td)
      && check_items tn td m' o'
  | _, _ => false
  end.
Definition check_pos_case (tn td : Z) (c : list Z * list obs) : bool :=
  let '(order, o) := c in check_items tn td (circular_positions (EZ 1) order) o.
