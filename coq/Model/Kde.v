(* Model of the resubstitution kernel-density estimators
     causationentropy/core/information/entropy.py : kde_entropy
     causationentropy/core/information/mutual_information.py : kde_mutual_information
     causationentropy/core/information/conditional_mutual_information.py : kde_conditional_mutual_information

   kde_entropy(X, bandwidth, kernel='gaussian'):
       kde = KernelDensity(bandwidth, kernel).fit(X); dens_i = exp(kde.score_samples(X)_i)
       Hx = - sum_i log(dens_i) / N
   Gaussian kernel:  dens_i = 1/(N (2 pi)^(d/2) h^d) * sum_j exp(-|x_i - x_j|^2 / (2 h^2))   (j = i included)
   bandwidth rule (scikit-learn): 'scott' h = N^(-1/(d+4)); 'silverman' h = (N (d+2)/4)^(-1/(d+4)); number h.
   kde_mutual_information = H(X) + H(Y) - H(X,Y);  kde_conditional_mutual_information = H(XZ) + H(YZ) - H(XYZ) - H(Z).

   REAL LAYER: the model is an expression tree of Model/Itv.v (meaning evalR in R, executed with verified
   interval arithmetic).  Samples are integer points k with the real sample being k / D (the harness scales
   dyadic floats by a power of two), squared distances are computed exactly in Z. *)
From Coq Require Import List ZArith.
From CE Require Import Model.Itv Model.KnnCounts.
Import ListNotations.
Open Scope Z_scope.

Inductive bw := Silverman | Scott | Num (n d : Z).

Definition h_expr (b : bw) (N d : Z) : expr :=
  match b with
  | Silverman => EExp (EDiv (ENeg (ELn (EDiv (EZ (N * (d + 2))) (EZ 4)))) (EZ (d + 4)))
  | Scott => EExp (EDiv (ENeg (ELn (EZ N))) (EZ (d + 4)))
  | Num n dd => EQ n dd
  end.

Definition sqd (pts : list (list Z)) : list (list Z) := map (fun p => map (fun q => dist Euclid p q) pts) pts.

(* env: 0 = h, 1 = 2 h^2 D^2, 2 = ln N + (d/2) ln(2 pi) + d ln h   (= - ln of the normalising constant) *)
Definition kde_entropy_body (N : Z) (sq : list (list Z)) : expr :=
  ENeg (EDiv (ESum (map (fun row =>
                       ESub (ELn (ESum (map (fun s => EExp (ENeg (EDiv (EZ s) (EVar 1)))) row))) (EVar 2)) sq))
             (EZ N)).
Definition kde_entropy_expr (b : bw) (D : Z) (pts : list (list Z)) : expr :=
  let N := Z.of_nat (length pts) in
  let d := Z.of_nat (length (hd [] pts)) in
  ELet (h_expr b N d)
    (ELet (EMul (EMul (EZ 2) (EMul (EVar 0) (EVar 0))) (EZ (D * D)))
       (ELet (EAdd (ELn (EZ N)) (EAdd (EMul (EQ d 2) (ELn (EMul (EZ 2) EPi))) (EMul (EZ d) (ELn (EVar 0)))))
          (kde_entropy_body N (sqd pts)))).

Definition kde_mi_expr (b : bw) (D : Z) (all : list sample) : expr :=
  ESub (EAdd (kde_entropy_expr b D (map sx all)) (kde_entropy_expr b D (map sy all)))
       (kde_entropy_expr b D (map (fun s => sx s ++ sy s) all)).
Definition kde_cmi_expr (b : bw) (D : Z) (all : list sample) : expr :=
  ESub (ESub (EAdd (kde_entropy_expr b D (map pxz all)) (kde_entropy_expr b D (map pyz all)))
             (kde_entropy_expr b D (map pj all)))
       (kde_entropy_expr b D (map sz all)).

(* ---- correspondence: case = (which, bandwidth, D, rows, value num, value den, tol num, tol den) ---- *)
Inductive which := WEntropy | WMi | WCmi.
Definition kde_expr (w : which) (b : bw) (D : Z) (rows : list (list Z * list Z * list Z)) : expr :=
  let all := map mk rows in
  match w with
  | WEntropy => kde_entropy_expr b D (map sx all)
  | WMi => kde_mi_expr b D all
  | WCmi => kde_cmi_expr b D all
  end.
Definition check_kde_case (c : which * bw * Z * list (list Z * list Z * list Z) * Z * Z * Z * Z) : bool :=
  let '(w, b, D, rows, vn, vd, tn, td) := c in
  close_check (kde_expr w b D rows) (EQ vn vd) (EQ tn td).
