(* The source text the kNN and KDE models (Model/KnnCounts.v, Model/Kde.v) were written from.

   harness/translate_est.py re-reads these five functions from /repo on every run, inlines their local
   assignments (so renaming or re-ordering temporaries changes nothing), inlines straight-line private helpers, writes
   behaviour-preserving spellings in one canonical form (a + -b as a - b; E.sum(..) as np.sum(E, ..); calls of package
   functions with all arguments as keywords in signature order) and emits, per return path, the returned
   expression in terms of the parameters; a generated lemma then states that what the source says NOW equals this
   table.  Correspondence with the model, piece by piece:
     np.sort(cdist(JS, JS, metric), axis=1)[:, k]            eps        (index k of the sorted joint distances)
     np.column_stack((X, Y)) / ((X, Y, Z)) / ((X, Z)) ...    pj, pxz, pyz, sx, sy, sz
     np.sum(D < epsilon[:, None], axis=1) - 1                cnt        (strict comparison, the sample itself removed)
     digamma(n + 1)                                          harmZ n    (psi(n+1) = H_n - gamma)
     digamma(k) + digamma(N) - mean(...), digamma(k) - mean  knn_mi, knn_cmi
     -sum(log(exp(score_samples(X)))) / N                    kde_entropy_expr
     signed entropy sums                                     kde_mi_expr, kde_cmi_expr
   (the p = k+1 Minkowski branch of the conditional kNN function is outside the property's metric set). *)
From Coq Require Import String List.
Import ListNotations.
Open Scope string_scope.

Definition modelled_source : list (string * string) :=
  [("knn_mutual_information.signature",
    "X,Y,metric='euclidean',k=1");
   ("knn_mutual_information.return[always]",
    "digamma(k)+digamma(X.shape[0])-np.mean(digamma(np.sum(cdist(X,X,metric=metric)<np.sort(cdist(np.column_stack((X,Y)),np.column_stack((X,Y)),metric=metric),axis=1)[:,k][:,None],axis=1)-1+1)+digamma(np.sum(cdist(Y,Y,metric=metric)<np.sort(cdist(np.column_stack((X,Y)),np.column_stack((X,Y)),metric=metric),axis=1)[:,k][:,None],axis=1)-1+1))");
   ("knn_conditional_mutual_information.signature",
    "X,Y,Z,metric='minkowski',k=1");
   ("knn_conditional_mutual_information.return[ZisNone]",
    "knn_mutual_information(X=X,Y=Y,metric=metric,k=k)");
   ("knn_conditional_mutual_information.return[not(ZisNone)]",
    "digamma(k)-np.mean(digamma(np.sum(cdist(np.column_stack((X,Z)),np.column_stack((X,Z)),metric=metric)<(np.sort(cdist(np.column_stack((X,Y,Z)),np.column_stack((X,Y,Z)),metric=metric,p=k+1),axis=1)[:,k]ifmetric=='minkowski'elsenp.sort(cdist(np.column_stack((X,Y,Z)),np.column_stack((X,Y,Z)),metric=metric),axis=1)[:,k])[:,None],axis=1)-1+1)+digamma(np.sum(cdist(np.column_stack((Y,Z)),np.column_stack((Y,Z)),metric=metric)<(np.sort(cdist(np.column_stack((X,Y,Z)),np.column_stack((X,Y,Z)),metric=metric,p=k+1),axis=1)[:,k]ifmetric=='minkowski'elsenp.sort(cdist(np.column_stack((X,Y,Z)),np.column_stack((X,Y,Z)),metric=metric),axis=1)[:,k])[:,None],axis=1)-1+1)-digamma(np.sum(cdist(Z,Z,metric=metric)<(np.sort(cdist(np.column_stack((X,Y,Z)),np.column_stack((X,Y,Z)),metric=metric,p=k+1),axis=1)[:,k]ifmetric=='minkowski'elsenp.sort(cdist(np.column_stack((X,Y,Z)),np.column_stack((X,Y,Z)),metric=metric),axis=1)[:,k])[:,None],axis=1)-1+1))");
   ("kde_entropy.signature",
    "X,bandwidth='silverman',kernel='gaussian'");
   ("kde_entropy.return[always]",
    "-np.sum(np.log(np.exp(KernelDensity(bandwidth=bandwidth,kernel=kernel).fit(X).score_samples(X))))/len(np.exp(KernelDensity(bandwidth=bandwidth,kernel=kernel).fit(X).score_samples(X)))");
   ("kde_mutual_information.signature",
    "X,Y,bandwidth='silverman',kernel='gaussian'");
   ("kde_mutual_information.return[always]",
    "kde_entropy(X=X,bandwidth=bandwidth,kernel=kernel)+kde_entropy(X=Y,bandwidth=bandwidth,kernel=kernel)-kde_entropy(X=np.hstack((X,Y)),bandwidth=bandwidth,kernel=kernel)");
   ("kde_conditional_mutual_information.signature",
    "X,Y,Z,bandwidth='silverman',kernel='gaussian'");
   ("kde_conditional_mutual_information.return[always]",
    "kde_mutual_information(X=X,Y=Y,bandwidth=bandwidth,kernel=kernel)ifZisNoneelsekde_entropy(X=np.hstack((X,Z)),bandwidth=bandwidth,kernel=kernel)+kde_entropy(X=np.hstack((Y,Z)),bandwidth=bandwidth,kernel=kernel)-kde_entropy(X=np.hstack((X,Y,Z)),bandwidth=bandwidth,kernel=kernel)-kde_entropy(X=Z,bandwidth=bandwidth,kernel=kernel)")].
