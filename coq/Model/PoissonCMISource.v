(* The `else:` branch (Z present) of poisson_conditional_mutual_information as harness/translate_C10.py reads it from /repo's source
   (statement by statement, local names replaced by v1, v2, ... in order of first assignment, whitespace removed).  Model/PoissonCMI.v
   was written from this table:
     v1 v2 v3 = k_x k_y k_z;  v4 v5 v6 = indX indY indZ (1 x k index matrices);  v8 = SXYZ;  v9 = SS (the ALIAS `v9 = v8`);  v10 = Sa;
     else[10] fill_diagonal with the matrix-valued `np.diagonal(v9) - v10`;  else[11], else[12] the two block additions;
     v11 = S_est1, v12 = S_est2, v14 = SindZ (element-wise fancy indexing);  v13 = HYZ, v15 = HZ, v16 = HXYZ, v17 = HXZ;
     return (HXYZ - HXZ) - (HYZ - HZ).
   The harness regenerates the list from the current source and re-proves equality (lib.translator_lemma). *)
From Coq Require Import String List.
Import ListNotations.
Open Scope string_scope.

Definition pcmi_source : list (string * string) :=
  [("else[0].v1",
    "X.shape[1]");
   ("else[1].v2",
    "Y.shape[1]");
   ("else[2].v3",
    "Z.shape[1]");
   ("else[3].v4",
    "np.matrix(np.arange(v1))");
   ("else[4].v5",
    "np.matrix(np.arange(v2)+v1)");
   ("else[5].v6",
    "np.matrix(np.arange(v3)+v1+v2)");
   ("else[6].v7",
    "np.concatenate((X,Y,Z),axis=1)");
   ("else[7].v8",
    "np.corrcoef(v7.T)");
   ("else[8].v9",
    "v8");
   ("else[9].v10",
    "v8-np.diag(np.diag(v8))");
   ("else[10].call",
    "np.fill_diagonal(v9,np.diagonal(v9)-v10)");
   ("else[11].store:v9[0:v1,0:v1]",
    "v9[0:v1,0:v1]+v8[0:v1,v1:v1+v2]");
   ("else[12].store:v9[v1:v1+v2,v1:v1+v2]",
    "v9[v1:v1+v2,v1:v1+v2]+v8[v1:v1+v2,0:v1]");
   ("else[13].v11",
    "v9[np.concatenate((v5.T,v6.T),axis=0),np.concatenate((v5.T,v6.T),axis=0)]");
   ("else[14].v12",
    "v9[np.concatenate((v4.T,v6.T),axis=0),np.concatenate((v4.T,v6.T),axis=0)]");
   ("else[15].v13",
    "poisson_joint_entropy(v11)");
   ("else[16].v14",
    "v9[v6,v6]");
   ("else[17].v15",
    "poisson_joint_entropy(v14)");
   ("else[18].v16",
    "poisson_joint_entropy(v8-np.diag(v10))");
   ("else[19].v17",
    "poisson_joint_entropy(v12)");
   ("else[20].v18",
    "v13-v15");
   ("else[21].v19",
    "v16-v17");
   ("else[22].v20",
    "v19-v18");
   ("else.return",
    "v20")].

