(* Model of the Gaussian (conditional) mutual information estimators
     causationentropy/core/information/conditional_mutual_information.py : gaussian_conditional_mutual_information
     causationentropy/core/information/mutual_information.py             : gaussian_mutual_information
     causationentropy/core/linalg.py                                     : correlation_log_determinant

   code:   cmi = 1/2 (logdet R_xz + logdet R_yz - logdet R_z - logdet R_xyz),   R_* = np.corrcoef of the stacked
           columns;  a 0-column block and a 1-column block have log-determinant 0;  Z = None -> the same with the
           Z block empty (gaussian_mutual_information).

   RATIONAL LAYER.  Every float is a rational; the sample is a list of rows D (each row lists ALL columns),
   X, Y, Z are lists of column indices.  Everything below 1/2 ln(.) is a rational function of the data:
     sc D i j     scatter (N x covariance) of columns i, j
     gram D idx   scatter matrix of the stacked columns idx
     pivots/det   Gaussian elimination without pivoting (Schur-complement steps); None on a zero pivot
     ratio_det    det G_xz det G_yz / (det G_z det G_xyz)                      (determinant form)
     ratio_corr   the same with correlation determinants det G / prod diag and the code's shortcuts
     ratio_seq    prod_j |res(y_j | 1,Z,y_<j)|^2 / |res(y_j | 1,Z,y_<j,X)|^2  (sequential regressions)
     ratio_res    det S(X|Z) det S(Y|Z) / det S(XY|Z),  S(A|Z) = scatter matrix of the least-squares residuals of
                  the columns A on (1, Z), residual VECTORS computed by Gram-Schmidt projections in Q^N
                  (the form the PROPERTY speaks about)
   and the value is  cmi = 1/2 ln ratio,  an expression of Model/Itv.v that is enclosed by verified interval
   arithmetic.  Qred is applied inside sums so that evaluation by vm_compute stays small; it is the identity
   up to == and makes ==-equal results Leibniz-equal. *)
From Coq Require Import List Arith ZArith QArith Bool.
From CE Require Import Model.Itv.
Import ListNotations.
Open Scope Q_scope.

Fixpoint map2 {A B C} (f : A -> B -> C) (a : list A) (b : list B) : list C :=
  match a, b with x :: a', y :: b' => f x y :: map2 f a' b' | _, _ => [] end.

Fixpoint qsum (l : list Q) : Q := match l with [] => 0 | a :: r => Qred (a + qsum r) end.
Fixpoint qprod (l : list Q) : Q := match l with [] => 1 | a :: r => Qred (a * qprod r) end.

(* ---- scatter matrix --------------------------------------------------------------------------------- *)
Definition nrows (D : list (list Q)) : Q := inject_Z (Z.of_nat (length D)).
(* sum f g - (sum f)(sum g)/N  =  sum (f - mean f)(g - mean g) *)
Definition scf (f g : list Q -> Q) (D : list (list Q)) : Q :=
  qsum (map (fun r => f r * g r) D) - qsum (map f D) * qsum (map g D) / nrows D.
Definition getc (i : nat) (r : list Q) : Q := nth i r 0.
Definition sc (D : list (list Q)) (i j : nat) : Q := Qred (scf (getc i) (getc j) D).
(* the centred form of the same number (specification; equality is a lemma) *)
Definition mean (f : list Q -> Q) (D : list (list Q)) : Q := qsum (map f D) / nrows D.
Definition sc_centred (D : list (list Q)) (i j : nat) : Q :=
  qsum (map (fun r => (getc i r - mean (getc i) D) * (getc j r - mean (getc j) D)) D).

Definition gram (D : list (list Q)) (idx : list nat) : list (list Q) :=
  map (fun i => map (fun j => sc D i j) idx) idx.

(* ---- elimination ------------------------------------------------------------------------------------ *)
Definition elim_row (p : Q) (r row : list Q) : list Q :=
  match row with [] => [] | c :: rest => map2 (fun x y => Qred (x - c * y / p)) rest r end.
Definition schur_step (p : Q) (r : list Q) (rows : list (list Q)) : list (list Q) := map (elim_row p r) rows.
Fixpoint pivots (n : nat) (G : list (list Q)) : option (list Q) :=
  match n with
  | O => Some []
  | S n' => match G with
            | (p :: r) :: rows =>
                if Qeq_bool p 0 then None
                else match pivots n' (schur_step p r rows) with Some ps => Some (p :: ps) | None => None end
            | _ => None
            end
  end.
Definition det_piv (G : list (list Q)) : option Q :=
  match pivots (length G) G with Some ps => Some (qprod ps) | None => None end.
Definition det_idx (D : list (list Q)) (idx : list nat) : option Q := det_piv (gram D idx).

Definition ratio_of (a b c d : option Q) : option Q :=
  match a, b, c, d with
  | Some a, Some b, Some c, Some d => Some (Qred (a * b / (c * d)))
  | _, _, _, _ => None
  end.
(* determinant form on scatter (equivalently covariance) matrices; Z absent = iz = [] (det of the 0 x 0 matrix = 1) *)
Definition ratio_det (D : list (list Q)) (ix iy iz : list nat) : option Q :=
  ratio_of (det_idx D (ix ++ iz)) (det_idx D (iy ++ iz)) (det_idx D iz) (det_idx D (ix ++ iy ++ iz)).

(* the code's form: determinants of CORRELATION matrices, det R = det G / prod_i G_ii, with the 0-column and
   1-column shortcuts of correlation_log_determinant / _detcorr (log-determinant 0, i.e. determinant 1) *)
Definition diag_prod (D : list (list Q)) (idx : list nat) : Q := qprod (map (fun i => sc D i i) idx).
Definition corr_of (D : list (list Q)) (idx : list nat) (det : option Q) : option Q :=
  match idx with
  | [] => Some 1
  | [_] => Some 1
  | _ => match det with
         | Some d => if Qeq_bool (diag_prod D idx) 0 then None else Some (Qred (d / diag_prod D idx))
         | None => None
         end
  end.
Definition corr_det (D : list (list Q)) (idx : list nat) : option Q := corr_of D idx (det_idx D idx).
Definition ratio_corr (D : list (list Q)) (ix iy iz : list nat) : option Q :=
  ratio_of (corr_det D (ix ++ iz)) (corr_det D (iy ++ iz)) (corr_det D iz) (corr_det D (ix ++ iy ++ iz)).

(* ---- least-squares residual form -------------------------------------------------------------------- *)
Fixpoint dot (a b : list Q) : Q :=
  match a, b with x :: a', y :: b' => Qred (x * y + dot a' b') | _, _ => 0 end.
(* v - (<v,b>/<b,b>) b *)
Definition proj_out (b v : list Q) : list Q :=
  let c := Qred (dot v b / dot b b) in map2 (fun x y => Qred (x - c * y)) v b.
(* residual of v after projecting out the (mutually orthogonal) vectors of basis one after the other *)
Definition resid (basis : list (list Q)) (v : list Q) : list Q := fold_left (fun w b => proj_out b w) basis v.
(* Gram-Schmidt: extend the orthogonal family acc by the residuals of cols *)
Fixpoint gs_acc (acc cols : list (list Q)) : list (list Q) :=
  match cols with [] => acc | c :: r => gs_acc (acc ++ [resid acc c]) r end.
Definition col (D : list (list Q)) (i : nat) : list Q := map (getc i) D.
Definition ones (D : list (list Q)) : list Q := map (fun _ => 1) D.
(* orthogonal basis of span(1, Z) and the least-squares residuals of the columns idx on (1, Z) *)
Definition zbasis (D : list (list Q)) (iz : list nat) : list (list Q) := gs_acc [] (ones D :: map (col D) iz).
Definition residuals (D : list (list Q)) (iz idx : list nat) : list (list Q) :=
  map (fun i => resid (zbasis D iz) (col D i)) idx.
(* residual scatter matrix S(A|Z) = R^T R  (N-1 times the residual covariance; the factor cancels in the ratio) *)
Definition gmat (vs : list (list Q)) : list (list Q) := map (fun a => map (fun b => dot a b) vs) vs.
(* diagonal block of a square matrix: rows and columns from .. from+len-1 *)
Definition sub (M : list (list Q)) (from len : nat) : list (list Q) :=
  map (fun r => firstn len (skipn from r)) (firstn len (skipn from M)).
(* S(XY|Z) is computed once; S(X|Z) and S(Y|Z) are its diagonal blocks *)
Definition ratio_res (D : list (list Q)) (ix iy iz : list nat) : option Q :=
  let S := gmat (residuals D iz (ix ++ iy)) in
  ratio_of (det_piv (sub S 0 (length ix))) (det_piv (sub S (length ix) (length iy))) (Some 1) (det_piv S).

(* the same quantity factor by factor (sequential regressions): for each column y_j of Y
     ( |res(y_j | 1,Z,y_<j)|^2 , |res(y_j | 1,Z,y_<j,X)|^2 ),   ratio_seq = prod of the quotients.
   Each extra regressor can only shrink a residual norm, which makes ratio_seq >= 1 a theorem in every dimension. *)
Fixpoint res_factors (base xs ys : list (list Q)) : list (Q * Q) :=
  match ys with
  | [] => []
  | y :: r => let ry := resid base y in
              let e := resid (gs_acc base xs) y in
              (dot ry ry, dot e e) :: res_factors (base ++ [ry]) xs r
  end.
Definition ratio_seq (D : list (list Q)) (ix iy iz : list nat) : option Q :=
  let fs := res_factors (zbasis D iz) (map (col D) ix) (map (col D) iy) in
  if existsb (fun nd => Qeq_bool (snd nd) 0) fs then None
  else Some (Qred (qprod (map fst fs) / qprod (map snd fs))).

(* ---- transformations the property speaks about (used in theorem statements only) ------------------- *)
Fixpoint upd (c : nat) (f : Q -> Q) (r : list Q) : list Q :=
  match r, c with
  | [], _ => []
  | x :: r', O => f x :: r'
  | x :: r', S c' => x :: upd c' f r'
  end.
(* column c -> a * column c + b *)
Definition rescale_col (c : nat) (a b : Q) (D : list (list Q)) : list (list Q) := map (upd c (fun x => a * x + b)) D.

(* ---- the value: 1/2 ln ratio as a real-valued expression ------------------------------------------- *)
Definition EQq (q : Q) : expr := EQ (Qnum q) (Zpos (Qden q)).
Definition cmi_expr (q : Q) : expr := EMul (EQ 1 2) (ELn (EQq q)).
(* the code's literal form: half the signed sum of the four log-determinants *)
Definition cmi_code_expr (cxz cyz cz cxyz : Q) : expr :=
  EMul (EQ 1 2) (ESub (ESub (EAdd (ELn (EQq cxz)) (ELn (EQq cyz))) (ELn (EQq cz))) (ELn (EQq cxyz))).

(* ---- correspondence --------------------------------------------------------------------------------- *)
(* floats cross the boundary exactly: column c of the sample is  m * 2^(e_c)  with integer m *)
Definition dy (e m : Z) : Q :=
  if (0 <=? e)%Z then inject_Z (m * 2 ^ e) else Qmake m (Z.to_pos (2 ^ (- e))).
Definition sample (exps : list Z) (rows : list (list Z)) : list (list Q) := map (map2 dy exps) rows.

(* case = (column exponents, integer rows with columns ordered X,Y,Z, k_x, k_y, k_z,
           evaluate the residual form too?  the sequential residual form too?  (Gram-Schmidt on N-vectors of big
           rationals is slow under vm_compute; the harness switches them off on the larger samples and counts them),
           the ratio computed by the harness's exact reference (num, den),
           values returned by the implementation's entry points as (num, den, tol num, tol den)) *)
Definition check_case (c : list Z * list (list Z) * nat * nat * nat * bool * bool * (Z * Z) * list (Z * Z * Z * Z)) : bool :=
  let '(exps, rows, kx, ky, kz, with_res, with_seq, qh, vals) := c in
  let D := sample exps rows in
  let ix := seq 0 kx in let iy := seq kx ky in let iz := seq (kx + ky) kz in
  let dxz := det_idx D (ix ++ iz) in let dyz := det_idx D (iy ++ iz) in
  let dz := det_idx D iz in let dxyz := det_idx D (ix ++ iy ++ iz) in
  let cxz := corr_of D (ix ++ iz) dxz in let cyz := corr_of D (iy ++ iz) dyz in
  let cz := corr_of D iz dz in let cxyz := corr_of D (ix ++ iy ++ iz) dxyz in
  match ratio_of dxz dyz dz dxyz, ratio_of cxz cyz cz cxyz, cxz, cyz, cz, cxyz with
  | Some qd, Some qc, Some a, Some b, Some c', Some d =>
      Qeq_bool qd qc && Qeq_bool qd (Qmake (fst qh) (Z.to_pos (snd qh))) &&
      (if with_res then match ratio_res D ix iy iz with Some qr => Qeq_bool qd qr | None => false end else true) &&
      (if with_seq then match ratio_seq D ix iy iz with Some qs => Qeq_bool qd qs | None => false end else true) &&
      forallb (fun v => let '(vn, vd, tn, td) := v in
                        close_check (cmi_expr qd) (EQ vn vd) (EQ tn td) &&
                        close_check (cmi_code_expr a b c' d) (EQ vn vd) (EQ tn td)) vals
  | _, _, _, _, _, _ => false
  end.
