(* C12 -- geometric-kNN entropy obeys the laws of a differential entropy estimate (partial: modulo explicit
   hypotheses on the SVD data for d >= 2; no such hypothesis for d = 1).

   Setting (Model/GeoKnn.v): a sample is a list of integer points [pts] with the real sample being pts / D -- every
   finite family of rational (hence of float) points has such a representation.  [sv2 D p l] / [ins D p l] stand for
   the squared singular values of the centred neighbourhood (p and its neighbours l) and the number of neighbours
   inside the local ellipsoid; they are section variables of the model, universally quantified here, and every
   hypothesis on them is explicit.  [geo_entropy_expr sv2 ins D d k pts] is the expression tree the interval layer
   evaluates in the correspondence; [evalR []] is its value in R.

   FULL STATEMENT (not provable for an executable model, because the singular values of a d x d matrix are not
   rational functions of the data):  for all tie-free real samples X (N > k+1), orthogonal Q, shifts t, a > 0:
       H(X + t) = H(X),  H(X Q) = H(X),  H(a X) = H(X) + d ln a,  H(X[perm]) = H(X),  H = published formula.
   PROVED (the theorems named ..._partial carry the hypotheses on the SVD data; the others are unconditional):
   the same identities for every rational sample, every rational shift, every positive rational factor,
   every map that multiplies all pairwise squared distances by one factor (in particular every rational orthogonal
   map), under the hypotheses that the SVD data transform as true singular values / ellipsoid counts do
   (unchanged by isometries and row order, homogeneous of degree 2 in the squares) and that no `> 1e-12` guard
   changes its outcome.  What is missing for the full statement: that numpy.linalg.svd's values satisfy these
   hypotheses (they do up to rounding; checked numerically by the correspondence), and irrational a / Q / t. *)
From Coq Require Import List ZArith QArith Reals Permutation.
From CE Require Import Model.Itv Model.KnnCounts Model.GeoKnn Model.GeoEllipsoid Model.GeoRank Proofs.ItvProofs Proofs.KdeProofs Proofs.GeoKnnProofs Proofs.GeoEllipsoidProofs.
Import ListNotations.
Close Scope Q_scope.

(* the expression evaluated in the correspondence means exactly: log N + log(unit-ball volume) + d/N sum_i log rho_i
   + mean_i( -log max(1, inside_i) + sum_l log(sigma_il / sigma_i0) ), each `> 1e-12` guard of the code included *)
Theorem C12_expression_is_the_published_formula : forall D d locs, (0 < D)%Z ->
  evalR [] (geo_expr_of D d locs) = geo_spec D d locs.
Proof. exact geo_expr_meaning. Qed.
Print Assumptions C12_expression_is_the_published_formula.

(* when no guard triggers the specification is literally the docstring formula, rho_i = sqrt(rho2_i)/D the Euclidean
   distance to the k-th nearest sample, sigma = sqrt of the squared singular values *)
Theorem C12_published_formula_without_guards : forall D d locs, Forall (regular D d) locs ->
  geo_spec D d locs =
  (ln (INR (length locs)) + ln (ball_R d)
   + INR d / INR (length locs) * Rsum (map (fun l => ln (sqrt (IZR (l_rho2 l)) / IZR D)) locs)
   + Rsum (map (fun l => - ln (IZR (Z.max 1 (l_ins l))) + sigma_ratio_sum d (l_sv2 l)) locs) / INR (length locs))%R.
Proof. exact geo_spec_regular. Qed.
Print Assumptions C12_published_formula_without_guards.

(* the unit-ball constant pi^(d/2)/Gamma(d/2+1): closed forms for d = 1..5 and the recursion that defines it *)
Theorem C12_unit_ball_constants :
  (ball_R 1 = 2 /\ ball_R 2 = PI /\ ball_R 3 = 4 / 3 * PI /\ ball_R 4 = PI * PI / 2 /\ ball_R 5 = 8 / 15 * (PI * PI))%R /\
  (forall d, ball_R (S (S d)) = 2 * PI / INR (S (S d)) * ball_R d)%R.
Proof. exact (conj ball_R_values ball_R_rec). Qed.
Print Assumptions C12_unit_ball_constants.

(* the estimate does not depend on the order of the samples (any N, d, k), provided the SVD data depend on the
   neighbour set only *)
Theorem C12_sample_order_invariant_partial : forall (sv2 : Z -> point -> list point -> list Q) (ins : Z -> point -> list point -> Z), oracle_order_free sv2 ins ->
  forall D d k pts pts', Permutation pts pts' ->
  evalR [] (geo_entropy_expr sv2 ins D d k pts) = evalR [] (geo_entropy_expr sv2 ins D d k pts').
Proof. exact row_perm_invariant. Qed.
Print Assumptions C12_sample_order_invariant_partial.

(* ANY map that preserves the pairwise squared distances of the sample (translations, rotations, reflections that
   keep the grid) leaves the estimate -- the whole expression -- unchanged, provided the SVD data of every mapped
   neighbourhood are unchanged; in particular every translation by a grid vector *)
Theorem C12_translation_and_isometry_invariant_partial :
  (forall (sv2 : Z -> point -> list point -> list Q) (ins : Z -> point -> list point -> Z) D d k f pts,
     (forall p q, In p pts -> In q pts -> d2 (f p) (f q) = d2 p q) ->
     (forall p, In p pts -> ins D (f p) (map f (nbrs k pts p)) = ins D p (nbrs k pts p)) ->
     (forall p, In p pts -> sv2 D (f p) (map f (nbrs k pts p)) = sv2 D p (nbrs k pts p)) ->
     geo_entropy_expr sv2 ins D d k (map f pts) = geo_entropy_expr sv2 ins D d k pts) /\
  (forall (sv2 : Z -> point -> list point -> list Q) (ins : Z -> point -> list point -> Z) D d k t pts,
     Forall (fun p => length p <= length t)%nat pts ->
     (forall p, In p pts -> ins D (shift t p) (map (shift t) (nbrs k pts p)) = ins D p (nbrs k pts p)) ->
     (forall p, In p pts -> sv2 D (shift t p) (map (shift t) (nbrs k pts p)) = sv2 D p (nbrs k pts p)) ->
     geo_entropy_expr sv2 ins D d k (map (shift t) pts) = geo_entropy_expr sv2 ins D d k pts).
Proof. exact (conj isometry_invariant shift_invariant). Qed.
Print Assumptions C12_translation_and_isometry_invariant_partial.

(* rotation by a rational orthogonal matrix with denominator m (image on the m-times finer grid, all grid squared
   distances times m^2): the estimate is unchanged *)
Theorem C12_rotation_invariant_partial : forall (sv2 : Z -> point -> list point -> list Q) (ins : Z -> point -> list point -> Z) m D d k f pts,
  (0 < m)%Z -> (0 < D)%Z -> pts <> [] ->
  (forall p q, In p pts -> In q pts -> d2 (f p) (f q) = (m * m * d2 p q)%Z) ->
  (forall p, In p pts -> rho_ok D (rho2 k pts p) = true) ->
  (forall p, In p pts -> ins (m * D)%Z (f p) (map f (nbrs k pts p)) = ins D p (nbrs k pts p)) ->
  (forall p, In p pts -> Forall2 (sv_related 1) (sv2 D p (nbrs k pts p)) (sv2 (m * D)%Z (f p) (map f (nbrs k pts p)))) ->
  evalR [] (geo_entropy_expr sv2 ins (m * D) d k (map f pts)) = evalR [] (geo_entropy_expr sv2 ins D d k pts).
Proof. exact rotation_invariant. Qed.
Print Assumptions C12_rotation_invariant_partial.

(* scaling the real sample by the positive rational a = c/e adds exactly d * ln a, provided the radius guards do not
   trigger, the inside-counts are unchanged and the squared singular values are multiplied by a^2 with unchanged
   guard outcomes; and the common generalisation of all laws: a map multiplying all real squared distances by
   kappa adds (d/2) ln kappa *)
Theorem C12_scale_and_similarity_law_partial :
  (forall (sv2 : Z -> point -> list point -> list Q) (ins : Z -> point -> list point -> Z) c e D d k pts,
     (0 < c)%Z -> (0 < e)%Z -> (0 < D)%Z -> pts <> [] ->
     (forall p, In p pts -> rho_ok D (rho2 k pts p) = true /\ rho_ok (e * D) (rho2 k (map (scale c) pts) (scale c p)) = true) ->
     (forall p, In p pts -> ins (e * D)%Z (scale c p) (map (scale c) (nbrs k pts p)) = ins D p (nbrs k pts p)) ->
     (forall p, In p pts -> Forall2 (sv_related ((IZR c / IZR e) * (IZR c / IZR e)))
                                    (sv2 D p (nbrs k pts p)) (sv2 (e * D)%Z (scale c p) (map (scale c) (nbrs k pts p)))) ->
     evalR [] (geo_entropy_expr sv2 ins (e * D) d k (map (scale c) pts)) =
     (evalR [] (geo_entropy_expr sv2 ins D d k pts) + INR d * ln (IZR c / IZR e))%R) /\
  (forall (sv2 : Z -> point -> list point -> list Q) (ins : Z -> point -> list point -> Z) alpha beta D D' d k f pts,
     (0 < alpha)%Z -> (0 < beta)%Z -> (0 < D)%Z -> (0 < D')%Z -> pts <> [] ->
     pw_similar alpha beta f pts ->
     (forall p, In p pts -> rho_ok D (rho2 k pts p) = true /\ rho_ok D' (rho2 k (map f pts) (f p)) = true) ->
     (forall p, In p pts -> ins D' (f p) (map f (nbrs k pts p)) = ins D p (nbrs k pts p)) ->
     (forall p, In p pts -> Forall2 (sv_related (kappa alpha beta D D')) (sv2 D p (nbrs k pts p)) (sv2 D' (f p) (map f (nbrs k pts p)))) ->
     evalR [] (geo_entropy_expr sv2 ins D' d k (map f pts)) =
     (evalR [] (geo_entropy_expr sv2 ins D d k pts) + INR d / 2 * ln (kappa alpha beta D D'))%R).
Proof. exact (conj scale_law similarity_law). Qed.
Print Assumptions C12_scale_and_similarity_law_partial.

(* with the exact rational ellipsoid count of Model/GeoEllipsoid.v in place of [ins] (every dimension), translation and
   sample-order invariance need a hypothesis on the singular values ONLY *)
Theorem C12_exact_ellipsoid_count_needs_no_hypothesis_partial :
  (forall (sv2 : Z -> point -> list point -> list Q) D d k t pts,
     Forall (fun p => length p <= length t)%nat pts ->
     (forall p, In p pts -> sv2 D (shift t p) (map (shift t) (nbrs k pts p)) = sv2 D p (nbrs k pts p)) ->
     geo_entropy_expr sv2 (ins_x d) D d k (map (shift t) pts) = geo_entropy_expr sv2 (ins_x d) D d k pts) /\
  (forall (sv2 : Z -> point -> list point -> list Q) d,
     (forall D p l l', Permutation l l' -> sv2 D p l = sv2 D p l') ->
     forall D k pts pts', Permutation pts pts' ->
     evalR [] (geo_entropy_expr sv2 (ins_x d) D d k pts) = evalR [] (geo_entropy_expr sv2 (ins_x d) D d k pts')).
Proof. exact (conj shift_invariant_exact_count row_perm_invariant_exact_count). Qed.
Print Assumptions C12_exact_ellipsoid_count_needs_no_hypothesis_partial.

(* d = 1: the SVD data are computed by the model, NO hypothesis on them remains: order, isometries (translations and
   reflections), scaling by any positive rational *)
Theorem C12_d1_laws_without_oracle :
  (forall D k pts pts', Permutation pts pts' -> evalR [] (geo1_entropy_expr D k pts) = evalR [] (geo1_entropy_expr D k pts')) /\
  (forall D k f pts, (forall p q, In p pts -> In q pts -> d2 (f p) (f q) = d2 p q) ->
     geo1_entropy_expr D k (map f pts) = geo1_entropy_expr D k pts) /\
  (forall c e D k pts, (0 < c)%Z -> (0 < e)%Z -> (0 < D)%Z -> pts <> [] ->
     (forall p, In p pts -> rho_ok D (rho2 k pts p) = true /\ rho_ok (e * D) (rho2 k (map (scale c) pts) (scale c p)) = true) ->
     evalR [] (geo1_entropy_expr (e * D) k (map (scale c) pts)) = (evalR [] (geo1_entropy_expr D k pts) + ln (IZR c / IZR e))%R).
Proof. exact (conj geo1_row_perm_invariant (conj geo1_isometry_invariant geo1_scale_law)). Qed.
Print Assumptions C12_d1_laws_without_oracle.

(* d = 2: the correspondence evaluates the singular-value term from the exact trace t/u and determinant dt/u^2 of
   Y^T Y (u = (k+1)^2 D^2) with a square root, NO SVD data: it is log(sigma_1/sigma_0) for the two eigenvalues *)
Theorem C12_d2_closed_form_is_singular_value_ratio : forall D p l t dt,
  (0 < D)%Z -> (2 <= length l)%nat -> tr_det2 p l = (t, dt) -> (0 < dt)%Z -> (4 * dt <= t * t)%Z -> (0 < t)%Z ->
  let u := IZR (Z.of_nat (length (p :: l)) * Z.of_nat (length (p :: l)) * (D * D)) in
  exists l0 l1, (l0 + l1 = IZR t / u /\ l0 * l1 = IZR dt / (u * u) /\ 0 < l1 <= l0 /\
                 evalR [] (sv_term2 D p l) = ln (sqrt l1 / sqrt l0))%R.
Proof. exact sv_term2_meaning. Qed.
Print Assumptions C12_d2_closed_form_is_singular_value_ratio.

(* the hypotheses on the SVD data are jointly satisfiable in EVERY dimension: the exactly computed trace data obey
   them (order-freeness; covariance under every similarity), so the laws above are not vacuous *)
Theorem C12_hypotheses_satisfiable :
  oracle_order_free sv2_1 ins_1 /\
  (forall alpha beta D D' d k f pts,
     (0 < alpha)%Z -> (0 < beta)%Z -> (0 < D)%Z -> (0 < D')%Z -> pts <> [] ->
     pw_similar alpha beta f pts ->
     (forall p, In p pts -> rho_ok D (rho2 k pts p) = true /\ rho_ok D' (rho2 k (map f pts) (f p)) = true) ->
     (forall p, In p pts -> gt24 (hd 0%Q (sv2_1 D' (f p) (map f (nbrs k pts p)))) = gt24 (hd 0%Q (sv2_1 D p (nbrs k pts p)))) ->
     evalR [] (geo_entropy_expr sv2_1 ins_1 D' d k (map f pts)) =
     (evalR [] (geo_entropy_expr sv2_1 ins_1 D d k pts) + INR d / 2 * ln (kappa alpha beta D D'))%R).
Proof. exact (conj exact_data_order_free exact_data_similarity_law). Qed.
Print Assumptions C12_hypotheses_satisfiable.

(* geometric mutual information = H(X) + H(Y) - H(X,Y) (then floored at 0 = max(0, .) by the code); conditional =
   H(XZ) + H(YZ) - H(XYZ) - H(Z) *)
Theorem C12_information_is_signed_entropy_sum : forall (sv2 : Z -> point -> list point -> list Q) (ins : Z -> point -> list point -> Z) D k all,
  let dx := length (sx (hd (mk ([], [], [])) all)) in let dy := length (sy (hd (mk ([], [], [])) all)) in
  let dz := length (sz (hd (mk ([], [], [])) all)) in
  evalR [] (geo_mi_expr sv2 ins D k all) =
    (evalR [] (geo_entropy_expr sv2 ins D dx k (map sx all)) + evalR [] (geo_entropy_expr sv2 ins D dy k (map sy all))
     - evalR [] (geo_entropy_expr sv2 ins D (dx + dy) k (map (fun s => sx s ++ sy s) all)))%R /\
  evalR [] (geo_cmi_expr sv2 ins D k all) =
    (evalR [] (geo_entropy_expr sv2 ins D (dx + dz) k (map pxz all)) + evalR [] (geo_entropy_expr sv2 ins D (dy + dz) k (map pyz all))
     - evalR [] (geo_entropy_expr sv2 ins D (dx + dy + dz) k (map pj all)) - evalR [] (geo_entropy_expr sv2 ins D dz k (map sz all)))%R /\
  (forall e, evalR [] (floor0 e) = Rmax 0 (evalR [] e)).
Proof. intros sv2 ins D k all. exact (conj (geo_mi_def sv2 ins D k all) (conj (geo_cmi_def sv2 ins D k all) floor0_def)). Qed.
Print Assumptions C12_information_is_signed_entropy_sum.

(* correspondence: the expression on recorded SVD data is the estimator of the theorems instantiated with those data,
   and a successful in-kernel check certifies |published formula - returned value| <= tolerance over the reals *)
Theorem C12_case_check_is_sound :
  (forall (sv2 : Z -> point -> list point -> list Q) (ins : Z -> point -> list point -> Z) D d k pts,
     geo_case_expr D d k pts (map (fun p => sv2 D p (nbrs k pts p)) pts) (map (fun p => ins D p (nbrs k pts p)) pts)
     = geo_entropy_expr sv2 ins D d k pts) /\
  (forall D d k pts svl insl vn vd tn td, (0 < D)%Z ->
     check_geo_case (D, d, k, pts, svl, insl, vn, vd, tn, td) = true ->
     (Rabs (geo_spec D d (locs_of k pts pts svl insl) - IZR vn / IZR vd) <= IZR tn / IZR td)%R).
Proof. exact (conj case_expr_is_oracle_expr check_geo_case_sound). Qed.
Print Assumptions C12_case_check_is_sound.

(* ======================================================================================================================
   Specification of the exact ellipsoid count (Model/GeoEllipsoid.v), and the rank of the centred neighbourhood on lists.

   Notation (Proofs/GeoEllipsoidProofs.v):  Gm d p l = A^T A, the integer Gram matrix of A = (k+1) * (neighbourhood - mean)
   (k = length l);  nn l = (k+1)^2;  dotR the dot product of real lists;  solves G z x : G x = z (row by row, x real);
   inside d p l q : some solution x of  Gm x = q - p  has  (k+1)^2 (q - p).x <= 1,  i.e.  z^T (Y^T Y)^-1 z <= 1 for
   Y = A / ((k+1) D), z = (q - p) / D (the scale D cancels);  counts P l n : exactly n elements of l satisfy P.

   FULL STATEMENT (all k, d):  ins_exact d p l = Some n -> counts (inside d p l) l n  for every neighbourhood in general
   position (rank min(k, d)).  PROVED: the computing branch k >= d, for all inputs, with no genericity hypothesis
   (C12_exact_inside_count_is_the_ellipsoid_count_partial).  For k < d the function returns 0 without computing; that 0 is
   the count because the quadratic form of a rank-k neighbourhood is exactly 2 > 1 -- proved for abstract matrices over any
   field (C12Mx.v: C12_rank_k_ellipsoid_quadratic_form_is_2), not transported to lists: that is the missing part.
   ====================================================================================================================== *)

(* the elimination inside ell_value is Gaussian elimination: every vector satisfying the n eliminated equations keeps, on
   the other rows, the residuals of the eliminated matrix (uniqueness side), and such vectors exist for every choice of
   the remaining coordinates (existence side); any n, any number of rows and columns *)
Theorem C12_elimination_preserves_and_solves :
  (forall n rows rows' v, elim n rows = Some rows' -> shaped (length v) rows -> (n <= length v)%nat ->
     firstn n (res rows v) = repeat 0%R n -> res rows' (skipn n v) = skipn n (res rows v)) /\
  (forall n rows rows' w, elim n rows = Some rows' -> shaped (n + length w) rows ->
     exists x, length x = n /\ firstn n (res rows (x ++ w)) = repeat 0%R n).
Proof. exact (conj elim_residuals elim_solvable). Qed.
Print Assumptions C12_elimination_preserves_and_solves.

(* whenever ell_value returns v: the system G x = z HAS a real solution, and EVERY solution gives v = (k+1)^2 z.x:
   v is the quadratic form z^T G^-1 z of the code's test (no inverse needs defining), for every d and every data *)
Theorem C12_ellipsoid_value_is_the_quadratic_form : forall d (p : point) (l : list point) (q : point) v,
  length p = d -> length q = d -> ell_value d p l q = Some v ->
  (exists x, solves (Gm d p l) (vsub q p) x) /\
  (forall x, solves (Gm d p l) (vsub q p) x -> Q2R v = (IZR (nn l) * dotR (zrowR (vsub q p)) x)%R).
Proof. exact ell_value_spec. Qed.
Print Assumptions C12_ellipsoid_value_is_the_quadratic_form.

(* the count of the correspondence (check_ins_case) IS the number of neighbours inside the local ellipsoid; every d, every
   k >= d, every data -- and each neighbour's value was well defined (solvable, independent of the solution) *)
Theorem C12_exact_inside_count_is_the_ellipsoid_count_partial :
  (forall d (p : point) (l : list point) n, (d <= length l)%nat -> length p = d -> Forall (fun q => length q = d) l ->
     ins_exact d p l = Some n -> counts (inside d p l) l n) /\
  (forall d (p : point) (l : list point) n, (d <= length l)%nat -> length p = d -> Forall (fun q => length q = d) l ->
     ins_exact d p l = Some n ->
     forall q, In q l -> exists v, ell_value d p l q = Some v /\
       (exists x, solves (Gm d p l) (vsub q p) x) /\
       (forall x, solves (Gm d p l) (vsub q p) x -> Q2R v = (IZR (nn l) * dotR (zrowR (vsub q p)) x)%R)) /\
  (forall d (p : point) (l : list point), (length l < d)%nat -> ins_exact d p l = Some 0%Z).
Proof. exact (conj ins_exact_spec (conj ins_exact_defined ins_exact_rank_deficient)). Qed.
Print Assumptions C12_exact_inside_count_is_the_ellipsoid_count_partial.

(* the IMPLEMENTATION's form of the test, sum_l ((z_real . v_l) / sigma_l)^2 over the singular pairs of the centred
   neighbourhood Y = A / ((k+1) D), equals the rational number the model computes, and is <= 1 exactly when the neighbour
   is inside -- for every d, GIVEN that the (v_l, sigma_l) are eigenpairs of Y^T Y (i.e. of G with eigenvalue
   (k+1)^2 D^2 sigma_l^2) that resolve z.  The SVD is the hypothesis (its values are irrational); nothing else is *)
Theorem C12_singular_vector_sum_is_the_model_value_partial :
  forall d D (p : point) (l : list point) (q : point) val (S : list (list R * R)),
  (0 < D)%Z -> length p = d -> length q = d -> ell_value d p l q = Some val ->
  Forall (fun vs => (0 < snd vs)%R) S ->
  Forall (eigenpair d (Gm d p l)) (as_eigen (IZR (nn l) * IZR (D * D)) S) ->
  zrowR (vsub q p) = lincomb d (map (fun vs => (dotR (zrowR (vsub q p)) (fst vs), fst vs)) S) ->
  hyper_sum D (vsub q p) S = Q2R val /\ ((hyper_sum D (vsub q p) S <= 1)%R <-> inside d p l q).
Proof. exact hyperellipsoid_sum_is_ell_value. Qed.
Print Assumptions C12_singular_vector_sum_is_the_model_value_partial.

(* RANK on lists: every column of the executable (k+1)-fold centred neighbourhood sums to zero (the row of ones annihilates
   it: the list counterpart of C12Mx.C12_centred_neighbourhood_has_rank_at_most_k, first clause), for every neighbourhood
   and dimension; hence that conjunct of the rank correspondence (Model/GeoRank.rank_one) can never fail *)
Theorem C12_centred_columns_sum_to_zero_on_lists :
  (forall (nb : list point) d j, Forall (fun q => length q = d) nb -> zsum (col j (centred nb d)) = 0%Z) /\
  (forall (nb : list point) d, Forall (fun q => length q = d) nb -> colsums0 (centred nb d) d = true).
Proof. exact (conj centred_colsum_zero colsums0_centred). Qed.
Print Assumptions C12_centred_columns_sum_to_zero_on_lists.
