(* C14 -- PCMCI <-> graph conversion preserves every link, its direction and its numbers. *)
From Coq Require Import List Arith ZArith QArith Bool Permutation.
From CE Require Import Model.GraphConv Proofs.GraphConvProofs Proofs.GraphConvFold Proofs.GraphConvRoundtrip Proofs.GraphConvRoundtrip2.
Import ListNotations.
Local Open Scope nat_scope.

(* '-->' at [i,j,tau] gives i -> j, '<--' the reverse (unless it is the mirror entry of a '-->': same link),
   symmetric marks one edge in each direction (emitted from the i<j cell), '-?>' gives i -> j *)
Theorem C14_direction_table : forall t bin level i j l,
  let e := get t (i, j, l) in
  let sg := sig_of bin level (e_p e) in
  emit t bin level (i, j, l) =
    match e_mark e with
    | Fwd  => [mk_edge i j l e Directed sg]
    | Bwd  => if mark_eqb (e_mark (get t (j, i, l))) Fwd then [] else [mk_edge j i l e Directed sg]
    | OO   => if Nat.ltb i j then [mk_edge i j l e Undirected sg; mk_edge j i l e Undirected sg] else []
    | XX   => if Nat.ltb i j then [mk_edge i j l e Conflicting sg; mk_edge j i l e Conflicting sg] else []
    | Poss => [mk_edge i j l e PossibleDirected sg]
    | Empty | Unknown => []
    end.
Proof. exact direction_table. Qed.
Print Assumptions C14_direction_table.

Theorem C14_value_pvalue_lag_significant_carried : forall t bin level c e,
  In e (emit t bin level c) ->
  let '(i, j, l) := c in
  g_lag e = l /\ g_val e = e_val (get t c) /\ g_p e = e_p (get t c) /\
  g_sig e = (if bin then Some (negb (Qle_bool level (e_p (get t c)))) else None).
Proof. exact numbers_carried. Qed.
Print Assumptions C14_value_pvalue_lag_significant_carried.

(* every link is represented once -- for every N, every lag range and EVERY mark pattern *)
Theorem C14_each_link_once : forall r bin level es, to_graph r bin level = Some es -> NoDup (map gkey es).
Proof. exact to_graph_each_link_once. Qed.
Print Assumptions C14_each_link_once.

Theorem C14_graph_is_reordering_of_emitted_edges : forall n es,
  (forall e, In e es -> g_src e < n) -> Permutation (nx_order n es) es.
Proof. exact nx_order_permutation. Qed.
Print Assumptions C14_graph_is_reordering_of_emitted_edges.

Theorem C14_unknown_mark_raises : forall r bin level, has_unknown r = true -> to_graph r bin level = None.
Proof. exact unknown_mark_raises. Qed.
Print Assumptions C14_unknown_mark_raises.

(* UNBOUNDED: for every number of nodes, every lag range and every consistent mark pattern (with arbitrary values),
   PCMCI -> graph -> PCMCI reproduces mark, value and p at every entry that carries a link *)
Theorem C14_pcmci_roundtrip_every_size : forall r, consistent r = true -> pcmci_roundtrip_ok r = true.
Proof. exact pcmci_roundtrip. Qed.
Print Assumptions C14_pcmci_roundtrip_every_size.

(* UNBOUNDED: every graph with unique (source, target, lag) triples whose symmetric links join distinct nodes and are
   stored in both directions with equal numbers survives graph -> PCMCI -> graph with every link, direction, lag,
   link type, value and p-value (same number of edges, mutual inclusion) *)
Theorem C14_graph_roundtrip_every_size : forall n es, graph_ok n es -> graph_roundtrip_ok n es = true.
Proof. exact graph_roundtrip. Qed.
Print Assumptions C14_graph_roundtrip_every_size.

(* networkx_to_pcmci, order-independently: writing ANY compatible edge list (duplicate-free keys; a symmetric link
   excludes other links of its pair and is stored with equal numbers; '-->' and '-?>' not both on one ordered pair)
   in ANY order yields the table determined by the SET of edges: '-->' / '-?>' / symmetric marks with the edge's
   numbers at its own cell, '<--' at the empty mirror cell of a contemporaneous '-->' *)
Theorem C14_written_table_is_determined_by_the_edge_set : forall n es, compat es ->
  forall c, get (p_tab (to_pcmci n es)) c = expected es c.
Proof. exact to_pcmci_characterised. Qed.
Print Assumptions C14_written_table_is_determined_by_the_edge_set.

(* both round trips, exhaustively for 2 nodes x lags {0,1} (the property's own exhaustive scope):
   all 46656 mark patterns, of which 1485 are consistent *)
Theorem C14_roundtrips_all_consistent_patterns_2_nodes_lags_0_1 : forallb pattern_ok all_patterns_2x2x2 = true.
Proof. exact roundtrips_2x2x2. Qed.
Print Assumptions C14_roundtrips_all_consistent_patterns_2_nodes_lags_0_1.

Theorem C14_exhaustive_scope_is_not_vacuous :
  N.of_nat (length (filter consistent all_patterns_2x2x2)) = 1485%N /\ N.of_nat (length all_patterns_2x2x2) = 46656%N.
Proof. exact consistent_patterns_2x2x2_exist. Qed.
Print Assumptions C14_exhaustive_scope_is_not_vacuous.

(* the pre-fix converter duplicated a mirrored contemporaneous link (finding F4, fixed in 9f43b13) *)
Theorem C14_pinned_converter_refuted : exists t, ~ NoDup (map gkey (flat_map (emit_pinned t) (cells 2 1))).
Proof. exact mirror_duplicates_refuted. Qed.
Print Assumptions C14_pinned_converter_refuted.
