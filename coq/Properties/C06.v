(* C06 -- discovered graph is well-formed; bad requests are rejected. *)
From Coq Require Import List Arith ZArith QArith String Bool Permutation.
From CE Require Import Model.Lagged Model.Dispatch Model.Discover Model.Selection Proofs.DiscoverProofs.
Local Open Scope nat_scope.

(* every graph the model emits is well-formed, whatever the selection oracle returns (as long as it
   returns duplicate-free candidate indices), whatever the estimator values and test counts are *)
Theorem C06_emitted_graph_wellformed : forall n L nsh sel est cnt,
  0 < L ->
  (forall i, i < n -> NoDup (sel i) /\ (forall s, In s (sel i) -> s < n * L)) ->
  (forall i s, (0 <= cnt i s <= nsh)%Z) ->
  wf_graph n L nsh (discover_edges n L sel est cnt) = true.
Proof. exact discover_wf. Qed.
Print Assumptions C06_emitted_graph_wellformed.

(* ... in particular with the oCSE selection of C02, for every landscape and visiting order *)
Theorem C06_emitted_graph_wellformed_ocse : forall n L nsh f gF gB init v order est cnt,
  0 < L -> (forall i s, (0 <= cnt i s <= nsh)%Z) ->
  (forall i, Permutation (order i) (fwd (f i) (gF i) (init i) v (n * L))) ->
  wf_graph n L nsh
    (discover_edges n L (fun i => ocse (f i) (gF i) (gB i) (init i) v (n * L) (order i)) est cnt) = true.
Proof. exact discover_wf_ocse. Qed.
Print Assumptions C06_emitted_graph_wellformed_ocse.

(* what well-formed means: endpoints are nodes, integer lag in 1..L, cmi never finite negative,
   p a multiple of 1/n_shuffles in [0,1], no (source, target, lag) triple twice *)
Theorem C06_wellformed_means : forall n L nsh es, wf_graph n L nsh es = true <->
  (forall e, In e es -> e_src e < n /\ e_dst e < n /\ 1 <= e_lag e <= L /\ finite_negative (e_cmi e) = false
                        /\ (0 <= e_count e <= nsh)%Z)
  /\ NoDup (map (fun e => (e_src e, e_dst e, e_lag e)) es).
Proof. exact wf_graph_correct. Qed.
Print Assumptions C06_wellformed_means.

Theorem C06_cmi_never_finite_negative : forall v, finite_negative (floor0 v) = false.
Proof. exact floor0_never_finite_negative. Qed.
Print Assumptions C06_cmi_never_finite_negative.

(* request validation: unsupported names -> NotImplementedError, T <= max_lag + 2 -> ValueError *)
Theorem C06_validation : forall methods infos m i T L,
  (mem m methods = false -> validate methods infos m i T L = NotImplemented) /\
  (mem m methods = true -> mem i infos = false -> validate methods infos m i T L = NotImplemented) /\
  (mem m methods = true -> mem i infos = true -> T <= L + 2 -> validate methods infos m i T L = ValueErr) /\
  (mem m methods = true -> mem i infos = true -> L + 2 < T -> validate methods infos m i T L = Ok).
Proof. exact validate_spec. Qed.
Print Assumptions C06_validation.
