(* C06 -- discovered graph is well-formed; bad requests are rejected. *)
From Coq Require Import List Arith ZArith QArith String Bool Permutation.
From CE Require Import Model.Lagged Model.Dispatch Model.Discover Model.Selection Proofs.DiscoverProofs.
From CE Require Import Model.ShuffleTest Model.Pipeline Proofs.PipelineProofs.
Local Open Scope nat_scope.

(* every graph the model emits is well-formed, whatever the selection oracle returns (as long as it
   returns duplicate-free candidate indices), whatever the estimator values and test counts are *)
Theorem C06_emitted_graph_wellformed : forall n L nsh sel est cnt,
  0 < L ->
  (forall i, i < n -> NoDup (sel i) /\ (forall s, In s (sel i) -> s < n * L)) ->
  (forall i s, (0 <= cnt i s <= nsh)%Z) ->
  wf_graph n L nsh (discover_edges n L sel est cnt) = true.
Proof. exact discover_wf. Qed.
Print Assumptions C06_emitted_graph_wellformed.

(* ... in particular with the oCSE selection of C02, for every landscape and visiting order *)
Theorem C06_emitted_graph_wellformed_ocse : forall n L nsh f gF gB init v order est cnt,
  0 < L -> (forall i s, (0 <= cnt i s <= nsh)%Z) ->
  (forall i, Permutation (order i) (fwd (f i) (gF i) (init i) v (n * L))) ->
  wf_graph n L nsh
    (discover_edges n L (fun i => ocse (f i) (gF i) (gB i) (init i) v (n * L) (order i)) est cnt) = true.
Proof. exact discover_wf_ocse. Qed.
Print Assumptions C06_emitted_graph_wellformed_ocse.

(* what well-formed means: endpoints are nodes, integer lag in 1..L, cmi never finite negative,
   p a multiple of 1/n_shuffles in [0,1], no (source, target, lag) triple twice *)
Theorem C06_wellformed_means : forall n L nsh es, wf_graph n L nsh es = true <->
  (forall e, In e es -> e_src e < n /\ e_dst e < n /\ 1 <= e_lag e <= L /\ finite_negative (e_cmi e) = false
                        /\ (0 <= e_count e <= nsh)%Z)
  /\ NoDup (map (fun e => (e_src e, e_dst e, e_lag e)) es).
Proof. exact wf_graph_correct. Qed.
Print Assumptions C06_wellformed_means.

Theorem C06_cmi_never_finite_negative : forall v, finite_negative (floor0 v) = false.
Proof. exact floor0_never_finite_negative. Qed.
Print Assumptions C06_cmi_never_finite_negative.

(* request validation: unsupported names -> NotImplementedError, T <= max_lag + 2 -> ValueError *)
Theorem C06_validation : forall methods infos m i T L,
  (mem m methods = false -> validate methods infos m i T L = NotImplemented) /\
  (mem m methods = true -> mem i infos = false -> validate methods infos m i T L = NotImplemented) /\
  (mem m methods = true -> mem i infos = true -> T <= L + 2 -> validate methods infos m i T L = ValueErr) /\
  (mem m methods = true -> mem i infos = true -> L + 2 < T -> validate methods infos m i T L = Ok).
Proof. exact validate_spec. Qed.
Print Assumptions C06_validation.

(* ====== end-to-end model of discover_network (Model/Pipeline.v) ===========================================
   discover_model composes Lagged.feature, Selection.ocse, ShuffleTest.shuffle_model, Dispatch.floor0 and
   Discover.discover_edges; its only external inputs are the estimator oracle [cmi] and the surrogate oracle
   [sur] on abstract (variable, lag) column identities, and the visiting order of backward().
   alpha_forward = aF/bF, alpha_backward = aB/bB, estimator values in units of 1/scale.                       *)

(* (i) every graph the end-to-end model emits is well-formed: for every n, max_lag, every oracle pair, both
   variants, both significance levels, every visiting order that enumerates the forward set *)
Theorem C06_pipeline_graph_wellformed : forall n L scale aF bF aB bB cmi sur vr order,
  0 < L ->
  (forall i, Permutation (order i) (fwd (info L cmi i) (gF L aF bF cmi sur i) (init_of L vr i) vr (n * L))) ->
  forall nsh, (forall i x zs, (Z.of_nat (List.length (sur i x zs)) <= nsh)%Z) ->
  wf_graph n L nsh (discover_model n L scale aF bF aB bB cmi sur vr order) = true.
Proof. exact pipeline_wf. Qed.
Print Assumptions C06_pipeline_graph_wellformed.

(* (ii) CHARACTERISATION: an edge u -> w at lag tau is in the graph iff column (u, tau) is among the parents
   selected for w ... *)
Theorem C06_pipeline_edge_iff_selected : forall n L scale aF bF aB bB cmi sur vr order,
  0 < L ->
  (forall i, Permutation (order i) (fwd (info L cmi i) (gF L aF bF cmi sur i) (init_of L vr i) vr (n * L))) ->
  forall u w tau,
  (exists e, In e (discover_model n L scale aF bF aB bB cmi sur vr order) /\ e_src e = u /\ e_dst e = w /\ e_lag e = tau)
  <-> (u < n /\ w < n /\ 1 <= tau <= L /\ In (feature_index L u tau) (parents n L aF bF aB bB cmi sur vr order w)).
Proof. exact edge_iff. Qed.
Print Assumptions C06_pipeline_edge_iff_selected.

(* ... and that parent set is a result the relational oCSE rule of C02 allows (via C02's `model follows the
   rule` theorem) on the landscape  j, Zs |-> max(0, cmi w (label j) (labels Zs))  with the verdicts
   "value > (1-alpha)-percentile of the floored surrogates of that query": edge presence is a statement about
   the two oracles on abstract column sets only *)
Theorem C06_pipeline_selected_follow_ocse_rule : forall n L aF bF aB bB cmi sur vr order,
  (forall i, Permutation (order i) (fwd (info L cmi i) (gF L aF bF cmi sur i) (init_of L vr i) vr (n * L))) ->
  forall w,
  ocse_spec (fun j Zs => Z.max 0 (cmi w (feature L j) (map (feature L) Zs)))
            (fun j Zs => r_pass (shuffle_model aF bF (Z.max 0 (cmi w (feature L j) (map (feature L) Zs)))
                                               (map (Z.max 0) (sur w (feature L j) (map (feature L) Zs)))))
            (fun j Zs => r_pass (shuffle_model aB bB (Z.max 0 (cmi w (feature L j) (map (feature L) Zs)))
                                               (map (Z.max 0) (sur w (feature L j) (map (feature L) Zs)))))
            (match vr with Standard => map (feature_index L w) (seq 1 L) | Alternative => nil end)
            vr (n * L) (parents n L aF bF aB bB cmi sur vr order w).
Proof. exact parents_follow_rule. Qed.
Print Assumptions C06_pipeline_selected_follow_ocse_rule.

(* (iii) the attributes of an edge u -> w at lag tau: cmi = floor0 of the oracle value for X = column (u, tau),
   Y = w now, Z = exactly the other selected parents of w (the C01 meaning of an edge); the p-value numerator is the
   number of that query's surrogates whose (floored) value is >= the (floored) observed value *)
Theorem C06_pipeline_edge_attributes : forall n L scale aF bF aB bB cmi sur vr order,
  0 < L -> forall e, In e (discover_model n L scale aF bF aB bB cmi sur vr order) ->
  let w := e_dst e in let c := feature_index L (e_src e) (e_lag e) in
  let zs := map (feature L) (others (parents n L aF bF aB bB cmi sur vr order w) c) in
  In c (parents n L aF bF aB bB cmi sur vr order w) /\
  (forall k, In k (others (parents n L aF bF aB bB cmi sur vr order w) c)
             <-> In k (parents n L aF bF aB bB cmi sur vr order w) /\ k <> c) /\
  e_cmi e = floor0 (Fin (cmi w (e_src e, e_lag e) zs # scale)) /\
  e_count e = count_ge (Z.max 0 (cmi w (e_src e, e_lag e) zs)) (map (Z.max 0) (sur w (e_src e, e_lag e) zs)).
Proof. exact edge_attributes. Qed.
Print Assumptions C06_pipeline_edge_attributes.

(* on any series those abstract columns are the (X, Y, Z) triple of C01 (Lagged.edge_triple) *)
Theorem C06_pipeline_edge_query_is_C01_triple : forall n L aF bF aB bB cmi sur vr order (V : Type) (d : V) (s : series) w c,
  edge_triple d s L w (parents n L aF bF aB bB cmi sur vr order w) c
  = (x_lagged_col d s L c, y_col d s L w, map (x_lagged_col d s L) (others (parents n L aF bF aB bB cmi sur vr order w) c)).
Proof. exact edge_query_is_edge_triple. Qed.
Print Assumptions C06_pipeline_edge_query_is_C01_triple.

(* (iv) targets are independent: the edges into w only depend on the oracles restricted to target w *)
Theorem C06_pipeline_targets_independent : forall n L scale aF bF aB bB cmi cmi' sur sur' vr order order' w,
  (forall x zs, cmi w x zs = cmi' w x zs) -> (forall x zs, sur w x zs = sur' w x zs) -> order w = order' w ->
  filter (fun e => Nat.eqb (e_dst e) w) (discover_model n L scale aF bF aB bB cmi sur vr order)
  = filter (fun e => Nat.eqb (e_dst e) w) (discover_model n L scale aF bF aB bB cmi' sur' vr order').
Proof. exact targets_independent. Qed.
Print Assumptions C06_pipeline_targets_independent.

(* (v) determinism: equal oracles (and visiting orders) give equal graphs *)
Theorem C06_pipeline_deterministic : forall n L scale aF bF aB bB cmi cmi' sur sur' vr order order',
  (forall i x zs, cmi i x zs = cmi' i x zs) -> (forall i x zs, sur i x zs = sur' i x zs) ->
  (forall i, i < n -> order i = order' i) ->
  discover_model n L scale aF bF aB bB cmi sur vr order = discover_model n L scale aF bF aB bB cmi' sur' vr order'.
Proof. exact model_deterministic. Qed.
Print Assumptions C06_pipeline_deterministic.

(* framing: the graph depends on the oracles only through the entries (is-test, target, X, Z) listed by
   [entries]; a test entry reads the estimator value and the surrogates of its query *)
Theorem C06_pipeline_frame : forall n L scale aF bF aB bB cmi cmi' sur sur' vr order,
  (forall b i x zs, In (b, i, x, zs) (entries n L aF bF aB bB cmi sur vr order) ->
     cmi i x zs = cmi' i x zs /\ (b = true -> sur i x zs = sur' i x zs)) ->
  discover_model n L scale aF bF aB bB cmi sur vr order = discover_model n L scale aF bF aB bB cmi' sur' vr order.
Proof. exact model_frame. Qed.
Print Assumptions C06_pipeline_frame.

(* hence the in-kernel evaluation on the finite tables recorded by the harness speaks about EVERY total oracle that
   answers as the tables do: once every entry the model reads is present (the `covered` test of the correspondence
   check), no unrecorded query can have influenced the result *)
Theorem C06_pipeline_table_evaluation_is_faithful : forall n L scale aF bF aB bB tc ts cmi sur vr order,
  forallb (covered tc ts) (entries n L aF bF aB bB (tbl_cmi tc) (tbl_sur ts) vr order) = true ->
  ((forall i x zs v, find_key tc (i, x, sort_labels zs) = Some v -> cmi i x zs = v) /\
   (forall i x zs v, find_key ts (i, x, sort_labels zs) = Some v -> sur i x zs = v)) ->
  discover_model n L scale aF bF aB bB cmi sur vr order
  = discover_model n L scale aF bF aB bB (tbl_cmi tc) (tbl_sur ts) vr order.
Proof. exact table_evaluation_faithful. Qed.
Print Assumptions C06_pipeline_table_evaluation_is_faithful.

(* LASSO methods: the solver's support (indices of non-zero coefficients, per target) is data *)
Theorem C06_pipeline_lasso_graph_wellformed : forall n L scale aB bB cmi sur support nsh,
  0 < L ->
  (forall i, i < n -> NoDup (support i) /\ (forall s, In s (support i) -> s < n * L)) ->
  (forall i x zs, (Z.of_nat (List.length (sur i x zs)) <= nsh)%Z) ->
  wf_graph n L nsh (discover_model_lasso n L scale aB bB cmi sur support) = true.
Proof. exact lasso_wf. Qed.
Print Assumptions C06_pipeline_lasso_graph_wellformed.

Theorem C06_pipeline_lasso_edge_iff_in_support : forall n L scale aB bB cmi sur support u w tau,
  0 < L -> (forall i, i < n -> forall s, In s (support i) -> s < n * L) ->
  (exists e, In e (discover_model_lasso n L scale aB bB cmi sur support) /\ e_src e = u /\ e_dst e = w /\ e_lag e = tau)
  <-> (u < n /\ w < n /\ 1 <= tau <= L /\ In (feature_index L u tau) (support w)).
Proof. exact lasso_edge_iff. Qed.
Print Assumptions C06_pipeline_lasso_edge_iff_in_support.
