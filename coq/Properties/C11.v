(* C11 -- kNN and KDE estimators compute their documented formulas. *)
From Coq Require Import List ZArith QArith Reals Qreals.
From CE Require Import Model.Itv Model.KnnCounts Model.Kde Proofs.ItvProofs Proofs.KnnProofs Proofs.KdeProofs.
Import ListNotations.
Close Scope Q_scope.

(* the radius (index k of the sorted joint distances, index 0 being the sample itself) is, on every tie-free sample,
   positive, attained by ANOTHER sample, and exactly k-1 other samples are strictly closer: it is the distance to
   the k-th nearest other sample in the joint space (any metric, any N, any dimensions) *)
Theorem C11_radius_is_distance_to_kth_nearest_other_sample : forall m k l1 p l2, let all := l1 ++ p :: l2 in
  NoDup (map (dJ m p) all) -> (1 <= k < length all)%nat ->
  (0 < eps m k all p)%Z /\
  In (eps m k all p) (map (dJ m p) (l1 ++ l2)) /\
  length (filter (fun q => Z.ltb (dJ m p q) (eps m k all p)) (l1 ++ l2)) = (k - 1)%nat.
Proof. exact eps_is_kth_other. Qed.
Print Assumptions C11_radius_is_distance_to_kth_nearest_other_sample.

(* `sum(D < eps) - 1` is the number of OTHER samples strictly inside the radius in the projected space *)
Theorem C11_counts_are_other_samples_strictly_inside : forall m k proj l1 p l2, let all := l1 ++ p :: l2 in
  (0 < eps m k all p)%Z ->
  cnt m k proj all p = Z.of_nat (length (filter (fun q => Z.ltb (dist m (proj p) (proj q)) (eps m k all p)) (l1 ++ l2))).
Proof. exact cnt_excludes_self. Qed.
Print Assumptions C11_counts_are_other_samples_strictly_inside.

(* the exact rational the model returns IS psi(k) + psi(N) - <psi(n_x+1) + psi(n_y+1)>, with psi(n) = H_{n-1} - gamma
   the digamma function at positive integers, for ANY real gamma (it cancels) *)
Theorem C11_knn_mutual_information_is_the_digamma_formula : forall gamma m k all v, knn_mi m k all = Some v ->
  Q2R v = (psi gamma k + psi gamma (length all)
          - Rsum (map (fun p => psi gamma (S (Z.to_nat (cnt m k sx all p))) + psi gamma (S (Z.to_nat (cnt m k sy all p)))) all)
            / INR (length all))%R.
Proof. exact knn_mi_formula. Qed.
Print Assumptions C11_knn_mutual_information_is_the_digamma_formula.

Theorem C11_knn_conditional_information_is_the_digamma_formula : forall gamma m k all v, knn_cmi m k all = Some v ->
  Q2R v = (psi gamma k
          - Rsum (map (fun p => psi gamma (S (Z.to_nat (cnt m k pxz all p))) + psi gamma (S (Z.to_nat (cnt m k pyz all p)))
                                - psi gamma (S (Z.to_nat (cnt m k sz all p)))) all)
            / INR (length all))%R.
Proof. exact knn_cmi_formula. Qed.
Print Assumptions C11_knn_conditional_information_is_the_digamma_formula.

(* the expression the interval layer evaluates means exactly: minus the mean log of the Gaussian-kernel density
   estimate 1/(N (2 pi)^(d/2) h^d) sum_q exp(-|p-q|^2/(2h^2)) at the samples themselves, h given by the bandwidth rule *)
Theorem C11_kde_entropy_is_minus_mean_log_density : forall b D pts, D <> 0%Z -> pts <> [] ->
  (0 < bandwidth_spec b (INR (length pts)) (INR (length (hd [] pts))))%R ->
  evalR [] (kde_entropy_expr b D pts) =
  kde_entropy_spec (bandwidth_spec b (INR (length pts)) (INR (length (hd [] pts)))) (IZR D) pts.
Proof. exact kde_entropy_expr_spec. Qed.
Print Assumptions C11_kde_entropy_is_minus_mean_log_density.

Theorem C11_kde_mutual_information_is_signed_entropy_sum : forall b D all, evalR [] (kde_mi_expr b D all) =
  (evalR [] (kde_entropy_expr b D (map sx all)) + evalR [] (kde_entropy_expr b D (map sy all))
  - evalR [] (kde_entropy_expr b D (map (fun s => sx s ++ sy s) all)))%R.
Proof. exact kde_mi_expr_def. Qed.
Print Assumptions C11_kde_mutual_information_is_signed_entropy_sum.

Theorem C11_kde_conditional_information_is_signed_entropy_sum : forall b D all, evalR [] (kde_cmi_expr b D all) =
  (evalR [] (kde_entropy_expr b D (map pxz all)) + evalR [] (kde_entropy_expr b D (map pyz all))
  - evalR [] (kde_entropy_expr b D (map pj all)) - evalR [] (kde_entropy_expr b D (map sz all)))%R.
Proof. exact kde_cmi_expr_def. Qed.
Print Assumptions C11_kde_conditional_information_is_signed_entropy_sum.

(* a successful in-kernel check certifies |model - returned value| <= tolerance over the reals *)
Theorem C11_enclosure_check_is_sound : forall a b tol, close_check a b tol = true ->
  (Rabs (evalR [] a - evalR [] b) <= evalR [] tol)%R.
Proof. exact close_sound. Qed.
Print Assumptions C11_enclosure_check_is_sound.
