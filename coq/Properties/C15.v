(* C15 -- tabular export lists each edge exactly once with unchanged attributes. *)
From Coq Require Import List Arith ZArith QArith String Bool.
From CE Require Import Model.Export Proofs.ExportProofs.
Import ListNotations.

Theorem C15_one_row_per_edge_in_edge_order_with_its_attributes : forall chain order meta es,
  let '(cols, rows) := to_frame chain order meta es in
  List.length rows = List.length es /\
  (forall i e, nth_error es i = Some e ->
     exists row, nth_error rows i = Some row /\
       firstn 5 row = [CLabel (n_u e); CLabel (n_v e); match n_lag e with Some z => CInt z | None => CInt 0 end;
                       opt_cell CNum (n_cmi e); opt_cell CNum (n_p e)]).
Proof. exact rows_in_edge_order. Qed.
Print Assumptions C15_one_row_per_edge_in_edge_order_with_its_attributes.

Theorem C15_edgeless_graph_gives_base_columns : forall chain order meta, to_frame chain order meta [] = (base_cols, []).
Proof. exact empty_graph_frame. Qed.
Print Assumptions C15_edgeless_graph_gives_base_columns.

(* all 2^9 subsets of metadata arguments (the bound 9 is the function's arity) *)
Theorem C15_every_metadata_subset_gives_documented_columns : forall m : list bool, List.length m = 9 ->
  frame_eqb (to_frame chain_order metadata_order (meta_of_mask m) probe_edges) (spec_frame (meta_of_mask m) probe_edges) = true.
Proof. exact every_metadata_subset. Qed.
Print Assumptions C15_every_metadata_subset_gives_documented_columns.

Theorem C15_pcmci_symmetric_link_listed_once : forall es, NoDup (map row_key (sym_rows (pcmci_rows es))).
Proof. exact symmetric_link_listed_once. Qed.
Print Assumptions C15_pcmci_symmetric_link_listed_once.

Theorem C15_pcmci_symmetric_link_represented : forall es e, In e es -> symmetric (p_type e) = true ->
  In (canon e) (map row_key (pcmci_rows es)).
Proof. exact symmetric_link_represented. Qed.
Print Assumptions C15_pcmci_symmetric_link_represented.

Theorem C15_pcmci_oriented_links_one_row_each_in_order : forall es seen,
  filter (fun r => negb (symmetric (r_type r))) (prows seen es)
  = map (fun e => mkrow (p_u e) (p_v e) e) (filter (fun e => negb (symmetric (p_type e))) es).
Proof. exact directed_rows_in_edge_order. Qed.
Print Assumptions C15_pcmci_oriented_links_one_row_each_in_order.

Theorem C15_pcmci_row_attributes_unchanged : forall s t e,
  r_lag (mkrow s t e) = p_lag e /\ r_val (mkrow s t e) = p_val e /\ r_p (mkrow s t e) = p_p e
  /\ r_type (mkrow s t e) = p_type e /\ r_sig (mkrow s t e) = p_sig e.
Proof. exact row_attributes_unchanged. Qed.
Print Assumptions C15_pcmci_row_attributes_unchanged.
