(* C16 -- lag subnetworks partition the edges; companion matrix has VAR block form. *)
From Coq Require Import List Arith ZArith QArith Permutation.
From CE Require Import Model.LagNet Proofs.LagNetProofs Proofs.LagNetExtra.
Local Open Scope nat_scope.

Theorem C16_subnetwork_has_exactly_the_lag_k_edges : forall k es e, In e (subnet k es) <-> In e es /\ lag e = k.
Proof. exact subnet_exact. Qed.
Print Assumptions C16_subnetwork_has_exactly_the_lag_k_edges.

(* edges are records that include cmi and p-value, so "In e" carries the attributes unchanged *)
Theorem C16_subnetworks_partition_the_edges : forall es K, (forall e, In e es -> lag e <= K) ->
  Permutation es (flat_map (fun k => subnet k es) (seq 0 (S K))).
Proof. exact subnets_partition. Qed.
Print Assumptions C16_subnetworks_partition_the_edges.

Theorem C16_subnetworks_are_disjoint : forall k1 k2 es e, k1 <> k2 -> In e (subnet k1 es) -> ~ In e (subnet k2 es).
Proof. exact subnets_disjoint. Qed.
Print Assumptions C16_subnetworks_are_disjoint.

Theorem C16_companion_every_entry : forall n es r c, 0 < n -> r < n * max_lag es -> c < n * max_lag es ->
  nth c (nth r (companion n es) nil) 0%Z = entry_spec n es r c.
Proof. exact companion_entry. Qed.
Print Assumptions C16_companion_every_entry.

Theorem C16_companion_shape : forall n es, 0 < max_lag es -> 0 < n ->
  length (companion n es) = n * max_lag es /\ Forall (fun row => length row = n * max_lag es) (companion n es).
Proof. exact companion_shape. Qed.
Print Assumptions C16_companion_shape.

Theorem C16_companion_empty_without_positive_lag : forall n es, max_lag es = 0 -> companion n es = nil.
Proof. exact companion_empty. Qed.
Print Assumptions C16_companion_empty_without_positive_lag.

Theorem C16_lag0_edges_do_not_enter : forall n e es r c, lag e = 0 -> entry_spec n (e :: es) r c = entry_spec n es r c.
Proof. exact lag0_ignored. Qed.
Print Assumptions C16_lag0_edges_do_not_enter.

(* consequences of the partition, for every edge list: the edge counts of the subnetworks add up
   to the edge count of the network; taking the lag-k subnetwork twice changes nothing and the
   lag-k1 subnetwork of a lag-k2 subnetwork is empty; unique edges stay unique. *)
Theorem C16_subnetwork_edge_counts_add_up : forall es K, (forall e, In e es -> lag e <= K) ->
  length es = fold_right (fun k s => length (subnet k es) + s) 0 (seq 0 (S K)).
Proof. exact subnet_counts_add_up. Qed.
Print Assumptions C16_subnetwork_edge_counts_add_up.

Theorem C16_subnetwork_idempotent : forall k es, subnet k (subnet k es) = subnet k es.
Proof. exact subnet_idempotent. Qed.
Print Assumptions C16_subnetwork_idempotent.

Theorem C16_subnetwork_of_other_lag_is_empty : forall k1 k2 es, k1 <> k2 -> subnet k1 (subnet k2 es) = nil.
Proof. exact subnet_of_other_lag_empty. Qed.
Print Assumptions C16_subnetwork_of_other_lag_is_empty.

Theorem C16_subnetwork_keeps_edges_unique : forall k es, NoDup es -> NoDup (subnet k es).
Proof. exact subnet_NoDup. Qed.
Print Assumptions C16_subnetwork_keeps_edges_unique.
