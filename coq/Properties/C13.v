(* C13 -- Poisson entropy is the true Poisson entropy, element by element (partial). *)
From Coq Require Import List Arith ZArith QArith Bool Reals.
From CE Require Import Model.Poisson Model.Itv Proofs.PoissonProofs Proofs.ItvProofs Proofs.PoissonTail Proofs.PoissonSeries.
Import ListNotations.

(* the vector call never stops before the scalar call of any of its elements would have stopped, for every
   pmf table with values <= 1, every pattern of float partial sums, every vector: each element receives at
   least every term its own scalar call sums *)
Theorem C13_vector_call_sums_at_least_each_elements_terms : forall left prob lam,
  (forall j i, (prob j i <= 1)%Q) ->
  forall els j fuel, In j els ->
  (terms left prob lam MaxRule [j] fuel <= terms left prob lam MaxRule els fuel)%nat.
Proof. exact maxrule_dominates. Qed.
Print Assumptions C13_vector_call_sums_at_least_each_elements_terms.

(* the pre-fix MIN rule let the smallest rate stop the series of the largest: finding F2 *)
Theorem C13_pinned_min_rule_refuted :
  terms wl wp wlam MinRule [0; 1]%nat 100 = 6%nat /\ terms wl wp wlam MinRule [1]%nat 100 = 31%nat /\
  terms wl wp wlam MaxRule [0; 1]%nat 100 = 31%nat.
Proof. exact minrule_refuted. Qed.
Print Assumptions C13_pinned_min_rule_refuted.

Theorem C13_zero_rate_sums_only_the_first_term : forall prob lam ru els fuel,
  terms (fun _ _ => false) prob lam ru els fuel = 1%nat.
Proof. exact zero_rate_no_terms. Qed.
Print Assumptions C13_zero_rate_sums_only_the_first_term.

(* joint entropy = marginal entropies of the |diagonal| rates + strictly upper triangle (column > row) *)
Theorem C13_joint_entropy_structure : forall h C,
  joint_entropy h C = (qsum (map (fun x => h (Qabs' x)) (diag C)) + qsum (map qsum (triu1 C)))%Q.
Proof. exact joint_entropy_def. Qed.
Print Assumptions C13_joint_entropy_structure.

Theorem C13_upper_triangle_is_column_gt_row : forall C i j, (i < length C)%nat -> (j < length (nth i C []))%nat ->
  nth j (nth i (triu1 C) []) 0%Q = if Nat.ltb i j then ent C i j else 0%Q.
Proof. exact triu1_row_nth. Qed.
Print Assumptions C13_upper_triangle_is_column_gt_row.

(* a successful in-kernel check certifies |truncated entropy - implementation value| <= tolerance in R *)
Theorem C13_enclosure_check_is_sound : forall a b tol, close_check a b tol = true ->
  (Rabs (evalR [] a - evalR [] b) <= evalR [] tol)%R.
Proof. exact close_sound. Qed.
Print Assumptions C13_enclosure_check_is_sound.

(* the expression evaluated by the interval layer IS the partial sum - sum_{k<=K} p_k ln p_k of the Poisson(lambda) law *)
Theorem C13_truncated_series_expression_meaning : forall K lamE lam, evalR [] lamE = lam -> (0 < lam)%R ->
  evalR [] (entropy_trunc_expr K lamE) = partial_entropy lam K.
Proof. exact entropy_trunc_meaning. Qed.
Print Assumptions C13_truncated_series_expression_meaning.

(* every finite piece of the tail beyond a tiny term is tiny: with 2 lambda <= K+1 and p_K <= delta <= 1/e,
   sum_{j=1..M} -p_{K+j} ln p_{K+j} <= delta (-ln delta + 2 ln 2) for EVERY M *)
Theorem C13_tail_of_the_entropy_series_is_bounded : forall lam K delta M, (0 < lam)%R -> (2 * lam <= INR (S K))%R ->
  (pk lam K <= delta)%R -> (delta <= exp (-1))%R ->
  (sumR (fun j => hx (pk lam (K + j))) M <= delta * (- ln delta + 2 * ln 2))%R.
Proof. exact tail_bound. Qed.
Print Assumptions C13_tail_of_the_entropy_series_is_bounded.

(* a successful complete check certifies that EVERY partial sum from K on -- hence the Poisson entropy itself -- is within
   1e-9 of the returned value *)
Theorem C13_complete_accuracy_certificate : forall ln_ ld K vn vd, check_entropy_full_case (ln_, ld, K, vn, vd) = true ->
  let lam := (IZR ln_ / IZR ld)%R in let v := (IZR vn / IZR vd)%R in
  (0 < lam)%R /\ forall M, (Rabs (partial_entropy lam (K + M) - v) <= / 10 ^ 9)%R.
Proof. exact entropy_full_sound. Qed.
Print Assumptions C13_complete_accuracy_certificate.
