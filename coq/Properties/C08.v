(* C08 -- Gaussian estimator equals the closed-form partial-covariance information (partial). *)
From Coq Require Import List Arith ZArith QArith Bool Reals.
From CE Require Import Model.Gauss Model.Itv Proofs.ItvProofs.
Import ListNotations.

Theorem C08_enclosure_check_is_sound : forall a b tol, close_check a b tol = true ->
  (Rabs (evalR [] a - evalR [] b) <= evalR [] tol)%R.
Proof. exact close_sound. Qed.
Print Assumptions C08_enclosure_check_is_sound.
