(* C08 -- Gaussian estimator equals the closed-form partial-covariance information (partial).
   Model/Gauss.v: D = list of sample rows over Q (every float is a rational), X, Y, Z = lists of column indices
   (Z absent = []).  ratio_corr = the code's form (correlation determinants with its 0/1-column shortcuts),
   ratio_det = the same on scatter/covariance matrices, ratio_res = det S(X|Z) det S(Y|Z) / det S(XY|Z) from
   least-squares residual vectors, ratio_seq = the same factor by factor (sequential regressions); the estimate is
   cmi = 1/2 ln ratio  (cmi_expr, meaning evalR in R).
   The general-dimension identity  determinant form = residual forms  is in Properties/C08Mx.v: for mathcomp matrices
   and, through LinAlgBridge.v / GaussBridge.v / GaussResidBridge.v, for THIS list model. *)
From Coq Require Import List Arith ZArith QArith Bool Reals Permutation.
From CE Require Import Model.Itv Model.Gauss Proofs.GaussProofs Proofs.GaussRealProofs.
Import ListNotations.

(* the code's correlation-matrix form equals the covariance (scatter) determinant form: the diagonal scaling cancels,
   including the 0-column and 1-column shortcuts of correlation_log_determinant (no constant column) *)
Theorem C08_correlation_form_equals_covariance_form : forall D ix iy iz q,
  Forall (fun i => ~ sc D i i == 0)%Q (ix ++ iy ++ iz) ->
  ratio_det D ix iy iz = Some q -> ratio_corr D ix iy iz = Some q.
Proof. exact ratio_scale_free. Qed.
Print Assumptions C08_correlation_form_equals_covariance_form.

(* the code's literal value, half the signed sum of four log-determinants, is 1/2 ln of that ratio *)
Theorem C08_sum_of_log_determinants_is_half_log_ratio : forall a b c d q,
  (0 < a)%Q -> (0 < b)%Q -> (0 < c)%Q -> (0 < d)%Q -> (q == a * b / (c * d))%Q ->
  evalR [] (cmi_code_expr a b c d) = evalR [] (cmi_expr q).
Proof. exact cmi_code_form. Qed.
Print Assumptions C08_sum_of_log_determinants_is_half_log_ratio.

(* scalar X and Y, Z absent: ratio = 1/(1 - r^2), I = -1/2 ln(1 - r^2), r^2 = s_xy^2 / (s_xx s_yy) the squared
   sample correlation *)
Theorem C08_scalar_no_Z_is_minus_half_log_one_minus_r2 : forall D i j q, ratio_det D [i] [j] [] = Some q ->
  (q * (sc D i i * sc D j j - sc D i j * sc D i j) == sc D i i * sc D j j)%Q /\ (~ sc D i i * sc D j j == 0)%Q /\
  evalR [] (cmi_expr q) = (- / 2 * ln (Q2R (1 - sc D i j * sc D i j / (sc D i i * sc D j j))))%R.
Proof. exact scalar_no_Z_bundle. Qed.
Print Assumptions C08_scalar_no_Z_is_minus_half_log_one_minus_r2.

(* scalar X and Y, ANY conditioning set: the residual form is -1/2 ln(1 - r^2) with r the sample PARTIAL correlation
   (correlation of the least-squares residuals of X and of Y on (1, Z)); ratio >= 1 and I >= 0 (Cauchy-Schwarz) *)
Theorem C08_scalar_is_partial_correlation_form_and_nonnegative : forall D i j iz q, ratio_res D [i] [j] iz = Some q ->
  let rx := resid (zbasis D iz) (col D i) in let ry := resid (zbasis D iz) (col D j) in
  (q * (dot rx rx * dot ry ry - dot rx ry * dot rx ry) == dot rx rx * dot ry ry)%Q /\ (~ dot rx rx * dot ry ry == 0)%Q /\
  (1 <= q)%Q /\
  evalR [] (cmi_expr q) = (- / 2 * ln (Q2R (1 - dot rx ry * dot rx ry / (dot rx rx * dot ry ry))))%R /\
  (0 <= evalR [] (cmi_expr q))%R.
Proof. exact scalar_partial_bundle. Qed.
Print Assumptions C08_scalar_is_partial_correlation_form_and_nonnegative.

(* the vectors the residual forms are built from ARE least-squares residuals on (1, Z), for every sample and every Z:
   they satisfy the normal equations (orthogonal to the constant vector and to every Z column) and differ from the
   column only inside span(1, Z) (same inner product with every vector orthogonal to the basis of that span) *)
Theorem C08_residuals_are_least_squares_residuals : forall D iz i, let r := resid (zbasis D iz) (col D i) in
  (dot (ones D) r == 0)%Q /\ Forall (fun k => dot (col D k) r == 0)%Q iz /\
  forall u, length u = length D -> Forall (fun b => dot b u == 0)%Q (zbasis D iz) -> (dot r u == dot (col D i) u)%Q.
Proof. exact residual_ls_bundle. Qed.
Print Assumptions C08_residuals_are_least_squares_residuals.

(* non-negativity for ALL block sizes k_x, k_y >= 1, k_z >= 0: on the sequential least-squares residual form
   prod_j |res(y_j | 1,Z,y_<j)|^2 / |res(y_j | 1,Z,y_<j,X)|^2 every factor is >= 1 because an extra regressor can
   only shrink a residual norm.  (That this form equals the code's determinant form is now PROVED for the list model,
   every sample and block size: Properties/C08Mx.v, C08_determinant_form_equals_both_residual_forms_on_lists and
   C08_nonnegative_in_every_dimension_on_the_determinant_form; it is also checked in Q on samples inside Coq.) *)
Theorem C08_nonnegative_in_every_dimension_on_sequential_residual_form : forall D ix iy iz q,
  ratio_seq D ix iy iz = Some q -> (1 <= q)%Q /\ (0 <= evalR [] (cmi_expr q))%R.
Proof. exact cmi_seq_nonneg. Qed.
Print Assumptions C08_nonnegative_in_every_dimension_on_sequential_residual_form.

(* invariance to affine rescaling a * column + b (a <> 0) of ANY column, for the code's form and the covariance form *)
Theorem C08_invariant_under_affine_rescaling_of_any_column : forall c a b D ix iy iz,
  (~ a == 0)%Q -> Forall (fun r => (c < length r)%nat) D ->
  ratio_corr (rescale_col c a b D) ix iy iz = ratio_corr D ix iy iz /\
  ratio_det (rescale_col c a b D) ix iy iz = ratio_det D ix iy iz.
Proof. exact affine_bundle. Qed.
Print Assumptions C08_invariant_under_affine_rescaling_of_any_column.

(* the order of the samples is irrelevant (also used by C10) *)
Theorem C08_row_perm_invariant : forall D D' ix iy iz, Permutation D D' ->
  ratio_det D ix iy iz = ratio_det D' ix iy iz /\ ratio_corr D ix iy iz = ratio_corr D' ix iy iz.
Proof. exact row_perm_bundle. Qed.
Print Assumptions C08_row_perm_invariant.

(* chain rule I(X; Y,Z) = I(X; Z) + I(X; Y | Z): whenever the two right-hand terms are defined so is the left one,
   the ratios multiply and the informations add *)
Theorem C08_chain_rule : forall D ix iy iz q2 q3,
  ratio_det D ix iz [] = Some q2 -> ratio_det D ix iy iz = Some q3 ->
  exists q1, ratio_det D ix (iy ++ iz) [] = Some q1 /\ (q1 == q2 * q3)%Q /\
             ((0 < q2)%Q -> (0 < q3)%Q ->
              evalR [] (cmi_expr q1) = (evalR [] (cmi_expr q2) + evalR [] (cmi_expr q3))%R).
Proof. exact chain_rule_bundle. Qed.
Print Assumptions C08_chain_rule.

(* X/Y symmetry: scalar case outright; general blocks reduce to the invariance of the joint determinant under the
   simultaneous row/column permutation (Properties/C08Mx.v: C08_swap_xy, any field).
   FULL statement: forall D ix iy iz, ratio_det D ix iy iz = ratio_det D iy ix iz  -- proved for the list model in
   Properties/C08Mx.v (C08_symmetric_in_X_and_Y_on_lists, through the list <-> 'M[rat] refinement of LinAlgBridge.v). *)
Theorem C08_scalar_symmetric_in_X_and_Y : forall D i j, ratio_det D [i] [j] [] = ratio_det D [j] [i] [].
Proof. exact ratio_det_scalar_symmetric. Qed.
Print Assumptions C08_scalar_symmetric_in_X_and_Y.

Theorem C08_symmetric_in_X_and_Y_partial : forall D ix iy iz,
  det_idx D (ix ++ iy ++ iz) = det_idx D (iy ++ ix ++ iz) -> ratio_det D ix iy iz = ratio_det D iy ix iz.
Proof. exact ratio_det_swap_partial. Qed.
Print Assumptions C08_symmetric_in_X_and_Y_partial.

(* Gaussian elimination commutes with diagonal scaling (the engine behind the invariance theorems) *)
Theorem C08_pivots_of_a_diagonally_scaled_matrix : forall n s t G G', length s = n -> length t = n ->
  Forall (fun x => ~ x == 0)%Q s -> Forall (fun x => ~ x == 0)%Q t -> mscaled s t G G' ->
  opt_rel (pscaled s t) (pivots n G) (pivots n G').
Proof. exact pivots_scaled. Qed.
Print Assumptions C08_pivots_of_a_diagonally_scaled_matrix.

(* the scatter entry the model computes is the centred sum of products *)
Theorem C08_scatter_entry_is_centred_sum : forall D i j, D <> [] -> (sc D i j == sc_centred D i j)%Q.
Proof. exact sc_is_centred. Qed.
Print Assumptions C08_scatter_entry_is_centred_sum.

(* a successful in-kernel check certifies |1/2 ln q - returned value| <= tolerance over the reals *)
Theorem C08_enclosure_check_is_sound : forall q vn vd tn td, close_check (cmi_expr q) (EQ vn vd) (EQ tn td) = true ->
  (Rabs (/ 2 * ln (Q2R q) - IZR vn / IZR vd) <= IZR tn / IZR td)%R.
Proof. exact cmi_enclosure_sound. Qed.
Print Assumptions C08_enclosure_check_is_sound.
