(* C02 -- edge selection follows the oCSE forward/backward rule on every landscape. *)
From Coq Require Import List Arith ZArith Permutation.
From CE Require Import Model.Selection Model.Lagged Proofs.SelectionProofs Proofs.LaggedProofs.

(* For EVERY information landscape f, every verdict pattern gF/gB, every initial conditioning set,
   both variants, every number of candidates and every visiting order that enumerates the forward
   set, the model's result is one the relational oCSE rule allows. *)
Theorem C02_model_follows_ocse_rule : forall f gF gB init v n order,
  Permutation order (fwd f gF init v n) ->
  ocse_spec f gF gB init v n (ocse f gF gB init v n order).
Proof. exact ocse_in_spec. Qed.
Print Assumptions C02_model_follows_ocse_rule.

Theorem C02_standard_forward_follows_rule : forall f gF init fuel cands S,
  length cands <= fuel -> std_rule f gF init cands S (std_fwd f gF init fuel cands S).
Proof. exact std_fwd_sound. Qed.
Print Assumptions C02_standard_forward_follows_rule.

Theorem C02_alternative_forward_follows_rule : forall f gF init fuel cands S,
  length cands <= fuel -> alt_rule f gF init cands S (alt_fwd f gF init fuel cands S).
Proof. exact alt_fwd_sound. Qed.
Print Assumptions C02_alternative_forward_follows_rule.

Theorem C02_backward_follows_rule_for_every_order : forall gB order todo S,
  NoDup todo -> Permutation order todo -> bwd_rule gB todo S (bwd gB order S).
Proof. exact (fun gB => bwd_sound (fun _ _ => 0%Z) (fun _ _ => true) gB nil). Qed.
Print Assumptions C02_backward_follows_rule_for_every_order.

(* whatever the rule allows is a duplicate-free subset of the candidates ... *)
Theorem C02_rule_results_are_duplicate_free_candidates : forall f gF gB init v n R,
  ocse_spec f gF gB init v n R -> NoDup R /\ incl R (seq 0 n).
Proof. exact spec_result_wellformed. Qed.
Print Assumptions C02_rule_results_are_duplicate_free_candidates.

(* ... and the labelling c |-> (variable, lag) is injective with lag in 1..L, so each survivor
   yields exactly one edge labelled with its variable and lag *)
Theorem C02_label_in_range : forall n L c, 0 < L -> c < n * L ->
  fst (feature L c) < n /\ 1 <= snd (feature L c) <= L.
Proof. exact feature_range. Qed.
Print Assumptions C02_label_in_range.

Theorem C02_label_injective : forall L c1 c2, 0 < L -> feature L c1 = feature L c2 -> c1 = c2.
Proof. exact feature_injective. Qed.
Print Assumptions C02_label_injective.

Theorem C02_label_list_is_feature : forall n L c, 0 < L -> c < n * L ->
  nth c (feature_names n L) (0, 0) = feature L c.
Proof. exact feature_names_nth. Qed.
Print Assumptions C02_label_list_is_feature.
