(* C05 -- a strong planted lagged dependence is recovered with its direction and lag (partial: the hypotheses
   "the planted candidate passes / dominates" are statements about estimators on random data and are measured). *)
From Coq Require Import List Arith ZArith.
From CE Require Import Model.Selection Model.Lagged Model.Recovery Proofs.RecoveryProofs.
Import ListNotations.

(* standard oCSE: every candidate is tested at some point; one that passes its forward test whatever has been
   accepted before it, and its backward re-test whatever the other survivors are, is in the result -- for every
   landscape, every number of candidates, every backward visiting order *)
Theorem C05_standard_variant_recovers_a_passing_candidate : forall f gF gB init n c order, c < n ->
  (forall S, gF c (init ++ S) = true) -> (forall Zc, gB c Zc = true) ->
  In c (ocse f gF gB init Standard n order).
Proof. exact std_recovers. Qed.
Print Assumptions C05_standard_variant_recovers_a_passing_candidate.

(* alternative oCSE: the strictly most informative candidate is tested first; if it passes and survives pruning
   it is in the result *)
Theorem C05_alternative_variant_recovers_the_dominant_candidate : forall f gF gB init n c order, c < n ->
  (forall j, j < n -> j <> c -> (f j (init ++ []) < f c (init ++ []))%Z) ->
  gF c (init ++ []) = true -> (forall Zc, gB c Zc = true) ->
  In c (ocse f gF gB init Alternative n order).
Proof. exact alt_recovers. Qed.
Print Assumptions C05_alternative_variant_recovers_the_dominant_candidate.

(* LASSO variants: exactly the predictors with a non-zero coefficient are selected *)
Theorem C05_lasso_selects_nonzero_coefficients : forall coef n c, c < n -> coef c <> 0%Z -> In c (lasso_sel coef n).
Proof. exact lasso_recovers. Qed.
Print Assumptions C05_lasso_selects_nonzero_coefficients.

Theorem C05_lasso_selects_only_nonzero_coefficients : forall coef n c, In c (lasso_sel coef n) -> c < n /\ coef c <> 0%Z.
Proof. exact lasso_only_nonzero. Qed.
Print Assumptions C05_lasso_selects_only_nonzero_coefficients.

(* every placement: the column of X_u delayed by tau is a candidate and is reported as the edge u -> v with lag
   EXACTLY tau (any n, max_lag, u, tau <= max_lag); no other column can carry that label *)
Theorem C05_planted_column_is_labelled_with_exact_source_and_lag : forall n L u tau, u < n -> 1 <= tau <= L ->
  feature_index L u tau < n * L /\ feature L (feature_index L u tau) = (u, tau).
Proof. exact planted_label_exact. Qed.
Print Assumptions C05_planted_column_is_labelled_with_exact_source_and_lag.

Theorem C05_only_the_planted_column_gets_that_label : forall L c u tau, 0 < L -> 1 <= tau <= L ->
  feature L c = (u, tau) -> c = feature_index L u tau.
Proof. exact planted_label_unique. Qed.
Print Assumptions C05_only_the_planted_column_gets_that_label.
