(* C18 -- synthetic generators emit data that their returned ground truth explains (partial). *)
From Coq Require Import List QArith.
From CE Require Import Model.Generators Proofs.GeneratorsProofs.
Import ListNotations.
Open Scope Q_scope.

(* the series has shape (T, n): T rows, each of n entries, for every n, T, A, eps and noise *)
Theorem C18_linear_series_has_shape_T_n : forall A eps n noise, length A = n -> Forall (fun w => length w = n) noise ->
  length (lin_series A eps noise) = length noise /\ Forall (fun x => length x = n) (lin_series A eps noise).
Proof. exact shape_T_n. Qed.
Print Assumptions C18_linear_series_has_shape_T_n.

(* row 0 is eps * w_0 and X_t - A X_{t-1} is eps * w_t for every later row: the returned A explains the series *)
Theorem C18_residual_is_eps_times_noise : forall A eps n noise, length A = n -> Forall (fun w => length w = n) noise ->
  let X := lin_series A eps noise in
  (noise <> [] -> nth 0 X [] = vscale eps (nth 0 noise [])) /\
  forall t, (S t < length noise)%nat ->
    veq (vsub (nth (S t) X []) (mulmv A (nth t X []))) (vscale eps (nth (S t) noise [])).
Proof. exact residual_is_noise. Qed.
Print Assumptions C18_residual_is_eps_times_noise.

(* conversely, a (T, n) series whose residuals under A are eps * noise is the generated series: (A, eps, noise) determine the data *)
Theorem C18_ground_truth_determines_series : forall A eps n noise X, length A = n -> Forall (fun x => length x = n) X ->
  meq (residuals A X) (map (vscale eps) noise) -> meq X (lin_series A eps noise).
Proof. exact explains_unique. Qed.
Print Assumptions C18_ground_truth_determines_series.

(* the series is exactly linear in epsilon: same seed (same noise), epsilon scaled by c => every value scaled by c *)
Theorem C18_series_exactly_linear_in_epsilon : forall A c eps noise,
  meq (lin_series A (c * eps) noise) (map (vscale c) (lin_series A eps noise)).
Proof. exact linear_in_eps. Qed.
Print Assumptions C18_series_exactly_linear_in_epsilon.

(* the returned A = s * (adjacency^T o weights) is supported on the TRANSPOSED graph: A[i][j] <> 0 only if j -> i is an edge *)
Theorem C18_matrix_supported_on_transposed_graph : forall n adj R rho m i j, (i < n)%nat -> (j < n)%nat ->
  ~ get (build_A n adj R rho m) i j == 0 -> ~ get adj j i == 0.
Proof. exact support_transposed. Qed.
Print Assumptions C18_matrix_supported_on_transposed_graph.

(* the executable support test used on the implementation's matrices means exactly that *)
Theorem C18_support_test_is_the_support_statement : forall n adj A, support_ok n adj A = true <->
  forall i j, (i < n)%nat -> (j < n)%nat -> ~ get A i j == 0 -> ~ get adj j i == 0.
Proof. exact support_ok_spec. Qed.
Print Assumptions C18_support_test_is_the_support_statement.

(* PARTIAL.  Full statement: "the spectral radius of the returned A is rho, and 0 when the graph is acyclic".
   Eigenvalues are not modelled; proved for ANY function sr obeying the scaling law sr(s M) = s sr(M) (s >= 0), with the
   radius the code measured as input: normalisation yields radius rho when that radius exceeds 1e-12 and 0 when it is 0.
   Missing: that numpy's eigvals computes the spectral radius, and that an acyclic support gives radius 0 (both tied numerically). *)
Theorem C18_spectral_radius_is_rho_partial : forall sr : mat -> Q,
  (forall s M, 0 <= s -> sr (mscale s M) == s * sr M) ->
  forall n adj R rho, 0 <= rho ->
    let M := hadamard n (transpose n adj) R in
    (radius_floor < sr M -> sr (build_A n adj R rho (sr M)) == rho) /\
    (sr M == 0 -> sr (build_A n adj R rho (sr M)) == 0).
Proof. exact radius_is_rho. Qed.
Print Assumptions C18_spectral_radius_is_rho_partial.

(* Poisson network: the rate attached to node i at time t+1 is max(0.1, base + c * sum_j A[j][i] X[t][j]) for all n, T, t, i *)
Theorem C18_poisson_rate_is_documented_conditional_mean : forall n A base c X t i,
  (S t < length X)%nat -> (i < n)%nat -> length A = n -> length (nth t X []) = n ->
  nth i (nth t (poisson_rates n A base c X) []) 0 ==
  Qmax' (1 # 10) (base + c * sumf n (fun j => get A j i * nth j (nth t X []) 0)).
Proof. exact rates_def. Qed.
Print Assumptions C18_poisson_rate_is_documented_conditional_mean.

(* every rate is >= 0.1 (a valid Poisson mean); the floor is inactive for base >= 0.1, coupling >= 0, non-negative A and counts *)
Theorem C18_poisson_rate_floor : forall A base c x i, (1 # 10 <= rate A base c x i) /\
  (1 # 10 <= base -> 0 <= c -> Forall (fun q => 0 <= q) (col i A) -> Forall (fun q => 0 <= q) x ->
   rate A base c x i == base + c * dot (col i A) x).
Proof. exact rate_floor_facts. Qed.
Print Assumptions C18_poisson_rate_floor.

(* the evaluator with reduced fractions that the correspondence runs computes the same series as the specified recursion *)
Theorem C18_executed_model_is_the_specified_model : forall A eps noise, meq (lin_series_red A eps noise) (lin_series A eps noise).
Proof. exact lin_series_red_eq. Qed.
Print Assumptions C18_executed_model_is_the_specified_model.
