(* C18 -- synthetic generators emit data that their returned ground truth explains (partial). *)
From Coq Require Import List QArith.
From CE Require Import Model.Generators Proofs.GeneratorsProofs Proofs.GeneratorsDag.
Import ListNotations.
Open Scope Q_scope.

(* the series has shape (T, n): T rows, each of n entries, for every n, T, A, eps and noise *)
Theorem C18_linear_series_has_shape_T_n : forall A eps n noise, length A = n -> Forall (fun w => length w = n) noise ->
  length (lin_series A eps noise) = length noise /\ Forall (fun x => length x = n) (lin_series A eps noise).
Proof. exact shape_T_n. Qed.
Print Assumptions C18_linear_series_has_shape_T_n.

(* row 0 is eps * w_0 and X_t - A X_{t-1} is eps * w_t for every later row: the returned A explains the series *)
Theorem C18_residual_is_eps_times_noise : forall A eps n noise, length A = n -> Forall (fun w => length w = n) noise ->
  let X := lin_series A eps noise in
  (noise <> [] -> nth 0 X [] = vscale eps (nth 0 noise [])) /\
  forall t, (S t < length noise)%nat ->
    veq (vsub (nth (S t) X []) (mulmv A (nth t X []))) (vscale eps (nth (S t) noise [])).
Proof. exact residual_is_noise. Qed.
Print Assumptions C18_residual_is_eps_times_noise.

(* conversely, a (T, n) series whose residuals under A are eps * noise is the generated series: (A, eps, noise) determine the data *)
Theorem C18_ground_truth_determines_series : forall A eps n noise X, length A = n -> Forall (fun x => length x = n) X ->
  meq (residuals A X) (map (vscale eps) noise) -> meq X (lin_series A eps noise).
Proof. exact explains_unique. Qed.
Print Assumptions C18_ground_truth_determines_series.

(* the series is exactly linear in epsilon: same seed (same noise), epsilon scaled by c => every value scaled by c *)
Theorem C18_series_exactly_linear_in_epsilon : forall A c eps noise,
  meq (lin_series A (c * eps) noise) (map (vscale c) (lin_series A eps noise)).
Proof. exact linear_in_eps. Qed.
Print Assumptions C18_series_exactly_linear_in_epsilon.

(* the returned A = s * (adjacency^T o weights) is supported on the TRANSPOSED graph: A[i][j] <> 0 only if j -> i is an edge *)
Theorem C18_matrix_supported_on_transposed_graph : forall n adj R rho m i j, (i < n)%nat -> (j < n)%nat ->
  ~ get (build_A n adj R rho m) i j == 0 -> ~ get adj j i == 0.
Proof. exact support_transposed. Qed.
Print Assumptions C18_matrix_supported_on_transposed_graph.

(* the executable support test used on the implementation's matrices means exactly that *)
Theorem C18_support_test_is_the_support_statement : forall n adj A, support_ok n adj A = true <->
  forall i j, (i < n)%nat -> (j < n)%nat -> ~ get A i j == 0 -> ~ get adj j i == 0.
Proof. exact support_ok_spec. Qed.
Print Assumptions C18_support_test_is_the_support_statement.

(* PARTIAL.  Full statement: "the spectral radius of the returned A is rho, and 0 when the graph is acyclic".
   Eigenvalues are not modelled; proved for ANY function sr obeying the scaling law sr(s M) = s sr(M) (s >= 0), with the
   radius the code measured as input: normalisation yields radius rho when that radius exceeds 1e-12 and 0 when it is 0.
   Missing: that numpy's eigvals computes the spectral radius, and that an acyclic support gives radius 0 (both tied numerically). *)
Theorem C18_spectral_radius_is_rho_partial : forall sr : mat -> Q,
  (forall s M, 0 <= s -> sr (mscale s M) == s * sr M) ->
  forall n adj R rho, 0 <= rho ->
    let M := hadamard n (transpose n adj) R in
    (radius_floor < sr M -> sr (build_A n adj R rho (sr M)) == rho) /\
    (sr M == 0 -> sr (build_A n adj R rho (sr M)) == 0).
Proof. exact radius_is_rho. Qed.
Print Assumptions C18_spectral_radius_is_rho_partial.

(* Poisson network: the rate attached to node i at time t+1 is max(0.1, base + c * sum_j A[j][i] X[t][j]) for all n, T, t, i *)
Theorem C18_poisson_rate_is_documented_conditional_mean : forall n A base c X t i,
  (S t < length X)%nat -> (i < n)%nat -> length A = n -> length (nth t X []) = n ->
  nth i (nth t (poisson_rates n A base c X) []) 0 ==
  Qmax' (1 # 10) (base + c * sumf n (fun j => get A j i * nth j (nth t X []) 0)).
Proof. exact rates_def. Qed.
Print Assumptions C18_poisson_rate_is_documented_conditional_mean.

(* every rate is >= 0.1 (a valid Poisson mean); the floor is inactive for base >= 0.1, coupling >= 0, non-negative A and counts *)
Theorem C18_poisson_rate_floor : forall A base c x i, (1 # 10 <= rate A base c x i) /\
  (1 # 10 <= base -> 0 <= c -> Forall (fun q => 0 <= q) (col i A) -> Forall (fun q => 0 <= q) x ->
   rate A base c x i == base + c * dot (col i A) x).
Proof. exact rate_floor_facts. Qed.
Print Assumptions C18_poisson_rate_floor.

(* the evaluator with reduced fractions that the correspondence runs computes the same series as the specified recursion *)
Theorem C18_executed_model_is_the_specified_model : forall A eps noise, meq (lin_series_red A eps noise) (lin_series A eps noise).
Proof. exact lin_series_red_eq. Qed.
Print Assumptions C18_executed_model_is_the_specified_model.

(* ---- "0 if acyclic" on the list model (eigenvalue / spectral-radius form for all sizes: Properties/C18Mx.v) ---- *)
(* the executable topological-order witness test evaluated on the returned matrices means: every non-zero A[i][j]
   (edge j -> i) has j strictly before i in the supplied order *)
Theorem C18_dag_witness_test_is_the_order_statement : forall order n A, dag_witness_ok order n A = true <->
  forall i j, (i < n)%nat -> (j < n)%nat -> ~ get A i j == 0 -> (rank_of order j < rank_of order i)%nat.
Proof. exact dag_witness_ok_spec. Qed.
Print Assumptions C18_dag_witness_test_is_the_order_statement.

(* ACYCLIC => NILPOTENT for every n and ANY rank function r: if every non-zero A[i][j] has r j < r i then A^m = 0 (exactly,
   entrywise) as soon as m exceeds every rank *)
Theorem C18_acyclic_support_is_nilpotent : forall n A (r : nat -> nat),
  (forall i j, (i < n)%nat -> (j < n)%nat -> ~ get A i j == 0 -> (r j < r i)%nat) ->
  forall m, (forall i, (i < n)%nat -> (r i < m)%nat) ->
  forall i j, (i < n)%nat -> (j < n)%nat -> get (mpow n A m) i j == 0.
Proof. exact dag_nilpotent_list. Qed.
Print Assumptions C18_acyclic_support_is_nilpotent.

(* whenever the witness tests pass on a matrix, A^n = 0 exactly: the nilpotency test that the correspondence ALSO evaluates
   on the returned matrix is then guaranteed *)
Theorem C18_witness_implies_exact_nilpotency : forall n order A,
  order_ok n order = true -> dag_witness_ok order n A = true -> nilpotent_ok n A = true.
Proof. exact witness_implies_nilpotent. Qed.
Print Assumptions C18_witness_implies_exact_nilpotency.

(* the reduced-fraction matrix power that is executed has the entries of the specified power *)
Theorem C18_executed_nilpotency_test_is_the_specified_one : forall n A, nilpotent_red_ok n A = nilpotent_ok n A.
Proof. exact nilpotent_red_ok_spec. Qed.
Print Assumptions C18_executed_nilpotency_test_is_the_specified_one.

(* a topological order of the GRAPH USED is a witness for every matrix supported on the transposed graph ... *)
Theorem C18_graph_order_is_witness_for_supported_matrices : forall n order adj A,
  dag_witness_ok order n (transpose n adj) = true -> support_ok n adj A = true -> dag_witness_ok order n A = true.
Proof. exact graph_order_is_witness. Qed.
Print Assumptions C18_graph_order_is_witness_for_supported_matrices.

(* ... so the matrix the model builds on an acyclic graph is exactly nilpotent whatever the weights, rho and measured radius *)
Theorem C18_acyclic_graph_gives_nilpotent_matrix : forall n order adj R rho m,
  order_ok n order = true -> dag_witness_ok order n (transpose n adj) = true ->
  nilpotent_ok n (build_A n adj R rho m) = true.
Proof. exact acyclic_build_nilpotent. Qed.
Print Assumptions C18_acyclic_graph_gives_nilpotent_matrix.

(* the normalisation factor s <> 0 does not change which entries are non-zero, hence neither the support test nor the witness test *)
Theorem C18_normalisation_keeps_support : forall s M i j, ~ s == 0 -> (get (mscale s M) i j == 0 <-> get M i j == 0).
Proof. exact mscale_support. Qed.
Print Assumptions C18_normalisation_keeps_support.

Theorem C18_normalisation_keeps_support_test : forall n adj s M, ~ s == 0 -> support_ok n adj (mscale s M) = support_ok n adj M.
Proof. exact support_ok_mscale_iff. Qed.
Print Assumptions C18_normalisation_keeps_support_test.
