(* C04 -- false discoveries are controlled at the requested level under independence (partial).

   What is proved (all inputs, axiom-free): the size of the permutation test of shuffle_test, as
   counting over equally likely outcomes, for ANY statistic; the arithmetic that turns it into
   alpha + 1/n; the behaviour of the selection on an all-tied landscape (the kNN-on-noise case).
   What is NOT a theorem: that the data are exchangeable (hypothesis of the property), and the
   number of links a whole forward/backward run keeps on noise (measured by the harness). *)
From Coq Require Import ZArith List.
From CE Require Import Model.ShuffleTest Model.Selection Model.Noise Proofs.NoiseProofs Proofs.Exchange.
From mathcomp Require Import all_ssreflect fingroup.
Close Scope Z_scope.

(* Exactness of a permutation test as counting: among all |P|^(n+1) joint outcomes of (observed,
   n surrogates) drawn alike from ANY finite pool with ANY statistic, those in which at most c
   surrogates reach the observed value are at most a fraction (c+1)/(n+1). *)
Theorem C04_exchangeable_outcomes_counting_bound : forall (n : nat) (P : finType) (val : P -> nat) (c : nat),
  #|[set t : {ffun 'I_n.+1 -> P} | extreme val c t ord0]| * n.+1 <= c.+1 * #|P| ^ n.+1.
Proof. exact exch_bound. Qed.
Print Assumptions C04_exchangeable_outcomes_counting_bound.

(* shuffle_test's verdict (observed > linear-interpolation percentile at 100(1-alpha)) declares
   significance only if at most n-1-floor((n-1)(1-alpha)) surrogate values reach the observed one. *)
Theorem C04_significant_implies_few_surrogates_reach_observed : forall (a b obs : Z) (nulls : list Z),
  (0 < a < b)%Z -> (2 <= length nulls)%coq_nat ->
  verdict true a b obs nulls = true ->
  (cge obs nulls + Z.to_nat (lo_idx a b (len nulls)) + 1 <= length nulls)%coq_nat.
Proof. exact strict_pass_count. Qed.
Print Assumptions C04_significant_implies_few_surrogates_reach_observed.

(* Size of the test for every statistic (integer-grid values, hence every finite float), every
   alpha = a/b in (0,1), every n_shuffles = n >= 2: the outcomes declared significant are at most
   a fraction (n - floor((n-1)(1-alpha)))/(n+1) of all outcomes. *)
Theorem C04_permutation_test_size_for_any_statistic : forall (n : nat) (P : finType) (zval : P -> Z) (a b : Z),
  (0 < a < b)%Z -> 2 <= n ->
  #|[set t : {ffun 'I_n.+1 -> P} | passes zval a b t]| * n.+1 <= (n - lo n a b) * #|P| ^ n.+1.
Proof. exact rate_bound. Qed.
Print Assumptions C04_permutation_test_size_for_any_statistic.

(* ... which is the property's alpha + 1/n whenever (alpha, n) lies in the arithmetic regime
   (decidable; true for the defaults 0.05/200; evaluated for the run's parameters by the harness):
   #significant / #outcomes <= a/b + 1/n. *)
Theorem C04_size_at_most_alpha_plus_1_over_n_in_regime : forall (n : nat) (P : finType) (zval : P -> Z) (a b : Z),
  (0 < a < b)%Z -> 2 <= n -> regime a b (Z.of_nat n) = true ->
  (Z.of_nat #|[set t : {ffun 'I_n.+1 -> P} | passes zval a b t]| * b * Z.of_nat n
     <= (a * Z.of_nat n + b) * Z.of_nat (#|P| ^ n.+1))%Z.
Proof. exact rate_bound_stated. Qed.
Print Assumptions C04_size_at_most_alpha_plus_1_over_n_in_regime.

(* The regime is exactly: fractional part of (n-1)(1-alpha) <= 2 alpha + 1/n. *)
Theorem C04_regime_characterised : forall a b n : Z, (0 < a < b)%Z -> (1 <= n)%Z ->
  regime a b n = true <-> ((((n - 1) * (b - a)) mod b) * n <= 2 * a * n + b)%Z.
Proof. exact regime_iff. Qed.
Print Assumptions C04_regime_characterised.

(* Re-shuffling the OBSERVED rows: (s0, s1, .., sn) |-> (s0, s1 s0, .., sn s0) is a bijection of
   G^(n+1) for any finite group G, so "observed arrangement uniform, shuffles uniform and
   independent" is the equally-likely-outcomes situation of the counting bound. *)
Theorem C04_reshuffling_observed_rows_is_a_bijection : forall (n : nat) (gT : finGroupType),
  bijective (@compose n gT).
Proof. exact perm_reduction. Qed.
Print Assumptions C04_reshuffling_observed_rows_is_a_bijection.

(* The test as shuffle_test runs it: stat g = statistic of the base rows re-ordered by g; observed
   value stat s0, surrogate values stat (s_i s0).  Over all |G|^(n+1) equally likely (arrangement,
   shuffles) significance is declared in at most a fraction (n - lo)/(n+1) -- for any statistic. *)
Theorem C04_shuffle_test_size_over_row_permutations : forall (n : nat) (gT : finGroupType) (stat : gT -> Z) (a b : Z),
  (0 < a < b)%Z -> 2 <= n ->
  #|[set s : {ffun 'I_n.+1 -> gT} | passes stat a b (compose s)]| * n.+1 <= (n - lo n a b) * #|gT| ^ n.+1.
Proof. exact perm_rate_bound. Qed.
Print Assumptions C04_shuffle_test_size_over_row_permutations.

(* The dispatcher's floor max(0, .) turns non-positive estimates into exact ties with the observed value. *)
Theorem C04_floor_at_zero_creates_exact_ties : forall (obs : Z) (raw : list Z),
  (obs <= 0)%Z -> List.Forall (fun v => (v <= 0)%Z) raw ->
  forall v, List.In v (List.map clamp0 raw) -> v = clamp0 obs.
Proof. exact clamp0_ties. Qed.
Print Assumptions C04_floor_at_zero_creates_exact_ties.

(* Network level, current source: if every estimate (on data and on surrogates) equals v0 -- the
   kNN estimator on white noise, floored at 0 -- no link is selected; both variants, any number of
   candidates, any initial conditioning set, any n_shuffles >= 2, any alpha. *)
Theorem C04_all_tied_landscape_gives_empty_network :
  forall (aF bF aB bB v0 : Z) (f : nat -> list nat -> Z) (nullF nullB : nat -> list nat -> list Z) (init : list nat),
  (0 < aF < bF)%Z ->
  (forall j Zs, f j Zs = v0) ->
  (forall j Zs, (2 <= length (nullF j Zs))%coq_nat) ->
  (forall j Zs v, List.In v (nullF j Zs) -> v = v0) ->
  forall (v : variant) (n : nat) (order : list nat),
  network true aF bF aB bB f nullF nullB init v n order = nil.
Proof. exact all_tied_empty_network. Qed.
Print Assumptions C04_all_tied_landscape_gives_empty_network.

(* Network level, pre-fix source (>=): on the same landscape EVERY candidate link is selected. *)
Theorem C04_pinned_weak_verdict_gives_complete_network :
  forall (aF bF aB bB v0 : Z) (f : nat -> list nat -> Z) (nullF nullB : nat -> list nat -> list Z) (init : list nat),
  (0 < aF < bF)%Z -> (0 < aB < bB)%Z ->
  (forall j Zs, f j Zs = v0) ->
  (forall j Zs, (2 <= length (nullF j Zs))%coq_nat) -> (forall j Zs, (2 <= length (nullB j Zs))%coq_nat) ->
  (forall j Zs v, List.In v (nullF j Zs) -> v = v0) -> (forall j Zs v, List.In v (nullB j Zs) -> v = v0) ->
  forall (v : variant) (n : nat) (order : list nat),
  network false aF bF aB bB f nullF nullB init v n order = List.seq 0 n.
Proof. exact all_tied_weak_complete_network. Qed.
Print Assumptions C04_pinned_weak_verdict_gives_complete_network.

(* Hence "fewer than half of the candidate links on noise" is refuted for the pre-fix verdict
   (finding F1 at network level): 6 candidates, n_shuffles 19, alpha 1/20, all estimates 0. *)
Theorem C04_pinned_weak_verdict_refuted : exists n nsh a b v0 v,
  (0 < a < b)%Z /\ (2 <= nsh)%coq_nat /\
  let R := network false a b a b (fun _ _ => v0) (fun _ _ => List.repeat v0 nsh) (fun _ _ => List.repeat v0 nsh) nil v n nil in
  R = List.seq 0 n /\ ~ (2 * length R < n)%coq_nat.
Proof. exact all_tied_complete_network_refuted. Qed.
Print Assumptions C04_pinned_weak_verdict_refuted.
