(* C03 -- permutation test: surrogates shuffle X only; decision agrees with its p-value. *)
From Coq Require Import ZArith List Permutation.
From CE Require Import Model.ShuffleTest Proofs.ShuffleTestProofs.
Open Scope Z_scope.

(* alpha = a/b in (0,1), n = length nulls >= 2, any integer-grid values, any observed value *)
Theorem C03_significant_implies_p_le_alpha_plus_1_over_n : forall a b obs nulls,
  0 < a < b -> (2 <= length nulls)%nat ->
  let R := shuffle_model a b obs nulls in
  r_pass R = true -> r_count R * b <= a * r_n R + b.
Proof. exact model_pass_coherent. Qed.
Print Assumptions C03_significant_implies_p_le_alpha_plus_1_over_n.

Theorem C03_not_significant_implies_p_ge_alpha_minus_1_over_n : forall a b obs nulls,
  0 < a < b -> (2 <= length nulls)%nat ->
  let R := shuffle_model a b obs nulls in
  r_pass R = false -> a * r_n R - b <= r_count R * b.
Proof. exact model_fail_coherent. Qed.
Print Assumptions C03_not_significant_implies_p_ge_alpha_minus_1_over_n.

Theorem C03_tie_with_whole_null_never_significant : forall a b obs nulls,
  0 < a < b -> (2 <= length nulls)%nat ->
  (forall v, In v nulls -> v = obs) ->
  let R := shuffle_model a b obs nulls in r_pass R = false /\ r_count R = r_n R.
Proof. exact model_all_tied. Qed.
Print Assumptions C03_tie_with_whole_null_never_significant.

Theorem C03_threshold_at_one_minus_alpha_quantile : forall a b obs nulls,
  0 < a < b -> (2 <= length nulls)%nat ->
  let s := ZSort.sort nulls in
  let lo := ((len nulls - 1) * (b - a)) / b in
  nth (Z.to_nat lo) s 0 * b <= r_thr_b (shuffle_model a b obs nulls)
     <= nth (Z.to_nat (lo + 1)) s (nth (Z.to_nat lo) s 0) * b
  /\ 0 <= lo <= len nulls - 1.
Proof. exact model_threshold_at_quantile. Qed.
Print Assumptions C03_threshold_at_one_minus_alpha_quantile.

Theorem C03_p_value_is_fraction_of_n_surrogates : forall a b obs nulls,
  let R := shuffle_model a b obs nulls in
  0 <= r_count R <= r_n R /\ r_n R = Z.of_nat (length nulls).
Proof. exact model_p_in_unit. Qed.
Print Assumptions C03_p_value_is_fraction_of_n_surrogates.

Theorem C03_observed_value_echoed : forall a b obs nulls, r_value (shuffle_model a b obs nulls) = obs.
Proof. exact model_value_echoed. Qed.
Print Assumptions C03_observed_value_echoed.

Theorem C03_outcome_independent_of_surrogate_order : forall a b obs n1 n2,
  Permutation n1 n2 -> shuffle_model a b obs n1 = shuffle_model a b obs n2.
Proof. exact model_order_irrelevant. Qed.
Print Assumptions C03_outcome_independent_of_surrogate_order.

Theorem C03_surrogate_is_row_permutation_of_X : forall (A : Type) (X : list A) d perm,
  Permutation perm (seq 0 (length X)) -> Permutation (permute_rows X d perm) X.
Proof. exact @permute_rows_permutation. Qed.
Print Assumptions C03_surrogate_is_row_permutation_of_X.

(* the pre-fix rule (>=) violates the property: kept as a machine-checked record of finding F1 *)
Theorem C03_pinned_weak_rule_refuted : exists a b obs s,
  0 < a < b /\ (2 <= length s)%nat /\ pass_weak a b obs s = true /\ count_ge obs s * b > a * len s + b.
Proof. exact weak_refuted. Qed.
Print Assumptions C03_pinned_weak_rule_refuted.
