(* C19 -- coupled logistic-map network stays inside the unit interval. *)
From Coq Require Import List QArith.
From CE Require Import Model.Logistic Proofs.LogisticProofs Proofs.LogisticExtra.
Open Scope Q_scope.

Theorem C19_logistic_map_preserves_unit_interval : forall r x, 0 <= r -> r <= 4 -> in_unit x -> in_unit (fmap r x).
Proof. exact fmap_unit. Qed.
Print Assumptions C19_logistic_map_preserves_unit_interval.

(* each update is a convex combination of logistic-map images of unit-interval states *)
Theorem C19_one_step_stays_in_unit_interval : forall r s W x, 0 <= r -> r <= 4 -> 0 <= s -> s <= 1 ->
  Forall substochastic W -> Forall in_unit x -> Forall in_unit (step r s W x).
Proof. exact step_unit. Qed.
Print Assumptions C19_one_step_stays_in_unit_interval.

(* every value of every trajectory: any n, any length, any r in [0,4], sigma in [0,1], any start in [0,1]^n *)
Theorem C19_every_row_of_every_trajectory : forall r s W, 0 <= r -> r <= 4 -> 0 <= s -> s <= 1 -> Forall substochastic W ->
  forall steps x0, Forall in_unit x0 -> Forall (Forall in_unit) (traj r s W x0 steps).
Proof. exact traj_unit. Qed.
Print Assumptions C19_every_row_of_every_trajectory.

(* the normalisation the generator applies yields rows the theorem's hypothesis accepts *)
Theorem C19_row_normalisation_is_substochastic : forall row, Forall (fun a => 0 <= a) row -> substochastic (normalise_row row).
Proof. exact normalise_row_substochastic. Qed.
Print Assumptions C19_row_normalisation_is_substochastic.

(* the pre-fix orientation (column-stochastic matrix in the update) violates the property: finding F3 *)
Theorem C19_pinned_orientation_refuted : exists W x, Forall in_unit x /\
  (forall j, qsum (map (fun row => nth j row 0) W) <= 1) /\ ~ Forall in_unit (step 4 1 W x).
Proof. exact pinned_refuted. Qed.
Print Assumptions C19_pinned_orientation_refuted.

(* the parameter range of the property is sharp: for every r outside [0,4] the logistic map
   already sends the unit-interval state 1/2 outside [0,1] *)
Theorem C19_range_of_r_is_sharp_above : forall r, 4 < r -> in_unit (1 # 2) /\ ~ in_unit (fmap r (1 # 2)).
Proof. exact fmap_escapes_above. Qed.
Print Assumptions C19_range_of_r_is_sharp_above.

Theorem C19_range_of_r_is_sharp_below : forall r, r < 0 -> in_unit (1 # 2) /\ ~ in_unit (fmap r (1 # 2)).
Proof. exact fmap_escapes_below. Qed.
Print Assumptions C19_range_of_r_is_sharp_below.

(* shape of every trajectory: steps+1 rows, each with one value per node, starting at x0 *)
Theorem C19_trajectory_shape : forall r s W steps x0, length W = length x0 ->
  length (traj r s W x0 steps) = S steps /\
  Forall (fun row => length row = length x0) (traj r s W x0 steps) /\
  hd nil (traj r s W x0 steps) = x0.
Proof. intros r s W steps x0 H. exact (conj (traj_length r s W steps x0) (conj (traj_rows_length r s W steps x0 H) (traj_head r s W steps x0))). Qed.
Print Assumptions C19_trajectory_shape.
