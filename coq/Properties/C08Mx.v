(* C08, tier 2 (mathcomp; any field F, any N, k_x, k_y, k_z): determinant form = least-squares residual form,
   invariance under invertible mixing of the conditioning columns, X/Y symmetry.  gram A = A^T A;
   resid Z X = X - Z (Z^T Z)^-1 Z^T X;  ratio_mx X Y Z = det G_xz det G_yz / (det G_z det G_xyz). *)
From mathcomp Require Import all_ssreflect all_algebra.
From CE Require Import GaussMx.
Set Implicit Arguments. Unset Strict Implicit. Unset Printing Implicit Defensive.
Local Open Scope ring_scope.

Theorem C08_det_schur : forall (F : fieldType) n1 n2 (A : 'M[F]_n1) (B : 'M[F]_(n1, n2)) (C : 'M[F]_(n2, n1)) (D : 'M[F]_n2),
  A \in unitmx -> \det (block_mx A B C D) = \det A * \det (D - C *m invmx A *m B).
Proof. exact: det_schur. Qed.
Print Assumptions C08_det_schur.

(* the residual matrix satisfies the normal equations *)
Theorem C08_residual_normal_equations : forall (F : fieldType) N n1 n2 (Z : 'M[F]_(N, n2)) (X : 'M[F]_(N, n1)),
  gram Z \in unitmx -> Z^T *m resid Z X = 0.
Proof. exact: resid_normal_eq. Qed.
Print Assumptions C08_residual_normal_equations.

(* det G_xz / det G_z = det S(X|Z): one block *)
Theorem C08_det_ratio_is_residual_form : forall (F : fieldType) N n1 n2 (Z : 'M[F]_(N, n2)) (X : 'M[F]_(N, n1)),
  gram Z \in unitmx -> \det (gram (row_mx X Z)) = \det (gram Z) * \det (gram (resid Z X)).
Proof. exact: det_ratio_is_residual_form. Qed.
Print Assumptions C08_det_ratio_is_residual_form.

(* the code's four-determinant ratio = det S(X|Z) det S(Y|Z) / det S(XY|Z) *)
Theorem C08_determinant_form_is_residual_covariance_form :
  forall (F : fieldType) N kx ky kz (X : 'M[F]_(N, kx)) (Y : 'M[F]_(N, ky)) (Z : 'M[F]_(N, kz)),
  gram Z \in unitmx ->
  ratio_mx X Y Z = \det (gram (resid Z X)) * \det (gram (resid Z Y)) / \det (gram (row_mx (resid Z X) (resid Z Y))).
Proof. exact: cmi_det_form_is_residual_form. Qed.
Print Assumptions C08_determinant_form_is_residual_covariance_form.

Theorem C08_invariant_under_invertible_mixing_of_Z :
  forall (F : fieldType) N kx ky kz (X : 'M[F]_(N, kx)) (Y : 'M[F]_(N, ky)) (Z : 'M[F]_(N, kz)) (M : 'M[F]_kz),
  M \in unitmx -> ratio_mx X Y (Z *m M) = ratio_mx X Y Z.
Proof. exact: z_mixing_invariant. Qed.
Print Assumptions C08_invariant_under_invertible_mixing_of_Z.

Theorem C08_swap_xy : forall (F : fieldType) N kx ky kz (X : 'M[F]_(N, kx)) (Y : 'M[F]_(N, ky)) (Z : 'M[F]_(N, kz)),
  gram Z \in unitmx -> gram (resid Z Y) \in unitmx -> ratio_mx Y X Z = ratio_mx X Y Z.
Proof. exact: swap_xy. Qed.
Print Assumptions C08_swap_xy.
