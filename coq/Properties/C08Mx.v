(* C08, tier 2 (mathcomp; any field F, any N, k_x, k_y, k_z): determinant form = least-squares residual form,
   invariance under invertible mixing of the conditioning columns, X/Y symmetry.  gram A = A^T A;
   resid Z X = X - Z (Z^T Z)^-1 Z^T X;  ratio_mx X Y Z = det G_xz det G_yz / (det G_z det G_xyz).
   The second group (LIST MODEL, below) transports these theorems through LinAlgBridge.v / GaussBridge.v to the executable
   list functions of Model/Gauss.v that the correspondence evaluates on the data the implementation ran on. *)
From Coq Require Import QArith ZArith List.
From mathcomp Require Import all_ssreflect all_fingroup all_algebra.
From mathcomp Require Import ssrZ.
From CE Require Import GaussMx GeneratorsMxBridge LinAlgBridge GaussBridge GaussResidBridge.
From CE Require Model.Itv Model.Gauss.
Close Scope Q_scope. Close Scope Z_scope.
Set Implicit Arguments. Unset Strict Implicit. Unset Printing Implicit Defensive.
Local Open Scope ring_scope.

Theorem C08_det_schur : forall (F : fieldType) n1 n2 (A : 'M[F]_n1) (B : 'M[F]_(n1, n2)) (C : 'M[F]_(n2, n1)) (D : 'M[F]_n2),
  A \in unitmx -> \det (block_mx A B C D) = \det A * \det (D - C *m invmx A *m B).
Proof. exact: det_schur. Qed.
Print Assumptions C08_det_schur.

(* the residual matrix satisfies the normal equations *)
Theorem C08_residual_normal_equations : forall (F : fieldType) N n1 n2 (Z : 'M[F]_(N, n2)) (X : 'M[F]_(N, n1)),
  gram Z \in unitmx -> Z^T *m resid Z X = 0.
Proof. exact: resid_normal_eq. Qed.
Print Assumptions C08_residual_normal_equations.

(* det G_xz / det G_z = det S(X|Z): one block *)
Theorem C08_det_ratio_is_residual_form : forall (F : fieldType) N n1 n2 (Z : 'M[F]_(N, n2)) (X : 'M[F]_(N, n1)),
  gram Z \in unitmx -> \det (gram (row_mx X Z)) = \det (gram Z) * \det (gram (resid Z X)).
Proof. exact: det_ratio_is_residual_form. Qed.
Print Assumptions C08_det_ratio_is_residual_form.

(* the code's four-determinant ratio = det S(X|Z) det S(Y|Z) / det S(XY|Z) *)
Theorem C08_determinant_form_is_residual_covariance_form :
  forall (F : fieldType) N kx ky kz (X : 'M[F]_(N, kx)) (Y : 'M[F]_(N, ky)) (Z : 'M[F]_(N, kz)),
  gram Z \in unitmx ->
  ratio_mx X Y Z = \det (gram (resid Z X)) * \det (gram (resid Z Y)) / \det (gram (row_mx (resid Z X) (resid Z Y))).
Proof. exact: cmi_det_form_is_residual_form. Qed.
Print Assumptions C08_determinant_form_is_residual_covariance_form.

Theorem C08_invariant_under_invertible_mixing_of_Z :
  forall (F : fieldType) N kx ky kz (X : 'M[F]_(N, kx)) (Y : 'M[F]_(N, ky)) (Z : 'M[F]_(N, kz)) (M : 'M[F]_kz),
  M \in unitmx -> ratio_mx X Y (Z *m M) = ratio_mx X Y Z.
Proof. exact: z_mixing_invariant. Qed.
Print Assumptions C08_invariant_under_invertible_mixing_of_Z.

Theorem C08_swap_xy : forall (F : fieldType) N kx ky kz (X : 'M[F]_(N, kx)) (Y : 'M[F]_(N, ky)) (Z : 'M[F]_(N, kz)),
  gram Z \in unitmx -> gram (resid Z Y) \in unitmx -> ratio_mx Y X Z = ratio_mx X Y Z.
Proof. exact: swap_xy. Qed.
Print Assumptions C08_swap_xy.

(* ================================ LIST MODEL (refinement lists <-> 'M[rat]_(m, n)) ================================ *)
(* Qrat : Q -> rat the field embedding;  mx_of_mat n m M : 'M[rat]_(n, m), entry (i, j) = Qrat (nth j (nth i M [::]) 0), so
   mx_of_mat k k G is the leading principal k x k block of G;  wf_mat n m M: n rows of length m;
   cmx N D n idx : 'M[rat]_(N, n), the CENTRED columns idx_0 .. idx_(n-1) of the sample D (N = number of rows). *)

(* Gaussian elimination without pivoting (Model/Gauss.pivots / det_piv) computes the determinant: every n, every
   well-shaped G; the product of the first k pivots is the k-th leading principal minor *)
Theorem C08_elimination_on_lists_computes_the_determinant :
  forall (n : nat) (G : seq (seq Q)), wf_mat n n G ->
  (forall q, Gauss.det_piv G = Some q -> \det (mx_of_mat n n G) = Qrat q) /\
  (forall ps, Gauss.pivots n G = Some ps -> forall k, (k <= n)%N -> \det (mx_of_mat k k G) = Qrat (Gauss.qprod (take k ps))).
Proof. exact: det_piv_facts. Qed.
Print Assumptions C08_elimination_on_lists_computes_the_determinant.

(* ... it returns None exactly when some leading principal minor vanishes (the None case has no false negatives) *)
Theorem C08_elimination_on_lists_fails_iff_a_leading_principal_minor_vanishes :
  forall (n : nat) (G : seq (seq Q)), wf_mat n n G ->
  ((exists q, Gauss.det_piv G = Some q) <-> (forall k, (k < n)%N -> \det (mx_of_mat k.+1 k.+1 G) != 0)) /\
  (Gauss.det_piv G = None -> exists2 k, (k < n)%N & \det (mx_of_mat k.+1 k.+1 G) = 0).
Proof. exact: det_piv_defined_facts. Qed.
Print Assumptions C08_elimination_on_lists_fails_iff_a_leading_principal_minor_vanishes.

(* the scatter matrix of the model is the Gram matrix of the centred columns (also every leading block) *)
Theorem C08_scatter_matrix_on_lists_is_the_gram_matrix_of_the_centred_columns :
  forall (N : nat) (D : seq (seq Q)) (n : nat) (idx : seq nat), D <> [::] -> size D = N -> (n <= size idx)%N ->
  mx_of_mat n n (Gauss.gram D idx) = gram (cmx N D n idx).
Proof. exact: gram_cmx. Qed.
Print Assumptions C08_scatter_matrix_on_lists_is_the_gram_matrix_of_the_centred_columns.

(* the determinant form EVALUATED ON LISTS is the mathcomp determinant form of the converted blocks, every N, k_x, k_y, k_z;
   it is defined exactly when the centred columns X, Y, Z are jointly linearly independent; and it is the residual
   (partial-covariance) form det S(X|Z) det S(Y|Z) / det S(XY|Z) of the converted blocks -- the identity that was only tested *)
Theorem C08_determinant_form_on_lists_is_the_matrix_determinant_form :
  forall (N : nat) (D : seq (seq Q)) (ix iy iz : seq nat), D <> [::] -> size D = N ->
  let X := cmx N D (size ix) ix in let Y := cmx N D (size iy) iy in let Z := cmx N D (size iz) iz in
  (forall q, Gauss.ratio_det D ix iy iz = Some q -> Qrat q = ratio_mx X Y Z) /\
  ((exists q, Gauss.ratio_det D ix iy iz = Some q) <-> \rank (row_mx (row_mx X Y) Z) = (size ix + size iy + size iz)%N) /\
  (forall q, Gauss.ratio_det D ix iy iz = Some q ->
     Qrat q = \det (gram (resid Z X)) * \det (gram (resid Z Y)) / \det (gram (row_mx (resid Z X) (resid Z Y)))).
Proof. exact: ratio_det_facts. Qed.
Print Assumptions C08_determinant_form_on_lists_is_the_matrix_determinant_form.

(* FULL X/Y symmetry of the determinant form on lists (every sample, every block size, definedness included): the statement
   Properties/C08.v could only prove for scalars / under a hypothesis on the joint determinant *)
Theorem C08_symmetric_in_X_and_Y_on_lists :
  forall (D : seq (seq Q)) (ix iy iz : seq nat), Gauss.ratio_det D ix iy iz = Gauss.ratio_det D iy ix iz.
Proof. exact: ratio_det_symmetric. Qed.
Print Assumptions C08_symmetric_in_X_and_Y_on_lists.

(* the order of the columns inside the blocks X, Y, Z is irrelevant (in particular any permutation of Z's columns) *)
Theorem C08_column_order_inside_blocks_irrelevant_on_lists :
  forall (D : seq (seq Q)) (ix iy iz ix' iy' iz' : seq nat), perm_eq ix' ix -> perm_eq iy' iy -> perm_eq iz' iz ->
  Gauss.ratio_det D ix' iy' iz' = Gauss.ratio_det D ix iy iz.
Proof. exact: ratio_det_perm. Qed.
Print Assumptions C08_column_order_inside_blocks_irrelevant_on_lists.

(* invariance ON LISTS under invertible linear mixing of the conditioning columns, value and definedness: D' has the X and
   Y entries of D and, row by row, Z' column b = sum_a (Z column a) * M[a][b] for a list matrix M with non-zero determinant *)
Theorem C08_invariant_under_invertible_mixing_of_Z_on_lists :
  forall (D D' : seq (seq Q)) (ix iy iz ix' iy' iz' : seq nat) (M : seq (seq Q)), D <> [::] -> size D' = size D ->
  same_cols D D' ix ix' -> same_cols D D' iy iy' -> mixed_cols D D' iz iz' M ->
  \det (mx_of_mat (size iz) (size iz) M) != 0 ->
  Gauss.ratio_det D' ix' iy' iz' = Gauss.ratio_det D ix iy iz.
Proof. exact: ratio_det_mixing. Qed.
Print Assumptions C08_invariant_under_invertible_mixing_of_Z_on_lists.

(* the same for a concrete mixing operation on samples (mix_sample prepends the mixed block to every row) with M accepted by
   the model's own determinant function *)
Theorem C08_invariant_under_mix_sample :
  forall (D : seq (seq Q)) (ix iy iz : seq nat) (M : seq (seq Q)) (m : Q), D <> [::] ->
  wf_mat (size iz) (size iz) M -> Gauss.det_piv M = Some m ->
  Gauss.ratio_det (mix_sample iz M D) (map (addn (size iz)) ix) (map (addn (size iz)) iy) (iota 0 (size iz)) =
  Gauss.ratio_det D ix iy iz.
Proof. exact: ratio_det_mix_sample_det_piv. Qed.
Print Assumptions C08_invariant_under_mix_sample.

(* the Gram-Schmidt residual vector of the model (resid (zbasis D iz) (col D i), the vector the residual forms are built
   from) IS the least-squares residual v - C (C^T C)^-1 C^T v of the mathcomp development, C = (Z columns | constant column),
   whenever these regressors are independent *)
Theorem C08_model_residual_vectors_are_the_matrix_least_squares_residuals :
  forall (N : nat) (D : seq (seq Q)) (iz : seq nat) (i : nat), size D = N -> gram (cz N D (size iz) iz) \in unitmx ->
  (rvec N (Gauss.resid (Gauss.zbasis D iz) (Gauss.col D i)))^T = resid (cz N D (size iz) iz) (rvec N (Gauss.col D i))^T.
Proof. exact: list_residual_is_resid. Qed.
Print Assumptions C08_model_residual_vectors_are_the_matrix_least_squares_residuals.

(* DETERMINANT FORM = RESIDUAL FORMS ON LISTS -- the identification that Properties/C08.v declares "tested, not proved for the
   list model": whenever the determinant form of the model is defined, its block residual form det S(X|Z) det S(Y|Z) /
   det S(XY|Z) (ratio_res, Gram-Schmidt residual vectors in Q^N) and its sequential residual form (ratio_seq) are defined and
   return the same rational number -- every sample (the empty one included), every k_x, k_y, k_z.  (No converse: with
   linearly dependent conditioning columns the residual forms can be defined where the determinant form is None.) *)
Theorem C08_determinant_form_equals_both_residual_forms_on_lists :
  forall (D : seq (seq Q)) (ix iy iz : seq nat) (q : Q), Gauss.ratio_det D ix iy iz = Some q ->
  Gauss.ratio_res D ix iy iz = Some q /\ Gauss.ratio_seq D ix iy iz = Some q.
Proof. exact: forms_agree. Qed.
Print Assumptions C08_determinant_form_equals_both_residual_forms_on_lists.

(* hence NON-NEGATIVITY holds for the determinant form itself in every dimension: ratio >= 1 (axiom-free) ... *)
Theorem C08_determinant_form_ratio_at_least_one_in_every_dimension :
  forall (D : seq (seq Q)) (ix iy iz : seq nat) (q : Q), Gauss.ratio_det D ix iy iz = Some q -> Qle (Qmake (Zpos xH) xH) q.
Proof. exact: ratio_det_ge_1_Q. Qed.
Print Assumptions C08_determinant_form_ratio_at_least_one_in_every_dimension.

(* ... and the estimate 1/2 ln ratio is >= 0 over the reals *)
Theorem C08_nonnegative_in_every_dimension_on_the_determinant_form :
  forall (D : seq (seq Q)) (ix iy iz : seq nat) (q : Q), Gauss.ratio_det D ix iy iz = Some q ->
  Qle (Qmake (Zpos xH) xH) q /\ Rdefinitions.Rle Rdefinitions.R0 (Itv.evalR nil (Gauss.cmi_expr q)).
Proof. exact: ratio_det_ge_1. Qed.
Print Assumptions C08_nonnegative_in_every_dimension_on_the_determinant_form.
