(* C10 -- estimates ignore sample order, conditioning-column order and X/Y roles. *)
From Coq Require Import List ZArith QArith Reals Permutation.
From CE Require Import Model.Itv Model.KnnCounts Model.Kde Model.PoissonMI
     Proofs.KnnInvProofs Proofs.KdeInvProofs Proofs.PoissonMIProofs.
Import ListNotations.
Close Scope Q_scope.

(* ---- kNN (exact rational model; any metric, k, N, dimensions; ties allowed) ---- *)
Theorem C10_knn_mi_ignores_sample_order : forall m k all all', Permutation all all' ->
  opt_Qeq (knn_mi m k all) (knn_mi m k all').
Proof. exact knn_mi_row_perm. Qed.
Print Assumptions C10_knn_mi_ignores_sample_order.

Theorem C10_knn_cmi_ignores_sample_order : forall m k all all', Permutation all all' ->
  opt_Qeq (knn_cmi m k all) (knn_cmi m k all').
Proof. exact knn_cmi_row_perm. Qed.
Print Assumptions C10_knn_cmi_ignores_sample_order.

Theorem C10_knn_mi_symmetric_in_X_and_Y : forall m k all, uniform all ->
  opt_Qeq (knn_mi m k (map swap all)) (knn_mi m k all).
Proof. exact knn_mi_swap. Qed.
Print Assumptions C10_knn_mi_symmetric_in_X_and_Y.

Theorem C10_knn_cmi_symmetric_in_X_and_Y : forall m k all, uniform all ->
  opt_Qeq (knn_cmi m k (map swap all)) (knn_cmi m k all).
Proof. exact knn_cmi_swap. Qed.
Print Assumptions C10_knn_cmi_symmetric_in_X_and_Y.

(* sigma any permutation of Z's column indices *)
Theorem C10_knn_cmi_ignores_order_of_Z_columns : forall m k sigma all dz, uniform all ->
  (forall p, In p all -> length (sz p) = dz) -> Permutation sigma (seq 0 dz) ->
  opt_Qeq (knn_cmi m k (map (zperm sigma) all)) (knn_cmi m k all).
Proof. exact knn_cmi_zcol_perm. Qed.
Print Assumptions C10_knn_cmi_ignores_order_of_Z_columns.

(* ---- KDE (real-valued model; any bandwidth rule / positive number, N, dimensions) ---- *)
Theorem C10_kde_cmi_ignores_sample_order : forall b D, D <> 0%Z -> bw_ok b -> forall all all' wx wy wz,
  all <> [] -> widths all wx wy wz -> Permutation all all' ->
  evalR [] (kde_cmi_expr b D all) = evalR [] (kde_cmi_expr b D all').
Proof. exact kde_cmi_row_perm. Qed.
Print Assumptions C10_kde_cmi_ignores_sample_order.

Theorem C10_kde_mi_ignores_sample_order : forall b D, D <> 0%Z -> bw_ok b -> forall all all' wx wy wz,
  all <> [] -> widths all wx wy wz -> Permutation all all' ->
  evalR [] (kde_mi_expr b D all) = evalR [] (kde_mi_expr b D all').
Proof. exact kde_mi_row_perm. Qed.
Print Assumptions C10_kde_mi_ignores_sample_order.

Theorem C10_kde_cmi_symmetric_in_X_and_Y : forall b D, D <> 0%Z -> bw_ok b -> forall all wx wy wz,
  all <> [] -> widths all wx wy wz ->
  evalR [] (kde_cmi_expr b D (map swap all)) = evalR [] (kde_cmi_expr b D all).
Proof. exact kde_cmi_swap. Qed.
Print Assumptions C10_kde_cmi_symmetric_in_X_and_Y.

Theorem C10_kde_mi_symmetric_in_X_and_Y : forall b D, D <> 0%Z -> bw_ok b -> forall all wx wy wz,
  all <> [] -> widths all wx wy wz ->
  evalR [] (kde_mi_expr b D (map swap all)) = evalR [] (kde_mi_expr b D all).
Proof. exact kde_mi_swap. Qed.
Print Assumptions C10_kde_mi_symmetric_in_X_and_Y.

Theorem C10_kde_cmi_ignores_order_of_Z_columns : forall b D, D <> 0%Z -> bw_ok b -> forall all sigma wx wy wz,
  all <> [] -> widths all wx wy wz -> Permutation sigma (seq 0 wz) ->
  evalR [] (kde_cmi_expr b D (map (zperm sigma) all)) = evalR [] (kde_cmi_expr b D all).
Proof. exact kde_cmi_zcol_perm. Qed.
Print Assumptions C10_kde_cmi_ignores_order_of_Z_columns.

(* ---- Poisson, unconditional path: the estimate is a symmetric function of the variables of the (symmetric)
   correlation matrix, for any entropy function h; exchanging the X and Y blocks is such a reordering ---- *)
Theorem C10_poisson_unconditional_ignores_variable_order : forall h, (forall a b, (a == b)%Q -> (h a == h b)%Q) ->
  forall n r, (forall i j, (r i j == r j i)%Q) -> forall s, perm_of n s ->
  (pmi h n (rs r s) == pmi h n r)%Q.
Proof. exact pmi_variable_order. Qed.
Print Assumptions C10_poisson_unconditional_ignores_variable_order.

Theorem C10_exchanging_X_and_Y_blocks_is_a_variable_reordering : forall kx ky, perm_of (kx + ky) (block_swap kx ky).
Proof. exact block_swap_perm. Qed.
Print Assumptions C10_exchanging_X_and_Y_blocks_is_a_variable_reordering.
