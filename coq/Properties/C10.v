(* C10 -- estimates ignore sample order, conditioning-column order and X/Y roles. *)
From Coq Require Import List ZArith QArith Reals Permutation.
From CE Require Import Model.Itv Model.KnnCounts Model.Kde Model.PoissonMI Model.PoissonCMI Model.Poisson
     Proofs.KnnInvProofs Proofs.KdeInvProofs Proofs.PoissonMIProofs Proofs.PoissonCMIProofs Proofs.PoissonCMIValues
     Proofs.PoissonSeries Proofs.PoissonCMISeries.
Import ListNotations.
Close Scope Q_scope.

(* ---- kNN (exact rational model; any metric, k, N, dimensions; ties allowed) ---- *)
Theorem C10_knn_mi_ignores_sample_order : forall m k all all', Permutation all all' ->
  opt_Qeq (knn_mi m k all) (knn_mi m k all').
Proof. exact knn_mi_row_perm. Qed.
Print Assumptions C10_knn_mi_ignores_sample_order.

Theorem C10_knn_cmi_ignores_sample_order : forall m k all all', Permutation all all' ->
  opt_Qeq (knn_cmi m k all) (knn_cmi m k all').
Proof. exact knn_cmi_row_perm. Qed.
Print Assumptions C10_knn_cmi_ignores_sample_order.

Theorem C10_knn_mi_symmetric_in_X_and_Y : forall m k all, uniform all ->
  opt_Qeq (knn_mi m k (map swap all)) (knn_mi m k all).
Proof. exact knn_mi_swap. Qed.
Print Assumptions C10_knn_mi_symmetric_in_X_and_Y.

Theorem C10_knn_cmi_symmetric_in_X_and_Y : forall m k all, uniform all ->
  opt_Qeq (knn_cmi m k (map swap all)) (knn_cmi m k all).
Proof. exact knn_cmi_swap. Qed.
Print Assumptions C10_knn_cmi_symmetric_in_X_and_Y.

(* sigma any permutation of Z's column indices *)
Theorem C10_knn_cmi_ignores_order_of_Z_columns : forall m k sigma all dz, uniform all ->
  (forall p, In p all -> length (sz p) = dz) -> Permutation sigma (seq 0 dz) ->
  opt_Qeq (knn_cmi m k (map (zperm sigma) all)) (knn_cmi m k all).
Proof. exact knn_cmi_zcol_perm. Qed.
Print Assumptions C10_knn_cmi_ignores_order_of_Z_columns.

(* ---- KDE (real-valued model; any bandwidth rule / positive number, N, dimensions) ---- *)
Theorem C10_kde_cmi_ignores_sample_order : forall b D, D <> 0%Z -> bw_ok b -> forall all all' wx wy wz,
  all <> [] -> widths all wx wy wz -> Permutation all all' ->
  evalR [] (kde_cmi_expr b D all) = evalR [] (kde_cmi_expr b D all').
Proof. exact kde_cmi_row_perm. Qed.
Print Assumptions C10_kde_cmi_ignores_sample_order.

Theorem C10_kde_mi_ignores_sample_order : forall b D, D <> 0%Z -> bw_ok b -> forall all all' wx wy wz,
  all <> [] -> widths all wx wy wz -> Permutation all all' ->
  evalR [] (kde_mi_expr b D all) = evalR [] (kde_mi_expr b D all').
Proof. exact kde_mi_row_perm. Qed.
Print Assumptions C10_kde_mi_ignores_sample_order.

Theorem C10_kde_cmi_symmetric_in_X_and_Y : forall b D, D <> 0%Z -> bw_ok b -> forall all wx wy wz,
  all <> [] -> widths all wx wy wz ->
  evalR [] (kde_cmi_expr b D (map swap all)) = evalR [] (kde_cmi_expr b D all).
Proof. exact kde_cmi_swap. Qed.
Print Assumptions C10_kde_cmi_symmetric_in_X_and_Y.

Theorem C10_kde_mi_symmetric_in_X_and_Y : forall b D, D <> 0%Z -> bw_ok b -> forall all wx wy wz,
  all <> [] -> widths all wx wy wz ->
  evalR [] (kde_mi_expr b D (map swap all)) = evalR [] (kde_mi_expr b D all).
Proof. exact kde_mi_swap. Qed.
Print Assumptions C10_kde_mi_symmetric_in_X_and_Y.

Theorem C10_kde_cmi_ignores_order_of_Z_columns : forall b D, D <> 0%Z -> bw_ok b -> forall all sigma wx wy wz,
  all <> [] -> widths all wx wy wz -> Permutation sigma (seq 0 wz) ->
  evalR [] (kde_cmi_expr b D (map (zperm sigma) all)) = evalR [] (kde_cmi_expr b D all).
Proof. exact kde_cmi_zcol_perm. Qed.
Print Assumptions C10_kde_cmi_ignores_order_of_Z_columns.

(* ---- Poisson, unconditional path: the estimate is a symmetric function of the variables of the (symmetric)
   correlation matrix, for any entropy function h; exchanging the X and Y blocks is such a reordering ---- *)
Theorem C10_poisson_unconditional_ignores_variable_order : forall h, (forall a b, (a == b)%Q -> (h a == h b)%Q) ->
  forall n r, (forall i j, (r i j == r j i)%Q) -> forall s, perm_of n s ->
  (pmi h n (rs r s) == pmi h n r)%Q.
Proof. exact pmi_variable_order. Qed.
Print Assumptions C10_poisson_unconditional_ignores_variable_order.

Theorem C10_exchanging_X_and_Y_blocks_is_a_variable_reordering : forall kx ky, perm_of (kx + ky) (block_swap kx ky).
Proof. exact block_swap_perm. Qed.
Print Assumptions C10_exchanging_X_and_Y_blocks_is_a_variable_reordering.

(* ---- Poisson, CONDITIONAL path (Model/PoissonCMI.v: the `else:` branch of poisson_conditional_mutual_information, arrays with shapes,
   aliasing, fill_diagonal's flat value, element-wise fancy indexing and poisson_joint_entropy on non-square arrays reproduced).
   pcmi_terms = the signed arguments handed to poisson_entropy + the entropy-free remainder; pcmi_est h = their signed sum for an
   arbitrary entropy function h; None = the code raises ValueError.  S is the matrix np.corrcoef returned (data). ---- *)

(* the code raises exactly when X and Y have different numbers of columns *)
Theorem C10_poisson_conditional_rejects_unequal_XY_widths : forall kx ky kz S, pcmi_terms kx ky kz S = None <-> kx <> ky.
Proof. exact pcmi_raises. Qed.
Print Assumptions C10_poisson_conditional_rejects_unequal_XY_widths.

(* the estimate depends on the sample only through the (k_x+k_y+k_z)^2 entries of its correlation matrix ... *)
Theorem C10_poisson_conditional_depends_on_the_sample_only_through_its_correlation_matrix :
  forall h, (forall a b, (a == b)%Q -> (h a == h b)%Q) -> forall kx ky kz S S', (1 <= kx)%nat -> (1 <= ky)%nat -> (1 <= kz)%nat ->
  (forall i j, (i < kx + ky + kz)%nat -> (j < kx + ky + kz)%nat -> (at_ S' i j == at_ S i j)%Q) ->
  oQeq (pcmi_est h kx ky kz S') (pcmi_est h kx ky kz S).
Proof. exact pcmi_ext. Qed.
Print Assumptions C10_poisson_conditional_depends_on_the_sample_only_through_its_correlation_matrix.

(* ... so it ignores the order of the rows whenever the correlation oracle does (np.corrcoef: row sums) *)
Theorem C10_poisson_conditional_row_order_inherited_from_the_correlation_matrix :
  forall h, (forall a b, (a == b)%Q -> (h a == h b)%Q) -> forall (sample : Type) (corr : sample -> arr) (reordered : sample -> sample -> Prop),
  (forall a b, reordered a b -> forall i j, (at_ (corr b) i j == at_ (corr a) i j)%Q) ->
  forall kx ky kz a b, (1 <= kx)%nat -> (1 <= ky)%nat -> (1 <= kz)%nat -> reordered a b ->
  oQeq (pcmi_est h kx ky kz (corr b)) (pcmi_est h kx ky kz (corr a)).
Proof. exact pcmi_row_order. Qed.
Print Assumptions C10_poisson_conditional_row_order_inherited_from_the_correlation_matrix.

(* what the branch computes, for every entropy function and all sizes k = k_x = k_y >= 1, k_z >= 1:
   sum_i h|d_i| - h|d_0| - h|d_k| + h|d_2k| + sum_{p=1..k_z-1} d_{2k+p} + sum_{i<j} r_ij + sum_{i<j<k} (r_{i,k+j} + r_{k+i,j}),
   d_i = r_ii - r_0i (i > 0) + (r_{i,k+i} | r_{i,i-k} | nothing) for an X | Y | Z column *)
Theorem C10_poisson_conditional_closed_form : forall h, (forall a b, (a == b)%Q -> (h a == h b)%Q) -> forall k kz S, (1 <= k)%nat -> (1 <= kz)%nat ->
  oQeq (pcmi_est h k k kz S) (Some (pcmi_closed h k kz (dS k kz S) S)) /\
  forall i, (i < k + k + kz)%nat -> (dS k kz S i == dform k S i)%Q.
Proof. exact pcmi_closed_form. Qed.
Print Assumptions C10_poisson_conditional_closed_form.

(* what IS invariant, for every symmetric matrix, entropy function and size: re-orderings that keep the first X, first Y and first Z column
   in place, move X and Y columns together and map every block to itself (compat) -- in particular every re-ordering of Z's columns
   that fixes the first one *)
Theorem C10_poisson_conditional_invariant_when_first_columns_stay_and_XY_move_together :
  forall h, (forall a b, (a == b)%Q -> (h a == h b)%Q) -> forall k kz S s, (1 <= k)%nat -> (1 <= kz)%nat ->
  (forall i j, (at_ S i j == at_ S j i)%Q) -> compat k kz s ->
  oQeq (pcmi_est h k k kz (reindex s S)) (pcmi_est h k k kz S).
Proof. exact pcmi_reindex_invariant. Qed.
Print Assumptions C10_poisson_conditional_invariant_when_first_columns_stay_and_XY_move_together.

(* known finding K2a, formally: there is a correlation matrix of a count sample (8 rows; k_x = k_y = 1, k_z = 2) on which the call with X and Y
   exchanged hands a different multiset of signed arguments to poisson_entropy, and the VALUE moves by more than 3/4 for every real entropy
   function within 1e-9 of the certified Poisson entropies at the two rates involved (near_certified; next theorem but one) *)
Theorem C10_poisson_conditional_swap_refuted : exists M kx ky kz t t',
  is_corr_of witness_sample M (kx + ky + kz)%nat = true /\ sym_unit M (kx + ky + kz)%nat = true /\
  pcmi_terms kx ky kz (of_lists M) = Some t /\ pcmi_terms ky kx kz (reindex (swap_xyz kx ky) (of_lists M)) = Some t' /\
  (exists x, count_sr x (fst t) <> count_sr x (fst t')) /\
  forall hR, near_certified hR -> (pcmi_valueR hR t + 3 / 4 < pcmi_valueR hR t')%R.
Proof. exact swap_refuted. Qed.
Print Assumptions C10_poisson_conditional_swap_refuted.

(* known finding K2b, formally: ... on which exchanging Z's two columns does; the value moves by more than 1/10 *)
Theorem C10_poisson_conditional_zorder_refuted : exists M kx ky kz tau t t',
  is_corr_of witness_sample M (kx + ky + kz)%nat = true /\ sym_unit M (kx + ky + kz)%nat = true /\ Permutation tau (seq 0%nat kz) /\
  pcmi_terms kx ky kz (of_lists M) = Some t /\ pcmi_terms kx ky kz (reindex (zcols kx ky tau) (of_lists M)) = Some t' /\
  (exists x, count_sr x (fst t) <> count_sr x (fst t')) /\
  forall hR, near_certified hR -> (pcmi_valueR hR t' + 1 / 10 < pcmi_valueR hR t)%R.
Proof. exact zorder_refuted. Qed.
Print Assumptions C10_poisson_conditional_zorder_refuted.

(* the Poisson entropy IS near_certified: the two in-kernel certificates; by C13_complete_accuracy_certificate each says that every partial
   sum of the entropy series from 30 terms on is within 1e-9 of h_half resp. h_one (composed statements:
   Proofs/PoissonCMISeries.v swap_values_differ_for_the_poisson_entropy_series, zorder_..., checked when the development is built) *)
Theorem C10_poisson_entropies_of_the_witness_rates_are_certified :
  check_entropy_full_case (1, 2, 30%nat, Qnum h_half, Zpos (Qden h_half))%Z = true /\
  check_entropy_full_case (1, 1, 30%nat, Qnum h_one, Zpos (Qden h_one))%Z = true.
Proof. exact witness_certificates. Qed.
Print Assumptions C10_poisson_entropies_of_the_witness_rates_are_certified.

(* the same two refutations without real numbers (axiom-free): the multisets of signed arguments differ; for Z's columns also the
   entropy-free remainder *)
Theorem C10_poisson_conditional_swap_changes_the_entropy_arguments : exists M kx ky kz t t',
  is_corr_of witness_sample M (kx + ky + kz)%nat = true /\ sym_unit M (kx + ky + kz)%nat = true /\
  pcmi_terms kx ky kz (of_lists M) = Some t /\ pcmi_terms ky kx kz (reindex (swap_xyz kx ky) (of_lists M)) = Some t' /\
  exists x, count_sr x (fst t) <> count_sr x (fst t').
Proof. exact swap_rates_differ. Qed.
Print Assumptions C10_poisson_conditional_swap_changes_the_entropy_arguments.

Theorem C10_poisson_conditional_zorder_changes_the_entropy_arguments : exists M kx ky kz tau t t',
  is_corr_of witness_sample M (kx + ky + kz)%nat = true /\ sym_unit M (kx + ky + kz)%nat = true /\ Permutation tau (seq 0%nat kz) /\
  pcmi_terms kx ky kz (of_lists M) = Some t /\ pcmi_terms kx ky kz (reindex (zcols kx ky tau) (of_lists M)) = Some t' /\
  (exists x, count_sr x (fst t) <> count_sr x (fst t')) /\ ~ (snd t == snd t')%Q.
Proof. exact zorder_rates_differ. Qed.
Print Assumptions C10_poisson_conditional_zorder_changes_the_entropy_arguments.

(* K2a / K2b with the Poisson entropy series itself (every truncation from 30 terms on, hence the entropy): on the witness sample the
   model's estimate moves by more than 3/4 when X and Y are exchanged and by more than 1/10 when Z's two columns are exchanged *)
Theorem C10_poisson_conditional_swap_refuted_for_the_entropy_series : forall K, (30 <= K)%nat ->
  (pcmi_valueR (fun lam => partial_entropy lam K) t_orig + 3 / 4 < pcmi_valueR (fun lam => partial_entropy lam K) t_swap)%R.
Proof. exact swap_values_differ_for_the_poisson_entropy_series. Qed.
Print Assumptions C10_poisson_conditional_swap_refuted_for_the_entropy_series.

Theorem C10_poisson_conditional_zorder_refuted_for_the_entropy_series : forall K, (30 <= K)%nat ->
  (pcmi_valueR (fun lam => partial_entropy lam K) t_zrev + 1 / 10 < pcmi_valueR (fun lam => partial_entropy lam K) t_orig)%R.
Proof. exact zorder_values_differ_for_the_poisson_entropy_series. Qed.
Print Assumptions C10_poisson_conditional_zorder_refuted_for_the_entropy_series.
