(* C07 -- discovery is a deterministic function of (data, parameters) only.
   The statements about the stateful reading (History) hold of the model BY CONSTRUCTION: it has no hidden state.
   They fix what the history correspondence establishes about the implementation.  The statements about the effect
   table (Effects) hold for EVERY table; the generated file instantiates them on today's source. *)
From Coq Require Import List ZArith QArith Bool String.
From CE Require Import Model.History Proofs.HistoryProofs Model.Effects Proofs.EffectsProofs.
Import ListNotations.

(* the answer to (data, parameters) is the same after ANY two histories, started in ANY two worlds *)
Theorem C07_history_independent : forall (NpState PyState Rest : Type) (discover : request -> result)
  (h1 h2 : list (op NpState PyState Rest)) (w1 w2 : world NpState PyState Rest) p prm,
  resp_after NpState PyState Rest discover h1 w1 p prm = resp_after NpState PyState Rest discover h2 w2 p prm.
Proof. exact history_independent. Qed.
Print Assumptions C07_history_independent.

(* a call leaves both global generators (and everything else) exactly as it found them *)
Theorem C07_globals_framed : forall (NpState PyState Rest : Type) (discover : request -> result)
  (w : world NpState PyState Rest) p prm,
  let w' := fst (step NpState PyState Rest discover w (Call p prm)) in
  np_rng w' = np_rng w /\ py_rng w' = py_rng w /\ rest w' = rest w.
Proof. exact globals_framed. Qed.
Print Assumptions C07_globals_framed.

(* over whole histories: the world at the end is the one reached with every call erased *)
Theorem C07_calls_can_be_erased : forall (NpState PyState Rest : Type) (discover : request -> result)
  (h : list (op NpState PyState Rest)) (w : world NpState PyState Rest),
  run NpState PyState Rest discover h w =
  run NpState PyState Rest discover (filter (fun o => negb (is_call NpState PyState Rest o)) h) w.
Proof. exact calls_can_be_erased. Qed.
Print Assumptions C07_calls_can_be_erased.

(* the same numbers under two presentations (array / lists / labelled frame, C / F order, int / float), after any
   two histories: identical edges once each answer's node names are mapped back to column indices.  Hypotheses:
   labels distinct and one per column; the answer's edges refer to columns of the data (C06). *)
Theorem C07_presentation_independent : forall (NpState PyState Rest : Type) (discover : request -> result),
  (forall rq, in_range (ncols (fst rq)) (discover rq)) ->
  forall (h1 h2 : list (op NpState PyState Rest)) (w1 w2 : world NpState PyState Rest) p1 p2 prm,
  abs p1 = abs p2 -> well_presented p1 -> well_presented p2 ->
  answer_edges p1 (resp_after NpState PyState Rest discover h1 w1 p1 prm) =
  answer_edges p2 (resp_after NpState PyState Rest discover h2 w2 p2 prm).
Proof. exact presentation_independent. Qed.
Print Assumptions C07_presentation_independent.

(* every presentation that is not a data frame is well presented (default names X0, X1, ... are distinct) *)
Theorem C07_arrays_and_lists_are_well_presented : forall p, is_frame p = false -> well_presented p.
Proof. exact arrays_well_presented. Qed.
Print Assumptions C07_arrays_and_lists_are_well_presented.

(* the float presentations of one rectangular matrix (C order, Fortran order = its transpose stored by columns, nested
   lists, frame of its columns under any labels) are the same abstract request data *)
Theorem C07_float_presentations_one_matrix : forall k (m : list (list Q)) ls, m <> [] -> (0 < k)%nat -> rect k m ->
  abs (ArrF (transpose m)) = abs (ArrC m) /\ abs (Nested m) = abs (ArrC m) /\
  abs (Frame ls (map QCol (transpose m))) = abs (ArrC m).
Proof. exact float_presentations_one_matrix. Qed.
Print Assumptions C07_float_presentations_one_matrix.

(* integer-typed counts in any layout / container = the float array holding the same integers *)
Theorem C07_int_presentations_one_matrix : forall k (mz : list (list Z)) ls, mz <> [] -> (0 < k)%nat -> rect k mz ->
  abs (IntArrC mz) = abs (ArrC (of_ints mz)) /\ abs (IntNested mz) = abs (ArrC (of_ints mz)) /\
  abs (IntArrF (transpose mz)) = abs (ArrC (of_ints mz)) /\
  abs (Frame ls (map ZCol (transpose mz))) = abs (ArrC (of_ints mz)).
Proof. exact int_presentations_one_matrix. Qed.
Print Assumptions C07_int_presentations_one_matrix.

(* every answer of every history is the FIRST answer given to the same abstract request (memo-table spec) *)
Theorem C07_refines_memo_spec : forall (NpState PyState Rest : Type) (discover : request -> result)
  (h : list (op NpState PyState Rest)) (w : world NpState PyState Rest),
  map snd (trace NpState PyState Rest discover h w) = spec_answers NpState PyState Rest discover h [].
Proof. exact refines_memo_spec. Qed.
Print Assumptions C07_refines_memo_spec.

(* soundness of the in-kernel history checker: an observed history it accepts is functional in the abstract request *)
Theorem C07_checked_history_is_functional : forall d w es,
  (forall rq, in_range (ncols (fst rq)) (d rq)) -> check_events d w es = true ->
  forall p1 prm1 obs1 a1 b1 p2 prm2 obs2 a2 b2,
    In (ECall p1 prm1 obs1 a1 b1) es -> In (ECall p2 prm2 obs2 a2 b2) es ->
    mk_req p1 prm1 = mk_req p2 prm2 -> well_presented p1 -> well_presented p2 ->
    fst obs1 = labels p1 /\ fst obs2 = labels p2 /\ canon (labels p1) (snd obs1) = canon (labels p2) (snd obs2).
Proof. exact checked_history_is_functional. Qed.
Print Assumptions C07_checked_history_is_functional.

(* ... and each call in it left both global generator digests where the history had put them *)
Theorem C07_checked_call_is_framed : forall d w p prm obs a b es,
  check_events d w (ECall p prm obs a b :: es) = true -> a = np_rng w /\ b = py_rng w.
Proof. exact checked_call_is_framed. Qed.
Print Assumptions C07_checked_call_is_framed.

(* effect table, for every table: when the scope check passes the computed set is exactly the call-graph closure *)
Theorem C07_reachable_set_sound_and_complete : forall t root, scope_ok t root = true ->
  forall f, In f (reach_set t root) <-> Reach t root f.
Proof. exact reach_set_exact. Qed.
Print Assumptions C07_reachable_set_sound_and_complete.

(* no_global_rng_reachable = true means: NO function reachable from the root uses hidden or ambient state *)
Theorem C07_no_global_rng_reachable_sound : forall t root, no_global_rng_reachable t root = true ->
  forall f, Reach t root f -> exists e, lookup_fn t f = Some e /\ flags e = [].
Proof. exact no_global_rng_sound. Qed.
Print Assumptions C07_no_global_rng_reachable_sound.

(* seed_is_literal = true means: the root creates its generator inside the call from an integer literal *)
Theorem C07_seed_is_literal_sound : forall t root, seed_is_literal t root = true ->
  exists e k, lookup_fn t root = Some e /\ rngk e = RngSeeded k.
Proof. exact seed_is_literal_sound. Qed.
Print Assumptions C07_seed_is_literal_sound.

(* rng_threaded_to_every_test = true means: at every call site in a reachable function a callee that takes a
   generator receives the caller's own one, the caller has one, and every test function is reachable *)
Theorem C07_rng_threaded_sound : forall t root tests, rng_threaded_to_every_test t root tests = true ->
  (forall f, Reach t root f -> exists e, lookup_fn t f = Some e /\ rngk e <> RngBad /\
     forall g a, In (g, a) (calls e) -> exists ge, lookup_fn t g = Some ge /\ rngk ge <> RngBad /\
       (rngk ge = RngParam -> a = ArgRng /\ carries (rngk e) = true))
  /\ tests <> [] /\ (forall x, In x tests -> Reach t root x /\ exists e, lookup_fn t x = Some e /\ rngk e = RngParam).
Proof. exact rng_threaded_sound. Qed.
Print Assumptions C07_rng_threaded_sound.
