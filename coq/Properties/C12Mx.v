(* C12, mathcomp tier (abstract matrices over a field, ALL sizes k, d): why geometric_knn_entropy may -- and after finding
   F6 does -- read only the first k singular values of a centred (k+1)-point neighbourhood.

   P : 'M_(k+1, d) is the neighbourhood (the sample and its k nearest neighbours in rows);
   centre P = P - ones^T *m ((k+1)^-1 *: (ones *m P))     the code's  X[nbhd] - np.mean(X[nbhd], axis=0);
   gramT Y = Y^T *m Y  (d x d, its eigenvalues are the squared singular values);   gramS Y = Y *m Y^T  ((k+1) x (k+1));
   edge j = e_j - e_0, so  edge j *m centre P  is the difference vector "neighbour j minus the sample" (Z_i[j] of the code).
   The first group of theorems is about mathcomp matrices.  The second group (LIST MODEL, below) transports them through
   LinAlgBridge.v / GeoRankBridge.v to the executable functions the correspondence evaluates on every recorded neighbourhood
   (Model/GeoEllipsoid.centred, gram; Model/GeoRank.zdet, gram_rows, rank_one; Model/Gauss.det_piv): the cofactor-expansion
   determinant IS \det, the executable centring IS (k+1) x GeoRankMx.centre, and both Gram determinants of a centred
   neighbourhood vanish for EVERY input (k < d for the d x d one) -- no longer only computed case by case. *)
From Coq Require Import QArith ZArith List.
From mathcomp Require Import all_ssreflect all_algebra.
From mathcomp Require Import ssrZ.
From CE Require Import GeoRankMx GeneratorsMxBridge LinAlgBridge GeoRankBridge.
From CE Require Model.Gauss Model.GeoKnn Model.GeoEllipsoid Model.GeoRank.
Close Scope Q_scope. Close Scope Z_scope.
Set Implicit Arguments. Unset Strict Implicit. Unset Printing Implicit Defensive.
Local Open Scope ring_scope.

(* any field in which k+1 is invertible: ones annihilates the centred neighbourhood; its rank, and that of its Gram matrix,
   is at most k; the small Gram matrix is always singular *)
Theorem C12_centred_neighbourhood_has_rank_at_most_k :
  forall (F : fieldType) (k d : nat), (k.+1)%:R != 0 :> F -> forall P : 'M[F]_(k.+1, d),
  [/\ ones F k *m centre P = 0, (\rank (centre P) <= k)%N, (\rank (gramT (centre P)) <= k)%N & \det (gramS (centre P)) = 0].
Proof. exact: rank_facts. Qed.
Print Assumptions C12_centred_neighbourhood_has_rank_at_most_k.

(* k < d: Y^T Y is singular, 0 is an eigenvalue (a root of the characteristic polynomial) with an eigenspace of dimension
   >= d - k: at most k squared singular values are non-zero, the (k+1)-th largest is exactly 0 *)
Theorem C12_gram_matrix_singular_when_k_lt_d :
  forall (F : fieldType) (k d : nat), (k.+1)%:R != 0 :> F -> forall P : 'M[F]_(k.+1, d), (k < d)%N ->
  [/\ \det (gramT (centre P)) = 0, eigenvalue (gramT (centre P)) 0, root (char_poly (gramT (centre P))) 0
    & (d - k <= \rank (kermx (gramT (centre P))))%N].
Proof. exact: singular_facts. Qed.
Print Assumptions C12_gram_matrix_singular_when_k_lt_d.

(* characteristic 0 (rat, any numFieldType): the same with no hypothesis *)
Theorem C12_rank_at_most_k_char0 :
  forall (K : numFieldType) (k d : nat) (P : 'M[K]_(k.+1, d)),
  [/\ ones K k *m centre P = 0, (\rank (centre P) <= k)%N, (\rank (gramT (centre P)) <= k)%N & \det (gramS (centre P)) = 0].
Proof. exact: rank_facts_char0. Qed.
Print Assumptions C12_rank_at_most_k_char0.

Theorem C12_gram_matrix_singular_when_k_lt_d_char0 :
  forall (K : numFieldType) (k d : nat) (P : 'M[K]_(k.+1, d)), (k < d)%N ->
  [/\ \det (gramT (centre P)) = 0, eigenvalue (gramT (centre P)) 0, root (char_poly (gramT (centre P))) 0
    & (d - k <= \rank (kermx (gramT (centre P))))%N].
Proof. exact: singular_facts_char0. Qed.
Print Assumptions C12_gram_matrix_singular_when_k_lt_d_char0.

(* the instance used by the rational correspondence *)
Theorem C12_gram_matrix_singular_when_k_lt_d_rat :
  forall (k d : nat) (P : 'M[rat]_(k.+1, d)), (k < d)%N -> \det (gramT (centre P)) = 0.
Proof. exact: det_gramT_rat. Qed.
Print Assumptions C12_gram_matrix_singular_when_k_lt_d_rat.

(* the ellipsoid test on a rank-k neighbourhood (general position; in particular every generic k < d neighbourhood): whatever
   solution x of (Y^T Y) x = z_j is used -- Y^T Y is singular when k < d -- the quadratic form z_j . x is exactly 2 > 1, so
   no neighbour is inside: the count is 0, as Model/GeoEllipsoid.ins_exact returns and as the implementation computes
   (its sum over ALL min(k+1, d) columns is this 2 plus the square of a noise/noise quotient, >= 0 or NaN: never <= 1) *)
Theorem C12_rank_k_ellipsoid_quadratic_form_is_2 :
  forall (F : fieldType) (k d : nat), (k.+1)%:R != 0 :> F ->
  forall (P : 'M[F]_(k.+1, d)) (j : 'I_k.+1) (x : 'rV[F]_d),
  \rank (centre P) = k -> j != 0 -> x *m gramT (centre P) = edge F j *m centre P ->
  (edge F j *m centre P) *m x^T = 2%:R%:M.
Proof. exact: rank_k_quadratic_form_is_2. Qed.
Print Assumptions C12_rank_k_ellipsoid_quadratic_form_is_2.

(* ... and its hypotheses are satisfiable with k < d (singular Gram matrix): the k-simplex padded with m zero coordinates *)
Theorem C12_rank_k_hypotheses_satisfiable_when_k_lt_d :
  forall (R : realFieldType) (k m : nat) (j : 'I_k.+1),
  let P := row_mx (simplex R k) (0 : 'M_(k.+1, m)) in
  \rank (centre P) = k /\ exists x, x *m gramT (centre P) = edge R j *m centre P.
Proof. exact: padded_simplex_instance. Qed.
Print Assumptions C12_rank_k_hypotheses_satisfiable_when_k_lt_d.

(* k >= d is not vacuous: for every d the origin and the d unit vectors (k = d) have a centred matrix of full column rank
   d = k -- the bound is attained -- and, over an ordered field, an invertible Gram matrix *)
Theorem C12_rank_bound_attained_for_k_eq_d :
  (forall (F : fieldType) (d : nat), \rank (centre (simplex F d)) = d) /\
  (forall (R : realFieldType) (d : nat), \det (gramT (centre (simplex R d))) != 0).
Proof. exact: (conj rank_centre_simplex det_gram_simplex_neq0). Qed.
Print Assumptions C12_rank_bound_attained_for_k_eq_d.

(* ordered fields: the Gram matrix has exactly the rank of the matrix (so "det (Y^T Y) = 0" is "rank Y < d") *)
Theorem C12_gram_rank_is_matrix_rank_over_ordered_fields :
  forall (R : realFieldType) (k d : nat) (Y : 'M[R]_(k.+1, d)), \rank (gramT Y) = \rank Y.
Proof. exact: rank_gramT. Qed.
Print Assumptions C12_gram_rank_is_matrix_rank_over_ordered_fields.

(* ================================ LIST MODEL (refinement lists <-> 'M[rat]_(m, n)) ================================ *)
(* mx_of_zmat n m M : 'M[rat]_(n, m) has entry (i, j) = Zrat (nth j (nth i M [::]) 0);  Zrat : Z -> rat the ring embedding;
   mx_of_mat likewise for lists over Q with Qrat : Q -> rat *)

(* the cofactor expansion of Model/GeoRank.v computes the determinant: every n, every list matrix with n rows *)
Theorem C12_cofactor_expansion_on_lists_is_the_determinant :
  forall (n : nat) (M : seq (seq Z)), size M = n -> Zrat (GeoRank.zdet n M) = \det (mx_of_zmat n n M).
Proof. exact: zdet_det. Qed.
Print Assumptions C12_cofactor_expansion_on_lists_is_the_determinant.

(* ... and whenever Model/Gauss.v's elimination without pivoting succeeds on an integer matrix it returns the same number *)
Theorem C12_elimination_agrees_with_cofactor_expansion :
  forall (n : nat) (M : seq (seq Z)) (q : Q), wf_mat n n M ->
  Gauss.det_piv (List.map (List.map inject_Z) M) = Some q -> Qeq q (inject_Z (GeoRank.zdet n M)).
Proof. exact: det_piv_zdet. Qed.
Print Assumptions C12_elimination_agrees_with_cofactor_expansion.

(* the executable centring (integers, no division) is (k+1) x the mathcomp centring of the same points, and the two
   executable Gram matrices are gramT / gramS of it *)
Theorem C12_executable_centring_is_the_mathcomp_centring :
  forall (k d : nat) (nb : seq (seq Z)), size nb = k.+1 -> List.Forall (fun q => List.length q = d) nb ->
  mx_of_zmat k.+1 d (GeoEllipsoid.centred nb d) = (k.+1)%:R *: centre (mx_of_zmat k.+1 d nb) /\
  mx_of_zmat d d (GeoEllipsoid.gram (GeoEllipsoid.centred nb d) d) = gramT (mx_of_zmat k.+1 d (GeoEllipsoid.centred nb d)) /\
  mx_of_zmat k.+1 k.+1 (GeoRank.gram_rows (GeoEllipsoid.centred nb d)) = gramS (mx_of_zmat k.+1 d (GeoEllipsoid.centred nb d)).
Proof. exact: centred_mx_facts. Qed.
Print Assumptions C12_executable_centring_is_the_mathcomp_centring.

(* THE RANK FACT ON LISTS, every neighbourhood (k+1 = length nb points of length d), every k and d: det (A A^T) = 0 always;
   k < d: det (A^T A) = 0 by cofactor expansion AND Model/Gauss.v's elimination meets a zero pivot
   (transport of C12_gram_matrix_singular_when_k_lt_d_rat and of det (gramS (centre P)) = 0) *)
Theorem C12_gram_determinants_of_a_centred_neighbourhood_vanish_on_lists :
  forall (nb : seq (seq Z)) (d : nat), nb <> [::] -> List.Forall (fun q => List.length q = d) nb ->
  GeoRank.zdet (List.length nb) (GeoRank.gram_rows (GeoEllipsoid.centred nb d)) = Z0 /\
  ((List.length nb <= d)%coq_nat ->
     GeoRank.zdet d (GeoEllipsoid.gram (GeoEllipsoid.centred nb d) d) = Z0 /\
     Gauss.det_piv (List.map (List.map inject_Z) (GeoEllipsoid.gram (GeoEllipsoid.centred nb d) d)) = None).
Proof. exact: centred_gram_determinants. Qed.
Print Assumptions C12_gram_determinants_of_a_centred_neighbourhood_vanish_on_lists.

(* hence the per-neighbourhood check of the correspondence (Model/GeoRank.rank_one) is, for every well-shaped input, exactly
   the comparison with the recorded singular values -- s0 > 0 and, for k < d, trailing^2 * 1e12 <= leading^2 -- plus, for
   k >= d, "the Gram matrix is non-singular": every exact-arithmetic conjunct (column sums, both cofactor determinants,
   the zero pivot, agreement of the two determinant functions) is a theorem *)
Theorem C12_rank_check_exact_arithmetic_part_is_a_theorem :
  forall (d : nat) (p : seq Z) (l : seq (seq Z)) (s0 st : Q), List.Forall (fun q => List.length q = d) (p :: l) ->
  GeoRank.rank_one d p l s0 st =
  negb (Qle_bool s0 (Qmake Z0 xH)) &&
  (if Nat.ltb (List.length l) d then Qle_bool (Qmult st GeoRank.E12) s0
   else if Gauss.det_piv (List.map (List.map inject_Z) (GeoEllipsoid.gram (GeoEllipsoid.centred (p :: l) d) d)) is Some _
        then true else false).
Proof. exact: rank_one_exact_part. Qed.
Print Assumptions C12_rank_check_exact_arithmetic_part_is_a_theorem.
