(* C09 -- dispatcher = named estimator with the given settings, floored at zero. *)
From Coq Require Import QArith Qminmax String List Bool.
From CE Require Import Model.Dispatch Proofs.DiscoverProofs Proofs.DispatchProofs.
Open Scope string_scope.

Theorem C09_floor_is_max_0_on_finite_and_identity_otherwise : forall v,
  match v with
  | Fin q => exists q', floor0 v = Fin q' /\ (q' == Qmax 0 q)%Q
  | _ => floor0 v = v
  end.
Proof. exact floor0_spec. Qed.
Print Assumptions C09_floor_is_max_0_on_finite_and_identity_otherwise.

Theorem C09_dispatcher_returns_floored_value_of_named_estimator : forall tbl est name zp r,
  lookup_route tbl name zp = Some r -> dispatch tbl est name zp = Some (floor0 (est r)).
Proof. exact dispatch_is_floored_estimator. Qed.
Print Assumptions C09_dispatcher_returns_floored_value_of_named_estimator.

Theorem C09_never_finite_negative : forall tbl est name zp v,
  dispatch tbl est name zp = Some v -> finite_negative v = false.
Proof. exact dispatch_never_finite_negative. Qed.
Print Assumptions C09_never_finite_negative.

Theorem C09_nonfinite_passes_through : forall tbl est name zp r,
  lookup_route tbl name zp = Some r ->
  (est r = NaN -> dispatch tbl est name zp = Some NaN) /\
  (est r = PInf -> dispatch tbl est name zp = Some PInf) /\
  (est r = NInf -> dispatch tbl est name zp = Some NInf).
Proof. exact nonfinite_passes_through. Qed.
Print Assumptions C09_nonfinite_passes_through.

Theorem C09_unknown_name_raises : forall est name zp,
  mem name names = false -> dispatch modelled_routes est name zp = None.
Proof. exact unknown_name_raises. Qed.
Print Assumptions C09_unknown_name_raises.

Theorem C09_kde_and_kernel_density_alike : forall est zp,
  (forall r r', r_callee r = r_callee r' -> r_forwards r = r_forwards r' -> r_zpresent r = r_zpresent r' -> est r = est r') ->
  dispatch modelled_routes est "kde" zp = dispatch modelled_routes est "kernel_density" zp.
Proof. exact kde_alias. Qed.
Print Assumptions C09_kde_and_kernel_density_alike.

(* partial: the full statement "every route forwards every accepted setting" is FALSE of the code
   (next theorem); it holds for every route but (geometric_knn, Z absent) *)
Theorem C09_settings_forwarded_partial : forall r, In r modelled_routes -> is_K1 r = false -> forwards_all r = true.
Proof. exact forwards_partial. Qed.
Print Assumptions C09_settings_forwarded_partial.

Theorem C09_settings_forwarded_refuted_K1 : exists r, In r modelled_routes /\ is_K1 r = true /\
  mem "k" (accepts (r_callee r)) = true /\ mem "k" (r_forwards r) = false /\ mem "metric" (r_forwards r) = false.
Proof. exact forwards_refuted. Qed.
Print Assumptions C09_settings_forwarded_refuted_K1.
