(* C20 -- plotting is total on discoverable networks and leaves the graph unchanged (partial:
   the layout, grouping and normalisation logic is proved; matplotlib/networkx drawing is observed at run time). *)
From Coq Require Import List Arith ZArith QArith Bool Permutation Reals Sorted.
From CE Require Import Model.Harness Model.Itv Model.Layout Model.LayoutPos Proofs.LayoutProofs Proofs.LayoutPosProofs.
Import ListNotations.

(* the community seed order is a permutation of the node list for EVERY answer of the community finder
   (overlapping, incomplete, any order) and every degree function *)
Theorem C20_seed_order_is_a_permutation_for_every_community_oracle :
  forall (A : Type) (eqb : A -> A -> bool), (forall a b, eqb a b = true <-> a = b) ->
  forall (deg : A -> Z) (comms : list (list A)) (nodes : list A),
  NoDup nodes -> (forall c x, In c comms -> In x c -> In x nodes) ->
  Permutation (seed_order eqb deg comms nodes) nodes.
Proof. exact (@seed_order_perm). Qed.
Print Assumptions C20_seed_order_is_a_permutation_for_every_community_oracle.

(* optimize_circular_order returns a permutation of its seed order for every random stream, every objective,
   every acceptance pattern and every iteration budget (decisions = any list of (move, accepted)) *)
Theorem C20_optimizer_preserves_the_node_multiset :
  forall (A : Type) (decisions : list (move * bool)) (seed : list A), Permutation (optimize decisions seed) seed.
Proof. exact (@optimize_perm). Qed.
Print Assumptions C20_optimizer_preserves_the_node_multiset.

(* ... hence the automatic order is a permutation of G.nodes(): every node exactly once *)
Theorem C20_optimizer_returns_perm :
  forall (A : Type) (eqb : A -> A -> bool), (forall a b, eqb a b = true <-> a = b) ->
  forall (deg : A -> Z) (comms : list (list A)) (nodes : list A) (decisions : list (move * bool)),
  NoDup nodes -> (forall c x, In c comms -> In x c -> In x nodes) ->
  Permutation (optimize decisions (seed_order eqb deg comms nodes)) nodes.
Proof. exact (@optimizer_returns_perm). Qed.
Print Assumptions C20_optimizer_returns_perm.

(* the boolean acceptor the correspondence runs on the implementation's returned order decides Permutation *)
Theorem C20_is_perm_correct :
  forall (A : Type) (eqb : A -> A -> bool), (forall a b, eqb a b = true <-> a = b) ->
  forall l1 l2 : list A, is_perm eqb l1 l2 = true <-> Permutation l1 l2.
Proof. exact (@is_perm_correct). Qed.
Print Assumptions C20_is_perm_correct.

(* when the in-kernel trace check accepts the orders the implementation evaluated, the returned order IS an
   output of the model for some decision list of that length *)
Theorem C20_accepted_trace_is_a_model_run :
  forall (A : Type) (eqb : A -> A -> bool), (forall a b, eqb a b = true <-> a = b) ->
  forall allow_rev (trace bests : list (list A)) (result : list A),
  check_trace eqb allow_rev bests trace result = true ->
  exists b ds, In b bests /\ length ds = length trace /\ optimize ds b = result.
Proof. exact (@check_trace_sound). Qed.
Print Assumptions C20_accepted_trace_is_a_model_run.

(* _circular_positions keeps the order: the i-th node of the order gets the i-th point, nobody else does *)
Theorem C20_positions_keyed_by_the_order :
  forall (A : Type) r (order : list A), map fst (circular_positions r order) = order.
Proof. exact (@circular_positions_keys). Qed.
Print Assumptions C20_positions_keyed_by_the_order.

Theorem C20_layout_places_each_node_once :
  forall (A : Type) (eqb : A -> A -> bool), (forall a b, eqb a b = true <-> a = b) ->
  forall (deg : A -> Z) comms nodes decisions r,
  NoDup nodes -> (forall c x, In c comms -> In x c -> In x nodes) ->
  Permutation (map fst (circular_positions r (optimize decisions (seed_order eqb deg comms nodes)))) nodes.
Proof. exact (@layout_places_each_node_once). Qed.
Print Assumptions C20_layout_places_each_node_once.

(* every point (cos 2 pi i/N, sin 2 pi i/N) lies on the unit circle (any N, any i) *)
Theorem C20_positions_on_unit_circle : forall N i,
  (evalR [] (pos_x (EZ 1) N i) * evalR [] (pos_x (EZ 1) N i) + evalR [] (pos_y (EZ 1) N i) * evalR [] (pos_y (EZ 1) N i) = 1)%R.
Proof. exact positions_on_unit_circle. Qed.
Print Assumptions C20_positions_on_unit_circle.

(* consecutive angles differ by exactly 2 pi / N, starting at 0 and closing the circle after N steps *)
Theorem C20_angles_equally_spaced : forall N i, (1 <= N)%nat ->
  (evalR [] (theta N (S i)) - evalR [] (theta N i) = 2 * PI / INR N /\ evalR [] (theta N 0) = 0 /\ evalR [] (theta N N) = 2 * PI)%R.
Proof. exact angles_equally_spaced. Qed.
Print Assumptions C20_angles_equally_spaced.

(* consecutive points are the same chord 2 - 2 cos(2 pi/N) apart (squared), and point N is point 0 again *)
Theorem C20_positions_equally_spaced : forall N i, (1 <= N)%nat ->
  ((px N (S i) - px N i) * (px N (S i) - px N i) + (py N (S i) - py N i) * (py N (S i) - py N i) = 2 - 2 * cos (2 * PI / INR N))%R
  /\ px N N = px N 0%nat /\ py N N = py N 0%nat.
Proof. exact positions_equally_spaced_and_wrap. Qed.
Print Assumptions C20_positions_equally_spaced.

(* no two indices below N share a point: N nodes occupy N distinct points *)
Theorem C20_positions_injective : forall N i j, (i < N)%nat -> (j < N)%nat -> px N i = px N j -> py N i = py N j -> i = j.
Proof. exact positions_injective. Qed.
Print Assumptions C20_positions_injective.

(* a successful in-kernel interval check certifies node identity and |model - float| <= tolerance over R *)
Theorem C20_position_check_is_sound : forall tn td model o, check_items tn td model o = true -> Forall2 (obs_ok tn td) model o.
Proof. exact check_items_sound. Qed.
Print Assumptions C20_position_check_is_sound.

(* per-lag normalisation: the divisor is never 0 and every normalised value lies in [0,1], for ANY attribute
   values (negative, all zero, empty group) -- so the colour-map argument and the widths are always defined *)
Theorem C20_no_division_by_zero : forall mx : Q, (0 < denom mx)%Q.
Proof. exact no_division_by_zero. Qed.
Print Assumptions C20_no_division_by_zero.

Theorem C20_norm_in_unit : forall (raw : list Q) (x : Q), In x (norm raw) -> (0 <= x /\ x <= 1)%Q.
Proof. exact norm_in_unit. Qed.
Print Assumptions C20_norm_in_unit.

Theorem C20_widths_in_range : forall (w0 w1 : Q) raw w, (w0 <= w1)%Q -> In w (widths w0 w1 raw) -> (w0 <= w /\ w <= w1)%Q.
Proof. exact widths_in_range. Qed.
Print Assumptions C20_widths_in_range.

(* colormaps[i % len(colormaps)] never indexes out of range, however many lag groups there are *)
Theorem C20_cmap_index_in_range : forall i len, (0 < len)%nat -> (cmap_index i len < len)%nat.
Proof. exact cmap_index_in_range. Qed.
Print Assumptions C20_cmap_index_in_range.

(* edge grouping: the lag groups are drawn in strictly increasing lag order, none is empty (so .max() is
   defined), and every non-self-loop edge is in exactly one of them *)
Theorem C20_lag_groups_partition_the_edges : forall es,
  StronglySorted Z.lt (sorted_lags es) /\
  (forall lag, In lag (sorted_lags es) -> group es lag <> []) /\
  (forall e, In e (non_loops es) ->
     In (e_lag e) (sorted_lags es) /\ In e (group es (e_lag e)) /\ forall lag, In e (group es lag) -> lag = e_lag e).
Proof. exact lag_groups_partition. Qed.
Print Assumptions C20_lag_groups_partition_the_edges.
