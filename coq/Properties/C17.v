(* C17 -- TPR/FPR and AUC equal their confusion-matrix and trapezoid definitions.
   Only property theorems here; each is closed by [exact] of a lemma proved in
   Proofs/StatsProofs.v and followed by Print Assumptions. *)
From Coq Require Import List ZArith QArith.
From CE Require Import Model.Stats Proofs.StatsProofs Proofs.StatsAucExtra.

(* For every size n and every pair of binary zero-diagonal matrices the code's expressions
   equal TP/(TP+FN) (1 when the truth has no edges) and FP/(FP+TN) (0 when no negatives). *)
Theorem C17_tpr_is_definition : forall n A B,
  binary n A -> binary n B -> zero_diag n A -> zero_diag n B ->
  (tpr_code n A B == tpr_def n A B)%Q.
Proof. exact tpr_code_is_def. Qed.
Print Assumptions C17_tpr_is_definition.

Theorem C17_fpr_is_definition : forall n A B,
  binary n A -> binary n B -> zero_diag n A -> zero_diag n B ->
  (fpr_code n A B == fpr_def n A B)%Q.
Proof. exact fpr_code_is_def. Qed.
Print Assumptions C17_fpr_is_definition.

Theorem C17_rates_in_unit_interval : forall n A B,
  binary n A -> binary n B -> zero_diag n A -> zero_diag n B ->
  (0 <= tpr_code n A B /\ tpr_code n A B <= 1 /\ 0 <= fpr_code n A B /\ fpr_code n A B <= 1)%Q.
Proof. exact rates_code_unit. Qed.
Print Assumptions C17_rates_in_unit_interval.

Theorem C17_identical_gives_1_0 : forall n A, (tpr_code n A A == 1 /\ fpr_code n A A == 0)%Q.
Proof. exact identical_gives_1_0. Qed.
Print Assumptions C17_identical_gives_1_0.

Theorem C17_complement_gives_0_1 : forall n A,
  binary n A -> zero_diag n A -> (0 < pos_code n A)%Z -> (0 < neg_code n A)%Z ->
  (tpr_code n A (complement n A) == 0 /\ fpr_code n A (complement n A) == 1)%Q.
Proof. exact complement_gives_0_1. Qed.
Print Assumptions C17_complement_gives_0_1.

(* AUC of a monotone polyline from (0,0) to (1,1) lies in [0,1] (any number of points,
   repeated abscissae allowed). *)
Theorem C17_auc_in_unit : forall ys xs x0 y0,
  length ys = length xs -> nondecr (x0 :: xs) -> nondecr (y0 :: ys) ->
  (x0 == 0 -> y0 == 0 -> last xs x0 == 1 -> last ys y0 == 1 ->
   0 <= auc (y0 :: ys) (x0 :: xs) /\ auc (y0 :: ys) (x0 :: xs) <= 1)%Q.
Proof. exact auc_in_unit. Qed.
Print Assumptions C17_auc_in_unit.

(* "AUC is the trapezoidal area under the supplied curve": a single segment is exactly one
   trapezoid, and splitting the polyline at any vertex adds the areas of the two pieces, so for
   every number of points the value is the sum of the individual trapezoids (any abscissae,
   monotone or not). *)
Theorem C17_auc_segment_is_trapezoid : forall y0 y1 x0 x1,
  (auc (y0 :: y1 :: nil) (x0 :: x1 :: nil) == (x1 - x0) * (y0 + y1) / 2)%Q.
Proof. exact auc_segment. Qed.
Print Assumptions C17_auc_segment_is_trapezoid.

Theorem C17_auc_additive_over_split : forall ys1 xs1 y x ys2 xs2,
  length ys1 = length xs1 ->
  (auc (ys1 ++ y :: ys2) (xs1 ++ x :: xs2)
   == auc (ys1 ++ y :: nil) (xs1 ++ x :: nil) + auc (y :: ys2) (x :: xs2))%Q.
Proof. exact auc_split. Qed.
Print Assumptions C17_auc_additive_over_split.

(* Over non-decreasing abscissae the area is monotone in the ordinates: a curve that is pointwise
   no lower has no smaller AUC (so a sign slip or a swapped argument in the trapezoid cannot hide
   behind the [0,1] bound alone). *)
Theorem C17_auc_monotone_in_ordinates : forall ys zs xs x0 y0 z0,
  length ys = length xs -> nondecr (x0 :: xs) ->
  Forall2 Qle (y0 :: ys) (z0 :: zs) ->
  (auc (y0 :: ys) (x0 :: xs) <= auc (z0 :: zs) (x0 :: xs))%Q.
Proof. exact auc_mono. Qed.
Print Assumptions C17_auc_monotone_in_ordinates.
