(* C17 -- TPR/FPR and AUC equal their confusion-matrix and trapezoid definitions.
   Only property theorems here; each is closed by [exact] of a lemma proved in
   Proofs/StatsProofs.v and followed by Print Assumptions. *)
From Coq Require Import List ZArith QArith.
From CE Require Import Model.Stats Proofs.StatsProofs.

(* For every size n and every pair of binary zero-diagonal matrices the code's expressions
   equal TP/(TP+FN) (1 when the truth has no edges) and FP/(FP+TN) (0 when no negatives). *)
Theorem C17_tpr_is_definition : forall n A B,
  binary n A -> binary n B -> zero_diag n A -> zero_diag n B ->
  (tpr_code n A B == tpr_def n A B)%Q.
Proof. exact tpr_code_is_def. Qed.
Print Assumptions C17_tpr_is_definition.

Theorem C17_fpr_is_definition : forall n A B,
  binary n A -> binary n B -> zero_diag n A -> zero_diag n B ->
  (fpr_code n A B == fpr_def n A B)%Q.
Proof. exact fpr_code_is_def. Qed.
Print Assumptions C17_fpr_is_definition.

Theorem C17_rates_in_unit_interval : forall n A B,
  binary n A -> binary n B -> zero_diag n A -> zero_diag n B ->
  (0 <= tpr_code n A B /\ tpr_code n A B <= 1 /\ 0 <= fpr_code n A B /\ fpr_code n A B <= 1)%Q.
Proof. exact rates_code_unit. Qed.
Print Assumptions C17_rates_in_unit_interval.

Theorem C17_identical_gives_1_0 : forall n A, (tpr_code n A A == 1 /\ fpr_code n A A == 0)%Q.
Proof. exact identical_gives_1_0. Qed.
Print Assumptions C17_identical_gives_1_0.

Theorem C17_complement_gives_0_1 : forall n A,
  binary n A -> zero_diag n A -> (0 < pos_code n A)%Z -> (0 < neg_code n A)%Z ->
  (tpr_code n A (complement n A) == 0 /\ fpr_code n A (complement n A) == 1)%Q.
Proof. exact complement_gives_0_1. Qed.
Print Assumptions C17_complement_gives_0_1.

(* AUC of a monotone polyline from (0,0) to (1,1) lies in [0,1] (any number of points,
   repeated abscissae allowed). *)
Theorem C17_auc_in_unit : forall ys xs x0 y0,
  length ys = length xs -> nondecr (x0 :: xs) -> nondecr (y0 :: ys) ->
  (x0 == 0 -> y0 == 0 -> last xs x0 == 1 -> last ys y0 == 1 ->
   0 <= auc (y0 :: ys) (x0 :: xs) /\ auc (y0 :: ys) (x0 :: xs) <= 1)%Q.
Proof. exact auc_in_unit. Qed.
Print Assumptions C17_auc_in_unit.
