(* C01 -- a reported edge u->v at lag tau really is X_u(t-tau) informing X_v(t). *)
From Coq Require Import List Arith.
From CE Require Import Model.Lagged Proofs.LaggedProofs.

(* row t' of a lagged predictor column pairs target time t = t'+L with source time t - tau *)
Theorem C01_lagged_column_alignment : forall (V : Type) (d : V) (s : series) L tau j t',
  1 <= tau <= L -> L < length s -> t' < length s - L ->
  nth t' (lagged_col d s L tau j) d = cell d s (t' + L - tau) j.
Proof. exact @lagged_col_nth. Qed.
Print Assumptions C01_lagged_column_alignment.

Theorem C01_target_column_alignment : forall (V : Type) (d : V) (s : series) L i t',
  t' < length s - L -> nth t' (y_col d s L i) d = cell d s (t' + L) i.
Proof. exact @y_col_nth. Qed.
Print Assumptions C01_target_column_alignment.

(* the triple an edge's cmi and p-value are computed on: u delayed by exactly tau, v at the present
   time, the other reported parents delayed by their own lags, over t = L .. T-1 -- for every
   series (any cell type), every T, n, L, every selected set and every reported parent *)
Theorem C01_edge_triple_semantics : forall (V : Type) (d : V) (s : series) n L i S sidx,
  0 < L -> L < length s -> (forall c, In c S -> c < n * L) -> In sidx S ->
  edge_triple d s L i S sidx =
    ( delayed d s L (snd (feature L sidx)) (fst (feature L sidx)),
      present d s L i,
      map (fun c => delayed d s L (snd (feature L c)) (fst (feature L c)))
          (filter (fun k => negb (Nat.eqb k sidx)) S) ).
Proof. exact @edge_semantics. Qed.
Print Assumptions C01_edge_triple_semantics.

Theorem C01_conditioning_is_exactly_the_other_parents : forall (S : list nat) sidx c,
  In c (filter (fun k => negb (Nat.eqb k sidx)) S) <-> In c S /\ c <> sidx.
Proof. exact edge_conditioning_is_other_parents. Qed.
Print Assumptions C01_conditioning_is_exactly_the_other_parents.

Theorem C01_common_window : forall (V : Type) (d : V) (s : series) n L i S sidx,
  0 < L -> L < length s -> (forall c, In c S -> c < n * L) -> In sidx S ->
  let '(X, Y, Zs) := edge_triple d s L i S sidx in
  length X = length s - L /\ length Y = length s - L /\ Forall (fun z => length z = length s - L) Zs.
Proof. exact @edge_window. Qed.
Print Assumptions C01_common_window.

(* the label (u, tau) of candidate column c and its inverse *)
Theorem C01_label_roundtrip : forall L j tau, 1 <= tau <= L -> feature L (feature_index L j tau) = (j, tau).
Proof. exact feature_feature_index. Qed.
Print Assumptions C01_label_roundtrip.

Theorem C01_label_list_matches_columns : forall n L c, 0 < L -> c < n * L ->
  nth c (feature_names n L) (0, 0) = feature L c.
Proof. exact feature_names_nth. Qed.
Print Assumptions C01_label_list_matches_columns.
