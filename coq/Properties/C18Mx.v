(* C18, tier 2 (mathcomp; every size n): "spectral radius rho (0 if acyclic)" of the matrix the linear Gaussian generator
   returns.  pow_mx A m = A^m for every n (= A ^+ m when n = n'.+1);  dag_supported A r := forall i j, A i j != 0 -> r j < r i
   (the code stores the edge j -> i at A[i][j]; r = any topological rank);  spectral_radius A = max modulus of the roots of
   char_poly A over a numClosedFieldType (algC is one);  mx_of_mat / sr_of_mat: the list-of-Q matrices of Model/Generators.v
   (the ones evaluated on the returned matrices) as matrices over rat / their spectral radius over C. *)
From Coq Require Import QArith.
From mathcomp Require Import all_ssreflect all_algebra.
From CE Require Import Model.Generators GeneratorsMx GeneratorsMxBridge.
Set Implicit Arguments. Unset Strict Implicit. Unset Printing Implicit Defensive.
Close Scope Q_scope. Close Scope Z_scope.
Local Open Scope ring_scope.

(* ---- 1. ACYCLIC => NILPOTENT (any ring), char poly 'X^n (any commutative ring), only eigenvalue 0 (any field) ---- *)
(* A^m = 0 as soon as m exceeds every rank *)
Theorem C18_dag_supported_nilpotent_above_max_rank : forall (R : ringType) n (A : 'M[R]_n) (r : 'I_n -> nat) m,
  dag_supported A r -> (forall i, (r i < m)%N) -> pow_mx A m = 0.
Proof. exact: dag_nilpotent_above. Qed.
Print Assumptions C18_dag_supported_nilpotent_above_max_rank.

(* A^n = 0 whatever the rank function *)
Theorem C18_dag_supported_nilpotent : forall (R : ringType) n (A : 'M[R]_n) (r : 'I_n -> nat),
  dag_supported A r -> pow_mx A n = 0.
Proof. exact: dag_nilpotent. Qed.
Print Assumptions C18_dag_supported_nilpotent.

(* the same with mathcomp's ring power *)
Theorem C18_dag_supported_nilpotent_expr : forall (R : ringType) n (A : 'M[R]_n.+1) (r : 'I_n.+1 -> nat),
  dag_supported A r -> A ^+ n.+1 = 0.
Proof. exact: dag_nilpotent_expr. Qed.
Print Assumptions C18_dag_supported_nilpotent_expr.

Theorem C18_dag_supported_char_poly : forall (R : comRingType) n (A : 'M[R]_n) (r : 'I_n -> nat),
  dag_supported A r -> char_poly A = 'X^n.
Proof. exact: dag_char_poly. Qed.
Print Assumptions C18_dag_supported_char_poly.

(* a nilpotent matrix has no eigenvalue but 0; a DAG-supported one of size > 0 has exactly the eigenvalue 0 *)
Theorem C18_nilpotent_only_eigenvalue_is_0 : forall (F : fieldType) n (A : 'M[F]_n) m a,
  pow_mx A m = 0 -> eigenvalue A a -> a = 0.
Proof. exact: nilpotent_eigenvalue0. Qed.
Print Assumptions C18_nilpotent_only_eigenvalue_is_0.

Theorem C18_dag_supported_only_eigenvalue_is_0 : forall (F : fieldType) n (A : 'M[F]_n) (r : 'I_n -> nat) a,
  dag_supported A r -> eigenvalue A a -> a = 0.
Proof. exact: dag_eigenvalue0. Qed.
Print Assumptions C18_dag_supported_only_eigenvalue_is_0.

Theorem C18_dag_supported_has_eigenvalue_0 : forall (F : fieldType) n (A : 'M[F]_n.+1) (r : 'I_n.+1 -> nat),
  dag_supported A r -> eigenvalue A 0.
Proof. exact: dag_eigenvalue_is0. Qed.
Print Assumptions C18_dag_supported_has_eigenvalue_0.

(* sanity: a 2-cycle is not nilpotent, has the eigenvalue 1, and radius >= 1 *)
Theorem C18_two_cycle_is_not_nilpotent : forall (R : ringType) m, pow_mx (two_cycle R) m != 0.
Proof. exact: two_cycle_not_nilpotent. Qed.
Print Assumptions C18_two_cycle_is_not_nilpotent.

Theorem C18_two_cycle_radius_ge_1 : forall (C : numClosedFieldType),
  eigenvalue (two_cycle C) 1 /\ 1 <= spectral_radius (two_cycle C).
Proof. exact: two_cycle_facts. Qed.
Print Assumptions C18_two_cycle_radius_ge_1.

(* ---- 2. SCALING LAW ---- *)
Theorem C18_eigenvalue_scaling : forall (F : fieldType) n (A : 'M[F]_n) s a,
  s != 0 -> eigenvalue (s *: A) (s * a) = eigenvalue A a.
Proof. exact: eigenvalue_scale. Qed.
Print Assumptions C18_eigenvalue_scaling.

(* chi_(sA)(s X) = s^n chi_A(X), every s *)
Theorem C18_char_poly_scaling : forall (F : fieldType) n (A : 'M[F]_n) s,
  char_poly (s *: A) \Po (s *: 'X) = s ^+ n *: char_poly A.
Proof. exact: char_poly_scale. Qed.
Print Assumptions C18_char_poly_scaling.

Theorem C18_char_poly_root_scaling : forall (F : fieldType) n (A : 'M[F]_n) s a,
  s != 0 -> root (char_poly (s *: A)) (s * a) = root (char_poly A) a.
Proof. exact: root_char_poly_scale. Qed.
Print Assumptions C18_char_poly_root_scaling.

(* the spectral radius function has the defining property (bounds every eigenvalue, is attained) and is the only such number *)
Theorem C18_spectral_radius_is_max_modulus_of_eigenvalues : forall (C : numClosedFieldType) n (A : 'M[C]_n.+1),
  is_spectral_radius A (spectral_radius A) /\ forall R, is_spectral_radius A R -> spectral_radius A = R.
Proof. exact: spectral_radius_char. Qed.
Print Assumptions C18_spectral_radius_is_max_modulus_of_eigenvalues.

(* "if every eigenvalue a of M has |a| <= R and some eigenvalue attains it then the same holds for s *: M with |s| R" *)
Theorem C18_max_modulus_scaling : forall (C : numClosedFieldType) n (A : 'M[C]_n) s R,
  s != 0 -> is_spectral_radius A R -> is_spectral_radius (s *: A) (`|s| * R).
Proof. exact: is_spectral_radius_scale. Qed.
Print Assumptions C18_max_modulus_scaling.

(* sr (s M) = |s| sr M: every size, every (complex) scalar, 0 included -- no hypothesis *)
Theorem C18_spectral_radius_scaling : forall (C : numClosedFieldType) n (A : 'M[C]_n) s,
  spectral_radius (s *: A) = `|s| * spectral_radius A.
Proof. exact: spectral_radius_scale. Qed.
Print Assumptions C18_spectral_radius_scaling.

(* "0 if acyclic" *)
Theorem C18_dag_supported_spectral_radius_0 : forall (C : numClosedFieldType) n (A : 'M[C]_n) (r : 'I_n -> nat),
  dag_supported A r -> spectral_radius A = 0.
Proof. exact: dag_spectral_radius. Qed.
Print Assumptions C18_dag_supported_spectral_radius_0.

(* lines 52-54 of synthetic.py in exact arithmetic: (rho / m) M has radius |rho|/|m| radius(M); with m the true radius
   (non-zero) and rho >= 0 it is exactly rho; on an acyclic support it stays 0 whatever the factor *)
Theorem C18_normalised_radius : forall (C : numClosedFieldType) n (M : 'M[C]_n) rho,
  (forall m, spectral_radius ((rho / m) *: M) = `|rho| / `|m| * spectral_radius M) /\
  (0 <= rho -> spectral_radius M != 0 -> spectral_radius ((rho / spectral_radius M) *: M) = rho) /\
  (forall r s, dag_supported M r -> spectral_radius (s *: M) = 0).
Proof. exact: normalised_radius. Qed.
Print Assumptions C18_normalised_radius.

(* ---- 3. SUPPORT under the normalisation ---- *)
Theorem C18_scaling_keeps_support : forall (R : idomainType) n (A : 'M[R]_n) s i j,
  s != 0 -> ((s *: A) i j != 0) = (A i j != 0).
Proof. exact: scale_support. Qed.
Print Assumptions C18_scaling_keeps_support.

Theorem C18_scaling_keeps_dag_support : forall (R : idomainType) n (A : 'M[R]_n) (r : 'I_n -> nat) s,
  s != 0 -> dag_supported (s *: A) r <-> dag_supported A r.
Proof. exact: dag_supported_scale_iff. Qed.
Print Assumptions C18_scaling_keeps_dag_support.

(* ---- bridge: the list-of-Q model that the correspondence evaluates on the returned matrices ---- *)
(* Qrat : Q -> rat is the value num/den: respects and reflects Qeq, additive, multiplicative *)
Theorem C18_Q_embeds_in_rat : (forall q q', Qeq q q' <-> Qrat q = Qrat q') /\
  (forall a b, Qrat (Qplus a b) = Qrat a + Qrat b) /\ (forall a b, Qrat (Qmult a b) = Qrat a * Qrat b).
Proof. exact: Qrat_embedding. Qed.
Print Assumptions C18_Q_embeds_in_rat.

(* the executable witness test evaluated in Coq on a returned matrix IS the hypothesis dag_supported of the theorems above *)
Theorem C18_witness_test_is_dag_supported : forall order n A,
  dag_witness_ok order n A = true -> dag_supported (mx_of_mat n A) (ord_rank order (n:=n)).
Proof. exact: witness_dag_supported. Qed.
Print Assumptions C18_witness_test_is_dag_supported.

(* hence: char poly 'X^n, A^n = 0, only eigenvalue 0, spectral radius 0 over every numClosedFieldType *)
Theorem C18_witness_test_gives_radius_0 : forall (C : numClosedFieldType) order n A,
  dag_witness_ok order n A = true ->
  char_poly (mx_of_mat n A) = 'X^n /\ pow_mx (mx_of_mat n A) n = 0 /\
  (forall a, eigenvalue (mx_of_mat n A) a -> a = 0) /\ sr_of_mat C n A = 0.
Proof. exact: witness_facts. Qed.
Print Assumptions C18_witness_test_gives_radius_0.

(* the scaling law assumed of an abstract function in C18_spectral_radius_is_rho_partial holds for sr_of_mat (values in C:
   the radius of a rational matrix is algebraic, in general not rational) *)
Theorem C18_list_model_radius_scaling : forall (C : numClosedFieldType) n s M,
  sr_of_mat C n (mscale s M) = `|ratr (Qrat s)| * sr_of_mat C n M.
Proof. exact: sr_of_mat_scale. Qed.
Print Assumptions C18_list_model_radius_scaling.

(* the matrix the model builds (and the correspondence compares with the returned one): radius = |factor| * radius of
   adjacency^T o weights; 0 when the graph used has a topological order *)
Theorem C18_built_matrix_radius : forall (C : numClosedFieldType) n adj R rho m,
  sr_of_mat C n (build_A n adj R rho m) = `|ratr (Qrat (scale_factor rho m))| * sr_of_mat C n (hadamard n (transpose n adj) R) /\
  forall order, dag_witness_ok order n (transpose n adj) = true -> sr_of_mat C n (build_A n adj R rho m) = 0.
Proof. exact: build_A_radius_facts. Qed.
Print Assumptions C18_built_matrix_radius.
