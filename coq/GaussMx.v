(* C08 tier 2 (mathcomp, any field, any dimensions): the determinant form of the Gaussian conditional
   mutual information IS the least-squares residual (partial covariance) form, and it is invariant under
   invertible mixing of the conditioning columns and under exchanging X and Y.
   Matrices: N samples in rows; X : N x kx, Y : N x ky, Z : N x kz (columns already centred, or Z containing
   the constant column: the statements hold for arbitrary matrices).  gram A = A^T A is the scatter matrix. *)
From mathcomp Require Import all_ssreflect all_algebra.
Set Implicit Arguments. Unset Strict Implicit. Unset Printing Implicit Defensive.
Import GRing.Theory.
Local Open Scope ring_scope.

Section GaussMx.
Variable F : fieldType.

Section Schur.
Variables (n1 n2 : nat).
Variables (A : 'M[F]_n1) (B : 'M[F]_(n1, n2)) (C : 'M[F]_(n2, n1)) (D : 'M[F]_n2).

Lemma schur_factor : A \in unitmx ->
  block_mx A B C D = block_mx 1%:M 0 (C *m invmx A) 1%:M *m block_mx A B 0 (D - C *m invmx A *m B).
Proof.
move=> Au; rewrite mulmx_block !mul1mx !mul0mx !addr0.
by rewrite -[C *m invmx A *m A]mulmxA (mulVmx Au) mulmx1 addrC subrK.
Qed.

Theorem det_schur : A \in unitmx -> \det (block_mx A B C D) = \det A * \det (D - C *m invmx A *m B).
Proof. by move=> Au; rewrite (schur_factor Au) det_mulmx det_lblock det_ublock !det1 !mul1r. Qed.

Lemma schur_factor_r : D \in unitmx ->
  block_mx A B C D = block_mx 1%:M (B *m invmx D) 0 1%:M *m block_mx (A - B *m invmx D *m C) 0 C D.
Proof.
move=> Du; rewrite mulmx_block !mul1mx !mul0mx !add0r subrK.
by rewrite -[B *m invmx D *m D]mulmxA (mulVmx Du) mulmx1.
Qed.

Theorem det_schur_r : D \in unitmx -> \det (block_mx A B C D) = \det D * \det (A - B *m invmx D *m C).
Proof. by move=> Du; rewrite (schur_factor_r Du) det_mulmx det_ublock det_lblock !det1 !mul1r mulrC. Qed.
End Schur.

(* exchanging the two diagonal blocks (a simultaneous row/column permutation) keeps the determinant *)
Lemma det_block_swap n1 n2 (A : 'M[F]_n1) (B : 'M[F]_(n1, n2)) (C : 'M[F]_(n2, n1)) (D : 'M[F]_n2) :
  D \in unitmx -> \det (block_mx A B C D) = \det (block_mx D C B A).
Proof. by move=> Du; rewrite (det_schur_r _ _ _ Du) (det_schur _ _ _ Du). Qed.

Definition gram N n (A : 'M[F]_(N, n)) : 'M[F]_n := A^T *m A.

Lemma gram_block N n1 n2 (X : 'M[F]_(N, n1)) (Z : 'M[F]_(N, n2)) :
  gram (row_mx X Z) = block_mx (gram X) (X^T *m Z) (Z^T *m X) (gram Z).
Proof. by rewrite /gram tr_row_mx mul_col_row. Qed.

Lemma gram_sym N n (A : 'M[F]_(N, n)) : (gram A)^T = gram A.
Proof. by rewrite /gram trmx_mul trmxK. Qed.

(* least-squares residual of the columns of X regressed on the columns of Z:  X - Z (Z^T Z)^-1 Z^T X *)
Definition resid N n1 n2 (Z : 'M[F]_(N, n2)) (X : 'M[F]_(N, n1)) : 'M[F]_(N, n1) :=
  X - Z *m (invmx (gram Z) *m (Z^T *m X)).

(* normal equations: the residual is orthogonal to every regressor *)
Lemma resid_normal_eq N n1 n2 (Z : 'M[F]_(N, n2)) (X : 'M[F]_(N, n1)) :
  gram Z \in unitmx -> Z^T *m resid Z X = 0.
Proof.
move=> Gu; rewrite /resid mulmxBr mulmxA -/(gram Z) mulmxA (mulmxV Gu) mul1mx.
by rewrite subrr.
Qed.

Lemma resid_row N n1 n2 n3 (Z : 'M[F]_(N, n3)) (X : 'M[F]_(N, n1)) (Y : 'M[F]_(N, n2)) :
  resid Z (row_mx X Y) = row_mx (resid Z X) (resid Z Y).
Proof. by rewrite /resid !mul_mx_row opp_row_mx add_row_mx. Qed.

(* the scatter matrix of the residuals is the Schur complement (partial scatter) G_xx - G_xz G_zz^-1 G_zx *)
Lemma resid_gram N n1 n2 (Z : 'M[F]_(N, n2)) (X : 'M[F]_(N, n1)) : gram Z \in unitmx ->
  gram (resid Z X) = gram X - X^T *m Z *m invmx (gram Z) *m (Z^T *m X).
Proof.
move=> Gu; rewrite {1}/gram {2}/resid mulmxBr.
have -> : (resid Z X)^T *m (Z *m (invmx (gram Z) *m (Z^T *m X))) = 0.
  by rewrite mulmxA -[(resid Z X)^T *m Z]trmxK trmx_mul trmxK (resid_normal_eq _ Gu) trmx0 mul0mx.
rewrite subr0 /resid linearB /= mulmxBl -/(gram X); congr (_ - _).
by rewrite !trmx_mul trmxK trmx_inv gram_sym !mulmxA.
Qed.

(* determinant form = residual form, one block:  det G_xz = det G_z * det S(X|Z) *)
Theorem det_ratio_is_residual_form N n1 n2 (Z : 'M[F]_(N, n2)) (X : 'M[F]_(N, n1)) : gram Z \in unitmx ->
  \det (gram (row_mx X Z)) = \det (gram Z) * \det (gram (resid Z X)).
Proof. by move=> Gu; rewrite gram_block (det_schur_r _ _ _ Gu) (resid_gram _ Gu). Qed.

(* the code's ratio of four determinants *)
Definition ratio_mx N kx ky kz (X : 'M[F]_(N, kx)) (Y : 'M[F]_(N, ky)) (Z : 'M[F]_(N, kz)) : F :=
  \det (gram (row_mx X Z)) * \det (gram (row_mx Y Z)) / (\det (gram Z) * \det (gram (row_mx (row_mx X Y) Z))).

(* ... equals  det S(X|Z) det S(Y|Z) / det S(XY|Z)  with S(.|Z) the scatter matrices of the least-squares residuals *)
Theorem cmi_det_form_is_residual_form N kx ky kz (X : 'M[F]_(N, kx)) (Y : 'M[F]_(N, ky)) (Z : 'M[F]_(N, kz)) :
  gram Z \in unitmx ->
  ratio_mx X Y Z = \det (gram (resid Z X)) * \det (gram (resid Z Y)) / \det (gram (row_mx (resid Z X) (resid Z Y))).
Proof.
move=> Gu; rewrite /ratio_mx !(det_ratio_is_residual_form _ Gu) resid_row.
have Dz : \det (gram Z) != 0 by rewrite -unitfE -unitmxE.
set a := \det (gram (resid Z X)); set b := \det (gram (resid Z Y)); set c := \det (gram (row_mx _ _)); set z := \det (gram Z).
have -> : z * a * (z * b) = (z * z) * (a * b) by rewrite mulrACA.
have -> : z * (z * c) = (z * z) * c by rewrite mulrA.
by rewrite -mulf_div divff ?mul1r // mulf_neq0.
Qed.

(* scatter matrix after a linear change of columns *)
Lemma gram_mulr N n (A : 'M[F]_(N, n)) (P : 'M[F]_n) : gram (A *m P) = P^T *m gram A *m P.
Proof. by rewrite /gram trmx_mul !mulmxA. Qed.
Lemma det_gram_mulr N n (A : 'M[F]_(N, n)) (P : 'M[F]_n) : \det (gram (A *m P)) = (\det P) ^+ 2 * \det (gram A).
Proof. by rewrite gram_mulr !det_mulmx det_tr expr2 mulrAC. Qed.

Lemma row_mx_mixr N n1 n2 (A : 'M[F]_(N, n1)) (Z : 'M[F]_(N, n2)) (M : 'M[F]_n2) :
  row_mx A (Z *m M) = row_mx A Z *m block_mx 1%:M 0 0 M.
Proof. by rewrite mul_row_block mulmx1 !mulmx0 addr0 add0r. Qed.

Lemma det_gram_mixr N n1 n2 (A : 'M[F]_(N, n1)) (Z : 'M[F]_(N, n2)) (M : 'M[F]_n2) :
  \det (gram (row_mx A (Z *m M))) = (\det M) ^+ 2 * \det (gram (row_mx A Z)).
Proof. by rewrite row_mx_mixr det_gram_mulr det_ublock det1 mul1r. Qed.

(* invariance under invertible linear mixing of the conditioning columns *)
Theorem z_mixing_invariant N kx ky kz (X : 'M[F]_(N, kx)) (Y : 'M[F]_(N, ky)) (Z : 'M[F]_(N, kz)) (M : 'M[F]_kz) :
  M \in unitmx -> ratio_mx X Y (Z *m M) = ratio_mx X Y Z.
Proof.
move=> Mu; rewrite /ratio_mx !det_gram_mixr det_gram_mulr.
have Dm : (\det M) ^+ 2 != 0 by rewrite expf_neq0 // -unitfE -unitmxE.
set m := _ ^+ 2 in Dm *.
set a := \det (gram (row_mx X Z)); set b := \det (gram (row_mx Y Z)); set c := \det (gram Z).
set d := \det (gram (row_mx _ Z)).
have -> : m * a * (m * b) = (m * m) * (a * b) by rewrite mulrACA.
have -> : m * c * (m * d) = (m * m) * (c * d) by rewrite mulrACA.
by rewrite -mulf_div divff ?mul1r // mulf_neq0.
Qed.

(* X/Y symmetry (non-degenerate conditioning block and Y-residuals) *)
Lemma det_gram_swap N n1 n2 (U : 'M[F]_(N, n1)) (V : 'M[F]_(N, n2)) : gram V \in unitmx ->
  \det (gram (row_mx U V)) = \det (gram (row_mx V U)).
Proof. by move=> Gu; rewrite !gram_block (det_block_swap _ _ _ Gu). Qed.

Theorem swap_xy N kx ky kz (X : 'M[F]_(N, kx)) (Y : 'M[F]_(N, ky)) (Z : 'M[F]_(N, kz)) :
  gram Z \in unitmx -> gram (resid Z Y) \in unitmx -> ratio_mx Y X Z = ratio_mx X Y Z.
Proof.
move=> Gu Ru; rewrite /ratio_mx [\det (gram (row_mx Y Z)) * _]mulrC.
rewrite (det_ratio_is_residual_form (row_mx Y X) Gu) (det_ratio_is_residual_form (row_mx X Y) Gu) !resid_row.
by rewrite (det_gram_swap _ Ru).
Qed.

End GaussMx.
Print Assumptions cmi_det_form_is_residual_form.
