(* C12, mathcomp tier (abstract matrices over a field; all sizes): the centred (k+1)-point neighbourhood of
   geometric_knn_entropy has rank at most k.

   P : (k+1) x d, the sample and its k nearest neighbours in rows;  centre P = P - ones^T (ones P)/(k+1)  (column means
   subtracted: the code's  X[nbhd] - np.mean(X[nbhd], axis=0)).  Needs (k+1) invertible in the field (characteristic not
   dividing k+1; automatic in characteristic 0, e.g. rat or any numFieldType).
     ones_centre      ones *m centre P = 0
     rank_centre_le   \rank (centre P) <= k
     rank_gramT_le    \rank (Y^T Y) <= k;   det_gramT_eq0: k < d -> \det (Y^T Y) = 0;   zero_eigenvalue, ker_gramT_ge:
                      0 is an eigenvalue of Y^T Y with an eigenspace of dimension >= d - k  -- the (k+1)-th largest squared
                      singular value is exactly 0, which is why the code (F6) and the model read the first k only
     det_gramS_eq0    \det (Y Y^T) = 0 for every k, d
     rank_k_quadratic_form_is_2   if rank = k (general position), every solution x of (Y^T Y) x = z_j (z_j = neighbour j minus
                      the sample) has z_j . x = 2: the ellipsoid test z^T (Y^T Y)^+ z <= 1 fails for every neighbour when k < d,
                      whatever the rounding noise on the trailing singular value adds (a square, >= 0) -- inside-count 0
     rank_centre_simplex, gram_simplex_unit   k = d: the origin and the d unit vectors have a centred matrix of full column
                      rank d and (ordered field) an invertible Gram matrix: the bound is attained, the k >= d branch is not vacuous
     rank_gramT       ordered field: \rank (Y^T Y) = \rank Y *)
From mathcomp Require Import all_ssreflect all_algebra.
Set Implicit Arguments. Unset Strict Implicit. Unset Printing Implicit Defensive.
Import GRing.Theory.
Local Open Scope ring_scope.

Section GeoRankMx.
Variable F : fieldType.

Section Centre.
Variables (k d : nat).

Definition ones : 'rV[F]_k.+1 := const_mx 1.
Definition colmean (P : 'M[F]_(k.+1, d)) : 'rV[F]_d := (k.+1)%:R^-1 *: (ones *m P).
Definition centre (P : 'M[F]_(k.+1, d)) : 'M[F]_(k.+1, d) := P - ones^T *m colmean P.

Lemma ones_neq0 : ones != 0.
Proof. by apply/eqP => /matrixP/(_ 0 0); rewrite !mxE; apply/eqP; exact: oner_neq0. Qed.

Lemma ones_onesT : ones *m ones^T = (k.+1)%:R%:M.
Proof.
apply/matrixP => i j; rewrite !mxE !ord1 eqxx mulr1n.
rewrite (eq_bigr (fun _ => 1)) ?sumr_const ?card_ord // => l _.
by rewrite !mxE mulr1.
Qed.

Hypothesis nz : (k.+1)%:R != 0 :> F.

Lemma ones_centre P : ones *m centre P = 0.
Proof.
rewrite /centre mulmxBr mulmxA ones_onesT mul_scalar_mx /colmean scalerA divff // scale1r.
exact: subrr.
Qed.

Lemma rank_centre_le P : (\rank (centre P) <= k)%N.
Proof.
have Hk : (ones <= kermx (centre P))%MS by apply/sub_kermxP; exact: ones_centre.
have := mxrankS Hk; rewrite rank_rV ones_neq0 mxrank_ker subn_gt0 ltnS.
by [].
Qed.

Definition gramT (Y : 'M[F]_(k.+1, d)) : 'M[F]_d := Y^T *m Y.        (* Y^T Y, d x d *)
Definition gramS (Y : 'M[F]_(k.+1, d)) : 'M[F]_k.+1 := Y *m Y^T.    (* Y Y^T, (k+1) x (k+1) *)

Lemma rank_gramT_le P : (\rank (gramT (centre P)) <= k)%N.
Proof. exact: leq_trans (mxrankM_maxr _ _) (rank_centre_le P). Qed.

Lemma det_gramT_eq0 P : (k < d)%N -> \det (gramT (centre P)) = 0.
Proof.
move=> kd; apply/eqP; rewrite -[_ == 0]negbK -unitfE -unitmxE; apply/negP => /mxrank_unit E.
by have := rank_gramT_le P; rewrite E leqNgt kd.
Qed.

Lemma ker_gramT_ge P : (d - k <= \rank (kermx (gramT (centre P))))%N.
Proof. by rewrite mxrank_ker leq_sub2l // rank_gramT_le. Qed.

Lemma zero_eigenvalue P : (k < d)%N -> eigenvalue (gramT (centre P)) 0.
Proof.
move=> kd; have /eqP/det0P[v vn0 Hv] := det_gramT_eq0 P kd.
by apply/eigenvalueP; exists v => //; rewrite scale0r.
Qed.

Lemma zero_root_char_poly P : (k < d)%N -> root (char_poly (gramT (centre P))) 0.
Proof. by move=> kd; rewrite -eigenvalue_root_char; exact: zero_eigenvalue. Qed.

Lemma det_gramS_eq0 P : \det (gramS (centre P)) = 0.
Proof.
apply/eqP/det0P; exists ones; first exact: ones_neq0.
by rewrite /gramS mulmxA ones_centre mul0mx.
Qed.

(* differences of rows do not see the centring *)
Lemma diff_centre m (Dm : 'M[F]_(m, k.+1)) P : Dm *m ones^T = 0 -> Dm *m centre P = Dm *m P.
Proof. by move=> H; rewrite /centre mulmxBr mulmxA H mul0mx subr0. Qed.

(* ---- the ellipsoid test on a rank-k neighbourhood (the generic case for k < d) ---- *)
(* e_j - e_0: the neighbour j minus the sample itself, as a combination of rows *)
Definition edge (j : 'I_k.+1) : 'rV[F]_k.+1 := delta_mx 0 j - delta_mx 0 0.

Lemma edge_ones j : edge j *m ones^T = 0.
Proof.
apply/matrixP => a b; rewrite !mxE (eq_bigr (fun l => edge j a l)); last by move=> l _; rewrite !mxE mulr1.
rewrite /edge (eq_bigr (fun l => (l == j)%:R - (l == 0)%:R)); last first.
  by move=> l _; rewrite !mxE !ord1 eqxx.
have s1 (x : 'I_k.+1) : \sum_l (l == x)%:R = 1 :> F.
  by rewrite (bigD1 x) //= eqxx big1 ?addr0 // => l /negbTE->.
by rewrite sumrB !s1 subrr.
Qed.

Lemma edge_sq j : j != 0 -> edge j *m (edge j)^T = 2%:R%:M.
Proof.
move=> jn0; rewrite /edge linearB /= mulmxBl !mulmxBr !trmx_delta !mul_delta_mx_cond !eqxx.
rewrite (negbTE jn0) [0 == j]eq_sym (negbTE jn0) !mulr1n !mulr0n subr0 sub0r opprK.
apply/matrixP => a b; rewrite !mxE !ord1 !eqxx /= !mulr1n.
by [].
Qed.

Theorem rank_k_quadratic_form_is_2 P (j : 'I_k.+1) (x : 'rV[F]_d) :
  \rank (centre P) = k -> j != 0 ->
  x *m gramT (centre P) = edge j *m centre P ->
  (edge j *m centre P) *m x^T = 2%:R%:M.
Proof.
set Y := centre P => rk jn0 Hx.
pose w := x *m Y^T - edge j.
have wY : w *m Y = 0 by rewrite /w mulmxBl -mulmxA -/(gramT Y) Hx subrr.
have Hk : (ones <= kermx Y)%MS by apply/sub_kermxP; exact: ones_centre.
have rker : \rank (kermx Y) = 1%N by rewrite mxrank_ker rk subSnn.
have /eqmxP E : (ones == kermx Y)%MS.
  by rewrite -(mxrank_leqif_eq Hk) rank_rV ones_neq0 rker.
have : (w <= ones)%MS by rewrite E; apply/sub_kermxP.
case/sub_rVP => c Hc.
have w1 : w *m ones^T = 0.
  by rewrite /w mulmxBl edge_ones subr0 -mulmxA -trmx_mul ones_centre trmx0 mulmx0.
have c0 : c = 0.
  move: w1; rewrite Hc -scalemxAl ones_onesT => /matrixP/(_ 0 0); rewrite !mxE eqxx mulr1n => /eqP.
  by rewrite mulf_eq0 (negbTE nz) orbF => /eqP.
have xY : x *m Y^T = edge j by apply/eqP; rewrite -subr_eq0 -/w Hc c0 scale0r.
by rewrite -mulmxA -[Y *m x^T]trmxK trmx_mul trmxK xY edge_sq.
Qed.

End Centre.
(* ---- the bound is attained (k = d): the origin and the d unit vectors ---- *)
Section Attained.
Variable d : nat.
Definition simplex : 'M[F]_(d.+1, d) := \matrix_(i, j) (i == lift ord0 j)%:R.
Definition diffs : 'M[F]_(d, d.+1) := \matrix_(i < d) edge (lift ord0 i).

Lemma diffs_ones : diffs *m (ones d)^T = 0.
Proof. by apply/row_matrixP => i; rewrite row_mul rowK edge_ones row0. Qed.

Lemma diffs_simplex : diffs *m simplex = 1%:M.
Proof.
apply/row_matrixP => i; rewrite row_mul rowK /edge mulmxBl -!rowE.
apply/rowP => j; rewrite !mxE (inj_eq lift_inj) (negbTE (neq_lift _ _)) subr0.
by [].
Qed.

Hypothesis nz : (d.+1)%:R != 0 :> F.

Lemma rank_centre_simplex : \rank (centre simplex) = d.
Proof.
apply/eqP; rewrite eqn_leq rank_leq_col /=.
have := mxrankM_maxr diffs (centre simplex).
by rewrite (diff_centre _ diffs_ones) diffs_simplex mxrank1.
Qed.
End Attained.

End GeoRankMx.
(* ---- ordered fields: the Gram matrix has the rank of the matrix ---- *)
Section Ordered.
Import Num.Theory.
Variable R : realFieldType.

Lemma mulmx_tr_eq0 m n (M : 'M[R]_(m, n)) : M *m M^T = 0 -> M = 0.
Proof.
move=> H; apply/matrixP => i j; rewrite [RHS]mxE.
have /matrixP/(_ i i) := H; rewrite !mxE => /eqP.
rewrite psumr_eq0; last by move=> l _; rewrite !mxE -expr2 sqr_ge0.
by move/allP/(_ j (mem_index_enum _)); rewrite !mxE -expr2 sqrf_eq0 => /implyP/(_ isT)/eqP.
Qed.

Lemma rank_gramT k d (Y : 'M[R]_(k.+1, d)) : \rank (gramT Y) = \rank Y.
Proof.
have E : (kermx (gramT Y) :=: kermx Y^T)%MS.
  apply/eqmxP/andP; split; apply/sub_kermxP.
    apply: mulmx_tr_eq0; rewrite trmx_mul trmxK mulmxA -[_ *m Y^T *m Y]mulmxA -/(gramT Y) mulmx_ker mul0mx.
    by [].
  by rewrite /gramT mulmxA mulmx_ker mul0mx.
have := mxrank_ker (gramT Y); rewrite E mxrank_ker mxrank_tr => H.
have l1 : (\rank Y <= d)%N by exact: rank_leq_col.
have l2 : (\rank (gramT Y) <= d)%N by exact: rank_leq_col.
by rewrite -(subKn l1) H subKn.
Qed.

Lemma nat_nz k : (k.+1)%:R != 0 :> R.
Proof. by rewrite pnatr_eq0. Qed.

(* k = d: the Gram matrix of the centred simplex is invertible *)
Lemma gram_simplex_unit d : gramT (centre (simplex R d)) \in unitmx.
Proof. by rewrite -row_free_unit -row_leq_rank rank_gramT rank_centre_simplex ?nat_nz. Qed.

Lemma det_gram_simplex_neq0 d : \det (gramT (centre (simplex R d))) != 0.
Proof. by rewrite -unitfE -unitmxE gram_simplex_unit. Qed.

(* k < d: the simplex padded with m zero coordinates has rank k, and the system of the ellipsoid test is solvable:
   the hypotheses of rank_k_quadratic_form_is_2 are satisfiable with a singular Gram matrix *)
Lemma centre_row_mx0 k d m (A : 'M[R]_(k.+1, d)) : centre (row_mx A (0 : 'M_(k.+1, m))) = row_mx (centre A) 0.
Proof.
by rewrite /centre /colmean mul_mx_row mulmx0 scale_row_mx scaler0 mul_mx_row mulmx0 opp_row_mx oppr0 add_row_mx addr0.
Qed.

Lemma rank_row_mx0 k d m (B : 'M[R]_(k, d)) : \rank (row_mx B (0 : 'M_(k, m))) = \rank B.
Proof.
apply/eqP; rewrite eqn_leq; apply/andP; split.
  have -> : row_mx B (0 : 'M_(k, m)) = B *m row_mx 1%:M 0 by rewrite mul_mx_row mulmx1 mulmx0.
  exact: mxrankM_maxl.
have {1}-> : B = row_mx B (0 : 'M_(k, m)) *m col_mx 1%:M 0 by rewrite mul_row_col mulmx1 mulmx0 addr0.
exact: mxrankM_maxl.
Qed.

Lemma padded_simplex_instance k m (j : 'I_k.+1) :
  let P := row_mx (simplex R k) (0 : 'M_(k.+1, m)) in
  \rank (centre P) = k /\ exists x, x *m gramT (centre P) = edge R j *m centre P.
Proof.
move=> P; rewrite /P centre_row_mx0 rank_row_mx0 rank_centre_simplex ?nat_nz //; split=> //.
set Y0 := centre (simplex R k).
exists (row_mx (edge R j *m Y0 *m invmx (gramT Y0)) 0).
rewrite /gramT tr_row_mx trmx0 mul_col_row !mulmx0 !mul0mx mul_row_block !mulmx0 !addr0 mul_mx_row mulmx0.
by rewrite -/(gramT Y0) mulmxKV // gram_simplex_unit.
Qed.
End Ordered.

(* ---- summaries: any field in which k+1 is invertible; then characteristic 0 without hypothesis ---- *)
Section Summary.
Variable F : fieldType.
Variables (k d : nat).
Hypothesis nz : (k.+1)%:R != 0 :> F.
Variable P : 'M[F]_(k.+1, d).

Lemma rank_facts :
  [/\ ones F k *m centre P = 0, (\rank (centre P) <= k)%N, (\rank (gramT (centre P)) <= k)%N & \det (gramS (centre P)) = 0].
Proof. by split; [exact: ones_centre | exact: rank_centre_le | exact: rank_gramT_le | exact: det_gramS_eq0]. Qed.

Lemma singular_facts : (k < d)%N ->
  [/\ \det (gramT (centre P)) = 0, eigenvalue (gramT (centre P)) 0, root (char_poly (gramT (centre P))) 0
    & (d - k <= \rank (kermx (gramT (centre P))))%N].
Proof.
by move=> kd; split; [exact: det_gramT_eq0 | exact: zero_eigenvalue | exact: zero_root_char_poly | exact: ker_gramT_ge].
Qed.
End Summary.

Section Char0.
Import Num.Theory.
Variable K : numFieldType.
Lemma num_nz k : (k.+1)%:R != 0 :> K.
Proof. by rewrite pnatr_eq0. Qed.
Lemma rank_facts_char0 k d (P : 'M[K]_(k.+1, d)) :
  [/\ ones K k *m centre P = 0, (\rank (centre P) <= k)%N, (\rank (gramT (centre P)) <= k)%N & \det (gramS (centre P)) = 0].
Proof. exact: rank_facts (num_nz k) P. Qed.
Lemma singular_facts_char0 k d (P : 'M[K]_(k.+1, d)) : (k < d)%N ->
  [/\ \det (gramT (centre P)) = 0, eigenvalue (gramT (centre P)) 0, root (char_poly (gramT (centre P))) 0
    & (d - k <= \rank (kermx (gramT (centre P))))%N].
Proof. exact: singular_facts (num_nz k) P. Qed.
Lemma det_gramT_char0 k d (P : 'M[K]_(k.+1, d)) : (k < d)%N -> \det (gramT (centre P)) = 0.
Proof. exact: det_gramT_eq0 (num_nz k) P. Qed.
Lemma quadratic_form_char0 k d (P : 'M[K]_(k.+1, d)) (j : 'I_k.+1) (x : 'rV[K]_d) :
  \rank (centre P) = k -> j != 0 -> x *m gramT (centre P) = edge K j *m centre P ->
  (edge K j *m centre P) *m x^T = 2%:R%:M.
Proof. by move=> rk jn0 Hx; exact: (rank_k_quadratic_form_is_2 (num_nz k) rk jn0 Hx). Qed.
End Char0.

Lemma det_gramT_rat k d (P : 'M[rat]_(k.+1, d)) : (k < d)%N -> \det (gramT (centre P)) = 0.
Proof. exact: (@det_gramT_char0 rat_numFieldType). Qed.
