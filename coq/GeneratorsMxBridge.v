(* C18: the list-of-Q matrices of Model/Generators.v (the ones the correspondence evaluates on the matrices the real
   generator returned) seen as mathcomp matrices over rat, and through ratr over any numClosedFieldType C (algC is one).
     Qrat          : Q -> rat, num/den; respects Qeq, is faithful, multiplicative
     mx_of_mat n M : 'M[rat]_n, entry (i, j) = Qrat (get M i j)
     sr_of_mat C n M : C = spectral_radius of that matrix over C
   Results: the executable witness test dag_witness_ok means dag_supported of the embedded matrix, hence char poly 'X^n,
   only eigenvalue 0, spectral radius 0; mscale s is s *: ; hence the scaling law that Proofs/GeneratorsProofs.v assumes
   of an abstract function holds for sr_of_mat, and the model's build_A has radius |s| * radius(adjacency^T o weights). *)
From Coq Require Import QArith ZArith.
From mathcomp Require Import all_ssreflect all_algebra.
From mathcomp Require Import ssrZ.
From CE Require Import Model.Generators Proofs.GeneratorsProofs Proofs.GeneratorsDag GeneratorsMx.
Set Implicit Arguments. Unset Strict Implicit. Unset Printing Implicit Defensive.
Import GRing.Theory Num.Theory.
Close Scope Q_scope. Close Scope Z_scope.
Local Open Scope ring_scope.

Definition Qrat (q : Q) : rat := (int_of_Z (Qnum q))%:~R / (int_of_Z (Zpos (Qden q)))%:~R.
Definition mx_of_mat (n : nat) (M : mat) : 'M[rat]_n := \matrix_(i, j) Qrat (get M i j).
Definition sr_of_mat (C : numClosedFieldType) (n : nat) (M : mat) : C := spectral_radius (map_mx ratr (mx_of_mat n M)).
(* rank function on ordinals from the supplied order *)
Definition ord_rank (order : list nat) (n : nat) (i : 'I_n) : nat := rank_of order i.

Lemma int_of_Z_eq0 z : (int_of_Z z == 0) = (z == Z0).
Proof. by rewrite -(inj_eq (can_inj int_of_ZK)). Qed.

Lemma den_neq0 q : (int_of_Z (Zpos (Qden q)))%:~R != 0 :> rat.
Proof. by rewrite intr_eq0 int_of_Z_eq0. Qed.

Lemma Qrat_eqP q q' : Qeq q q' <-> Qrat q = Qrat q'.
Proof.
rewrite /Qeq /Qrat; split=> [eq|/eqP].
  apply/eqP; rewrite eqr_div ?den_neq0 // -!intrM -!(rmorphM [rmorphism of int_of_Z]) /=.
  by rewrite /GRing.mul /= eq.
rewrite eqr_div ?den_neq0 // -!intrM -!(rmorphM [rmorphism of int_of_Z]) /= eqr_int.
by rewrite (inj_eq (can_inj int_of_ZK)) => /eqP.
Qed.

Lemma Qrat0 : Qrat (Qmake Z0 xH) = 0.
Proof. by rewrite /Qrat /= mul0r. Qed.

Lemma Qrat_eq0 q : Qeq q (Qmake Z0 xH) <-> Qrat q = 0.
Proof. by rewrite -Qrat0; apply: Qrat_eqP. Qed.

Lemma int_of_Z_add x y : int_of_Z (Z.add x y) = int_of_Z x + int_of_Z y.
Proof. exact: (rmorphD [rmorphism of int_of_Z]). Qed.
Lemma int_of_Z_mul x y : int_of_Z (Z.mul x y) = int_of_Z x * int_of_Z y.
Proof. exact: (rmorphM [rmorphism of int_of_Z]). Qed.
Lemma int_of_Z_pos_mul p q : int_of_Z (Zpos (Pos.mul p q)) = int_of_Z (Zpos p) * int_of_Z (Zpos q).
Proof. exact: (int_of_Z_mul (Zpos p) (Zpos q)). Qed.

Lemma Qrat_mul a b : Qrat (Qmult a b) = Qrat a * Qrat b.
Proof.
rewrite /Qrat /Qmult mulf_div -!intrM; congr (_%:~R / _%:~R); first exact: int_of_Z_mul.
exact: int_of_Z_pos_mul.
Qed.

Lemma Qrat_add a b : Qrat (Qplus a b) = Qrat a + Qrat b.
Proof.
rewrite /Qrat /Qplus addf_div ?den_neq0 // -!intrM -intrD; congr (_%:~R / _%:~R); last exact: int_of_Z_pos_mul.
by rewrite [Qnum _]/= int_of_Z_add !int_of_Z_mul.
Qed.

(* the embedding is compatible with the model's scaling of a matrix *)
Lemma mx_of_mat_mscale n s M : mx_of_mat n (mscale s M) = Qrat s *: mx_of_mat n M.
Proof.
apply/matrixP => i j; rewrite !mxE -Qrat_mul; apply/Qrat_eqP; exact: get_mscale.
Qed.

Lemma ltn_lt (a b : nat) : (a < b)%N -> (a < b)%coq_nat.
Proof. by move/ltP. Qed.

(* the executable witness test on a list matrix IS the hypothesis of the matrix theorems *)
Theorem witness_dag_supported order n A : dag_witness_ok order n A = true -> dag_supported (mx_of_mat n A) (ord_rank order (n:=n)).
Proof.
move/dag_witness_ok_spec => H i j; rewrite mxE => nz; apply/ltP; apply: H; try exact/ltP.
by move/Qrat_eq0 => E; rewrite E eqxx in nz.
Qed.

Theorem witness_char_poly order n A : dag_witness_ok order n A = true -> char_poly (mx_of_mat n A) = 'X^n.
Proof. by move/witness_dag_supported/dag_char_poly. Qed.

Theorem witness_pow0 order n A : dag_witness_ok order n A = true -> pow_mx (mx_of_mat n A) n = 0.
Proof. by move/witness_dag_supported/dag_nilpotent. Qed.

Theorem witness_eigenvalue0 order n A a : dag_witness_ok order n A = true -> eigenvalue (mx_of_mat n A) a -> a = 0.
Proof. by move/witness_dag_supported/dag_eigenvalue0; apply. Qed.

Section Closed.
Variable C : numClosedFieldType.

Lemma map_dag_supported n (B : 'M[rat]_n) r : dag_supported B r -> dag_supported (map_mx (ratr : rat -> C) B) r.
Proof. by move=> dagB i j; rewrite mxE fmorph_eq0; apply: dagB. Qed.

(* "0 IF ACYCLIC" for the matrices the correspondence evaluates the witness test on *)
Theorem witness_radius0 order n A : dag_witness_ok order n A = true -> sr_of_mat C n A = 0.
Proof. by move/witness_dag_supported/map_dag_supported/dag_spectral_radius. Qed.

(* the scaling law that GeneratorsProofs.radius_is_rho assumes of an abstract sr, for this function and every s *)
Theorem sr_of_mat_scale n s M : sr_of_mat C n (mscale s M) = `|ratr (Qrat s)| * sr_of_mat C n M.
Proof. by rewrite /sr_of_mat mx_of_mat_mscale map_mxZ spectral_radius_scale. Qed.

Lemma sr_of_mat_ge0 n M : 0 <= sr_of_mat C n M.
Proof. exact: spectral_radius_ge0. Qed.

(* the model's constructed matrix: radius = |scale factor| * radius of adjacency^T o weights *)
Theorem build_A_radius n adj R rho m :
  sr_of_mat C n (build_A n adj R rho m) =
  `|ratr (Qrat (scale_factor rho m))| * sr_of_mat C n (hadamard n (transpose n adj) R).
Proof. by rewrite /build_A sr_of_mat_scale. Qed.

(* an acyclic graph (topological order of the graph used) gives radius 0 whatever the weights, rho and measured radius *)
Theorem build_A_acyclic_radius0 n order adj R rho m :
  dag_witness_ok order n (transpose n adj) = true -> sr_of_mat C n (build_A n adj R rho m) = 0.
Proof.
move=> HG; apply: (@witness_radius0 order).
by apply: (graph_order_is_witness n order adj) => //; apply: support_ok_build.
Qed.

(* packaged statements for Properties/C18Mx.v *)
Theorem witness_facts order n A : dag_witness_ok order n A = true ->
  char_poly (mx_of_mat n A) = 'X^n /\ pow_mx (mx_of_mat n A) n = 0 /\
  (forall a, eigenvalue (mx_of_mat n A) a -> a = 0) /\ sr_of_mat C n A = 0.
Proof.
move=> H; split; first exact: witness_char_poly H.
split; first exact: witness_pow0 H.
by split; [move=> a; exact: witness_eigenvalue0 H|exact: witness_radius0 H].
Qed.

Theorem build_A_radius_facts n adj R rho m :
  sr_of_mat C n (build_A n adj R rho m) = `|ratr (Qrat (scale_factor rho m))| * sr_of_mat C n (hadamard n (transpose n adj) R) /\
  forall order, dag_witness_ok order n (transpose n adj) = true -> sr_of_mat C n (build_A n adj R rho m) = 0.
Proof. by split; [exact: build_A_radius|move=> order; exact: build_A_acyclic_radius0]. Qed.

End Closed.

Theorem Qrat_embedding : (forall q q', Qeq q q' <-> Qrat q = Qrat q') /\
  (forall a b, Qrat (Qplus a b) = Qrat a + Qrat b) /\ (forall a b, Qrat (Qmult a b) = Qrat a * Qrat b).
Proof. by split; [exact: Qrat_eqP|split; [exact: Qrat_add|exact: Qrat_mul]]. Qed.
