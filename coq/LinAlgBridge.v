(* Bridge between the executable LIST models of C08 / C12 and the MathComp matrix developments (GaussMx.v, GeoRankMx.v).

   The correspondence checks evaluate, inside Coq, functions on lists (Model/Gauss.v: det_piv, gram, ratio_det ...;
   Model/GeoRank.v: zdet, gram_rows;  Model/GeoEllipsoid.v: centred, gram) on the data the Python code ran on; the general
   linear algebra (Schur complement, rank of a centred neighbourhood ...) is proved for 'M[F]_(m, n).  This file connects
   the two, so that the matrix theorems become theorems about the list functions, for every size.

     Qrat (GeneratorsMxBridge.v), Zrat      : Q -> rat, Z -> rat   (field / ring embeddings)
     mx_of_mat n m M, mx_of_zmat n m M      : entry (i, j) = nth j (nth i M [::]) 0, so a list matrix is read as padded
                                              with zeros and cut to n x m; in particular mx_of_mat k k G is the LEADING
                                              PRINCIPAL k x k block of G
     wf_mat n m M                           : M has n rows, each of length m (the shape hypothesis, a boolean)

   DETERMINANTS
     zdet_det       size M = n -> Zrat (zdet n M) = \det (mx_of_zmat n n M)          (cofactor expansion, expand_det_col)
     pivots_lpm     wf_mat n n G -> pivots n G = Some ps -> for every k <= n the leading principal minor
                    \det (mx_of_mat k k G) = Qrat (qprod (take k ps))                 (each elimination step is a Schur
                    complement step: det_schur of GaussMx.v with a 1 x 1 pivot block)
     det_piv_det    wf_mat n n G -> det_piv G = Some q -> \det (mx_of_mat n n G) = Qrat q
     det_piv_None   wf_mat n n G -> det_piv G = None -> some leading principal minor of G is 0
     det_piv_SomeP  wf_mat n n G -> (det_piv G is Some <-> every leading principal minor of G is non-zero)

   The transports are in GeoRankBridge.v (C12) and GaussBridge.v / GaussResidBridge.v (C08). *)
From Coq Require Import QArith ZArith List.
From mathcomp Require Import all_ssreflect all_algebra.
From mathcomp Require Import ssrZ.
From CE Require Import GeneratorsMxBridge GaussMx.
From CE Require Model.Gauss Model.GeoRank.
Set Implicit Arguments. Unset Strict Implicit. Unset Printing Implicit Defensive.
Import GRing.Theory Num.Theory.
Close Scope Q_scope. Close Scope Z_scope.
Local Open Scope ring_scope.

(* ---- Coq.Lists.List functions are the seq functions ------------------------------------------------------------ *)
Lemma nthE T (x : T) s i : List.nth i s x = nth x s i.
Proof. by elim: s i => [|a s IH] [|i] //=. Qed.
Lemma firstnE T n (s : seq T) : List.firstn n s = take n s.
Proof. by elim: n s => [|n IH] [|a s] //=; rewrite IH. Qed.
Lemma skipnE T n (s : seq T) : List.skipn n s = drop n s.
Proof. by elim: n s => [|n IH] [|a s] //=. Qed.
Lemma fold_rightE A B (f : B -> A -> A) a s : List.fold_right f a s = foldr f a s.
Proof. by []. Qed.
Lemma combineE A B (s : seq A) (t : seq B) : List.combine s t = zip s t.
Proof. by elim: s t => [|a s IH] [|b t] //=; rewrite IH. Qed.
Lemma repeatE T (x : T) n : List.repeat x n = nseq n x.
Proof. by elim: n => //= n ->. Qed.
Lemma seqE a n : List.seq a n = iota a n.
Proof. by []. Qed.
Lemma ForallP T (P : T -> Prop) (p : pred T) s : (forall x, reflect (P x) (p x)) -> reflect (List.Forall P s) (all p s).
Proof.
move=> H; elim: s => [|a s IH] /=; first by constructor.
apply: (iffP andP) => [[/H pa /IH ps]|Hf]; first by constructor.
by inversion Hf; subst; split; [apply/H|apply/IH].
Qed.

(* ---- Z -> rat and more of Q -> rat ----------------------------------------------------------------------------- *)
Definition Zrat (z : Z) : rat := (int_of_Z z)%:~R.

Lemma Zrat_add x y : Zrat (Z.add x y) = Zrat x + Zrat y.
Proof. by rewrite /Zrat int_of_Z_add intrD. Qed.
Lemma Zrat_mul x y : Zrat (Z.mul x y) = Zrat x * Zrat y.
Proof. by rewrite /Zrat int_of_Z_mul intrM. Qed.
Lemma Zrat0 : Zrat Z0 = 0.
Proof. by []. Qed.
Lemma Zrat1 : Zrat (Zpos xH) = 1.
Proof. by []. Qed.
Lemma Zrat_inj : injective Zrat.
Proof. by move=> x y /intr_inj /(can_inj int_of_ZK). Qed.
Lemma Zrat_opp x : Zrat (Z.opp x) = - Zrat x.
Proof. by apply/eqP; rewrite -addr_eq0 -Zrat_add Z.add_opp_diag_l. Qed.
Lemma Zrat_sub x y : Zrat (Z.sub x y) = Zrat x - Zrat y.
Proof. by rewrite -Z.add_opp_r Zrat_add Zrat_opp. Qed.
Lemma Zrat_eq0 z : (Zrat z == 0) = (z == Z0).
Proof. by rewrite -Zrat0 (inj_eq Zrat_inj). Qed.
Lemma Zrat_of_nat n : Zrat (Z.of_nat n) = n%:R.
Proof.
elim: n => [|n IH] //; rewrite Nat2Z.inj_succ -Z.add_1_r Zrat_add IH Zrat1 -[in RHS]addn1 natrD.
by [].
Qed.

Lemma Qrat_injZ z : Qrat (inject_Z z) = Zrat z.
Proof. by rewrite /Qrat /= divr1. Qed.
Lemma Qrat1 : Qrat (Qmake (Zpos xH) xH) = 1.
Proof. by rewrite (Qrat_injZ (Zpos xH)). Qed.
Lemma Qrat_eq q q' : Qeq q q' -> Qrat q = Qrat q'.
Proof. by move/Qrat_eqP. Qed.
Lemma Qrat_red q : Qrat (Qred q) = Qrat q.
Proof. exact/Qrat_eq/Qred_correct. Qed.
Lemma Qrat_opp a : Qrat (Qopp a) = - Qrat a.
Proof. by apply/eqP; rewrite -addr_eq0 -Qrat_add -Qrat0; apply/eqP/Qrat_eq; rewrite Qplus_comm; exact: Qplus_opp_r. Qed.
Lemma Qrat_sub a b : Qrat (Qminus a b) = Qrat a - Qrat b.
Proof. by rewrite /Qminus Qrat_add Qrat_opp. Qed.
Lemma Qrat_inv a : Qrat (Qinv a) = (Qrat a)^-1.
Proof.
have [/eqP a0|an0] := boolP (Qrat a == 0).
  have /Qrat_eq0 a0' := a0; rewrite a0 invr0 -Qrat0; apply/Qrat_eq.
  by move: a0'; rewrite /Qeq /Qinv /=; case: (Qnum a) => //=.
have an0' : ~ Qeq a (Qmake Z0 xH) by move/Qrat_eq0 => E; rewrite E eqxx in an0.
apply: (mulfI an0); rewrite -Qrat_mul divff // -Qrat1; apply/Qrat_eq; exact: Qmult_inv_r.
Qed.
Lemma Qrat_div a b : Qrat (Qdiv a b) = Qrat a / Qrat b.
Proof. by rewrite /Qdiv Qrat_mul Qrat_inv. Qed.
Lemma Qeq_boolF a b : Qeq_bool a b = false -> Qrat a != Qrat b.
Proof. by move=> H; apply/eqP => /Qrat_eqP /Qeq_bool_iff; rewrite H. Qed.
Lemma Qeq_boolT a b : Qeq_bool a b = true -> Qrat a = Qrat b.
Proof. by move/Qeq_bool_iff/Qrat_eq. Qed.
Definition Qrat_morph := (Qrat_red, Qrat_sub, Qrat_add, Qrat_mul, Qrat_div, Qrat_opp, Qrat_inv, Qrat_injZ).

(* ---- list matrices as mathcomp matrices ------------------------------------------------------------------------ *)
Definition qget (M : seq (seq Q)) (i j : nat) : Q := nth (Qmake Z0 xH) (nth [::] M i) j.
Definition zget (M : seq (seq Z)) (i j : nat) : Z := nth Z0 (nth [::] M i) j.
Definition mx_of_mat (n m : nat) (M : seq (seq Q)) : 'M[rat]_(n, m) := \matrix_(i, j) Qrat (qget M i j).
Definition mx_of_zmat (n m : nat) (M : seq (seq Z)) : 'M[rat]_(n, m) := \matrix_(i, j) Zrat (zget M i j).
Definition wf_mat T (n m : nat) (M : seq (seq T)) : bool := (size M == n) && all (fun r => size r == m) M.

(* the embedding of GeneratorsMxBridge.v is the square instance *)
Lemma mx_of_mat_generators n M : GeneratorsMxBridge.mx_of_mat n M = mx_of_mat n n M.
Proof. by apply/matrixP => i j; rewrite !mxE /Generators.get /qget !nthE. Qed.

Lemma wf_matP T n m (M : seq (seq T)) :
  reflect (List.length M = n /\ List.Forall (fun r => List.length r = m) M) (wf_mat n m M).
Proof.
have R := @ForallP _ (fun r : seq T => List.length r = m) (fun r => size r == m) M (fun x => eqP).
apply: (iffP andP) => [[/eqP sz /R al]|[sz /R al]]; split=> //; exact/eqP.
Qed.

Lemma wf_mat_row T n m (M : seq (seq T)) i : wf_mat n m M -> (i < n)%N -> size (nth [::] M i) = m.
Proof. by case/andP => /eqP <- /all_nthP H lt; apply/eqP/H. Qed.

Lemma mx_of_zmat_injZ n m M : mx_of_mat n m (map (map inject_Z) M) = mx_of_zmat n m M.
Proof.
apply/matrixP => i j; rewrite !mxE /qget /zget.
have [lt|ge] := ltnP i (size M); last by rewrite !nth_default ?size_map //= !nth_nil.
rewrite (nth_map [::]) //; set r := nth _ M i.
have [ltj|gej] := ltnP j (size r); last by rewrite !nth_default ?size_map.
by rewrite (nth_map Z0) // Qrat_injZ.
Qed.

Lemma mx_of_mat_tr n m M Mt : (forall i j, (i < n)%N -> (j < m)%N -> qget Mt j i = qget M i j) ->
  (mx_of_mat n m M)^T = mx_of_mat m n Mt.
Proof. by move=> H; apply/matrixP => i j; rewrite !mxE H. Qed.

(* sums *)
Lemma Zrat_zsum T (f : T -> Z) (x0 : T) s :
  Zrat (foldr Z.add Z0 (map f s)) = \sum_(l < size s) Zrat (f (nth x0 s l)).
Proof.
elim: s => [|a s IH] /=; first by rewrite big_ord0.
by rewrite big_ord_recl /= Zrat_add IH.
Qed.
Lemma qsum_consE a r : Gauss.qsum (a :: r) = Qred (Qplus a (Gauss.qsum r)).
Proof. by []. Qed.
Lemma qprod_consE a r : Gauss.qprod (a :: r) = Qred (Qmult a (Gauss.qprod r)).
Proof. by []. Qed.
Lemma Qrat_qsum T (f : T -> Q) (x0 : T) s :
  Qrat (Gauss.qsum (map f s)) = \sum_(l < size s) Qrat (f (nth x0 s l)).
Proof.
elim: s => [|a s IH]; first by rewrite big_ord0 Qrat0.
by rewrite big_ord_recl map_cons qsum_consE Qrat_red Qrat_add IH.
Qed.
Lemma Qrat_qprod s : Qrat (Gauss.qprod s) = \prod_(l < size s) Qrat (nth (Qmake Z0 xH) s l).
Proof.
elim: s => [|a s IH]; first by rewrite big_ord0 Qrat1.
by rewrite big_ord_recl qprod_consE Qrat_red Qrat_mul IH.
Qed.

(* ---- DETERMINANT BRIDGE (a): cofactor expansion over Z (Model/GeoRank.zdet) is \det ----------------------------- *)
Lemma nth_map_default T U (f : T -> U) x0 y0 s i : f x0 = y0 -> nth y0 (map f s) i = f (nth x0 s i).
Proof.
move=> E; have [lt|ge] := ltnP i (size s); first exact: nth_map.
by rewrite !nth_default ?size_map.
Qed.

Lemma nth_del T (x0 : T) s i a : nth x0 (take i s ++ drop i.+1 s) a = nth x0 s (bump i a).
Proof.
have [lt|ge] := ltnP i (size s); last first.
  rewrite take_oversize // drop_oversize ?cats0; last exact: leq_trans ge _.
  rewrite /bump; case: (leqP i a) => // ia.
  by rewrite !nth_default // ?add1n; [apply: leq_trans ge (leq_trans ia _)|apply: leq_trans ge ia].
rewrite nth_cat size_take lt /bump; case: (ltnP a i) => ai; first by rewrite nth_take.
by rewrite nth_drop add1n addSn subnKC.
Qed.

Section ZdetGo.
Variable zd : seq (seq Z) -> Z.
Fixpoint zdet_go (before after : seq (seq Z)) (sgn : Z) {struct after} : Z :=
  match after with
  | [::] => Z0
  | r :: rest => Z.add (Z.mul (Z.mul sgn (List.hd Z0 r)) (zd (List.map (@List.tl Z) (List.rev_append before rest))))
                       (zdet_go (r :: before) rest (Z.opp sgn))
  end.

Lemma zdet_go_sum before after sgn :
  Zrat (zdet_go before after sgn) =
  \sum_(t < size after) Zrat sgn * (-1) ^+ t * Zrat (zget after t 0) *
                        Zrat (zd (map behead (rev before ++ take t after ++ drop t.+1 after))).
Proof.
elim: after before sgn => [|r rest IH] before sgn; first by rewrite big_ord0.
rewrite big_ord_recl /= Zrat_add !Zrat_mul IH; congr (_ + _).
  by rewrite expr0 mulr1 drop0 /zget /= nth0 -[List.rev_append _ _]/(catrev _ _) catrevE.
apply: eq_bigr => t _; rewrite Zrat_opp /bump /= add1n exprS rev_cons cat_rcons.
by rewrite mulN1r mulrN !mulNr.
Qed.
Lemma zdet_go_sum_n n before after sgn : size after = n ->
  Zrat (zdet_go before after sgn) =
  \sum_(t < n) Zrat sgn * (-1) ^+ t * Zrat (zget after t 0) *
               Zrat (zd (map behead (rev before ++ take t after ++ drop t.+1 after))).
Proof. by move=> <-; exact: zdet_go_sum. Qed.
End ZdetGo.

Lemma zdetS n M : GeoRank.zdet n.+1 M = zdet_go (GeoRank.zdet n) [::] (List.firstn n.+1 M) (Zpos xH).
Proof. by []. Qed.

Lemma minor_mx n (M : seq (seq Z)) (t : 'I_n.+1) :
  row' t (col' 0 (mx_of_zmat n.+1 n.+1 M)) = mx_of_zmat n n (map behead (take t M ++ drop t.+1 M)).
Proof.
apply/matrixP => a b; rewrite !mxE /zget (nth_map_default (x0 := [::])) // nth_behead nth_del.
by [].
Qed.

Theorem zdet_det n M : size M = n -> Zrat (GeoRank.zdet n M) = \det (mx_of_zmat n n M).
Proof.
elim: n M => [|n IH] M sz; first by rewrite det_mx00.
rewrite zdetS firstnE take_oversize ?sz // (zdet_go_sum_n _ _ _ sz) (expand_det_col _ 0).
apply: eq_bigr => t _; rewrite Zrat1 mul1r /cofactor minor_mx addn0 IH; last first.
  by rewrite size_map [rev _]/= cat0s size_cat size_take size_drop sz ltn_ord subSS subnKC // -ltnS.
by rewrite !mxE mulrCA mulrA.
Qed.

Lemma zdet_eq0 n M : size M = n -> (GeoRank.zdet n M = Z0) <-> (\det (mx_of_zmat n n M) = 0).
Proof. by move=> sz; rewrite -zdet_det // -Zrat0; split=> [->|/Zrat_inj]. Qed.

(* ---- DETERMINANT BRIDGE (b): Gaussian elimination without pivoting (Model/Gauss.pivots, det_piv) ---------------- *)
Notation Q0 := (Qmake Z0 xH).

Lemma size_map2 A B C (f : A -> B -> C) a b : size (Gauss.map2 f a b) = minn (size a) (size b).
Proof. by elim: a b => [|x a IH] [|y b] //=; rewrite IH minnSS. Qed.
Lemma nth_map2 A B C (f : A -> B -> C) x0 y0 z0 a b j : (j < size a)%N -> (j < size b)%N ->
  nth z0 (Gauss.map2 f a b) j = f (nth x0 a j) (nth y0 b j).
Proof. by elim: a b j => [|x a IH] [|y b] [|j] //= ja jb; exact: IH. Qed.

Lemma schur_step_wf n p r rows : wf_mat n.+1 n.+1 ((p :: r) :: rows) -> wf_mat n n (Gauss.schur_step p r rows).
Proof.
rewrite /wf_mat /= !eqSS => /andP[/eqP sz /andP[/eqP sr al]]; rewrite /Gauss.schur_step size_map sz eqxx /=.
rewrite all_map; apply: sub_all al => -[|c rest] //=; rewrite eqSS => /eqP sc.
by rewrite size_map2 sc sr minnn.
Qed.

Lemma schur_entry n p r rows i j : wf_mat n.+1 n.+1 ((p :: r) :: rows) -> (i < n)%N -> (j < n)%N ->
  qget (Gauss.schur_step p r rows) i j =
  Qred (Qminus (qget rows i j.+1) (Qdiv (Qmult (qget rows i 0) (nth Q0 r j)) p)).
Proof.
move=> wf ltin ltjn; have := wf_mat_row (i := i.+1) wf; rewrite ltnS => /(_ ltin) /=.
have sr : size r = n by have := wf_mat_row (i := 0) wf isT => /= -[].
rewrite /qget /Gauss.schur_step (nth_map_default (x0 := [::])) //.
case: (nth [::] rows i) => [|c rest] //= [sc].
by rewrite (nth_map2 _ Q0 Q0) ?sc ?sr.
Qed.

(* one elimination step on the leading principal (k+1) x (k+1) block is a Schur-complement step with a 1 x 1 pivot *)
Lemma det_step n k p r rows : wf_mat n.+1 n.+1 ((p :: r) :: rows) -> (k <= n)%N -> Qrat p != 0 ->
  \det (mx_of_mat (1 + k) (1 + k) ((p :: r) :: rows)) = Qrat p * \det (mx_of_mat k k (Gauss.schur_step p r rows)).
Proof.
move=> wf kn pn0; set A := mx_of_mat _ _ _.
have Eul : ulsubmx A = (Qrat p)%:M by rewrite [ulsubmx A]mx11_scalar !mxE.
have Au : ulsubmx A \in unitmx by rewrite unitmxE Eul det_scalar1 unitfE.
rewrite -(submxK A) (det_schur _ _ _ Au) Eul det_scalar1; congr (_ * \det _).
apply/matrixP => i j; rewrite invmx_scalar mul_mx_scalar -scalemxAl !mxE big_ord1 !mxE /=.
rewrite (schur_entry wf) ?(leq_trans (ltn_ord _) kn) // !Qrat_morph !add1n /qget /=.
by rewrite [_^-1 * _]mulrC.
Qed.

Lemma wf_mat_cons n (G : seq (seq Q)) : wf_mat n.+1 n.+1 G -> exists p r rows, G = (p :: r) :: rows.
Proof.
case: G => [|[|p r] rows] //; first by rewrite /wf_mat /= andbF.
by exists p, r, rows.
Qed.

Lemma pivotsS n p r rows : Gauss.pivots n.+1 ((p :: r) :: rows) =
  if Qeq_bool p Q0 then None
  else if Gauss.pivots n (Gauss.schur_step p r rows) is Some ps then Some (p :: ps) else None.
Proof. by []. Qed.

(* successful elimination: the product of the first k pivots is the k-th leading principal minor *)
Lemma pivots_lpm n G ps : wf_mat n n G -> Gauss.pivots n G = Some ps ->
  [/\ size ps = n, all (fun x => Qrat x != 0) ps &
      forall k, (k <= n)%N -> \det (mx_of_mat k k G) = Qrat (Gauss.qprod (take k ps))].
Proof.
elim: n G ps => [|n IH] G ps wf.
  by case=> <-; split=> // -[|k] // _; rewrite det_mx00 Qrat1.
have [p [r [rows EG]]] := wf_mat_cons wf; move: wf; rewrite {G}EG => wf.
rewrite pivotsS; case Ep: (Qeq_bool p Q0) => //.
case Eps: (Gauss.pivots n _) => [ps'|] // [<-].
have pn0 : Qrat p != 0 by rewrite -Qrat0; exact: Qeq_boolF.
have [sz nz H] := IH _ _ (schur_step_wf wf) Eps.
split; rewrite /= ?sz ?pn0 // => -[|k]; first by rewrite det_mx00 Qrat1.
by rewrite ltnS => kn; rewrite -add1n (det_step wf kn pn0) H // take_cons qprod_consE Qrat_red Qrat_mul.
Qed.

(* failing elimination: the first zero pivot is a zero leading principal minor *)
Lemma pivots_None n G : wf_mat n n G -> Gauss.pivots n G = None ->
  exists2 k, (k < n)%N & \det (mx_of_mat k.+1 k.+1 G) = 0.
Proof.
elim: n G => [|n IH] G wf //.
have [p [r [rows EG]]] := wf_mat_cons wf; move: wf; rewrite {G}EG => wf.
rewrite pivotsS; case Ep: (Qeq_bool p Q0).
  move=> _; exists 0%N => //; rewrite [mx_of_mat _ _ _]mx11_scalar det_scalar1 mxE /qget /=.
  by rewrite (Qeq_boolT Ep) Qrat0.
have pn0 : Qrat p != 0 by rewrite -Qrat0; exact: Qeq_boolF.
case Eps: (Gauss.pivots n _) => [ps'|] // _.
have [k kn Hk] := IH _ (schur_step_wf wf) Eps.
by exists k.+1 => //; rewrite -[k.+2]add1n (det_step wf kn pn0) Hk mulr0.
Qed.

Lemma wf_mat_size T n m (M : seq (seq T)) : wf_mat n m M -> List.length M = n.
Proof. by case/andP => /eqP. Qed.

(* det_piv G = Some q: q is the determinant (and it is non-zero, as is every leading principal minor) *)
Theorem det_piv_det n G q : wf_mat n n G -> Gauss.det_piv G = Some q -> \det (mx_of_mat n n G) = Qrat q.
Proof.
move=> wf; rewrite /Gauss.det_piv (wf_mat_size wf); case Eps: (Gauss.pivots n G) => [ps|] // [<-].
by have [sz _ /(_ n (leqnn n)) ->] := pivots_lpm wf Eps; rewrite take_oversize ?sz.
Qed.

Lemma prod_pivots_neq0 ps : all (fun x => Qrat x != 0) ps -> Qrat (Gauss.qprod ps) != 0.
Proof.
move=> /(all_nthP Q0) nz; rewrite Qrat_qprod; apply/prodf_neq0 => l _; exact: nz.
Qed.

Theorem det_piv_Some_minors n G q : wf_mat n n G -> Gauss.det_piv G = Some q ->
  forall k, (k <= n)%N -> \det (mx_of_mat k k G) != 0.
Proof.
move=> wf; rewrite /Gauss.det_piv (wf_mat_size wf); case Eps: (Gauss.pivots n G) => [ps|] // _ k kn.
have [sz nz ->] := pivots_lpm wf Eps => //; apply: prod_pivots_neq0.
by move: nz; rewrite -{1}(cat_take_drop k ps) all_cat => /andP[].
Qed.

(* det_piv G = None: some leading principal minor vanishes *)
Theorem det_piv_None n G : wf_mat n n G -> Gauss.det_piv G = None ->
  exists2 k, (k < n)%N & \det (mx_of_mat k.+1 k.+1 G) = 0.
Proof.
move=> wf; rewrite /Gauss.det_piv (wf_mat_size wf); case Eps: (Gauss.pivots n G) => [ps|] // _.
exact: pivots_None wf Eps.
Qed.

(* elimination without pivoting succeeds exactly when all leading principal minors are non-zero *)
Theorem det_piv_SomeP n G : wf_mat n n G ->
  (exists q, Gauss.det_piv G = Some q) <-> (forall k, (k < n)%N -> \det (mx_of_mat k.+1 k.+1 G) != 0).
Proof.
move=> wf; split=> [[q Hq] k kn|H]; first exact: det_piv_Some_minors wf Hq k.+1 kn.
case E: (Gauss.det_piv G) => [q|]; first by exists q.
by have [k kn /eqP Hk] := det_piv_None wf E; have := H k kn; rewrite Hk.
Qed.

(* summaries for Properties/C08Mx.v *)
Theorem det_piv_facts n G : wf_mat n n G ->
  (forall q, Gauss.det_piv G = Some q -> \det (mx_of_mat n n G) = Qrat q) /\
  (forall ps, Gauss.pivots n G = Some ps -> forall k, (k <= n)%N -> \det (mx_of_mat k k G) = Qrat (Gauss.qprod (take k ps))).
Proof. by move=> wf; split=> [q|ps Hps]; [exact: det_piv_det|have [] := pivots_lpm wf Hps]. Qed.

Theorem det_piv_defined_facts n G : wf_mat n n G ->
  ((exists q, Gauss.det_piv G = Some q) <-> (forall k, (k < n)%N -> \det (mx_of_mat k.+1 k.+1 G) != 0)) /\
  (Gauss.det_piv G = None -> exists2 k, (k < n)%N & \det (mx_of_mat k.+1 k.+1 G) = 0).
Proof. by move=> wf; split; [exact: det_piv_SomeP|exact: det_piv_None]. Qed.

(* the two determinant functions of the models agree on integer matrices *)
Theorem det_piv_zdet n (M : seq (seq Z)) q : wf_mat n n M ->
  Gauss.det_piv (map (map inject_Z) M) = Some q -> Qeq q (inject_Z (GeoRank.zdet n M)).
Proof.
move=> wf Hq; apply/Qrat_eqP; rewrite Qrat_injZ zdet_det; last by case/andP: wf => /eqP.
rewrite -mx_of_zmat_injZ; symmetry; apply: det_piv_det Hq.
case/andP: wf => sz al; rewrite /wf_mat size_map sz all_map /=.
by apply: sub_all al => r /=; rewrite size_map.
Qed.
