From Coq Require Import List Arith Lia.
From CE Require Import Model.Lagged.
Import ListNotations.

Section P.
Context {V : Type} (d : V).

Lemma nth_skipn {A} (l : list A) n i x : nth i (skipn n l) x = nth (n + i) l x.
Proof. revert l; induction n as [|n IH]; intros l; [reflexivity|]. destruct l as [|a l]; [destruct i; reflexivity|]. apply IH. Qed.

Lemma nth_firstn_lt {A} (l : list A) k i x : i < k -> nth i (firstn k l) x = nth i l x.
Proof.
  revert l i; induction k as [|k IH]; intros l i H; [lia|]. destruct l as [|a l]; [reflexivity|].
  destruct i as [|i]; [reflexivity|]. cbn. apply IH. lia.
Qed.

Lemma slice_length {A} (l : list A) lo hi : hi <= length l -> length (slice lo hi l) = hi - lo.
Proof. intros H. unfold slice. rewrite firstn_length, skipn_length. lia. Qed.

Lemma slice_nth {A} (l : list A) lo hi i x : i < hi - lo -> nth i (slice lo hi l) x = nth (lo + i) l x.
Proof. intros H. unfold slice. rewrite nth_firstn_lt by exact H. apply nth_skipn. Qed.

Lemma col_length j (s : series) : length (col d j s) = length s.
Proof. apply map_length. Qed.

Lemma col_nth j (s : series) t : nth t (col d j s) d = cell d s t j.
Proof.
  unfold col, cell. destruct (Nat.lt_ge_cases t (length s)) as [H|H].
  - rewrite (nth_indep _ d (nth j [] d)) by (rewrite map_length; exact H).
    apply (map_nth (fun row => nth j row d)).
  - rewrite (nth_overflow (map _ s)) by (rewrite map_length; lia). rewrite (nth_overflow s) by lia. destruct j; reflexivity.
Qed.

(* row t' of the lagged predictor column pairs target time t = t' + L with source time t - tau *)
Theorem lagged_col_nth (s : series) L tau j t' :
  1 <= tau <= L -> L < length s -> t' < length s - L ->
  nth t' (lagged_col d s L tau j) d = cell d s (t' + L - tau) j.
Proof.
  intros Ht HL Ht'. unfold lagged_col. rewrite slice_nth by lia. rewrite col_nth. f_equal. lia.
Qed.

Theorem lagged_col_length (s : series) L tau j : tau <= L -> L <= length s -> length (lagged_col d s L tau j) = length s - L.
Proof. intros. unfold lagged_col. rewrite slice_length by (rewrite col_length; lia). lia. Qed.

Theorem y_col_nth (s : series) L i t' : t' < length s - L -> nth t' (y_col d s L i) d = cell d s (t' + L) i.
Proof. intros H. unfold y_col. rewrite slice_nth by lia. rewrite col_nth. f_equal. lia. Qed.

Theorem y_col_length (s : series) L i : length (y_col d s L i) = length s - L.
Proof. unfold y_col. rewrite slice_length by (rewrite col_length; lia). reflexivity. Qed.

Lemma list_ext_nth {A} (l1 l2 : list A) x : length l1 = length l2 ->
  (forall i, i < length l1 -> nth i l1 x = nth i l2 x) -> l1 = l2.
Proof.
  revert l2; induction l1 as [|a l1 IH]; intros [|b l2] Hl H; try discriminate; [reflexivity|].
  f_equal; [apply (H 0); cbn; lia|]. apply IH; [cbn in Hl; lia|]. intros i Hi. apply (H (S i)). cbn; lia.
Qed.

(* slicing = the pointwise "delayed by exactly tau over the window t = L .. T-1" *)
Theorem lagged_col_is_delayed (s : series) L tau j :
  1 <= tau <= L -> L < length s -> lagged_col d s L tau j = delayed d s L tau j.
Proof.
  intros Ht HL. apply (list_ext_nth _ _ d).
  - rewrite lagged_col_length by lia. unfold delayed. rewrite map_length, seq_length. reflexivity.
  - intros i Hi. rewrite lagged_col_length in Hi by lia. rewrite lagged_col_nth by lia.
    unfold delayed. rewrite (nth_indep _ d (cell d s (0 - tau) j)) by (rewrite map_length, seq_length; exact Hi).
    rewrite (map_nth (fun t => cell d s (t - tau) j)). rewrite seq_nth by exact Hi. f_equal. lia.
Qed.

Theorem y_col_is_present (s : series) L i : y_col d s L i = present d s L i.
Proof.
  apply (list_ext_nth _ _ d).
  - rewrite y_col_length. unfold present. rewrite map_length, seq_length. reflexivity.
  - intros k Hk. rewrite y_col_length in Hk. rewrite y_col_nth by exact Hk.
    unfold present. rewrite (nth_indep _ d (cell d s 0 i)) by (rewrite map_length, seq_length; exact Hk).
    rewrite (map_nth (fun t => cell d s t i)). rewrite seq_nth by exact Hk. f_equal. lia.
Qed.
End P.

(* ---- the edge record ---------------------------------------------------------------------- *)
Section Edge.
Context {V : Type} (d : V).

Lemma feature_range' n L c : 0 < L -> c < n * L -> 1 <= snd (feature L c) <= L.
Proof.
  intros HL Hc. unfold feature; cbn [snd]. pose proof (Nat.mod_upper_bound c L ltac:(lia)). lia.
Qed.

(* For every series, every max_lag, every selected set S of candidate indices and every reported
   parent sidx in S, the triple the edge's information and test are computed on is
   ( X_u delayed by exactly tau,  X_i at the present time,  the OTHER reported parents of i delayed
   by their own lags ), all over the common window t = L .. T-1. *)
Theorem edge_semantics (s : series) n L i S sidx :
  0 < L -> L < length s -> (forall c, In c S -> c < n * L) -> In sidx S ->
  edge_triple d s L i S sidx =
    ( delayed d s L (snd (feature L sidx)) (fst (feature L sidx)),
      present d s L i,
      map (fun c => delayed d s L (snd (feature L c)) (fst (feature L c)))
          (filter (fun k => negb (Nat.eqb k sidx)) S) ).
Proof.
  intros HL HT HS Hin. unfold edge_triple, x_lagged_col.
  rewrite (lagged_col_is_delayed d s L _ _ (feature_range' n L sidx HL (HS _ Hin)) HT).
  rewrite y_col_is_present. f_equal. apply map_ext_in. intros c Hc.
  apply filter_In in Hc. destruct Hc as [Hc _].
  apply lagged_col_is_delayed; [exact (feature_range' n L c HL (HS _ Hc))|exact HT].
Qed.

(* the conditioning block holds exactly the other reported parents: not sidx itself, nothing else *)
Theorem edge_conditioning_is_other_parents (S : list nat) sidx c :
  In c (filter (fun k => negb (Nat.eqb k sidx)) S) <-> In c S /\ c <> sidx.
Proof.
  rewrite filter_In. split; intros [H1 H2]; split; try exact H1.
  - intros ->. rewrite Nat.eqb_refl in H2. discriminate.
  - destruct (Nat.eqb_spec c sidx); [contradiction|reflexivity].
Qed.

(* every column of the triple lives on the same window of T - L samples *)
Theorem edge_window (s : series) n L i S sidx :
  0 < L -> L < length s -> (forall c, In c S -> c < n * L) -> In sidx S ->
  let '(X, Y, Zs) := edge_triple d s L i S sidx in
  length X = length s - L /\ length Y = length s - L /\ Forall (fun z => length z = length s - L) Zs.
Proof.
  intros HL HT HS Hin. unfold edge_triple, x_lagged_col. repeat split.
  - apply lagged_col_length; [apply (feature_range' n L sidx HL (HS _ Hin))|lia].
  - apply y_col_length.
  - rewrite Forall_forall. intros z Hz. apply in_map_iff in Hz. destruct Hz as (c & <- & Hc).
    apply filter_In in Hc. destruct Hc as [Hc _].
    apply lagged_col_length; [apply (feature_range' n L c HL (HS _ Hc))|lia].
Qed.
End Edge.

(* ---- labelling --------------------------------------------------------------------------- *)
Theorem feature_range n L c : 0 < L -> c < n * L -> fst (feature L c) < n /\ 1 <= snd (feature L c) <= L.
Proof.
  intros HL Hc. unfold feature; cbn [fst snd]. split.
  - apply Nat.div_lt_upper_bound; lia.
  - pose proof (Nat.mod_upper_bound c L ltac:(lia)). lia.
Qed.

Theorem feature_index_feature L c : 0 < L -> feature_index L (fst (feature L c)) (snd (feature L c)) = c.
Proof.
  intros HL. unfold feature, feature_index; cbn [fst snd].
  pose proof (Nat.div_mod c L ltac:(lia)). lia.
Qed.

Theorem feature_feature_index L j tau : 1 <= tau <= L -> feature L (feature_index L j tau) = (j, tau).
Proof.
  intros Ht. unfold feature, feature_index.
  replace (j * L + tau - 1) with (tau - 1 + j * L) by lia.
  rewrite Nat.div_add by lia. rewrite Nat.mod_add by lia.
  rewrite Nat.div_small by lia. rewrite Nat.mod_small by lia. f_equal; lia.
Qed.

Theorem feature_index_range n L j tau : j < n -> 1 <= tau <= L -> feature_index L j tau < n * L.
Proof. intros Hj Ht. unfold feature_index. nia. Qed.

Theorem feature_injective L c1 c2 : 0 < L -> feature L c1 = feature L c2 -> c1 = c2.
Proof.
  intros HL H. rewrite <- (feature_index_feature L c1 HL), <- (feature_index_feature L c2 HL). rewrite H. reflexivity.
Qed.

(* the label list built by the two nested loops is exactly c |-> feature L c *)
Theorem feature_names_nth n L c : 0 < L -> c < n * L -> nth c (feature_names n L) (0, 0) = feature L c.
Proof.
  intros HL. unfold feature_names. revert c.
  assert (G : forall n0 start c, c < n0 * L ->
     nth c (flat_map (fun j => map (fun tau => (j, tau)) (seq 1 L)) (seq start n0)) (0,0) = (start + c / L, c mod L + 1)).
  { induction n0 as [|n0 IH]; intros start c Hc; [lia|]. cbn [seq flat_map].
    destruct (Nat.lt_ge_cases c L) as [Hlt|Hge].
    - rewrite app_nth1 by (rewrite map_length, seq_length; exact Hlt).
      rewrite (nth_indep _ (0,0) ((fun tau => (start, tau)) 0)) by (rewrite map_length, seq_length; exact Hlt).
      rewrite (map_nth (fun tau => (start, tau))). rewrite seq_nth by exact Hlt.
      rewrite Nat.div_small, Nat.mod_small by exact Hlt. f_equal; lia.
    - rewrite app_nth2 by (rewrite map_length, seq_length; exact Hge). rewrite map_length, seq_length.
      rewrite IH by lia.
      pose proof (Nat.div_add (c - L) 1 L ltac:(lia)) as D. pose proof (Nat.mod_add (c - L) 1 L ltac:(lia)) as M.
      replace (c - L + 1 * L) with c in D, M by lia. rewrite D, M. f_equal; lia. }
  intros c Hc. rewrite G by exact Hc. reflexivity.
Qed.

Theorem feature_names_length n L : length (feature_names n L) = n * L.
Proof.
  unfold feature_names.
  assert (G : forall n0 start, length (flat_map (fun j => map (fun tau => (j, tau)) (seq 1 L)) (seq start n0)) = n0 * L).
  { induction n0 as [|n0 IH]; intros start; [reflexivity|].
    cbn [seq flat_map]. rewrite app_length, map_length, seq_length, IH. lia. }
  apply G.
Qed.

Example feature_instance : map (feature 3) [0; 1; 2; 3; 7] = [(0,1); (0,2); (0,3); (1,1); (2,2)]
  /\ feature_names 2 2 = [(0,1); (0,2); (1,1); (1,2)].
Proof. split; reflexivity. Qed.
