(* Lemmas about Model/LayoutPos.v: the circular positions over the real numbers. *)
From Coq Require Import Reals ZArith List Lra Lia Permutation Bool.
From CE Require Import Model.Harness Model.Itv Model.Layout Model.LayoutPos Proofs.ItvProofs Proofs.LayoutProofs.
Import ListNotations.
Open Scope R_scope.

Definition ang (N i : nat) : R := 2 * PI * INR i / INR N.
Definition px (N i : nat) : R := evalR [] (pos_x (EZ 1) N i).
Definition py (N i : nat) : R := evalR [] (pos_y (EZ 1) N i).

Lemma theta_eval N i : evalR [] (theta N i) = ang N i.
Proof. unfold theta, ang. cbn [evalR]. rewrite <- !INR_IZR_INZ. reflexivity. Qed.
Lemma pos_x_eval r N i : evalR [] (pos_x r N i) = evalR [] r * cos (ang N i).
Proof. unfold pos_x. cbn [evalR]. rewrite theta_eval. reflexivity. Qed.
Lemma pos_y_eval r N i : evalR [] (pos_y r N i) = evalR [] r * sin (ang N i).
Proof. unfold pos_y. cbn [evalR]. rewrite theta_eval. reflexivity. Qed.
Lemma px_eval N i : px N i = cos (ang N i).
Proof. unfold px. rewrite pos_x_eval. cbn [evalR]. lra. Qed.
Lemma py_eval N i : py N i = sin (ang N i).
Proof. unfold py. rewrite pos_y_eval. cbn [evalR]. lra. Qed.

Theorem positions_on_circle r N i :
  evalR [] (pos_x r N i) * evalR [] (pos_x r N i) + evalR [] (pos_y r N i) * evalR [] (pos_y r N i)
  = evalR [] r * evalR [] r.
Proof.
  rewrite pos_x_eval, pos_y_eval. pose proof (sin2_cos2 (ang N i)) as H. unfold Rsqr in H.
  transitivity (evalR [] r * evalR [] r * (sin (ang N i) * sin (ang N i) + cos (ang N i) * cos (ang N i))); [ring|].
  rewrite H. ring.
Qed.
Theorem positions_on_unit_circle N i : px N i * px N i + py N i * py N i = 1.
Proof. unfold px, py. rewrite positions_on_circle. cbn [evalR]. lra. Qed.

Lemma dist2 a b : (cos a - cos b) * (cos a - cos b) + (sin a - sin b) * (sin a - sin b) = 2 - 2 * cos (a - b).
Proof.
  rewrite cos_minus. pose proof (sin2_cos2 a) as Ha. pose proof (sin2_cos2 b) as Hb. unfold Rsqr in *.
  transitivity ((sin a * sin a + cos a * cos a) + (sin b * sin b + cos b * cos b)
                - 2 * (cos a * cos b + sin a * sin b)); [ring|].
  rewrite Ha, Hb. ring.
Qed.

Lemma ang_step N i : (1 <= N)%nat -> ang N (S i) - ang N i = 2 * PI / INR N.
Proof.
  intros H. unfold ang. rewrite S_INR. assert (INR N <> 0) by (apply not_0_INR; lia). field. assumption.
Qed.

(* consecutive nodes (including the last and the first, see positions_wrap) are the same chord apart *)
Theorem positions_equally_spaced N i : (1 <= N)%nat ->
  (px N (S i) - px N i) * (px N (S i) - px N i) + (py N (S i) - py N i) * (py N (S i) - py N i)
  = 2 - 2 * cos (2 * PI / INR N).
Proof. intros H. rewrite !px_eval, !py_eval, dist2, ang_step by exact H. reflexivity. Qed.

Theorem angles_equally_spaced N i : (1 <= N)%nat ->
  evalR [] (theta N (S i)) - evalR [] (theta N i) = 2 * PI / INR N /\ evalR [] (theta N 0) = 0 /\ evalR [] (theta N N) = 2 * PI.
Proof.
  intros H. rewrite !theta_eval. split; [apply ang_step, H|]. assert (INR N <> 0) by (apply not_0_INR; lia).
  unfold ang. split; [cbn [INR]; field; assumption|field; assumption].
Qed.

Theorem positions_wrap N : (1 <= N)%nat -> px N N = px N 0 /\ py N N = py N 0.
Proof.
  intros H. rewrite !px_eval, !py_eval. assert (INR N <> 0) by (apply not_0_INR; lia).
  replace (ang N N) with (2 * PI) by (unfold ang; field; assumption).
  replace (ang N 0) with 0 by (unfold ang; cbn [INR]; field; assumption).
  rewrite cos_2PI, sin_2PI, cos_0, sin_0. split; reflexivity.
Qed.

Theorem positions_equally_spaced_and_wrap N i : (1 <= N)%nat ->
  ((px N (S i) - px N i) * (px N (S i) - px N i) + (py N (S i) - py N i) * (py N (S i) - py N i) = 2 - 2 * cos (2 * PI / INR N))
  /\ px N N = px N 0%nat /\ py N N = py N 0%nat.
Proof. intros H. split; [exact (positions_equally_spaced N i H)|exact (positions_wrap N H)]. Qed.

Lemma cos_lt_1 x : 0 < x < 2 * PI -> cos x < 1.
Proof.
  intros [H0 H1]. pose proof PI_RGT_0 as HP. destruct (Rle_dec x PI) as [Hle|Hgt].
  - rewrite <- cos_0. apply cos_decreasing_1; lra.
  - rewrite <- cos_2PI. apply cos_increasing_1; lra.
Qed.

Lemma ang_gap N i j : (i < j < N)%nat -> 0 < ang N j - ang N i < 2 * PI.
Proof.
  intros [Hij HjN]. pose proof PI_RGT_0 as HP.
  assert (Hn : 0 < INR N) by (apply lt_0_INR; lia).
  assert (Hi : INR i < INR j) by (apply lt_INR; lia).
  assert (Hj : INR j < INR N) by (apply lt_INR; lia).
  pose proof (pos_INR i) as Hi0.
  unfold ang. replace (2 * PI * INR j / INR N - 2 * PI * INR i / INR N) with (2 * PI * ((INR j - INR i) / INR N)) by (field; lra).
  assert (Hd : 0 < (INR j - INR i) / INR N < 1).
  { split; [apply Rdiv_lt_0_compat; lra|].
    apply (Rmult_lt_reg_r (INR N)); [lra|]. unfold Rdiv. rewrite Rmult_assoc, Rinv_l by lra. lra. }
  split; nra.
Qed.

(* two different indices never share a point *)
Theorem positions_injective N i j : (i < N)%nat -> (j < N)%nat -> px N i = px N j -> py N i = py N j -> i = j.
Proof.
  intros Hi Hj Hx Hy. rewrite !px_eval in Hx. rewrite !py_eval in Hy.
  destruct (Nat.lt_trichotomy i j) as [L|[E|L]]; [exfalso|exact E|exfalso].
  - pose proof (dist2 (ang N j) (ang N i)) as D. rewrite Hx, Hy in D.
    pose proof (cos_lt_1 _ (ang_gap N i j (conj L Hj))). lra.
  - pose proof (dist2 (ang N i) (ang N j)) as D. rewrite Hx, Hy in D.
    pose proof (cos_lt_1 _ (ang_gap N j i (conj L Hi))). lra.
Qed.

(* ---- every node of the order gets exactly one position ---- *)
Lemma map_snd_combine_seq {A} (l : list A) : forall s, map snd (combine (seq s (length l)) l) = l.
Proof. induction l as [|x r IH]; intros s; cbn; [reflexivity|]. f_equal. apply IH. Qed.
Theorem circular_positions_keys {A} r (order : list A) : map fst (circular_positions r order) = order.
Proof.
  unfold circular_positions. rewrite map_map. cbn [fst]. apply map_snd_combine_seq.
Qed.
Lemma nth_combine_seq {A} (l : list A) d : forall s k, (k < length l)%nat ->
  nth k (combine (seq s (length l)) l) (0%nat, d) = ((s + k)%nat, nth k l d).
Proof.
  induction l as [|x r IH]; intros s k H; cbn in *; [lia|]. destruct k; [f_equal; lia|].
  rewrite IH by lia. f_equal. lia.
Qed.
Theorem circular_positions_nth {A} r (order : list A) d k : (k < length order)%nat ->
  nth k (circular_positions r order) (d, (pos_x r (length order) 0, pos_y r (length order) 0))
  = (nth k order d, (pos_x r (length order) k, pos_y r (length order) k)).
Proof.
  intros H. unfold circular_positions.
  change (d, (pos_x r (length order) 0, pos_y r (length order) 0))
    with ((fun p : nat * A => (snd p, (pos_x r (length order) (fst p), pos_y r (length order) (fst p)))) (0%nat, d)).
  rewrite map_nth, nth_combine_seq by exact H. reflexivity.
Qed.

Section Once.
Context {A : Type}.
Variable eqb : A -> A -> bool.
Hypothesis eqb_spec : forall a b, eqb a b = true <-> a = b.
(* the automatic layout: communities (oracle) -> seed order -> optimiser run (oracle decisions) -> positions *)
Theorem layout_places_each_node_once deg comms nodes ds r :
  NoDup nodes -> (forall c x, In c comms -> In x c -> In x nodes) ->
  Permutation (map fst (circular_positions r (optimize ds (seed_order eqb deg comms nodes)))) nodes.
Proof. intros H1 H2. rewrite circular_positions_keys. apply (optimizer_returns_perm eqb eqb_spec); assumption. Qed.
End Once.

(* ---- soundness of the in-kernel acceptor for the positions ---- *)
Definition obs_ok (tn td : Z) (m : Z * (expr * expr)) (o : obs) : Prop :=
  let '(n', (xn, xd), (yn, yd)) := o in
  fst m = n' /\
  Rabs (evalR [] (fst (snd m)) - IZR xn / IZR xd) <= IZR tn / IZR td /\
  Rabs (evalR [] (snd (snd m)) - IZR yn / IZR yd) <= IZR tn / IZR td.
Theorem check_items_sound tn td : forall model o, check_items tn td model o = true -> Forall2 (obs_ok tn td) model o.
Proof.
  induction model as [|[n [ex ey]] m IH]; intros [|[[n' [xn xd]] [yn yd]] o] H; cbn [check_items] in H;
    try discriminate; [constructor|].
  rewrite !andb_true_iff in H. destruct H as [[[H1 H2] H3] H4].
  constructor; [|apply IH, H4]. cbn. split; [apply Z.eqb_eq, H1|].
  apply close_sound in H2. apply close_sound in H3. cbn [evalR EQ] in H2, H3. split; assumption.
Qed.

Example positions_instance :
  check_pos_case 1 1000000000000 ([7; 3; 5]%Z,
    [(7, (1, 1), (0, 1)); (3, (-1, 2), (7800463371553963, 9007199254740992));
     (5, (-1, 2), (-7800463371553963, 9007199254740992))]%Z) = true.
Proof. vm_compute. reflexivity. Qed.
