(* The refutations of C10 for the conditional Poisson estimator at the level of VALUES: on the witness matrix the model's estimate changes by
   more than 3/4 when X and Y are exchanged and by more than 1/10 when Z's two columns are exchanged, for every real entropy function within
   1e-9 of the two certified numbers h_half, h_one.  That the Poisson entropy series is such a function is Proofs/PoissonCMISeries.v (it needs
   the interval-tactic library closure of C13, which is kept out of Properties/C10.v so that `coqchk` on it stays as cheap as before). *)
From Coq Require Import List Arith ZArith QArith Bool Reals Qreals Lra Lia Permutation.
From CE Require Import Model.PoissonMI Model.PoissonCMI Model.Poisson Model.Itv Proofs.PoissonMIProofs Proofs.PoissonCMIProofs.
Import ListNotations.

(* the numbers used by the harness replay (h_half, h_one) are the certified ones *)
Lemma cert_half : check_entropy_full_case (1, 2, 30%nat, Qnum h_half, Zpos (Qden h_half))%Z = true.
Proof. vm_compute. reflexivity. Qed.
Lemma cert_one : check_entropy_full_case (1, 1, 30%nat, Qnum h_one, Zpos (Qden h_one))%Z = true.
Proof. vm_compute. reflexivity. Qed.

Open Scope R_scope.
Lemma value_orig hR : pcmi_valueR hR t_orig = 2 * hR (1 / 2) + hR (1 / 1) + 3 / 2.
Proof.
  unfold pcmi_valueR, t_orig. cbn [fst snd map fold_right].
  change (Qabsq 1) with 1%Q. change (Qabsq (1 # 2)) with (1 # 2)%Q.
  unfold Q2R. cbn [Qnum Qden]. unfold Rdiv. lra.
Qed.
Lemma value_swap hR : pcmi_valueR hR t_swap = 3 * hR (1 / 1) + 3 / 2.
Proof.
  unfold pcmi_valueR, t_swap. cbn [fst snd map fold_right]. change (Qabsq 1) with 1%Q.
  unfold Q2R. cbn [Qnum Qden]. unfold Rdiv. lra.
Qed.
Lemma value_zrev hR : pcmi_valueR hR t_zrev = 2 * hR (1 / 1) + hR (1 / 2) + 1.
Proof.
  unfold pcmi_valueR, t_zrev. cbn [fst snd map fold_right].
  change (Qabsq 1) with 1%Q. change (Qabsq (1 # 2)) with (1 # 2)%Q.
  unfold Q2R. cbn [Qnum Qden]. unfold Rdiv. lra.
Qed.

Lemma Rabs_le_both x a : Rabs x <= a -> - a <= x <= a.
Proof. unfold Rabs. destruct (Rcase_abs x); lra. Qed.

(* for EVERY real entropy function that is within 1e-9 of the two certified numbers at the rates 1/2 and 1 *)
Definition near_certified (hR : R -> R) : Prop :=
  Rabs (hR (1 / 2) - Q2R h_half) <= / 10 ^ 9 /\ Rabs (hR (1 / 1) - Q2R h_one) <= / 10 ^ 9.
Lemma swap_values_gen hR : near_certified hR -> pcmi_valueR hR t_orig + 3 / 4 < pcmi_valueR hR t_swap.
Proof.
  intros [A B]. rewrite value_orig, value_swap. unfold Q2R, h_half, h_one in A, B. cbn [Qnum Qden] in A, B.
  apply Rabs_le_both in A. apply Rabs_le_both in B. assert (T : / 10 ^ 9 <= 1 / 1000) by (cbn [pow]; lra). lra.
Qed.
Lemma zorder_values_gen hR : near_certified hR -> pcmi_valueR hR t_zrev + 1 / 10 < pcmi_valueR hR t_orig.
Proof.
  intros [A B]. rewrite value_orig, value_zrev. unfold Q2R, h_half, h_one in A, B. cbn [Qnum Qden] in A, B.
  apply Rabs_le_both in A. apply Rabs_le_both in B. assert (T : / 10 ^ 9 <= 1 / 1000) by (cbn [pow]; lra). lra.
Qed.

(* K2a: a correlation matrix of a count sample on which exchanging X and Y changes the multiset of signed entropy arguments and the value *)
Theorem swap_refuted : exists M kx ky kz t t',
  is_corr_of witness_sample M (kx + ky + kz) = true /\ sym_unit M (kx + ky + kz) = true /\
  pcmi_terms kx ky kz (of_lists M) = Some t /\ pcmi_terms ky kx kz (reindex (swap_xyz kx ky) (of_lists M)) = Some t' /\
  (exists x, count_sr x (fst t) <> count_sr x (fst t')) /\
  forall hR, near_certified hR -> pcmi_valueR hR t + 3 / 4 < pcmi_valueR hR t'.
Proof.
  exists witness, 1%nat, 1%nat, 2%nat, t_orig, t_swap. destruct witness_is_a_correlation_matrix as [A B].
  split; [exact A|]. split; [exact B|]. split; [exact wt_orig|]. split; [exact wt_swap|]. split; [|exact swap_values_gen].
  exists (1, 1 # 2)%Q. vm_compute. discriminate.
Qed.
(* K2b: ... on which exchanging Z's two columns does *)
Theorem zorder_refuted : exists M kx ky kz tau t t',
  is_corr_of witness_sample M (kx + ky + kz) = true /\ sym_unit M (kx + ky + kz) = true /\ Permutation tau (seq 0 kz) /\
  pcmi_terms kx ky kz (of_lists M) = Some t /\ pcmi_terms kx ky kz (reindex (zcols kx ky tau) (of_lists M)) = Some t' /\
  (exists x, count_sr x (fst t) <> count_sr x (fst t')) /\
  forall hR, near_certified hR -> pcmi_valueR hR t' + 1 / 10 < pcmi_valueR hR t.
Proof.
  exists witness, 1%nat, 1%nat, 2%nat, [1; 0]%nat, t_orig, t_zrev. destruct witness_is_a_correlation_matrix as [A B].
  split; [exact A|]. split; [exact B|]. split; [apply perm_swap|]. split; [exact wt_orig|]. split; [exact wt_zrev|]. split; [|exact zorder_values_gen].
  exists (1, 1 # 2)%Q. vm_compute. discriminate.
Qed.

(* the certificates that make `near_certified` true of the Poisson entropy series (C13_complete_accuracy_certificate turns each into
   "every partial sum from 30 terms on is within 1e-9") *)
Theorem witness_certificates :
  check_entropy_full_case (1, 2, 30%nat, Qnum h_half, Zpos (Qden h_half))%Z = true /\
  check_entropy_full_case (1, 1, 30%nat, Qnum h_one, Zpos (Qden h_one))%Z = true.
Proof. exact (conj cert_half cert_one). Qed.

