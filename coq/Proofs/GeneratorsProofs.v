From Coq Require Import List QArith Qabs ZArith Bool Lqa Lia Arith.
From CE Require Import Model.Generators.
Import ListNotations.
Open Scope Q_scope.

(* ---------- element-wise equality ---------- *)
Lemma veq_refl a : veq a a.
Proof. induction a; constructor; [reflexivity|assumption]. Qed.
Lemma veq_sym a b : veq a b -> veq b a.
Proof. induction 1; constructor; [symmetry|]; assumption. Qed.
Lemma veq_trans a b c : veq a b -> veq b c -> veq a c.
Proof.
  intros H; revert c. induction H as [|x y a b Hxy _ IH]; intros c Hc; inversion Hc; subst; constructor.
  - etransitivity; eassumption.
  - apply IH; assumption.
Qed.
Lemma veq_length a b : veq a b -> length a = length b.
Proof. induction 1; cbn [length]; congruence. Qed.
Lemma meq_refl a : meq a a.
Proof. induction a; constructor; [apply veq_refl|assumption]. Qed.

(* ---------- linear algebra on lists ---------- *)
Lemma dot_proper_r a : forall p p', veq p p' -> dot a p == dot a p'.
Proof.
  induction a as [|x a IH]; intros p p' H; cbn [dot]; [reflexivity|].
  inversion H as [|u v p0 p0' Huv Hrest]; subst; [reflexivity|]. rewrite Huv, (IH _ _ Hrest). reflexivity.
Qed.
Lemma dot_vscale_r c a : forall p, dot a (vscale c p) == c * dot a p.
Proof.
  induction a as [|x a IH]; intros p; cbn [dot vscale map]; [ring|].
  destruct p as [|y p]; cbn [vscale map]; [ring|]. fold (vscale c p). rewrite IH. ring.
Qed.
Lemma mulmv_proper A p p' : veq p p' -> veq (mulmv A p) (mulmv A p').
Proof. intros H. induction A as [|row A IH]; cbn [mulmv map]; constructor; [apply dot_proper_r; exact H|exact IH]. Qed.
Lemma mulmv_vscale A c p : veq (mulmv A (vscale c p)) (vscale c (mulmv A p)).
Proof. induction A as [|row A IH]; cbn [mulmv vscale map]; constructor; [apply dot_vscale_r|exact IH]. Qed.
Lemma mulmv_length A p : length (mulmv A p) = length A.
Proof. apply map_length. Qed.
Lemma vscale_length c a : length (vscale c a) = length a.
Proof. apply map_length. Qed.
Lemma vadd_proper a a' : veq a a' -> forall b b', veq b b' -> veq (vadd a b) (vadd a' b').
Proof.
  induction 1 as [|x x' a a' Hx _ IH]; intros b b' Hb; cbn [vadd]; [constructor|].
  inversion Hb; subst; constructor; [rewrite Hx; match goal with H : _ == _ |- _ => rewrite H end; reflexivity|].
  apply IH; assumption.
Qed.
Lemma vadd_vscale c a : forall b, veq (vadd (vscale c a) (vscale c b)) (vscale c (vadd a b)).
Proof.
  induction a as [|x a IH]; intros b; cbn [vadd vscale map]; [constructor|].
  destruct b as [|y b]; cbn [map]; constructor; [ring|apply IH].
Qed.
Lemma vscale_vscale c e w : veq (vscale (c * e) w) (vscale c (vscale e w)).
Proof. induction w as [|y w IH]; cbn [vscale map]; constructor; [ring|exact IH]. Qed.
Lemma vscale_proper c a a' : veq a a' -> veq (vscale c a) (vscale c a').
Proof. induction 1 as [|x x' a a' Hx _ IH]; cbn [vscale map]; constructor; [rewrite Hx; reflexivity|exact IH]. Qed.
Lemma vadd_length a : forall b, length a = length b -> length (vadd a b) = length a.
Proof. induction a as [|x a IH]; intros [|y b] H; cbn [vadd length] in *; try congruence. rewrite IH; congruence. Qed.
Lemma vsub_vadd a : forall b, length a = length b -> veq (vsub (vadd a b) a) b.
Proof.
  induction a as [|x a IH]; intros [|y b] H; cbn [vadd vsub length] in *; try discriminate; constructor; [ring|].
  apply IH. congruence.
Qed.
Lemma vadd_vsub x : forall a e, length x = length a -> veq (vsub x a) e -> veq x (vadd a e).
Proof.
  induction x as [|u x IH]; intros [|v a] e HL H; cbn [vsub vadd length] in *; try discriminate; [constructor|].
  inversion H as [|? w ? e' Hw He]; subst. constructor; [lra|]. apply IH; [congruence|exact He].
Qed.

(* ---------- shape ---------- *)
Lemma ar_step_length A eps prev w : length w = length A -> length (ar_step A eps prev w) = length A.
Proof. intros H. unfold ar_step. rewrite vadd_length; rewrite mulmv_length; [reflexivity|]. rewrite vscale_length. congruence. Qed.
Lemma lin_from_shape A eps n : length A = n -> forall noise prev, Forall (fun w => length w = n) noise ->
  length (lin_from A eps prev noise) = length noise /\ Forall (fun x => length x = n) (lin_from A eps prev noise).
Proof.
  intros HA. induction noise as [|w r IH]; intros prev Hn; cbn [lin_from length]; [split; constructor|].
  inversion Hn; subst. destruct (IH (ar_step A eps prev w) H2) as [L F]. split; [congruence|].
  constructor; [apply ar_step_length; congruence|exact F].
Qed.
(* the series has T rows of n entries: shape (T, n) *)
Theorem shape_T_n A eps n noise : length A = n -> Forall (fun w => length w = n) noise ->
  length (lin_series A eps noise) = length noise /\ Forall (fun x => length x = n) (lin_series A eps noise).
Proof.
  intros HA Hn. destruct noise as [|w0 r]; cbn [lin_series length]; [split; constructor|].
  inversion Hn; subst. destruct (lin_from_shape A eps (length A) eq_refl r (vscale eps w0) H2) as [L F].
  split; [congruence|]. constructor; [rewrite vscale_length; assumption|exact F].
Qed.

(* ---------- X_t - A X_{t-1} is eps times the noise ---------- *)
Lemma residuals_from_lin A eps n : length A = n -> forall noise prev, Forall (fun w => length w = n) noise ->
  meq (residuals_from A prev (lin_from A eps prev noise)) (map (vscale eps) noise).
Proof.
  intros HA. induction noise as [|w r IH]; intros prev Hn; cbn [lin_from residuals_from map]; [constructor|].
  inversion Hn; subst. constructor; [|apply IH; assumption].
  unfold ar_step. apply vsub_vadd. rewrite mulmv_length, vscale_length. congruence.
Qed.
Theorem residual_is_noise_all A eps n noise : length A = n -> Forall (fun w => length w = n) noise ->
  meq (residuals A (lin_series A eps noise)) (map (vscale eps) noise).
Proof.
  intros HA Hn. destruct noise as [|w0 r]; cbn [lin_series residuals map]; [constructor|].
  inversion Hn; subst. constructor; [apply veq_refl|]. apply (residuals_from_lin A eps (length A) eq_refl); assumption.
Qed.

Lemma lin_from_nth_0 A eps prev noise : noise <> [] ->
  nth 0 (lin_from A eps prev noise) [] = ar_step A eps prev (nth 0 noise []).
Proof. destruct noise; [congruence|reflexivity]. Qed.
Lemma lin_from_nth_S A eps : forall noise prev t, (S t < length noise)%nat ->
  nth (S t) (lin_from A eps prev noise) [] = ar_step A eps (nth t (lin_from A eps prev noise) []) (nth (S t) noise []).
Proof.
  induction noise as [|w r IH]; intros prev t H; cbn [length] in H; [lia|].
  cbn [lin_from]. destruct t as [|t].
  - cbn [nth]. apply lin_from_nth_0. destruct r; cbn [length] in H; [lia|congruence].
  - change (nth (S (S t)) (ar_step A eps prev w :: lin_from A eps (ar_step A eps prev w) r) [])
      with (nth (S t) (lin_from A eps (ar_step A eps prev w) r) []).
    change (nth (S (S t)) (w :: r) []) with (nth (S t) r []).
    change (nth (S t) (ar_step A eps prev w :: lin_from A eps (ar_step A eps prev w) r) [])
      with (nth t (lin_from A eps (ar_step A eps prev w) r) []).
    apply IH. lia.
Qed.
(* the recursion, row by row (Leibniz equalities: this IS lines 56-59) *)
Lemma lin_series_row0 A eps noise : noise <> [] -> nth 0 (lin_series A eps noise) [] = vscale eps (nth 0 noise []).
Proof. destruct noise; [congruence|reflexivity]. Qed.
Lemma lin_series_rowS A eps noise t : (S t < length noise)%nat ->
  nth (S t) (lin_series A eps noise) [] = ar_step A eps (nth t (lin_series A eps noise) []) (nth (S t) noise []).
Proof.
  destruct noise as [|w0 r]; cbn [length]; [lia|]. intros H. cbn [lin_series]. destruct t as [|t].
  - cbn [nth]. apply lin_from_nth_0. destruct r; cbn [length] in H; [lia|congruence].
  - change (nth (S (S t)) (vscale eps w0 :: lin_from A eps (vscale eps w0) r) [])
      with (nth (S t) (lin_from A eps (vscale eps w0) r) []).
    change (nth (S (S t)) (w0 :: r) []) with (nth (S t) r []).
    change (nth (S t) (vscale eps w0 :: lin_from A eps (vscale eps w0) r) [])
      with (nth t (lin_from A eps (vscale eps w0) r) []).
    apply lin_from_nth_S. lia.
Qed.
Theorem residual_is_noise A eps n noise : length A = n -> Forall (fun w => length w = n) noise ->
  let X := lin_series A eps noise in
  (noise <> [] -> nth 0 X [] = vscale eps (nth 0 noise [])) /\
  forall t, (S t < length noise)%nat ->
    veq (vsub (nth (S t) X []) (mulmv A (nth t X []))) (vscale eps (nth (S t) noise [])).
Proof.
  intros HA Hn X. split; [apply lin_series_row0|]. intros t Ht. unfold X. rewrite lin_series_rowS by exact Ht.
  unfold ar_step. apply vsub_vadd. rewrite mulmv_length, vscale_length.
  rewrite Forall_forall in Hn. rewrite (Hn (nth (S t) noise [])); [congruence|]. apply nth_In. exact Ht.
Qed.

(* conversely: a series of the right shape whose residuals under A are eps * noise IS the model series,
   i.e. (A, eps, noise) determine the data *)
Lemma explains_from A eps n : length A = n -> forall noise X prev prev', veq prev prev' ->
  Forall (fun x => length x = n) X -> meq (residuals_from A prev X) (map (vscale eps) noise) ->
  meq X (lin_from A eps prev' noise).
Proof.
  intros HA. induction noise as [|w r IH]; intros X prev prev' Hp HX H; destruct X as [|x X'];
    cbn [residuals_from map lin_from] in *; inversion H; subst; [constructor|].
  inversion HX; subst.
  assert (E : veq x (ar_step A eps prev' w)).
  { unfold ar_step. eapply veq_trans.
    - apply vadd_vsub; [|eassumption]. rewrite mulmv_length. congruence.
    - apply vadd_proper; [apply mulmv_proper; exact Hp|apply veq_refl]. }
  constructor; [exact E|]. eapply IH; eassumption.
Qed.
Theorem explains_unique A eps n noise X : length A = n -> Forall (fun x => length x = n) X ->
  meq (residuals A X) (map (vscale eps) noise) -> meq X (lin_series A eps noise).
Proof.
  intros HA HX H. destruct noise as [|w0 r]; destruct X as [|x0 X']; cbn [residuals map lin_series] in *;
    inversion H; subst; [apply meq_refl|].
  inversion HX; subst. constructor; [assumption|].
  apply (explains_from A eps (length A) eq_refl r X' x0 (vscale eps w0)); assumption.
Qed.

(* ---------- exactly linear in epsilon ---------- *)
Lemma ar_step_scale A c eps p p' w : veq p' (vscale c p) ->
  veq (ar_step A (c * eps) p' w) (vscale c (ar_step A eps p w)).
Proof.
  intros H. unfold ar_step. eapply veq_trans; [|apply vadd_vscale]. apply vadd_proper.
  - eapply veq_trans; [apply mulmv_proper; exact H|apply mulmv_vscale].
  - apply vscale_vscale.
Qed.
Lemma lin_from_scale A c eps : forall noise p p', veq p' (vscale c p) ->
  meq (lin_from A (c * eps) p' noise) (map (vscale c) (lin_from A eps p noise)).
Proof.
  induction noise as [|w r IH]; intros p p' H; cbn [lin_from map]; [constructor|].
  pose proof (ar_step_scale A c eps p p' w H) as E. constructor; [exact E|]. apply IH. exact E.
Qed.
Theorem linear_in_eps A c eps noise :
  meq (lin_series A (c * eps) noise) (map (vscale c) (lin_series A eps noise)).
Proof.
  destruct noise as [|w0 r]; cbn [lin_series map]; [constructor|].
  constructor; [apply vscale_vscale|]. apply lin_from_scale. apply vscale_vscale.
Qed.

(* ---------- the reduced-fraction evaluator computes the same series ---------- *)
Lemma dot_red_eq a : forall b, dot_red a b == dot a b.
Proof.
  induction a as [|x a IH]; intros b; cbn [dot dot_red]; [reflexivity|]. destruct b as [|y b]; [reflexivity|].
  rewrite Qred_correct, IH. reflexivity.
Qed.
Lemma map_Qred_veq a : veq (map Qred a) a.
Proof. induction a; cbn [map]; constructor; [apply Qred_correct|assumption]. Qed.
Lemma mulmv_red_veq A p : veq (map (fun row => dot_red row p) A) (mulmv A p).
Proof. induction A as [|row A IH]; cbn [map mulmv]; constructor; [apply dot_red_eq|exact IH]. Qed.
Lemma ar_step_red_eq A eps p p' w : veq p p' -> veq (ar_step_red A eps p w) (ar_step A eps p' w).
Proof.
  intros H. unfold ar_step_red, ar_step. eapply veq_trans; [apply map_Qred_veq|]. apply vadd_proper; [|apply veq_refl].
  eapply veq_trans; [apply mulmv_red_veq|apply mulmv_proper; exact H].
Qed.
Lemma lin_from_red_eq A eps : forall noise p p', veq p p' -> meq (lin_from_red A eps p noise) (lin_from A eps p' noise).
Proof.
  induction noise as [|w r IH]; intros p p' H; cbn [lin_from_red lin_from]; [constructor|].
  pose proof (ar_step_red_eq A eps p p' w H) as E. constructor; [exact E|]. apply IH. exact E.
Qed.
Theorem lin_series_red_eq A eps noise : meq (lin_series_red A eps noise) (lin_series A eps noise).
Proof.
  destruct noise as [|w0 r]; cbn [lin_series_red lin_series]; [constructor|].
  constructor; [apply map_Qred_veq|]. apply lin_from_red_eq. apply map_Qred_veq.
Qed.

(* ---------- support of A: transposed graph ---------- *)
Lemma get_tab n f i j : (i < n)%nat -> (j < n)%nat -> get (tab n f) i j = f i j.
Proof.
  intros Hi Hj. unfold get, tab.
  rewrite (nth_indep _ [] (map (fun j0 => f 0%nat j0) (seq 0 n))) by (rewrite map_length, seq_length; exact Hi).
  rewrite (map_nth (fun i0 => map (fun j0 => f i0 j0) (seq 0 n)) (seq 0 n) 0%nat i).
  rewrite seq_nth by exact Hi. cbn [Nat.add].
  rewrite (nth_indep _ 0 (f i 0%nat)) by (rewrite map_length, seq_length; exact Hj).
  rewrite (map_nth (fun j0 => f i j0) (seq 0 n) 0%nat j). rewrite seq_nth by exact Hj. reflexivity.
Qed.
Lemma get_mscale s M i j : get (mscale s M) i j == s * get M i j.
Proof.
  unfold get, mscale.
  change (@nil Q) with (map (Qmult s) []) at 1. rewrite map_nth.
  destruct (Nat.lt_ge_cases j (length (nth i M []))) as [H|H].
  - rewrite (nth_indep _ 0 (s * 0)) by (rewrite map_length; exact H). rewrite map_nth. reflexivity.
  - rewrite !nth_overflow; [ring|exact H|rewrite map_length; exact H].
Qed.
Lemma get_build_A n adj R rho m i j : (i < n)%nat -> (j < n)%nat ->
  get (build_A n adj R rho m) i j == scale_factor rho m * (get adj j i * get R i j).
Proof.
  intros Hi Hj. unfold build_A. rewrite get_mscale. unfold hadamard. rewrite get_tab by assumption.
  unfold transpose. rewrite get_tab by assumption. reflexivity.
Qed.
(* an entry A[i][j] can be non-zero only if the graph has the edge j -> i *)
Theorem support_transposed n adj R rho m i j : (i < n)%nat -> (j < n)%nat ->
  ~ get (build_A n adj R rho m) i j == 0 -> ~ get adj j i == 0.
Proof.
  intros Hi Hj H E. apply H. rewrite get_build_A by assumption. rewrite E. ring.
Qed.
Lemma forallb_seq n (f : nat -> bool) : forallb f (seq 0 n) = true <-> forall i, (i < n)%nat -> f i = true.
Proof.
  rewrite forallb_forall. split; intros H i Hi.
  - apply H. apply in_seq. lia.
  - apply H. apply in_seq in Hi. lia.
Qed.
Lemma support_ok_spec n adj A : support_ok n adj A = true <->
  forall i j, (i < n)%nat -> (j < n)%nat -> ~ get A i j == 0 -> ~ get adj j i == 0.
Proof.
  unfold support_ok. rewrite forallb_seq. split.
  - intros H i j Hi Hj Hne E. specialize (H i Hi). rewrite forallb_seq in H. specialize (H j Hj).
    apply orb_true_iff in H. destruct H as [H|H].
    + apply Qeq_bool_iff in H. contradiction.
    + apply negb_true_iff in H. apply Qeq_bool_iff in E. congruence.
  - intros H i Hi. rewrite forallb_seq. intros j Hj. apply orb_true_iff.
    destruct (Qeq_bool (get A i j) 0) eqn:E1; [left; reflexivity|right]. apply negb_true_iff.
    destruct (Qeq_bool (get adj j i) 0) eqn:E2; [|reflexivity]. exfalso.
    apply Qeq_bool_iff in E2. refine (H i j Hi Hj _ E2). intros E. apply Qeq_bool_iff in E. congruence.
Qed.
Theorem support_ok_build n adj R rho m : support_ok n adj (build_A n adj R rho m) = true.
Proof. apply support_ok_spec. intros i j Hi Hj. apply support_transposed; assumption. Qed.

(* ---------- spectral radius: abstract function, scaling law as hypothesis ---------- *)
Section Radius.
  Variable sr : mat -> Q.
  Hypothesis sr_scale : forall s M, 0 <= s -> sr (mscale s M) == s * sr M.

  Theorem radius_is_rho n adj R rho : 0 <= rho ->
    let M := hadamard n (transpose n adj) R in
    (radius_floor < sr M -> sr (build_A n adj R rho (sr M)) == rho) /\
    (sr M == 0 -> sr (build_A n adj R rho (sr M)) == 0).
  Proof.
    intros Hrho M. unfold build_A. fold M. unfold scale_factor. split; intros H.
    - destruct (Qle_bool (sr M) radius_floor) eqn:E.
      + apply Qle_bool_iff in E. lra.
      + assert (Hpos : 0 < sr M) by (unfold radius_floor in H; lra).
        rewrite sr_scale.
        * field. lra.
        * apply Qle_shift_div_l; [exact Hpos|]. lra.
    - destruct (Qle_bool (sr M) radius_floor) eqn:E.
      + rewrite sr_scale by exact Hrho. rewrite H. ring.
      + exfalso. assert (L : sr M <= radius_floor) by (unfold radius_floor; lra).
        apply Qle_bool_iff in L. congruence.
  Qed.
End Radius.

(* non-vacuity of the scaling-law hypothesis: |M[0][0]| (the spectral radius of 1x1 matrices) satisfies it,
   and the construction then returns a matrix of radius exactly rho *)
Definition sr_example (M : mat) : Q := Qabs (get M 0 0).
Example sr_example_scales : forall s M, 0 <= s -> sr_example (mscale s M) == s * sr_example M.
Proof.
  intros s M Hs. unfold sr_example. rewrite get_mscale. rewrite Qabs_Qmult. rewrite (Qabs_pos s Hs). reflexivity.
Qed.
Example radius_instance :
  let A := build_A 1 [[1]] [[-1 # 2]] (3 # 4) (1 # 2) in
  meqb A [[-3 # 4]] = true /\ sr_example A == 3 # 4.
Proof. split; vm_compute; reflexivity. Qed.

(* ---------- Poisson rates ---------- *)
Lemma Qmax'_cases a b : (a <= b /\ Qmax' a b = b) \/ (b < a /\ Qmax' a b = a).
Proof.
  unfold Qmax'. destruct (Qle_bool a b) eqn:E.
  - left. apply Qle_bool_iff in E. auto.
  - right. split; [|reflexivity]. apply Qnot_le_lt. intros H. apply Qle_bool_iff in H. congruence.
Qed.
Lemma dot_col_sum : forall A x i, length x = length A ->
  dot (col i A) x == sumf (length A) (fun j => get A j i * nth j x 0).
Proof.
  intros A. induction A as [|row A IH] using rev_ind; intros x i HL.
  - cbn. reflexivity.
  - rewrite app_length in *. cbn [length] in *. rewrite Nat.add_1_r in *. cbn [sumf].
    assert (Hx : x = firstn (length A) x ++ [nth (length A) x 0]).
    { rewrite <- (firstn_skipn (length A) x) at 1. f_equal.
      pose proof (skipn_length (length A) x) as HS. rewrite HL in HS.
      destruct (skipn (length A) x) as [|y [|z tl]] eqn:ES; cbn [length] in HS; try lia.
      f_equal. rewrite <- (firstn_skipn (length A) x) at 1. rewrite app_nth2; rewrite firstn_length_le by lia; [|lia].
      rewrite Nat.sub_diag, ES. reflexivity. }
    set (x1 := firstn (length A) x) in *. set (y := nth (length A) x 0) in *.
    assert (L1 : length x1 = length A) by (unfold x1; apply firstn_length_le; lia).
    assert (D : forall (a b : vec) u v, length a = length b -> dot (a ++ [u]) (b ++ [v]) == dot a b + u * v).
    { induction a as [|p a IHa]; intros [|q b] u v HL'; cbn [length app dot] in *; try discriminate; [ring|].
      rewrite IHa by congruence. ring. }
    unfold col. rewrite map_app. cbn [map]. rewrite Hx at 1. rewrite D by (rewrite map_length; congruence).
    fold (col i A). rewrite (IH x1 i L1).
    assert (S1 : forall k f g, (forall j, (j < k)%nat -> f j == g j) -> sumf k f == sumf k g).
    { induction k as [|k IHk]; intros f g Hfg; cbn [sumf]; [reflexivity|]. rewrite (IHk f g), (Hfg k); [reflexivity|lia|].
      intros j Hj. apply Hfg. lia. }
    rewrite (S1 (length A) (fun j => get A j i * nth j x1 0) (fun j => get (A ++ [row]) j i * nth j x 0)).
    + unfold get at 3. rewrite app_nth2 by lia. rewrite Nat.sub_diag. cbn [nth]. reflexivity.
    + intros j Hj. unfold get. rewrite app_nth1 by exact Hj. rewrite Hx. rewrite app_nth1 by lia. reflexivity.
Qed.
(* the rate the model attaches to node i at time t+1 is the documented conditional mean *)
Theorem rates_def n A base c X t i : (S t < length X)%nat -> (i < n)%nat -> length A = n -> length (nth t X []) = n ->
  nth i (nth t (poisson_rates n A base c X) []) 0 ==
  Qmax' (1 # 10) (base + c * sumf n (fun j => get A j i * nth j (nth t X []) 0)).
Proof.
  intros Ht Hi HA HL.
  assert (R : forall X t, (S t < length X)%nat -> nth t (poisson_rates n A base c X) [] = rate_row n A base c (nth t X [])).
  { clear. induction X as [|x X IH]; intros t Ht; cbn [length] in Ht; [lia|].
    destruct X as [|y X]; cbn [length] in Ht; [lia|]. destruct t as [|t].
    - reflexivity.
    - change (poisson_rates n A base c (x :: y :: X)) with (rate_row n A base c x :: poisson_rates n A base c (y :: X)).
      change (nth (S t) (x :: y :: X) []) with (nth t (y :: X) []). cbn [nth]. apply IH. cbn [length]. lia. }
  rewrite R by exact Ht. unfold rate_row, vec in *.
  rewrite (nth_indep _ 0 (rate A base c (nth t X []) 0%nat)) by (rewrite map_length, seq_length; exact Hi).
  set (f := rate A base c (nth t X [])). rewrite (map_nth f (seq 0 n) 0%nat i). rewrite seq_nth by exact Hi. cbn [Nat.add].
  unfold f, rate, rate_floor. rewrite <- HA.
  assert (P : forall a b b', b == b' -> Qmax' a b == Qmax' a b').
  { intros a b b' Hb. destruct (Qmax'_cases a b) as [[H1 ->]|[H1 ->]]; destruct (Qmax'_cases a b') as [[H2 ->]|[H2 ->]]; lra. }
  apply P. rewrite dot_col_sum by congruence. reflexivity.
Qed.
(* every rate is at least the floor 1/10, hence a valid (positive) Poisson mean *)
Theorem rate_ge_floor A base c x i : 1 # 10 <= rate A base c x i.
Proof. unfold rate, rate_floor. destruct (Qmax'_cases (1 # 10) (base + c * dot (col i A) x)) as [[H ->]|[H ->]]; lra. Qed.
Lemma dot_nonneg a : forall b, Forall (fun q => 0 <= q) a -> Forall (fun q => 0 <= q) b -> 0 <= dot a b.
Proof.
  induction a as [|x a IH]; intros b Ha Hb; cbn [dot]; [lra|]. destruct b as [|y b]; [lra|].
  inversion Ha; subst. inversion Hb; subst. specialize (IH b H2 H4). nra.
Qed.
(* with base >= 1/10, coupling >= 0, non-negative matrix and counts the floor is inactive *)
Theorem rate_no_floor A base c x i : 1 # 10 <= base -> 0 <= c ->
  Forall (fun q => 0 <= q) (col i A) -> Forall (fun q => 0 <= q) x ->
  rate A base c x i == base + c * dot (col i A) x.
Proof.
  intros Hb Hc HA Hx. pose proof (dot_nonneg _ _ HA Hx) as D. unfold rate, rate_floor.
  destruct (Qmax'_cases (1 # 10) (base + c * dot (col i A) x)) as [[H ->]|[H ->]]; [reflexivity|nra].
Qed.
Theorem rate_floor_facts A base c x i : (1 # 10 <= rate A base c x i) /\
  (1 # 10 <= base -> 0 <= c -> Forall (fun q => 0 <= q) (col i A) -> Forall (fun q => 0 <= q) x ->
   rate A base c x i == base + c * dot (col i A) x).
Proof. split; [apply rate_ge_floor|apply rate_no_floor]. Qed.
Theorem poisson_rates_shape n A base c : forall X, length (poisson_rates n A base c X) = pred (length X) /\
  Forall (fun r => length r = n) (poisson_rates n A base c X).
Proof.
  induction X as [|x X IH]; [split; constructor|]. destruct X as [|y X]; [split; constructor|].
  change (poisson_rates n A base c (x :: y :: X)) with (rate_row n A base c x :: poisson_rates n A base c (y :: X)).
  destruct IH as [L F]. split; [cbn [length] in *; lia|]. constructor; [|exact F].
  unfold rate_row. rewrite map_length, seq_length. reflexivity.
Qed.

(* the generated adjacency matrix is 0/1 with a 1 exactly at the listed edges *)
Theorem adjacency_spec n edges i j : (i < n)%nat -> (j < n)%nat ->
  get (adjacency n edges) i j = (if existsb (fun e => Nat.eqb (fst e) i && Nat.eqb (snd e) j) edges then 1 else 0).
Proof. intros Hi Hj. unfold adjacency. apply get_tab; assumption. Qed.

(* concrete instances: a 2-cycle network; the linear series and the rate table evaluated by the kernel *)
Example generators_instance :
  let adj := [[0; 1]; [1; 0]] in
  let A := build_A 2 adj [[1 # 3; 1 # 2]; [-1 # 2; 1 # 5]] (1 # 2) (1 # 2) in
  meqb A [[0; 1 # 2]; [-1 # 2; 0]] = true /\
  meqb (lin_series_red A (1 # 10) [[1; 2]; [0; 1]; [3; 0]]) [[1 # 10; 1 # 5]; [1 # 10; 1 # 20]; [13 # 40; -1 # 20]] = true /\
  meqb (rates_red 2 adj 0 (1 # 4) (zmatQ [[0; 2]; [1; 0]; [5; 5]]%Z)) [[1 # 2; 1 # 10]; [1 # 10; 1 # 4]] = true.
Proof. vm_compute. repeat split. Qed.
