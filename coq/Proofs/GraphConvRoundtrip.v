(* The PCMCI -> graph -> PCMCI round trip for EVERY number of nodes, every lag range and every consistent mark
   pattern (the unbounded form of the statement decided exhaustively for 2 nodes x 2 lags in GraphConvProofs.v). *)
From Coq Require Import List Arith ZArith QArith Bool Lia Permutation.
From CE Require Import Model.GraphConv Proofs.GraphConvProofs Proofs.GraphConvFold.
Import ListNotations.
Local Open Scope nat_scope.

Lemma in_cells n L i j l : In (i, j, l) (cells n L) <-> i < n /\ j < n /\ l < L.
Proof.
  unfold cells. rewrite in_flat_map. split.
  - intros (a & Ha & H). apply in_flat_map in H. destruct H as (b & Hb & H). apply in_map_iff in H.
    destruct H as (c & E & Hc). injection E as -> -> ->. apply in_seq in Ha, Hb, Hc. lia.
  - intros (Hi & Hj & Hl). exists i. split; [apply in_seq; lia|]. apply in_flat_map. exists j. split; [apply in_seq; lia|].
    apply in_map_iff. exists l. split; [reflexivity|apply in_seq; lia].
Qed.

(* ---- where an emitted edge comes from ---- *)
Lemma emit_inv t c x : In x (emit t false 0 c) ->
  let '(i, j, l) := c in let m := e_mark (get t c) in
  g_lag x = l /\ g_val x = e_val (get t c) /\ g_p x = e_p (get t c) /\
  ( (m = Fwd /\ g_kind x = Directed /\ g_src x = i /\ g_dst x = j)
 \/ (m = Bwd /\ g_kind x = Directed /\ g_src x = j /\ g_dst x = i /\ e_mark (get t (j, i, l)) <> Fwd)
 \/ (m = Poss /\ g_kind x = PossibleDirected /\ g_src x = i /\ g_dst x = j)
 \/ ((m = OO \/ m = XX) /\ g_kind x = (match m with OO => Undirected | _ => Conflicting end) /\ i < j /\
     ((g_src x = i /\ g_dst x = j) \/ (g_src x = j /\ g_dst x = i))) ).
Proof.
  destruct c as [[i j] l]. cbn zeta. unfold emit. destruct (e_mark (get t (i, j, l))) eqn:M; cbn [In]; try tauto.
  - intros [<-|[]]. cbn. repeat split. left. auto.
  - destruct (mark_eqb (e_mark (get t (j, i, l))) Fwd) eqn:E; cbn [In]; [tauto|]. intros [<-|[]]. cbn. repeat split.
    right. left. repeat split. intros F. rewrite F in E. discriminate.
  - destruct (Nat.ltb_spec i j) as [L|L]; cbn [In]; [|tauto]. intros [<-|[<-|[]]]; cbn; repeat split; right; right; right; repeat split; auto.
  - destruct (Nat.ltb_spec i j) as [L|L]; cbn [In]; [|tauto]. intros [<-|[<-|[]]]; cbn; repeat split; right; right; right; repeat split; auto.
  - intros [<-|[]]. cbn. repeat split. right. right. left. auto.
Qed.

(* ---- what consistency says about one cell ---- *)
Lemma consistent_at r i j l : consistent r = true -> In (i, j, l) (cells (p_n r) (p_lags r)) ->
  let e := get (p_tab r) (i, j, l) in let e' := get (p_tab r) (j, i, l) in
  e_mark e <> Unknown /\
  (l = 0 -> (i = j -> e_mark e = Empty) /\ (i <> j -> lag0_pair_ok (e_mark e) (e_mark e') = true)) /\
  (l <> 0 -> e_mark e <> Bwd) /\
  (sym_mark (e_mark e) = true -> i <> j /\ entry_eqb e e' = true) /\
  (e_mark e = Bwd -> e_mark e' = Fwd -> Qeq_bool (e_val e) (e_val e') = true /\ Qeq_bool (e_p e) (e_p e') = true).
Proof.
  intros C Hin. unfold consistent in C. rewrite forallb_forall in C. specialize (C _ Hin). cbn zeta in C |- *.
  rewrite !andb_true_iff in C. destruct C as [[[C1 C2] C3] C4].
  split; [|split; [|split; [|split]]].
  - intros E. rewrite E in C1. discriminate.
  - intros ->. rewrite Nat.eqb_refl in C2. split.
    + intros ->. rewrite Nat.eqb_refl in C2. apply mark_eqb_eq. exact C2.
    + intros N. apply Nat.eqb_neq in N. rewrite N in C2. exact C2.
  - intros N E. apply Nat.eqb_neq in N. rewrite N, E in C2. discriminate.
  - intros S. rewrite S in C3. apply andb_prop in C3. destruct C3 as [C3 C3']. apply negb_true_iff, Nat.eqb_neq in C3. split; assumption.
  - intros E E'. rewrite E, E' in C4. cbn in C4. apply andb_prop in C4. exact C4.
Qed.

Lemma Qeq_bool_sym a b : Qeq_bool a b = true -> Qeq_bool b a = true.
Proof. intros H. apply Qeq_bool_iff. symmetry. apply Qeq_bool_iff. exact H. Qed.
Lemma Qeq_bool_refl' a : Qeq_bool a a = true.
Proof. apply Qeq_bool_iff. reflexivity. Qed.

Lemma find_none_intro {A} (f : A -> bool) l : (forall x, In x l -> f x = false) -> find f l = None.
Proof. intros H. destruct (find f l) as [x|] eqn:F; [|reflexivity]. apply find_some in F. destruct F as [Hx Fx]. rewrite (H x Hx) in Fx. discriminate. Qed.

Lemma compat_perm P P' : Permutation P P' -> compat P -> compat P'.
Proof.
  intros Pm [K S D]. split.
  - eapply Permutation_NoDup; [apply Permutation_map; exact Pm|exact K].
  - intros a b Ha Hb. apply S; eapply Permutation_in; try (apply Permutation_sym; exact Pm); assumption.
  - intros a b Ha Hb. apply D; eapply Permutation_in; try (apply Permutation_sym; exact Pm); assumption.
Qed.

Section RT.
Variable r : pcmci.
Hypothesis C : consistent r = true.
Let t := p_tab r.
Let n := p_n r.
Let L := p_lags r.
Let es := flat_map (emit t false 0) (cells n L).

Lemma es_in x : In x es <-> exists c, In c (cells n L) /\ In x (emit t false 0 c).
Proof. unfold es. apply in_flat_map. Qed.

Lemma touches_iff u v l x : touches u v l x = true <->
  ((g_src x = u /\ g_dst x = v) \/ (g_src x = v /\ g_dst x = u)) /\ g_lag x = l.
Proof. unfold touches. rewrite orb_true_iff, !at3_true. tauto. Qed.

(* a Directed edge u -> v at lag l comes from '-->' at [u,v,l] or from an unmirrored '<--' at [v,u,l] *)
Lemma directed_origin x : In x es -> g_kind x = Directed ->
  let u := g_src x in let v := g_dst x in let l := g_lag x in
  (In (u, v, l) (cells n L) /\ e_mark (get t (u, v, l)) = Fwd /\ g_val x = e_val (get t (u, v, l)) /\ g_p x = e_p (get t (u, v, l)))
  \/ (In (v, u, l) (cells n L) /\ e_mark (get t (v, u, l)) = Bwd /\ e_mark (get t (u, v, l)) <> Fwd /\
      g_val x = e_val (get t (v, u, l)) /\ g_p x = e_p (get t (v, u, l))).
Proof.
  intros Hx K. apply es_in in Hx. destruct Hx as ([[i j] l] & Hc & Hx). pose proof (emit_inv t (i, j, l) x Hx) as I. cbn zeta in I.
  destruct I as (El & Ev & Ep & [(M & _ & Es & Ed)|[(M & _ & Es & Ed & Nm)|[(M & K' & _)|(M & K' & _)]]]).
  - left. cbn zeta. rewrite Es, Ed, El. auto.
  - right. cbn zeta. rewrite Es, Ed, El. auto.
  - congruence.
  - destruct (e_mark (get t (i, j, l))); congruence.
Qed.

Lemma poss_origin x : In x es -> g_kind x = PossibleDirected ->
  let c := (g_src x, g_dst x, g_lag x) in
  In c (cells n L) /\ e_mark (get t c) = Poss /\ g_val x = e_val (get t c) /\ g_p x = e_p (get t c).
Proof.
  intros Hx K. apply es_in in Hx. destruct Hx as ([[i j] l] & Hc & Hx). pose proof (emit_inv t (i, j, l) x Hx) as I. cbn zeta in I.
  destruct I as (El & Ev & Ep & [(M & K' & _)|[(M & K' & _)|[(M & _ & Es & Ed)|(M & K' & _)]]]); try congruence.
  - cbn zeta. rewrite Es, Ed, El. auto.
  - destruct (e_mark (get t (i, j, l))); congruence.
Qed.

Lemma sym_origin x : In x es -> sym_kind (g_kind x) = true ->
  exists a b, a < b /\ In (a, b, g_lag x) (cells n L) /\
    ((g_src x = a /\ g_dst x = b) \/ (g_src x = b /\ g_dst x = a)) /\
    sym_mark (e_mark (get t (a, b, g_lag x))) = true /\ mark_of_kind (g_kind x) = e_mark (get t (a, b, g_lag x)) /\
    g_val x = e_val (get t (a, b, g_lag x)) /\ g_p x = e_p (get t (a, b, g_lag x)).
Proof.
  intros Hx K. apply es_in in Hx. destruct Hx as ([[i j] l] & Hc & Hx). pose proof (emit_inv t (i, j, l) x Hx) as I. cbn zeta in I.
  destruct I as (El & Ev & Ep & [(M & K' & _)|[(M & K' & _)|[(M & K' & _)|(M & K' & Lt & Sd)]]]); try (rewrite K' in K; discriminate).
  exists i, j. rewrite El. repeat split; try assumption.
  - destruct M as [M|M]; rewrite M; reflexivity.
  - rewrite K'. destruct M as [M|M]; rewrite M; reflexivity.
Qed.

Lemma es_compat : compat es.
Proof.
  split.
  - apply flat_map_keys_nodup, cells_nodup.
  - intros e e' He He' Ks T.
    destruct (sym_origin e He Ks) as (a & b & Lt & Hc & Sd & Sm & Mk & Ev & Ep).
    apply touches_iff in T.
    assert (Tab : ((g_src e' = a /\ g_dst e' = b) \/ (g_src e' = b /\ g_dst e' = a)) /\ g_lag e' = g_lag e).
    { destruct T as [T ->]. split; [|reflexivity]. destruct Sd as [[<- <-]|[<- <-]]; tauto. }
    clear T. destruct Tab as [Tab Tl].
    pose proof (consistent_at r a b (g_lag e) C Hc) as CA. cbn zeta in CA. fold t in CA.
    destruct CA as (_ & _ & _ & CS & _). destruct (CS Sm) as [Nab Eq].
    unfold entry_eqb in Eq. rewrite !andb_true_iff in Eq. destruct Eq as [[Em Evv] Epp]. apply mark_eqb_eq in Em.
    (* origin of e' *)
    pose proof He' as He'2. apply es_in in He'2. destruct He'2 as ([[i j] l] & Hc' & Hx').
    pose proof (emit_inv t (i, j, l) e' Hx') as I. cbn zeta in I. destruct I as (El' & Ev' & Ep' & I).
    assert (Hcell : (i = a /\ j = b) \/ (i = b /\ j = a)).
    { destruct I as [(_ & _ & Es & Ed)|[(_ & _ & Es & Ed & _)|[(_ & _ & Es & Ed)|(_ & _ & _ & Sd')]]]; subst; lia. }
    assert (Hl : l = g_lag e) by congruence. clear El'. subst l.
    destruct Hcell as [[-> ->]|[-> ->]].
    + (* same cell *)
      destruct I as [(M & _)|[(M & _)|[(M & _)|(M & K' & _)]]]; try (rewrite M in Sm; discriminate).
      split; [|split; congruence]. rewrite K'. rewrite <- Mk in *. destruct (g_kind e); try discriminate; reflexivity.
    + (* mirror cell (b,a): it carries the same symmetric mark, which only emits from the a<b cell *)
      rewrite <- Em in I. destruct I as [(M & _)|[(M & _)|[(M & _)|(M & _ & Lt' & _)]]]; try (rewrite M in Sm; discriminate). lia.
  - intros e e' He He' Kd Kp. destruct (at3 (g_src e) (g_dst e) (g_lag e) e') eqn:A; [exfalso|reflexivity].
    apply at3_true in A. destruct A as (As & Ad & Al).
    destruct (poss_origin e' He' Kp) as (Hc' & Mp & _). rewrite As, Ad, Al in Hc', Mp.
    destruct (directed_origin e He Kd) as [(_ & Mf & _)|(Hc & Mb & Nf & _)]; cbn zeta in *; [congruence|].
    pose proof (consistent_at r _ _ _ C Hc) as CA. cbn zeta in CA. fold t in CA. destruct CA as (_ & C0 & Cn & _).
    destruct (Nat.eq_dec (g_lag e) 0) as [Z|NZ]; [|exact (Cn NZ Mb)].
    destruct (C0 Z) as [Cd Cp]. destruct (Nat.eq_dec (g_dst e) (g_src e)) as [E|N]; [rewrite (Cd E) in Mb; discriminate|].
    specialize (Cp N). rewrite Mb, Mp in Cp. discriminate.
Qed.

(* ---- the graph handed back by pcmci_to_networkx, in networkx order ---- *)
Let es' := nx_order n es.

Lemma no_unknown : has_unknown r = false.
Proof.
  unfold has_unknown. destruct (existsb _ _) eqn:E; [exfalso|reflexivity].
  apply existsb_exists in E. destruct E as ([[i j] l] & Hc & M). apply mark_eqb_eq in M.
  destruct (consistent_at r i j l C Hc) as (NU & _). exact (NU M).
Qed.

Lemma to_graph_is : to_graph r false 0 = Some es'.
Proof. unfold to_graph, to_graph_emitted. rewrite no_unknown. reflexivity. Qed.

Lemma es_src_lt e : In e es -> g_src e < n.
Proof. intros H. apply (emitted_src_lt r false 0 es e); [unfold to_graph_emitted; rewrite no_unknown; reflexivity|exact H]. Qed.

Lemma es'_perm : Permutation es' es.
Proof. apply nx_order_permutation. exact es_src_lt. Qed.

Lemma es'_compat : compat es'.
Proof. apply (compat_perm es es'); [apply Permutation_sym, es'_perm|exact es_compat]. Qed.

Lemma in_es' x : In x es' <-> In x es.
Proof. split; apply Permutation_in; [exact es'_perm|apply Permutation_sym, es'_perm]. Qed.

Lemma emitted_in c x : In c (cells n L) -> In x (emit t false 0 c) -> In x es'.
Proof. intros Hc Hx. apply in_es', es_in. exists c. split; assumption. Qed.

Lemma findD_some i j l x : In x es' -> g_kind x = Directed -> g_src x = i -> g_dst x = j -> g_lag x = l ->
  find (pD i j l) es' = Some x.
Proof.
  intros Hx K S D Lg. apply (find_unique Directed i j l es' x); [exact (c_keys _ es'_compat)|exact Hx|exact K|apply at3_true; auto].
Qed.
Lemma findP_some i j l x : In x es' -> g_kind x = PossibleDirected -> g_src x = i -> g_dst x = j -> g_lag x = l ->
  find (pP i j l) es' = Some x.
Proof.
  intros Hx K S D Lg. apply (find_unique PossibleDirected i j l es' x); [exact (c_keys _ es'_compat)|exact Hx|exact K|apply at3_true; auto].
Qed.

(* absence of links, read off the pattern *)
Lemma findD_none i j l : e_mark (get t (i, j, l)) <> Fwd ->
  (In (j, i, l) (cells n L) -> e_mark (get t (j, i, l)) <> Bwd) -> find (pD i j l) es' = None.
Proof.
  intros NF NB. apply find_none_intro. intros x Hx. unfold pD. destruct (kind_eqb (g_kind x) Directed) eqn:K; [|reflexivity].
  apply kind_eqb_eq in K. destruct (at3 i j l x) eqn:A; [exfalso|reflexivity]. apply at3_true in A. destruct A as (As & Ad & Al).
  apply in_es' in Hx. destruct (directed_origin x Hx K) as [(_ & M & _)|(Hc & M & _)]; cbn zeta in M; rewrite As, Ad, Al in *.
  - exact (NF M).
  - exact (NB Hc M).
Qed.
Lemma findP_none i j l : e_mark (get t (i, j, l)) <> Poss -> find (pP i j l) es' = None.
Proof.
  intros NP. apply find_none_intro. intros x Hx. unfold pP. destruct (kind_eqb (g_kind x) PossibleDirected) eqn:K; [|reflexivity].
  apply kind_eqb_eq in K. destruct (at3 i j l x) eqn:A; [exfalso|reflexivity]. apply at3_true in A. destruct A as (As & Ad & Al).
  apply in_es' in Hx. destruct (poss_origin x Hx K) as (_ & M & _). cbn zeta in M. rewrite As, Ad, Al in M. exact (NP M).
Qed.
Lemma findS_none i j l : sym_mark (e_mark (get t (i, j, l))) = false -> sym_mark (e_mark (get t (j, i, l))) = false ->
  find (pS i j l) es' = None.
Proof.
  intros N1 N2. apply find_none_intro. intros x Hx. unfold pS. destruct (sym_kind (g_kind x)) eqn:K; [|reflexivity].
  destruct (at3 i j l x || at3 j i l x) eqn:A; [exfalso|reflexivity].
  apply in_es' in Hx. destruct (sym_origin x Hx K) as (a & b & _ & _ & Sd & Sm & _).
  apply orb_prop in A. destruct A as [A|A]; apply at3_true in A; destruct A as (As & Ad & Al); rewrite Al in Sm;
    destruct Sd as [[Ea Eb]|[Ea Eb]]; rewrite <- Ea, <- Eb, ?As, ?Ad in Sm; congruence.
Qed.

Lemma entry_eqb_intro m v p e : e_mark e = m -> Qeq_bool v (e_val e) = true -> Qeq_bool p (e_p e) = true ->
  entry_eqb {| e_mark := m; e_val := v; e_p := p |} e = true.
Proof. intros <- Hv Hp. unfold entry_eqb. cbn. rewrite Hv, Hp. destruct (e_mark e); reflexivity. Qed.

(* ---- every cell that carries a link is reproduced ---- *)
Lemma cell_reproduced i j l : In (i, j, l) (cells n L) -> e_mark (get t (i, j, l)) <> Empty ->
  entry_eqb (expected es' (i, j, l)) (get t (i, j, l)) = true.
Proof.
  intros Hc NE. pose proof (consistent_at r i j l C Hc) as CA. cbn zeta in CA. fold t in CA.
  destruct CA as (NU & C0 & Cn & CS & CB).
  assert (Hc' : In (j, i, l) (cells n L)) by (apply in_cells; apply in_cells in Hc; tauto).
  pose proof (consistent_at r j i l C Hc') as CA'. cbn zeta in CA'. fold t in CA'. destruct CA' as (_ & C0' & Cn' & CS' & CB').
  unfold expected. destruct (e_mark (get t (i, j, l))) eqn:M; try congruence.
  - (* '-->' *)
    set (x := mk_edge i j l (get t (i, j, l)) Directed None).
    assert (Hx : In x es') by (apply (emitted_in (i, j, l)); [exact Hc|unfold emit; rewrite M; left; reflexivity]).
    rewrite (findD_some i j l x Hx eq_refl eq_refl eq_refl eq_refl). apply entry_eqb_intro; [exact M|apply Qeq_bool_refl'|apply Qeq_bool_refl'].
  - (* '<--' : lag 0, distinct nodes, mirror is '-->' or empty *)
    destruct (Nat.eq_dec l 0) as [->|NZ]; [|exfalso; exact (Cn NZ eq_refl)].
    destruct (C0 eq_refl) as [Cd Cp]. destruct (Nat.eq_dec i j) as [E|N]; [specialize (Cd E); discriminate|]. specialize (Cp N).
    rewrite findD_none; [|congruence|].
    2:{ intros _ B. rewrite B in Cp. discriminate. }
    rewrite findP_none by congruence.
    rewrite findS_none; [|rewrite M; reflexivity|destruct (e_mark (get t (j, i, 0))); try discriminate; reflexivity].
    cbn [Nat.eqb andb]. assert (R : negb (Nat.eqb i j) = true) by (apply negb_true_iff, Nat.eqb_neq; exact N). rewrite R.
    destruct (e_mark (get t (j, i, 0))) eqn:M'; try discriminate.
    + (* mirror empty: the edge j -> i was emitted from this cell *)
      set (x := mk_edge j i 0 (get t (i, j, 0)) Directed None).
      assert (Hx : In x es').
      { apply (emitted_in (i, j, 0)); [exact Hc|]. unfold emit. rewrite M, M'. cbn. left. reflexivity. }
      rewrite (findD_some j i 0 x Hx eq_refl eq_refl eq_refl eq_refl). apply entry_eqb_intro; [exact M|apply Qeq_bool_refl'|apply Qeq_bool_refl'].
    + (* mirror '-->': one link stored in two cells, same numbers *)
      set (x := mk_edge j i 0 (get t (j, i, 0)) Directed None).
      assert (Hx : In x es') by (apply (emitted_in (j, i, 0)); [exact Hc'|unfold emit; rewrite M'; left; reflexivity]).
      rewrite (findD_some j i 0 x Hx eq_refl eq_refl eq_refl eq_refl).
      destruct (CB eq_refl eq_refl) as [Qv Qp]. apply entry_eqb_intro; [exact M|apply Qeq_bool_sym; exact Qv|apply Qeq_bool_sym; exact Qp].
  - (* 'o-o' *)
    destruct (CS eq_refl) as [N Eq]. unfold entry_eqb in Eq. rewrite !andb_true_iff in Eq. destruct Eq as [[Em Ev] Ep].
    apply mark_eqb_eq in Em. rewrite M in Em.
    rewrite findD_none; [|congruence|intros _; congruence]. rewrite findP_none by congruence.
    destruct (find (pS i j l) es') as [x|] eqn:F.
    + apply find_some in F. destruct F as [Hx Px]. unfold pS in Px. apply andb_prop in Px. destruct Px as [K A].
      apply in_es' in Hx. destruct (sym_origin x Hx K) as (a & b & Lt & _ & Sd & _ & Mk & Xv & Xp).
      assert (Hab : (a = i /\ b = j) \/ (a = j /\ b = i)).
      { apply orb_prop in A. destruct A as [A|A]; apply at3_true in A; destruct A as (As & Ad & _); destruct Sd as [[? ?]|[? ?]]; subst; auto. }
      assert (Hl : g_lag x = l) by (apply orb_prop in A; destruct A as [A|A]; apply at3_true in A; tauto).
      rewrite Hl in *. unfold ent. destruct Hab as [[-> ->]|[-> ->]].
      * apply entry_eqb_intro; [congruence|rewrite Xv; apply Qeq_bool_refl'|rewrite Xp; apply Qeq_bool_refl'].
      * apply entry_eqb_intro; [congruence|rewrite Xv; apply Qeq_bool_sym; exact Ev|rewrite Xp; apply Qeq_bool_sym; exact Ep].
    + exfalso. (* a symmetric edge of the pair was emitted from the ordered cell *)
      destruct (Nat.lt_ge_cases i j) as [Lt|Ge].
      * set (x := mk_edge i j l (get t (i, j, l)) Undirected None).
        assert (Hx : In x es').
        { apply (emitted_in (i, j, l)); [exact Hc|]. unfold emit. rewrite M. destruct (Nat.ltb_spec i j); [left; reflexivity|lia]. }
        pose proof (find_none _ _ F x Hx) as Px. unfold pS, at3, x in Px. cbn [mk_edge g_kind g_src g_dst g_lag sym_kind] in Px. rewrite !Nat.eqb_refl in Px. cbn in Px. discriminate.
      * assert (Lt : j < i) by lia.
        set (x := mk_edge j i l (get t (j, i, l)) Undirected None).
        assert (Hx : In x es').
        { apply (emitted_in (j, i, l)); [exact Hc'|]. unfold emit. rewrite <- Em. destruct (Nat.ltb_spec j i); [left; reflexivity|lia]. }
        pose proof (find_none _ _ F x Hx) as Px. unfold pS, at3, x in Px. cbn [mk_edge g_kind g_src g_dst g_lag sym_kind] in Px.
        rewrite !Nat.eqb_refl in Px. cbn [andb] in Px. rewrite orb_true_r in Px. discriminate.
  - (* 'x-x' *)
    destruct (CS eq_refl) as [N Eq]. unfold entry_eqb in Eq. rewrite !andb_true_iff in Eq. destruct Eq as [[Em Ev] Ep].
    apply mark_eqb_eq in Em. rewrite M in Em.
    rewrite findD_none; [|congruence|intros _; congruence]. rewrite findP_none by congruence.
    destruct (find (pS i j l) es') as [x|] eqn:F.
    + apply find_some in F. destruct F as [Hx Px]. unfold pS in Px. apply andb_prop in Px. destruct Px as [K A].
      apply in_es' in Hx. destruct (sym_origin x Hx K) as (a & b & Lt & _ & Sd & _ & Mk & Xv & Xp).
      assert (Hab : (a = i /\ b = j) \/ (a = j /\ b = i)).
      { apply orb_prop in A. destruct A as [A|A]; apply at3_true in A; destruct A as (As & Ad & _); destruct Sd as [[? ?]|[? ?]]; subst; auto. }
      assert (Hl : g_lag x = l) by (apply orb_prop in A; destruct A as [A|A]; apply at3_true in A; tauto).
      rewrite Hl in *. unfold ent. destruct Hab as [[-> ->]|[-> ->]].
      * apply entry_eqb_intro; [congruence|rewrite Xv; apply Qeq_bool_refl'|rewrite Xp; apply Qeq_bool_refl'].
      * apply entry_eqb_intro; [congruence|rewrite Xv; apply Qeq_bool_sym; exact Ev|rewrite Xp; apply Qeq_bool_sym; exact Ep].
    + exfalso.
      destruct (Nat.lt_ge_cases i j) as [Lt|Ge].
      * set (x := mk_edge i j l (get t (i, j, l)) Conflicting None).
        assert (Hx : In x es').
        { apply (emitted_in (i, j, l)); [exact Hc|]. unfold emit. rewrite M. destruct (Nat.ltb_spec i j); [left; reflexivity|lia]. }
        pose proof (find_none _ _ F x Hx) as Px. unfold pS, at3, x in Px. cbn [mk_edge g_kind g_src g_dst g_lag sym_kind] in Px. rewrite !Nat.eqb_refl in Px. cbn in Px. discriminate.
      * assert (Lt : j < i) by lia.
        set (x := mk_edge j i l (get t (j, i, l)) Conflicting None).
        assert (Hx : In x es').
        { apply (emitted_in (j, i, l)); [exact Hc'|]. unfold emit. rewrite <- Em. destruct (Nat.ltb_spec j i); [left; reflexivity|lia]. }
        pose proof (find_none _ _ F x Hx) as Px. unfold pS, at3, x in Px. cbn [mk_edge g_kind g_src g_dst g_lag sym_kind] in Px.
        rewrite !Nat.eqb_refl in Px. cbn [andb] in Px. rewrite orb_true_r in Px. discriminate.
  - (* '-?>' *)
    rewrite findD_none; [|congruence|].
    2:{ intros _ B. destruct (Nat.eq_dec l 0) as [->|NZ]; [|exact (Cn' NZ B)].
        destruct (C0' eq_refl) as [Cd' Cp']. destruct (Nat.eq_dec j i) as [E|N]; [rewrite (Cd' E) in B; discriminate|].
        specialize (Cp' N). try rewrite B in Cp'. try rewrite M in Cp'. discriminate. }
    set (x := mk_edge i j l (get t (i, j, l)) PossibleDirected None).
    assert (Hx : In x es') by (apply (emitted_in (i, j, l)); [exact Hc|unfold emit; rewrite M; left; reflexivity]).
    rewrite (findP_some i j l x Hx eq_refl eq_refl eq_refl eq_refl). apply entry_eqb_intro; [exact M|apply Qeq_bool_refl'|apply Qeq_bool_refl'].
Qed.

(* PCMCI -> graph -> PCMCI reproduces mark, value and p at every entry that carries a link *)
Theorem pcmci_roundtrip : pcmci_roundtrip_ok r = true.
Proof.
  unfold pcmci_roundtrip_ok. rewrite to_graph_is. apply forallb_forall. intros [[i j] l] Hc. fold t n L in Hc |- *.
  destruct (mark_eqb (e_mark (get t (i, j, l))) Empty) eqn:E; [reflexivity|]. cbn [orb].
  rewrite (to_pcmci_characterised n es' es'_compat). apply cell_reproduced; [exact Hc|].
  intros M. rewrite M in E. discriminate.
Qed.
End RT.

(* non-vacuity: a consistent 3-node, 2-lag pattern with a mirrored contemporaneous link, a symmetric link,
   a lagged '-->' and a '-?>' *)
Example consistent_instance :
  let r := {| p_n := 3; p_lags := 2; p_tab := mk_tab
     [(0, 1, 0, Fwd, 1 # 2, 1 # 10); (1, 0, 0, Bwd, 1 # 2, 1 # 10); (0, 2, 0, OO, 1 # 3, 1 # 5); (2, 0, 0, OO, 1 # 3, 1 # 5);
      (1, 2, 1, Fwd, 1 # 4, 1 # 7); (2, 2, 1, Poss, 1 # 8, 1 # 9)] |} in
  consistent r = true /\ pcmci_roundtrip_ok r = true.
Proof. vm_compute. split; reflexivity. Qed.
