(* The PCMCI -> graph -> PCMCI round trip for EVERY number of nodes, every lag range and every consistent mark
   pattern (the unbounded form of the statement decided exhaustively for 2 nodes x 2 lags in GraphConvProofs.v). *)
From Coq Require Import List Arith ZArith QArith Bool Lia Permutation.
From CE Require Import Model.GraphConv Proofs.GraphConvProofs Proofs.GraphConvFold.
Import ListNotations.
Local Open Scope nat_scope.

Lemma in_cells n L i j l : In (i, j, l) (cells n L) <-> i < n /\ j < n /\ l < L.
Proof.
  unfold cells. rewrite in_flat_map. split.
  - intros (a & Ha & H). apply in_flat_map in H. destruct H as (b & Hb & H). apply in_map_iff in H.
    destruct H as (c & E & Hc). injection E as -> -> ->. apply in_seq in Ha, Hb, Hc. lia.
  - intros (Hi & Hj & Hl). exists i. split; [apply in_seq; lia|]. apply in_flat_map. exists j. split; [apply in_seq; lia|].
    apply in_map_iff. exists l. split; [reflexivity|apply in_seq; lia].
Qed.

(* ---- where an emitted edge comes from ---- *)
Lemma emit_inv t c x : In x (emit t false 0 c) ->
  let '(i, j, l) := c in let m := e_mark (get t c) in
  g_lag x = l /\ g_val x = e_val (get t c) /\ g_p x = e_p (get t c) /\
  ( (m = Fwd /\ g_kind x = Directed /\ g_src x = i /\ g_dst x = j)
 \/ (m = Bwd /\ g_kind x = Directed /\ g_src x = j /\ g_dst x = i /\ e_mark (get t (j, i, l)) <> Fwd)
 \/ (m = Poss /\ g_kind x = PossibleDirected /\ g_src x = i /\ g_dst x = j)
 \/ ((m = OO \/ m = XX) /\ g_kind x = (match m with OO => Undirected | _ => Conflicting end) /\ i < j /\
     ((g_src x = i /\ g_dst x = j) \/ (g_src x = j /\ g_dst x = i))) ).
Proof.
  destruct c as [[i j] l]. cbn zeta. unfold emit. destruct (e_mark (get t (i, j, l))) eqn:M; cbn [In]; try tauto.
  - intros [<-|[]]. cbn. repeat split. left. auto.
  - destruct (mark_eqb (e_mark (get t (j, i, l))) Fwd) eqn:E; cbn [In]; [tauto|]. intros [<-|[]]. cbn. repeat split.
    right. left. repeat split. intros F. rewrite F in E. discriminate.
  - destruct (Nat.ltb_spec i j) as [L|L]; cbn [In]; [|tauto]. intros [<-|[<-|[]]]; cbn; repeat split; right; right; right; repeat split; auto.
  - destruct (Nat.ltb_spec i j) as [L|L]; cbn [In]; [|tauto]. intros [<-|[<-|[]]]; cbn; repeat split; right; right; right; repeat split; auto.
  - intros [<-|[]]. cbn. repeat split. right. right. left. auto.
Qed.

(* ---- what consistency says about one cell ---- *)
Lemma consistent_at r i j l : consistent r = true -> In (i, j, l) (cells (p_n r) (p_lags r)) ->
  let e := get (p_tab r) (i, j, l) in let e' := get (p_tab r) (j, i, l) in
  e_mark e <> Unknown /\
  (l = 0 -> (i = j -> e_mark e = Empty) /\ (i <> j -> lag0_pair_ok (e_mark e) (e_mark e') = true)) /\
  (l <> 0 -> e_mark e <> Bwd) /\
  (sym_mark (e_mark e) = true -> i <> j /\ entry_eqb e e' = true) /\
  (e_mark e = Bwd -> e_mark e' = Fwd -> Qeq_bool (e_val e) (e_val e') = true /\ Qeq_bool (e_p e) (e_p e') = true).
Proof.
  intros C Hin. unfold consistent in C. rewrite forallb_forall in C. specialize (C _ Hin). cbn zeta in C |- *.
  rewrite !andb_true_iff in C. destruct C as [[[C1 C2] C3] C4].
  split; [|split; [|split; [|split]]].
  - intros E. rewrite E in C1. discriminate.
  - intros ->. rewrite Nat.eqb_refl in C2. split.
    + intros ->. rewrite Nat.eqb_refl in C2. apply mark_eqb_eq. exact C2.
    + intros N. apply Nat.eqb_neq in N. rewrite N in C2. exact C2.
  - intros N E. apply Nat.eqb_neq in N. rewrite N, E in C2. discriminate.
  - intros S. rewrite S in C3. apply andb_prop in C3. destruct C3 as [C3 C3']. apply negb_true_iff, Nat.eqb_neq in C3. split; assumption.
  - intros E E'. rewrite E, E' in C4. cbn in C4. apply andb_prop in C4. exact C4.
Qed.

Lemma Qeq_bool_sym a b : Qeq_bool a b = true -> Qeq_bool b a = true.
Proof. intros H. apply Qeq_bool_iff. symmetry. apply Qeq_bool_iff. exact H. Qed.
Lemma Qeq_bool_refl' a : Qeq_bool a a = true.
Proof. apply Qeq_bool_iff. reflexivity. Qed.

Lemma find_none_intro {A} (f : A -> bool) l : (forall x, In x l -> f x = false) -> find f l = None.
Proof. intros H. destruct (find f l) as [x|] eqn:F; [|reflexivity]. apply find_some in F. destruct F as [Hx Fx]. rewrite (H x Hx) in Fx. discriminate. Qed.

Lemma compat_perm P P' : Permutation P P' -> compat P -> compat P'.
Proof.
  intros Pm [K S D]. split.
  - eapply Permutation_NoDup; [apply Permutation_map; exact Pm|exact K].
  - intros a b Ha Hb. apply S; eapply Permutation_in; try (apply Permutation_sym; exact Pm); assumption.
  - intros a b Ha Hb. apply D; eapply Permutation_in; try (apply Permutation_sym; exact Pm); assumption.
Qed.

Section RT.
Variable r : pcmci.
Hypothesis C : consistent r = true.
Let t := p_tab r.
Let n := p_n r.
Let L := p_lags r.
Let es := flat_map (emit t false 0) (cells n L).

Lemma es_in x : In x es <-> exists c, In c (cells n L) /\ In x (emit t false 0 c).
Proof. unfold es. apply in_flat_map. Qed.

Lemma touches_iff u v l x : touches u v l x = true <->
  ((g_src x = u /\ g_dst x = v) \/ (g_src x = v /\ g_dst x = u)) /\ g_lag x = l.
Proof. unfold touches. rewrite orb_true_iff, !at3_true. tauto. Qed.

(* a Directed edge u -> v at lag l comes from '-->' at [u,v,l] or from an unmirrored '<--' at [v,u,l] *)
Lemma directed_origin x : In x es -> g_kind x = Directed ->
  let u := g_src x in let v := g_dst x in let l := g_lag x in
  (In (u, v, l) (cells n L) /\ e_mark (get t (u, v, l)) = Fwd /\ g_val x = e_val (get t (u, v, l)) /\ g_p x = e_p (get t (u, v, l)))
  \/ (In (v, u, l) (cells n L) /\ e_mark (get t (v, u, l)) = Bwd /\ e_mark (get t (u, v, l)) <> Fwd /\
      g_val x = e_val (get t (v, u, l)) /\ g_p x = e_p (get t (v, u, l))).
Proof.
  intros Hx K. apply es_in in Hx. destruct Hx as ([[i j] l] & Hc & Hx). pose proof (emit_inv t (i, j, l) x Hx) as I. cbn zeta in I.
  destruct I as (El & Ev & Ep & [(M & _ & Es & Ed)|[(M & _ & Es & Ed & Nm)|[(M & K' & _)|(M & K' & _)]]]).
  - left. cbn zeta. rewrite Es, Ed, El. auto.
  - right. cbn zeta. rewrite Es, Ed, El. auto.
  - congruence.
  - destruct (e_mark (get t (i, j, l))); congruence.
Qed.

Lemma poss_origin x : In x es -> g_kind x = PossibleDirected ->
  let c := (g_src x, g_dst x, g_lag x) in
  In c (cells n L) /\ e_mark (get t c) = Poss /\ g_val x = e_val (get t c) /\ g_p x = e_p (get t c).
Proof.
  intros Hx K. apply es_in in Hx. destruct Hx as ([[i j] l] & Hc & Hx). pose proof (emit_inv t (i, j, l) x Hx) as I. cbn zeta in I.
  destruct I as (El & Ev & Ep & [(M & K' & _)|[(M & K' & _)|[(M & _ & Es & Ed)|(M & K' & _)]]]); try congruence.
  - cbn zeta. rewrite Es, Ed, El. auto.
  - destruct (e_mark (get t (i, j, l))); congruence.
Qed.

Lemma sym_origin x : In x es -> sym_kind (g_kind x) = true ->
  exists a b, a < b /\ In (a, b, g_lag x) (cells n L) /\
    ((g_src x = a /\ g_dst x = b) \/ (g_src x = b /\ g_dst x = a)) /\
    sym_mark (e_mark (get t (a, b, g_lag x))) = true /\ mark_of_kind (g_kind x) = e_mark (get t (a, b, g_lag x)) /\
    g_val x = e_val (get t (a, b, g_lag x)) /\ g_p x = e_p (get t (a, b, g_lag x)).
Proof.
  intros Hx K. apply es_in in Hx. destruct Hx as ([[i j] l] & Hc & Hx). pose proof (emit_inv t (i, j, l) x Hx) as I. cbn zeta in I.
  destruct I as (El & Ev & Ep & [(M & K' & _)|[(M & K' & _)|[(M & K' & _)|(M & K' & Lt & Sd)]]]); try (rewrite K' in K; discriminate).
  exists i, j. rewrite El. repeat split; try assumption.
  - destruct M as [M|M]; rewrite M; reflexivity.
  - rewrite K'. destruct M as [M|M]; rewrite M; reflexivity.
Qed.

Lemma es_compat : compat es.
Proof.
  split.
  - apply flat_map_keys_nodup, cells_nodup.
  - intros e e' He He' Ks T.
    destruct (sym_origin e He Ks) as (a & b & Lt & Hc & Sd & Sm & Mk & Ev & Ep).
    apply touches_iff in T.
    assert (Tab : ((g_src e' = a /\ g_dst e' = b) \/ (g_src e' = b /\ g_dst e' = a)) /\ g_lag e' = g_lag e).
    { destruct T as [T ->]. split; [|reflexivity]. destruct Sd as [[<- <-]|[<- <-]]; tauto. }
    clear T. destruct Tab as [Tab Tl].
    pose proof (consistent_at r a b (g_lag e) C Hc) as CA. cbn zeta in CA. fold t in CA.
    destruct CA as (_ & _ & _ & CS & _). destruct (CS Sm) as [Nab Eq].
    unfold entry_eqb in Eq. rewrite !andb_true_iff in Eq. destruct Eq as [[Em Evv] Epp]. apply mark_eqb_eq in Em.
    (* origin of e' *)
    pose proof He' as He'2. apply es_in in He'2. destruct He'2 as ([[i j] l] & Hc' & Hx').
    pose proof (emit_inv t (i, j, l) e' Hx') as I. cbn zeta in I. destruct I as (El' & Ev' & Ep' & I).
    assert (Hcell : (i = a /\ j = b) \/ (i = b /\ j = a)).
    { destruct I as [(_ & _ & Es & Ed)|[(_ & _ & Es & Ed & _)|[(_ & _ & Es & Ed)|(_ & _ & _ & Sd')]]]; subst; lia. }
    assert (Hl : l = g_lag e) by congruence. clear El'. subst l.
    destruct Hcell as [[-> ->]|[-> ->]].
    + (* same cell *)
      destruct I as [(M & _)|[(M & _)|[(M & _)|(M & K' & _)]]]; try (rewrite M in Sm; discriminate).
      split; [|split; congruence]. rewrite K'. rewrite <- Mk in *. destruct (g_kind e); try discriminate; reflexivity.
    + (* mirror cell (b,a): it carries the same symmetric mark, which only emits from the a<b cell *)
      rewrite <- Em in I. destruct I as [(M & _)|[(M & _)|[(M & _)|(M & _ & Lt' & _)]]]; try (rewrite M in Sm; discriminate). lia.
  - intros e e' He He' Kd Kp. destruct (at3 (g_src e) (g_dst e) (g_lag e) e') eqn:A; [exfalso|reflexivity].
    apply at3_true in A. destruct A as (As & Ad & Al).
    destruct (poss_origin e' He' Kp) as (Hc' & Mp & _). rewrite As, Ad, Al in Hc', Mp.
    destruct (directed_origin e He Kd) as [(_ & Mf & _)|(Hc & Mb & Nf & _)]; cbn zeta in *; [congruence|].
    pose proof (consistent_at r _ _ _ C Hc) as CA. cbn zeta in CA. fold t in CA. destruct CA as (_ & C0 & Cn & _).
    destruct (Nat.eq_dec (g_lag e) 0) as [Z|NZ]; [|exact (Cn NZ Mb)].
    destruct (C0 Z) as [Cd Cp]. destruct (Nat.eq_dec (g_dst e) (g_src e)) as [E|N]; [rewrite (Cd E) in Mb; discriminate|].
    specialize (Cp N). rewrite Mb, Mp in Cp. discriminate.
Qed.
End RT.
