(* graph -> PCMCI -> graph for EVERY graph satisfying the graph-side hypotheses of the property: unique
   (source, target, lag) triples, symmetric links between distinct nodes stored in both directions with equal numbers. *)
From Coq Require Import List Arith ZArith QArith Bool Lia Permutation.
From CE Require Import Model.GraphConv Proofs.GraphConvProofs Proofs.GraphConvFold Proofs.GraphConvRoundtrip.
Import ListNotations.
Local Open Scope nat_scope.

Definition triple (e : gedge) : nat * nat * nat := (g_src e, g_dst e, g_lag e).

Record graph_ok (n : nat) (es : list gedge) : Prop := {
  g_range : forall e, In e es -> g_src e < n /\ g_dst e < n;
  g_unique : NoDup (map triple es);
  g_paired : forall e, In e es -> sym_kind (g_kind e) = true ->
             g_src e <> g_dst e /\
             exists e', In e' es /\ g_src e' = g_dst e /\ g_dst e' = g_src e /\ g_lag e' = g_lag e /\
                        g_kind e' = g_kind e /\ g_val e' = g_val e /\ g_p e' = g_p e
}.

Lemma nodup_map_inj {A B} (f : A -> B) l x y : NoDup (map f l) -> In x l -> In y l -> f x = f y -> x = y.
Proof.
  induction l as [|a l IH]; intros ND Hx Hy E; [destruct Hx|]. cbn [map] in ND. inversion ND as [|? ? Hn ND']; subst.
  destruct Hx as [->|Hx], Hy as [->|Hy]; try reflexivity.
  - exfalso. apply Hn. rewrite E. apply in_map. exact Hy.
  - exfalso. apply Hn. rewrite <- E. apply in_map. exact Hx.
  - apply IH; assumption.
Qed.

Lemma nodup_map_weaken {A B C} (f : A -> B) (g : A -> C) l : (forall x y, g x = g y -> f x = f y) ->
  NoDup (map f l) -> NoDup (map g l).
Proof.
  intros H. induction l as [|a l IH]; intros ND; [constructor|]. cbn [map] in *. inversion ND as [|? ? Hn ND']; subst.
  constructor; [|apply IH; exact ND']. intros Hin. apply in_map_iff in Hin. destruct Hin as (b & E & Hb).
  apply Hn. apply in_map_iff. exists b. split; [apply H; exact E|exact Hb].
Qed.

Section G.
Variable n : nat.
Variable es : list gedge.
Hypothesis G : graph_ok n es.

Lemma graph_compat : compat es.
Proof.
  destruct G as [_ U P]. split.
  - apply (nodup_map_weaken triple gkey es); [|exact U]. intros x y E. unfold gkey in E. unfold triple. congruence.
  - intros e e' He He' Ks T. apply orb_prop in T. destruct T as [T|T]; apply at3_true in T; destruct T as (Ts & Td & Tl).
    + assert (e' = e) by (apply (nodup_map_inj triple es); try assumption; unfold triple; congruence). subst. auto.
    + destruct (P e He Ks) as (_ & e'' & He'' & S'' & D'' & L'' & K'' & V'' & P'').
      assert (e' = e'') by (apply (nodup_map_inj triple es); try assumption; unfold triple; congruence). subst. auto.
  - intros e e' He He' Kd Kp. destruct (at3 (g_src e) (g_dst e) (g_lag e) e') eqn:A; [exfalso|reflexivity].
    apply at3_true in A. destruct A as (As & Ad & Al).
    assert (e' = e) by (apply (nodup_map_inj triple es); try assumption; unfold triple; congruence). subst. congruence.
Qed.

Let T := p_tab (to_pcmci n es).
Let Lg := S (max_lag es).
Lemma getT c : get T c = expected es c.
Proof. apply to_pcmci_characterised, graph_compat. Qed.

Lemma max_lag_ge e : In e es -> g_lag e <= max_lag es.
Proof.
  clear G T Lg. induction es as [|a l IH]; intros H; [destruct H|]. cbn [max_lag fold_right]. fold (max_lag l).
  destruct H as [->|H]; [lia|]. specialize (IH H). lia.
Qed.

Lemma cell_of e : In e es -> In (g_src e, g_dst e, g_lag e) (cells n Lg).
Proof. intros H. apply in_cells. destruct (g_range n es G e H). pose proof (max_lag_ge e H). unfold Lg. lia. Qed.

Lemma find_kind_some (k : kind) e : In e es -> g_kind e = k ->
  find (fun x => kind_eqb (g_kind x) k && at3 (g_src e) (g_dst e) (g_lag e) x) es = Some e.
Proof. intros H K. apply find_unique; [exact (c_keys _ graph_compat)|exact H|exact K|apply at3_true; auto]. Qed.

Lemma findD_self e : In e es -> g_kind e = Directed -> find (pD (g_src e) (g_dst e) (g_lag e)) es = Some e.
Proof. exact (find_kind_some Directed e). Qed.
Lemma findP_self e : In e es -> g_kind e = PossibleDirected -> find (pP (g_src e) (g_dst e) (g_lag e)) es = Some e.
Proof. exact (find_kind_some PossibleDirected e). Qed.

(* no '-->' / '-?>' on the pair of a symmetric link *)
Lemma sym_excludes e i j : In e es -> sym_kind (g_kind e) = true ->
  ((i = g_src e /\ j = g_dst e) \/ (i = g_dst e /\ j = g_src e)) ->
  find (pD i j (g_lag e)) es = None /\ find (pP i j (g_lag e)) es = None.
Proof.
  intros He Ks Hij. split; apply find_none_intro; intros x Hx.
  - unfold pD. destruct (kind_eqb (g_kind x) Directed) eqn:K; [|reflexivity]. apply kind_eqb_eq in K.
    destruct (at3 i j (g_lag e) x) eqn:A; [exfalso|reflexivity].
    assert (Tx : touches (g_src e) (g_dst e) (g_lag e) x = true).
    { unfold touches. destruct Hij as [[-> ->]|[-> ->]]; rewrite A; [reflexivity|apply orb_true_r]. }
    destruct (c_sym _ graph_compat e x He Hx Ks Tx) as [K' _]. rewrite K in K'. rewrite <- K' in Ks. discriminate.
  - unfold pP. destruct (kind_eqb (g_kind x) PossibleDirected) eqn:K; [|reflexivity]. apply kind_eqb_eq in K.
    destruct (at3 i j (g_lag e) x) eqn:A; [exfalso|reflexivity].
    assert (Tx : touches (g_src e) (g_dst e) (g_lag e) x = true).
    { unfold touches. destruct Hij as [[-> ->]|[-> ->]]; rewrite A; [reflexivity|apply orb_true_r]. }
    destruct (c_sym _ graph_compat e x He Hx Ks Tx) as [K' _]. rewrite K in K'. rewrite <- K' in Ks. discriminate.
Qed.

Lemma sym_found e i j : In e es -> sym_kind (g_kind e) = true ->
  ((i = g_src e /\ j = g_dst e) \/ (i = g_dst e /\ j = g_src e)) ->
  exists e0, find (pS i j (g_lag e)) es = Some e0 /\ g_kind e0 = g_kind e /\ g_val e0 = g_val e /\ g_p e0 = g_p e.
Proof.
  intros He Ks Hij.
  assert (Pe : pS i j (g_lag e) e = true).
  { unfold pS. rewrite Ks. cbn. unfold at3. destruct Hij as [[-> ->]|[-> ->]]; rewrite !Nat.eqb_refl; cbn; [reflexivity|apply orb_true_r]. }
  destruct (find (pS i j (g_lag e)) es) as [e0|] eqn:F; [|rewrite (find_none _ _ F e He) in Pe; discriminate].
  exists e0. split; [reflexivity|]. apply find_some in F. destruct F as [H0 P0]. unfold pS in P0. apply andb_prop in P0. destruct P0 as [_ A0].
  apply (c_sym _ graph_compat e e0 He H0 Ks). unfold touches.
  destruct Hij as [[-> ->]|[-> ->]]; [exact A0|rewrite orb_comm; exact A0].
Qed.

Lemma gedge_eqb_intro x e : g_src x = g_src e -> g_dst x = g_dst e -> g_lag x = g_lag e -> g_kind x = g_kind e ->
  g_val x = g_val e -> g_p x = g_p e -> gedge_eqb x e = true.
Proof.
  intros E1 E2 E3 E4 E5 E6. unfold gedge_eqb. rewrite E1, E2, E3, E4, E5, E6, !Nat.eqb_refl, !Qeq_bool_refl'.
  destruct (g_kind e); reflexivity.
Qed.

Definition matches (x e : gedge) : Prop := gedge_eqb x e = true /\ gkey x = gkey e.

Lemma matches_intro x e : g_src x = g_src e -> g_dst x = g_dst e -> g_lag x = g_lag e -> g_kind x = g_kind e ->
  g_val x = g_val e -> g_p x = g_p e -> matches x e.
Proof. intros. split; [apply gedge_eqb_intro; assumption|unfold gkey; congruence]. Qed.

Lemma kind_of_mark_of_kind k : sym_kind k = true -> (match mark_of_kind k with OO => Undirected | _ => Conflicting end) = k.
Proof. destruct k; try discriminate; reflexivity. Qed.

(* every edge of the graph is emitted again *)
Lemma es_in_emit e : In e es -> exists c x, In c (cells n Lg) /\ In x (emit T false 0 c) /\ matches x e.
Proof.
  intros He. destruct (g_kind e) eqn:K.
  - (* Directed *)
    exists (g_src e, g_dst e, g_lag e), (mk_edge (g_src e) (g_dst e) (g_lag e) (ent Fwd e) Directed None).
    split; [apply cell_of; exact He|]. split.
    + unfold emit. rewrite getT. unfold expected. rewrite (findD_self e He K). cbn. left. reflexivity.
    + apply matches_intro; try reflexivity. cbn. congruence.
  - (* Undirected *)
    destruct (g_paired n es G e He ltac:(rewrite K; reflexivity)) as (Ne & e' & He' & S' & D' & L' & K' & V' & P').
    set (a := Nat.min (g_src e) (g_dst e)). set (b := Nat.max (g_src e) (g_dst e)).
    assert (Hab : (a = g_src e /\ b = g_dst e) \/ (a = g_dst e /\ b = g_src e)) by (unfold a, b; lia).
    assert (Lt : a < b) by (unfold a, b; lia).
    destruct (sym_excludes e a b He ltac:(rewrite K; reflexivity) Hab) as [FD FP].
    destruct (sym_found e a b He ltac:(rewrite K; reflexivity) Hab) as (e0 & FS & K0 & V0 & P0).
    assert (Hc : In (a, b, g_lag e) (cells n Lg)).
    { destruct Hab as [[-> ->]|[-> ->]]; [apply cell_of; exact He|]. rewrite <- S', <- D', <- L'. apply cell_of; exact He'. }
    assert (Em : emit T false 0 (a, b, g_lag e) =
                 [mk_edge a b (g_lag e) (ent OO e0) Undirected None; mk_edge b a (g_lag e) (ent OO e0) Undirected None]).
    { unfold emit. rewrite getT. unfold expected. rewrite FD, FP, FS, K0, K. cbn [ent e_mark mark_of_kind e_p sig_of].
      destruct (Nat.ltb_spec a b); [reflexivity|lia]. }
    exists (a, b, g_lag e). destruct Hab as [[Ea Eb]|[Ea Eb]].
    + exists (mk_edge a b (g_lag e) (ent OO e0) Undirected None). split; [exact Hc|]. split; [rewrite Em; left; reflexivity|].
      apply matches_intro; cbn; congruence.
    + exists (mk_edge b a (g_lag e) (ent OO e0) Undirected None). split; [exact Hc|]. split; [rewrite Em; right; left; reflexivity|].
      apply matches_intro; cbn; congruence.
  - (* Conflicting *)
    destruct (g_paired n es G e He ltac:(rewrite K; reflexivity)) as (Ne & e' & He' & S' & D' & L' & K' & V' & P').
    set (a := Nat.min (g_src e) (g_dst e)). set (b := Nat.max (g_src e) (g_dst e)).
    assert (Hab : (a = g_src e /\ b = g_dst e) \/ (a = g_dst e /\ b = g_src e)) by (unfold a, b; lia).
    assert (Lt : a < b) by (unfold a, b; lia).
    destruct (sym_excludes e a b He ltac:(rewrite K; reflexivity) Hab) as [FD FP].
    destruct (sym_found e a b He ltac:(rewrite K; reflexivity) Hab) as (e0 & FS & K0 & V0 & P0).
    assert (Hc : In (a, b, g_lag e) (cells n Lg)).
    { destruct Hab as [[-> ->]|[-> ->]]; [apply cell_of; exact He|]. rewrite <- S', <- D', <- L'. apply cell_of; exact He'. }
    assert (Em : emit T false 0 (a, b, g_lag e) =
                 [mk_edge a b (g_lag e) (ent XX e0) Conflicting None; mk_edge b a (g_lag e) (ent XX e0) Conflicting None]).
    { unfold emit. rewrite getT. unfold expected. rewrite FD, FP, FS, K0, K. cbn [ent e_mark mark_of_kind e_p sig_of].
      destruct (Nat.ltb_spec a b); [reflexivity|lia]. }
    exists (a, b, g_lag e). destruct Hab as [[Ea Eb]|[Ea Eb]].
    + exists (mk_edge a b (g_lag e) (ent XX e0) Conflicting None). split; [exact Hc|]. split; [rewrite Em; left; reflexivity|].
      apply matches_intro; cbn; congruence.
    + exists (mk_edge b a (g_lag e) (ent XX e0) Conflicting None). split; [exact Hc|]. split; [rewrite Em; right; left; reflexivity|].
      apply matches_intro; cbn; congruence.
  - (* PossibleDirected *)
    exists (g_src e, g_dst e, g_lag e), (mk_edge (g_src e) (g_dst e) (g_lag e) (ent Poss e) PossibleDirected None).
    split; [apply cell_of; exact He|]. split.
    + unfold emit. rewrite getT. unfold expected.
      assert (FD : find (pD (g_src e) (g_dst e) (g_lag e)) es = None).
      { apply find_none_intro. intros x Hx. unfold pD. destruct (kind_eqb (g_kind x) Directed) eqn:Kx; [|reflexivity].
        apply kind_eqb_eq in Kx. destruct (at3 (g_src e) (g_dst e) (g_lag e) x) eqn:A; [exfalso|reflexivity].
        apply at3_true in A. destruct A as (As & Ad & Al).
        assert (x = e) by (apply (nodup_map_inj triple es); [exact (g_unique n es G)|exact Hx|exact He|unfold triple; congruence]).
        subst. congruence. }
      rewrite FD, (findP_self e He K). cbn. left. reflexivity.
    + apply matches_intro; try reflexivity. cbn. congruence.
Qed.

(* every emitted edge is an edge of the graph *)
Lemma emit_in_es c x : In x (emit T false 0 c) -> exists e, In e es /\ matches x e.
Proof.
  destruct c as [[i j] l]. unfold emit. rewrite getT.
  unfold expected.
  destruct (find (pD i j l) es) as [e|] eqn:FD.
  { apply find_some in FD. destruct FD as [He Pe]. unfold pD in Pe. apply andb_prop in Pe. destruct Pe as [Ke Ae].
    apply kind_eqb_eq in Ke. apply at3_true in Ae. destruct Ae as (As & Ad & Al).
    cbn [ent e_mark]. intros [<-|[]]. exists e. split; [exact He|]. apply matches_intro; cbn; congruence. }
  destruct (find (pP i j l) es) as [e|] eqn:FP.
  { apply find_some in FP. destruct FP as [He Pe]. unfold pP in Pe. apply andb_prop in Pe. destruct Pe as [Ke Ae].
    apply kind_eqb_eq in Ke. apply at3_true in Ae. destruct Ae as (As & Ad & Al).
    cbn [ent e_mark]. intros [<-|[]]. exists e. split; [exact He|]. apply matches_intro; cbn; congruence. }
  destruct (find (pS i j l) es) as [e0|] eqn:FS.
  { apply find_some in FS. destruct FS as [H0 P0]. unfold pS in P0. apply andb_prop in P0. destruct P0 as [K0 A0].
    destruct (g_paired n es G e0 H0 K0) as (Ne & e' & He' & S' & D' & L' & K' & V' & P').
    assert (Hl : g_lag e0 = l) by (apply orb_prop in A0; destruct A0 as [A|A]; apply at3_true in A; tauto).
    assert (Hij : (g_src e0 = i /\ g_dst e0 = j) \/ (g_src e0 = j /\ g_dst e0 = i))
      by (apply orb_prop in A0; destruct A0 as [A|A]; apply at3_true in A; tauto).
    cbn [ent e_mark e_p sig_of].
    destruct (g_kind e0) eqn:Kk; try discriminate; cbn [mark_of_kind];
      (destruct (Nat.ltb i j); [|intros []]);
      (intros [<-|[<-|[]]];
       [ destruct Hij as [[E1 E2]|[E1 E2]]; [exists e0|exists e']; (split; [assumption|]); apply matches_intro; cbn; congruence
       | destruct Hij as [[E1 E2]|[E1 E2]]; [exists e'|exists e0]; (split; [assumption|]); apply matches_intro; cbn; congruence ]). }
  destruct (Nat.eqb l 0 && negb (Nat.eqb i j)) eqn:B; [|cbn; intros []].
  destruct (find (pD j i l) es) as [e|] eqn:FB; [|cbn; intros []].
  (* '<--' written as the mirror of e : j -> i; its mirror cell is '-->', so nothing is emitted from here *)
  cbn [ent e_mark]. rewrite getT. unfold expected. rewrite FB. cbn. intros [].
Qed.

Lemma T_no_unknown : has_unknown (to_pcmci n es) = false.
Proof.
  unfold has_unknown. destruct (existsb _ _) eqn:E; [exfalso|reflexivity].
  apply existsb_exists in E. destruct E as ([[i j] l] & _ & M). apply mark_eqb_eq in M. cbn [p_tab] in M. fold T in M.
  rewrite getT in M. unfold expected in M.
  destruct (find (pD i j l) es); [discriminate|]. destruct (find (pP i j l) es); [discriminate|].
  destruct (find (pS i j l) es) as [e0|]; [cbn in M; destruct (g_kind e0); discriminate|].
  destruct (Nat.eqb l 0 && negb (Nat.eqb i j)); [destruct (find (pD j i l) es)|]; discriminate.
Qed.

Theorem graph_roundtrip : graph_roundtrip_ok n es = true.
Proof.
  unfold graph_roundtrip_ok, to_graph, to_graph_emitted. rewrite T_no_unknown. cbn [p_n p_lags p_tab to_pcmci].
  change (fst (fold_left write_edge es ([], []))) with T. fold Lg.
  set (es2 := flat_map (emit T false 0) (cells n Lg)).
  assert (Hsrc : forall x, In x es2 -> g_src x < n).
  { intros x Hx. apply in_flat_map in Hx. destruct Hx as (c & _ & Hx). destruct (emit_in_es c x Hx) as (e & He & [_ Kx]).
    unfold gkey in Kx. destruct (g_range n es G e He). injection Kx as -> _ _ _. assumption. }
  pose proof (nx_order_permutation n es2 Hsrc) as PM.
  assert (In2 : forall x, In x (nx_order n es2) <-> In x es2)
    by (intros x; split; apply Permutation_in; [exact PM|apply Permutation_sym; exact PM]).
  assert (K2 : NoDup (map gkey es2)) by (apply flat_map_keys_nodup, cells_nodup).
  assert (KE : forall k, In k (map gkey es2) <-> In k (map gkey es)).
  { intros k. rewrite !in_map_iff. split.
    - intros (x & <- & Hx). apply in_flat_map in Hx. destruct Hx as (c & _ & Hx). destruct (emit_in_es c x Hx) as (e & He & [_ Kx]).
      exists e. split; [symmetry; exact Kx|exact He].
    - intros (e & <- & He). destruct (es_in_emit e He) as (c & x & Hc & Hx & [_ Kx]). exists x. split; [exact Kx|].
      apply in_flat_map. exists c. split; assumption. }
  unfold same_links. rewrite !andb_true_iff. repeat split.
  - apply Nat.eqb_eq. rewrite (Permutation_length PM), <- (map_length gkey es2), <- (map_length gkey es).
    apply Permutation_length, NoDup_Permutation; [exact K2|exact (c_keys _ graph_compat)|exact KE].
  - unfold gsub. apply forallb_forall. intros x Hx. apply In2 in Hx. apply in_flat_map in Hx. destruct Hx as (c & _ & Hx).
    destruct (emit_in_es c x Hx) as (e & He & [Ex _]). apply existsb_exists. exists e. split; assumption.
  - unfold gsub. apply forallb_forall. intros e He. destruct (es_in_emit e He) as (c & x & Hc & Hx & [Ex _]).
    apply existsb_exists. exists x. split; [apply In2, in_flat_map; exists c; split; assumption|].
    unfold gedge_eqb in *. rewrite !andb_true_iff in *. destruct Ex as [[[[[E1 E2] E3] E4] E5] E6].
    rewrite Nat.eqb_sym, E1, (Nat.eqb_sym (g_dst e)), E2, (Nat.eqb_sym (g_lag e)), E3. repeat split.
    + apply kind_eqb_eq in E4. rewrite E4. apply kind_eqb_eq. reflexivity.
    + apply Qeq_bool_sym. exact E5.
    + apply Qeq_bool_sym. exact E6.
Qed.
End G.

(* non-vacuity: a 3-node graph with a contemporaneous directed link, a symmetric link and a lagged possible link *)
Example graph_ok_instance :
  let es := map mk_g [(0, 1, 0, 1 # 2, 1 # 10, Directed, None); (0, 2, 1, 1 # 3, 1 # 5, Undirected, None);
                      (2, 0, 1, 1 # 3, 1 # 5, Undirected, None); (1, 1, 2, 1 # 7, 1 # 9, PossibleDirected, None)] in
  graph_roundtrip_ok 3 es = true.
Proof. vm_compute. reflexivity. Qed.
