From Coq Require Import List Arith ZArith QArith Bool Permutation Lia Setoid Morphisms.
From CE Require Import Model.PoissonMI.
Import ListNotations.
Open Scope Q_scope.

Fixpoint lsum (l : list Q) : Q := match l with [] => 0 | a :: t => a + lsum t end.
Lemma lsum_app l1 l2 : lsum (l1 ++ l2) == lsum l1 + lsum l2.
Proof. induction l1 as [|a l IH]; cbn [app lsum]; [ring|rewrite IH; ring]. Qed.
Lemma lsum_perm l l' : Permutation l l' -> lsum l == lsum l'.
Proof.
  induction 1 as [|x l l' _ IH|x y l|l l' l'' _ IH1 _ IH2]; cbn [lsum]; try reflexivity.
  - rewrite IH. reflexivity.
  - ring.
  - rewrite IH1. exact IH2.
Qed.
Lemma sumn_lsum n f : sumn n f == lsum (map f (seq 0 n)).
Proof.
  induction n as [|n IH]; [reflexivity|]. cbn [sumn]. rewrite seq_S, map_app, lsum_app, IH. cbn [map lsum plus]. ring.
Qed.
Lemma sumn_ext n f g : (forall i, (i < n)%nat -> f i == g i) -> sumn n f == sumn n g.
Proof. induction n as [|n IH]; intros H; [reflexivity|]. cbn [sumn]. rewrite IH, (H n) by (intros; try apply H; lia). reflexivity. Qed.
Lemma sumn_plus n f g : sumn n (fun i => f i + g i) == sumn n f + sumn n g.
Proof. induction n as [|n IH]; cbn [sumn]; [ring|rewrite IH; ring]. Qed.

(* a permutation of the variables, given by its table *)
Definition perm_of (n : nat) (s : nat -> nat) : Prop := Permutation (map s (seq 0 n)) (seq 0 n).

Lemma sumn_reindex n s f : perm_of n s -> sumn n (fun i => f (s i)) == sumn n f.
Proof.
  intros P. rewrite !sumn_lsum. rewrite <- (map_map s f). apply lsum_perm, Permutation_map, P.
Qed.

Lemma perm_lt n s i : perm_of n s -> (i < n)%nat -> (s i < n)%nat.
Proof.
  intros P Hi. assert (In (s i) (seq 0 n)) as H.
  { eapply Permutation_in; [exact P|]. apply in_map, in_seq. lia. }
  apply in_seq in H. lia.
Qed.

Section Sym.
Variable n : nat.
Variable r : nat -> nat -> Q.
Hypothesis Hsym : forall i j, r i j == r j i.

(* strict upper triangle = (total - trace) / 2 for a symmetric matrix *)
Lemma upper_step m : (forall i j, r i j == r j i) ->
  sumn (S m) (fun i => sumn (S m) (fun j => if Nat.ltb i j then r i j else 0))
  == sumn m (fun i => sumn m (fun j => if Nat.ltb i j then r i j else 0)) + sumn m (fun i => r i m).
Proof.
  intros _. cbn [sumn]. rewrite Nat.ltb_irrefl.
  assert (E1 : sumn m (fun j => if Nat.ltb m j then r m j else 0) == 0).
  { rewrite (sumn_ext m _ (fun _ => 0)).
    - clear. induction m as [|k IH]; cbn [sumn]; [reflexivity|rewrite IH; ring].
    - intros j Hj. destruct (Nat.ltb_spec m j); [lia|reflexivity]. }
  rewrite E1.
  rewrite (sumn_ext m (fun i => sumn m (fun j => if Nat.ltb i j then r i j else 0) + (if Nat.ltb i m then r i m else 0))
                      (fun i => sumn m (fun j => if Nat.ltb i j then r i j else 0) + r i m)).
  - rewrite sumn_plus. ring.
  - intros i Hi. destruct (Nat.ltb_spec i m); [reflexivity|lia].
Qed.

Lemma total_step m :
  sumn (S m) (fun i => sumn (S m) (fun j => r i j))
  == sumn m (fun i => sumn m (fun j => r i j)) + sumn m (fun i => r i m) + sumn m (fun j => r m j) + r m m.
Proof. cbn [sumn]. rewrite sumn_plus. ring. Qed.

Lemma upper_half m : 2 * upper m r == sumn m (fun i => sumn m (fun j => r i j)) - sumn m (fun i => r i i).
Proof.
  unfold upper. induction m as [|m IH]; [cbn; ring|].
  rewrite (upper_step m Hsym), total_step. cbn [sumn].
  rewrite (sumn_ext m (fun j => r m j) (fun i => r i m)) by (intros; apply Hsym).
  setoid_replace (2 * (sumn m (fun i => sumn m (fun j => if Nat.ltb i j then r i j else 0)) + sumn m (fun i => r i m)))
    with (2 * sumn m (fun i => sumn m (fun j => if Nat.ltb i j then r i j else 0)) + 2 * sumn m (fun i => r i m)) by ring.
  rewrite IH. ring.
Qed.
End Sym.

(* ---- the estimate does not depend on the order of the variables (in particular on which block is X) ---- *)
Section Inv.
Variable h : Q -> Q.
Hypothesis h_proper : forall a b, a == b -> h a == h b.
Variable n : nat.
Variable r : nat -> nat -> Q.
Hypothesis Hsym : forall i j, r i j == r j i.
Variable s : nat -> nat.
Hypothesis Hs : perm_of n s.
Definition rs (i j : nat) : Q := r (s i) (s j).

Lemma Qabsq_proper a b : a == b -> Qabsq a == Qabsq b.
Proof.
  intros E. unfold Qabsq. destruct (Qle_bool 0 a) eqn:A, (Qle_bool 0 b) eqn:B; try (rewrite E; reflexivity).
  - apply Qle_bool_iff in A. rewrite E in A. apply Qle_bool_iff in A. congruence.
  - apply Qle_bool_iff in B. rewrite <- E in B. apply Qle_bool_iff in B. congruence.
Qed.

Lemma offsum_rs i : offsum n rs i == offsum n r (s i).
Proof. unfold offsum, rs. rewrite (sumn_reindex n s (fun j => r j (s i)) Hs). reflexivity. Qed.
Lemma dg_rs i : dg n rs i == dg n r (s i).
Proof. unfold dg. rewrite offsum_rs. reflexivity. Qed.

Lemma upper_rs : upper n rs == upper n r.
Proof.
  assert (H2 : 2 * upper n rs == 2 * upper n r).
  { rewrite (upper_half rs) by (intros; unfold rs; apply Hsym). rewrite (upper_half r Hsym). unfold rs.
    rewrite (sumn_reindex n s (fun i => r i i) Hs).
    rewrite (sumn_ext n (fun i => sumn n (fun j => r (s i) (s j))) (fun i => sumn n (fun j => r (s i) j)))
      by (intros i _; apply (sumn_reindex n s (fun j => r (s i) j) Hs)).
    rewrite (sumn_reindex n s (fun i => sumn n (fun j => r i j)) Hs). reflexivity. }
  setoid_replace (upper n rs) with ((2 * upper n rs) / 2) by field.
  rewrite H2. field.
Qed.

Theorem pmi_variable_order : pmi h n rs == pmi h n r.
Proof.
  unfold pmi, marg, joint. rewrite upper_rs.
  rewrite (sumn_ext n (fun i => h (Qabsq (dg n rs i + offsum n rs i))) (fun i => h (Qabsq (dg n r (s i) + offsum n r (s i)))))
    by (intros i _; apply h_proper, Qabsq_proper; rewrite dg_rs, offsum_rs; reflexivity).
  rewrite (sumn_reindex n s (fun i => h (Qabsq (dg n r i + offsum n r i))) Hs).
  rewrite (sumn_ext n (fun i => h (Qabsq (dg n rs i))) (fun i => h (Qabsq (dg n r (s i)))))
    by (intros i _; apply h_proper, Qabsq_proper, dg_rs).
  rewrite (sumn_reindex n s (fun i => h (Qabsq (dg n r i))) Hs). reflexivity.
Qed.
End Inv.

(* exchanging the X block (k_x columns) and the Y block (k_y columns) is such a variable permutation *)
Definition block_swap (kx ky i : nat) : nat := if Nat.ltb i ky then (kx + i)%nat else (i - ky)%nat.
Lemma block_swap_perm kx ky : perm_of (kx + ky) (block_swap kx ky).
Proof.
  unfold perm_of. rewrite (Nat.add_comm kx ky), seq_app, map_app. cbn [plus].
  rewrite (map_ext_in (block_swap kx ky) (fun i => (kx + i)%nat) (seq 0 ky)).
  2:{ intros i Hi. apply in_seq in Hi. unfold block_swap. destruct (Nat.ltb_spec i ky); [reflexivity|lia]. }
  rewrite (map_ext_in (block_swap kx ky) (fun i => (i - ky)%nat) (seq ky kx)).
  2:{ intros i Hi. apply in_seq in Hi. unfold block_swap. destruct (Nat.ltb_spec i ky); [lia|reflexivity]. }
  assert (E1 : map (fun i => (kx + i)%nat) (seq 0 ky) = seq kx ky).
  { assert (G : forall a, map (fun i => (kx + i)%nat) (seq a ky) = seq (kx + a) ky).
    { clear. induction ky as [|k IH]; intros a; [reflexivity|]. cbn [seq map]. f_equal. rewrite IH, Nat.add_succ_r. reflexivity. }
    rewrite G, Nat.add_0_r. reflexivity. }
  assert (E2 : map (fun i => (i - ky)%nat) (seq ky kx) = seq 0 kx).
  { clear. induction kx as [|k IH]; [reflexivity|]. rewrite !seq_S, map_app, IH. cbn [map]. f_equal. f_equal. lia. }
  rewrite E1, E2.
  apply Permutation_trans with (seq 0 kx ++ seq kx ky); [apply Permutation_app_comm|].
  change (seq kx ky) with (seq (0 + kx) ky). rewrite <- seq_app.
  change (seq ky kx) with (seq (0 + ky) kx). rewrite <- seq_app. rewrite (Nat.add_comm kx ky). apply Permutation_refl.
Qed.

Example pmi_swap_instance :
  let M := [[1; 1#2; 1#4]; [1#2; 1; 1#3]; [1#4; 1#3; 1]] in
  pmi (fun q => q * q) 3 (matf M) == pmi (fun q => q * q) 3 (fun i j => matf M (block_swap 1 2 i) (block_swap 1 2 j)).
Proof. vm_compute. reflexivity. Qed.
