(* Specification of the exact ellipsoid count of Model/GeoEllipsoid.v, proved for all inputs.

   ell_value d p l q eliminates the G block of the bordered matrix [[G, z], [z^T, 0]] (G = A^T A the integer Gram
   matrix of the (k+1)-fold centred neighbourhood, z = q - p) and returns (k+1)^2 * (- Schur complement).
   PROVED here, for every d, every neighbourhood and every neighbour (no bound, no genericity hypothesis beyond the
   function returning a value):
     * elim is Gaussian elimination: it preserves the residuals of every vector that satisfies the eliminated
       equations (elim_residuals), and such vectors exist for every choice of the free coordinates (elim_solvable);
     * hence when ell_value returns v the linear system G x = z HAS a real solution, and for EVERY real solution
       v = (k+1)^2 * z.x   -- v is the quadratic form z^T G^-1 z (times (k+1)^2), with no inverse to be defined;
     * ins_exact, in its k >= d branch, counts exactly the neighbours whose quadratic form is <= 1;
     * the implementation's test sum_l ((z_real . v_l)/sigma_l)^2 <= 1 is this quadratic form whenever (v_l, sigma_l^2)
       are eigenpairs of Y^T Y that resolve z (svd_sum_is_quadratic_form): the SVD enters as a hypothesis only. *)
From Coq Require Import List ZArith QArith Bool Lia Reals Qreals Lra.
From CE Require Import Model.Itv Model.KnnCounts Model.GeoKnn Model.GeoEllipsoid Model.GeoRank Proofs.KdeProofs.
Import ListNotations.
Close Scope Q_scope.
Open Scope R_scope.

Fixpoint dotR (a b : list R) : R := match a, b with x :: a', y :: b' => x * y + dotR a' b' | _, _ => 0 end.
Definition rowR (r : list Q) : list R := map Q2R r.
(* residuals of the rows (as linear forms) at the vector v *)
Definition res (rows : list (list Q)) (v : list R) : list R := map (fun r => dotR (rowR r) v) rows.

Lemma dotR_qsub f : forall r prow w, length r = length w -> length prow = length w ->
  dotR (rowR (qsub_scaled f r prow)) w = dotR (rowR r) w - Q2R f * dotR (rowR prow) w.
Proof.
  unfold qsub_scaled, rowR. induction r as [|a r IH]; intros [|b prow] [|y w] Hr Hp; cbn in Hr, Hp; try discriminate; cbn [combine map dotR fst snd].
  - lra.
  - rewrite (IH prow w) by lia. rewrite (Qeq_eqR _ _ (Qred_correct _)), Q2R_minus, Q2R_mult. lra.
Qed.

Definition step (piv : Q) (prow : list Q) (rest : list (list Q)) : list (list Q) :=
  map (fun r => match r with a :: r' => qsub_scaled (a / piv) r' prow | [] => [] end) rest.

Lemma elim_S n piv prow rest : elim (S n) ((piv :: prow) :: rest) = if Qeq_bool piv 0 then None else elim n (step piv prow rest).
Proof. reflexivity. Qed.

Definition shaped (m : nat) (rows : list (list Q)) : Prop := Forall (fun r => length r = m) rows.

Lemma step_shaped m piv prow rest : length prow = m -> shaped (S m) rest -> shaped m (step piv prow rest).
Proof.
  intros Hp H. unfold shaped, step. rewrite Forall_map. eapply Forall_impl; [|exact H].
  intros [|a r] Hr; cbn in Hr; [discriminate|]. unfold qsub_scaled. rewrite map_length, combine_length. lia.
Qed.

(* one elimination step keeps the residuals of the other rows, for every vector that satisfies the pivot equation *)
Lemma step_res piv prow rest v0 w : ~ (piv == 0)%Q -> length prow = length w -> shaped (S (length w)) rest ->
  Q2R piv * v0 + dotR (rowR prow) w = 0 ->
  res (step piv prow rest) w = res rest (v0 :: w).
Proof.
  intros Hpiv Hp Hs H0. unfold res, step. rewrite map_map. apply map_ext_in. intros [|a r] Hin.
  - exfalso. unfold shaped in Hs. rewrite Forall_forall in Hs. specialize (Hs _ Hin). discriminate.
  - unfold shaped in Hs. rewrite Forall_forall in Hs. specialize (Hs _ Hin). cbn in Hs.
    rewrite dotR_qsub by lia. cbn [rowR map dotR]. rewrite Q2R_div by exact Hpiv.
    assert (Q2R piv <> 0) by (intro E; apply Hpiv; apply eqR_Qeq; rewrite E; unfold Q2R; cbn; lra).
    replace (dotR (rowR prow) w) with (- (Q2R piv * v0)) by lra. unfold rowR. field. assumption.
Qed.

Lemma Qeq_bool_false_neq x : Qeq_bool x 0 = false -> ~ (x == 0)%Q.
Proof. intros H E. apply Qeq_bool_iff in E. congruence. Qed.

(* SOUNDNESS / UNIQUENESS: every vector satisfying the n eliminated equations has, on the remaining rows, the
   residuals that the eliminated matrix has on the remaining coordinates *)
Theorem elim_residuals : forall n rows rows' v, elim n rows = Some rows' -> shaped (length v) rows -> (n <= length v)%nat ->
  firstn n (res rows v) = repeat 0 n ->
  res rows' (skipn n v) = skipn n (res rows v).
Proof.
  induction n as [|n IH]; intros rows rows' v He Hs Hn H0.
  - cbn in He. injection He as <-. reflexivity.
  - destruct rows as [|[|piv prow] rest]; try discriminate He. rewrite elim_S in He.
    destruct (Qeq_bool piv 0) eqn:Ep; [discriminate|]. apply Qeq_bool_false_neq in Ep.
    destruct v as [|v0 w]; [cbn in Hn; lia|]. cbn [length] in Hs, Hn.
    inversion Hs as [|? ? Hl Hs']; subst. cbn in Hl.
    cbn [res map firstn repeat] in H0. injection H0 as Hp0 H0. cbn [rowR map dotR] in Hp0.
    assert (Hst : res (step piv prow rest) w = res rest (v0 :: w)) by (apply step_res; [exact Ep|lia|exact Hs'|exact Hp0]).
    cbn [skipn res map]. fold (res rest (v0 :: w)). rewrite <- Hst.
    apply IH; [exact He|apply step_shaped; [lia|exact Hs']|lia|rewrite Hst; exact H0].
Qed.

Lemma dotR_app a : forall x b y, length a = length x -> dotR (a ++ b) (x ++ y) = dotR a x + dotR b y.
Proof. induction a as [|a0 a IH]; intros [|x0 x] b y H; cbn in H; try discriminate; cbn [app dotR]; [lra|]. rewrite IH by lia. lra. Qed.

(* EXISTENCE: the n eliminated equations can be satisfied for every choice w of the remaining coordinates *)
Theorem elim_solvable : forall n rows rows' w, elim n rows = Some rows' -> shaped (n + length w) rows ->
  exists x, length x = n /\ firstn n (res rows (x ++ w)) = repeat 0 n.
Proof.
  induction n as [|n IH]; intros rows rows' w He Hs.
  - exists []. split; reflexivity.
  - destruct rows as [|[|piv prow] rest]; try discriminate He. rewrite elim_S in He.
    destruct (Qeq_bool piv 0) eqn:Ep; [discriminate|]. apply Qeq_bool_false_neq in Ep.
    inversion Hs as [|? ? Hl Hs']; subst. cbn in Hl.
    destruct (IH (step piv prow rest) rows' w He) as [x [Hx H0]]; [apply step_shaped; [lia|exact Hs']|].
    assert (Hpiv : Q2R piv <> 0) by (intro E; apply Ep; apply eqR_Qeq; rewrite E; unfold Q2R; cbn; lra).
    exists (- dotR (rowR prow) (x ++ w) / Q2R piv :: x). split; [cbn; lia|].
    cbn [app res map firstn repeat rowR dotR]. f_equal; [fold (rowR prow); field; exact Hpiv|].
    fold (res rest ((- dotR (rowR prow) (x ++ w) / Q2R piv) :: x ++ w)).
    rewrite <- (step_res piv prow rest _ (x ++ w) Ep); [exact H0|rewrite app_length; lia|rewrite app_length, Hx; exact Hs'|field; exact Hpiv].
Qed.

(* ---- the bordered system of ell_value ---------------------------------------------------------------- *)
Definition zrowR (r : list Z) : list R := map IZR r.
(* x solves G x = z (rows of G against x) *)
Definition solves (G : list (list Z)) (z : list Z) (x : list R) : Prop :=
  length x = length z /\ Forall2 (fun g zi => dotR (zrowR g) x = IZR zi) G z.
Definition bordered (G : list (list Z)) (z : list Z) : list (list Q) :=
  map (fun gr => map inject_Z (fst gr ++ [snd gr])) (combine G z) ++ [map inject_Z (z ++ [0%Z])].

Lemma Q2R_injZ a : Q2R (inject_Z a) = IZR a.
Proof. unfold Q2R, inject_Z. cbn. field. Qed.
Lemma rowR_injZ r : rowR (map inject_Z r) = zrowR r.
Proof. unfold rowR, zrowR. rewrite map_map. apply map_ext. exact Q2R_injZ. Qed.
Lemma zrowR_app a b : zrowR (a ++ b) = zrowR a ++ zrowR b.
Proof. apply map_app. Qed.
Lemma zrowR_length a : length (zrowR a) = length a.
Proof. apply map_length. Qed.

Lemma res_bordered G z x : Forall (fun g => length g = length x) G -> length z = length x ->
  res (bordered G z) (x ++ [-1]) =
  map (fun gz => dotR (zrowR (fst gz)) x - IZR (snd gz)) (combine G z) ++ [dotR (zrowR z) x].
Proof.
  intros HG Hz. unfold res, bordered. rewrite map_app, map_map. f_equal.
  - apply map_ext_in. intros [g zi] Hin. cbn [fst snd]. rewrite rowR_injZ, zrowR_app.
    rewrite dotR_app. { cbn. lra. }
    rewrite zrowR_length. rewrite Forall_forall in HG. apply HG. exact (in_combine_l _ _ _ _ Hin).
  - cbn [map]. rewrite rowR_injZ, zrowR_app, dotR_app by (rewrite zrowR_length; exact Hz). cbn. f_equal. lra.
Qed.

Lemma zeros_iff_solves x : forall G z, length G = length z ->
  (map (fun gz => dotR (zrowR (fst gz)) x - IZR (snd gz)) (combine G z) = repeat 0 (length z) <->
   Forall2 (fun g zi => dotR (zrowR g) x = IZR zi) G z).
Proof.
  induction G as [|g G IH]; intros [|zi z] H; cbn in H; try discriminate.
  - split; intros; [constructor|reflexivity].
  - cbn [combine map length repeat fst snd]. split.
    + intros E. injection E as E1 E2. constructor; [lra|]. apply IH; [lia|exact E2].
    + intros F. inversion F; subst. f_equal; [lra|]. apply IH; [lia|assumption].
Qed.

Lemma bordered_shaped G z m : Forall (fun g => length g = m) G -> length z = m -> shaped (S m) (bordered G z).
Proof.
  intros HG Hz. unfold shaped, bordered. apply Forall_app. split.
  - rewrite Forall_map. rewrite Forall_forall in *. intros [g zi] Hin. cbn [fst snd].
    rewrite map_length, app_length, (HG g (in_combine_l _ _ _ _ Hin)). cbn. lia.
  - constructor; [|constructor]. rewrite map_length, app_length. cbn. lia.
Qed.

Lemma gram_shape A d : length (gram A d) = d /\ Forall (fun g => length g = d) (gram A d).
Proof.
  unfold gram. split; [rewrite map_length; apply seq_length|]. rewrite Forall_map. apply Forall_forall. intros i _.
  rewrite map_length. apply seq_length.
Qed.

Lemma vsub_length a b : length (vsub a b) = Nat.min (length a) (length b).
Proof. unfold vsub. rewrite map_length. apply combine_length. Qed.

Lemma firstn_map_app {A} (l : list A) t n : n = length l -> firstn n (l ++ t) = l.
Proof. intros ->. rewrite firstn_app, Nat.sub_diag, firstn_all. cbn. apply app_nil_r. Qed.
Lemma skipn_map_app {A} (l : list A) t n : n = length l -> skipn n (l ++ t) = t.
Proof. intros ->. rewrite skipn_app, Nat.sub_diag, skipn_all. reflexivity. Qed.

(* the Gram matrix of the (k+1)-fold centred neighbourhood and the difference vector of the neighbour q *)
Definition Gm (d : nat) (p : point) (l : list point) : list (list Z) := gram (centred (p :: l) d) d.
Definition nn (l : list point) : Z := (Z.of_nat (S (length l)) * Z.of_nat (S (length l)))%Z.

(* ell_value = (k+1)^2 z^T G^-1 z: the system G x = z is solvable and EVERY solution gives the returned value *)
Theorem ell_value_spec d p l q v : length p = d -> length q = d -> ell_value d p l q = Some v ->
  (exists x, solves (Gm d p l) (vsub q p) x) /\
  (forall x, solves (Gm d p l) (vsub q p) x -> Q2R v = IZR (nn l) * dotR (zrowR (vsub q p)) x).
Proof.
  intros Hp Hq. unfold ell_value. cbv zeta. fold (Gm d p l). fold (bordered (Gm d p l) (vsub q p)).
  destruct (gram_shape (centred (p :: l) d) d) as [HGl HGs]. change (gram (centred (p :: l) d) d) with (Gm d p l) in HGl, HGs.
  match goal with |- context [(inject_Z ?a * - _)%Q] => set (c := inject_Z a) end.
  assert (Hc : Q2R c = IZR (nn l)) by (unfold c, nn; cbn [length]; apply Q2R_injZ). clearbody c.
  assert (Hz : length (vsub q p) = d) by (rewrite vsub_length; lia).
  set (G := Gm d p l) in *. set (z := vsub q p) in *.
  assert (Hsh : shaped (S d) (bordered G z)) by (apply bordered_shaped; assumption).
  destruct (elim d (bordered G z)) as [[|[|s [|? ?]] [|? ?]]|] eqn:E; try discriminate.
  intros Hv. injection Hv as <-.
  assert (Hcl : length (combine G z) = d) by (rewrite combine_length; lia).
  split.
  - destruct (elim_solvable d (bordered G z) [[s]] [-1] E) as [x [Hx H0]]; [cbn [length]; rewrite Nat.add_1_r; exact Hsh|].
    exists x. split; [lia|].
    rewrite res_bordered in H0 by first [lia | eapply Forall_impl; [|exact HGs]; cbn; intros; lia].
    rewrite firstn_map_app in H0 by (rewrite map_length; lia).
    apply zeros_iff_solves; [lia|]. rewrite Hz. exact H0.
  - intros x [Hx HF].
    assert (Hxd : length x = d) by lia.
    pose proof (elim_residuals d (bordered G z) [[s]] (x ++ [-1]) E) as H.
    rewrite app_length in H. cbn [length] in H. rewrite Nat.add_1_r, Hxd in H.
    specialize (H Hsh (Nat.le_succ_diag_r d)).
    rewrite res_bordered in H by first [lia | eapply Forall_impl; [|exact HGs]; cbn; intros; lia].
    rewrite firstn_map_app, !skipn_map_app in H by (try rewrite map_length; lia).
    assert (H0 : map (fun gz => dotR (zrowR (fst gz)) x - IZR (snd gz)) (combine G z) = repeat 0 d).
    { rewrite <- Hz. apply zeros_iff_solves; [lia|exact HF]. }
    specialize (H H0). cbn [res map rowR dotR] in H. injection H as H.
    rewrite Q2R_mult, Hc, Q2R_opp. rewrite <- H. lra.
Qed.

(* ---- the count ---------------------------------------------------------------------------------------- *)
(* the neighbour q lies inside the local ellipsoid:  z^T (Y^T Y)^-1 z <= 1  with Y = A / ((k+1) D), z_real = z / D,
   i.e. (k+1)^2 z^T G^-1 z <= 1, stated without an inverse: some solution x of G x = z has (k+1)^2 z.x <= 1 *)
Definition inside (d : nat) (p : point) (l : list point) (q : point) : Prop :=
  exists x, solves (Gm d p l) (vsub q p) x /\ IZR (nn l) * dotR (zrowR (vsub q p)) x <= 1.

Inductive counts (P : point -> Prop) : list point -> Z -> Prop :=
| counts_nil : counts P [] 0%Z
| counts_in q l n : P q -> counts P l n -> counts P (q :: l) (n + 1)%Z
| counts_out q l n : ~ P q -> counts P l n -> counts P (q :: l) n.

Lemma Qle_bool_R v : Qle_bool v 1 = true <-> Q2R v <= 1.
Proof.
  rewrite Qle_bool_iff. replace 1 with (Q2R 1) by (unfold Q2R; cbn; lra). split; [apply Qle_Rle|apply Rle_Qle].
Qed.

Lemma inside_iff d p l q v : length p = d -> length q = d -> ell_value d p l q = Some v ->
  (inside d p l q <-> Qle_bool v 1 = true).
Proof.
  intros Hp Hq E. destruct (ell_value_spec d p l q v Hp Hq E) as [[x Hx] Hu]. rewrite Qle_bool_R. split.
  - intros [x' [Hs Hle]]. rewrite (Hu x' Hs). exact Hle.
  - intros Hle. exists x. split; [exact Hx|]. rewrite <- (Hu x Hx). exact Hle.
Qed.

Definition count_step (d : nat) (p : point) (l : list point) (q : point) (acc : option Z) : option Z :=
  match acc, ell_value d p l q with
  | Some n, Some v => Some (if Qle_bool v 1 then n + 1 else n)%Z
  | _, _ => None
  end.

Lemma count_fold_spec d p l : length p = d -> forall l' n, Forall (fun q => length q = d) l' ->
  fold_right (count_step d p l) (Some 0%Z) l' = Some n -> counts (inside d p l) l' n.
Proof.
  intros Hp. induction l' as [|q l' IH]; intros n HF E.
  - cbn in E. injection E as <-. constructor.
  - pose proof (Forall_inv HF) as Hq; pose proof (Forall_inv_tail HF) as HF'; cbv beta in Hq. cbn [fold_right] in E. unfold count_step at 1 in E.
    destruct (fold_right (count_step d p l) (Some 0%Z) l') as [m|] eqn:Em; [|discriminate].
    destruct (ell_value d p l q) as [v|] eqn:Ev; [|discriminate].
    pose proof (inside_iff d p l q v Hp Hq Ev) as Hi.
    destruct (Qle_bool v 1) eqn:Eb; injection E as <-.
    + apply counts_in; [apply Hi; reflexivity|apply IH; [exact HF'|reflexivity]].
    + apply counts_out; [intros Hin; apply Hi in Hin; discriminate|apply IH; [exact HF'|reflexivity]].
Qed.

(* SPECIFICATION OF THE COUNT (k >= d: the branch that computes): ins_exact returns the number of neighbours inside
   the local ellipsoid, for every dimension, neighbourhood size and data *)
Theorem ins_exact_spec d (p : point) (l : list point) n : (d <= length l)%nat -> length p = d -> Forall (fun q => length q = d) l ->
  ins_exact d p l = Some n -> counts (inside d p l) l n.
Proof.
  intros Hd Hp HF. unfold ins_exact. destruct (Nat.ltb _ _) eqn:El; [apply Nat.ltb_lt in El; lia|].
  apply count_fold_spec; assumption.
Qed.

(* and every neighbour's system G x = z was solvable with a value independent of the solution (G non-singular on it) *)
Theorem ins_exact_defined d (p : point) (l : list point) n : (d <= length l)%nat -> length p = d -> Forall (fun q => length q = d) l ->
  ins_exact d p l = Some n ->
  forall q, In q l -> exists v, ell_value d p l q = Some v /\
    (exists x, solves (Gm d p l) (vsub q p) x) /\
    (forall x, solves (Gm d p l) (vsub q p) x -> Q2R v = IZR (nn l) * dotR (zrowR (vsub q p)) x).
Proof.
  intros Hd Hp HF. unfold ins_exact. destruct (Nat.ltb _ _) eqn:El; [apply Nat.ltb_lt in El; lia|]. clear El Hd.
  fold (count_step d p l). revert n HF. generalize l at 1 3 4 as l'.
  induction l' as [|q' l' IH]; intros n HF E q Hin; [destruct Hin|].
  pose proof (Forall_inv HF) as Hq; pose proof (Forall_inv_tail HF) as HF'; cbv beta in Hq. cbn [fold_right] in E. unfold count_step at 1 in E.
  destruct (fold_right (count_step d p l) (Some 0%Z) l') as [m|] eqn:Em; [|discriminate].
  destruct (ell_value d p l q') as [v|] eqn:Ev; [|discriminate].
  destruct Hin as [<-|Hin].
  - exists v. split; [exact Ev|]. apply ell_value_spec; assumption.
  - exact (IH m HF' eq_refl q Hin).
Qed.

(* k < d: the function returns 0 without computing.  (Justification, proved for abstract matrices over any field of
   characteristic not dividing k+1 in GeoRankMx.v: a centred neighbourhood of rank k has quadratic form exactly 2 > 1
   for every neighbour -- theorem rank_k_quadratic_form_is_2.) *)
Theorem ins_exact_rank_deficient d (p : point) (l : list point) : (length l < d)%nat -> ins_exact d p l = Some 0%Z.
Proof. intros H. unfold ins_exact. apply Nat.ltb_lt in H. rewrite H. reflexivity. Qed.

(* ---- the implementation's form of the test: a sum over singular vectors ----------------------------------
   hyperellipsoid_check((U, S, Vt), z) = sum_l ((z . Vt[l]) / S[l])^2.  The right singular vectors and squared singular
   values of Y are eigenpairs of Y^T Y = G / ((k+1)^2 D^2); they are irrational in general and enter as HYPOTHESES
   (eigen-equations, and the resolution z = sum_l (z . v_l) v_l that an orthonormal basis provides). *)
Definition vscale (c : R) (v : list R) : list R := map (Rmult c) v.
Fixpoint vaddR (a b : list R) : list R := match a, b with x :: a', y :: b' => (x + y) :: vaddR a' b' | _, _ => [] end.
Definition lincomb (d : nat) (cvs : list (R * list R)) : list R :=
  fold_right (fun cv acc => vaddR (vscale (fst cv) (snd cv)) acc) (repeat 0 d) cvs.
Definition matvec (G : list (list Z)) (v : list R) : list R := map (fun g => dotR (zrowR g) v) G.

Lemma dotR_vadd : forall g a b, length a = length g -> length b = length g -> dotR g (vaddR a b) = dotR g a + dotR g b.
Proof. induction g as [|g0 g IH]; intros [|a0 a] [|b0 b] Ha Hb; cbn in Ha, Hb; try discriminate; cbn [vaddR dotR]; [lra|]. rewrite IH by lia. lra. Qed.
Lemma dotR_vscale c : forall g v, dotR g (vscale c v) = c * dotR g v.
Proof. induction g as [|g0 g IH]; intros [|v0 v]; cbn [vscale map dotR]; try lra. fold (vscale c v). rewrite IH. lra. Qed.
Lemma dotR_zeros : forall g d, dotR g (repeat 0 d) = 0.
Proof. induction g as [|g0 g IH]; intros [|d]; cbn [repeat dotR]; try lra. rewrite IH. lra. Qed.
Lemma vadd_length : forall a b, length a = length b -> length (vaddR a b) = length a.
Proof. induction a as [|a0 a IH]; intros [|b0 b] H; cbn in H; try discriminate; cbn; [reflexivity|]. rewrite IH by lia. reflexivity. Qed.
Lemma vscale_length c v : length (vscale c v) = length v.
Proof. apply map_length. Qed.
Lemma lincomb_length d cvs : Forall (fun cv => length (snd cv) = d) cvs -> length (lincomb d cvs) = d.
Proof.
  induction cvs as [|cv cvs IH]; intros H; cbn [lincomb fold_right]; [apply repeat_length|].
  fold (lincomb d cvs). pose proof (Forall_inv H) as H1. pose proof (Forall_inv_tail H) as H2. cbv beta in H1.
  rewrite vadd_length; rewrite vscale_length; [exact H1|rewrite IH by exact H2; exact H1].
Qed.

Lemma dotR_lincomb g d cvs : length g = d -> Forall (fun cv => length (snd cv) = d) cvs ->
  dotR g (lincomb d cvs) = Rsum (map (fun cv => fst cv * dotR g (snd cv)) cvs).
Proof.
  intros Hg. induction cvs as [|cv cvs IH]; intros H; cbn [lincomb fold_right map Rsum]; [apply dotR_zeros|].
  fold (lincomb d cvs). pose proof (Forall_inv H) as H1. pose proof (Forall_inv_tail H) as H2. cbv beta in H1.
  rewrite dotR_vadd, dotR_vscale, IH; [reflexivity|exact H2|rewrite vscale_length; lia|rewrite lincomb_length by exact H2; lia].
Qed.

Lemma solves_matvec G z x : length x = length z -> length G = length z -> (solves G z x <-> matvec G x = zrowR z).
Proof.
  intros Hx HG. unfold solves, matvec, zrowR. split.
  - intros [_ F]. clear Hx. revert z HG F. induction G as [|g G IH]; intros [|zi z] HG F; cbn in HG; try discriminate; [reflexivity|].
    inversion F; subst. cbn [map]. f_equal; [assumption|]. apply IH; [lia|assumption].
  - intros E. split; [exact Hx|]. clear Hx. revert z HG E. induction G as [|g G IH]; intros [|zi z] HG E; cbn in HG; try discriminate; [constructor|].
    cbn [map] in E. injection E as E1 E2. constructor; [exact E1|]. apply IH; [lia|exact E2].
Qed.

Lemma nth_vadd i : forall a b, length a = length b -> nth i (vaddR a b) 0 = nth i a 0 + nth i b 0.
Proof. induction i as [|i IH]; intros [|a0 a] [|b0 b] H; cbn in H; try discriminate; cbn [vaddR nth]; try lra. apply IH. lia. Qed.
Lemma nth_vscale c i v : nth i (vscale c v) 0 = c * nth i v 0.
Proof. unfold vscale. replace 0 with (c * 0) at 1 by lra. apply map_nth. Qed.
Lemma nth_zeros i d : nth i (repeat 0 d) 0 = 0.
Proof. revert i. induction d as [|d IH]; intros [|i]; cbn; try reflexivity. apply IH. Qed.
Lemma nth_lincomb i d cvs : Forall (fun cv => length (snd cv) = d) cvs ->
  nth i (lincomb d cvs) 0 = Rsum (map (fun cv => fst cv * nth i (snd cv) 0) cvs).
Proof.
  induction cvs as [|cv cvs IH]; intros H; cbn [lincomb fold_right map Rsum]; [apply nth_zeros|].
  fold (lincomb d cvs). pose proof (Forall_inv H) as H1. pose proof (Forall_inv_tail H) as H2. cbv beta in H1.
  rewrite nth_vadd, nth_vscale, IH; [reflexivity|exact H2|rewrite vscale_length, lincomb_length by exact H2; exact H1].
Qed.
Lemma nth_matvec i G v : (i < length G)%nat -> nth i (matvec G v) 0 = dotR (zrowR (nth i G [])) v.
Proof.
  intros H. unfold matvec. rewrite (nth_indep _ 0 (dotR (zrowR []) v)) by (rewrite map_length; exact H).
  exact (map_nth (fun g => dotR (zrowR g) v) G [] i).
Qed.
Lemma list_eq_nth (a b : list R) : length a = length b -> (forall i, (i < length a)%nat -> nth i a 0 = nth i b 0) -> a = b.
Proof.
  revert b. induction a as [|a0 a IH]; intros [|b0 b] H Hn; cbn in H; try discriminate; [reflexivity|].
  f_equal; [exact (Hn 0%nat (Nat.lt_0_succ _))|]. apply IH; [lia|]. intros i Hi. apply (Hn (S i)). cbn. lia.
Qed.

(* eigenpair (v, lam) of the integer Gram matrix G:  G v = lam v,  lam <> 0,  v of length d *)
Definition eigenpair (d : nat) (G : list (list Z)) (e : list R * R) : Prop :=
  length (fst e) = d /\ snd e <> 0 /\ matvec G (fst e) = vscale (snd e) (fst e).

Theorem eigen_sum_is_quadratic_form d (G : list (list Z)) (z : list Z) (E : list (list R * R)) :
  length G = d -> Forall (fun g => length g = d) G -> length z = d ->
  Forall (eigenpair d G) E ->
  zrowR z = lincomb d (map (fun e => (dotR (zrowR z) (fst e), fst e)) E) ->            (* z = sum_l (z . v_l) v_l *)
  let x := lincomb d (map (fun e => (dotR (zrowR z) (fst e) / snd e, fst e)) E) in
  solves G z x /\ dotR (zrowR z) x = Rsum (map (fun e => dotR (zrowR z) (fst e) * dotR (zrowR z) (fst e) / snd e) E).
Proof.
  intros HGl HG Hz HE Hres x.
  assert (Hcv : forall f : list R * R -> R, Forall (fun cv : R * list R => length (snd cv) = d) (map (fun e => (f e, fst e)) E)).
  { intros f. rewrite Forall_map. eapply Forall_impl; [|exact HE]. intros e [H _]. exact H. }
  assert (Hx : length x = d) by (apply lincomb_length, Hcv).
  split.
  - apply solves_matvec; [lia|lia|]. rewrite Hres.
    apply list_eq_nth.
    + unfold matvec. rewrite map_length, lincomb_length by apply Hcv. exact HGl.
    + intros i Hi. unfold matvec in Hi. rewrite map_length in Hi.
      rewrite nth_matvec by exact Hi. unfold x. rewrite dotR_lincomb; [|rewrite zrowR_length; rewrite Forall_forall in HG; apply HG, nth_In; exact Hi|apply Hcv].
      rewrite nth_lincomb by apply Hcv. rewrite !map_map. cbn [fst snd].
      apply Rsum_ext. intros e He. rewrite Forall_forall in HE. destruct (HE e He) as [Hl [Hn Hm]].
      rewrite <- nth_matvec by exact Hi. rewrite Hm, nth_vscale. field. exact Hn.
  - unfold x. rewrite dotR_lincomb; [|rewrite zrowR_length; exact Hz|apply Hcv]. rewrite map_map. cbn [fst snd].
    apply Rsum_ext. intros e He. rewrite Forall_forall in HE. destruct (HE e He) as [_ [Hn _]]. field. exact Hn.
Qed.

(* the implementation's sum with z_real = z / D and the singular pairs (v_l, sigma_l) of Y = A / ((k+1) D):
   sigma_l^2 is an eigenvalue of Y^T Y = G / ((k+1)^2 D^2), i.e. (k+1)^2 D^2 sigma_l^2 one of G *)
Definition hyper_sum (D : Z) (z : list Z) (S : list (list R * R)) : R :=
  Rsum (map (fun vs => (dotR (map (fun a => IZR a / IZR D) z) (fst vs) / snd vs) * (dotR (map (fun a => IZR a / IZR D) z) (fst vs) / snd vs)) S).
Definition as_eigen (c : R) (S : list (list R * R)) : list (list R * R) := map (fun vs => (fst vs, c * (snd vs * snd vs))) S.

Lemma dotR_div D : forall z v, dotR (map (fun a => IZR a / IZR D) z) v = dotR (zrowR z) v / IZR D.
Proof. induction z as [|a z IH]; intros [|y v]; cbn [map zrowR dotR]; try (unfold Rdiv; lra). fold (zrowR z). rewrite IH. unfold Rdiv. lra. Qed.

Lemma hyper_sum_eq n D z (S : list (list R * R)) : 0 < n -> 0 < IZR D -> Forall (fun vs => 0 < snd vs) S ->
  n * Rsum (map (fun vs => dotR (zrowR z) (fst vs) * dotR (zrowR z) (fst vs) / (n * (IZR D * IZR D) * (snd vs * snd vs))) S) = hyper_sum D z S.
Proof.
  intros Hn HD. unfold hyper_sum. induction S as [|vs S IH]; intros Hpos; cbn [map Rsum fold_right]; [lra|].
  pose proof (Forall_inv Hpos) as H1. cbv beta in H1.
  rewrite Rmult_plus_distr_l. f_equal; [|exact (IH (Forall_inv_tail Hpos))].
  rewrite dotR_div. field. split; [|split]; lra.
Qed.

(* general d: GIVEN singular pairs of the centred neighbourhood that resolve z, the sum the implementation compares with 1
   IS the rational number ell_value returns, so the implementation's test and the model's test coincide *)
Theorem hyperellipsoid_sum_is_ell_value d D (p : point) (l : list point) (q : point) val (S : list (list R * R)) :
  (0 < D)%Z -> length p = d -> length q = d -> ell_value d p l q = Some val ->
  Forall (fun vs => 0 < snd vs) S ->
  Forall (eigenpair d (Gm d p l)) (as_eigen (IZR (nn l) * IZR (D * D)) S) ->
  zrowR (vsub q p) = lincomb d (map (fun vs => (dotR (zrowR (vsub q p)) (fst vs), fst vs)) S) ->
  hyper_sum D (vsub q p) S = Q2R val /\ (hyper_sum D (vsub q p) S <= 1 <-> inside d p l q).
Proof.
  intros HD Hp Hq Ev Hpos HE Hres.
  destruct (gram_shape (centred (p :: l) d) d) as [HGl HGs]. change (gram (centred (p :: l) d) d) with (Gm d p l) in HGl, HGs.
  assert (Hz : length (vsub q p) = d) by (rewrite vsub_length; lia).
  set (z := vsub q p) in *.
  assert (Hres' : zrowR z = lincomb d (map (fun e => (dotR (zrowR z) (fst e), fst e)) (as_eigen (IZR (nn l) * IZR (D * D)) S))).
  { unfold as_eigen. rewrite map_map. exact Hres. }
  destruct (eigen_sum_is_quadratic_form d (Gm d p l) z _ HGl HGs Hz HE Hres') as [Hs Hv].
  destruct (ell_value_spec d p l q val Hp Hq Ev) as [_ Hu]. fold z in Hu.
  assert (Hval : hyper_sum D z S = Q2R val).
  { rewrite (Hu _ Hs), Hv. unfold as_eigen. rewrite map_map. cbn [fst snd]. rewrite mult_IZR.
    symmetry. apply hyper_sum_eq; [apply IZR_lt; unfold nn; lia|apply IZR_lt; exact HD|exact Hpos]. }
  split; [exact Hval|]. rewrite Hval, <- Qle_bool_R. symmetry. apply inside_iff; assumption.
Qed.

(* ---- instances: the hypotheses are satisfiable ------------------------------------------------------------ *)
(* a neighbourhood whose Gram matrix is diagonal (rational singular vectors): p = origin, neighbours (+-1, 0), (0, +-2);
   Y^T Y = diag(2, 8), singular values sqrt 2 and sqrt 8 -- entered here through their squares' roots as hypotheses-free
   data would need sqrt; we use the scale D = 1 and the pairs (e_1, sqrt 2), (e_2, sqrt 8) *)
Definition ex_p : point := [0; 0]%Z.
Definition ex_l : list point := [[1; 0]; [-1; 0]; [0; 2]; [0; -2]]%Z.
Example ex_ins : ins_exact 2 ex_p ex_l = Some 4%Z.
Proof. vm_compute. reflexivity. Qed.
Example ex_count : counts (inside 2 ex_p ex_l) ex_l 4.
Proof. apply ins_exact_spec; [cbn; lia|reflexivity|repeat constructor|exact ex_ins]. Qed.
(* a neighbourhood in general position, two of four neighbours inside (values 0.09, 0.15, 1.46, 1.10), and one in d = 3 *)
Definition ex_l2 : list point := [[1; 0]; [0; 1]; [7; 6]; [-1; 2]]%Z.
Example ex_count2 : counts (inside 2 ex_p ex_l2) ex_l2 2.
Proof. apply ins_exact_spec; [cbn; lia|reflexivity|repeat constructor|vm_compute; reflexivity]. Qed.
Example ex_count3 : counts (inside 3 [0; 0; 0]%Z [[1; 0; 2]; [0; 1; 1]; [7; 6; -3]; [-1; 2; 0]; [2; 2; 5]]%Z)
                           [[1; 0; 2]; [0; 1; 1]; [7; 6; -3]; [-1; 2; 0]; [2; 2; 5]]%Z 2.
Proof. apply ins_exact_spec; [cbn; lia|reflexivity|repeat constructor|vm_compute; reflexivity]. Qed.
Example ex_value : exists v, ell_value 2 ex_p ex_l [1; 0]%Z = Some v /\ Q2R v = / 2.
Proof. eexists. split; [vm_compute; reflexivity|]. unfold Q2R. cbn. lra. Qed.
Example ex_svd_instance :
  let S := [([1; 0], sqrt 2); ([0; 1], sqrt 8)] in
  Forall (fun vs => 0 < snd vs) S /\
  Forall (eigenpair 2 (Gm 2 ex_p ex_l)) (as_eigen (IZR (nn ex_l) * IZR (1 * 1)) S) /\
  zrowR (vsub [1; 0]%Z ex_p) = lincomb 2 (map (fun vs => (dotR (zrowR (vsub [1; 0]%Z ex_p)) (fst vs), fst vs)) S) /\
  hyper_sum 1 (vsub [1; 0]%Z ex_p) S = / 2.
Proof.
  assert (H2 : sqrt 2 * sqrt 2 = 2) by (apply sqrt_sqrt; lra).
  assert (H8 : sqrt 8 * sqrt 8 = 8) by (apply sqrt_sqrt; lra).
  assert (P2 : 0 < sqrt 2) by (apply sqrt_lt_R0; lra).
  assert (P8 : 0 < sqrt 8) by (apply sqrt_lt_R0; lra).
  assert (HG : Gm 2 ex_p ex_l = [[50; 0]; [0; 200]]%Z) by (vm_compute; reflexivity).
  cbv zeta. split; [repeat constructor; assumption|]. split; [|split].
  - unfold as_eigen. cbn [map fst snd]. rewrite HG. replace (IZR (nn ex_l)) with 25 by (vm_compute; lra). change (1 * 1)%Z with 1%Z.
    apply Forall_cons; [|apply Forall_cons; [|apply Forall_nil]]; unfold eigenpair; cbn [fst snd]; (split; [reflexivity|split; [rewrite ?H2, ?H8; lra|]]);
      unfold matvec, vscale, zrowR; cbn [map dotR]; rewrite ?H2, ?H8; (f_equal; [|f_equal]); lra.
  - cbn. (f_equal; [|f_equal]); lra.
  - unfold hyper_sum. cbn.
    replace ((1 / 1 * 1 + (0 / 1 * 0 + 0)) / sqrt 2 * ((1 / 1 * 1 + (0 / 1 * 0 + 0)) / sqrt 2)) with (/ (sqrt 2 * sqrt 2)) by (field; lra).
    rewrite H2. field. lra.
Qed.

(* ---- rank: the row of ones annihilates the centred neighbourhood (list level) --------------------------------
   The executable [centred] of Model/GeoEllipsoid.v has all column sums zero, for every neighbourhood and dimension: the list
   counterpart of GeoRankMx.ones_centre (there for abstract matrices over any field of characteristic not dividing k+1;
   here over Z for (k+1) x the centred points, so no division occurs). *)
Close Scope R_scope.
Open Scope Z_scope.
Definition zsum (l : list Z) : Z := fold_right Z.add 0 l.
Definition col (j : nat) (A : list (list Z)) : list Z := map (fun r => nth j r 0) A.

Lemma nth_vaddZ j : forall a b, length a = length b -> nth j (vadd a b) 0 = nth j a 0 + nth j b 0.
Proof.
  unfold vadd. induction j as [|j IH]; intros [|a0 a] [|b0 b] H; cbn in H; try discriminate; cbn [combine map nth fst snd]; try lia.
  apply IH. lia.
Qed.
Lemma nth_vsubZ j : forall a b, length a = length b -> nth j (vsub a b) 0 = nth j a 0 - nth j b 0.
Proof.
  unfold vsub. induction j as [|j IH]; intros [|a0 a] [|b0 b] H; cbn in H; try discriminate; cbn [combine map nth fst snd]; try lia.
  apply IH. lia.
Qed.
Lemma vaddZ_length a b : length a = length b -> length (vadd a b) = length a.
Proof. intros H. unfold vadd. rewrite map_length, combine_length. lia. Qed.
Lemma nth_repeat0 j d : nth j (repeat 0 d) 0 = 0.
Proof. revert j. induction d as [|d IH]; intros [|j]; cbn; try reflexivity. apply IH. Qed.

Lemma fold_vadd_length d (vs : list (list Z)) : Forall (fun v => length v = d) vs -> length (fold_right vadd (repeat 0 d) vs) = d.
Proof.
  induction vs as [|v vs IH]; intros H; cbn [fold_right]; [apply repeat_length|].
  pose proof (Forall_inv H) as H1. cbv beta in H1. rewrite vaddZ_length; [exact H1|]. rewrite IH by exact (Forall_inv_tail H). exact H1.
Qed.
Lemma nth_fold_vadd j d (vs : list (list Z)) : Forall (fun v => length v = d) vs ->
  nth j (fold_right vadd (repeat 0 d) vs) 0 = zsum (map (fun v => nth j v 0) vs).
Proof.
  induction vs as [|v vs IH]; intros H; cbn [fold_right map zsum]; [apply nth_repeat0|].
  pose proof (Forall_inv H) as H1. cbv beta in H1. pose proof (Forall_inv_tail H) as H2.
  rewrite nth_vaddZ by (rewrite fold_vadd_length by exact H2; exact H1). rewrite IH by exact H2. reflexivity.
Qed.
Lemma zsum_sub_const {A} (f : A -> Z) c (l : list A) : zsum (map (fun r => c - f r) l) = Z.of_nat (length l) * c - zsum (map f l).
Proof. unfold zsum. induction l as [|a l IH]; cbn [map fold_right length]; [lia|]. rewrite IH, Nat2Z.inj_succ. lia. Qed.
Lemma zsum_lin {A} (f : A -> Z) (n s : Z) (l : list A) : zsum (map (fun p => n * f p - s) l) = n * zsum (map f l) - Z.of_nat (length l) * s.
Proof. unfold zsum. induction l as [|a l IH]; cbn [map fold_right length]; [lia|]. rewrite IH, Nat2Z.inj_succ. lia. Qed.

Theorem centred_entry (nb : list point) d j (p : point) : Forall (fun q => length q = d) nb -> length p = d ->
  nth j (fold_right vadd (repeat 0 d) (map (vsub p) nb)) 0 = Z.of_nat (length nb) * nth j p 0 - zsum (map (fun r => nth j r 0) nb).
Proof.
  intros H Hp. rewrite nth_fold_vadd.
  - rewrite map_map. rewrite (map_ext_in (fun r => nth j (vsub p r) 0) (fun r => nth j p 0 - nth j r 0)).
    + apply zsum_sub_const.
    + intros r Hr. apply nth_vsubZ. rewrite Forall_forall in H. rewrite (H r Hr). exact Hp.
  - rewrite Forall_map. eapply Forall_impl; [|exact H]. intros r Hr. cbv beta in Hr. rewrite vsub_length. lia.
Qed.

(* every column of the (k+1)-fold centred neighbourhood sums to zero: ones^T A = 0 *)
Theorem centred_colsum_zero (nb : list point) d j : Forall (fun q => length q = d) nb -> zsum (col j (centred nb d)) = 0.
Proof.
  intros H. unfold col, centred. rewrite map_map.
  rewrite (map_ext_in _ (fun p => Z.of_nat (length nb) * nth j p 0 - zsum (map (fun r => nth j r 0) nb))).
  - rewrite zsum_lin. apply Z.sub_diag.
  - intros p Hp. apply centred_entry; [exact H|]. rewrite Forall_forall in H. exact (H p Hp).
Qed.

(* so the first conjunct of Model/GeoRank.rank_one holds for every well-shaped neighbourhood *)
Theorem colsums0_centred (nb : list point) d : Forall (fun q => length q = d) nb -> colsums0 (centred nb d) d = true.
Proof.
  intros H. unfold colsums0. apply forallb_forall. intros j _. apply Z.eqb_eq. exact (centred_colsum_zero nb d j H).
Qed.
