From Coq Require Import ZArith List Lia Bool ZifyBool Permutation Sorting Arith.
From CE Require Import Model.ShuffleTest Proofs.ShuffleTestProofs Model.Selection Proofs.SelectionProofs Model.Noise.
Import ListNotations.
Open Scope Z_scope.

(* ---------- a strict pass leaves at most n-1-lo surrogates >= observed ------------------- *)
Lemma strict_pass_count_sorted a b obs s : 0 < a < b -> (2 <= length s)%nat -> StronglySorted Z.le s ->
  pass_strict a b obs s = true -> (cge obs s + Z.to_nat (lo_idx a b (len s)) + 1 <= length s)%nat.
Proof.
  intros Hab Hn Hs Hp.
  pose proof (facts a b s Hab Hn Hs) as F. cbv zeta in F.
  destruct F as (Hn2 & Hlo & Hr & Hdiv & Hle & _ & Ht).
  unfold pass_strict in Hp. rewrite Ht in Hp. apply Z.ltb_lt in Hp.
  unfold lo_idx.
  set (lo := ((len s - 1) * (b - a)) / b) in *.
  set (r := ((len s - 1) * (b - a)) mod b) in *.
  set (vlo := nth (Z.to_nat lo) s 0) in *.
  set (vhi := nth (Z.to_nat (lo + 1)) s vlo) in *.
  assert (Hv : vlo < obs) by nia.
  pose proof (count_below obs s Hs (Z.to_nat lo) ltac:(unfold len in *; lia) Hv) as Hc.
  lia.
Qed.

Theorem strict_pass_count a b obs nulls : 0 < a < b -> (2 <= length nulls)%nat ->
  verdict true a b obs nulls = true ->
  (cge obs nulls + Z.to_nat (lo_idx a b (len nulls)) + 1 <= length nulls)%nat.
Proof.
  intros Hab Hn Hp. cbn [verdict] in Hp.
  pose proof (strict_pass_count_sorted a b obs (ZSort.sort nulls) Hab) as K.
  rewrite sort_length in K. specialize (K Hn (sort_sorted nulls) Hp).
  unfold len in *. rewrite sort_length in K. rewrite (cge_perm obs _ _ (sort_perm nulls)). exact K.
Qed.

Lemma lo_idx_range a b n : 0 < a < b -> 1 <= n -> 0 <= lo_idx a b n <= n - 1.
Proof.
  intros Hab Hn. unfold lo_idx. split.
  - apply Z.div_pos; nia.
  - apply Z.div_le_upper_bound; nia.
Qed.

(* the same, as a statement about the p-value's numerator *)
Corollary strict_pass_count_Z a b obs nulls : 0 < a < b -> (2 <= length nulls)%nat ->
  verdict true a b obs nulls = true -> count_ge obs nulls <= max_ge a b (len nulls).
Proof.
  intros Hab Hn Hp. pose proof (strict_pass_count a b obs nulls Hab Hn Hp) as K.
  pose proof (lo_idx_range a b (len nulls) Hab ltac:(unfold len; lia)).
  unfold count_ge, max_ge, len in *. lia.
Qed.

(* ---------- when is the exact size (n-lo)/(n+1) within the stated alpha + 1/n ? ---------- *)
(* exactly when the fractional part of (n-1)(1-alpha) is at most 2 alpha + 1/n *)
Theorem regime_iff a b n : 0 < a < b -> 1 <= n ->
  regime a b n = true <-> (((n - 1) * (b - a)) mod b) * n <= 2 * a * n + b.
Proof.
  intros Hab Hn. unfold regime, lo_idx.
  pose proof (Z.div_mod ((n - 1) * (b - a)) b ltac:(lia)) as Hdiv.
  set (lo := ((n - 1) * (b - a)) / b) in *. set (r := ((n - 1) * (b - a)) mod b) in *.
  assert (E : (n - lo) * b = n * a + b - a + r) by nia.
  assert (E2 : (n - lo) * n * b = n * (n * a + b - a + r)) by (rewrite <- E; ring).
  rewrite Z.leb_le, E2. split; intros H; nia.
Qed.

Corollary regime_alpha_ge_half a b n : 0 < a < b -> b <= 2 * a -> 1 <= n -> regime a b n = true.
Proof.
  intros Hab H2 Hn. apply regime_iff; try assumption.
  pose proof (Z.mod_pos_bound ((n - 1) * (b - a)) b ltac:(lia)). nia.
Qed.

Corollary regime_integral_position a b n : 0 < a < b -> 1 <= n -> ((n - 1) * (b - a)) mod b = 0 -> regime a b n = true.
Proof. intros Hab Hn H0. apply regime_iff; try assumption. rewrite H0. nia. Qed.

(* the library defaults alpha = 0.05, n_shuffles = 200 are inside the regime; so are the
   settings of the measured part (n = 19, alpha in {0.05, 0.1, 0.2}) *)
Example regime_defaults : regime 1 20 200 = true /\ bound_num 1 20 200 = 11.
Proof. vm_compute. split; reflexivity. Qed.
Example regime_measured : regime 1 20 19 = true /\ regime 1 10 19 = true /\ regime 1 5 19 = true
  /\ bound_num 1 20 19 = 2 /\ bound_num 1 10 19 = 3 /\ bound_num 1 5 19 = 5.
Proof. vm_compute. repeat split; reflexivity. Qed.
(* ... and alpha = 0.05, n = 50 is not: the exact size 4/51 exceeds 0.05 + 1/50 *)
Example regime_fails_050_50 : regime 1 20 50 = false /\ bound_num 1 20 50 = 4.
Proof. vm_compute. split; reflexivity. Qed.

(* arithmetic step from the counting bound to the stated bound, inside the regime *)
Lemma stated_from_counting a b n P M : 0 < a < b -> 1 <= n -> 0 <= P -> 0 <= M ->
  regime a b n = true -> P * (n + 1) <= bound_num a b n * M -> P * b * n <= (a * n + b) * M.
Proof.
  intros Hab Hn HP HM Hreg Hc. unfold regime, bound_num in *. apply Z.leb_le in Hreg.
  set (k := n - lo_idx a b n) in *.
  assert (H1 : P * (n + 1) * (n * b) <= k * M * (n * b)) by (apply Z.mul_le_mono_nonneg_r; nia).
  assert (H2 : k * n * b * M <= (a * n + b) * (n + 1) * M) by (apply Z.mul_le_mono_nonneg_r; nia).
  assert (H3 : (P * b * n) * (n + 1) <= ((a * n + b) * M) * (n + 1)) by nia.
  apply Z.mul_le_mono_pos_r in H3; lia.
Qed.

(* ---------- the floor at 0 turns non-positive estimates into exact ties ------------------- *)
Lemma clamp0_nonpos v : v <= 0 -> clamp0 v = 0.
Proof. unfold clamp0. lia. Qed.
Lemma clamp0_ties obs raw : obs <= 0 -> Forall (fun v => v <= 0) raw ->
  forall v, In v (map clamp0 raw) -> v = clamp0 obs.
Proof.
  intros Ho H v Hv. rewrite (clamp0_nonpos obs Ho). apply in_map_iff in Hv. destruct Hv as (w & <- & Hw).
  rewrite Forall_forall in H. apply clamp0_nonpos, H, Hw.
Qed.

(* ---------- verdict on a null tied with the observed value ---------------------------------- *)
Lemma verdict_all_tied_strict a b obs nulls : 0 < a < b -> (2 <= length nulls)%nat ->
  (forall v, In v nulls -> v = obs) -> verdict true a b obs nulls = false.
Proof. intros Hab Hn Hall. exact (proj1 (model_all_tied a b obs nulls Hab Hn Hall)). Qed.

Lemma verdict_all_tied_weak a b obs nulls : 0 < a < b -> (2 <= length nulls)%nat ->
  (forall v, In v nulls -> v = obs) -> verdict false a b obs nulls = true.
Proof.
  intros Hab Hn Hall. cbn [verdict].
  set (s := ZSort.sort nulls).
  assert (Hn' : (2 <= length s)%nat) by (unfold s; rewrite sort_length; exact Hn).
  assert (Hall' : forall v, In v s -> v = obs).
  { intros v Hv. apply Hall. eapply Permutation_in; [apply Permutation_sym, sort_perm|exact Hv]. }
  pose proof (facts a b s Hab Hn' (sort_sorted nulls)) as F. cbv zeta in F.
  destruct F as (Hn2 & Hlo & Hr & Hdiv & Hle & Hlast & Ht).
  unfold pass_weak. rewrite Ht. apply Z.leb_le.
  set (lo := ((len s - 1) * (b - a)) / b) in *.
  set (vlo := nth (Z.to_nat lo) s 0) in *.
  set (vhi := nth (Z.to_nat (lo + 1)) s vlo) in *.
  assert (E1 : vlo = obs) by (apply Hall', nth_In; unfold len in *; lia).
  assert (E2 : vhi = obs).
  { unfold vhi. destruct (Z.eq_dec lo (len s - 1)) as [E|E].
    - rewrite nth_overflow; [exact E1|]. unfold len in *; lia.
    - apply Hall'. rewrite (nth_indep s vlo 0) by (unfold len in *; lia). apply nth_In. unfold len in *; lia. }
  rewrite E1, E2. nia.
Qed.

(* ---------- selection when every test rejects / every test accepts ----------------------- *)
Section Sel.
Variable f : nat -> list nat -> Z.
Variable gF gB : nat -> list nat -> bool.
Variable init : list nat.

Lemma std_fwd_all_reject : (forall j Zs, gF j Zs = false) ->
  forall fuel cands S, std_fwd f gF init fuel cands S = S.
Proof.
  intros Hg. induction fuel as [|fuel IH]; intros cands S; [reflexivity|].
  cbn [std_fwd]. destruct cands as [|c cs]; [reflexivity|]. rewrite Hg. apply IH.
Qed.

Lemma alt_fwd_all_reject : (forall j Zs, gF j Zs = false) ->
  forall fuel cands S, alt_fwd f gF init fuel cands S = S.
Proof.
  intros Hg. destruct fuel as [|fuel]; intros cands S; [reflexivity|].
  cbn [alt_fwd]. destruct cands as [|c cs]; [reflexivity|]. rewrite Hg. reflexivity.
Qed.

Lemma bwd_nil order : bwd gB order [] = [].
Proof. induction order as [|j o IH]; [reflexivity|]. cbn [bwd remove]. destruct (gB j []); exact IH. Qed.

Lemma bwd_all_accept : (forall j Zs, gB j Zs = true) -> forall order S, bwd gB order S = S.
Proof. intros Hg. induction order as [|j o IH]; intros S; [reflexivity|]. cbn [bwd]. rewrite Hg. apply IH. Qed.

Lemma argmax_first_const (v0 : Z) (score : nat -> Z) : (forall j, score j = v0) ->
  forall l best, argmax_first score best l = best.
Proof.
  intros Hc. induction l as [|x l IH]; intros best; [reflexivity|].
  cbn [argmax_first]. rewrite (Hc best), (Hc x), Z.ltb_irrefl. apply IH.
Qed.

Lemma remove_head_seq k m : remove Nat.eq_dec k (seq k (S m)) = seq (S k) m.
Proof.
  cbn [seq remove]. destruct (Nat.eq_dec k k) as [_|N]; [|congruence].
  apply notin_remove. rewrite in_seq. lia.
Qed.

Lemma std_fwd_all_accept_tied v0 : (forall j Zs, f j Zs = v0) -> (forall j Zs, gF j Zs = true) ->
  forall m fuel k S, (m <= fuel)%nat -> std_fwd f gF init fuel (seq k m) S = S ++ seq k m.
Proof.
  intros Hf Hg. induction m as [|m IH]; intros fuel k S Hfuel.
  - destruct fuel; cbn [std_fwd seq]; rewrite app_nil_r; reflexivity.
  - destruct fuel as [|fuel]; [lia|].
    change (std_fwd f gF init (Datatypes.S fuel) (seq k (Datatypes.S m)) S)
      with (let j := argmax (fun j => f j (init ++ S)) (seq k (Datatypes.S m)) in
            let cands' := remove Nat.eq_dec j (seq k (Datatypes.S m)) in
            if gF j (init ++ S) then std_fwd f gF init fuel cands' (S ++ [j]) else std_fwd f gF init fuel cands' S).
    cbv zeta. rewrite Hg.
    assert (Ea : argmax (fun j => f j (init ++ S)) (seq k (Datatypes.S m)) = k).
    { cbn [seq argmax]. apply (argmax_first_const v0). intros j. apply Hf. }
    rewrite Ea, remove_head_seq, IH by lia. rewrite <- app_assoc. reflexivity.
Qed.

Lemma alt_fwd_all_accept_tied v0 : (forall j Zs, f j Zs = v0) -> (forall j Zs, gF j Zs = true) ->
  forall m fuel k S, (m <= fuel)%nat -> alt_fwd f gF init fuel (seq k m) S = S ++ seq k m.
Proof.
  intros Hf Hg. induction m as [|m IH]; intros fuel k S Hfuel.
  - destruct fuel; cbn [alt_fwd seq]; rewrite app_nil_r; reflexivity.
  - destruct fuel as [|fuel]; [lia|].
    change (alt_fwd f gF init (Datatypes.S fuel) (seq k (Datatypes.S m)) S)
      with (let j := argmax (fun j => f j (init ++ S)) (seq k (Datatypes.S m)) in
            if gF j (init ++ S) then alt_fwd f gF init fuel (remove Nat.eq_dec j (seq k (Datatypes.S m))) (S ++ [j]) else S).
    cbv zeta. rewrite Hg.
    assert (Ea : argmax (fun j => f j (init ++ S)) (seq k (Datatypes.S m)) = k).
    { cbn [seq argmax]. apply (argmax_first_const v0). intros j. apply Hf. }
    rewrite Ea, remove_head_seq, IH by lia. rewrite <- app_assoc. reflexivity.
Qed.
End Sel.

(* ---------- the network on an all-tied landscape ------------------------------------------- *)
Section Tied.
Variables aF bF aB bB v0 : Z.
Variable f : nat -> list nat -> Z.
Variable nullF nullB : nat -> list nat -> list Z.
Variable init : list nat.
Hypothesis HaF : 0 < aF < bF.
Hypothesis HaB : 0 < aB < bB.
Hypothesis Hf : forall j Zs, f j Zs = v0.                               (* every estimate equals v0 ... *)
Hypothesis HnF : forall j Zs, (2 <= length (nullF j Zs))%nat.
Hypothesis HnB : forall j Zs, (2 <= length (nullB j Zs))%nat.
Hypothesis HtF : forall j Zs v, In v (nullF j Zs) -> v = v0.           (* ... on the surrogates too *)
Hypothesis HtB : forall j Zs v, In v (nullB j Zs) -> v = v0.

Lemma gateF_strict_rejects j Zs : gateF true aF bF f nullF j Zs = false.
Proof. unfold gateF. rewrite Hf. apply verdict_all_tied_strict; auto. apply HtF. Qed.
Lemma gateF_weak_accepts j Zs : gateF false aF bF f nullF j Zs = true.
Proof. unfold gateF. rewrite Hf. apply verdict_all_tied_weak; auto. apply HtF. Qed.
Lemma gateB_weak_accepts j Zs : gateB false aB bB f nullB j Zs = true.
Proof. unfold gateB. rewrite Hf. apply verdict_all_tied_weak; auto. apply HtB. Qed.

(* current source (strict verdict): nothing is accepted, for both variants, any number of
   candidates, any backward visiting order *)
Theorem all_tied_empty_network v n order :
  network true aF bF aB bB f nullF nullB init v n order = [].
Proof.
  unfold network, ocse.
  assert (E : fwd f (gateF true aF bF f nullF) init v n = []).
  { destruct v; cbn [fwd].
    - apply std_fwd_all_reject. exact gateF_strict_rejects.
    - apply alt_fwd_all_reject. exact gateF_strict_rejects. }
  rewrite E. apply bwd_nil.
Qed.

(* pre-fix source (>=): EVERY candidate is accepted and survives the backward phase *)
Theorem all_tied_weak_complete_network v n order :
  network false aF bF aB bB f nullF nullB init v n order = seq 0 n.
Proof.
  unfold network, ocse.
  rewrite (bwd_all_accept _ gateB_weak_accepts).
  destruct v; cbn [fwd].
  - rewrite (std_fwd_all_accept_tied f _ init v0 Hf gateF_weak_accepts n n 0%nat [] (le_n n)). reflexivity.
  - rewrite (alt_fwd_all_accept_tied f _ init v0 Hf gateF_weak_accepts n n 0%nat [] (le_n n)). reflexivity.
Qed.
End Tied.

(* "on noise the network has fewer than half of the candidate links" is false of the pre-fix
   verdict: the kNN-on-white-noise landscape (every estimate floored to 0) gives all candidates.
   Concretely 6 candidates (3 variables x 2 lags), n_shuffles = 19, alpha = 1/20. *)
Theorem all_tied_complete_network_refuted : exists n nsh a b v0 v,
  0 < a < b /\ (2 <= nsh)%nat /\
  let R := network false a b a b (fun _ _ => v0) (fun _ _ => repeat v0 nsh) (fun _ _ => repeat v0 nsh) [] v n [] in
  R = seq 0 n /\ ~ (2 * length R < n)%nat.
Proof. exists 6%nat, 19%nat, 1, 20, 0, Standard. vm_compute. repeat split; try lia. Qed.

(* non-vacuity of the hypotheses of all_tied_empty_network, and the contrast with a landscape
   that is not tied (one candidate clearly above its null is accepted) *)
Example tied_instance :
  network true 1 20 1 20 (fun _ _ => 0) (fun _ _ => repeat 0 19%nat) (fun _ _ => repeat 0 19%nat) [6%nat; 7%nat] Standard 6 [] = []
  /\ network true 1 20 1 20 (fun j _ => if Nat.eqb j 2 then 5 else 0) (fun _ _ => repeat 0 19%nat) (fun _ _ => repeat 0 19%nat)
       [] Alternative 6 [2%nat] = [2%nat].
Proof. vm_compute. split; reflexivity. Qed.

Example strict_pass_count_instance :
  verdict true 1 20 8 [3; 1; 4; 1; 5; 9; 2; 6; 5; 3] = true /\ count_ge 8 [3; 1; 4; 1; 5; 9; 2; 6; 5; 3] = 1
  /\ max_ge 1 20 10 = 1.
Proof. vm_compute. repeat split; reflexivity. Qed.
