(* Further unbounded facts about the trapezoid AUC model (Model/Stats.v, [auc]):
   - monotone in the ordinates: a curve that is pointwise no lower has no smaller area;
   - additive over a split of the polyline at any vertex (the area is the sum of the areas of
     its pieces, hence of its individual trapezoids);
   - a single segment is exactly one trapezoid.
   Proofs only; the C17 statements are in Properties/C17.v. *)
From Coq Require Import List ZArith QArith Bool Lia Lra Lqa.
From CE Require Import Model.Stats Proofs.StatsProofs.
Import ListNotations.
Open Scope Q_scope.

Lemma auc_mono : forall ys zs xs x0 y0 z0,
  length ys = length xs -> nondecr (x0 :: xs) ->
  Forall2 Qle (y0 :: ys) (z0 :: zs) ->
  auc (y0 :: ys) (x0 :: xs) <= auc (z0 :: zs) (x0 :: xs).
Proof.
  induction ys as [|y1 ys IH]; intros zs xs x0 y0 z0 Hlen Hx Hle.
  - destruct xs; [|discriminate]. cbn. destruct zs; lra.
  - destruct xs as [|x1 xs]; [discriminate|].
    inversion Hle as [|? ? ? ? H0 Hle']; subst.
    destruct zs as [|z1 zs]; [inversion Hle'|].
    rewrite !auc_cons2.
    assert (Hlen' : length ys = length xs) by (cbn in Hlen; lia).
    destruct Hx as [Hx01 Hx'].
    specialize (IH zs xs x1 y1 z1 Hlen' Hx' Hle').
    inversion Hle' as [|? ? ? ? H1 _]; subst.
    assert (P : 0 <= (x1 - x0) * ((z0 + z1) - (y0 + y1))) by (apply Qmult_le_0_compat; lra).
    assert (D : (x1 - x0) * (z0 + z1) / 2 - (x1 - x0) * (y0 + y1) / 2
                == (x1 - x0) * ((z0 + z1) - (y0 + y1)) / 2) by field.
    assert (P2 : 0 <= (x1 - x0) * ((z0 + z1) - (y0 + y1)) / 2) by (apply Qle_shift_div_l; lra).
    lra.
Qed.

(* one segment = one trapezoid *)
Lemma auc_segment y0 y1 x0 x1 : auc [y0; y1] [x0; x1] == (x1 - x0) * (y0 + y1) / 2.
Proof. cbn. lra. Qed.

(* splitting the polyline at the vertex (x, y): the areas add *)
Lemma auc_split : forall ys1 xs1 y x ys2 xs2,
  length ys1 = length xs1 ->
  auc (ys1 ++ y :: ys2) (xs1 ++ x :: xs2)
  == auc (ys1 ++ [y]) (xs1 ++ [x]) + auc (y :: ys2) (x :: xs2).
Proof.
  induction ys1 as [|y0 ys1 IH]; intros xs1 y x ys2 xs2 Hlen.
  - destruct xs1; [|discriminate]. cbn [app]. cbn [auc]. lra.
  - destruct xs1 as [|x0 xs1]; [discriminate|].
    assert (Hlen' : length ys1 = length xs1) by (cbn in Hlen; lia).
    specialize (IH xs1 y x ys2 xs2 Hlen').
    destruct ys1 as [|y1 ys1]; destruct xs1 as [|x1 xs1]; try discriminate.
    + cbn [app] in *. rewrite auc_cons2. cbn [auc]. lra.
    + cbn [app] in *. rewrite !auc_cons2. lra.
Qed.

(* non-vacuity: the hypotheses of [auc_mono] are met by a concrete strictly ordered pair *)
Example auc_mono_nonvacuous :
  let xs := [1 # 4; 1 # 2; 1] in
  let ys := [1 # 4; 1 # 2; 1] in let zs := [1 # 2; 3 # 4; 1] in
  nondecr (0 :: xs) /\ Forall2 Qle (0 :: ys) (0 :: zs) /\
  auc (0 :: ys) (0 :: xs) == 1 # 2 /\ auc (0 :: zs) (0 :: xs) == 21 # 32.
Proof.
  cbn. repeat split; try discriminate.
  repeat constructor; discriminate.
Qed.
