From Coq Require Import List ZArith QArith Bool Sorting Permutation Mergesort Orders Lia ZifyBool Reals Qreals Lra.
From CE Require Import Model.KnnCounts.
Import ListNotations.
Close Scope Q_scope.

(* ------------------------------------------------------------------------------------------------ *)
(* sorting facts                                                                                    *)
Lemma sorted_perm_eq : forall l1 l2 : list Z,
  StronglySorted Z.le l1 -> StronglySorted Z.le l2 -> Permutation l1 l2 -> l1 = l2.
Proof.
  induction l1 as [|a l1 IH]; intros l2 H1 H2 P.
  - apply Permutation_nil in P. congruence.
  - destruct l2 as [|b l2]; [apply Permutation_sym, Permutation_nil in P; discriminate|].
    inversion H1 as [|? ? S1 F1]; inversion H2 as [|? ? S2 F2]; subst.
    assert (a = b) as E.
    { assert (In a (b :: l2)) as Ia by (eapply Permutation_in; [exact P|left; reflexivity]).
      assert (In b (a :: l1)) as Ib by (eapply Permutation_in; [apply Permutation_sym; exact P|left; reflexivity]).
      rewrite Forall_forall in F1, F2. destruct Ia as [->|Ia]; [reflexivity|]. destruct Ib as [->|Ib]; [reflexivity|].
      specialize (F1 _ Ib). specialize (F2 _ Ia). lia. }
    subst b. f_equal. apply IH; auto. eapply Permutation_cons_inv; exact P.
Qed.

Lemma sort_sorted l : StronglySorted Z.le (ZSort.sort l).
Proof.
  pose proof (ZSort.StronglySorted_sort l) as H.
  assert (Transitive (fun x y => is_true (ZOrder.leb x y))) as T by (intros x y z; unfold ZOrder.leb, is_true; lia).
  specialize (H T). clear T. induction H as [|a l' _ IH F]; constructor; auto.
  rewrite Forall_forall in *. intros x Hx. specialize (F x Hx). unfold ZOrder.leb, is_true in F. lia.
Qed.

Lemma sort_perm_inv l1 l2 : Permutation l1 l2 -> ZSort.sort l1 = ZSort.sort l2.
Proof.
  intros P. apply sorted_perm_eq; try apply sort_sorted.
  eapply Permutation_trans; [apply Permutation_sym, ZSort.Permuted_sort|].
  eapply Permutation_trans; [exact P|apply ZSort.Permuted_sort].
Qed.

Lemma filter_len_perm {A} (f : A -> bool) l1 l2 : Permutation l1 l2 -> length (filter f l1) = length (filter f l2).
Proof.
  induction 1 as [|x l l' _ IH|x y l|l l' l'' _ IH1 _ IH2]; cbn [filter].
  - reflexivity.
  - destruct (f x); cbn [length]; congruence.
  - destruct (f x), (f y); reflexivity.
  - congruence.
Qed.

Lemma filter_map_len {A} (g : A -> Z) (f : Z -> bool) l :
  length (filter (fun q => f (g q)) l) = length (filter f (map g l)).
Proof. induction l as [|a l IH]; cbn [filter map]; [reflexivity|]. destruct (f (g a)); cbn [length]; congruence. Qed.

(* in a strictly increasing list exactly k elements are strictly below the element of index k *)
Lemma sorted_nth_count : forall (l : list Z) k, StronglySorted Z.le l -> NoDup l -> (k < length l)%nat ->
  length (filter (fun d => Z.ltb d (nth k l 0%Z)) l) = k.
Proof.
  induction l as [|a l IH]; intros k S N Hk; [cbn in Hk; lia|].
  inversion S as [|? ? S' F]; subst. inversion N as [|? ? Na N']; subst.
  rewrite Forall_forall in F.
  destruct k as [|k].
  - cbn [nth filter]. rewrite Z.ltb_irrefl.
    assert (E : filter (fun d => Z.ltb d a) l = []).
    { clear -F Na. induction l as [|b l IHl]; [reflexivity|]. cbn [filter].
      assert (a <= b)%Z by (apply F; left; reflexivity).
      destruct (Z.ltb_spec b a); [lia|]. apply IHl; [intros x Hx; apply F; right; exact Hx|intros Hin; apply Na; right; exact Hin]. }
    rewrite E. reflexivity.
  - cbn [nth]. cbn [length] in Hk.
    assert (Hin : In (nth k l 0%Z) l) by (apply nth_In; lia).
    assert (Hlt : (a < nth k l 0)%Z).
    { specialize (F _ Hin). assert (a <> nth k l 0%Z) by (intros E; apply Na; rewrite E; exact Hin). lia. }
    cbn [filter]. destruct (Z.ltb_spec a (nth k l 0%Z)); [|lia]. cbn [length]. f_equal. apply IH; auto; lia.
Qed.

(* ------------------------------------------------------------------------------------------------ *)
(* distances                                                                                        *)
Lemma cd_self m a : cd m (a, a) = 0%Z.
Proof. unfold cd; cbn [fst snd]. replace (a - a)%Z with 0%Z by lia. destruct m; reflexivity. Qed.

Lemma cd_nonneg m ab : (0 <= cd m ab)%Z.
Proof. unfold cd. cbv zeta. set (d := (fst ab - snd ab)%Z). destruct m; [nia|lia|lia]. Qed.

Lemma dist_self m p : dist m p p = 0%Z.
Proof.
  unfold dist. induction p as [|a p IH]; [destruct m; reflexivity|].
  cbn [combine map]. rewrite cd_self. destruct m; cbn [agg fold_right] in *; rewrite IH; reflexivity.
Qed.

Lemma agg_nonneg m l : Forall (fun x => 0 <= x)%Z l -> (0 <= agg m l)%Z.
Proof. induction 1 as [|x l Hx _ IH]; destruct m; cbn [agg fold_right] in *; lia. Qed.

Lemma dist_nonneg m p q : (0 <= dist m p q)%Z.
Proof. unfold dist. apply agg_nonneg. apply Forall_forall. intros x Hx. apply in_map_iff in Hx. destruct Hx as [ab [<- _]]. apply cd_nonneg. Qed.

Lemma cd_sym m a b : cd m (a, b) = cd m (b, a).
Proof. unfold cd; cbn [fst snd]. cbv zeta. destruct m; [nia|lia|lia]. Qed.

Lemma dist_sym m p q : dist m p q = dist m q p.
Proof.
  unfold dist. f_equal. revert q. induction p as [|a p IH]; intros [|b q]; cbn [combine map]; try reflexivity.
  rewrite cd_sym, IH. reflexivity.
Qed.

(* aggregation is a commutative monoid fold: invariant under permutation and splits over append *)
Definition op (m : metric) (a b : Z) : Z := match m with Cheb => Z.max a b | _ => (a + b)%Z end.
Lemma agg_cons m a l : agg m (a :: l) = op m a (agg m l).
Proof. destruct m; reflexivity. Qed.
Lemma agg_perm m l1 l2 : Permutation l1 l2 -> agg m l1 = agg m l2.
Proof.
  induction 1 as [|x l l' _ IH|x y l|l l' l'' _ IH1 _ IH2]; [reflexivity| | |congruence].
  - rewrite !agg_cons, IH. reflexivity.
  - rewrite !agg_cons. destruct m; cbn [op]; lia.
Qed.
Lemma agg_app m l1 l2 : Forall (fun x => 0 <= x)%Z l2 -> agg m (l1 ++ l2) = op m (agg m l1) (agg m l2).
Proof.
  intros H2. induction l1 as [|a l1 IH].
  - cbn [app]. pose proof (agg_nonneg m l2 H2) as Hn. destruct m; cbn [agg fold_right op] in *; lia.
  - cbn [app]. rewrite !agg_cons, IH. destruct m; cbn [op]; lia.
Qed.

Lemma combine_app {A B} (a1 a2 : list A) (b1 b2 : list B) : length a1 = length b1 ->
  combine (a1 ++ a2) (b1 ++ b2) = combine a1 b1 ++ combine a2 b2.
Proof.
  revert b1. induction a1 as [|x a1 IH]; intros [|y b1] H; cbn in *; try lia; [reflexivity|]. f_equal. apply IH. lia.
Qed.

Lemma cds_nonneg m l : Forall (fun x => 0 <= x)%Z (map (cd m) l).
Proof. apply Forall_forall. intros x Hx. apply in_map_iff in Hx. destruct Hx as [ab [<- _]]. apply cd_nonneg. Qed.

(* the distance of concatenated blocks is the aggregate of the block distances *)
Lemma dist_app m p1 p2 q1 q2 : length p1 = length q1 -> dist m (p1 ++ p2) (q1 ++ q2) = op m (dist m p1 q1) (dist m p2 q2).
Proof. intros H. unfold dist. rewrite combine_app by exact H. rewrite map_app. apply agg_app, cds_nonneg. Qed.

Lemma op_comm m a b : op m a b = op m b a.
Proof. destruct m; cbn [op]; lia. Qed.
Lemma op_assoc m a b c : op m a (op m b c) = op m (op m a b) c.
Proof. destruct m; cbn [op]; lia. Qed.

(* ------------------------------------------------------------------------------------------------ *)
(* the radius is the distance to the k-th nearest other sample; counts exclude the sample itself     *)
Section Radius.
Variable m : metric.
Variable k : nat.

Definition dJ (p q : sample) : Z := dist m (pj p) (pj q).

Lemma eps_in all p : (k < length all)%nat -> In (eps m k all p) (map (dJ p) all).
Proof.
  intros Hk. unfold eps. fold (dJ p).
  eapply Permutation_in; [apply Permutation_sym, ZSort.Permuted_sort|].
  apply nth_In. rewrite <- (Permutation_length (ZSort.Permuted_sort _)), map_length. exact Hk.
Qed.

(* tie-free: the joint distances from p are pairwise distinct *)
Lemma eps_rank all p : NoDup (map (dJ p) all) -> (k < length all)%nat ->
  length (filter (fun q => Z.ltb (dJ p q) (eps m k all p)) all) = k.
Proof.
  intros ND Hk. rewrite (filter_map_len (dJ p) (fun d => Z.ltb d (eps m k all p))).
  rewrite (filter_len_perm _ _ _ (ZSort.Permuted_sort (map (dJ p) all))).
  unfold eps. fold (dJ p). apply sorted_nth_count.
  - apply sort_sorted.
  - eapply Permutation_NoDup; [apply ZSort.Permuted_sort|exact ND].
  - rewrite <- (Permutation_length (ZSort.Permuted_sort _)), map_length. exact Hk.
Qed.

Lemma filter_none {A} (f : A -> bool) l : (forall q, In q l -> f q = false) -> filter f l = [].
Proof.
  induction l as [|a l IH]; intros H; [reflexivity|]. cbn [filter]. rewrite (H a (or_introl eq_refl)).
  apply IH. intros q Hq. apply H. right. exact Hq.
Qed.

(* p itself is one of the k strictly closer joint samples (distance 0 < eps), so exactly k-1 OTHER samples are
   strictly closer than the radius and the radius is attained by another sample: it is the distance to the
   k-th nearest other one *)
Theorem eps_is_kth_other l1 p l2 : let all := l1 ++ p :: l2 in
  NoDup (map (dJ p) all) -> (1 <= k < length all)%nat ->
  (0 < eps m k all p)%Z /\
  In (eps m k all p) (map (dJ p) (l1 ++ l2)) /\
  length (filter (fun q => Z.ltb (dJ p q) (eps m k all p)) (l1 ++ l2)) = (k - 1)%nat.
Proof.
  intros all ND Hk.
  pose proof (eps_rank all p ND ltac:(lia)) as R.
  pose proof (eps_in all p ltac:(lia)) as I.
  assert (Hself : dJ p p = 0%Z) by apply dist_self.
  set (e := eps m k all p) in *.
  assert (Hpos : (0 < e)%Z).
  { destruct (Z.ltb_spec 0 e) as [H|H]; [exact H|exfalso].
    rewrite filter_none in R; [cbn in R; lia|].
    intros q _. pose proof (dist_nonneg m (pj p) (pj q)). unfold dJ. lia. }
  split; [exact Hpos|]. subst all. split.
  - rewrite map_app in I. cbn [map] in I. rewrite map_app. apply in_app_or in I. apply in_or_app.
    destruct I as [I|[I|I]]; [left; exact I|lia|right; exact I].
  - rewrite filter_app in R. cbn [filter] in R. rewrite Hself in R.
    destruct (Z.ltb_spec 0 e); [|lia]. rewrite app_length in R. cbn [length] in R.
    rewrite filter_app, app_length. lia.
Qed.

(* np.sum(D < eps) - 1 counts the OTHER samples strictly inside the radius in the projected space *)
Theorem cnt_excludes_self proj l1 p l2 : let all := l1 ++ p :: l2 in
  (0 < eps m k all p)%Z ->
  cnt m k proj all p = Z.of_nat (length (filter (fun q => Z.ltb (dist m (proj p) (proj q)) (eps m k all p)) (l1 ++ l2))).
Proof.
  intros all Hpos. unfold cnt, cnt_e. subst all. rewrite !filter_app, !app_length. cbn [filter]. rewrite dist_self.
  destruct (Z.ltb_spec 0 (eps m k (l1 ++ p :: l2) p)); [|lia]. cbn [length]. lia.
Qed.
End Radius.

(* ------------------------------------------------------------------------------------------------ *)
(* the rational estimate IS the digamma formula: digamma(n) = H_{n-1} - gamma at integers, gamma cancels *)
Section Formula.
Variable gamma : R.        (* any real; in particular the Euler-Mascheroni constant *)
Open Scope R_scope.

Fixpoint HR (n : nat) : R := match n with O => 0 | S n' => HR n' + / INR n end.
Definition psi (n : nat) : R := HR (n - 1) - gamma.
Definition Rsum (l : list R) : R := fold_right Rplus 0 l.

Lemma Q2R_Qred q : Q2R (Qred q) = Q2R q.
Proof. apply Qeq_eqR, Qred_correct. Qed.

Lemma Q2R_inv_pos n : Q2R (1 # Pos.of_nat (S n)) = / INR (S n).
Proof.
  unfold Q2R. cbn [Qnum Qden]. rewrite INR_IZR_INZ. rewrite Rmult_1_l. f_equal. f_equal.
  rewrite Nat2Z.inj_succ, <- Zpos_P_of_succ_nat. f_equal. symmetry. apply Pos.of_nat_succ.
Qed.

Lemma Q2R_harm n : Q2R (harm n) = HR n.
Proof.
  induction n as [|n IH]; [cbn; unfold Q2R; cbn; lra|].
  cbn [harm HR]. rewrite Q2R_Qred, Q2R_plus, IH, Q2R_inv_pos. reflexivity.
Qed.

Lemma Q2R_qsum l : Q2R (qsum l) = Rsum (map Q2R l).
Proof.
  induction l as [|a l IH]; [cbn; unfold Q2R; cbn; lra|].
  cbn [qsum map Rsum fold_right]. rewrite Q2R_Qred, Q2R_plus, IH. reflexivity.
Qed.

Lemma Q2R_inject_nat n : Q2R (inject_Z (Z.of_nat n)) = INR n.
Proof. unfold Q2R. cbn [inject_Z Qnum Qden]. rewrite INR_IZR_INZ. lra. Qed.

Lemma Q2R_qmean l : l <> [] -> Q2R (qmean l) = Rsum (map Q2R l) / INR (length l).
Proof.
  intros Hl. unfold qmean. assert (Hn : (0 < length l)%nat) by (destruct l; [congruence|cbn; lia]).
  rewrite Q2R_div.
  - rewrite Q2R_qsum, Q2R_inject_nat. reflexivity.
  - intros E. apply Qeq_eqR in E. rewrite Q2R_inject_nat in E. replace (Q2R 0) with 0 in E by (unfold Q2R; cbn; lra).
    apply lt_0_INR in Hn. lra.
Qed.

Lemma Rsum_shift {A} (f : A -> R) c l : Rsum (map (fun p => f p - c) l) = Rsum (map f l) - INR (length l) * c.
Proof.
  induction l as [|a l IH]; [cbn; lra|]. cbn [map Rsum fold_right length]. fold (Rsum (map (fun p => f p - c) l)).
  fold (Rsum (map f l)). rewrite IH, S_INR. lra.
Qed.

Lemma psi_S n : psi (S n) = HR n - gamma.
Proof. unfold psi. cbn [Nat.sub]. rewrite Nat.sub_0_r. reflexivity. Qed.

Lemma radii_ok_len m k all : radii_ok m k all = true -> (1 <= k < length all)%nat.
Proof. unfold radii_ok. intros H. apply andb_prop in H. destruct H as [H _]. apply andb_prop in H. destruct H as [H1 H2].
  apply Nat.leb_le in H1. apply Nat.ltb_lt in H2. lia. Qed.

(* I = psi(k) + psi(N) - < psi(n_x + 1) + psi(n_y + 1) > *)
Theorem knn_mi_formula m k all v : knn_mi m k all = Some v ->
  Q2R v = psi k + psi (length all)
          - Rsum (map (fun p => psi (S (Z.to_nat (cnt m k sx all p))) + psi (S (Z.to_nat (cnt m k sy all p)))) all)
            / INR (length all).
Proof.
  unfold knn_mi. destruct (radii_ok m k all) eqn:Hr; [|discriminate]. intros E. injection E as <-.
  pose proof (radii_ok_len _ _ _ Hr) as Hk.
  assert (Hne : map (fun p => (harmZ (cnt m k sx all p) + harmZ (cnt m k sy all p))%Q) all <> []) by (destruct all; [cbn in Hk; lia|discriminate]).
  rewrite Q2R_minus, Q2R_plus, !Q2R_harm, Q2R_qmean by exact Hne.
  rewrite map_length, map_map.
  rewrite (map_ext (fun p => psi (S (Z.to_nat (cnt m k sx all p))) + psi (S (Z.to_nat (cnt m k sy all p))))
                   (fun p => Q2R (harmZ (cnt m k sx all p) + harmZ (cnt m k sy all p))%Q - 2 * gamma)).
  2:{ intros p. rewrite !psi_S, Q2R_plus. unfold harmZ. rewrite !Q2R_harm. lra. }
  rewrite Rsum_shift. unfold psi.
  assert (Hn : INR (length all) <> 0) by (apply not_0_INR; lia).
  field. exact Hn.
Qed.

(* I = psi(k) - < psi(n_xz + 1) + psi(n_yz + 1) - psi(n_z + 1) > *)
Theorem knn_cmi_formula m k all v : knn_cmi m k all = Some v ->
  Q2R v = psi k
          - Rsum (map (fun p => psi (S (Z.to_nat (cnt m k pxz all p))) + psi (S (Z.to_nat (cnt m k pyz all p)))
                                - psi (S (Z.to_nat (cnt m k sz all p)))) all)
            / INR (length all).
Proof.
  unfold knn_cmi. destruct (radii_ok m k all) eqn:Hr; [|discriminate]. intros E. injection E as <-.
  pose proof (radii_ok_len _ _ _ Hr) as Hk.
  assert (Hne : map (fun p => (harmZ (cnt m k pxz all p) + harmZ (cnt m k pyz all p) - harmZ (cnt m k sz all p))%Q) all <> [])
    by (destruct all; [cbn in Hk; lia|discriminate]).
  rewrite Q2R_minus, !Q2R_harm, Q2R_qmean by exact Hne.
  rewrite map_length, map_map.
  rewrite (map_ext (fun p => psi (S (Z.to_nat (cnt m k pxz all p))) + psi (S (Z.to_nat (cnt m k pyz all p)))
                             - psi (S (Z.to_nat (cnt m k sz all p))))
                   (fun p => Q2R (harmZ (cnt m k pxz all p) + harmZ (cnt m k pyz all p) - harmZ (cnt m k sz all p))%Q - gamma)).
  2:{ intros p. rewrite !psi_S, Q2R_minus, Q2R_plus. unfold harmZ. rewrite !Q2R_harm. lra. }
  rewrite Rsum_shift. unfold psi.
  assert (Hn : INR (length all) <> 0) by (apply not_0_INR; lia).
  field. exact Hn.
Qed.
End Formula.

(* non-vacuity: a concrete tie-free sample on which the estimate is defined *)
Example knn_defined_somewhere :
  knn_mi Euclid 1 (map mk [([0], [0], []); ([1], [3], []); ([5], [1], []); ([2], [2], [])]%Z) = Some (-126 # 144)%Q.
Proof. vm_compute. reflexivity. Qed.
