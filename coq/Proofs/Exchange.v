(* C04 -- exactness of a permutation test for ANY statistic, as counting (mathcomp/ssreflect file).

   Positions 'I_(n+1): 0 is the observed data set, 1..n are the n = n_shuffles surrogates.
   A finite pool P of equally likely arrangements with a statistic value attached to each;
   a tuple t : 'I_(n+1) -> P is one joint outcome.  [exch_bound] counts the outcomes in which at
   most c of the other positions carry a value >= the value at position 0; [rate_bound] transfers
   this to the verdict of Model/ShuffleTest.v (strict comparison with the linear-interpolation
   percentile), [rate_bound_stated] to the alpha + 1/n of the property inside the arithmetic
   regime, and [perm_rate_bound] to the situation of shuffle_test itself: the observed rows are an
   equally likely re-ordering s0 of some base order and surrogate i is the observed data
   re-ordered by an independent uniform s_i, i.e. the base order re-ordered by s_i * s0. *)
From Coq Require Import ZArith Lia.
From CE Require Import Model.ShuffleTest Model.Noise Proofs.ShuffleTestProofs Proofs.NoiseProofs.
From mathcomp Require Import all_ssreflect fingroup perm zify.
Close Scope Z_scope.
Set Implicit Arguments. Unset Strict Implicit. Unset Printing Implicit Defensive.

(* ---------- the counting bound (design-phase prototype, pool generalised to a finType) ---- *)
Section Exch.
Variables (n : nat) (P : finType) (val : P -> nat).
Notation tup := {ffun 'I_n.+1 -> P}.
Definition cnt_ge (t : tup) (j : 'I_n.+1) := #|[set i | (i != j) && (val (t j) <= val (t i))]|.
Definition extreme c (t : tup) j := cnt_ge t j <= c.

Lemma per_tuple c (t : tup) : #|[set j | extreme c t j]| <= c.+1.
Proof.
set E := [set j | extreme c t j].
case: (set_0Vmem E) => [->|[j0 j0E]]; first by rewrite cards0.
pose jm := [arg min_(j < j0 | j \in E) val (t j)].
have [jmE jmmin] : jm \in E /\ forall j, j \in E -> val (t jm) <= val (t j).
  by rewrite /jm; case: arg_minnP => // i iE H; split.
have sub : E :\ jm \subset [set i | (i != jm) && (val (t jm) <= val (t i))].
  apply/subsetP => i; rewrite !inE => /andP[ne iE]; rewrite ne /=.
  by apply: jmmin; rewrite inE.
have := subset_leq_card sub.
move: jmE; rewrite {1}/E inE /extreme /cnt_ge => le1 le2.
by rewrite (cardsD1 jm) (_ : jm \in E) ?add1n ?ltnS ?(leq_trans le2 le1) // /E inE.
Qed.

Definition swp (j : 'I_n.+1) (t : tup) : tup := [ffun i => t (tperm ord0 j i)].
Lemma swpK j : involutive (swp j).
Proof. by move=> t; apply/ffunP => i; rewrite !ffunE tpermK. Qed.

Lemma cnt_swp j t : cnt_ge (swp j t) ord0 = cnt_ge t j.
Proof.
rewrite /cnt_ge.
have inj : injective (tperm ord0 j) by exact: perm_inj.
rewrite -[RHS](card_imset _ inj).
apply: eq_card => i; rewrite !inE /swp !ffunE tpermL.
apply/idP/imsetP => [/andP[ne le]|[i' ]].
  exists (tperm ord0 j i); last by rewrite tpermK.
  by rewrite inE le andbT -{2}(tpermL ord0 j) (inj_eq inj).
rewrite inE => /andP[ne le] ->; rewrite tpermK le andbT.
by rewrite -{2}(tpermR ord0 j) (inj_eq inj).
Qed.

Lemma symm c j : #|[set t | extreme c t j]| = #|[set t | extreme c t ord0]|.
Proof.
have inj := inv_inj (swpK j).
rewrite -[RHS](card_imset _ inj).
apply: eq_card => t; rewrite !inE.
apply/idP/imsetP => [H|[t' ]].
  by exists (swp j t); rewrite ?swpK // inE /extreme cnt_swp.
by rewrite inE /extreme => H ->; rewrite -cnt_swp swpK.
Qed.

Theorem exch_bound c : #|[set t | extreme c t ord0]| * n.+1 <= c.+1 * #|P| ^ n.+1.
Proof.
have <- : #|{: tup}| = #|P| ^ n.+1 by rewrite card_ffun card_ord.
have -> : #|[set t | extreme c t ord0]| * n.+1 = \sum_(j < n.+1) #|[set t | extreme c t j]|.
  rewrite (eq_bigr (fun _ => #|[set t | extreme c t ord0]|)); last by move=> j _; rewrite symm.
  by rewrite sum_nat_const card_ord mulnC.
have -> : \sum_(j < n.+1) #|[set t | extreme c t j]| = \sum_(t : tup) #|[set j | extreme c t j]|.
  rewrite (eq_bigr (fun j => \sum_(t : tup) (extreme c t j : nat))); last first.
    by move=> j _; rewrite -sum1dep_card big_mkcond /=; apply: eq_bigr => t _; case: (extreme c t j).
  rewrite exchange_big /=; apply: eq_bigr => t _.
  by rewrite -sum1dep_card [RHS]big_mkcond /=; apply: eq_bigr => j _; case: (extreme c t j).
rewrite mulnC -sum_nat_const; apply: leq_sum => t _; exact: per_tuple.
Qed.
End Exch.

(* ---------- integer statistic values: ranks give an order-preserving map to nat ---------- *)
Section Rank.
Variables (P : finType) (zval : P -> Z).
Definition rank (x : P) : nat := #|[set y | (zval y <? zval x)%Z]|.
Lemma rank_mono x y : (rank x <= rank y) = (zval x <=? zval y)%Z.
Proof.
case: (Z.leb_spec (zval x) (zval y)) => H.
  apply: subset_leq_card; apply/subsetP => z; rewrite !inE => /Z.ltb_lt Hz.
  by apply/Z.ltb_lt; lia.
apply/negbTE; rewrite -ltnNge; apply: proper_card; apply/properP; split.
  apply/subsetP => z; rewrite !inE => /Z.ltb_lt Hz.
  by apply/Z.ltb_lt; lia.
exists y; rewrite inE; first by apply/Z.ltb_lt.
by rewrite Z.ltb_irrefl.
Qed.
End Rank.

(* ---------- glue to the list model of shuffle_test --------------------------------------- *)
Lemma length_filter_count (p : Z -> bool) (l : list Z) : List.length (List.filter p l) = count p l.
Proof. by elim: l => //= x l <-; case: (p x). Qed.

Section Glue.
Variables (n : nat) (P : finType) (zval : P -> Z).
Notation tup := {ffun 'I_n.+1 -> P}.
(* what shuffle_test sees in outcome t: the observed value and the n surrogate values, in order *)
Definition obsZ (t : tup) : Z := zval (t ord0).
Definition nullsZ (t : tup) : list Z := [seq zval (t (lift ord0 i)) | i <- enum 'I_n].

Lemma length_nullsZ t : List.length (nullsZ t) = n.
Proof. by rewrite -[LHS]/(size (nullsZ t)) /nullsZ size_map size_enum_ord. Qed.

Lemma cnt_ge_list t : cnt_ge (rank zval) t ord0 = ShuffleTest.cge (obsZ t) (nullsZ t).
Proof.
rewrite /ShuffleTest.cge length_filter_count /nullsZ count_map -sum1_count /cnt_ge.
rewrite -sum1dep_card big_mkcond big_ord_recl eqxx /= add0n.
rewrite -big_mkcond /= big_enum_cond /=.
by apply: eq_bigl => i; rewrite rank_mono.
Qed.

Variables (a b : Z).
Hypothesis Hab : (0 < a < b)%Z.
Hypothesis Hn : 2 <= n.

(* the verdict of the current source on outcome t *)
Definition passes (t : tup) : bool := verdict true a b (obsZ t) (nullsZ t).
Definition lo : nat := Z.to_nat (lo_idx a b (Z.of_nat n)).

Lemma lo_le : lo <= n - 1.
Proof.
have := lo_idx_range a b (Z.of_nat n) Hab; rewrite /lo => H.
have Hn' : (1 <= Z.of_nat n)%Z by lia.
by move: (H Hn') => ?; lia.
Qed.

(* significance declared  ==>  at most n-1-lo surrogates reach the observed value *)
Lemma pass_extreme t : passes t -> extreme (rank zval) (n - 1 - lo) t ord0.
Proof.
rewrite /passes /extreme cnt_ge_list => Hp.
have Hlen : (2 <= List.length (nullsZ t))%coq_nat by rewrite length_nullsZ; apply/leP.
have := strict_pass_count a b (obsZ t) (nullsZ t) Hab Hlen Hp.
rewrite /len length_nullsZ -/lo => K.
by apply/leP; move: K; rewrite /lo; lia.
Qed.

(* the exact size of the test: outcomes declared significant are at most a fraction
   (n - lo)/(n + 1) of all |P|^(n+1) equally likely outcomes, whatever the statistic *)
Theorem rate_bound : #|[set t | passes t]| * n.+1 <= (n - lo) * #|P| ^ n.+1.
Proof.
have sub : [set t | passes t] \subset [set t | extreme (rank zval) (n - 1 - lo) t ord0].
  by apply/subsetP => t; rewrite !inE; exact: pass_extreme.
apply: leq_trans (leq_mul (subset_leq_card sub) (leqnn _)) _.
have -> : n - lo = (n - 1 - lo).+1 by have := lo_le; lia.
exact: exch_bound.
Qed.

(* inside the arithmetic regime this is the alpha + 1/n of the property:
   #pass / |P|^(n+1) <= a/b + 1/n *)
Theorem rate_bound_stated : regime a b (Z.of_nat n) = true ->
  (Z.of_nat #|[set t | passes t]| * b * Z.of_nat n <= (a * Z.of_nat n + b) * Z.of_nat (#|P| ^ n.+1))%Z.
Proof.
move=> Hreg.
apply: (stated_from_counting a b (Z.of_nat n)) => //; try lia.
have := rate_bound; have := lo_le.
rewrite /bound_num -/lo.
have := lo_idx_range a b (Z.of_nat n) Hab.
set M := #|P| ^ n.+1; set K := #|[set t | passes t]|; rewrite /lo.
move=> H1 H2 /leP H3.
have H1' := H1 ltac:(lia).
have -> : (Z.of_nat n - lo_idx a b (Z.of_nat n))%Z = Z.of_nat (n - Z.to_nat (lo_idx a b (Z.of_nat n))) by lia.
by rewrite -Nat2Z.inj_mul; lia.
Qed.
End Glue.

(* ---------- from i.i.d. draws to re-permutations of the observed data --------------------- *)
Section PermReduction.
Variables (n : nat) (gT : finGroupType).
Notation gtup := {ffun 'I_n.+1 -> gT}.
(* s ord0 re-orders the base data into the observed data; s i (i > 0) is the i-th shuffle drawn
   by the test, applied to the OBSERVED data: surrogate i is the base data re-ordered by s i * s ord0 *)
Definition compose (s : gtup) : gtup := [ffun i => if i == ord0 then s ord0 else (s i * s ord0)%g].
Definition uncompose (s : gtup) : gtup := [ffun i => if i == ord0 then s ord0 else (s i * (s ord0)^-1)%g].

Lemma composeK : cancel compose uncompose.
Proof.
move=> s; apply/ffunP => i; rewrite !ffunE eqxx.
by case: (i == ord0) / eqP => [->|_] //; rewrite mulgK.
Qed.
Lemma uncomposeK : cancel uncompose compose.
Proof.
move=> s; apply/ffunP => i; rewrite !ffunE eqxx.
by case: (i == ord0) / eqP => [->|_] //; rewrite mulgKV.
Qed.

Theorem perm_reduction : bijective compose.
Proof. exact: Bijective composeK uncomposeK. Qed.

(* the permutation test itself: stat g = value of the statistic on the base data re-ordered by g.
   Among all |G|^(n+1) equally likely (arrangement of the observed data, n shuffles) the test
   declares significance in at most a fraction (n - lo)/(n + 1). *)
Variables (stat : gT -> Z) (a b : Z).
Hypothesis Hab : (0 < a < b)%Z.
Hypothesis Hn : 2 <= n.

Theorem perm_rate_bound :
  #|[set s : gtup | passes stat a b (compose s)]| * n.+1 <= (n - lo n a b) * #|gT| ^ n.+1.
Proof.
have -> : [set s : gtup | passes stat a b (compose s)] = compose @^-1: [set t | passes stat a b t].
  by apply/setP => s; rewrite !inE.
rewrite on_card_preimset; first exact: rate_bound.
by apply: onW_bij; exact: perm_reduction.
Qed.
End PermReduction.

(* non-vacuity: the settings of the measured part (n_shuffles = 19, alpha = 1/20) and the library
   defaults (n_shuffles = 200, alpha = 1/20) meet the hypotheses; the sizes are 2/20 and 11/201 *)
Example rate_bound_19_005 (P : finType) (zval : P -> Z) :
  #|[set t : {ffun 'I_20 -> P} | passes zval 1 20 t]| * 20 <= 2 * #|P| ^ 20.
Proof. by apply: (@rate_bound 19 P zval 1 20). Qed.
Example lo_defaults : lo 200 1 20 = 189 /\ 200 - lo 200 1 20 = 11.
Proof. by vm_compute. Qed.
