(* Real-number layer of C08: what the rational identities of GaussProofs.v mean for cmi = 1/2 ln ratio.
   (standard-library real-number axioms; the enclosure soundness additionally uses Coq-Interval) *)
From Coq Require Import Reals QArith Qreals Lra List ZArith.
From CE Require Import Model.Itv Model.Gauss Proofs.ItvProofs.
Import ListNotations.
Open Scope R_scope.

Lemma evalR_EQq q : evalR [] (EQq q) = Q2R q.
Proof. unfold EQq, EQ, Q2R. cbn [evalR]. reflexivity. Qed.

Lemma evalR_cmi_expr q : evalR [] (cmi_expr q) = / 2 * ln (Q2R q).
Proof. unfold cmi_expr. cbn [evalR]. fold (evalR [] (EQq q)). rewrite evalR_EQq. unfold EQ. cbn [evalR]. lra. Qed.

Lemma Q2R_pos q : (0 < q)%Q -> 0 < Q2R q.
Proof. intros H. apply Qlt_Rlt in H. rewrite RMicromega.Q2R_0 in H. exact H. Qed.

(* non-negativity: ratio >= 1 gives cmi >= 0 *)
Theorem cmi_nonneg q : (1 <= q)%Q -> 0 <= evalR [] (cmi_expr q).
Proof.
  intros H. rewrite evalR_cmi_expr. apply Qle_Rle in H. rewrite RMicromega.Q2R_1 in H.
  assert (0 <= ln (Q2R q)).
  { destruct H as [H|H]; [|rewrite <- H, ln_1; lra]. rewrite <- ln_1. left. apply ln_increasing; lra. }
  lra.
Qed.

(* chain rule: a product of ratios is a sum of informations *)
Theorem cmi_chain q1 q2 q3 : (0 < q2)%Q -> (0 < q3)%Q -> (q1 == q2 * q3)%Q ->
  evalR [] (cmi_expr q1) = evalR [] (cmi_expr q2) + evalR [] (cmi_expr q3).
Proof.
  intros H2 H3 E. rewrite !evalR_cmi_expr. apply Qeq_eqR in E. rewrite E, Q2R_mult.
  rewrite ln_mult by (apply Q2R_pos; assumption). lra.
Qed.

Lemma ln_nonpos x : x <= 0 -> ln x = 0.
Proof. intros H. unfold ln. destruct (Rlt_dec 0 x) as [r|r]; [exfalso; apply (Rlt_irrefl 0), Rlt_le_trans with x; assumption|reflexivity]. Qed.

(* scalar case: ratio * (1 - r^2) = 1 gives cmi = -1/2 ln(1 - r^2) *)
Theorem cmi_scalar q u : (q * u == 1)%Q -> evalR [] (cmi_expr q) = - / 2 * ln (Q2R u).
Proof.
  intros E. rewrite evalR_cmi_expr. apply Qeq_eqR in E. rewrite Q2R_mult, RMicromega.Q2R_1 in E.
  set (x := Q2R q) in *. set (y := Q2R u) in *.
  destruct (Rlt_le_dec 0 x) as [Hx|Hx].
  - assert (Hy : y = / x) by (apply Rmult_eq_reg_l with x; [rewrite E; field|]; lra).
    rewrite Hy, ln_Rinv by exact Hx. lra.
  - assert (x <> 0) by (intros C; rewrite C in E; lra).
    assert (Hy : y <= 0).
    { destruct (Rlt_le_dec 0 y) as [Hy|Hy]; [|exact Hy]. exfalso.
      assert (x * y < 0) by nra. lra. }
    rewrite (ln_nonpos x Hx), (ln_nonpos y Hy). lra.
Qed.

(* the code's literal form (half the signed sum of four log-determinants) is 1/2 ln of the ratio *)
Theorem cmi_code_form a b c d q : (0 < a)%Q -> (0 < b)%Q -> (0 < c)%Q -> (0 < d)%Q -> (q == a * b / (c * d))%Q ->
  evalR [] (cmi_code_expr a b c d) = evalR [] (cmi_expr q).
Proof.
  intros Ha Hb Hc Hd E. rewrite evalR_cmi_expr. unfold cmi_code_expr. cbn [evalR].
  fold (evalR [] (EQq a)) (evalR [] (EQq b)) (evalR [] (EQq c)) (evalR [] (EQq d)). rewrite !evalR_EQq.
  apply Qeq_eqR in E. rewrite E. unfold Qdiv. rewrite !Q2R_mult, Q2R_inv, Q2R_mult.
  2:{ intros C. assert (0 < c * d)%Q by (apply Qmult_lt_0_compat; assumption). rewrite C in H. apply Qlt_irrefl in H. exact H. }
  apply Q2R_pos in Ha, Hb, Hc, Hd.
  rewrite ln_mult, ln_mult, ln_Rinv, ln_mult; try assumption; try (apply Rmult_lt_0_compat; assumption).
  - unfold EQ. cbn [evalR]. lra.
  - apply Rinv_0_lt_compat, Rmult_lt_0_compat; assumption.
Qed.

(* what a successful in-kernel check certifies about a returned value v = vn/vd *)
Theorem cmi_enclosure_sound q vn vd tn td : close_check (cmi_expr q) (EQ vn vd) (EQ tn td) = true ->
  Rabs (/ 2 * ln (Q2R q) - IZR vn / IZR vd) <= IZR tn / IZR td.
Proof. intros H. apply close_sound in H. rewrite evalR_cmi_expr in H. exact H. Qed.

(* ---- the rational theorems of GaussProofs.v read in nats ------------------------------------------ *)
From CE Require Import Proofs.GaussProofs.
Open Scope R_scope.

Lemma scalar_ratio_inv (q xx yy xy : Q) : (q * (xx * yy - xy * xy) == xx * yy)%Q -> (~ xx * yy == 0)%Q ->
  (q * (1 - xy * xy / (xx * yy)) == 1)%Q.
Proof.
  intros E Hn.
  assert (Hx : (~ xx == 0)%Q) by (intros C; apply Hn; rewrite C; ring).
  assert (Hy : (~ yy == 0)%Q) by (intros C; apply Hn; rewrite C; ring).
  assert (H : (q * (1 - xy * xy / (xx * yy)) == (q * (xx * yy - xy * xy)) / (xx * yy))%Q) by (field; split; assumption).
  rewrite H, E. field. split; assumption.
Qed.

(* scalar X, Y, no Z: I = -1/2 ln(1 - r^2), r^2 = s_xy^2 / (s_xx s_yy) the squared sample correlation *)
Theorem cmi_scalar_no_Z D i j q : ratio_det D [i] [j] [] = Some q ->
  evalR [] (cmi_expr q) = - / 2 * ln (Q2R (1 - sc D i j * sc D i j / (sc D i i * sc D j j))).
Proof.
  intros H. destruct (ratio_det_scalar D i j q H) as [E Hn]. apply cmi_scalar, scalar_ratio_inv; assumption.
Qed.

(* scalar X, Y, any Z: I = -1/2 ln(1 - r^2) with r the PARTIAL correlation (correlation of the least-squares
   residuals on (1, Z)), and I >= 0 *)
Theorem cmi_scalar_partial D i j iz q : ratio_res D [i] [j] iz = Some q ->
  let rx := resid (zbasis D iz) (col D i) in let ry := resid (zbasis D iz) (col D j) in
  evalR [] (cmi_expr q) = - / 2 * ln (Q2R (1 - dot rx ry * dot rx ry / (dot rx rx * dot ry ry))) /\
  0 <= evalR [] (cmi_expr q).
Proof.
  intros H rx ry. destruct (ratio_res_scalar D i j iz q H) as [E [Hn Hge]]. fold rx ry in E, Hn. split.
  - apply cmi_scalar, scalar_ratio_inv; assumption.
  - apply cmi_nonneg, Hge.
Qed.

Theorem cmi_chain_rule D ix iy iz q2 q3 :
  ratio_det D ix iz [] = Some q2 -> ratio_det D ix iy iz = Some q3 -> (0 < q2)%Q -> (0 < q3)%Q ->
  exists q1, ratio_det D ix (iy ++ iz) [] = Some q1 /\
             evalR [] (cmi_expr q1) = evalR [] (cmi_expr q2) + evalR [] (cmi_expr q3).
Proof.
  intros H2 H3 P2 P3. destruct (ratio_det_chain_rule D ix iy iz q2 q3 H2 H3) as [q1 [H1 E]].
  exists q1. split; [exact H1|]. apply cmi_chain; assumption.
Qed.

(* non-negativity for all block sizes k_x, k_y, k_z, on the sequential least-squares residual form *)
Theorem cmi_seq_nonneg D ix iy iz q : ratio_seq D ix iy iz = Some q -> (1 <= q)%Q /\ 0 <= evalR [] (cmi_expr q).
Proof. intros H. pose proof (ratio_seq_ge_1 D ix iy iz q H) as G. split; [exact G|apply cmi_nonneg, G]. Qed.

(* ---- the statements of Properties/C08.v, bundled ------------------------------------------------- *)
Theorem scalar_no_Z_bundle D i j q : ratio_det D [i] [j] [] = Some q ->
  (q * (sc D i i * sc D j j - sc D i j * sc D i j) == sc D i i * sc D j j)%Q /\ (~ sc D i i * sc D j j == 0)%Q /\
  evalR [] (cmi_expr q) = - / 2 * ln (Q2R (1 - sc D i j * sc D i j / (sc D i i * sc D j j))).
Proof.
  intros H. destruct (ratio_det_scalar D i j q H) as [E Hn]. split; [exact E|]. split; [exact Hn|].
  apply cmi_scalar_no_Z, H.
Qed.

Theorem scalar_partial_bundle D i j iz q : ratio_res D [i] [j] iz = Some q ->
  let rx := resid (zbasis D iz) (col D i) in let ry := resid (zbasis D iz) (col D j) in
  (q * (dot rx rx * dot ry ry - dot rx ry * dot rx ry) == dot rx rx * dot ry ry)%Q /\ (~ dot rx rx * dot ry ry == 0)%Q /\
  (1 <= q)%Q /\
  evalR [] (cmi_expr q) = - / 2 * ln (Q2R (1 - dot rx ry * dot rx ry / (dot rx rx * dot ry ry))) /\
  0 <= evalR [] (cmi_expr q).
Proof.
  intros H rx ry. destruct (ratio_res_scalar D i j iz q H) as [E [Hn Hge]]. destruct (cmi_scalar_partial D i j iz q H) as [R1 R2].
  repeat split; assumption.
Qed.

Theorem residual_ls_bundle D iz i : let r := resid (zbasis D iz) (col D i) in
  (dot (ones D) r == 0)%Q /\ Forall (fun k => dot (col D k) r == 0)%Q iz /\
  forall u, length u = length D -> Forall (fun b => dot b u == 0)%Q (zbasis D iz) -> (dot r u == dot (col D i) u)%Q.
Proof.
  intros r. destruct (residual_normal_equations D iz i) as [H1 H2]. split; [exact H1|]. split; [exact H2|].
  intros u Lu HO. apply residual_same_off_span; assumption.
Qed.

Theorem affine_bundle c a b D ix iy iz : (~ a == 0)%Q -> Forall (fun r => (c < length r)%nat) D ->
  ratio_corr (rescale_col c a b D) ix iy iz = ratio_corr D ix iy iz /\
  ratio_det (rescale_col c a b D) ix iy iz = ratio_det D ix iy iz.
Proof. intros Ha HD. split; [apply ratio_corr_affine_invariant|apply ratio_det_affine_invariant]; assumption. Qed.

Theorem row_perm_bundle D D' ix iy iz : Permutation.Permutation D D' ->
  ratio_det D ix iy iz = ratio_det D' ix iy iz /\ ratio_corr D ix iy iz = ratio_corr D' ix iy iz.
Proof. intros P. split; [apply ratio_det_row_perm|apply ratio_corr_row_perm]; exact P. Qed.

Theorem chain_rule_bundle D ix iy iz q2 q3 :
  ratio_det D ix iz [] = Some q2 -> ratio_det D ix iy iz = Some q3 ->
  exists q1, ratio_det D ix (iy ++ iz) [] = Some q1 /\ (q1 == q2 * q3)%Q /\
             ((0 < q2)%Q -> (0 < q3)%Q -> evalR [] (cmi_expr q1) = evalR [] (cmi_expr q2) + evalR [] (cmi_expr q3)).
Proof.
  intros H2 H3. destruct (ratio_det_chain_rule D ix iy iz q2 q3 H2 H3) as [q1 [H1 E]].
  exists q1. split; [exact H1|]. split; [exact E|]. intros P2 P3. apply cmi_chain; assumption.
Qed.
