(* Lemmas about Model/Gauss.v (rational layer: axiom-free; the few statements about ln live in R). *)
From Coq Require Import List Arith ZArith QArith Bool Permutation Lia Setoid Morphisms Lqa Field.
From CE Require Import Model.Gauss.
Import ListNotations.
Open Scope Q_scope.

(* ------------------------------------------------------------------------------------------------ *)
(* sums and products                                                                                  *)
(* ------------------------------------------------------------------------------------------------ *)
Lemma qsum_cons a r : qsum (a :: r) == a + qsum r.
Proof. cbn [qsum]. apply Qred_correct. Qed.
Lemma qprod_cons a r : qprod (a :: r) == a * qprod r.
Proof. cbn [qprod]. apply Qred_correct. Qed.

Lemma qsum_app a b : qsum (a ++ b) == qsum a + qsum b.
Proof.
  induction a as [|x a IH]; cbn [app].
  - cbn [qsum]. ring.
  - rewrite !qsum_cons, IH. ring.
Qed.
Lemma qprod_app a b : qprod (a ++ b) == qprod a * qprod b.
Proof.
  induction a as [|x a IH]; cbn [app].
  - cbn [qprod]. ring.
  - rewrite !qprod_cons, IH. ring.
Qed.

Lemma qsum_perm a b : Permutation a b -> qsum a == qsum b.
Proof.
  induction 1.
  - reflexivity.
  - rewrite !qsum_cons, IHPermutation. reflexivity.
  - rewrite !qsum_cons. ring.
  - etransitivity; eassumption.
Qed.

Lemma qsum_map_ext {A} (f g : A -> Q) l : (forall x, In x l -> f x == g x) -> qsum (map f l) == qsum (map g l).
Proof.
  induction l as [|x l IH]; intros H; cbn [map].
  - reflexivity.
  - rewrite !qsum_cons, IH, (H x) by (intros; try apply H; cbn; auto). reflexivity.
Qed.
Lemma qprod_map_ext {A} (f g : A -> Q) l : (forall x, In x l -> f x == g x) -> qprod (map f l) == qprod (map g l).
Proof.
  induction l as [|x l IH]; intros H; cbn [map].
  - reflexivity.
  - rewrite !qprod_cons, IH, (H x) by (intros; try apply H; cbn; auto). reflexivity.
Qed.

Lemma qsum_map_add {A} (f g : A -> Q) l : qsum (map (fun x => f x + g x) l) == qsum (map f l) + qsum (map g l).
Proof. induction l as [|x l IH]; cbn [map]; [cbn; ring|]. rewrite !qsum_cons, IH. ring. Qed.
Lemma qsum_map_scal {A} (a : Q) (f : A -> Q) l : qsum (map (fun x => a * f x) l) == a * qsum (map f l).
Proof. induction l as [|x l IH]; cbn [map]; [cbn; ring|]. rewrite !qsum_cons, IH. ring. Qed.
Lemma qsum_map_const {A} (b : Q) (l : list A) : qsum (map (fun _ => b) l) == inject_Z (Z.of_nat (length l)) * b.
Proof.
  induction l as [|x l IH]; cbn [map length]; [cbn; ring|].
  rewrite qsum_cons, IH, Nat2Z.inj_succ. unfold Z.succ. rewrite inject_Z_plus. ring.
Qed.
Lemma qprod_map_mul {A} (f g : A -> Q) l : qprod (map (fun x => f x * g x) l) == qprod (map f l) * qprod (map g l).
Proof. induction l as [|x l IH]; cbn [map]; [cbn; ring|]. rewrite !qprod_cons, IH. ring. Qed.

Lemma qprod_nonzero l : Forall (fun x => ~ x == 0) l -> ~ qprod l == 0.
Proof.
  induction 1 as [|x l Hx _ IH]; [cbn; discriminate|].
  rewrite qprod_cons. intros E. apply Qmult_integral in E. tauto.
Qed.

Lemma nrows_map {A} (f : A -> list Q) (D : list A) : nrows (map f D) = inject_Z (Z.of_nat (length D)).
Proof. unfold nrows. now rewrite map_length. Qed.

Lemma nrows_nonzero D : D <> [] -> ~ nrows D == 0.
Proof.
  intros H E. destruct D as [|r D]; [congruence|]. unfold nrows in E. cbn [length] in E.
  rewrite Nat2Z.inj_succ in E. unfold Qeq in E. cbn in E. lia.
Qed.

(* ------------------------------------------------------------------------------------------------ *)
(* scatter entries                                                                                    *)
(* ------------------------------------------------------------------------------------------------ *)
Lemma scf_ext f f' g g' D : (forall r, In r D -> f r == f' r) -> (forall r, In r D -> g r == g' r) ->
  scf f g D == scf f' g' D.
Proof.
  intros Hf Hg. unfold scf.
  rewrite (qsum_map_ext (fun r => f r * g r) (fun r => f' r * g' r)), (qsum_map_ext f f'), (qsum_map_ext g g'); auto.
  - reflexivity.
  - intros r Hr. now rewrite Hf, Hg.
Qed.

Lemma scf_sym f g D : scf f g D == scf g f D.
Proof.
  unfold scf. rewrite (qsum_map_ext (fun r => f r * g r) (fun r => g r * f r)) by (intros; cbv beta; ring). unfold Qdiv. ring.
Qed.

Lemma scf_perm f g D D' : Permutation D D' -> scf f g D == scf f g D'.
Proof.
  intros P. unfold scf, nrows.
  rewrite (qsum_perm _ _ (Permutation_map (fun r => f r * g r) P)), (qsum_perm _ _ (Permutation_map f P)),
          (qsum_perm _ _ (Permutation_map g P)), (Permutation_length P). reflexivity.
Qed.

(* f -> a f + b on the left: the constant drops out, the factor comes out *)
Lemma scf_affine_l a b f g D : scf (fun r => a * f r + b) g D == a * scf f g D.
Proof.
  unfold scf.
  rewrite (qsum_map_ext (fun r => (a * f r + b) * g r) (fun r => a * (f r * g r) + b * g r)) by (intros; cbv beta; ring).
  rewrite qsum_map_add, !qsum_map_scal, (qsum_map_add (fun r => a * f r) (fun _ => b)), qsum_map_scal, qsum_map_const.
  destruct D as [|r0 D'].
  - cbn [map qsum length]. unfold Qdiv. ring.
  - set (D := r0 :: D'). assert (HN : ~ nrows D == 0) by (apply nrows_nonzero; discriminate).
    unfold nrows in *. field. exact HN.
Qed.
Lemma scf_affine_r a b f g D : scf f (fun r => a * g r + b) D == a * scf f g D.
Proof. rewrite scf_sym, scf_affine_l, scf_sym. reflexivity. Qed.

(* the scatter entry is the centred sum of products *)
Lemma sc_is_centred D i j : D <> [] -> sc D i j == sc_centred D i j.
Proof.
  intros HD. unfold sc, sc_centred. rewrite Qred_correct. unfold scf, mean.
  set (f := getc i). set (g := getc j). set (mf := qsum (map f D) / nrows D). set (mg := qsum (map g D) / nrows D).
  rewrite (qsum_map_ext (fun r => (f r - mf) * (g r - mg)) (fun r => (f r * g r + (- mg) * f r) + ((- mf) * g r + mf * mg)))
    by (intros; cbv beta; ring).
  rewrite qsum_map_add, (qsum_map_add (fun r => f r * g r)), (qsum_map_add (fun r => - mf * g r) (fun _ => mf * mg)),
          !qsum_map_scal, qsum_map_const.
  subst mf mg. pose proof (nrows_nonzero D HD) as HN. unfold nrows in *. field. exact HN.
Qed.

Lemma sc_sym D i j : sc D i j = sc D j i.
Proof. unfold sc. apply Qred_complete, scf_sym. Qed.

Lemma sc_perm D D' i j : Permutation D D' -> sc D i j = sc D' i j.
Proof. intros P. unfold sc. apply Qred_complete, scf_perm, P. Qed.

Lemma gram_perm D D' idx : Permutation D D' -> gram D idx = gram D' idx.
Proof.
  intros P. unfold gram. apply map_ext. intros i. apply map_ext. intros j. apply sc_perm, P.
Qed.

(* ------------------------------------------------------------------------------------------------ *)
(* (b) the order of the samples (rows) is irrelevant                                                  *)
(* ------------------------------------------------------------------------------------------------ *)
Lemma det_idx_perm D D' idx : Permutation D D' -> det_idx D idx = det_idx D' idx.
Proof. intros P. unfold det_idx. now rewrite (gram_perm D D' idx P). Qed.

Theorem ratio_det_row_perm D D' ix iy iz : Permutation D D' -> ratio_det D ix iy iz = ratio_det D' ix iy iz.
Proof. intros P. unfold ratio_det. now rewrite !(det_idx_perm D D' _ P). Qed.

Lemma corr_det_perm D D' idx : Permutation D D' -> corr_det D idx = corr_det D' idx.
Proof.
  intros P. unfold corr_det, corr_of, diag_prod. rewrite (det_idx_perm D D' idx P).
  replace (map (fun i => sc D i i) idx) with (map (fun i => sc D' i i) idx); [reflexivity|].
  apply map_ext. intros i. symmetry. apply sc_perm, P.
Qed.

Theorem ratio_corr_row_perm D D' ix iy iz : Permutation D D' -> ratio_corr D ix iy iz = ratio_corr D' ix iy iz.
Proof. intros P. unfold ratio_corr. now rewrite !(corr_det_perm D D' _ P). Qed.

(* ------------------------------------------------------------------------------------------------ *)
(* elimination commutes with diagonal scaling:  G'_ij == s_i t_j G_ij  ==>  pivot'_k == s_k t_k pivot_k *)
(* (with s = t = 1 this is the ==-congruence of pivots)                                               *)
(* ------------------------------------------------------------------------------------------------ *)
Inductive vscaled (a : Q) : list Q -> list Q -> list Q -> Prop :=
| vs_nil : vscaled a [] [] []
| vs_cons tj t x r x' r' : x' == a * tj * x -> vscaled a t r r' -> vscaled a (tj :: t) (x :: r) (x' :: r').
Inductive mscaled : list Q -> list Q -> list (list Q) -> list (list Q) -> Prop :=
| ms_nil t : mscaled [] t [] []
| ms_cons si s t row row' G G' : vscaled si t row row' -> mscaled s t G G' ->
    mscaled (si :: s) t (row :: G) (row' :: G').
Inductive pscaled : list Q -> list Q -> list Q -> list Q -> Prop :=
| ps_nil : pscaled [] [] [] []
| ps_cons si s ti t p ps p' ps' : p' == si * ti * p -> pscaled s t ps ps' ->
    pscaled (si :: s) (ti :: t) (p :: ps) (p' :: ps').
Definition opt_rel {A} (R : A -> A -> Prop) (a b : option A) : Prop :=
  match a, b with Some x, Some y => R x y | None, None => True | _, _ => False end.

Lemma elim_tail_scaled si s1 t1 c c' p p' : forall t rest rest' r r',
  c' == si * t1 * c -> p' == s1 * t1 * p -> ~ p == 0 -> ~ s1 == 0 -> ~ t1 == 0 ->
  vscaled si t rest rest' -> vscaled s1 t r r' ->
  vscaled si t (map2 (fun x y => Qred (x - c * y / p)) rest r) (map2 (fun x y => Qred (x - c' * y / p')) rest' r').
Proof.
  intros t rest rest' r r' Hc Hp Hp0 Hs Ht H. revert r r'.
  induction H as [|tj t x rest x' rest' Hx H IH]; intros r r' Hr; inversion Hr; subst; cbn [map2].
  - constructor.
  - constructor; [|apply IH; assumption].
    rewrite !Qred_correct. rewrite Hx, Hc, Hp. match goal with E : _ == s1 * tj * _ |- _ => rewrite E end.
    field. repeat split; assumption.
Qed.

Lemma schur_step_scaled s1 t1 p p' r r' : forall s t rows rows',
  p' == s1 * t1 * p -> ~ p == 0 -> ~ s1 == 0 -> ~ t1 == 0 -> vscaled s1 t r r' ->
  mscaled s (t1 :: t) rows rows' -> mscaled s t (schur_step p r rows) (schur_step p' r' rows').
Proof.
  intros s t rows rows' Hp Hp0 Hs Ht Hr H. remember (t1 :: t) as tt eqn:Et. revert Et.
  induction H as [|si s tt row row' G G' Hrow H IH]; intros Et; subst; cbn [schur_step map].
  - constructor.
  - constructor; [|apply IH; reflexivity].
    inversion Hrow; subst. cbn [elim_row]. eapply elim_tail_scaled; eassumption.
Qed.

Lemma scaled_zero_iff a b p p' : p' == a * b * p -> ~ a == 0 -> ~ b == 0 -> (p' == 0 <-> p == 0).
Proof.
  intros E Ha Hb. split; intros H.
  - rewrite E in H. apply Qmult_integral in H. destruct H as [H|H]; [|exact H].
    apply Qmult_integral in H. tauto.
  - rewrite E, H. ring.
Qed.

Lemma pivots_scaled : forall n s t G G', length s = n -> length t = n ->
  Forall (fun x => ~ x == 0) s -> Forall (fun x => ~ x == 0) t -> mscaled s t G G' ->
  opt_rel (pscaled s t) (pivots n G) (pivots n G').
Proof.
  induction n as [|n IH]; intros s t G G' Ls Lt Fs Ft H.
  - destruct s; [|discriminate]. destruct t; [|discriminate]. cbn. constructor.
  - destruct s as [|s1 s]; [discriminate|]. destruct t as [|t1 t]; [discriminate|].
    inversion H as [|? ? ? row row' G0 G0' Hrow Hrest]; subst.
    inversion Hrow as [|? ? p r p' r' Hp Hr]; subst.
    inversion Fs; inversion Ft; subst. cbn [pivots].
    pose proof (scaled_zero_iff s1 t1 p p' Hp ltac:(assumption) ltac:(assumption)) as Hz.
    destruct (Qeq_bool p 0) eqn:E0; destruct (Qeq_bool p' 0) eqn:E0'.
    + exact I.
    + apply Qeq_bool_iff in E0. apply Hz in E0. apply Qeq_bool_iff in E0. congruence.
    + apply Qeq_bool_iff in E0'. apply Hz in E0'. apply Qeq_bool_iff in E0'. congruence.
    + assert (Hp0 : ~ p == 0) by (intros C; apply Qeq_bool_iff in C; congruence).
      specialize (IH s t (schur_step p r G0) (schur_step p' r' G0') ltac:(cbn in Ls; lia) ltac:(cbn in Lt; lia)
                     ltac:(assumption) ltac:(assumption)
                     (schur_step_scaled s1 t1 p p' r r' s t G0 G0' Hp Hp0 ltac:(assumption) ltac:(assumption) Hr Hrest)).
      destruct (pivots n (schur_step p r G0)), (pivots n (schur_step p' r' G0')); cbn in IH |- *; try exact IH.
      constructor; assumption.
Qed.

Lemma pscaled_prod s t ps ps' : pscaled s t ps ps' -> qprod ps' == qprod s * qprod t * qprod ps.
Proof.
  induction 1 as [|si s ti t p ps p' ps' Hp _ IH]; [cbn; ring|].
  rewrite !qprod_cons, IH, Hp. ring.
Qed.

Lemma mscaled_length s t G G' : mscaled s t G G' -> length G = length s /\ length G' = length s.
Proof. induction 1; cbn; [tauto|]. destruct IHmscaled. split; congruence. Qed.

Lemma det_piv_scaled s t G G' : length s = length t ->
  Forall (fun x => ~ x == 0) s -> Forall (fun x => ~ x == 0) t -> mscaled s t G G' ->
  opt_rel (fun d d' => d' == qprod s * qprod t * d) (det_piv G) (det_piv G').
Proof.
  intros L Fs Ft H. destruct (mscaled_length _ _ _ _ H) as [L1 L2]. unfold det_piv. rewrite L1, L2.
  pose proof (pivots_scaled (length s) s t G G' eq_refl (eq_sym L) Fs Ft H) as P.
  destruct (pivots (length s) G), (pivots (length s) G'); cbn in P |- *; try exact P.
  apply pscaled_prod, P.
Qed.

(* every pivot, hence every determinant the model returns, is non-zero *)
Lemma pivots_nonzero : forall n G ps, pivots n G = Some ps -> Forall (fun x => ~ x == 0) ps.
Proof.
  induction n as [|n IH]; intros G ps H; cbn [pivots] in H.
  - inversion H. constructor.
  - destruct G as [|[|p r] rows]; try discriminate.
    destruct (Qeq_bool p 0) eqn:E0; [discriminate|].
    destruct (pivots n (schur_step p r rows)) as [qs|] eqn:E; [|discriminate]. inversion H; subst.
    constructor; [|eapply IH; eassumption]. intros C. apply Qeq_bool_iff in C. congruence.
Qed.
Lemma det_piv_nonzero G d : det_piv G = Some d -> ~ d == 0.
Proof.
  unfold det_piv. destruct (pivots (length G) G) as [ps|] eqn:E; [|discriminate]. intros H. inversion H; subst.
  apply qprod_nonzero. eapply pivots_nonzero, E.
Qed.

(* a doubly indexed family scaled by sf i * tf j gives scaled matrices *)
Lemma mscaled_family {A} (sf tf : A -> Q) (F F' : A -> A -> Q) (J : list A) :
  (forall i j, F' i j == sf i * tf j * F i j) ->
  forall I, mscaled (map sf I) (map tf J) (map (fun i => map (F i) J) I) (map (fun i => map (F' i) J) I).
Proof.
  intros H. induction I as [|i I IH]; cbn [map]; constructor; [|exact IH].
  clear IH. induction J as [|j J IHJ]; cbn [map]; constructor; [apply H|exact IHJ].
Qed.

Definition sprod (sf : nat -> Q) (idx : list nat) : Q := qprod (map sf idx).

Lemma det_idx_scaled D D' sf idx : (forall i, ~ sf i == 0) ->
  (forall i j, sc D' i j == sf i * sf j * sc D i j) ->
  opt_rel (fun d d' => d' == sprod sf idx * sprod sf idx * d) (det_idx D idx) (det_idx D' idx).
Proof.
  intros Hs H. unfold det_idx, gram, sprod.
  apply det_piv_scaled; [reflexivity| | |apply (mscaled_family sf sf (sc D) (sc D') idx H)];
    apply Forall_forall; intros x Hx; apply in_map_iff in Hx; destruct Hx as [i [<- _]]; apply Hs.
Qed.

Lemma sprod_app sf a b : sprod sf (a ++ b) == sprod sf a * sprod sf b.
Proof. unfold sprod. rewrite map_app. apply qprod_app. Qed.
Lemma sprod_nonzero sf idx : (forall i, ~ sf i == 0) -> ~ sprod sf idx == 0.
Proof.
  intros H. apply qprod_nonzero, Forall_forall. intros x Hx. apply in_map_iff in Hx. destruct Hx as [i [<- _]]. apply H.
Qed.

(* the ratio is unchanged when every scatter entry (i,j) is multiplied by sf i * sf j *)
Lemma ratio_det_scaled D D' sf ix iy iz : (forall i, ~ sf i == 0) ->
  (forall i j, sc D' i j == sf i * sf j * sc D i j) -> ratio_det D' ix iy iz = ratio_det D ix iy iz.
Proof.
  intros Hs H. unfold ratio_det.
  pose proof (det_idx_scaled D D' sf (ix ++ iz) Hs H) as H1. pose proof (det_idx_scaled D D' sf (iy ++ iz) Hs H) as H2.
  pose proof (det_idx_scaled D D' sf iz Hs H) as H3. pose proof (det_idx_scaled D D' sf (ix ++ iy ++ iz) Hs H) as H4.
  destruct (det_idx D (ix ++ iz)) as [a|] eqn:Ea, (det_idx D' (ix ++ iz)) as [a'|]; cbn in H1; try contradiction; [|reflexivity].
  destruct (det_idx D (iy ++ iz)) as [b|] eqn:Eb, (det_idx D' (iy ++ iz)) as [b'|]; cbn in H2; try contradiction; [|reflexivity].
  destruct (det_idx D iz) as [c|] eqn:Ec, (det_idx D' iz) as [c'|]; cbn in H3; try contradiction; [|reflexivity].
  destruct (det_idx D (ix ++ iy ++ iz)) as [d|] eqn:Ed, (det_idx D' (ix ++ iy ++ iz)) as [d'|]; cbn in H4; try contradiction;
    [|reflexivity].
  cbn [ratio_of]. f_equal. apply Qred_complete.
  rewrite H1, H2, H3, H4, !sprod_app.
  pose proof (sprod_nonzero sf ix Hs). pose proof (sprod_nonzero sf iy Hs). pose proof (sprod_nonzero sf iz Hs).
  pose proof (det_piv_nonzero _ _ Ec). pose proof (det_piv_nonzero _ _ Ed).
  field. repeat split; assumption.
Qed.

(* ------------------------------------------------------------------------------------------------ *)
(* (c) affine rescaling of any column                                                                 *)
(* ------------------------------------------------------------------------------------------------ *)
Lemma getc_upd_same f : forall c r, (c < length r)%nat -> getc c (upd c f r) = f (getc c r).
Proof.
  unfold getc. induction c as [|c IH]; intros [|x r] H; cbn [length] in H; try lia; cbn [upd nth].
  - reflexivity.
  - apply IH. lia.
Qed.
Lemma getc_upd_other f : forall c i r, i <> c -> getc i (upd c f r) = getc i r.
Proof.
  unfold getc. induction c as [|c IH]; intros i [|x r] H; cbn [upd]; try reflexivity.
  - destruct i; [congruence|reflexivity].
  - destruct i; [reflexivity|]. cbn [nth]. apply IH. congruence.
Qed.

Lemma scf_map f g (u : list Q -> list Q) D : scf f g (map u D) = scf (fun r => f (u r)) (fun r => g (u r)) D.
Proof. unfold scf, nrows. now rewrite !map_map, map_length. Qed.

Definition colscale (c : nat) (a : Q) (i : nat) : Q := if Nat.eqb i c then a else 1.

Lemma sc_rescale c a b D i j : Forall (fun r => (c < length r)%nat) D ->
  sc (rescale_col c a b D) i j == colscale c a i * colscale c a j * sc D i j.
Proof.
  intros HD. rewrite Forall_forall in HD. unfold sc, rescale_col, colscale. rewrite !Qred_correct, scf_map.
  destruct (Nat.eqb i c) eqn:Ei; destruct (Nat.eqb j c) eqn:Ej;
    try (apply Nat.eqb_eq in Ei; subst i); try (apply Nat.eqb_eq in Ej; subst j);
    try apply Nat.eqb_neq in Ei; try apply Nat.eqb_neq in Ej.
  - rewrite (scf_ext _ (fun r => a * getc c r + b) _ (fun r => a * getc c r + b))
      by (intros r Hr; rewrite getc_upd_same by (apply HD, Hr); reflexivity).
    rewrite scf_affine_l, scf_affine_r. ring.
  - rewrite (scf_ext _ (fun r => a * getc c r + b) _ (getc j))
      by (intros r Hr; first [rewrite getc_upd_same by (apply HD, Hr)|rewrite getc_upd_other by assumption]; reflexivity).
    rewrite scf_affine_l. ring.
  - rewrite (scf_ext _ (getc i) _ (fun r => a * getc c r + b))
      by (intros r Hr; first [rewrite getc_upd_same by (apply HD, Hr)|rewrite getc_upd_other by assumption]; reflexivity).
    rewrite scf_affine_r. ring.
  - rewrite (scf_ext _ (getc i) _ (getc j)) by (intros r Hr; rewrite getc_upd_other by assumption; reflexivity).
    ring.
Qed.

Lemma colscale_nonzero c a : ~ a == 0 -> forall i, ~ colscale c a i == 0.
Proof. intros Ha i. unfold colscale. destruct (Nat.eqb i c); [exact Ha|discriminate]. Qed.

Theorem ratio_det_affine_invariant c a b D ix iy iz : ~ a == 0 -> Forall (fun r => (c < length r)%nat) D ->
  ratio_det (rescale_col c a b D) ix iy iz = ratio_det D ix iy iz.
Proof.
  intros Ha HD. apply (ratio_det_scaled D _ (colscale c a)); [apply colscale_nonzero, Ha|].
  intros i j. apply sc_rescale, HD.
Qed.

(* correlation determinants are themselves unchanged by the scaling *)
Lemma diag_prod_scaled D D' sf idx : (forall i j, sc D' i j == sf i * sf j * sc D i j) ->
  diag_prod D' idx == sprod sf idx * sprod sf idx * diag_prod D idx.
Proof.
  intros H. unfold diag_prod, sprod.
  rewrite (qprod_map_ext (fun i => sc D' i i) (fun i => (sf i * sf i) * sc D i i)) by (intros; apply H).
  rewrite qprod_map_mul, qprod_map_mul. reflexivity.
Qed.

Lemma corr_det_scaled D D' sf idx : (forall i, ~ sf i == 0) ->
  (forall i j, sc D' i j == sf i * sf j * sc D i j) -> corr_det D' idx = corr_det D idx.
Proof.
  intros Hs H. unfold corr_det, corr_of. destruct idx as [|i0 [|i1 idx']]; try reflexivity.
  set (idx := i0 :: i1 :: idx').
  pose proof (det_idx_scaled D D' sf idx Hs H) as Hd. pose proof (diag_prod_scaled D D' sf idx H) as Hp.
  pose proof (sprod_nonzero sf idx Hs) as Hn.
  destruct (det_idx D idx) as [d|], (det_idx D' idx) as [d'|]; unfold opt_rel in Hd; try contradiction; [|reflexivity].
  assert (Hz : diag_prod D' idx == 0 <-> diag_prod D idx == 0).
  { rewrite Hp. split; intros E; [|rewrite E; ring].
    apply Qmult_integral in E. destruct E as [E|E]; [|exact E]. apply Qmult_integral in E. tauto. }
  destruct (Qeq_bool (diag_prod D idx) 0) eqn:E0; destruct (Qeq_bool (diag_prod D' idx) 0) eqn:E0'; try reflexivity.
  - apply Qeq_bool_iff in E0. apply Hz in E0. apply Qeq_bool_iff in E0. congruence.
  - apply Qeq_bool_iff in E0'. apply Hz in E0'. apply Qeq_bool_iff in E0'. congruence.
  - f_equal. apply Qred_complete. rewrite Hd, Hp.
    assert (~ diag_prod D idx == 0) by (intros C; apply Qeq_bool_iff in C; congruence).
    field. split; assumption.
Qed.

Theorem ratio_corr_affine_invariant c a b D ix iy iz : ~ a == 0 -> Forall (fun r => (c < length r)%nat) D ->
  ratio_corr (rescale_col c a b D) ix iy iz = ratio_corr D ix iy iz.
Proof.
  intros Ha HD. unfold ratio_corr.
  rewrite !(corr_det_scaled D _ (colscale c a) _ (colscale_nonzero c a Ha) (fun i j => sc_rescale c a b D i j HD)).
  reflexivity.
Qed.

(* ------------------------------------------------------------------------------------------------ *)
(* correlation scaling cancels: the code's form equals the scatter/covariance determinant form        *)
(* ------------------------------------------------------------------------------------------------ *)
Lemma det_piv_1 p : det_piv [[p]] = if Qeq_bool p 0 then None else Some (qprod [p]).
Proof. unfold det_piv. cbn [length pivots schur_step map]. destruct (Qeq_bool p 0); reflexivity. Qed.
Lemma det_piv_2 a b c d : det_piv [[a; b]; [c; d]] =
  if Qeq_bool a 0 then None
  else if Qeq_bool (Qred (d - c * b / a)) 0 then None else Some (qprod [a; Qred (d - c * b / a)]).
Proof.
  unfold det_piv. cbn [length pivots schur_step map elim_row map2].
  destruct (Qeq_bool a 0); [reflexivity|]. destruct (Qeq_bool (Qred (d - c * b / a)) 0); reflexivity.
Qed.
Lemma det_idx_nil D : det_idx D [] = Some 1.
Proof. reflexivity. Qed.

Lemma diag_prod_app D a b : diag_prod D (a ++ b) == diag_prod D a * diag_prod D b.
Proof. unfold diag_prod. rewrite map_app. apply qprod_app. Qed.
Lemma diag_prod_nonzero D idx : Forall (fun i => ~ sc D i i == 0) idx -> ~ diag_prod D idx == 0.
Proof.
  intros H. apply qprod_nonzero, Forall_forall. intros x Hx. apply in_map_iff in Hx. destruct Hx as [i [<- Hi]].
  rewrite Forall_forall in H. apply H, Hi.
Qed.

Lemma corr_det_spec D idx d : det_idx D idx = Some d -> Forall (fun i => ~ sc D i i == 0) idx ->
  exists c, corr_det D idx = Some c /\ c == d / diag_prod D idx.
Proof.
  intros Hd Hn. pose proof (diag_prod_nonzero D idx Hn) as Hp. unfold corr_det, corr_of.
  destruct idx as [|i0 [|i1 idx']].
  - exists 1. split; [reflexivity|]. rewrite det_idx_nil in Hd. inversion Hd. reflexivity.
  - exists 1. split; [reflexivity|]. unfold det_idx, gram in Hd. cbn [map] in Hd. rewrite det_piv_1 in Hd.
    destruct (Qeq_bool (sc D i0 i0) 0); [discriminate|]. assert (Ed : d = qprod [sc D i0 i0]) by congruence. subst d.
    unfold diag_prod in *. cbn [map] in *. field. exact Hp.
  - rewrite Hd. destruct (Qeq_bool (diag_prod D (i0 :: i1 :: idx')) 0) eqn:E.
    + apply Qeq_bool_iff in E. contradiction.
    + eexists. split; [reflexivity|]. apply Qred_correct.
Qed.

Theorem ratio_scale_free D ix iy iz q : Forall (fun i => ~ sc D i i == 0) (ix ++ iy ++ iz) ->
  ratio_det D ix iy iz = Some q -> ratio_corr D ix iy iz = Some q.
Proof.
  intros Hn H. unfold ratio_det in H. unfold ratio_corr.
  apply Forall_app in Hn. destruct Hn as [Hx Hn]. apply Forall_app in Hn. destruct Hn as [Hy Hz].
  destruct (det_idx D (ix ++ iz)) as [a|] eqn:Ea; [|discriminate]. destruct (det_idx D (iy ++ iz)) as [b|] eqn:Eb; [|discriminate].
  destruct (det_idx D iz) as [c|] eqn:Ec; [|discriminate]. destruct (det_idx D (ix ++ iy ++ iz)) as [d|] eqn:Ed; [|discriminate].
  unfold ratio_of in H. assert (Hq : q = Qred (a * b / (c * d))) by congruence. subst q. clear H.
  destruct (corr_det_spec D _ a Ea) as [a' [-> Ha']]; [apply Forall_app; tauto|].
  destruct (corr_det_spec D _ b Eb) as [b' [-> Hb']]; [apply Forall_app; tauto|].
  destruct (corr_det_spec D _ c Ec) as [c' [-> Hc']]; [assumption|].
  destruct (corr_det_spec D _ d Ed) as [d' [-> Hd']]; [apply Forall_app; split; [|apply Forall_app]; tauto|].
  unfold ratio_of. f_equal. apply Qred_complete. rewrite Ha', Hb', Hc', Hd', !diag_prod_app.
  pose proof (diag_prod_nonzero D ix Hx). pose proof (diag_prod_nonzero D iy Hy). pose proof (diag_prod_nonzero D iz Hz).
  pose proof (det_piv_nonzero _ _ Ec). pose proof (det_piv_nonzero _ _ Ed).
  field. repeat split; assumption.
Qed.

(* ------------------------------------------------------------------------------------------------ *)
(* (f) chain rule  I(X; Y,Z) = I(X; Z) + I(X; Y | Z)  as a product of ratios (telescoping determinants) *)
(* ------------------------------------------------------------------------------------------------ *)
Theorem ratio_det_chain_rule D ix iy iz q2 q3 :
  ratio_det D ix iz [] = Some q2 -> ratio_det D ix iy iz = Some q3 ->
  exists q1, ratio_det D ix (iy ++ iz) [] = Some q1 /\ q1 == q2 * q3.
Proof.
  unfold ratio_det. rewrite !app_nil_r, det_idx_nil. intros H2 H3.
  destruct (det_idx D ix) as [a|] eqn:Ea; [|discriminate]. destruct (det_idx D iz) as [c|] eqn:Ec; [|discriminate].
  destruct (det_idx D (ix ++ iz)) as [f|] eqn:Ef; [|discriminate]. destruct (det_idx D (iy ++ iz)) as [b|] eqn:Eb; [|discriminate].
  destruct (det_idx D (ix ++ iy ++ iz)) as [e|] eqn:Ee; [|discriminate].
  unfold ratio_of in *. assert (E2 : q2 = Qred (a * c / (1 * f))) by congruence.
  assert (E3 : q3 = Qred (f * b / (c * e))) by congruence. subst q2 q3. eexists. split; [reflexivity|].
  rewrite !Qred_correct.
  pose proof (det_piv_nonzero _ _ Ec). pose proof (det_piv_nonzero _ _ Ef). pose proof (det_piv_nonzero _ _ Ee).
  field. repeat split; assumption.
Qed.

(* ------------------------------------------------------------------------------------------------ *)
(* (a) scalar X, Y, no Z:  ratio * (sxx syy - sxy^2) = sxx syy,  i.e.  ratio = 1 / (1 - r^2)          *)
(* ------------------------------------------------------------------------------------------------ *)
Theorem ratio_det_scalar D i j q : ratio_det D [i] [j] [] = Some q ->
  q * (sc D i i * sc D j j - sc D i j * sc D i j) == sc D i i * sc D j j /\ ~ sc D i i * sc D j j == 0.
Proof.
  unfold ratio_det. cbn [app]. rewrite det_idx_nil. unfold det_idx, gram. cbn [map].
  rewrite !det_piv_1, det_piv_2, (sc_sym D j i).
  destruct (Qeq_bool (sc D i i) 0) eqn:Ei; [discriminate|]. destruct (Qeq_bool (sc D j j) 0) eqn:Ej; [discriminate|].
  destruct (Qeq_bool (Qred (sc D j j - sc D i j * sc D i j / sc D i i)) 0) eqn:Ee; [discriminate|].
  unfold ratio_of. intros H.
  match type of H with Some ?t = _ => assert (Hq : q = t) by congruence end. subst q. clear H.
  assert (Hi : ~ sc D i i == 0) by (intros C; apply Qeq_bool_iff in C; congruence).
  assert (Hj : ~ sc D j j == 0) by (intros C; apply Qeq_bool_iff in C; congruence).
  assert (He : ~ sc D j j - sc D i j * sc D i j / sc D i i == 0)
    by (intros C; rewrite <- Qred_correct in C; apply Qeq_bool_iff in C; congruence).
  split; [|intros C; apply Qmult_integral in C; tauto].
  rewrite !Qred_correct, !qprod_cons, Qred_correct. cbn [qprod].
  field. split; [exact Hi|]. intros C. apply He.
  setoid_replace (sc D j j - sc D i j * sc D i j / sc D i i) with ((sc D j j * sc D i i - sc D i j * sc D i j) / sc D i i)
    by (field; exact Hi).
  rewrite C. field. exact Hi.
Qed.

Theorem ratio_det_scalar_symmetric D i j : ratio_det D [i] [j] [] = ratio_det D [j] [i] [].
Proof.
  unfold ratio_det. cbn [app]. rewrite det_idx_nil. unfold det_idx, gram. cbn [map].
  rewrite !det_piv_1, !det_piv_2, (sc_sym D j i).
  destruct (Qeq_bool (sc D i i) 0) eqn:Ei; destruct (Qeq_bool (sc D j j) 0) eqn:Ej; try reflexivity.
  assert (Hi : ~ sc D i i == 0) by (intros C; apply Qeq_bool_iff in C; congruence).
  assert (Hj : ~ sc D j j == 0) by (intros C; apply Qeq_bool_iff in C; congruence).
  set (ei := Qred (sc D j j - sc D i j * sc D i j / sc D i i)). set (ej := Qred (sc D i i - sc D i j * sc D i j / sc D j j)).
  assert (Hrel : ei * sc D i i == ej * sc D j j) by (subst ei ej; rewrite !Qred_correct; field; split; assumption).
  assert (Hz : ei == 0 <-> ej == 0).
  { split; intros E.
    - assert (P : ej * sc D j j == 0) by (rewrite <- Hrel, E; ring). apply Qmult_integral in P. tauto.
    - assert (P : ei * sc D i i == 0) by (rewrite Hrel, E; ring). apply Qmult_integral in P. tauto. }
  destruct (Qeq_bool ei 0) eqn:E1; destruct (Qeq_bool ej 0) eqn:E2; try reflexivity.
  - apply Qeq_bool_iff in E1. apply Hz in E1. apply Qeq_bool_iff in E1. congruence.
  - apply Qeq_bool_iff in E2. apply Hz in E2. apply Qeq_bool_iff in E2. congruence.
  - unfold ratio_of. f_equal. apply Qred_complete. rewrite !qprod_cons. cbn [qprod]. rewrite ?Qred_correct.
    assert (~ ei == 0) by (intros C; apply Qeq_bool_iff in C; congruence).
    assert (~ ej == 0) by (intros C; apply Qeq_bool_iff in C; congruence).
    assert (Hrel' : ej == ei * sc D i i / sc D j j) by (rewrite Hrel; field; exact Hj).
    rewrite Hrel'. field. repeat split; assumption.
Qed.

(* (d) X/Y swap, general blocks: the numerator is symmetric; what remains is the invariance of the joint
   determinant under the simultaneous row/column permutation (proved for matrices over any field in GaussMx.v) *)
Theorem ratio_det_swap_partial D ix iy iz : det_idx D (ix ++ iy ++ iz) = det_idx D (iy ++ ix ++ iz) ->
  ratio_det D ix iy iz = ratio_det D iy ix iz.
Proof.
  intros H. unfold ratio_det. rewrite H.
  destruct (det_idx D (ix ++ iz)), (det_idx D (iy ++ iz)), (det_idx D iz), (det_idx D (iy ++ ix ++ iz)); try reflexivity.
  unfold ratio_of. f_equal. apply Qred_complete. unfold Qdiv. ring.
Qed.

(* ------------------------------------------------------------------------------------------------ *)
(* residual vectors: inner products, projections, Cauchy-Schwarz                                      *)
(* ------------------------------------------------------------------------------------------------ *)
Lemma dot_cons x a y b : dot (x :: a) (y :: b) == x * y + dot a b.
Proof. cbn [dot]. apply Qred_correct. Qed.
Lemma dot_nil_r a : dot a [] = 0.
Proof. destruct a; reflexivity. Qed.

Lemma dot_sym a : forall b, dot a b = dot b a.
Proof.
  induction a as [|x a IH]; intros [|y b]; try reflexivity.
  cbn [dot]. rewrite (IH b). apply Qred_complete. ring.
Qed.

Lemma sq_nonneg (x : Q) : 0 <= x * x.
Proof. destruct (Qlt_le_dec x 0); nra. Qed.

Lemma dot_nonneg a : 0 <= dot a a.
Proof.
  induction a as [|x a IH]; [cbn; lra|]. rewrite dot_cons. pose proof (sq_nonneg x). lra.
Qed.

Lemma dot_self_zero a : dot a a == 0 -> Forall (fun x => x == 0) a.
Proof.
  induction a as [|x a IH]; intros H; [constructor|]. rewrite dot_cons in H.
  pose proof (sq_nonneg x). pose proof (dot_nonneg a).
  assert (Hx : x * x == 0) by lra. assert (Ha : dot a a == 0) by lra.
  constructor; [|apply IH, Ha]. apply Qmult_integral in Hx. tauto.
Qed.

Lemma dot_zero_r a : forall b, Forall (fun x => x == 0) b -> dot a b == 0.
Proof.
  induction a as [|x a IH]; intros b Hb; [reflexivity|]. destruct b as [|y b]; [reflexivity|].
  inversion Hb as [|? ? Hy Hb']; subst. rewrite dot_cons, (IH b Hb'), Hy. ring.
Qed.

Definition comb (c : Q) (v b : list Q) : list Q := map2 (fun x y => Qred (x - c * y)) v b.

Lemma comb_length c : forall v b, length v = length b -> length (comb c v b) = length v.
Proof. unfold comb. induction v as [|x v IH]; intros [|y b] L; cbn [map2 length] in *; try lia. now rewrite (IH b) by lia. Qed.

(* <u, v - c b> = <u,v> - c <u,b> *)
Lemma dot_comb_r c : forall u v b, length u = length v -> length v = length b ->
  dot u (comb c v b) == dot u v - c * dot u b.
Proof.
  induction u as [|z u IH]; intros [|x v] [|y b] L1 L2; cbn [length] in *; try lia.
  - cbn. ring.
  - unfold comb. cbn [map2]. fold (comb c v b). rewrite !dot_cons, (IH v b) by lia. rewrite Qred_correct. ring.
Qed.
Lemma dot_comb_l c u v b : length u = length v -> length v = length b ->
  dot (comb c v b) u == dot v u - c * dot b u.
Proof. intros L1 L2. rewrite (dot_sym (comb c v b) u), (dot_sym v u), (dot_sym b u). apply dot_comb_r; assumption. Qed.

(* |v - c b|^2 = |v|^2 - 2 c <v,b> + c^2 |b|^2 *)
Lemma dot_comb_self c v b : length v = length b ->
  dot (comb c v b) (comb c v b) == dot v v - 2 * c * dot v b + c * c * dot b b.
Proof.
  intros L. rewrite dot_comb_l by (rewrite ?comb_length; auto). rewrite !dot_comb_r by auto.
  rewrite (dot_sym b v). ring.
Qed.

Lemma proj_out_comb b v : proj_out b v = comb (Qred (dot v b / dot b b)) v b.
Proof. reflexivity. Qed.

(* the projection residual is orthogonal to the direction projected out (also when that direction is 0) *)
Lemma proj_out_orth b v : length v = length b -> dot (proj_out b v) b == 0.
Proof.
  intros L. rewrite proj_out_comb, dot_comb_l, Qred_correct by auto.
  destruct (Qeq_dec (dot b b) 0) as [E|E].
  - rewrite (dot_zero_r v b (dot_self_zero b E)), E. unfold Qdiv. ring.
  - field. exact E.
Qed.

(* each projection can only shrink the squared norm *)
Lemma proj_out_norm b v : length v = length b ->
  dot (proj_out b v) (proj_out b v) == dot v v - dot v b * dot v b / dot b b.
Proof.
  intros L. rewrite proj_out_comb, dot_comb_self, Qred_correct by auto.
  destruct (Qeq_dec (dot b b) 0) as [E|E].
  - rewrite (dot_zero_r v b (dot_self_zero b E)), E. unfold Qdiv. ring.
  - field. exact E.
Qed.

Lemma div_nonneg (a b : Q) : 0 <= a -> 0 <= b -> 0 <= a / b.
Proof.
  intros Ha Hb. destruct (Qeq_dec b 0) as [E|E].
  - rewrite E. unfold Qdiv, Qinv. cbn. rewrite Qmult_0_r. lra.
  - apply Qle_shift_div_l; [|lra]. destruct (Qle_lt_or_eq _ _ Hb) as [?|E']; [assumption|]. symmetry in E'. contradiction.
Qed.

Lemma proj_out_shrinks b v : length v = length b -> dot (proj_out b v) (proj_out b v) <= dot v v.
Proof.
  intros L. rewrite proj_out_norm by auto.
  pose proof (div_nonneg _ _ (sq_nonneg (dot v b)) (dot_nonneg b)). lra.
Qed.

Theorem cauchy_schwarz a b : length a = length b -> dot a b * dot a b <= dot a a * dot b b.
Proof.
  intros L. destruct (Qeq_dec (dot b b) 0) as [E|E].
  - rewrite (dot_zero_r a b (dot_self_zero b E)), E. lra.
  - pose proof (dot_nonneg (proj_out b a)) as H. rewrite proj_out_norm in H by auto.
    pose proof (dot_nonneg b) as Hb. assert (Hb' : 0 < dot b b) by (destruct (Qle_lt_or_eq _ _ Hb) as [?|E']; [assumption|symmetry in E'; contradiction]).
    assert (H2 : dot a b * dot a b / dot b b <= dot a a) by lra.
    apply (Qmult_le_compat_r _ _ (dot b b)) in H2; [|lra].
    setoid_replace (dot a b * dot a b / dot b b * dot b b) with (dot a b * dot a b) in H2 by (field; exact E). exact H2.
Qed.

(* ---- lengths: every vector the residual form manipulates has one entry per sample ---------------- *)
Lemma proj_out_length b v : length v = length b -> length (proj_out b v) = length v.
Proof. intros L. rewrite proj_out_comb. apply comb_length, L. Qed.

Lemma resid_length n : forall B v, Forall (fun b => length b = n) B -> length v = n -> length (resid B v) = n.
Proof.
  unfold resid. induction B as [|b B IH]; intros v HB Lv; cbn [fold_left]; [exact Lv|].
  inversion HB; subst. apply IH; [assumption|]. rewrite proj_out_length; congruence.
Qed.

Lemma gs_acc_length n : forall cols acc, Forall (fun b => length b = n) acc -> Forall (fun b => length b = n) cols ->
  Forall (fun b => length b = n) (gs_acc acc cols).
Proof.
  induction cols as [|c cols IH]; intros acc Ha Hc; cbn [gs_acc]; [exact Ha|].
  inversion Hc; subst. apply IH; [|assumption]. apply Forall_app. split; [exact Ha|].
  constructor; [|constructor]. apply resid_length; auto.
Qed.

Lemma col_length D i : length (col D i) = length D.
Proof. apply map_length. Qed.

Lemma zbasis_length D iz : Forall (fun b => length b = length D) (zbasis D iz).
Proof.
  unfold zbasis. apply gs_acc_length; [constructor|]. constructor; [apply map_length|].
  apply Forall_forall. intros c Hc. apply in_map_iff in Hc. destruct Hc as [i [<- _]]. apply col_length.
Qed.

Lemma residual_length D iz i : length (resid (zbasis D iz) (col D i)) = length D.
Proof. apply resid_length; [apply zbasis_length|apply col_length]. Qed.

(* ------------------------------------------------------------------------------------------------ *)
(* (a), (e) scalar X and Y, any conditioning set: partial correlation form and non-negativity          *)
(* ------------------------------------------------------------------------------------------------ *)
Lemma ratio_res_scalar_unfold D i j iz :
  let rx := resid (zbasis D iz) (col D i) in let ry := resid (zbasis D iz) (col D j) in
  ratio_res D [i] [j] iz =
  ratio_of (det_piv [[dot rx rx]]) (det_piv [[dot ry ry]]) (Some 1) (det_piv [[dot rx rx; dot rx ry]; [dot ry rx; dot ry ry]]).
Proof. reflexivity. Qed.

Theorem ratio_res_scalar D i j iz q : ratio_res D [i] [j] iz = Some q ->
  let rx := resid (zbasis D iz) (col D i) in let ry := resid (zbasis D iz) (col D j) in
  q * (dot rx rx * dot ry ry - dot rx ry * dot rx ry) == dot rx rx * dot ry ry /\ ~ dot rx rx * dot ry ry == 0 /\ 1 <= q.
Proof.
  intros H rx ry. rewrite ratio_res_scalar_unfold in H. fold rx ry in H.
  rewrite !det_piv_1, det_piv_2, (dot_sym ry rx) in H.
  set (xx := dot rx rx) in *. set (yy := dot ry ry) in *. set (xy := dot rx ry) in *.
  destruct (Qeq_bool xx 0) eqn:Ex; [discriminate|]. destruct (Qeq_bool yy 0) eqn:Ey; [discriminate|].
  destruct (Qeq_bool (Qred (yy - xy * xy / xx)) 0) eqn:Ee; [discriminate|].
  unfold ratio_of in H.
  match type of H with Some ?t = _ => assert (Hq : q = t) by congruence end. clear H.
  assert (Hx : ~ xx == 0) by (intros C; apply Qeq_bool_iff in C; congruence).
  assert (He : ~ yy - xy * xy / xx == 0) by (intros C; rewrite <- Qred_correct in C; apply Qeq_bool_iff in C; congruence).
  assert (Hd : ~ yy * xx - xy * xy == 0).
  { intros C. apply He. setoid_replace (yy - xy * xy / xx) with ((yy * xx - xy * xy) / xx) by (field; exact Hx).
    rewrite C. field. exact Hx. }
  assert (Hqv : q == xx * yy / (xx * yy - xy * xy)).
  { subst q. rewrite !Qred_correct, !qprod_cons, Qred_correct. cbn [qprod]. field. repeat split; try assumption; intros C; apply Hd; rewrite <- C; ring. }
  assert (Hy : ~ yy == 0) by (intros C; apply Qeq_bool_iff in C; congruence).
  split; [|split].
  - rewrite Hqv. field. intros C. apply Hd. rewrite <- C. ring.
  - intros C. apply Qmult_integral in C. tauto.
  - assert (L : length rx = length ry) by (unfold rx, ry; rewrite !residual_length; reflexivity).
    pose proof (cauchy_schwarz rx ry L) as CS. fold xx yy xy in CS.
    pose proof (dot_nonneg rx) as Px. pose proof (dot_nonneg ry) as Py. fold xx in Px. fold yy in Py.
    pose proof (sq_nonneg xy) as Pxy.
    assert (Hpos : 0 < xx * yy - xy * xy).
    { assert (0 <= xx * yy - xy * xy) by lra. destruct (Qle_lt_or_eq _ _ H) as [?|E]; [assumption|].
      exfalso. apply Hd. setoid_replace (yy * xx - xy * xy) with (xx * yy - xy * xy) by ring. symmetry. exact E. }
    rewrite Hqv. apply Qle_shift_div_l; [exact Hpos|]. lra.
Qed.

(* ------------------------------------------------------------------------------------------------ *)
(* the residual vectors satisfy the normal equations of the regression on (1, Z)                      *)
(* ------------------------------------------------------------------------------------------------ *)
Definition orth_family (B : list (list Q)) : Prop := ForallOrdPairs (fun a b => dot a b == 0) B.

(* projecting out directions orthogonal to u does not change the inner product with u *)
Lemma dot_resid_keep n u : length u = n -> forall B v, Forall (fun b => length b = n) B -> length v = n ->
  Forall (fun b => dot b u == 0) B -> dot (resid B v) u == dot v u.
Proof.
  intros Lu. unfold resid. induction B as [|b B IH]; intros v HB Lv HO; cbn [fold_left]; [reflexivity|].
  inversion HB; inversion HO; subst.
  rewrite IH by (try assumption; rewrite proj_out_length; congruence).
  rewrite proj_out_comb, dot_comb_l by congruence. match goal with E : dot b u == 0 |- _ => rewrite E end. ring.
Qed.

Lemma resid_orth n : forall B v, Forall (fun b => length b = n) B -> length v = n -> orth_family B ->
  Forall (fun b => dot (resid B v) b == 0) B.
Proof.
  induction B as [|b B IH]; intros v HB Lv HO; [constructor|].
  inversion HB as [|? ? Lb HB']; subst. inversion HO as [|? ? Hb HO']; subst.
  assert (Lp : length (proj_out b v) = length v) by (rewrite proj_out_length; congruence).
  constructor.
  - change (resid (b :: B) v) with (resid B (proj_out b v)).
    rewrite (dot_resid_keep (length v) b Lb B (proj_out b v) HB' Lp).
    + apply proj_out_orth. congruence.
    + apply Forall_forall. intros b' Hb'. rewrite (dot_sym b' b). rewrite Forall_forall in Hb. apply Hb, Hb'.
  - change (resid (b :: B) v) with (resid B (proj_out b v)). apply IH; assumption.
Qed.

Lemma orth_family_snoc B r : orth_family B -> Forall (fun b => dot r b == 0) B -> orth_family (B ++ [r]).
Proof.
  induction 1 as [|b B Hb HB IH]; intros Hr; cbn [app].
  - constructor; constructor.
  - inversion Hr; subst. constructor; [|apply IH; assumption].
    apply Forall_app. split; [exact Hb|]. constructor; [|constructor]. rewrite (dot_sym b r). assumption.
Qed.

Lemma gs_acc_orth n : forall cols acc, Forall (fun b => length b = n) acc -> Forall (fun b => length b = n) cols ->
  orth_family acc -> orth_family (gs_acc acc cols).
Proof.
  induction cols as [|c cols IH]; intros acc Ha Hc HO; cbn [gs_acc]; [exact HO|].
  inversion Hc as [|? ? Lc Hc']; subst. apply IH; [|assumption|].
  - apply Forall_app. split; [exact Ha|]. constructor; [|constructor]. apply resid_length; auto.
  - apply orth_family_snoc; [exact HO|]. apply (resid_orth (length c)); auto.
Qed.

Lemma gs_acc_incl : forall cols acc b, In b acc -> In b (gs_acc acc cols).
Proof.
  induction cols as [|c cols IH]; intros acc b Hb; cbn [gs_acc]; [exact Hb|]. apply IH, in_or_app. tauto.
Qed.

(* a vector orthogonal to the Gram-Schmidt family is orthogonal to every column the family was built from *)
Lemma gs_acc_orth_cols n u : length u = n -> forall cols acc, Forall (fun b => length b = n) acc ->
  Forall (fun b => length b = n) cols -> Forall (fun b => dot b u == 0) (gs_acc acc cols) ->
  Forall (fun c => dot c u == 0) cols.
Proof.
  intros Lu. induction cols as [|c cols IH]; intros acc Ha Hc HO; [constructor|]. cbn [gs_acc] in HO.
  inversion Hc as [|? ? Lc Hc']; subst.
  assert (Ha' : Forall (fun b => length b = length u) (acc ++ [resid acc c])).
  { apply Forall_app. split; [exact Ha|]. constructor; [|constructor]. apply resid_length; auto. }
  constructor; [|apply (IH _ Ha' Hc' HO)].
  rewrite Forall_forall in HO.
  rewrite <- (dot_resid_keep (length u) u eq_refl acc c Ha Lc).
  - apply HO, gs_acc_incl, in_or_app. right. left. reflexivity.
  - apply Forall_forall. intros b Hb. apply HO, gs_acc_incl, in_or_app. left. exact Hb.
Qed.

Lemma zbasis_orth D iz : orth_family (zbasis D iz).
Proof.
  unfold zbasis. apply (gs_acc_orth (length D)); [constructor| |constructor].
  constructor; [apply map_length|]. apply Forall_forall. intros c Hc. apply in_map_iff in Hc.
  destruct Hc as [i [<- _]]. apply col_length.
Qed.

(* normal equations: the residual of column i is orthogonal to the constant vector and to every Z column *)
Theorem residual_normal_equations D iz i : let r := resid (zbasis D iz) (col D i) in
  dot (ones D) r == 0 /\ Forall (fun k => dot (col D k) r == 0) iz.
Proof.
  intros r.
  assert (Lr : length r = length D) by apply residual_length.
  assert (HO : Forall (fun b => dot b r == 0) (zbasis D iz)).
  { pose proof (resid_orth (length D) (zbasis D iz) (col D i) (zbasis_length D iz) (col_length D i) (zbasis_orth D iz)) as H.
    apply Forall_forall. intros b Hb. rewrite Forall_forall in H. rewrite (dot_sym b r). apply H, Hb. }
  assert (HC : Forall (fun c => dot c r == 0) (ones D :: map (col D) iz)).
  { apply (gs_acc_orth_cols (length D) r Lr _ []); [constructor| |exact HO].
    constructor; [apply map_length|]. apply Forall_forall. intros c Hc. apply in_map_iff in Hc.
    destruct Hc as [k [<- _]]. apply col_length. }
  inversion HC as [|? ? H1 H2]; subst. split; [exact H1|].
  apply Forall_forall. intros k Hk. rewrite Forall_forall in H2. apply H2, in_map, Hk.
Qed.

(* and it differs from the column only inside span(1, Z): same inner product with everything orthogonal to the basis *)
Theorem residual_same_off_span D iz i u : length u = length D -> Forall (fun b => dot b u == 0) (zbasis D iz) ->
  dot (resid (zbasis D iz) (col D i)) u == dot (col D i) u.
Proof.
  intros Lu HO. apply (dot_resid_keep (length D) u Lu); [apply zbasis_length|apply col_length|exact HO].
Qed.

(* ------------------------------------------------------------------------------------------------ *)
(* (e) non-negativity in every dimension, on the sequential residual form: ratio_seq >= 1               *)
(* ------------------------------------------------------------------------------------------------ *)
Lemma resid_app B1 B2 v : resid (B1 ++ B2) v = resid B2 (resid B1 v).
Proof. unfold resid. apply fold_left_app. Qed.

Lemma resid_shrinks n : forall B v, Forall (fun b => length b = n) B -> length v = n ->
  dot (resid B v) (resid B v) <= dot v v.
Proof.
  induction B as [|b B IH]; intros v HB Lv; [cbn; lra|].
  inversion HB as [|? ? Lb HB']; subst. change (resid (b :: B) v) with (resid B (proj_out b v)).
  eapply Qle_trans; [apply IH; [exact HB'|rewrite proj_out_length; congruence]|].
  apply proj_out_shrinks. congruence.
Qed.

Lemma gs_acc_prefix : forall cols acc, exists ext, gs_acc acc cols = acc ++ ext.
Proof.
  induction cols as [|c cols IH]; intros acc; cbn [gs_acc]; [exists []; now rewrite app_nil_r|].
  destruct (IH (acc ++ [resid acc c])) as [ext E]. exists ([resid acc c] ++ ext). now rewrite E, app_assoc.
Qed.

Lemma res_factors_shrink n : forall ys base xs, Forall (fun b => length b = n) base ->
  Forall (fun b => length b = n) xs -> Forall (fun b => length b = n) ys ->
  Forall (fun nd => 0 <= snd nd /\ snd nd <= fst nd) (res_factors base xs ys).
Proof.
  induction ys as [|y ys IH]; intros base xs Hb Hx Hy; cbn [res_factors]; [constructor|].
  inversion Hy as [|? ? Ly Hy']; subst. constructor.
  - cbn [fst snd]. split; [apply dot_nonneg|].
    destruct (gs_acc_prefix xs base) as [ext E]. rewrite E, resid_app.
    apply (resid_shrinks (length y)); [|apply resid_length; auto].
    pose proof (gs_acc_length (length y) xs base Hb Hx) as H. rewrite E in H. apply Forall_app in H. tauto.
  - apply IH; [|assumption|assumption]. apply Forall_app. split; [exact Hb|].
    constructor; [|constructor]. apply resid_length; auto.
Qed.

Lemma qprod_quot_ge_1 (fs : list (Q * Q)) : Forall (fun nd => 0 < snd nd /\ snd nd <= fst nd) fs ->
  0 < qprod (map snd fs) /\ qprod (map snd fs) <= qprod (map fst fs).
Proof.
  induction 1 as [|[nu de] fs [Hd Hn] _ [IH1 IH2]]; cbn [map fst snd] in *.
  - cbn. split; lra.
  - rewrite !qprod_cons. split.
    + apply Qmult_lt_0_compat; assumption.
    + apply Qle_trans with (de * qprod (map fst fs)).
      * apply Qmult_le_l; assumption.
      * apply Qmult_le_compat_r; [exact Hn|lra].
Qed.

Theorem ratio_seq_ge_1 D ix iy iz q : ratio_seq D ix iy iz = Some q -> 1 <= q.
Proof.
  unfold ratio_seq. set (fs := res_factors (zbasis D iz) (map (col D) ix) (map (col D) iy)).
  destruct (existsb (fun nd => Qeq_bool (snd nd) 0) fs) eqn:E; [discriminate|]. intros H.
  match type of H with Some ?t = _ => assert (Hq : q = t) by congruence end. subst q. clear H.
  assert (Hc : forall l, Forall (fun b => length b = length D) (map (col D) l)).
  { intros l. apply Forall_forall. intros c Hc. apply in_map_iff in Hc. destruct Hc as [k [<- _]]. apply col_length. }
  pose proof (res_factors_shrink (length D) (map (col D) iy) (zbasis D iz) (map (col D) ix) (zbasis_length D iz) (Hc ix) (Hc iy)) as HS.
  fold fs in HS.
  assert (HP : Forall (fun nd => 0 < snd nd /\ snd nd <= fst nd) fs).
  { rewrite Forall_forall in *. intros nd Hnd. destruct (HS nd Hnd) as [H0 H1]. split; [|exact H1].
    destruct (Qle_lt_or_eq _ _ H0) as [?|E0]; [assumption|]. exfalso.
    assert (existsb (fun nd => Qeq_bool (snd nd) 0) fs = true); [|congruence].
    apply existsb_exists. exists nd. split; [exact Hnd|]. apply Qeq_bool_iff. symmetry. exact E0. }
  destruct (qprod_quot_ge_1 fs HP) as [P1 P2]. rewrite Qred_correct. apply Qle_shift_div_l; [exact P1|]. lra.
Qed.

(* ------------------------------------------------------------------------------------------------ *)
(* non-vacuity: a concrete non-degenerate sample on which every hypothesis above holds                *)
(* ------------------------------------------------------------------------------------------------ *)
Definition exD : list (list Q) :=
  [[1; 2; 0; 5]; [2; 1; 1; 3]; [3; 5; 1; 1]; [4; 3; 0; 4]; [6; 4; 2; 2]; [5; 7; 3; 6]; [7; 6; 1; 0]].
Example ex_forms_agree :
  ratio_det exD [0%nat] [1%nat] [2%nat; 3%nat] = Some (21571505 # 15613024) /\
  ratio_corr exD [0%nat] [1%nat] [2%nat; 3%nat] = Some (21571505 # 15613024) /\
  ratio_res exD [0%nat] [1%nat] [2%nat; 3%nat] = Some (21571505 # 15613024) /\
  ratio_seq exD [0%nat] [1%nat] [2%nat; 3%nat] = Some (21571505 # 15613024) /\
  ratio_seq exD [0%nat; 2%nat] [1%nat; 3%nat] [] = ratio_det exD [0%nat; 2%nat] [1%nat; 3%nat] [] /\
  ratio_seq exD [0%nat; 2%nat] [1%nat; 3%nat] [] <> None.
Proof. vm_compute. repeat split. discriminate. Qed.
Example ex_chain_rule_hypotheses :
  ratio_det exD [0%nat] [2%nat; 3%nat] [] <> None /\ ratio_det exD [0%nat] [1%nat] [2%nat; 3%nat] <> None /\
  Forall (fun i => ~ sc exD i i == 0) ([0%nat] ++ [1%nat] ++ [2%nat; 3%nat]).
Proof. split; [vm_compute; discriminate|]. split; [vm_compute; discriminate|]. repeat constructor; vm_compute; discriminate. Qed.
Example ex_affine_instance :
  ratio_det (rescale_col 1 (-3 # 2) 7 exD) [0%nat] [1%nat] [2%nat; 3%nat] = ratio_det exD [0%nat] [1%nat] [2%nat; 3%nat] /\
  Forall (fun r => (1 < length r)%nat) exD.
Proof. split; [vm_compute; reflexivity|repeat constructor]. Qed.
Example ex_scalar_hypotheses : ratio_det exD [0%nat] [1%nat] [] <> None /\ ratio_res exD [0%nat] [1%nat] [2%nat] <> None.
Proof. vm_compute. split; discriminate. Qed.
Example ex_row_perm : ratio_det (rev exD) [0%nat] [1%nat] [2%nat; 3%nat] = ratio_det exD [0%nat] [1%nat] [2%nat; 3%nat].
Proof. apply ratio_det_row_perm. symmetry. apply Permutation_rev. Qed.
