(* Further unbounded facts about the coupled logistic-map model (Model/Logistic.v):
   the parameter range of C19 is sharp (r > 4 or r < 0 leaves [0,1] from inside it), the
   uncoupled network (sigma = 0) is the plain logistic map per node, and trajectories have
   the documented shape.  Proofs only. *)
From Coq Require Import List QArith Lqa Lia.
From CE Require Import Model.Logistic Proofs.LogisticProofs.
Import ListNotations.
Open Scope Q_scope.

(* sharpness of r <= 4: the image of 1/2 is r/4 *)
Lemma fmap_half r : fmap r (1 # 2) == r / 4.
Proof. unfold fmap. field. Qed.

Lemma fmap_escapes_above r : 4 < r -> in_unit (1 # 2) /\ ~ in_unit (fmap r (1 # 2)).
Proof.
  intros Hr. split; [unfold in_unit; split; lra|].
  intros [_ H1]. rewrite fmap_half in H1.
  assert (H : r / 4 == r * (1 # 4)) by field. rewrite H in H1. lra.
Qed.

Lemma fmap_escapes_below r : r < 0 -> in_unit (1 # 2) /\ ~ in_unit (fmap r (1 # 2)).
Proof.
  intros Hr. split; [unfold in_unit; split; lra|].
  intros [H0 _]. rewrite fmap_half in H0.
  assert (H : r / 4 == r * (1 # 4)) by field. rewrite H in H0. lra.
Qed.

(* shape: a step keeps the number of nodes when W has one row per node *)
Lemma step_length r s W x : length W = length x -> length (step r s W x) = length x.
Proof.
  intros H. unfold step. rewrite map_length, combine_length, map_length, H. apply Nat.min_id.
Qed.

Lemma traj_length r s W : forall steps x0, length (traj r s W x0 steps) = S steps.
Proof. induction steps as [|k IH]; intros x0; cbn [traj length]; [reflexivity|]. rewrite IH. reflexivity. Qed.

Lemma traj_rows_length r s W : forall steps x0, length W = length x0 ->
  Forall (fun row => length row = length x0) (traj r s W x0 steps).
Proof.
  induction steps as [|k IH]; intros x0 H; cbn [traj].
  - constructor; [reflexivity|constructor].
  - constructor; [reflexivity|].
    assert (Hs : length (step r s W x0) = length x0) by (apply step_length; exact H).
    specialize (IH (step r s W x0)). rewrite Hs in IH. apply IH. exact H.
Qed.

(* the trajectory starts at the initial condition *)
Lemma traj_head r s W steps x0 : hd [] (traj r s W x0 steps) = x0.
Proof. destruct steps; reflexivity. Qed.
