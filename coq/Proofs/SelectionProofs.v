From Coq Require Import List Arith Lia Bool Permutation ZArith.
From CE Require Import Model.Selection.
Import ListNotations.

Section OCSE.
Variable f : nat -> list nat -> Z.
Variable gF gB : nat -> list nat -> bool.
Variable init : list nat.

Notation argmax := Selection.argmax.
Notation std_fwd := (Selection.std_fwd f gF init).
Notation alt_fwd := (Selection.alt_fwd f gF init).
Notation bwd := (Selection.bwd gB).
Notation std_rule := (Selection.std_rule f gF init).
Notation alt_rule := (Selection.alt_rule f gF init).
Notation bwd_rule := (Selection.bwd_rule gB).
Notation maximal := (Selection.maximal f init).

Lemma argmax_first_spec score l : forall best, let r := argmax_first score best l in
  In r (best :: l) /\ (forall j, In j (best :: l) -> (score j <= score r)%Z).
Proof.
  induction l as [|x l IH]; intros best; cbn [argmax_first].
  - split; [left; reflexivity|]. intros j [->|[]]; lia.
  - destruct (score best <? score x)%Z eqn:E.
    + destruct (IH x) as [Hin Hmax]. split.
      * destruct Hin as [<-|Hin]; [right; left; reflexivity| right; right; exact Hin].
      * intros j [<-|[<-|Hj]]; [|apply Hmax; left; reflexivity|apply Hmax; right; exact Hj].
        apply Z.ltb_lt in E. specialize (Hmax x (or_introl eq_refl)). lia.
    + destruct (IH best) as [Hin Hmax]. split.
      * destruct Hin as [<-|Hin]; [left; reflexivity| right; right; exact Hin].
      * intros j [<-|[<-|Hj]]; [apply Hmax; left; reflexivity| |apply Hmax; right; exact Hj].
        apply Z.ltb_ge in E. specialize (Hmax best (or_introl eq_refl)). lia.
Qed.

Lemma argmax_maximal c cs S : maximal (c :: cs) S (argmax (fun j => f j (init ++ S)) (c :: cs)).
Proof. unfold Selection.maximal, Selection.argmax. apply (argmax_first_spec (fun j => f j (init ++ S)) cs c). Qed.

Lemma remove_length_lt j l : In j l -> length (remove Nat.eq_dec j l) < length l.
Proof.
  induction l as [|x l IH]; [intros []|]. intros H. cbn [remove]. destruct (Nat.eq_dec j x).
  - pose proof (remove_length_le Nat.eq_dec l j). cbn [length]. lia.
  - cbn [length]. destruct H; [congruence|]. specialize (IH H). lia.
Qed.

Theorem std_fwd_sound : forall fuel cands S, length cands <= fuel -> std_rule cands S (std_fwd fuel cands S).
Proof.
  induction fuel as [|fuel IH]; intros cands S Hlen.
  - destruct cands; [constructor| cbn in Hlen; lia].
  - destruct cands as [|c cs]; [constructor|].
    cbn [Selection.std_fwd].
    pose proof (argmax_maximal c cs S) as Hm.
    set (j := argmax (fun j => f j (init ++ S)) (c :: cs)) in *.
    apply sr_step with (j := j); [exact Hm|].
    pose proof (remove_length_lt j (c :: cs) (proj1 Hm)).
    destruct (gF j (init ++ S)); apply IH; lia.
Qed.

Theorem alt_fwd_sound : forall fuel cands S, length cands <= fuel -> alt_rule cands S (alt_fwd fuel cands S).
Proof.
  induction fuel as [|fuel IH]; intros cands S Hlen.
  - destruct cands; [constructor| cbn in Hlen; lia].
  - destruct cands as [|c cs]; [constructor|].
    cbn [Selection.alt_fwd].
    pose proof (argmax_maximal c cs S) as Hm.
    set (j := argmax (fun j => f j (init ++ S)) (c :: cs)) in *.
    destruct (gF j (init ++ S)) eqn:E.
    + apply ar_step with (j := j); [exact Hm|exact E|].
      pose proof (remove_length_lt j (c :: cs) (proj1 Hm)). apply IH; lia.
    + apply ar_stop with (j := j); assumption.
Qed.

(* backward elimination along ANY visiting order that enumerates the forward set *)
Lemma remove_perm j o todo : NoDup todo -> Permutation (j :: o) todo -> Permutation o (remove Nat.eq_dec j todo).
Proof.
  intros Hnd P.
  assert (Hnd' : NoDup (j :: o)) by (eapply Permutation_NoDup; [apply Permutation_sym; exact P|exact Hnd]).
  inversion Hnd' as [|? ? Hnotin Hndo]; subst.
  apply NoDup_Permutation; [exact Hndo| |].
  - clear - Hnd. induction todo as [|x t IH]; cbn [remove]; [constructor|].
    inversion Hnd; subst. destruct (Nat.eq_dec j x); [auto|]. constructor; auto.
    intros Hin. apply in_remove in Hin. tauto.
  - intros x. split; intros Hx.
    + apply in_in_remove; [intros ->; contradiction|]. eapply Permutation_in; [exact P|right; exact Hx].
    + apply in_remove in Hx. destruct Hx as [Hx Hne].
      assert (In x (j :: o)) by (eapply Permutation_in; [apply Permutation_sym; exact P|exact Hx]).
      destruct H as [->|H]; [congruence|exact H].
Qed.

Lemma nodup_remove j (l : list nat) : NoDup l -> NoDup (remove Nat.eq_dec j l).
Proof.
  induction l as [|x t IH]; cbn [remove]; intros H; [constructor|]. inversion H; subst.
  destruct (Nat.eq_dec j x); [auto|]. constructor; auto. intros Hin. apply in_remove in Hin. tauto.
Qed.

Theorem bwd_sound : forall order todo S, NoDup todo -> Permutation order todo -> bwd_rule todo S (bwd order S).
Proof.
  induction order as [|j o IH]; intros todo S Hnd P.
  - apply Permutation_nil in P. subst. constructor.
  - cbn [Selection.bwd].
    assert (Hin : In j todo) by (eapply Permutation_in; [exact P|left; reflexivity]).
    apply br_step with (j := j); [exact Hin|].
    pose proof (remove_perm j o todo Hnd P) as P'. pose proof (nodup_remove j todo Hnd) as Hnd'.
    destruct (gB j (remove Nat.eq_dec j S)); apply IH; assumption.
Qed.

(* ---- structural facts that hold for EVERY result the rule allows ------------------------ *)
Lemma std_rule_inv cands S R : std_rule cands S R ->
  NoDup cands -> NoDup S -> (forall x, In x S -> ~ In x cands) ->
  NoDup R /\ incl R (S ++ cands) /\ incl S R.
Proof.
  induction 1 as [S|cands S j R [Hin Hmax] Hr IH]; intros Hc Hs Hd.
  - rewrite app_nil_r. repeat split; auto using incl_refl.
  - assert (Hc' : NoDup (remove Nat.eq_dec j cands)) by (apply nodup_remove; exact Hc).
    destruct (gF j (init ++ S)).
    + destruct IH as (N & I & I2); [exact Hc'| | |].
      * apply Permutation_NoDup with (l := j :: S); [apply Permutation_cons_append|]. constructor; [|exact Hs].
        intros HjS. exact (Hd j HjS Hin).
      * intros x Hx Hx'. apply in_remove in Hx'. destruct Hx' as [Hx' Hne].
        apply in_app_or in Hx. destruct Hx as [Hx|[->|[]]]; [exact (Hd x Hx Hx')|congruence].
      * repeat split; [exact N| |].
        -- intros x Hx. specialize (I x Hx). apply in_or_app. apply in_app_or in I. destruct I as [I|I].
           ++ apply in_app_or in I. destruct I as [I|[->|[]]]; [left; exact I|right; exact Hin].
           ++ right. apply in_remove in I. tauto.
        -- intros x Hx. apply I2, in_or_app. left; exact Hx.
    + destruct IH as (N & I & I2); [exact Hc'|exact Hs| |].
      * intros x Hx Hx'. apply in_remove in Hx'. exact (Hd x Hx (proj1 Hx')).
      * repeat split; [exact N| |exact I2].
        intros x Hx. specialize (I x Hx). apply in_or_app. apply in_app_or in I. destruct I as [I|I]; [left; exact I|].
        right. apply in_remove in I. tauto.
Qed.

Lemma alt_rule_inv cands S R : alt_rule cands S R ->
  NoDup cands -> NoDup S -> (forall x, In x S -> ~ In x cands) ->
  NoDup R /\ incl R (S ++ cands) /\ incl S R.
Proof.
  induction 1 as [S|cands S j Hm Hg|cands S j R [Hin Hmax] Hg Hr IH]; intros Hc Hs Hd.
  - rewrite app_nil_r. repeat split; auto using incl_refl.
  - repeat split; [exact Hs|apply incl_appl, incl_refl|apply incl_refl].
  - assert (Hc' : NoDup (remove Nat.eq_dec j cands)) by (apply nodup_remove; exact Hc).
    destruct IH as (N & I & I2); [exact Hc'| | |].
    + apply Permutation_NoDup with (l := j :: S); [apply Permutation_cons_append|]. constructor; [|exact Hs].
      intros HjS. exact (Hd j HjS Hin).
    + intros x Hx Hx'. apply in_remove in Hx'. destruct Hx' as [Hx' Hne].
      apply in_app_or in Hx. destruct Hx as [Hx|[->|[]]]; [exact (Hd x Hx Hx')|congruence].
    + repeat split; [exact N| |].
      * intros x Hx. specialize (I x Hx). apply in_or_app. apply in_app_or in I. destruct I as [I|I].
        -- apply in_app_or in I. destruct I as [I|[->|[]]]; [left; exact I|right; exact Hin].
        -- right. apply in_remove in I. tauto.
      * intros x Hx. apply I2, in_or_app. left; exact Hx.
Qed.

Lemma bwd_rule_inv todo S R : bwd_rule todo S R -> NoDup S -> NoDup R /\ incl R S.
Proof.
  induction 1 as [S|todo j S R Hin Hr IH]; intros Hs; [split; auto using incl_refl|].
  destruct (gB j (remove Nat.eq_dec j S)).
  - apply IH; exact Hs.
  - destruct IH as [N I]; [apply nodup_remove; exact Hs|]. split; [exact N|].
    intros x Hx. specialize (I x Hx). apply in_remove in I. tauto.
Qed.

Lemma fwd_rule_inv v n F : Selection.fwd_rule f gF init v n F -> NoDup F /\ incl F (seq 0 n).
Proof.
  destruct v; cbn [Selection.fwd_rule]; intros H.
  - destruct (std_rule_inv _ _ _ H (seq_NoDup n 0) (NoDup_nil _) ltac:(intros x [])) as (N & I & _). split; assumption.
  - destruct (alt_rule_inv _ _ _ H (seq_NoDup n 0) (NoDup_nil _) ltac:(intros x [])) as (N & I & _). split; assumption.
Qed.

Theorem fwd_in_rule v n : Selection.fwd_rule f gF init v n (Selection.fwd f gF init v n).
Proof.
  destruct v; cbn [Selection.fwd_rule Selection.fwd].
  - apply std_fwd_sound. rewrite seq_length. lia.
  - apply alt_fwd_sound. rewrite seq_length. lia.
Qed.

(* the model's result is allowed by the rule, for every landscape, verdict pattern, size and
   every visiting order that enumerates the forward set *)
Theorem ocse_in_spec v n order :
  Permutation order (Selection.fwd f gF init v n) ->
  Selection.ocse_spec f gF gB init v n (Selection.ocse f gF gB init v n order).
Proof.
  intros P. exists (Selection.fwd f gF init v n). split; [apply fwd_in_rule|].
  unfold Selection.ocse. apply bwd_sound; [|exact P].
  exact (proj1 (fwd_rule_inv v n _ (fwd_in_rule v n))).
Qed.

(* whatever the rule allows is a duplicate-free subset of the candidates: one edge per survivor *)
Theorem spec_result_wellformed v n R :
  Selection.ocse_spec f gF gB init v n R -> NoDup R /\ incl R (seq 0 n).
Proof.
  intros (F & HF & HB). destruct (fwd_rule_inv v n F HF) as [N I].
  destruct (bwd_rule_inv F F R HB N) as [N' I']. split; [exact N'|]. eapply incl_tran; eassumption.
Qed.

(* alternative variant: nothing is accepted after the first rejection, i.e. the forward result is
   a chain of successive accepted maxima *)
Theorem alt_stops_at_first_rejection fuel c cs S :
  gF (argmax (fun j => f j (init ++ S)) (c :: cs)) (init ++ S) = false -> alt_fwd (Datatypes.S fuel) (c :: cs) S = S.
Proof. intros H. cbn [Selection.alt_fwd]. rewrite H. reflexivity. Qed.

(* standard variant: a rejected candidate is discarded and the scan continues with the same conditioning set *)
Theorem std_continues_after_rejection fuel c cs S :
  let j := argmax (fun j => f j (init ++ S)) (c :: cs) in
  gF j (init ++ S) = false -> std_fwd (Datatypes.S fuel) (c :: cs) S = std_fwd fuel (remove Nat.eq_dec j (c :: cs)) S.
Proof. intros j H. cbn [Selection.std_fwd]. fold j. rewrite H. reflexivity. Qed.
End OCSE.

(* non-vacuity: a 3-candidate landscape with a tie, a rejection and a backward removal *)
Example ocse_instance :
  let tf := [(0, [], 5%Z); (1, [], 5%Z); (2, [], 1%Z); (1, [0], 2%Z); (2, [0], 3%Z); (1, [0;2], 1%Z)] in
  let tF := [(0, [], true); (2, [0], true); (1, [0;2], false)] in
  let tB := [(2, [0], true); (0, [2], false)] in
  ocse (tbl_f tf) (tbl_g tF) (tbl_g tB) [] Standard 3 [2; 0] = [2]
  /\ fwd (tbl_f tf) (tbl_g tF) [] Standard 3 = [0; 2]
  /\ fwd (tbl_f tf) (tbl_g tF) [] Alternative 3 = [0; 2].
Proof. vm_compute. repeat split; reflexivity. Qed.
