(* Lemmas about Model/Layout.v (axiom-free: lists, nat, Z, Q). *)
From Coq Require Import List Arith ZArith QArith Bool Permutation Lia Lqa Sorted.
From CE Require Import Model.Harness Model.Layout.
Import ListNotations.

Section NodesP.
Context {A : Type}.
Variable eqb : A -> A -> bool.
Hypothesis eqb_spec : forall a b, eqb a b = true <-> a = b.

Lemma mem_In x l : mem eqb x l = true <-> In x l.
Proof.
  induction l as [|y r IH]; cbn; [split; [discriminate|tauto]|].
  rewrite orb_true_iff, IH, eqb_spec. split; intros [H|H]; auto.
Qed.

Lemma list_eqb_eq : forall a b : list A, list_eqb eqb a b = true -> a = b.
Proof.
  induction a as [|x a IH]; destruct b as [|y b]; cbn; intros H; try discriminate; [reflexivity|].
  apply andb_true_iff in H. destruct H as [H1 H2]. apply eqb_spec in H1. apply IH in H2. congruence.
Qed.

(* ---- sorting ---- *)
Lemma insert_desc_perm {B} (key : B -> Z) x l : Permutation (insert_desc key x l) (x :: l).
Proof.
  induction l as [|y r IH]; cbn; [reflexivity|]. destruct (key x <? key y)%Z; [|reflexivity].
  transitivity (y :: x :: r); [apply perm_skip, IH|apply perm_swap].
Qed.
Lemma sort_desc_perm {B} (key : B -> Z) l : Permutation (sort_desc key l) l.
Proof.
  induction l as [|x r IH]; [reflexivity|]. unfold sort_desc in *. cbn [fold_right].
  rewrite insert_desc_perm. apply perm_skip, IH.
Qed.

(* ---- de-duplication ---- *)
Lemma dedup_In l : forall seen x, In x (dedup eqb seen l) <-> In x l /\ ~ In x seen.
Proof.
  induction l as [|y r IH]; intros seen x; cbn [dedup]; [cbn; tauto|].
  destruct (mem eqb y seen) eqn:E.
  - apply mem_In in E. rewrite IH. cbn [In]. split.
    + intros [H1 H2]; auto.
    + intros [[H|H] H2]; [subst; contradiction|auto].
  - assert (Hy : ~ In y seen) by (rewrite <- mem_In, E; discriminate).
    cbn [In]. rewrite IH. cbn [In]. split.
    + intros [H1|[H1 H2]]; [subst; auto|]. split; [auto|]. intros H3; apply H2; auto.
    + intros [[H1|H1] H2]; [auto|]. destruct (eqb y x) eqn:E2.
      * left. apply eqb_spec. exact E2.
      * right. split; [exact H1|]. intros [H3|H3]; [|auto]. apply eqb_spec in H3. congruence.
Qed.
Lemma dedup_NoDup l : forall seen, NoDup (dedup eqb seen l).
Proof.
  induction l as [|y r IH]; intros seen; cbn [dedup]; [constructor|].
  destruct (mem eqb y seen); [apply IH|]. constructor; [|apply IH].
  rewrite dedup_In. intros [_ H]. apply H. left. reflexivity.
Qed.

Lemma NoDup_app_intro (l1 l2 : list A) : NoDup l1 -> NoDup l2 -> (forall x, In x l1 -> ~ In x l2) -> NoDup (l1 ++ l2).
Proof.
  induction l1 as [|a l1 IH]; cbn; intros H1 H2 D; [exact H2|]. inversion H1; subst.
  constructor.
  - rewrite in_app_iff. intros [H|H]; [contradiction|]. apply (D a); auto.
  - apply IH; auto.
Qed.

(* ---- _communities_seed_order ---- *)
Lemma order_In deg (comms : list (list A)) x :
  In x (concat (map (sort_desc deg) (sort_desc size_key comms))) <-> exists c, In c comms /\ In x c.
Proof.
  rewrite in_concat. split.
  - intros [c' [H1 H2]]. apply in_map_iff in H1. destruct H1 as [c [E H1]]. subst c'.
    exists c. split.
    + eapply Permutation_in; [apply sort_desc_perm|exact H1].
    + eapply Permutation_in; [apply sort_desc_perm|exact H2].
  - intros [c [H1 H2]]. exists (sort_desc deg c). split.
    + apply in_map. eapply Permutation_in; [symmetry; apply sort_desc_perm|exact H1].
    + eapply Permutation_in; [symmetry; apply sort_desc_perm|exact H2].
Qed.

Lemma seed_order_NoDup deg comms nodes : NoDup (seed_order eqb deg comms nodes).
Proof.
  unfold seed_order; cbv zeta. apply NoDup_app_intro; try apply dedup_NoDup.
  intros x H1 H2. apply dedup_In in H2. tauto.
Qed.

Lemma seed_order_In deg comms nodes x :
  In x (seed_order eqb deg comms nodes) <-> (exists c, In c comms /\ In x c) \/ In x nodes.
Proof.
  unfold seed_order; cbv zeta. rewrite in_app_iff, !dedup_In, order_In. cbn [In].
  split.
  - intros [[H _]|[H _]]; auto.
  - intros [H|H]; [left; tauto|].
    destruct (mem eqb x (dedup eqb [] (concat (map (sort_desc deg) (sort_desc size_key comms))))) eqn:E.
    + apply mem_In in E. apply dedup_In in E. rewrite order_In in E. left. tauto.
    + right. split; [exact H|]. intros [HP _].
      assert (E' : mem eqb x (dedup eqb [] (concat (map (sort_desc deg) (sort_desc size_key comms)))) = true).
      { apply mem_In, dedup_In. rewrite order_In. cbn [In]. tauto. }
      congruence.
Qed.

Theorem seed_order_perm deg comms nodes :
  NoDup nodes -> (forall c x, In c comms -> In x c -> In x nodes) ->
  Permutation (seed_order eqb deg comms nodes) nodes.
Proof.
  intros Hn Hc. apply NoDup_Permutation; [apply seed_order_NoDup|exact Hn|].
  intros x. rewrite seed_order_In. split; [|auto].
  intros [[c [H1 H2]]|H]; [eapply Hc; eassumption|exact H].
Qed.

(* ---- moves ---- *)
Lemma update_perm : forall (l : list A) i a b, nth_error l i = Some a -> Permutation (b :: l) (a :: update i b l).
Proof.
  induction l as [|y r IH]; intros [|i] a b H; cbn in *; try discriminate.
  - inversion H; subst. apply perm_swap.
  - transitivity (y :: b :: r); [apply perm_swap|].
    transitivity (y :: a :: update i b r); [apply perm_skip, IH, H|apply perm_swap].
Qed.
Lemma nth_error_update_same : forall l i (x : A), (i < length l)%nat -> nth_error (update i x l) i = Some x.
Proof. induction l as [|y r IH]; intros [|i] x H; cbn in *; try lia; [reflexivity|]. apply IH. lia. Qed.
Lemma nth_error_update_other : forall l i j (x : A), i <> j -> nth_error (update i x l) j = nth_error l j.
Proof.
  induction l as [|y r IH]; intros [|i] [|j] x H; cbn; try reflexivity; try congruence.
  apply IH. congruence.
Qed.

Lemma swap_perm i j (l : list A) : Permutation (swap i j l) l.
Proof.
  unfold swap. destruct (nth_error l i) as [a|] eqn:Ei; [|reflexivity].
  destruct (nth_error l j) as [b|] eqn:Ej; [|reflexivity].
  pose proof (update_perm l i a b Ei) as H1.
  assert (Ej' : nth_error (update i b l) j = Some b).
  { destruct (Nat.eq_dec i j) as [->|Hn].
    - apply nth_error_update_same. apply nth_error_Some. congruence.
    - rewrite nth_error_update_other; auto. }
  pose proof (update_perm _ j b a Ej') as H2.
  apply Permutation_cons_inv with (a := b). symmetry. transitivity (a :: update i b l); assumption.
Qed.

Lemma skipn_add : forall a b (l : list A), skipn a (skipn b l) = skipn (b + a) l.
Proof.
  intros a b. induction b as [|b IH]; intros l; [reflexivity|]. destruct l as [|x l]; cbn [skipn plus].
  - destruct a; reflexivity.
  - apply IH.
Qed.

Lemma reverse_perm i j (l : list A) : Permutation (reverse i j l) l.
Proof.
  unfold reverse. destruct (i <=? j)%nat eqn:E; [|reflexivity]. apply Nat.leb_le in E.
  transitivity (firstn i l ++ firstn (S j - i) (skipn i l) ++ skipn (S j) l).
  - apply Permutation_app_head, Permutation_app_tail. symmetry. apply Permutation_rev.
  - replace (skipn (S j) l) with (skipn (S j - i) (skipn i l)) by (rewrite skipn_add; f_equal; lia).
    rewrite firstn_skipn, firstn_skipn. reflexivity.
Qed.

Lemma apply_move_perm m (l : list A) : Permutation (apply_move m l) l.
Proof. destruct m; cbn; [apply swap_perm|apply reverse_perm]. Qed.

Theorem optimize_perm ds : forall seed : list A, Permutation (optimize ds seed) seed.
Proof.
  unfold optimize. induction ds as [|[m acc] r IH]; intros seed; cbn [fold_left]; [reflexivity|].
  rewrite IH. unfold step; cbn [fst snd]. destruct acc; [apply apply_move_perm|reflexivity].
Qed.
Lemma optimize_length ds (seed : list A) : length (optimize ds seed) = length seed.
Proof. apply Permutation_length, optimize_perm. Qed.

Theorem optimizer_returns_perm deg comms nodes ds :
  NoDup nodes -> (forall c x, In c comms -> In x c -> In x nodes) ->
  Permutation (optimize ds (seed_order eqb deg comms nodes)) nodes.
Proof. intros H1 H2. rewrite optimize_perm. apply seed_order_perm; assumption. Qed.

(* ---- is_perm ---- *)
Lemma remove1_Some x : forall l l', remove1 eqb x l = Some l' -> Permutation l (x :: l').
Proof.
  induction l as [|y r IH]; intros l' H; cbn in H; [discriminate|].
  destruct (eqb x y) eqn:E.
  - apply eqb_spec in E. inversion H; subst. reflexivity.
  - destruct (remove1 eqb x r) as [r'|] eqn:E2; [|discriminate]. inversion H; subst.
    transitivity (y :: x :: r'); [apply perm_skip, IH; reflexivity|apply perm_swap].
Qed.
Lemma remove1_In x : forall l, In x l -> exists l', remove1 eqb x l = Some l'.
Proof.
  induction l as [|y r IH]; intros H; [destruct H|]. cbn. destruct (eqb x y) eqn:E; [eauto|].
  destruct H as [H|H]; [subst; assert (eqb x x = true) by (apply eqb_spec; reflexivity); congruence|].
  destruct (IH H) as [r' ->]. eauto.
Qed.
Theorem is_perm_correct : forall l1 l2 : list A, is_perm eqb l1 l2 = true <-> Permutation l1 l2.
Proof.
  induction l1 as [|x r IH]; intros l2; cbn [is_perm].
  - destruct l2; split; intros H; try reflexivity; try discriminate.
    apply Permutation_nil in H. discriminate.
  - split.
    + destruct (remove1 eqb x l2) as [l2'|] eqn:E; [|discriminate]. intros H. apply IH in H.
      apply remove1_Some in E. rewrite E. apply perm_skip, H.
    + intros P. assert (Hin : In x l2) by (eapply Permutation_in; [exact P|left; reflexivity]).
      destruct (remove1_In x l2 Hin) as [l2' E]. rewrite E. apply IH.
      apply remove1_Some in E. apply Permutation_cons_inv with (a := x). rewrite P. exact E.
Qed.

(* ---- trace acceptor ---- *)
Lemma reaches_move allow cur best : reaches eqb allow cur best = true -> exists m, apply_move m best = cur.
Proof.
  unfold reaches, one_move. destruct (find _ _) as [m|] eqn:F; [|discriminate]. intros _.
  apply find_some in F. destruct F as [_ F]. exists m. apply list_eqb_eq. exact F.
Qed.

Theorem check_trace_sound allow : forall trace bests result,
  check_trace eqb allow bests trace result = true ->
  exists b ds, In b bests /\ length ds = length trace /\ optimize ds b = result.
Proof.
  induction trace as [|cur rest IH]; intros bests result H; cbn [check_trace] in H.
  - apply existsb_exists in H. destruct H as [b [Hb E]]. apply list_eqb_eq in E.
    exists b, []. auto.
  - destruct (filter (reaches eqb allow cur) bests) as [|b0 ok] eqn:F; [discriminate|].
    apply IH in H. destruct H as [b [ds [Hb [Hl Ho]]]].
    assert (Hok : forall y, In y (b0 :: ok) -> In y bests /\ exists m, apply_move m y = cur).
    { intros y Hy. rewrite <- F in Hy. apply filter_In in Hy. destruct Hy as [Hy1 Hy2].
      split; [exact Hy1|]. eapply reaches_move; exact Hy2. }
    destruct Hb as [Hb|Hb].
    + subst b. destruct (Hok b0 (or_introl eq_refl)) as [Hin [m Hm]].
      exists b0, ((m, true) :: ds). split; [exact Hin|]. split; [cbn; lia|].
      unfold optimize in *. cbn [fold_left]. unfold step at 2. cbn [fst snd]. rewrite Hm. exact Ho.
    + destruct (Hok b Hb) as [Hin [m Hm]].
      exists b, ((m, false) :: ds). split; [exact Hin|]. split; [cbn; lia|].
      unfold optimize in *. cbn [fold_left]. unfold step at 2. cbn [fst snd]. exact Ho.
Qed.

Corollary accepted_trace_is_perm allow seed trace result :
  check_trace eqb allow [seed] trace result = true -> Permutation result seed.
Proof.
  intros H. apply check_trace_sound in H. destruct H as [b [ds [[Hb|[]] [_ Ho]]]]. subst.
  apply optimize_perm.
Qed.
End NodesP.

(* ---- instances used by the correspondence ---- *)
Lemma Zeqb_spec : forall a b : Z, Z.eqb a b = true <-> a = b.
Proof. exact Z.eqb_eq. Qed.

(* ---- edge grouping ---- *)
Lemma insert_asc_In z x l : In z (insert_asc x l) <-> z = x \/ In z l.
Proof.
  induction l as [|y r IH]; cbn; [intuition|].
  destruct (x <? y)%Z eqn:E1; [cbn; intuition|].
  destruct (x =? y)%Z eqn:E2.
  - apply Z.eqb_eq in E2. subst. cbn. intuition.
  - cbn. rewrite IH. intuition.
Qed.
Lemma sorted_lags_In es lag : In lag (sorted_lags es) <-> exists e, In e (non_loops es) /\ e_lag e = lag.
Proof.
  unfold sorted_lags. induction (non_loops es) as [|e r IH]; cbn [map fold_right].
  - cbn. split; [tauto|intros [e [[] _]]].
  - rewrite insert_asc_In, IH. cbn [In]. split.
    + intros [H|[e' [H1 H2]]]; [exists e; auto|exists e'; auto].
    + intros [e' [[H1|H1] H2]]; [left; congruence|right; eauto].
Qed.
Lemma insert_asc_sorted x l : StronglySorted Z.lt l -> StronglySorted Z.lt (insert_asc x l).
Proof.
  induction l as [|y r IH]; intros S; cbn; [repeat constructor|].
  inversion S as [|? ? S' F]; subst.
  destruct (x <? y)%Z eqn:E1.
  - apply Z.ltb_lt in E1. constructor; [exact S|]. constructor; [exact E1|].
    eapply Forall_impl; [|exact F]. cbn. intros; lia.
  - destruct (x =? y)%Z eqn:E2; [exact S|]. apply Z.ltb_ge in E1. apply Z.eqb_neq in E2.
    constructor; [apply IH, S'|]. apply Forall_forall. intros z Hz. apply insert_asc_In in Hz.
    destruct Hz as [->|Hz]; [lia|]. rewrite Forall_forall in F. apply F, Hz.
Qed.
Theorem sorted_lags_increasing es : StronglySorted Z.lt (sorted_lags es).
Proof.
  unfold sorted_lags. induction (map e_lag (non_loops es)) as [|x r IH]; cbn [fold_right]; [constructor|].
  apply insert_asc_sorted, IH.
Qed.
Theorem group_nonempty es lag : In lag (sorted_lags es) -> group es lag <> [].
Proof.
  intros H. apply sorted_lags_In in H. destruct H as [e [H1 H2]].
  assert (In e (group es lag)) by (apply filter_In; split; [exact H1|apply Z.eqb_eq, H2]).
  intros E. rewrite E in H. destruct H.
Qed.
Theorem edge_drawn_in_exactly_one_group es e : In e (non_loops es) ->
  In (e_lag e) (sorted_lags es) /\ In e (group es (e_lag e)) /\ forall lag, In e (group es lag) -> lag = e_lag e.
Proof.
  intros H. split; [apply sorted_lags_In; eauto|]. split.
  - apply filter_In. split; [exact H|apply Z.eqb_refl].
  - intros lag Hl. apply filter_In in Hl. destruct Hl as [_ Hl]. apply Z.eqb_eq in Hl. congruence.
Qed.

Theorem lag_groups_partition es :
  StronglySorted Z.lt (sorted_lags es) /\
  (forall lag, In lag (sorted_lags es) -> group es lag <> []) /\
  (forall e, In e (non_loops es) ->
     In (e_lag e) (sorted_lags es) /\ In e (group es (e_lag e)) /\ forall lag, In e (group es lag) -> lag = e_lag e).
Proof.
  split; [exact (sorted_lags_increasing es)|]. split; [exact (group_nonempty es)|exact (edge_drawn_in_exactly_one_group es)].
Qed.

(* ---- normalisation ---- *)
Open Scope Q_scope.
Lemma clamp0_nonneg c : 0 <= clamp0 c.
Proof. unfold clamp0. destruct (Qle_bool 0 c) eqn:E; [apply Qle_bool_iff, E|apply Qle_refl]. Qed.
Lemma qmax_ge_l a b : a <= qmax a b.
Proof.
  unfold qmax. destruct (Qle_bool a b) eqn:E; [apply Qle_bool_iff, E|apply Qle_refl].
Qed.
Lemma qmax_ge_r a b : b <= qmax a b.
Proof.
  unfold qmax. destruct (Qle_bool a b) eqn:E; [apply Qle_refl|].
  apply Qlt_le_weak, Qnot_le_lt. intros H. apply Qle_bool_iff in H. congruence.
Qed.
Lemma qmax_list_ge : forall l x, In x l -> x <= qmax_list l.
Proof.
  induction l as [|y r IH]; intros x H; [destruct H|]. cbn [qmax_list].
  destruct r as [|z r'].
  - destruct H as [->|[]]. apply Qle_refl.
  - destruct H as [->|H]; [apply qmax_ge_l|].
    eapply Qle_trans; [apply IH, H|apply qmax_ge_r].
Qed.
Lemma qmax_list_In : forall l, l <> [] -> In (qmax_list l) l.
Proof.
  induction l as [|y r IH]; intros H; [congruence|]. cbn [qmax_list]. destruct r as [|z r'].
  - left; reflexivity.
  - unfold qmax. destruct (Qle_bool y (qmax_list (z :: r'))); [right; apply IH; discriminate|left; reflexivity].
Qed.

Theorem no_division_by_zero mx : 0 < denom mx.
Proof.
  unfold denom. destruct (Qle_bool mx 0) eqn:E; [reflexivity|].
  apply Qnot_le_lt. intros H. apply Qle_bool_iff in H. congruence.
Qed.

Theorem norm_in_unit raw x : In x (norm raw) -> 0 <= x /\ x <= 1.
Proof.
  unfold norm. intros H. apply in_map_iff in H. destruct H as [c [E Hc]]. subst x.
  pose proof (no_division_by_zero (qmax_list (map clamp0 raw))) as Hd.
  assert (H0 : 0 <= c).
  { apply in_map_iff in Hc. destruct Hc as [r [<- _]]. apply clamp0_nonneg. }
  pose proof (qmax_list_ge _ _ Hc) as Hm.
  split.
  - apply Qle_shift_div_l; [exact Hd|]. lra.
  - apply Qle_shift_div_r; [exact Hd|]. unfold denom in *.
    destruct (Qle_bool (qmax_list (map clamp0 raw)) 0) eqn:E; [apply Qle_bool_iff in E; lra|lra].
Qed.
Lemma norm_length raw : length (norm raw) = length raw.
Proof. unfold norm. rewrite !map_length. reflexivity. Qed.

(* the strongest edge of a lag group with some positive value is drawn at full scale *)
Theorem norm_attains_one raw : (exists c, In c raw /\ 0 < c) -> exists x, In x (norm raw) /\ x == 1.
Proof.
  intros [c [Hc Hpos]]. unfold norm.
  set (cl := map clamp0 raw).
  assert (Hne : cl <> []) by (destruct raw; [destruct Hc|discriminate]).
  assert (Hin : In (clamp0 c) cl) by (apply in_map, Hc).
  assert (Hcc : clamp0 c == c).
  { unfold clamp0. destruct (Qle_bool 0 c) eqn:E; [reflexivity|].
    exfalso. assert (0 <= c) by lra. apply Qle_bool_iff in H. congruence. }
  pose proof (qmax_list_ge _ _ Hin) as Hm.
  assert (Hmx : 0 < qmax_list cl) by lra.
  exists (qmax_list cl / denom (qmax_list cl)). split.
  - apply in_map_iff. exists (qmax_list cl). split; [reflexivity|apply qmax_list_In, Hne].
  - unfold denom. destruct (Qle_bool (qmax_list cl) 0) eqn:E; [apply Qle_bool_iff in E; lra|].
    field. lra.
Qed.

Theorem widths_in_range w0 w1 raw w : w0 <= w1 -> In w (widths w0 w1 raw) -> w0 <= w /\ w <= w1.
Proof.
  unfold widths. intros Hw H. apply in_map_iff in H. destruct H as [x [<- Hx]].
  apply norm_in_unit in Hx. destruct Hx as [H0 H1].
  assert (A1 : 0 <= (w1 - w0) * x) by (apply Qmult_le_0_compat; lra).
  assert (A2 : 0 <= (w1 - w0) * (1 - x)) by (apply Qmult_le_0_compat; lra).
  split; lra.
Qed.
Close Scope Q_scope.

Theorem cmap_index_in_range i len : (0 < len)%nat -> (cmap_index i len < len)%nat.
Proof. intros H. unfold cmap_index. apply Nat.mod_upper_bound. lia. Qed.

(* ---- non-vacuity: concrete instances of the hypotheses ---- *)
Example seed_order_instance :
  seed_order Z.eqb (degree Z.eqb [(0, 1); (1, 2); (2, 2); (0, 1)]%Z) [[2; 3]; [1; 0; 2]; [9]]%Z [0; 1; 2; 3; 4]%Z
  = [1; 2; 0; 3; 9; 4]%Z.
Proof. vm_compute. reflexivity. Qed.
Example seed_order_perm_instance :
  Permutation (seed_order Z.eqb (degree Z.eqb [(0, 1); (1, 2); (2, 2); (0, 1)]%Z) [[2; 3]; [1; 0; 2]]%Z [0; 1; 2; 3; 4]%Z)
              [0; 1; 2; 3; 4]%Z.
Proof.
  apply (seed_order_perm Z.eqb Zeqb_spec).
  - repeat constructor; cbn; intuition discriminate.
  - intros c x [<-|[<-|[]]] Hx; cbn in *; intuition.
Qed.
Example optimize_instance :
  optimize [(Swap 0 2, true); (Reverse 1 4, false); (Reverse 1 4, true); (Swap 5 0, true)] [0; 1; 2; 3; 4; 5]%Z
  = [5; 4; 3; 0; 1; 2]%Z.
Proof. vm_compute. reflexivity. Qed.
Example check_trace_instance :
  check_trace Z.eqb true [[0; 1; 2; 3; 4; 5]%Z]
    [[2; 1; 0; 3; 4; 5]; [2; 4; 3; 0; 1; 5]; [2; 0; 1; 3; 4; 5]]%Z [2; 1; 0; 3; 4; 5]%Z = true /\
  check_trace Z.eqb true [[0; 1; 2; 3; 4; 5]%Z]
    [[2; 1; 0; 3; 4; 5]; [2; 4; 3; 0; 1; 5]; [2; 0; 1; 3; 4; 5]]%Z [2; 4; 3; 0; 1; 5]%Z = false.
Proof. vm_compute. split; reflexivity. Qed.
Example norm_instance : norm [0; 1 # 2; -(1 # 3); 2]%Q = [0 / 2; (1 # 2) / 2; 0 / 2; 2 / 2]%Q /\ norm [0; 0]%Q = [0 / 1; 0 / 1]%Q.
Proof. split; reflexivity. Qed.
