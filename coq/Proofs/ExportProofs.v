From Coq Require Import List Arith ZArith QArith String Bool Lia.
From CE Require Import Model.Export.
Import ListNotations.
Open Scope nat_scope.
Open Scope string_scope.

(* ---------- network_to_dataframe -------------------------------------------------------------- *)
(* one row per edge, in edge order: Source, Sink, Lag, CMI, P_Value of row i are those of edge i *)
Theorem rows_in_edge_order chain order meta es :
  let '(cols, rows) := to_frame chain order meta es in
  List.length rows = List.length es /\
  (forall i e, nth_error es i = Some e ->
     exists row, nth_error rows i = Some row /\
       firstn 5 row = [CLabel (n_u e); CLabel (n_v e); match n_lag e with Some z => CInt z | None => CInt 0 end;
                       opt_cell CNum (n_cmi e); opt_cell CNum (n_p e)]).
Proof.
  destruct es as [|e0 es']; cbn [to_frame].
  - split; [reflexivity|]. intros i e H. destruct i; discriminate.
  - set (es := e0 :: es'). split; [apply map_length|]. intros i e H.
    eexists. split; [rewrite nth_error_map, H; reflexivity|].
    unfold final_cols, base_cols. cbn [app map firstn]. unfold row_dict. cbn [app lookup String.eqb Ascii.eqb Bool.eqb].
    reflexivity.
Qed.

(* an edgeless graph gives an empty frame with the five base columns *)
Theorem empty_graph_frame chain order meta : to_frame chain order meta [] = (base_cols, []).
Proof. reflexivity. Qed.

(* all 2^9 subsets of metadata arguments: columns = base ++ supplied arguments in documented order,
   each a constant column holding the supplied value (checked on a two-edge probe graph with missing attributes) *)
Theorem all_512_metadata_subsets : all_masks_ok chain_order metadata_order = true.
Proof. vm_compute. reflexivity. Qed.

Lemma masks_complete k (m : list bool) : List.length m = k -> In m (masks k).
Proof.
  revert m; induction k as [|k IH]; intros m H.
  - destruct m; [left; reflexivity|discriminate].
  - destruct m as [|b m]; [discriminate|]. cbn [masks]. apply in_or_app.
    destruct b; [left|right]; apply in_map; apply IH; cbn in H; lia.
Qed.

Theorem every_metadata_subset (m : list bool) : List.length m = 9 ->
  frame_eqb (to_frame chain_order metadata_order (meta_of_mask m) probe_edges) (spec_frame (meta_of_mask m) probe_edges) = true.
Proof.
  intros H. pose proof all_512_metadata_subsets as A. unfold all_masks_ok in A.
  rewrite forallb_forall in A. apply A. apply masks_complete. exact H.
Qed.

(* ---------- pcmci_network_to_dataframe -------------------------------------------------------- *)
Definition row_key (r : prow) : key := (r_src r, r_snk r, r_lag r, r_type r).

Lemma key_eqb_eq a b : key_eqb a b = true <-> a = b.
Proof.
  destruct a as [[[a1 a2] a3] a4], b as [[[b1 b2] b3] b4]. unfold key_eqb.
  rewrite !andb_true_iff, !Nat.eqb_eq, Z.eqb_eq. split.
  - intros [[[-> ->] ->] H]. f_equal. destruct a4, b4; try discriminate; try reflexivity.
    apply String.eqb_eq in H. subst. reflexivity.
  - intros H. injection H as -> -> -> ->. repeat split. destruct b4; try reflexivity. apply String.eqb_refl.
Qed.

Lemma mem_key_in k l : mem_key k l = true <-> In k l.
Proof.
  unfold mem_key. rewrite existsb_exists. split.
  - intros (x & Hx & E). apply key_eqb_eq in E. subst. exact Hx.
  - intros H. exists k. split; [exact H|]. apply key_eqb_eq. reflexivity.
Qed.

Definition sym_rows (rs : list prow) := filter (fun r => symmetric (r_type r)) rs.

Lemma canon_type e : let '(_, _, _, t) := canon e in t = p_type e.
Proof. unfold canon. destruct (Nat.leb (p_u e) (p_v e)); reflexivity. Qed.

(* a symmetric link is listed once: the canonical keys of the symmetric rows are pairwise different *)
Lemma prows_sym_nodup es : forall seen,
  NoDup (map row_key (sym_rows (prows seen es))) /\
  (forall k, In k (map row_key (sym_rows (prows seen es))) -> ~ In k seen).
Proof.
  induction es as [|e es IH]; intros seen; cbn [prows]; [unfold sym_rows; cbn; split; [constructor|intros k []]|].
  destruct (symmetric (p_type e)) eqn:Es.
  - destruct (mem_key (canon e) seen) eqn:Em; [apply IH|].
    pose proof (canon_type e) as Ht. destruct (canon e) as [[[s t] l] ty] eqn:Ec. subst ty.
    destruct (IH ((s, t, l, p_type e) :: seen)) as [N D].
    unfold sym_rows. cbn [filter mkrow r_type]. rewrite Es. cbn [map]. fold (sym_rows (prows ((s, t, l, p_type e) :: seen) es)).
    assert (Hk : row_key (mkrow s t e) = (s, t, l, p_type e)).
    { unfold row_key, mkrow; cbn. unfold canon in Ec. destruct (Nat.leb (p_u e) (p_v e)); injection Ec as <- <- <-; reflexivity. }
    rewrite Hk. split.
    + constructor; [|exact N]. intros Hin. apply (D _ Hin). left; reflexivity.
    + intros k [<-|Hin].
      * intros Hs. apply mem_key_in in Hs. congruence.
      * intros Hs. apply (D _ Hin). right; exact Hs.
  - destruct (IH seen) as [N D]. unfold sym_rows. cbn [filter mkrow r_type]. rewrite Es.
    fold (sym_rows (prows seen es)). split; assumption.
Qed.

Theorem symmetric_link_listed_once es : NoDup (map row_key (sym_rows (pcmci_rows es))).
Proof. exact (proj1 (prows_sym_nodup es [])). Qed.

(* every symmetric edge is represented by the row with its canonical key ... *)
Lemma prows_sym_covered es : forall seen e, In e es -> symmetric (p_type e) = true ->
  In (canon e) seen \/ In (canon e) (map row_key (prows seen es)).
Proof.
  induction es as [|a es IH]; intros seen e Hin Hs; [destruct Hin|]. destruct Hin as [->|Hin]; cbn [prows].
  - rewrite Hs. destruct (mem_key (canon e) seen) eqn:Em; [left; apply mem_key_in; exact Em|].
    right. pose proof (canon_type e) as Ht. destruct (canon e) as [[[s t] l] ty] eqn:Ec. subst ty.
    left. unfold row_key, mkrow; cbn. unfold canon in Ec. destruct (Nat.leb (p_u e) (p_v e)); injection Ec as <- <- <-; reflexivity.
  - destruct (symmetric (p_type a)) eqn:Ea.
    + destruct (mem_key (canon a) seen) eqn:Em; [apply IH; assumption|].
      pose proof (canon_type a) as Ht. destruct (canon a) as [[[s t] l] ty] eqn:Ec. subst ty.
      destruct (IH ((s, t, l, p_type a) :: seen) e Hin Hs) as [[E|H]|H].
      * right. left. rewrite <- E. unfold row_key, mkrow; cbn. unfold canon in Ec.
        destruct (Nat.leb (p_u a) (p_v a)); injection Ec as <- <- <-; reflexivity.
      * left; exact H.
      * right. right. exact H.
    + destruct (IH seen e Hin Hs) as [H|H]; [left; exact H|right; right; exact H].
Qed.

Theorem symmetric_link_represented es e : In e es -> symmetric (p_type e) = true ->
  In (canon e) (map row_key (pcmci_rows es)).
Proof. intros Hin Hs. destruct (prows_sym_covered es [] e Hin Hs) as [[]|H]. exact H. Qed.

(* ... and every non-symmetric edge yields exactly one row, in edge order, with its own endpoints *)
Theorem directed_rows_in_edge_order es : forall seen,
  filter (fun r => negb (symmetric (r_type r))) (prows seen es)
  = map (fun e => mkrow (p_u e) (p_v e) e) (filter (fun e => negb (symmetric (p_type e))) es).
Proof.
  induction es as [|e es IH]; intros seen; cbn [prows filter map]; [reflexivity|].
  destruct (symmetric (p_type e)) eqn:Es; cbn [negb].
  - destruct (mem_key (canon e) seen); [apply IH|].
    pose proof (canon_type e) as Ht. destruct (canon e) as [[[s t] l] ty]. subst ty.
    cbn [filter mkrow r_type]. rewrite Es. cbn [negb]. apply IH.
  - cbn [filter mkrow r_type]. rewrite Es. cbn [negb map]. f_equal. apply IH.
Qed.

(* attributes of a row are those of the edge it was made from *)
Theorem row_attributes_unchanged s t e :
  r_lag (mkrow s t e) = p_lag e /\ r_val (mkrow s t e) = p_val e /\ r_p (mkrow s t e) = p_p e
  /\ r_type (mkrow s t e) = p_type e /\ r_sig (mkrow s t e) = p_sig e.
Proof. repeat split. Qed.

Example pcmci_instance :
  let es := [ {| p_u := 2; p_v := 1; p_lag := 0%Z; p_type := Undirected; p_val := Some (1#2); p_p := None; p_sig := None |};
              {| p_u := 1; p_v := 2; p_lag := 0%Z; p_type := Undirected; p_val := Some (1#2); p_p := None; p_sig := None |};
              {| p_u := 2; p_v := 1; p_lag := 1%Z; p_type := Possible; p_val := None; p_p := Some 1%Q; p_sig := Some true |} ] in
  map row_key (pcmci_rows es) = [(1, 2, 0%Z, Undirected); (2, 1, 1%Z, Possible)].
Proof. vm_compute. reflexivity. Qed.
