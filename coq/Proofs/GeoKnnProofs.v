From Coq Require Import List ZArith QArith Bool Sorting Permutation Lia ZifyBool Reals Qreals Lra.
From CE Require Import Model.Itv Model.KnnCounts Model.GeoKnn Proofs.ItvProofs Proofs.KnnProofs Proofs.KdeProofs.
Import ListNotations.
Close Scope Q_scope.

(* ================================================================================================ *)
(* A. meaning of the expression tree: the published formula                                          *)
Section Meaning.
Open Scope R_scope.

Lemma evalR_Qe env q : evalR env (Qe q) = Q2R q.
Proof. reflexivity. Qed.

Lemma ln_div x y : 0 < x -> 0 < y -> ln (x / y) = ln x - ln y.
Proof. intros Hx Hy. unfold Rdiv. rewrite ln_mult by (try apply Rinv_0_lt_compat; assumption). rewrite ln_Rinv by exact Hy. lra. Qed.

Lemma ln_sqrt_half x : 0 < x -> ln (sqrt x) = / 2 * ln x.
Proof.
  intros Hx. assert (Hs : 0 < sqrt x) by (apply sqrt_lt_R0; exact Hx).
  assert (E : ln x = ln (sqrt x) + ln (sqrt x)).
  { rewrite <- ln_mult by exact Hs. rewrite sqrt_sqrt by lra. reflexivity. }
  lra.
Qed.

Lemma thr24_pos : 0 < Q2R thr24.
Proof. unfold Q2R, thr24. cbn [Qnum Qden]. rewrite Rmult_1_l. apply Rinv_0_lt_compat. apply IZR_lt. reflexivity. Qed.

Lemma gt24_lt s : gt24 s = true -> Q2R thr24 < Q2R s.
Proof.
  unfold gt24. intros H. apply negb_true_iff in H. apply Qlt_Rlt. apply Qnot_le_lt. intros C.
  apply Qle_bool_iff in C. congruence.
Qed.
Lemma gt24_pos s : gt24 s = true -> 0 < Q2R s.
Proof. intros H. apply gt24_lt in H. pose proof thr24_pos. lra. Qed.
Lemma gt24_false s : gt24 s = false -> Q2R s <= Q2R thr24.
Proof. unfold gt24. intros H. apply negb_false_iff in H. apply Qle_Rle. apply Qle_bool_iff. exact H. Qed.

Lemma rho_ok_pos D r : rho_ok D r = true -> (0 < r)%Z.
Proof. unfold rho_ok, E24. intros H. apply Z.ltb_lt in H. nia. Qed.

(* ---- the specification, written directly ---- *)
(* log rho, rho = sqrt(r) / D the Euclidean distance to the k-th nearest sample; -12 below the guard *)
Definition rho_term_R (D r : Z) : R := if rho_ok D r then ln (sqrt (IZR r) / IZR D) else -12.
(* log(sigma / sigma_0) on the singular values sigma = sqrt(s) *)
Definition sv_one_R (s0 s : Q) : R :=
  if gt24 s then (if ratio_ok s0 s then ln (sqrt (Q2R s) / sqrt (Q2R s0)) else -12) else 0.
Definition sv_term_R (d : nat) (svl : list Q) : R :=
  match svl with
  | [] => 0
  | s0 :: _ => if gt24 s0 then Rsum (map (sv_one_R s0) (firstn d svl)) else 0
  end.
Definition corr_R (d : nat) (l : loc) : R := - ln (IZR (Z.max 1 (l_ins l))) + sv_term_R d (l_sv2 l).
(* volume of the unit ball: c_0 = 1, c_1 = 2, c_(d+2) = 2 pi / (d+2) * c_d *)
Fixpoint ball_R (d : nat) : R :=
  match d with
  | O => 1
  | S O => 2
  | S (S d') => 2 * PI / INR (S (S d')) * ball_R d'
  end.
Definition geo_spec (D : Z) (d : nat) (locs : list loc) : R :=
  let N := INR (length locs) in
  ln N + ln (ball_R d) + INR d / N * Rsum (map (fun l => rho_term_R D (l_rho2 l)) locs)
  + Rsum (map (corr_R d) locs) / N.

Lemma rho_term_spec D r : (0 < D)%Z -> evalR [] (rho_term D r) = rho_term_R D r.
Proof.
  intros HD. unfold rho_term, rho_term_R. destruct (rho_ok D r) eqn:G; [|reflexivity].
  apply rho_ok_pos in G. cbn [half_ln evalR EQ].
  assert (Hr : 0 < IZR r) by (apply IZR_lt; exact G).
  assert (Hd : 0 < IZR D) by (apply IZR_lt; exact HD).
  rewrite mult_IZR. rewrite !ln_div; try assumption; [|apply sqrt_lt_R0; exact Hr|apply Rmult_lt_0_compat; assumption].
  rewrite ln_mult by assumption. rewrite ln_sqrt_half by exact Hr. lra.
Qed.

Lemma sv_one_spec s0 s : gt24 s0 = true -> evalR [] (sv_one s0 s) = sv_one_R s0 s.
Proof.
  intros G0. unfold sv_one, sv_one_R. destruct (gt24 s) eqn:G; [|reflexivity].
  destruct (ratio_ok s0 s); [|reflexivity].
  apply gt24_pos in G0, G. cbn [half_ln evalR EQ]. rewrite !evalR_Qe.
  rewrite !ln_div; try assumption; try (apply sqrt_lt_R0; assumption).
  rewrite !ln_sqrt_half by assumption. lra.
Qed.

Lemma sv_term_spec d svl : evalR [] (sv_term d svl) = sv_term_R d svl.
Proof.
  unfold sv_term, sv_term_R. destruct svl as [|s0 r]; [reflexivity|].
  destruct (gt24 s0) eqn:G0; [|reflexivity].
  rewrite evalR_ESum. apply Rsum_ext. intros s _. apply sv_one_spec. exact G0.
Qed.

Lemma corr_spec d l : evalR [] (corr d l) = corr_R d l.
Proof. unfold corr, corr_R, ins_term. cbn [evalR]. rewrite sv_term_spec. reflexivity. Qed.

Lemma Q2R_two_over n : Q2R (2 # Pos.of_nat (S n)) = 2 / INR (S n).
Proof.
  unfold Q2R. cbn [Qnum Qden]. rewrite INR_IZR_INZ. unfold Rdiv. f_equal. f_equal. f_equal.
  rewrite Nat2Z.inj_succ, <- Zpos_P_of_succ_nat. f_equal. symmetry. apply Pos.of_nat_succ.
Qed.

Lemma ball_expr_spec_pair d : evalR [] (ball_expr d) = ball_R d /\ evalR [] (ball_expr (S d)) = ball_R (S d).
Proof.
  induction d as [|d [IH1 IH2]].
  - split; unfold ball_expr; cbn [ball_qp fst snd pi_pow evalR ball_R]; rewrite evalR_Qe; unfold Q2R; cbn; lra.
  - split; [exact IH2|].
    unfold ball_expr in *. cbn [ball_qp ball_R]. destruct (ball_qp d) as [q m] eqn:E. cbn [fst snd] in *.
    cbn [pi_pow evalR] in *. rewrite evalR_Qe in *. rewrite Q2R_Qred, Q2R_mult, Q2R_two_over. rewrite <- IH1.
    unfold Rdiv. ring.
Qed.
Lemma ball_expr_spec d : evalR [] (ball_expr d) = ball_R d.
Proof. apply ball_expr_spec_pair. Qed.

(* the expression the interval layer evaluates means exactly the published formula *)
Theorem geo_expr_meaning D d locs : (0 < D)%Z -> evalR [] (geo_expr_of D d locs) = geo_spec D d locs.
Proof.
  intros HD. unfold geo_expr_of, geo_spec. cbv zeta. cbn [evalR]. rewrite <- !INR_IZR_INZ.
  change (fold_right (fun x acc => evalR [] x + acc) 0 ?l) with (evalR [] (ESum l)).
  rewrite !evalR_ESum, ball_expr_spec.
  rewrite (Rsum_ext (fun l => evalR [] (rho_term D (l_rho2 l))) (fun l => rho_term_R D (l_rho2 l))) by (intros; apply rho_term_spec; exact HD).
  rewrite (Rsum_ext (fun l => evalR [] (corr d l)) (corr_R d)) by (intros; apply corr_spec).
  reflexivity.
Qed.

(* closed forms of the unit-ball volume pi^(d/2) / Gamma(d/2 + 1) for d = 1..5 *)
Lemma ball_R_values : ball_R 1 = 2 /\ ball_R 2 = PI /\ ball_R 3 = 4 / 3 * PI /\ ball_R 4 = PI * PI / 2 /\ ball_R 5 = 8 / 15 * (PI * PI).
Proof.
  cbn [ball_R]. replace (INR 2) with 2 by (cbn; lra). replace (INR 3) with 3 by (cbn; lra).
  replace (INR 4) with 4 by (cbn; lra). replace (INR 5) with 5 by (cbn; lra).
  repeat split; field.
Qed.
Lemma ball_R_rec d : ball_R (S (S d)) = 2 * PI / INR (S (S d)) * ball_R d.
Proof. reflexivity. Qed.
Lemma ball_R_pos_pair d : 0 < ball_R d /\ 0 < ball_R (S d).
Proof.
  induction d as [|d [IH1 IH2]]; [cbn; lra|]. split; [exact IH2|]. rewrite ball_R_rec.
  apply Rmult_lt_0_compat; [|exact IH1]. apply Rdiv_lt_0_compat; [pose proof PI_RGT_0; lra|apply lt_0_INR; lia].
Qed.

(* when no guard triggers, the specification is literally the docstring formula *)
Definition regular (D : Z) (d : nat) (l : loc) : Prop :=
  rho_ok D (l_rho2 l) = true /\
  match l_sv2 l with [] => True | s0 :: _ => gt24 s0 = true /\ Forall (fun s => gt24 s = true /\ ratio_ok s0 s = true) (firstn d (l_sv2 l)) end.
Definition sigma_ratio_sum (d : nat) (svl : list Q) : R :=
  Rsum (map (fun s => ln (sqrt (Q2R s) / sqrt (Q2R (hd 0%Q svl)))) (firstn d svl)).
Theorem geo_spec_regular D d locs : Forall (regular D d) locs ->
  geo_spec D d locs =
  ln (INR (length locs)) + ln (ball_R d)
  + INR d / INR (length locs) * Rsum (map (fun l => ln (sqrt (IZR (l_rho2 l)) / IZR D)) locs)
  + Rsum (map (fun l => - ln (IZR (Z.max 1 (l_ins l))) + sigma_ratio_sum d (l_sv2 l)) locs) / INR (length locs).
Proof.
  intros H. unfold geo_spec. cbv zeta. rewrite Forall_forall in H. f_equal; [f_equal; f_equal|f_equal].
  - apply Rsum_ext. intros l Hl. unfold rho_term_R. destruct (H l Hl) as [-> _]. reflexivity.
  - apply Rsum_ext. intros l Hl. unfold corr_R. f_equal. destruct (H l Hl) as [_ Hs].
    unfold sv_term_R, sigma_ratio_sum. destruct (l_sv2 l) as [|s0 r]; [destruct d; reflexivity|].
    destruct Hs as [-> Hs]. cbn [hd]. apply Rsum_ext. intros s Hin. rewrite Forall_forall in Hs.
    unfold sv_one_R. destruct (Hs s Hin) as [-> ->]. reflexivity.
Qed.
End Meaning.

(* ================================================================================================ *)
(* B. the estimate does not depend on the order of the samples                                       *)
Lemma Rsum_perm l l' : Permutation l l' -> Rsum l = Rsum l'.
Proof.
  unfold Rsum. induction 1 as [|x l l' _ IH|x y l|l l' l'' _ IH1 _ IH2]; cbn [fold_right] in *; lra.
Qed.

Lemma filter_perm {A} (f : A -> bool) l l' : Permutation l l' -> Permutation (filter f l) (filter f l').
Proof.
  induction 1 as [|x l l' _ IH|x y l|l l' l'' _ IH1 _ IH2]; cbn [filter].
  - constructor.
  - destruct (f x); [constructor|]; exact IH.
  - destruct (f x), (f y); try apply Permutation_refl. constructor.
  - eapply Permutation_trans; eassumption.
Qed.

Lemma rho2_perm k pts pts' p : Permutation pts pts' -> rho2 k pts p = rho2 k pts' p.
Proof. intros P. unfold rho2. rewrite (sort_perm_inv (map (d2 p) pts) (map (d2 p) pts')); [reflexivity|apply Permutation_map; exact P]. Qed.

Lemma nbrs_perm k pts pts' p : Permutation pts pts' -> Permutation (nbrs k pts p) (nbrs k pts' p).
Proof. intros P. unfold nbrs, nbrs_r. rewrite (rho2_perm k pts pts' p P). apply filter_perm. exact P. Qed.

Lemma geo_expr_of_perm D d locs locs' : Permutation locs locs' ->
  evalR [] (geo_expr_of D d locs) = evalR [] (geo_expr_of D d locs').
Proof.
  intros P. unfold geo_expr_of. cbv zeta. cbn [evalR]. rewrite (Permutation_length P).
  change (fold_right (fun x acc => (evalR [] x + acc)%R) 0%R ?l) with (evalR [] (ESum l)).
  rewrite !evalR_ESum.
  rewrite (Rsum_perm _ _ (Permutation_map (fun l => evalR [] (rho_term D (l_rho2 l))) P)).
  rewrite (Rsum_perm _ _ (Permutation_map (fun l => evalR [] (corr d l)) P)).
  reflexivity.
Qed.

Section Laws.
Variable sv2 : Z -> point -> list point -> list Q.
Variable ins : Z -> point -> list point -> Z.

(* hypothesis on the SVD data: they depend on the neighbour SET only (singular values and the inside-count of a
   matrix do not change when its rows are permuted) *)
Definition oracle_order_free : Prop :=
  forall D p l l', Permutation l l' -> sv2 D p l = sv2 D p l' /\ ins D p l = ins D p l'.

Theorem row_perm_invariant : oracle_order_free ->
  forall D d k pts pts', Permutation pts pts' ->
  evalR [] (geo_entropy_expr sv2 ins D d k pts) = evalR [] (geo_entropy_expr sv2 ins D d k pts').
Proof.
  intros HO D d k pts pts' P. unfold geo_entropy_expr.
  assert (E : map (loc_of sv2 ins D k pts) pts = map (loc_of sv2 ins D k pts') pts).
  { apply map_ext. intros p. unfold loc_of. rewrite (rho2_perm k pts pts' p P).
    destruct (HO D p _ _ (nbrs_perm k pts pts' p P)) as [-> ->]. reflexivity. }
  rewrite E. apply geo_expr_of_perm. apply Permutation_map. exact P.
Qed.

(* ================================================================================================ *)
(* C. similarity law: a map that multiplies all squared distances by one positive factor             *)
(* alpha * |f p - f q|^2 = beta * |p - q|^2 on the sample (grid units) *)
Definition pw_similar (alpha beta : Z) (f : point -> point) (pts : list point) : Prop :=
  forall p q, In p pts -> In q pts -> (alpha * d2 (f p) (f q) = beta * d2 p q)%Z.

Lemma map_mul_sorted a l : (0 < a)%Z -> StronglySorted Z.le l -> StronglySorted Z.le (map (Z.mul a) l).
Proof.
  intros Ha. induction 1 as [|x l _ IH F]; cbn [map]; constructor; [exact IH|].
  rewrite Forall_forall in *. intros y Hy. apply in_map_iff in Hy. destruct Hy as [z [<- Hz]]. specialize (F z Hz). nia.
Qed.

Lemma sort_map_mul a l : (0 < a)%Z -> ZSort.sort (map (Z.mul a) l) = map (Z.mul a) (ZSort.sort l).
Proof.
  intros Ha. apply sorted_perm_eq.
  - apply sort_sorted.
  - apply map_mul_sorted; [exact Ha|apply sort_sorted].
  - eapply Permutation_trans; [apply Permutation_sym, ZSort.Permuted_sort|]. apply Permutation_map, ZSort.Permuted_sort.
Qed.

Lemma nth_map_mul a k l : nth k (map (Z.mul a) l) 0%Z = (a * nth k l 0)%Z.
Proof. revert k. induction l as [|x l IH]; intros [|k]; cbn [map nth]; try lia. apply IH. Qed.

Lemma rho2_sim alpha beta f k pts p : (0 < alpha)%Z -> (0 < beta)%Z -> pw_similar alpha beta f pts -> In p pts ->
  (alpha * rho2 k (map f pts) (f p) = beta * rho2 k pts p)%Z.
Proof.
  intros Ha Hb S Hp. unfold rho2. rewrite <- !nth_map_mul, <- !sort_map_mul by assumption.
  f_equal. f_equal. rewrite !map_map. apply map_ext_in. intros q Hq. apply S; assumption.
Qed.

Lemma filter_map_comm {A B} (g : B -> bool) (f : A -> B) l : filter g (map f l) = map f (filter (fun x => g (f x)) l).
Proof. induction l as [|a l IH]; cbn [map filter]; [reflexivity|]. destruct (g (f a)); cbn [map]; rewrite IH; reflexivity. Qed.

Lemma nbrs_sim alpha beta f k pts p : (0 < alpha)%Z -> (0 < beta)%Z -> pw_similar alpha beta f pts -> In p pts ->
  nbrs k (map f pts) (f p) = map f (nbrs k pts p).
Proof.
  intros Ha Hb S Hp. unfold nbrs, nbrs_r. rewrite filter_map_comm. f_equal. apply filter_ext_in. intros q Hq.
  pose proof (rho2_sim alpha beta f k pts p Ha Hb S Hp) as R. pose proof (S p q Hp Hq) as E.
  set (x' := d2 (f p) (f q)) in *. set (x := d2 p q) in *. set (r' := rho2 k (map f pts) (f p)) in *. set (r := rho2 k pts p) in *.
  assert (E1 : (0 <? x')%Z = (0 <? x)%Z) by (destruct (Z.ltb_spec 0 x'), (Z.ltb_spec 0 x); try reflexivity; nia).
  assert (E2 : (x' <=? r')%Z = (x <=? r)%Z) by (destruct (Z.leb_spec x' r'), (Z.leb_spec x r); try reflexivity; nia).
  rewrite E1, E2. reflexivity.
Qed.

Open Scope R_scope.

Lemma Rsum_plus_const {A} (g : A -> R) c l : Rsum (map (fun a => g a + c) l) = Rsum (map g l) + INR (length l) * c.
Proof.
  induction l as [|a l IH]; [cbn; lra|]. cbn [map Rsum fold_right length]. fold (Rsum (map (fun a => g a + c) l)).
  fold (Rsum (map g l)). rewrite IH, S_INR. lra.
Qed.

(* factor of the real squared distances *)
Definition kappa (alpha beta D D' : Z) : R := IZR beta * IZR (D * D) / (IZR alpha * IZR (D' * D')).

Lemma kappa_pos alpha beta D D' : (0 < alpha)%Z -> (0 < beta)%Z -> (0 < D)%Z -> (0 < D')%Z -> 0 < kappa alpha beta D D'.
Proof.
  intros. unfold kappa. apply Rdiv_lt_0_compat; apply Rmult_lt_0_compat; apply IZR_lt; nia.
Qed.

(* the singular-value term is unchanged when all squared singular values are multiplied by one positive factor
   and every absolute guard keeps its outcome *)
Definition sv_related (c : R) (s s' : Q) : Prop := Q2R s' = c * Q2R s /\ gt24 s' = gt24 s.

Lemma ratio_ok_related c s0 s0' s s' : 0 < c -> Q2R s0' = c * Q2R s0 -> Q2R s' = c * Q2R s -> ratio_ok s0' s' = ratio_ok s0 s.
Proof.
  intros Hc E0 E. unfold ratio_ok. f_equal.
  destruct (Qle_bool s (thr24 * s0)) eqn:A, (Qle_bool s' (thr24 * s0')) eqn:B; try reflexivity; exfalso.
  - apply Qle_bool_iff, Qle_Rle in A. rewrite Q2R_mult in A.
    assert (Q2R s' <= Q2R (thr24 * s0')) as C by (rewrite Q2R_mult, E, E0; nra).
    apply Rle_Qle, Qle_bool_iff in C. congruence.
  - apply Qle_bool_iff, Qle_Rle in B. rewrite Q2R_mult, E, E0 in B.
    assert (Q2R s <= Q2R (thr24 * s0)) as C by (rewrite Q2R_mult; nra).
    apply Rle_Qle, Qle_bool_iff in C. congruence.
Qed.

Lemma Forall2_firstn {A B} (P : A -> B -> Prop) n l l' : Forall2 P l l' -> Forall2 P (firstn n l) (firstn n l').
Proof. intros H. revert n. induction H as [|a b l l' Hab _ IH]; intros [|n]; cbn [firstn]; constructor; auto. Qed.

Lemma sv_term_related c d svl svl' : 0 < c -> Forall2 (sv_related c) svl svl' ->
  evalR [] (sv_term d svl') = evalR [] (sv_term d svl).
Proof.
  intros Hc H. rewrite !sv_term_spec. unfold sv_term_R.
  destruct H as [|s0 s0' r r' [E0 G0] Hr]; [reflexivity|].
  assert (H : Forall2 (sv_related c) (firstn d (s0 :: r)) (firstn d (s0' :: r'))) by (apply Forall2_firstn; constructor; [split|]; assumption).
  rewrite G0. destruct (gt24 s0) eqn:Gs0; [|reflexivity].
  pose proof (gt24_pos _ Gs0) as P0.
  induction H as [|s s' l l' [E G] _ IH]; [reflexivity|]. cbn [map Rsum fold_right]. fold (Rsum (map (sv_one_R s0') l')). fold (Rsum (map (sv_one_R s0) l)).
  rewrite IH. f_equal. unfold sv_one_R. rewrite G, (ratio_ok_related c s0 s0' s s' Hc E0 E).
  destruct (gt24 s) eqn:Gs; [|reflexivity]. destruct (ratio_ok s0 s); [|reflexivity].
  pose proof (gt24_pos _ Gs) as Ps.
  assert (Pcs : 0 < c * Q2R s) by (apply Rmult_lt_0_compat; assumption).
  assert (Pcs0 : 0 < c * Q2R s0) by (apply Rmult_lt_0_compat; assumption).
  rewrite E, E0. rewrite !ln_div by (apply sqrt_lt_R0; assumption).
  rewrite !ln_sqrt_half by assumption. rewrite !ln_mult by assumption. lra.
Qed.

(* MASTER THEOREM.  If f multiplies every squared distance of the sample by one positive factor (beta/alpha in grid
   units; kappa in real units, the scale going from D to D'), the radius guards do not trigger, the inside-counts
   are unchanged and the singular-value terms are unchanged, then the estimate grows by exactly (d/2) ln kappa. *)
Theorem similarity_law_gen alpha beta D D' d k f pts :
  (0 < alpha)%Z -> (0 < beta)%Z -> (0 < D)%Z -> (0 < D')%Z -> pts <> [] ->
  pw_similar alpha beta f pts ->
  (forall p, In p pts -> rho_ok D (rho2 k pts p) = true /\ rho_ok D' (rho2 k (map f pts) (f p)) = true) ->
  (forall p, In p pts -> ins D' (f p) (map f (nbrs k pts p)) = ins D p (nbrs k pts p)) ->
  (forall p, In p pts -> evalR [] (sv_term d (firstn k (sv2 D' (f p) (map f (nbrs k pts p))))) = evalR [] (sv_term d (firstn k (sv2 D p (nbrs k pts p))))) ->
  evalR [] (geo_entropy_expr sv2 ins D' d k (map f pts)) =
  evalR [] (geo_entropy_expr sv2 ins D d k pts) + INR d / 2 * ln (kappa alpha beta D D').
Proof.
  intros Ha Hb HD HD' Hne S Hrho Hins Hsv.
  pose proof (kappa_pos alpha beta D D' Ha Hb HD HD') as Hk. set (c := kappa alpha beta D D') in *.
  unfold geo_entropy_expr, geo_expr_of. cbv zeta. cbn [evalR]. rewrite !map_length. rewrite <- !INR_IZR_INZ.
  change (fold_right (fun x acc => evalR [] x + acc) 0 ?l) with (evalR [] (ESum l)).
  rewrite !evalR_ESum, !map_map.
  assert (HN : 0 < INR (length pts)) by (apply lt_0_INR; destruct pts; [congruence|cbn; lia]).
  rewrite (Rsum_ext (fun p => evalR [] (rho_term D' (l_rho2 (loc_of sv2 ins D' k (map f pts) (f p)))))
                    (fun p => evalR [] (rho_term D (l_rho2 (loc_of sv2 ins D k pts p))) + / 2 * ln c)).
  2:{ intros p Hp. cbn [loc_of l_rho2]. destruct (Hrho p Hp) as [G G'].
      pose proof (rho2_sim alpha beta f k pts p Ha Hb S Hp) as R.
      rewrite !rho_term_spec by assumption. unfold rho_term_R. rewrite G, G'.
      apply rho_ok_pos in G, G'. set (r' := rho2 k (map f pts) (f p)) in *. set (r := rho2 k pts p) in *.
      assert (Hr : 0 < IZR r) by (apply IZR_lt; exact G). assert (Hr' : 0 < IZR r') by (apply IZR_lt; exact G').
      assert (Hd : 0 < IZR D) by (apply IZR_lt; exact HD). assert (Hd' : 0 < IZR D') by (apply IZR_lt; exact HD').
      assert (Hal : 0 < IZR alpha) by (apply IZR_lt; exact Ha). assert (Hbe : 0 < IZR beta) by (apply IZR_lt; exact Hb).
      rewrite !ln_div; try assumption; try (apply sqrt_lt_R0; assumption). rewrite !ln_sqrt_half by assumption.
      subst c. unfold kappa. rewrite !mult_IZR.
      rewrite ln_div by (repeat apply Rmult_lt_0_compat; assumption). rewrite !ln_mult by (try apply Rmult_lt_0_compat; assumption).
      apply (f_equal IZR) in R. rewrite !mult_IZR in R. apply (f_equal ln) in R. rewrite !ln_mult in R by assumption. lra. }
  rewrite Rsum_plus_const.
  rewrite (Rsum_ext (fun p => evalR [] (corr d (loc_of sv2 ins D' k (map f pts) (f p))))
                    (fun p => evalR [] (corr d (loc_of sv2 ins D k pts p)))).
  2:{ intros p Hp. unfold corr. cbn [loc_of l_ins l_sv2 evalR].
      rewrite (nbrs_sim alpha beta f k pts p Ha Hb S Hp). rewrite (Hins p Hp), (Hsv p Hp). reflexivity. }
  field. lra.
Qed.

(* the same with the natural hypothesis on the squared singular values: multiplied by kappa, absolute guards keep
   their outcome *)
Theorem similarity_law alpha beta D D' d k f pts :
  (0 < alpha)%Z -> (0 < beta)%Z -> (0 < D)%Z -> (0 < D')%Z -> pts <> [] ->
  pw_similar alpha beta f pts ->
  (forall p, In p pts -> rho_ok D (rho2 k pts p) = true /\ rho_ok D' (rho2 k (map f pts) (f p)) = true) ->
  (forall p, In p pts -> ins D' (f p) (map f (nbrs k pts p)) = ins D p (nbrs k pts p)) ->
  (forall p, In p pts -> Forall2 (sv_related (kappa alpha beta D D')) (sv2 D p (nbrs k pts p)) (sv2 D' (f p) (map f (nbrs k pts p)))) ->
  evalR [] (geo_entropy_expr sv2 ins D' d k (map f pts)) =
  evalR [] (geo_entropy_expr sv2 ins D d k pts) + INR d / 2 * ln (kappa alpha beta D D').
Proof.
  intros Ha Hb HD HD' Hne S Hrho Hins Hsv. apply similarity_law_gen; try assumption.
  intros p Hp. apply (sv_term_related (kappa alpha beta D D')); [apply kappa_pos; assumption|apply Forall2_firstn, Hsv; exact Hp].
Qed.

(* ---- isometries: maps that preserve all pairwise distances of the sample (translations, rotations, reflections
   that keep the grid).  Together with unchanged SVD data the expression itself is unchanged. ---- *)
Theorem isometry_invariant D d k f pts :
  (forall p q, In p pts -> In q pts -> d2 (f p) (f q) = d2 p q) ->
  (forall p, In p pts -> ins D (f p) (map f (nbrs k pts p)) = ins D p (nbrs k pts p)) ->
  (forall p, In p pts -> sv2 D (f p) (map f (nbrs k pts p)) = sv2 D p (nbrs k pts p)) ->
  geo_entropy_expr sv2 ins D d k (map f pts) = geo_entropy_expr sv2 ins D d k pts.
Proof.
  intros S Hins Hsv. unfold geo_entropy_expr. f_equal. rewrite map_map. apply map_ext_in. intros p Hp.
  assert (S1 : pw_similar 1 1 f pts) by (intros a b Ha Hb; rewrite (S a b Ha Hb); reflexivity).
  unfold loc_of. rewrite (nbrs_sim 1 1 f k pts p ltac:(lia) ltac:(lia) S1 Hp), (Hins p Hp), (Hsv p Hp).
  pose proof (rho2_sim 1 1 f k pts p ltac:(lia) ltac:(lia) S1 Hp) as R. f_equal. lia.
Qed.

(* translation by an integer vector (any rational translation after refining the grid) *)
Definition shift (t p : point) : point := map (fun ab => (fst ab + snd ab)%Z) (combine p t).

Lemma d2_shift t : forall p q, (length p <= length t)%nat -> (length q <= length t)%nat -> d2 (shift t p) (shift t q) = d2 p q.
Proof.
  unfold d2, dist, shift. induction t as [|c t IH]; intros [|a p] [|b q] Hp Hq; cbn [length combine map agg fold_right] in *; try lia; try reflexivity.
  specialize (IH p q ltac:(lia) ltac:(lia)). cbn [agg] in IH. rewrite IH. unfold cd; cbn [fst snd]. f_equal. ring.
Qed.

Theorem shift_invariant D d k t pts :
  Forall (fun p => length p <= length t)%nat pts ->
  (forall p, In p pts -> ins D (shift t p) (map (shift t) (nbrs k pts p)) = ins D p (nbrs k pts p)) ->
  (forall p, In p pts -> sv2 D (shift t p) (map (shift t) (nbrs k pts p)) = sv2 D p (nbrs k pts p)) ->
  geo_entropy_expr sv2 ins D d k (map (shift t) pts) = geo_entropy_expr sv2 ins D d k pts.
Proof.
  intros L. rewrite Forall_forall in L. apply isometry_invariant. intros p q Hp Hq. apply d2_shift; apply L; assumption.
Qed.

(* rotation by a rational orthogonal matrix with denominator m (m = 1: integer isometries): the image lives on the
   m-times finer grid, where all squared distances are multiplied by m^2; the real sample is only rotated *)
Lemma kappa_rot m D : (0 < m)%Z -> (0 < D)%Z -> kappa 1 (m * m) D (m * D) = 1.
Proof.
  intros Hm HD. unfold kappa. rewrite !mult_IZR. field. split; apply not_0_IZR; lia.
Qed.

Theorem rotation_invariant m D d k f pts :
  (0 < m)%Z -> (0 < D)%Z -> pts <> [] ->
  (forall p q, In p pts -> In q pts -> d2 (f p) (f q) = (m * m * d2 p q)%Z) ->
  (forall p, In p pts -> rho_ok D (rho2 k pts p) = true) ->
  (forall p, In p pts -> ins (m * D) (f p) (map f (nbrs k pts p)) = ins D p (nbrs k pts p)) ->
  (forall p, In p pts -> Forall2 (sv_related 1) (sv2 D p (nbrs k pts p)) (sv2 (m * D) (f p) (map f (nbrs k pts p)))) ->
  evalR [] (geo_entropy_expr sv2 ins (m * D) d k (map f pts)) = evalR [] (geo_entropy_expr sv2 ins D d k pts).
Proof.
  intros Hm HD Hne S Hrho Hins Hsv.
  assert (S1 : pw_similar 1 (m * m) f pts) by (intros a b Ha Hb; rewrite (S a b Ha Hb); lia).
  rewrite (similarity_law 1 (m * m) D (m * D) d k f pts); try assumption; try nia.
  - rewrite kappa_rot by assumption. rewrite ln_1. lra.
  - intros p Hp. split; [apply Hrho; exact Hp|].
    pose proof (rho2_sim 1 (m * m) f k pts p ltac:(lia) ltac:(nia) S1 Hp) as R. specialize (Hrho p Hp).
    unfold rho_ok in *. apply Z.ltb_lt in Hrho. apply Z.ltb_lt. nia.
  - intros p Hp. rewrite kappa_rot by assumption. apply Hsv. exact Hp.
Qed.

(* scaling the real sample by the positive rational c / e: points times c, grid e times finer *)
Definition scale (c : Z) (p : point) : point := map (Z.mul c) p.

Lemma d2_scale c : forall p q, d2 (scale c p) (scale c q) = (c * c * d2 p q)%Z.
Proof.
  unfold d2, dist, scale. induction p as [|a p IH]; intros [|b q]; cbn [combine map agg fold_right] in *; try lia.
  specialize (IH q). cbn [agg] in IH. rewrite IH. unfold cd; cbn [fst snd]. ring.
Qed.

Theorem scale_law c e D d k pts :
  (0 < c)%Z -> (0 < e)%Z -> (0 < D)%Z -> pts <> [] ->
  (forall p, In p pts -> rho_ok D (rho2 k pts p) = true /\ rho_ok (e * D) (rho2 k (map (scale c) pts) (scale c p)) = true) ->
  (forall p, In p pts -> ins (e * D) (scale c p) (map (scale c) (nbrs k pts p)) = ins D p (nbrs k pts p)) ->
  (forall p, In p pts -> Forall2 (sv_related ((IZR c / IZR e) * (IZR c / IZR e)))
                                 (sv2 D p (nbrs k pts p)) (sv2 (e * D) (scale c p) (map (scale c) (nbrs k pts p)))) ->
  evalR [] (geo_entropy_expr sv2 ins (e * D) d k (map (scale c) pts)) =
  evalR [] (geo_entropy_expr sv2 ins D d k pts) + INR d * ln (IZR c / IZR e).
Proof.
  intros Hc He HD Hne Hrho Hins Hsv.
  assert (S1 : pw_similar 1 (c * c) (scale c) pts) by (intros a b _ _; rewrite d2_scale; lia).
  assert (Hcr : 0 < IZR c) by (apply IZR_lt; exact Hc). assert (Her : 0 < IZR e) by (apply IZR_lt; exact He).
  assert (K : kappa 1 (c * c) D (e * D) = (IZR c / IZR e) * (IZR c / IZR e)).
  { unfold kappa. rewrite !mult_IZR. field. split; [lra|apply not_0_IZR; lia]. }
  rewrite (similarity_law 1 (c * c) D (e * D) d k (scale c) pts); try assumption; try nia.
  - rewrite K. rewrite ln_mult by (apply Rdiv_lt_0_compat; assumption). lra.
  - intros p Hp. rewrite K. apply Hsv. exact Hp.
Qed.
End Laws.

(* ================================================================================================ *)
(* D. the exactly computed SVD data ([sv2_1], [ins_1]: the trace of the centred Gram matrix and the count against
      it; for d = 1 they ARE the squared singular value and the ellipsoid count) satisfy every hypothesis above
      in every dimension -- the hypotheses are satisfiable -- and for d = 1 no oracle remains                  *)
Definition zsum (l : list Z) : Z := fold_right Z.add 0%Z l.

Lemma zsum_perm l l' : Permutation l l' -> zsum l = zsum l'.
Proof. apply (agg_perm Euclid). Qed.

Lemma zsum_map_sim {A} (alpha beta : Z) (g g' : A -> Z) l :
  (forall a, In a l -> alpha * g' a = beta * g a)%Z -> (alpha * zsum (map g' l) = beta * zsum (map g l))%Z.
Proof.
  induction l as [|a l IH]; intros H; cbn [map zsum fold_right]; [lia|].
  fold (zsum (map g' l)). fold (zsum (map g l)).
  pose proof (H a (or_introl eq_refl)). specialize (IH (fun b Hb => H b (or_intror Hb))). lia.
Qed.

Lemma pair_sum_eq l : pair_sum l = zsum (map (fun a => zsum (map (d2 a) l)) l).
Proof. reflexivity. Qed.

Lemma pair_sum_perm l l' : Permutation l l' -> pair_sum l = pair_sum l'.
Proof.
  intros P. rewrite !pair_sum_eq.
  rewrite (map_ext (fun a => zsum (map (d2 a) l)) (fun a => zsum (map (d2 a) l'))) by (intros a; apply zsum_perm, Permutation_map, P).
  apply zsum_perm, Permutation_map, P.
Qed.

Lemma pair_sum_sim alpha beta f pts l : pw_similar alpha beta f pts -> incl l pts ->
  (alpha * pair_sum (map f l) = beta * pair_sum l)%Z.
Proof.
  intros S I. rewrite !pair_sum_eq, map_map. apply zsum_map_sim. intros a Ha.
  rewrite map_map. apply zsum_map_sim. intros b Hb. apply S; apply I; assumption.
Qed.

Theorem exact_data_order_free : oracle_order_free sv2_1 ins_1.
Proof.
  intros D p l l' P. assert (P' : Permutation (p :: l) (p :: l')) by (constructor; exact P).
  unfold sv2_1, ins_1. rewrite (pair_sum_perm _ _ P'). cbn [length]. rewrite (Permutation_length P). split; [reflexivity|].
  f_equal. apply filter_len_perm. exact P.
Qed.

Lemma ins_1_sim alpha beta D D' f pts p l : (0 < alpha)%Z -> (0 < beta)%Z -> pw_similar alpha beta f pts -> In p pts -> incl l pts ->
  ins_1 D' (f p) (map f l) = ins_1 D p l.
Proof.
  intros Ha Hb S Hp I. unfold ins_1. f_equal. rewrite filter_map_comm, map_length. f_equal. apply filter_ext_in. intros q Hq.
  assert (I' : incl (p :: l) pts) by (intros x [<-|Hx]; [exact Hp|apply I; exact Hx]).
  pose proof (pair_sum_sim alpha beta f pts (p :: l) S I') as E. cbn [map] in E.
  pose proof (S p q Hp (I q Hq)) as E2. cbn [length]. rewrite map_length.
  set (n := Z.of_nat (Datatypes.S (length l))) in *. set (x' := d2 (f p) (f q)) in *. set (x := d2 p q) in *.
  set (s' := pair_sum (f p :: map f l)) in *. set (s := pair_sum (p :: l)) in *.
  destruct (Z.leb_spec (2 * n * x') s'), (Z.leb_spec (2 * n * x) s); try reflexivity; nia.
Qed.

Lemma Q2R_make n dn : (0 < dn)%Z -> Q2R (Qmake n (Z.to_pos dn)) = (IZR n / IZR dn)%R.
Proof. intros H. unfold Q2R. cbn [Qnum Qden]. rewrite Z2Pos.id by exact H. reflexivity. Qed.

Lemma sv2_1_sim alpha beta D D' f pts p l : (0 < alpha)%Z -> (0 < beta)%Z -> (0 < D)%Z -> (0 < D')%Z ->
  pw_similar alpha beta f pts -> In p pts -> incl l pts ->
  match sv2_1 D p l, sv2_1 D' (f p) (map f l) with
  | [s], [s'] => Q2R s' = (kappa alpha beta D D' * Q2R s)%R
  | _, _ => False
  end.
Proof.
  intros Ha Hb HD HD' S Hp I. unfold sv2_1.
  assert (I' : incl (p :: l) pts) by (intros x [<-|Hx]; [exact Hp|apply I; exact Hx]).
  pose proof (pair_sum_sim alpha beta f pts (p :: l) S I') as E. cbn [map] in E.
  cbn [length]. rewrite map_length. rewrite !Q2R_make by nia.
  unfold kappa. apply (f_equal IZR) in E. rewrite !mult_IZR in E. rewrite !mult_IZR, <- !INR_IZR_INZ.
  assert (0 < INR (Datatypes.S (length l)))%R by (apply lt_0_INR; lia).
  assert (0 < IZR D)%R by (apply IZR_lt; exact HD). assert (0 < IZR D')%R by (apply IZR_lt; exact HD').
  assert (0 < IZR alpha)%R by (apply IZR_lt; exact Ha).
  apply (Rmult_eq_reg_l (IZR alpha)); [|lra]. field_simplify; try lra. rewrite E. field. lra.
Qed.

(* d = 1: the singular-value term of a single singular value is ln(sigma_0/sigma_0) = 0 or skipped *)
Lemma sv_term_single s : evalR [] (sv_term 1 [s]) = 0%R.
Proof.
  rewrite sv_term_spec. unfold sv_term_R. destruct (gt24 s) eqn:G; [|reflexivity].
  cbn [firstn map Rsum fold_right]. unfold sv_one_R. rewrite G.
  pose proof (gt24_pos _ G) as P. pose proof thr24_pos as T.
  assert (R : ratio_ok s s = true).
  { unfold ratio_ok. apply negb_true_iff. destruct (Qle_bool s (thr24 * s)) eqn:B; [exfalso|reflexivity].
    apply Qle_bool_iff, Qle_Rle in B. rewrite Q2R_mult in B.
    assert (Q2R thr24 < 1)%R by (unfold Q2R, thr24; cbn [Qnum Qden]; rewrite Rmult_1_l, <- Rinv_1; apply Rinv_lt_contravar; [rewrite Rmult_1_l|]; apply IZR_lt; reflexivity).
    nra. }
  rewrite R. unfold Rdiv. rewrite Rinv_r by (apply Rgt_not_eq, sqrt_lt_R0; exact P). rewrite ln_1. lra.
Qed.

Lemma nbrs_incl k pts p : incl (nbrs k pts p) pts.
Proof. intros q Hq. unfold nbrs, nbrs_r in Hq. apply filter_In in Hq. apply Hq. Qed.

(* the d = 1 estimator obeys the similarity law with no hypothesis on SVD data *)
Theorem geo1_similarity_law alpha beta D D' k f pts :
  (0 < alpha)%Z -> (0 < beta)%Z -> (0 < D)%Z -> (0 < D')%Z -> pts <> [] ->
  pw_similar alpha beta f pts ->
  (forall p, In p pts -> rho_ok D (rho2 k pts p) = true /\ rho_ok D' (rho2 k (map f pts) (f p)) = true) ->
  evalR [] (geo1_entropy_expr D' k (map f pts)) = (evalR [] (geo1_entropy_expr D k pts) + / 2 * ln (kappa alpha beta D D'))%R.
Proof.
  intros Ha Hb HD HD' Hne S Hrho. unfold geo1_entropy_expr.
  rewrite (similarity_law_gen sv2_1 ins_1 alpha beta D D' 1 k f pts); try assumption.
  - cbn [INR]. lra.
  - intros p Hp. apply (ins_1_sim alpha beta D D' f pts); try assumption. apply nbrs_incl.
  - intros p Hp. unfold sv2_1. destruct k as [|k']; cbn [firstn]; [reflexivity|]. rewrite !firstn_nil, !sv_term_single. reflexivity.
Qed.

Theorem geo1_row_perm_invariant D k pts pts' : Permutation pts pts' ->
  evalR [] (geo1_entropy_expr D k pts) = evalR [] (geo1_entropy_expr D k pts').
Proof. apply row_perm_invariant. exact exact_data_order_free. Qed.

(* translations and reflections of a 1-d sample (any map preserving the pairwise distances) *)
Theorem geo1_isometry_invariant D k f pts :
  (forall p q, In p pts -> In q pts -> d2 (f p) (f q) = d2 p q) ->
  geo1_entropy_expr D k (map f pts) = geo1_entropy_expr D k pts.
Proof.
  intros S. unfold geo1_entropy_expr.
  assert (S1 : pw_similar 1 1 f pts) by (intros a b Ha Hb; rewrite (S a b Ha Hb); reflexivity).
  apply isometry_invariant; [exact S| |]; intros p Hp.
  - apply (ins_1_sim 1 1 D D f pts); try lia; try assumption. apply nbrs_incl.
  - unfold sv2_1. cbn [length]. rewrite map_length.
    assert (I' : incl (p :: nbrs k pts p) pts) by (intros x [<-|Hx]; [exact Hp|apply (nbrs_incl k pts p); exact Hx]).
    pose proof (pair_sum_sim 1 1 f pts _ S1 I') as E. cbn [map] in E. f_equal. f_equal. lia.
Qed.

Theorem geo1_scale_law c e D k pts :
  (0 < c)%Z -> (0 < e)%Z -> (0 < D)%Z -> pts <> [] ->
  (forall p, In p pts -> rho_ok D (rho2 k pts p) = true /\ rho_ok (e * D) (rho2 k (map (scale c) pts) (scale c p)) = true) ->
  evalR [] (geo1_entropy_expr (e * D) k (map (scale c) pts)) = (evalR [] (geo1_entropy_expr D k pts) + ln (IZR c / IZR e))%R.
Proof.
  intros Hc He HD Hne Hrho.
  assert (S1 : pw_similar 1 (c * c) (scale c) pts) by (intros a b _ _; rewrite d2_scale; lia).
  assert (Hcr : (0 < IZR c)%R) by (apply IZR_lt; exact Hc). assert (Her : (0 < IZR e)%R) by (apply IZR_lt; exact He).
  assert (K : kappa 1 (c * c) D (e * D) = ((IZR c / IZR e) * (IZR c / IZR e))%R).
  { unfold kappa. rewrite !mult_IZR. field. split; [lra|apply not_0_IZR; lia]. }
  rewrite (geo1_similarity_law 1 (c * c) D (e * D) k (scale c) pts); try assumption; try nia.
  rewrite K. rewrite ln_mult by (apply Rdiv_lt_0_compat; assumption). lra.
Qed.

(* ================================================================================================ *)
(* E. mutual information and conditional mutual information are the documented signed sums           *)
Theorem geo_mi_def sv2 ins D k all :
  evalR [] (geo_mi_expr sv2 ins D k all) =
  (evalR [] (geo_entropy_expr sv2 ins D (length (sx (hd (mk ([], [], [])) all))) k (map sx all))
   + evalR [] (geo_entropy_expr sv2 ins D (length (sy (hd (mk ([], [], [])) all))) k (map sy all))
   - evalR [] (geo_entropy_expr sv2 ins D (length (sx (hd (mk ([], [], [])) all)) + length (sy (hd (mk ([], [], [])) all))) k
                                (map (fun s => sx s ++ sy s) all)))%R.
Proof. reflexivity. Qed.

Theorem geo_cmi_def sv2 ins D k all :
  let dx := length (sx (hd (mk ([], [], [])) all)) in let dy := length (sy (hd (mk ([], [], [])) all)) in
  let dz := length (sz (hd (mk ([], [], [])) all)) in
  evalR [] (geo_cmi_expr sv2 ins D k all) =
  (evalR [] (geo_entropy_expr sv2 ins D (dx + dz) k (map pxz all)) + evalR [] (geo_entropy_expr sv2 ins D (dy + dz) k (map pyz all))
   - evalR [] (geo_entropy_expr sv2 ins D (dx + dy + dz) k (map pj all)) - evalR [] (geo_entropy_expr sv2 ins D dz k (map sz all)))%R.
Proof. reflexivity. Qed.

(* the floor of geometric_knn_mutual_information *)
Theorem floor0_def e : evalR [] (floor0 e) = Rmax 0 (evalR [] e).
Proof.
  unfold floor0. cbn [evalR app nth]. unfold Rmax, Rabs. destruct (Rcase_abs (evalR [] e)), (Rle_dec 0 (evalR [] e)); lra.
Qed.

(* the signed sums evaluated on recorded data *)
Theorem combo_expr_def ts : evalR [] (combo_expr false ts) = Rsum (map (fun t => evalR [] (term_expr t)) ts).
Proof. unfold combo_expr. apply evalR_ESum. Qed.
Theorem combo_expr_floor ts : evalR [] (combo_expr true ts) = Rmax 0 (Rsum (map (fun t => evalR [] (term_expr t)) ts)).
Proof. unfold combo_expr. rewrite floor0_def. f_equal. apply evalR_ESum. Qed.

(* ================================================================================================ *)
(* F. tie between the function-oracle form and the recorded-list form used by the correspondence     *)
Lemma locs_of_oracle sv2 ins D k pts ps :
  locs_of k pts ps (map (fun p => sv2 D p (nbrs k pts p)) ps) (map (fun p => ins D p (nbrs k pts p)) ps) = map (loc_of sv2 ins D k pts) ps.
Proof. induction ps as [|p ps IH]; cbn [locs_of map]; [reflexivity|]. rewrite IH. reflexivity. Qed.

Theorem case_expr_is_oracle_expr sv2 ins D d k pts :
  geo_case_expr D d k pts (map (fun p => sv2 D p (nbrs k pts p)) pts) (map (fun p => ins D p (nbrs k pts p)) pts)
  = geo_entropy_expr sv2 ins D d k pts.
Proof. unfold geo_case_expr, geo_entropy_expr. rewrite locs_of_oracle. reflexivity. Qed.

(* a successful case check certifies |published formula on the recorded data - returned value| <= tolerance *)
Theorem check_geo_case_sound D d k pts svl insl vn vd tn td : (0 < D)%Z ->
  check_geo_case (D, d, k, pts, svl, insl, vn, vd, tn, td) = true ->
  (Rabs (geo_spec D d (locs_of k pts pts svl insl) - IZR vn / IZR vd) <= IZR tn / IZR td)%R.
Proof.
  intros HD H. unfold check_geo_case in H. apply andb_prop in H. destruct H as [_ H].
  apply close_sound in H. unfold geo_case_expr in H. rewrite geo_expr_meaning in H by exact HD. exact H.
Qed.

(* ================================================================================================ *)
(* G. non-vacuity: the hypotheses of the laws are jointly satisfiable in every dimension (by the exactly computed
      trace data), and concrete samples satisfy the guard hypotheses                                  *)
Lemma exact_sv_related alpha beta D D' f pts p l : (0 < alpha)%Z -> (0 < beta)%Z -> (0 < D)%Z -> (0 < D')%Z ->
  pw_similar alpha beta f pts -> In p pts -> incl l pts ->
  gt24 (hd 0%Q (sv2_1 D' (f p) (map f l))) = gt24 (hd 0%Q (sv2_1 D p l)) ->
  Forall2 (sv_related (kappa alpha beta D D')) (sv2_1 D p l) (sv2_1 D' (f p) (map f l)).
Proof.
  intros Ha Hb HD HD' S Hp I G. pose proof (sv2_1_sim alpha beta D D' f pts p l Ha Hb HD HD' S Hp I) as E.
  unfold sv2_1 in *. cbn [hd] in G. constructor; [split; assumption|constructor].
Qed.

Theorem exact_data_similarity_law alpha beta D D' d k f pts :
  (0 < alpha)%Z -> (0 < beta)%Z -> (0 < D)%Z -> (0 < D')%Z -> pts <> [] ->
  pw_similar alpha beta f pts ->
  (forall p, In p pts -> rho_ok D (rho2 k pts p) = true /\ rho_ok D' (rho2 k (map f pts) (f p)) = true) ->
  (forall p, In p pts -> gt24 (hd 0%Q (sv2_1 D' (f p) (map f (nbrs k pts p)))) = gt24 (hd 0%Q (sv2_1 D p (nbrs k pts p)))) ->
  evalR [] (geo_entropy_expr sv2_1 ins_1 D' d k (map f pts)) =
  (evalR [] (geo_entropy_expr sv2_1 ins_1 D d k pts) + INR d / 2 * ln (kappa alpha beta D D'))%R.
Proof.
  intros Ha Hb HD HD' Hne S Hrho Hg. apply similarity_law; try assumption.
  - intros p Hp. apply (ins_1_sim alpha beta D D' f pts); try assumption. apply nbrs_incl.
  - intros p Hp. apply (exact_sv_related alpha beta D D' f pts); try assumption; [apply nbrs_incl|apply Hg; exact Hp].
Qed.

(* a 1-d sample scaled by 3/2 *)
Definition ex_pts1 : list point := [[0]; [1]; [3]; [7]; [12]; [20]]%Z.
Example geo1_scale_instance :
  evalR [] (geo1_entropy_expr (2 * 1) 2 (map (scale 3) ex_pts1)) = (evalR [] (geo1_entropy_expr 1 2 ex_pts1) + ln (3 / 2))%R.
Proof.
  apply (geo1_scale_law 3 2 1 2 ex_pts1); try lia; [discriminate|].
  intros p Hp. cbn [ex_pts1 In] in Hp.
  repeat (destruct Hp as [<-|Hp]; [split; vm_compute; reflexivity|]). destruct Hp.
Qed.

(* a 2-d sample rotated by the angle atan(4/3): (x, y) -> (3x - 4y, 4x + 3y) / 5, image on the 5-times finer grid *)
Definition rot345 (p : point) : point := match p with [x; y] => [3 * x - 4 * y; 4 * x + 3 * y]%Z | _ => p end.
Definition ex_pts2 : list point := [[0; 0]; [1; 2]; [5; 1]; [2; 7]; [-3; 4]; [6; 6]]%Z.
Lemma rot345_similar : pw_similar 1 25 rot345 ex_pts2.
Proof.
  intros p q Hp Hq. cbn [ex_pts2 In] in Hp, Hq.
  repeat (destruct Hp as [<-|Hp]; [repeat (destruct Hq as [<-|Hq]; [vm_compute; reflexivity|]); destruct Hq|]). destruct Hp.
Qed.
Example rotation_instance :
  evalR [] (geo_entropy_expr sv2_1 ins_1 5 2 2 (map rot345 ex_pts2)) = evalR [] (geo_entropy_expr sv2_1 ins_1 1 2 2 ex_pts2).
Proof.
  rewrite (exact_data_similarity_law 1 25 1 5 2 2 rot345 ex_pts2); try lia; try discriminate; try exact rot345_similar.
  - assert (K : kappa 1 25 1 5 = 1%R) by (unfold kappa; replace (1 * 1)%Z with 1%Z by lia; replace (5 * 5)%Z with 25%Z by lia; lra).
    rewrite K, ln_1. lra.
  - intros p Hp. cbn [ex_pts2 In] in Hp. repeat (destruct Hp as [<-|Hp]; [split; vm_compute; reflexivity|]). destruct Hp.
  - intros p Hp. cbn [ex_pts2 In] in Hp. repeat (destruct Hp as [<-|Hp]; [vm_compute; reflexivity|]). destruct Hp.
Qed.

(* a translated 2-d sample with ANY data that depend on differences only: here the exact data *)
Example shift_instance : geo_entropy_expr sv2_1 ins_1 1 2 2 (map (shift [10; -7]%Z) ex_pts2) = geo_entropy_expr sv2_1 ins_1 1 2 2 ex_pts2.
Proof. vm_compute. reflexivity. Qed.

(* the regularity hypothesis of the docstring form holds on a concrete sample with concrete SVD data *)
Example regular_instance : Forall (regular 1 1) (map (loc_of sv2_1 ins_1 1 2 ex_pts1) ex_pts1).
Proof. repeat constructor. Qed.

(* ================================================================================================ *)
(* H. d = 2 without SVD data: the closed form is log(sigma_1/sigma_0) for the two eigenvalues of Y^T Y  *)
From CE Require Import Model.GeoEllipsoid.
Section D2.
Open Scope R_scope.

(* the roots of x^2 - t x + dt *)
Lemma eig2 t dt : 0 < dt -> 4 * dt <= t * t -> 0 < t ->
  let s := sqrt (t * t - 4 * dt) in let l0 := (t + s) / 2 in let l1 := (t - s) / 2 in
  l0 + l1 = t /\ l0 * l1 = dt /\ 0 < l1 <= l0 /\ / 2 * ln dt - ln l0 = ln (sqrt l1 / sqrt l0).
Proof.
  intros Hd Hdisc Ht s l0 l1.
  assert (Hs0 : 0 <= s) by apply sqrt_pos.
  assert (Hs2 : s * s = t * t - 4 * dt) by (apply sqrt_sqrt; lra).
  assert (Hst : s < t) by nra.
  assert (P1 : 0 < l1) by (unfold l1; lra). assert (P0 : 0 < l0) by (unfold l0; lra).
  assert (Hprod : l0 * l1 = dt) by (unfold l0, l1; nra).
  repeat split; try (unfold l0, l1; lra); try exact Hprod.
  rewrite ln_div by (apply sqrt_lt_R0; assumption). rewrite !ln_sqrt_half by assumption.
  rewrite <- Hprod. rewrite ln_mult by assumption. lra.
Qed.

Theorem sv_term2_meaning D p l t dt : (0 < D)%Z -> (2 <= length l)%nat -> tr_det2 p l = (t, dt) ->
  (0 < dt)%Z -> (4 * dt <= t * t)%Z -> (0 < t)%Z ->
  let u := IZR (Z.of_nat (length (p :: l)) * Z.of_nat (length (p :: l)) * (D * D)) in
  exists l0 l1, l0 + l1 = IZR t / u /\ l0 * l1 = IZR dt / (u * u) /\ 0 < l1 <= l0 /\
                evalR [] (sv_term2 D p l) = ln (sqrt l1 / sqrt l0).
Proof.
  intros HD Hl E Hdt Hdisc Ht u.
  assert (Hu : 0 < u) by (unfold u; apply IZR_lt; cbn [length]; nia).
  assert (Rt : 0 < IZR t) by (apply IZR_lt; exact Ht). assert (Rd : 0 < IZR dt) by (apply IZR_lt; exact Hdt).
  assert (Rdisc : 4 * IZR dt <= IZR t * IZR t) by (rewrite <- !mult_IZR; apply IZR_le; exact Hdisc).
  set (T := IZR t / u). set (DT := IZR dt / (u * u)).
  assert (HT : 0 < T) by (apply Rdiv_lt_0_compat; assumption).
  assert (HDT : 0 < DT) by (apply Rdiv_lt_0_compat; [assumption|nra]).
  assert (Hq : T * T - 4 * DT = (IZR t * IZR t - 4 * IZR dt) / (u * u)) by (unfold T, DT; field; lra).
  assert (HD4 : 4 * DT <= T * T).
  { assert (0 <= (IZR t * IZR t - 4 * IZR dt) / (u * u)) by (apply Rmult_le_pos; [lra|left; apply Rinv_0_lt_compat; nra]). lra. }
  destruct (eig2 T DT HDT HD4 HT) as [A [B [C F]]].
  exists ((T + sqrt (T * T - 4 * DT)) / 2), ((T - sqrt (T * T - 4 * DT)) / 2). repeat split; try apply C; try assumption.
  rewrite <- F. unfold sv_term2. destruct (Nat.ltb_spec (length l) 2) as [H|_]; [lia|]. rewrite E.
  cbn [half_ln evalR EQ]. rewrite (mult_IZR (_ * _ * _) (_ * _ * _)), (mult_IZR 2), minus_IZR, (mult_IZR t t), (mult_IZR 4 dt). fold u.
  replace (1 / 2) with (/ 2) by lra. fold DT. f_equal. f_equal.
  rewrite Hq. rewrite sqrt_div_alt by nra. rewrite sqrt_square by lra. unfold T. field. lra.
Qed.
End D2.

(* a concrete planar neighbourhood satisfies the hypotheses of [sv_term2_meaning] *)
Example d2_instance : tr_det2 [0; 0]%Z [[3; 1]; [1; 4]; [-2; 2]]%Z = (348, 29056)%Z /\ (4 * 29056 <= 348 * 348)%Z.
Proof. split; [vm_compute; reflexivity|lia]. Qed.

(* ================================================================================================ *)
(* I. the exact ellipsoid count (every dimension) depends on coordinate differences and on the neighbour SET only:
      with it in place of [ins], translation and sample-order invariance need a hypothesis on the singular values only *)
Lemma vsub_shift t : forall p r, (length p <= length t)%nat -> (length r <= length t)%nat -> vsub (shift t p) (shift t r) = vsub p r.
Proof.
  unfold vsub, shift. induction t as [|c t IH]; intros [|a p] [|b r] Hp Hr; cbn [length combine map] in *; try lia; try reflexivity.
  f_equal; [cbn [fst snd]; lia|apply IH; lia].
Qed.

Lemma centred_shift t (nb : list point) d : (forall x, In x nb -> (length x <= length t)%nat) -> centred (map (shift t) nb) d = centred nb d.
Proof.
  intros L. unfold centred. rewrite map_map. apply map_ext_in. intros p Hp. f_equal. rewrite map_map. apply map_ext_in.
  intros r Hr. apply vsub_shift; apply L; assumption.
Qed.

Lemma ell_value_shift d t (p : point) (l : list point) (q : point) : (forall x, In x (p :: l) -> (length x <= length t)%nat) -> (length q <= length t)%nat ->
  ell_value d (shift t p) (map (shift t) l) (shift t q) = ell_value d p l q.
Proof.
  intros L Lq. unfold ell_value. cbv zeta. change (shift t p :: map (shift t) l) with (map (shift t) (p :: l)).
  rewrite (centred_shift t (p :: l) d L), vsub_shift, map_length; [reflexivity|exact Lq|apply L; left; reflexivity].
Qed.

Lemma ins_exact_shift d t (p : point) (l : list point) : (forall x, In x (p :: l) -> (length x <= length t)%nat) ->
  ins_exact d (shift t p) (map (shift t) l) = ins_exact d p l.
Proof.
  intros L. unfold ins_exact. rewrite map_length. destruct (Nat.ltb (length l) d); [reflexivity|].
  assert (G : forall l', incl l' l ->
    fold_right (fun q acc => match acc, ell_value d (shift t p) (map (shift t) l) q with
                             | Some n, Some v => Some (if Qle_bool v 1 then n + 1 else n)%Z | _, _ => None end) (Some 0%Z) (map (shift t) l')
    = fold_right (fun q acc => match acc, ell_value d p l q with
                               | Some n, Some v => Some (if Qle_bool v 1 then n + 1 else n)%Z | _, _ => None end) (Some 0%Z) l').
  { induction l' as [|q l' IH]; intros I; cbn [map fold_right]; [reflexivity|].
    rewrite IH by (intros x Hx; apply I; right; exact Hx).
    rewrite ell_value_shift; [reflexivity|exact L|apply L; right; apply I; left; reflexivity]. }
  apply G, incl_refl.
Qed.

Theorem shift_invariant_exact_count sv2 D d k t pts :
  Forall (fun p => length p <= length t)%nat pts ->
  (forall p, In p pts -> sv2 D (shift t p) (map (shift t) (nbrs k pts p)) = sv2 D p (nbrs k pts p)) ->
  geo_entropy_expr sv2 (ins_x d) D d k (map (shift t) pts) = geo_entropy_expr sv2 (ins_x d) D d k pts.
Proof.
  intros L Hsv. apply shift_invariant; [exact L| |exact Hsv].
  intros p Hp. unfold ins_x. rewrite ins_exact_shift; [reflexivity|]. rewrite Forall_forall in L.
  intros x [<-|Hx]; [apply L; exact Hp|apply L; apply (nbrs_incl k pts p); exact Hx].
Qed.

Lemma vadd_comm : forall a b, vadd a b = vadd b a.
Proof. unfold vadd. induction a as [|x a IH]; intros [|y b]; cbn [combine map]; try reflexivity. f_equal; [cbn [fst snd]; lia|apply IH]. Qed.
Lemma vadd_assoc : forall a b c, vadd a (vadd b c) = vadd (vadd a b) c.
Proof.
  unfold vadd. induction a as [|x a IH]; intros [|y b] [|z c]; cbn [combine map]; try reflexivity.
  f_equal; [cbn [fst snd]; lia|apply IH].
Qed.
Lemma fold_vadd_perm z l l' : Permutation l l' -> fold_right vadd z l = fold_right vadd z l'.
Proof.
  induction 1 as [|x l l' _ IH|x y l|l l' l'' _ IH1 _ IH2]; cbn [fold_right]; [reflexivity|congruence| |congruence].
  rewrite !vadd_assoc, (vadd_comm y x). reflexivity.
Qed.

Lemma gram_centred_perm (nb nb' : list point) d : Permutation nb nb' -> gram (centred nb d) d = gram (centred nb' d) d.
Proof.
  intros P. unfold gram. apply map_ext. intros i. apply map_ext. intros j. apply zsum_perm. apply Permutation_map.
  unfold centred.
  rewrite (map_ext (fun p => fold_right vadd (repeat 0%Z d) (map (vsub p) nb)) (fun p => fold_right vadd (repeat 0%Z d) (map (vsub p) nb')))
    by (intros p; apply fold_vadd_perm, Permutation_map, P).
  apply Permutation_map, P.
Qed.

Lemma ell_value_perm d (p : point) (l l' : list point) (q : point) : Permutation l l' -> ell_value d p l q = ell_value d p l' q.
Proof.
  intros P. unfold ell_value. cbv zeta. rewrite (gram_centred_perm (p :: l) (p :: l') d) by (constructor; exact P).
  cbn [length]. rewrite (Permutation_length P). reflexivity.
Qed.

Lemma count_fold_perm (e : point -> option Q) l l' : Permutation l l' ->
  fold_right (fun q acc => match acc, e q with Some n, Some v => Some (if Qle_bool v 1 then n + 1 else n)%Z | _, _ => None end) (Some 0%Z) l
  = fold_right (fun q acc => match acc, e q with Some n, Some v => Some (if Qle_bool v 1 then n + 1 else n)%Z | _, _ => None end) (Some 0%Z) l'.
Proof.
  induction 1 as [|x l l' _ IH|x y l|l l' l'' _ IH1 _ IH2]; cbn [fold_right]; [reflexivity|rewrite IH; reflexivity| |rewrite IH1; exact IH2].
  destruct (fold_right _ _ l) as [n|]; destruct (e x) as [vx|], (e y) as [vy|]; try reflexivity.
  destruct (Qle_bool vx 1), (Qle_bool vy 1); f_equal; lia.
Qed.

Lemma count_fold_ext (e e' : point -> option Q) l : (forall q, e q = e' q) ->
  fold_right (fun q acc => match acc, e q with Some n, Some v => Some (if Qle_bool v 1 then n + 1 else n)%Z | _, _ => None end) (Some 0%Z) l
  = fold_right (fun q acc => match acc, e' q with Some n, Some v => Some (if Qle_bool v 1 then n + 1 else n)%Z | _, _ => None end) (Some 0%Z) l.
Proof. intros E. induction l as [|q r IH]; cbn [fold_right]; [reflexivity|]. rewrite IH, E. reflexivity. Qed.

Theorem exact_count_order_free d D (p : point) (l l' : list point) : Permutation l l' -> ins_x d D p l = ins_x d D p l'.
Proof.
  intros P. unfold ins_x, ins_exact. rewrite (Permutation_length P). destruct (Nat.ltb (length l') d); [reflexivity|].
  rewrite (count_fold_perm (ell_value d p l) l l' P).
  rewrite (count_fold_ext (ell_value d p l) (ell_value d p l') l') by (intros q; apply ell_value_perm; exact P).
  reflexivity.
Qed.

Theorem row_perm_invariant_exact_count sv2 d :
  (forall D p l l', Permutation l l' -> sv2 D p l = sv2 D p l') ->
  forall D k pts pts', Permutation pts pts' ->
  evalR [] (geo_entropy_expr sv2 (ins_x d) D d k pts) = evalR [] (geo_entropy_expr sv2 (ins_x d) D d k pts').
Proof.
  intros Hsv D k pts pts' P. apply row_perm_invariant; [|exact P]. intros D0 p l l' P0. split; [apply Hsv; exact P0|apply exact_count_order_free; exact P0].
Qed.
