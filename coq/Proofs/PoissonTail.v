(* C13: the tail of the Poisson entropy series beyond a term that is already tiny.

   p_k = e^{-lam} lam^k / k!,  h(x) = - x ln x.  If 2 lam <= K+1 (geometric decay from K on) and p_K <= delta <= 1/e,
   then EVERY finite piece of the tail obeys
        sum_{j=1..M} h(p_{K+j})  <=  delta * (- ln delta + 2 ln 2),
   so truncating the series after term K changes the entropy by at most that amount (4.3e-17 for delta = 1e-18). *)
From Coq Require Import Reals Lra Lia Arith.
Open Scope R_scope.

Definition pk (lam : R) (k : nat) : R := exp (- lam) * lam ^ k / INR (fact k).
Definition hx (x : R) : R := - x * ln x.

Lemma pk_pos lam k : 0 < lam -> 0 < pk lam k.
Proof.
  intros H. unfold pk. apply Rdiv_lt_0_compat; [apply Rmult_lt_0_compat; [apply exp_pos|apply pow_lt; exact H]|apply INR_fact_lt_0].
Qed.

Lemma pk_succ lam k : pk lam (S k) = pk lam k * (lam / INR (S k)).
Proof.
  unfold pk. rewrite fact_simpl, mult_INR. cbn [pow]. field. split; [apply not_0_INR; lia|apply INR_fact_neq_0].
Qed.

Lemma pk_halves lam k : 0 < lam -> 2 * lam <= INR (S k) -> pk lam (S k) <= pk lam k / 2.
Proof.
  intros Hl H. rewrite pk_succ. pose proof (pk_pos lam k Hl) as Hp.
  assert (Hs : 0 < INR (S k)) by (apply lt_0_INR; lia).
  assert (lam / INR (S k) <= / 2).
  { apply Rmult_le_reg_r with (INR (S k)); [exact Hs|]. unfold Rdiv. rewrite Rmult_assoc, Rinv_l by lra. lra. }
  unfold Rdiv at 2. apply Rmult_le_compat_l; lra.
Qed.

Lemma pk_geometric lam K j : 0 < lam -> 2 * lam <= INR (S K) -> pk lam (K + j) <= pk lam K / 2 ^ j.
Proof.
  intros Hl H. induction j as [|j IH].
  - rewrite Nat.add_0_r. cbn [pow]. lra.
  - rewrite Nat.add_succ_r. eapply Rle_trans; [apply pk_halves; [exact Hl|]|].
    + eapply Rle_trans; [exact H|]. apply le_INR. lia.
    + cbn [pow]. assert (0 < 2 ^ j) by (apply pow_lt; lra). unfold Rdiv in *.
      rewrite Rinv_mult. apply Rle_trans with (pk lam K * / 2 ^ j * / 2); [apply Rmult_le_compat_r; lra|]. lra.
Qed.

Lemma ln_le_minus_1 x : 0 < x -> ln x <= x - 1.
Proof. intros H. pose proof (exp_ineq1_le (ln x)) as E. rewrite exp_ln in E by exact H. lra. Qed.

(* -x ln x is increasing on (0, 1/e] *)
Lemma hx_mono a b : 0 < a -> a <= b -> b <= exp (-1) -> hx a <= hx b.
Proof.
  intros Ha Hab Hb. unfold hx.
  assert (Hb0 : 0 < b) by lra.
  assert (Lb : ln b <= -1).
  { destruct (Rle_lt_or_eq_dec _ _ Hb) as [Hlt|Heq]; [|rewrite Heq, ln_exp; lra].
    apply Rlt_le. rewrite <- (ln_exp (-1)). apply ln_increasing; assumption. }
  set (t := a / b).
  assert (Ht : 0 < t <= 1).
  { unfold t. split; [apply Rdiv_lt_0_compat; assumption|]. apply Rmult_le_reg_r with b; [exact Hb0|]. unfold Rdiv.
    rewrite Rmult_assoc, Rinv_l by lra. lra. }
  assert (Ea : a = t * b) by (unfold t; field; lra).
  assert (Lt : ln a = ln t + ln b) by (rewrite Ea; apply ln_mult; lra).
  (* ln t >= 1 - 1/t *)
  assert (Li : ln (/ t) <= / t - 1) by (apply ln_le_minus_1, Rinv_0_lt_compat; lra).
  rewrite ln_Rinv in Li by lra.
  assert (Lt2 : t * ln t >= t - 1).
  { assert (t * (- ln t) <= t * (/ t - 1)) by (apply Rmult_le_compat_l; lra). rewrite Rmult_minus_distr_l, Rinv_r in H by lra. lra. }
  rewrite Lt, Ea.
  (* goal: - (t b) (ln t + ln b) <= - b ln b *)
  assert (G : t * (ln t + ln b) >= ln b) by nra.
  nra.
Qed.

Lemma hx_geometric delta j : 0 < delta -> hx (delta / 2 ^ j) = delta * (/ 2 ^ j * (- ln delta) + INR j * / 2 ^ j * ln 2).
Proof.
  intros Hd. unfold hx. assert (0 < 2 ^ j) by (apply pow_lt; lra). unfold Rdiv.
  rewrite ln_mult by (try apply Rinv_0_lt_compat; lra). rewrite ln_Rinv, ln_pow by lra. ring.
Qed.

Fixpoint sumR (f : nat -> R) (n : nat) : R := match n with O => 0 | S m => sumR f m + f (S m) end.   (* f 1 + .. + f n *)

Lemma sum_half n : sumR (fun j => / 2 ^ j) n = 1 - / 2 ^ n.
Proof.
  induction n as [|n IH]; [cbn; lra|]. cbn [sumR]. rewrite IH. cbn [pow]. assert (0 < 2 ^ n) by (apply pow_lt; lra). field. lra.
Qed.
Lemma sum_j_half n : sumR (fun j => INR j * / 2 ^ j) n = 2 - (INR n + 2) * / 2 ^ n.
Proof.
  induction n as [|n IH]; [cbn; lra|]. cbn [sumR]. rewrite IH, S_INR. cbn [pow]. assert (0 < 2 ^ n) by (apply pow_lt; lra). field. lra.
Qed.

Lemma sumR_le f g n : (forall j, (1 <= j <= n)%nat -> f j <= g j) -> sumR f n <= sumR g n.
Proof.
  induction n as [|n IH]; intros H; [cbn; lra|]. cbn [sumR]. apply Rplus_le_compat; [apply IH; intros; apply H; lia|apply H; lia].
Qed.
Lemma sumR_ext f g n : (forall j, f j = g j) -> sumR f n = sumR g n.
Proof. intros H. induction n as [|n IH]; cbn [sumR]; [reflexivity|rewrite IH, H; reflexivity]. Qed.
Lemma sumR_scal c f n : sumR (fun j => c * f j) n = c * sumR f n.
Proof. induction n as [|n IH]; cbn [sumR]; [lra|rewrite IH; lra]. Qed.
Lemma sumR_plus f g n : sumR (fun j => f j + g j) n = sumR f n + sumR g n.
Proof. induction n as [|n IH]; cbn [sumR]; [lra|rewrite IH; lra]. Qed.

Theorem tail_bound lam K delta M : 0 < lam -> 2 * lam <= INR (S K) -> pk lam K <= delta -> delta <= exp (-1) ->
  sumR (fun j => hx (pk lam (K + j))) M <= delta * (- ln delta + 2 * ln 2).
Proof.
  intros Hl HK Hp Hd.
  assert (Hd0 : 0 < delta) by (pose proof (pk_pos lam K Hl); lra).
  assert (Lnd : 0 <= - ln delta).
  { assert (ln delta <= -1); [|lra]. destruct (Rle_lt_or_eq_dec _ _ Hd) as [Hlt|Heq]; [|rewrite Heq, ln_exp; lra].
    apply Rlt_le. rewrite <- (ln_exp (-1)). apply ln_increasing; assumption. }
  assert (L2 : 0 < ln 2) by (rewrite <- ln_1; apply ln_increasing; lra).
  eapply Rle_trans.
  { apply (sumR_le _ (fun j => hx (delta / 2 ^ j))). intros j _.
    assert (P2 : 0 < 2 ^ j) by (apply pow_lt; lra).
    apply hx_mono; [apply pk_pos; exact Hl| |].
    - eapply Rle_trans; [apply pk_geometric; assumption|]. unfold Rdiv. apply Rmult_le_compat_r; [apply Rlt_le, Rinv_0_lt_compat; exact P2|exact Hp].
    - apply Rle_trans with delta; [|exact Hd]. unfold Rdiv. rewrite <- (Rmult_1_r delta) at 2. apply Rmult_le_compat_l; [lra|].
      rewrite <- Rinv_1. apply Rinv_le_contravar; [lra|]. clear -j. induction j; cbn [pow]; lra. }
  rewrite (sumR_ext _ (fun j => delta * (/ 2 ^ j * (- ln delta) + INR j * / 2 ^ j * ln 2)))
    by (intros j; apply hx_geometric; exact Hd0).
  rewrite sumR_scal. apply Rmult_le_compat_l; [lra|].
  rewrite sumR_plus.
  rewrite (sumR_ext (fun j => / 2 ^ j * - ln delta) (fun j => - ln delta * / 2 ^ j)) by (intros; ring).
  rewrite (sumR_ext (fun j => INR j * / 2 ^ j * ln 2) (fun j => ln 2 * (INR j * / 2 ^ j))) by (intros; ring).
  rewrite !sumR_scal.
  rewrite sum_half, sum_j_half.
  assert (0 < / 2 ^ M) by (apply Rinv_0_lt_compat, pow_lt; lra).
  assert (0 <= INR M) by apply pos_INR.
  assert (A1 : 0 <= - ln delta * / 2 ^ M) by (apply Rmult_le_pos; lra).
  assert (A2 : 0 <= ln 2 * ((INR M + 2) * / 2 ^ M)) by (apply Rmult_le_pos; [lra|apply Rmult_le_pos; lra]).
  lra.
Qed.
