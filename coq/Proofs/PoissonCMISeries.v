(* The Poisson entropy series satisfies `near_certified` (Proofs/PoissonCMIValues.v): every partial sum from 30 terms on is within 1e-9 of
   h_half at rate 1/2 and of h_one at rate 1 (C13's complete accuracy certificate entropy_full_sound applied to the two in-kernel
   certificates).  Hence the composed statements: with the Poisson entropy itself, any truncation from 30 terms on, exchanging X and Y moves
   the model's estimate on the witness by more than 3/4 and exchanging Z's two columns by more than 1/10. *)
From Coq Require Import List Arith ZArith QArith Bool Reals Qreals Lra Lia.
From CE Require Import Model.PoissonMI Model.PoissonCMI Model.Poisson Model.Itv Proofs.PoissonTail Proofs.PoissonSeries
     Proofs.PoissonCMIProofs Proofs.PoissonCMIValues.
Import ListNotations.
Open Scope R_scope.

(* the Poisson entropies of the rates 1/2 and 1: EVERY partial sum of the series from K = 30 on is within 1e-9 of h_half / h_one *)
Lemma entropy_enclosures K : (30 <= K)%nat ->
  Rabs (partial_entropy (1 / 2) K - 9276374674957975 / 10000000000000000) <= / 10 ^ 9 /\
  Rabs (partial_entropy (1 / 1) K - 13048422422562513 / 10000000000000000) <= / 10 ^ 9.
Proof.
  intros HK. replace K with (30 + (K - 30))%nat by lia.
  destruct (entropy_full_sound _ _ _ _ _ cert_half) as [_ H1]. destruct (entropy_full_sound _ _ _ _ _ cert_one) as [_ H2].
  split; [apply (H1 (K - 30)%nat)|apply (H2 (K - 30)%nat)].
Qed.
Lemma series_near_certified K : (30 <= K)%nat -> near_certified (fun lam => partial_entropy lam K).
Proof.
  intros HK. destruct (entropy_enclosures K HK) as [A B]. split; [refine (Rle_trans _ _ _ (Req_le _ _ _) A)|refine (Rle_trans _ _ _ (Req_le _ _ _) B)];
  f_equal; unfold Q2R, h_half, h_one; cbn [Qnum Qden]; lra.
Qed.
(* composed (listed in Properties/C10.v): with the Poisson entropy series itself, every truncation from 30 terms on *)
Theorem swap_values_differ_for_the_poisson_entropy_series K : (30 <= K)%nat ->
  pcmi_valueR (fun lam => partial_entropy lam K) t_orig + 3 / 4 < pcmi_valueR (fun lam => partial_entropy lam K) t_swap.
Proof. intros HK. apply swap_values_gen, series_near_certified, HK. Qed.
Theorem zorder_values_differ_for_the_poisson_entropy_series K : (30 <= K)%nat ->
  pcmi_valueR (fun lam => partial_entropy lam K) t_zrev + 1 / 10 < pcmi_valueR (fun lam => partial_entropy lam K) t_orig.
Proof. intros HK. apply zorder_values_gen, series_near_certified, HK. Qed.
