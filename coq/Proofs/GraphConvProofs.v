From Coq Require Import List Arith ZArith QArith Bool Lia Permutation.
From CE Require Import Model.GraphConv.
Import ListNotations.
Local Open Scope nat_scope.

(* ---------- direction table: what one cell contributes ------------------------------------------ *)
Theorem direction_table t bin level i j l :
  let e := get t (i, j, l) in
  let sg := sig_of bin level (e_p e) in
  emit t bin level (i, j, l) =
    match e_mark e with
    | Fwd  => [mk_edge i j l e Directed sg]                                   (* '-->' at [i,j,tau] : i -> j *)
    | Bwd  => if mark_eqb (e_mark (get t (j, i, l))) Fwd then []               (* mirror of a '-->' : same link *)
              else [mk_edge j i l e Directed sg]                               (* '<--' at [i,j,tau] : j -> i *)
    | OO   => if Nat.ltb i j then [mk_edge i j l e Undirected sg; mk_edge j i l e Undirected sg] else []
    | XX   => if Nat.ltb i j then [mk_edge i j l e Conflicting sg; mk_edge j i l e Conflicting sg] else []
    | Poss => [mk_edge i j l e PossibleDirected sg]
    | Empty | Unknown => []
    end.
Proof. cbn zeta. unfold emit. destruct (e_mark (get t (i, j, l))); reflexivity. Qed.

(* every emitted edge carries the lag, value and p-value of the cell it comes from, and
   significant = (p < level) exactly when binarize is requested *)
Theorem numbers_carried t bin level c e :
  In e (emit t bin level c) ->
  let '(i, j, l) := c in
  g_lag e = l /\ g_val e = e_val (get t c) /\ g_p e = e_p (get t c) /\
  g_sig e = (if bin then Some (negb (Qle_bool level (e_p (get t c)))) else None).
Proof.
  destruct c as [[i j] l]. unfold emit.
  destruct (e_mark (get t (i, j, l))); cbn [In]; try tauto.
  - intros [<-|[]]; repeat split.
  - destruct (mark_eqb _ Fwd); cbn [In]; [tauto|]. intros [<-|[]]; repeat split.
  - destruct (Nat.ltb i j); cbn [In]; [|tauto]. intros [<-|[<-|[]]]; repeat split.
  - destruct (Nat.ltb i j); cbn [In]; [|tauto]. intros [<-|[<-|[]]]; repeat split.
  - intros [<-|[]]; repeat split.
Qed.

(* ---------- each link is represented once -------------------------------------------------------- *)
Lemma mark_eqb_eq a b : mark_eqb a b = true <-> a = b.
Proof. destruct a, b; cbn; split; intros H; try reflexivity; try discriminate. Qed.

Lemma kind_eqb_eq a b : kind_eqb a b = true <-> a = b.
Proof. destruct a, b; cbn; split; intros H; try reflexivity; try discriminate. Qed.

(* the key of an emitted edge determines the cell it came from, so two different cells never
   produce the same (source, target, lag, link type) *)
Lemma key_origin t bin level c1 c2 e1 e2 :
  In e1 (emit t bin level c1) -> In e2 (emit t bin level c2) -> gkey e1 = gkey e2 -> c1 = c2.
Proof.
  destruct c1 as [[i1 j1] l1], c2 as [[i2 j2] l2]. unfold emit, gkey.
  destruct (e_mark (get t (i1, j1, l1))) eqn:M1; cbn [In]; try tauto;
  destruct (e_mark (get t (i2, j2, l2))) eqn:M2; cbn [In]; try tauto;
  repeat match goal with
  | |- context [mark_eqb ?a Fwd] => let E := fresh "E" in destruct (mark_eqb a Fwd) eqn:E; cbn [In]; try tauto
  | |- context [Nat.ltb ?a ?b] => let E := fresh "L" in destruct (Nat.ltb_spec a b) as [E|E]; cbn [In]; try tauto
  end;
  intros H1 H2 K;
  repeat match goal with H : _ \/ _ |- _ => destruct H as [H|H] | H : False |- _ => destruct H end;
  subst; cbn in K; injection K as ? ? ?; subst; try discriminate; try reflexivity; try lia;
  (* the remaining cases: '<--' at [i,j] against '-->' at [j,i] -- excluded by the mirror test *)
  try (apply mark_eqb_eq in M1; congruence); try (apply mark_eqb_eq in M2; congruence);
  try (match goal with E : mark_eqb ?x Fwd = false |- _ => rewrite ?M1, ?M2 in E; discriminate end).
Qed.

Lemma emit_nodup t bin level c : NoDup (map gkey (emit t bin level c)).
Proof.
  destruct c as [[i j] l]. unfold emit.
  destruct (e_mark (get t (i, j, l))); cbn [map]; try constructor; try (intros []); try constructor.
  - destruct (mark_eqb _ Fwd); cbn [map]; repeat constructor. intros [].
  - destruct (Nat.ltb_spec i j) as [L|L]; cbn [map]; [|constructor].
    constructor; [|repeat constructor; intros []]. intros [H|[]]. unfold gkey in H; cbn in H. injection H as ? ?. lia.
  - destruct (Nat.ltb_spec i j) as [L|L]; cbn [map]; [|constructor].
    constructor; [|repeat constructor; intros []]. intros [H|[]]. unfold gkey in H; cbn in H. injection H as ? ?. lia.
Qed.

Lemma nodup_app {A} (l1 l2 : list A) : NoDup l1 -> NoDup l2 -> (forall x, In x l1 -> ~ In x l2) -> NoDup (l1 ++ l2).
Proof.
  induction l1 as [|a l1 IH]; intros H1 H2 Hd; [exact H2|]. inversion H1; subst. cbn. constructor.
  - intros Hin. apply in_app_or in Hin. destruct Hin as [Hin|Hin]; [contradiction|]. exact (Hd a (or_introl eq_refl) Hin).
  - apply IH; [assumption|assumption|]. intros x Hx. apply Hd. right. exact Hx.
Qed.

Lemma flat_map_keys_nodup t bin level cs : NoDup cs -> NoDup (map gkey (flat_map (emit t bin level) cs)).
Proof.
  induction cs as [|c cs IH]; intros Hnd; [constructor|]. inversion Hnd as [|? ? Hc Hcs]; subst.
  cbn [flat_map]. rewrite map_app. apply nodup_app; [apply emit_nodup|apply IH; exact Hcs|].
  intros k Hk Hk'. apply in_map_iff in Hk. destruct Hk as (e1 & <- & H1).
  apply in_map_iff in Hk'. destruct Hk' as (e2 & K & H2). apply in_flat_map in H2. destruct H2 as (c2 & Hc2 & H2).
  assert (c = c2) by (eapply key_origin; [exact H1|exact H2|symmetry; exact K]). subst. contradiction.
Qed.

Lemma cells_nodup n lags : NoDup (cells n lags).
Proof.
  unfold cells.
  assert (G : forall {A B} (f : A -> list B) l, NoDup l -> (forall a, In a l -> NoDup (f a)) ->
              (forall a b x, In a l -> In b l -> In x (f a) -> In x (f b) -> a = b) -> NoDup (flat_map f l)).
  { intros A B f l. induction l as [|a l IH]; intros Hl Hf Hd; [constructor|]. inversion Hl; subst. cbn [flat_map].
    apply nodup_app; [apply Hf; left; reflexivity|apply IH; auto|].
    - intros a0 Ha0. apply Hf. right; exact Ha0.
    - intros a0 b x Ha0 Hb. apply Hd; right; assumption.
    - intros x Hx Hx'. apply in_flat_map in Hx'. destruct Hx' as (b & Hb & Hxb).
      assert (a = b) by (apply (Hd a b x); [left; reflexivity|right; exact Hb|exact Hx|exact Hxb]). subst. contradiction. }
  apply G; [apply seq_NoDup| |].
  - intros i _. apply G; [apply seq_NoDup| |].
    + intros j _. apply FinFun.Injective_map_NoDup; [|apply seq_NoDup]. intros a b H. congruence.
    + intros j j' x _ _ Hx Hx'. apply in_map_iff in Hx, Hx'. destruct Hx as (? & <- & _), Hx' as (? & E & _). congruence.
  - intros i i' x _ _ Hx Hx'. apply in_flat_map in Hx, Hx'. destruct Hx as (? & _ & Hx), Hx' as (? & _ & Hx').
    apply in_map_iff in Hx, Hx'. destruct Hx as (? & <- & _), Hx' as (? & E & _). congruence.
Qed.

(* FOR EVERY pattern (consistent or not): no (source, target, lag, link type) is emitted twice *)
Theorem each_link_once r bin level es :
  to_graph_emitted r bin level = Some es -> NoDup (map gkey es).
Proof.
  unfold to_graph_emitted. destruct (has_unknown r); [discriminate|]. intros H. injection H as <-.
  apply flat_map_keys_nodup, cells_nodup.
Qed.

(* ---------- networkx iteration order is a re-ordering of the emitted edges ------------------------- *)
Lemma flat_map_ext_in' {A B} (f g : A -> list B) l : (forall a, In a l -> f a = g a) -> flat_map f l = flat_map g l.
Proof.
  induction l as [|a l IH]; intros H; [reflexivity|]. cbn [flat_map].
  rewrite (H a (or_introl eq_refl)), IH; [reflexivity|]. intros b Hb. apply H. right; exact Hb.
Qed.

Lemma flat_map_cons_in {A} (g : nat -> list A) (x : A) k vs : NoDup vs -> In k vs ->
  Permutation (flat_map (fun v => if Nat.eqb k v then x :: g v else g v) vs) (x :: flat_map g vs).
Proof.
  induction vs as [|v vs IH]; intros Hnd Hin; [destruct Hin|]. inversion Hnd as [|? ? Hv Hvs]; subst. cbn [flat_map].
  destruct (Nat.eqb_spec k v) as [E|E].
  - subst. cbn. constructor. apply Permutation_app_head.
    assert (G : flat_map (fun v0 => if Nat.eqb v v0 then x :: g v0 else g v0) vs = flat_map g vs).
    { apply flat_map_ext_in'. intros a Ha. destruct (Nat.eqb_spec v a); [subst; contradiction|reflexivity]. }
    rewrite G. apply Permutation_refl.
  - destruct Hin as [->|Hin]; [congruence|].
    eapply Permutation_trans; [apply Permutation_app_head; apply IH; assumption|]. apply Permutation_sym, Permutation_middle.
Qed.

Lemma partition_by_key {A} (key : A -> nat) (l : list A) vs : NoDup vs -> (forall x, In x l -> In (key x) vs) ->
  Permutation (flat_map (fun v => filter (fun x => Nat.eqb (key x) v) l) vs) l.
Proof.
  induction l as [|a l IH]; intros Hnd Hcov.
  - clear. induction vs as [|v vs IHv]; [constructor|exact IHv].
  - assert (E : flat_map (fun v => filter (fun x => Nat.eqb (key x) v) (a :: l)) vs =
                flat_map (fun v => if Nat.eqb (key a) v then a :: filter (fun x => Nat.eqb (key x) v) l
                                   else filter (fun x => Nat.eqb (key x) v) l) vs) by (apply flat_map_ext; intros v; reflexivity).
    rewrite E. eapply Permutation_trans; [apply flat_map_cons_in; [exact Hnd|apply Hcov; left; reflexivity]|].
    constructor. apply IH; [exact Hnd|]. intros x Hx. apply Hcov. right; exact Hx.
Qed.

Lemma dsts_in_order_spec es : forall seen,
  NoDup (dsts_in_order es seen) /\ (forall v, In v (dsts_in_order es seen) -> ~ In v seen) /\
  (forall e, In e es -> In (g_dst e) seen \/ In (g_dst e) (dsts_in_order es seen)).
Proof.
  induction es as [|e es IH]; intros seen; cbn [dsts_in_order]; [repeat split; [constructor|intros v []|intros e []]|].
  destruct (existsb (Nat.eqb (g_dst e)) seen) eqn:Ex.
  - destruct (IH seen) as (N & D & C). repeat split; [exact N|exact D|].
    intros e' [<-|He']; [|apply C; exact He']. left. apply existsb_exists in Ex. destruct Ex as (x & Hx & E).
    apply Nat.eqb_eq in E. subst. exact Hx.
  - destruct (IH (g_dst e :: seen)) as (N & D & C). repeat split.
    + constructor; [|exact N]. intros Hin. apply (D _ Hin). left; reflexivity.
    + intros v [<-|Hv].
      * intros Hs. assert (existsb (Nat.eqb (g_dst e)) seen = true); [|congruence].
        apply existsb_exists. exists (g_dst e). split; [exact Hs|apply Nat.eqb_refl].
      * intros Hs. apply (D _ Hv). right; exact Hs.
    + intros e' [<-|He']; [right; left; reflexivity|].
      destruct (C e' He') as [[E|H]|H]; [right; left; exact E|left; exact H|right; right; exact H].
Qed.

Theorem nx_order_permutation n es : (forall e, In e es -> g_src e < n) -> Permutation (nx_order n es) es.
Proof.
  intros Hsrc. unfold nx_order.
  eapply Permutation_trans; [|apply (partition_by_key g_src es (seq 0 n) (seq_NoDup n 0))].
  - (* per source node: grouping by destination is a permutation of the edges from that node *)
    induction (seq 0 n) as [|u us IH]; [constructor|]. cbn [flat_map]. apply Permutation_app; [|exact IH].
    set (from_u := filter (fun e => Nat.eqb (g_src e) u) es).
    destruct (dsts_in_order_spec from_u []) as (N & _ & C).
    apply (partition_by_key g_dst from_u _ N). intros x Hx. destruct (C x Hx) as [[]|H]. exact H.
  - intros x Hx. apply in_seq. specialize (Hsrc x Hx). lia.
Qed.

Lemma emitted_src_lt r bin level es e : to_graph_emitted r bin level = Some es -> In e es -> g_src e < p_n r.
Proof.
  unfold to_graph_emitted. destruct (has_unknown r); [discriminate|]. intros H He. injection H as <-.
  apply in_flat_map in He. destruct He as (c & Hc & He). unfold cells in Hc.
  apply in_flat_map in Hc. destruct Hc as (i & Hi & Hc). apply in_flat_map in Hc. destruct Hc as (j & Hj & Hc).
  apply in_map_iff in Hc. destruct Hc as (l & <- & Hl). apply in_seq in Hi, Hj.
  unfold emit in He. destruct (e_mark (get (p_tab r) (i, j, l))); cbn [In] in He; try tauto.
  - destruct He as [<-|[]]; cbn; lia.
  - destruct (mark_eqb _ Fwd); cbn [In] in He; [tauto|]. destruct He as [<-|[]]; cbn; lia.
  - destruct (Nat.ltb i j); cbn [In] in He; [|tauto]. destruct He as [<-|[<-|[]]]; cbn; lia.
  - destruct (Nat.ltb i j); cbn [In] in He; [|tauto]. destruct He as [<-|[<-|[]]]; cbn; lia.
  - destruct He as [<-|[]]; cbn; lia.
Qed.

(* the graph handed back (in networkx order): every link once *)
Theorem to_graph_each_link_once r bin level es : to_graph r bin level = Some es -> NoDup (map gkey es).
Proof.
  unfold to_graph. destruct (to_graph_emitted r bin level) as [em|] eqn:E; [|discriminate]. intros H. injection H as <-.
  eapply Permutation_NoDup; [apply Permutation_map, Permutation_sym, nx_order_permutation|eapply each_link_once; exact E].
  intros e He. eapply emitted_src_lt; eassumption.
Qed.

(* unknown marks raise *)
Theorem unknown_mark_raises r bin level : has_unknown r = true -> to_graph r bin level = None.
Proof. intros H. unfold to_graph, to_graph_emitted. rewrite H. reflexivity. Qed.

(* ---------- exhaustive: 2 nodes x lags {0,1} ------------------------------------------------------ *)
(* values are tags of the unordered node pair and lag, so that the two cells of one symmetric or mirrored
   link carry equal numbers and different links carry different numbers *)
Definition tag (i j l : nat) : Q := inject_Z (Z.of_nat (1 + Nat.min i j + 2 * Nat.max i j + 4 * l)) / 16.
Definition all_marks : list mark := [Empty; Fwd; Bwd; OO; XX; Poss].
Definition free_cells : list cellid := [(0,0,1); (0,1,0); (0,1,1); (1,0,0); (1,0,1); (1,1,1)].
Fixpoint assignments (cs : list cellid) : list table :=
  match cs with
  | [] => [[]]
  | (i, j, l) :: r =>
      flat_map (fun m => map (fun t => ((i, j, l), {| e_mark := m; e_val := tag i j l; e_p := tag j i l / 2 |}) :: t) (assignments r)) all_marks
  end.
Definition all_patterns_2x2x2 : list pcmci := map (fun t => {| p_n := 2; p_lags := 2; p_tab := t |}) (assignments free_cells).

Definition pattern_ok (r : pcmci) : bool :=
  if consistent r then
    pcmci_roundtrip_ok r &&
    match to_graph r false 0 with Some es => graph_roundtrip_ok 2 es | None => false end
  else true.

(* all 6^6 = 46656 mark patterns over the six free cells (the lag-0 diagonal is empty): every consistent
   one survives PCMCI -> graph -> PCMCI at every entry that carries a link, and the graph it produces
   survives graph -> PCMCI -> graph as a set of (source, target, lag, link type, value, p) *)
Theorem roundtrips_2x2x2 : forallb pattern_ok all_patterns_2x2x2 = true.
Proof. vm_compute. reflexivity. Qed.

Theorem consistent_patterns_2x2x2_exist :
  N.of_nat (length (filter consistent all_patterns_2x2x2)) = 1485%N /\ N.of_nat (length all_patterns_2x2x2) = 46656%N.
Proof. split; vm_compute; reflexivity. Qed.

(* the pre-fix converter (no mirror test) duplicated a mirrored contemporaneous link: finding F4 *)
Definition emit_pinned (t : table) (c : cellid) : list gedge :=
  let '(i, j, l) := c in let e := get t c in
  match e_mark e with
  | Fwd => [mk_edge i j l e Directed None] | Bwd => [mk_edge j i l e Directed None] | _ => []
  end.
Theorem mirror_duplicates_refuted : exists t,
  ~ NoDup (map gkey (flat_map (emit_pinned t) (cells 2 1))).
Proof.
  exists [((0,1,0), {| e_mark := Fwd; e_val := 1; e_p := 0 |}); ((1,0,0), {| e_mark := Bwd; e_val := 1; e_p := 0 |})].
  vm_compute. intros H. inversion H as [|? ? Hn _]; subst. apply Hn. left. reflexivity.
Qed.
