(* C13: what the truncated-entropy expression means, and the complete accuracy statement
   (verified enclosure of the first K+1 terms + proved bound on every finite piece of the tail). *)
From Coq Require Import Reals Lra Lia Arith List ZArith.
From CE Require Import Model.Itv Model.Poisson Proofs.ItvProofs Proofs.PoissonTail.
Import ListNotations.
Open Scope R_scope.

Definition Rsum (l : list R) : R := fold_right Rplus 0 l.
Definition lnfact (k : nat) : R := ln (INR (fact k)).
Definition qk (lam : R) (k : nat) : R := - lam + INR k * ln lam - lnfact k.
(* S_K = sum_{k=0..K} h(p_k) *)
Definition partial_entropy (lam : R) (K : nat) : R := Rsum (map (fun k => hx (pk lam k)) (seq 0 (S K))).

Lemma pk_exp lam k : 0 < lam -> pk lam k = exp (qk lam k).
Proof.
  intros H. unfold pk, qk, lnfact. unfold Rminus. rewrite !exp_plus, exp_Ropp.
  rewrite (exp_Ropp (ln (INR (fact k)))), exp_ln by apply INR_fact_lt_0.
  replace (exp (INR k * ln lam)) with (lam ^ k) by (rewrite <- ln_pow by exact H; rewrite exp_ln; [reflexivity|apply pow_lt; exact H]).
  rewrite exp_Ropp. unfold Rdiv. ring.
Qed.

Lemma hx_pk lam k : 0 < lam -> hx (pk lam k) = - (exp (qk lam k) * qk lam k).
Proof. intros H. unfold hx. rewrite (pk_exp lam k H), ln_exp. ring. Qed.

(* sequential let-bindings *)
Fixpoint bind_vals (env : list R) (bs : list expr) : list R :=
  match bs with [] => [] | b :: r => let v := evalR env b in v :: bind_vals (env ++ [v]) r end.
Lemma bind_all_eval bs : forall env body, evalR env (bind_all bs body) = evalR (env ++ bind_vals env bs) body.
Proof.
  induction bs as [|b r IH]; intros env body; cbn [bind_all bind_vals]; [rewrite app_nil_r; reflexivity|].
  cbn [evalR]. rewrite IH, <- app_assoc. reflexivity.
Qed.

Lemma lnfact_S k : lnfact (S k) = lnfact k + ln (INR (S k)).
Proof.
  unfold lnfact. rewrite fact_simpl, mult_INR, ln_mult; [lra|apply lt_0_INR; lia|apply INR_fact_lt_0].
Qed.

Lemma lnfact_tail lam : forall m k, (1 <= k)%nat ->
  bind_vals ([lam; ln lam] ++ map lnfact (seq 0 k)) (map (fun k => EAdd (EVar (2 + k - 1)) (ELn (EZ (Z.of_nat k)))) (seq k m))
  = map lnfact (seq k m).
Proof.
  induction m as [|m IH]; intros k Hk; [reflexivity|]. cbn [seq map bind_vals]. cbv zeta.
  assert (E : evalR ([lam; ln lam] ++ map lnfact (seq 0 k)) (EAdd (EVar (2 + k - 1)) (ELn (EZ (Z.of_nat k)))) = lnfact k).
  { cbn [evalR]. replace (2 + k - 1)%nat with (2 + (k - 1))%nat by lia.
    rewrite app_nth2 by (cbn; lia). cbn [length]. replace (2 + (k - 1) - 2)%nat with (k - 1)%nat by lia.
    rewrite (nth_indep _ 0 (lnfact 0)) by (rewrite map_length, seq_length; lia).
    rewrite map_nth, seq_nth by lia. cbn [plus]. destruct k as [|k]; [lia|]. replace (S k - 1)%nat with k by lia.
    rewrite lnfact_S, <- INR_IZR_INZ. reflexivity. }
  rewrite E. f_equal.
  replace (([lam; ln lam] ++ map lnfact (seq 0 k)) ++ [lnfact k]) with ([lam; ln lam] ++ map lnfact (seq 0 (S k))).
  - apply IH. lia.
  - rewrite seq_S, map_app, <- app_assoc. reflexivity.
Qed.

Lemma lnfact_vals lam K : bind_vals [lam; ln lam] (lnfact_bindings K) = map lnfact (seq 0 (S K)).
Proof.
  unfold lnfact_bindings. cbn [bind_vals]. cbv zeta. cbn [evalR seq map].
  assert (L0 : lnfact 0 = 0) by (unfold lnfact; cbn; apply ln_1).
  rewrite L0. f_equal. pose proof (lnfact_tail lam K 1 (le_n 1)) as H. cbn [seq map app] in H. rewrite L0 in H. exact H.
Qed.

Lemma fold_Rsum env l : fold_right (fun x acc => evalR env x + acc) 0 l = Rsum (map (evalR env) l).
Proof. induction l as [|a l IH]; cbn; [reflexivity|rewrite <- IH; reflexivity]. Qed.

(* the expression the interval layer evaluates IS the partial sum of -p_k ln p_k *)
Theorem entropy_trunc_meaning K lamE lam : evalR [] lamE = lam -> 0 < lam ->
  evalR [] (entropy_trunc_expr K lamE) = partial_entropy lam K.
Proof.
  intros El Hl. unfold entropy_trunc_expr. cbn [evalR app nth]. rewrite El.
  rewrite bind_all_eval, lnfact_vals. cbn [evalR]. rewrite fold_Rsum, map_map.
  unfold partial_entropy.
  set (env := [lam; ln lam] ++ map lnfact (seq 0 (S K))).
  assert (Hlen : length env = (K + 3)%nat) by (unfold env; cbn [length app]; rewrite map_length, seq_length; lia).
  assert (T : forall k, (k <= K)%nat -> evalR env (term_expr K k) = exp (qk lam k) * qk lam k).
  { intros k Hk. unfold term_expr. cbn [evalR].
    assert (Q : - nth 0 env 0 + IZR (Z.of_nat k) * nth 1 env 0 - nth (2 + k) env 0 = qk lam k).
    { unfold env. cbn [app nth]. rewrite (nth_indep _ 0 (lnfact 0)) by (rewrite map_length, seq_length; lia).
      rewrite map_nth, seq_nth by lia. cbn [plus]. rewrite <- INR_IZR_INZ. reflexivity. }
    rewrite Q. rewrite app_nth2 by lia. rewrite Hlen, Nat.sub_diag. reflexivity. }
  assert (G : forall l, (forall k, In k l -> (k <= K)%nat) ->
              - Rsum (map (fun x => evalR env (term_expr K x)) l) = Rsum (map (fun k => hx (pk lam k)) l)).
  { induction l as [|a l IH]; intros Hin; [cbn; lra|]. cbn [map Rsum fold_right].
    fold (Rsum (map (fun x => evalR env (term_expr K x)) l)). fold (Rsum (map (fun k => hx (pk lam k)) l)).
    rewrite <- IH by (intros k Hk; apply Hin; right; exact Hk). rewrite T by (apply Hin; left; reflexivity).
    rewrite hx_pk by exact Hl. lra. }
  apply G. intros k Hk. apply in_seq in Hk. lia.
Qed.

Lemma partial_entropy_split lam K M : partial_entropy lam (K + M) = partial_entropy lam K + sumR (fun j => hx (pk lam (K + j))) M.
Proof.
  induction M as [|M IH]; [rewrite Nat.add_0_r; cbn [sumR]; lra|].
  rewrite Nat.add_succ_r. unfold partial_entropy in *. rewrite seq_S, map_app.
  assert (A : forall l1 l2, Rsum (l1 ++ l2) = Rsum l1 + Rsum l2) by (induction l1; intros; cbn in *; [lra|rewrite IHl1; lra]).
  rewrite A, IH. cbn [sumR map Rsum fold_right plus]. rewrite Nat.add_succ_r. lra.
Qed.

(* ---- the complete check: enclosure of S_K, p_K <= delta, 2 lam <= K+1 ---- *)
Definition delta18 : expr := EQ 1 (10 ^ 18).
Definition tail_margin : expr := EQ 1 (10 ^ 16).
Definition pK_expr (K : nat) (lamE : expr) : expr :=   (* exp(q_K) - delta, with ln K! as a sum of logarithms *)
  ELet lamE (ESub (EExp (ESub (EAdd (ENeg (EVar 0)) (EMul (EZ (Z.of_nat K)) (ELn (EVar 0))))
                              (ESum (map (fun j => ELn (EZ (Z.of_nat j))) (seq 1 K))))) delta18).

Lemma lnfact_sum K : Rsum (map (fun j => ln (INR j)) (seq 1 K)) = lnfact K.
Proof.
  induction K as [|K IH]; [unfold lnfact; cbn; symmetry; apply ln_1|].
  rewrite seq_S, map_app, lnfact_S.
  assert (A : forall l1 l2, Rsum (l1 ++ l2) = Rsum l1 + Rsum l2) by (induction l1; intros; cbn in *; [lra|rewrite IHl1; lra]).
  rewrite A, IH. cbn [map Rsum fold_right plus]. lra.
Qed.

Lemma pK_meaning K lamE lam : evalR [] lamE = lam -> 0 < lam -> evalR [] (pK_expr K lamE) = pk lam K - / 10 ^ 18.
Proof.
  intros El Hl. unfold pK_expr. cbn [evalR app nth]. rewrite El, fold_Rsum, map_map.
  rewrite (map_ext (fun x => evalR [lam] (ELn (EZ (Z.of_nat x)))) (fun j => ln (INR j))) by (intros j; cbn [evalR]; rewrite <- INR_IZR_INZ; reflexivity).
  rewrite lnfact_sum, (pk_exp lam K Hl). unfold qk. rewrite <- INR_IZR_INZ. unfold delta18, EQ. cbn [evalR].
  f_equal. unfold Rdiv. rewrite Rmult_1_l. f_equal. rewrite Zpower_nat_Z || idtac. rewrite <- (pow_IZR 10 18). reflexivity.
Qed.
