(* C13: what the truncated-entropy expression means, and the complete accuracy statement
   (verified enclosure of the first K+1 terms + proved bound on every finite piece of the tail). *)
From Coq Require Import Reals Lra Lia Arith List ZArith.
From CE Require Import Model.Itv Model.Poisson Proofs.ItvProofs Proofs.PoissonTail.
Import ListNotations.
Open Scope R_scope.

Definition Rsum (l : list R) : R := fold_right Rplus 0 l.
Definition lnfact (k : nat) : R := ln (INR (fact k)).
Definition qk (lam : R) (k : nat) : R := - lam + INR k * ln lam - lnfact k.
(* S_K = sum_{k=0..K} h(p_k) *)
Definition partial_entropy (lam : R) (K : nat) : R := Rsum (map (fun k => hx (pk lam k)) (seq 0 (S K))).

Lemma pk_exp lam k : 0 < lam -> pk lam k = exp (qk lam k).
Proof.
  intros H. unfold pk, qk, lnfact.
  replace (- lam + INR k * ln lam - ln (INR (fact k))) with (- lam + (INR k * ln lam + - ln (INR (fact k)))) by ring.
  rewrite !exp_plus, (exp_Ropp (ln (INR (fact k)))), exp_ln by apply INR_fact_lt_0.
  replace (exp (INR k * ln lam)) with (lam ^ k) by (rewrite <- ln_pow by exact H; rewrite exp_ln; [reflexivity|apply pow_lt; exact H]).
  unfold Rdiv. ring.
Qed.

Lemma hx_pk lam k : 0 < lam -> hx (pk lam k) = - (exp (qk lam k) * qk lam k).
Proof. intros H. unfold hx. rewrite (pk_exp lam k H), ln_exp. ring. Qed.

(* sequential let-bindings *)
Fixpoint bind_vals (env : list R) (bs : list expr) : list R :=
  match bs with [] => [] | b :: r => let v := evalR env b in v :: bind_vals (env ++ [v]) r end.
Lemma bind_all_eval bs : forall env body, evalR env (bind_all bs body) = evalR (env ++ bind_vals env bs) body.
Proof.
  induction bs as [|b r IH]; intros env body; cbn [bind_all bind_vals]; [rewrite app_nil_r; reflexivity|].
  cbn [evalR]. rewrite IH, <- app_assoc. reflexivity.
Qed.

Lemma lnfact_S k : lnfact (S k) = lnfact k + ln (INR (S k)).
Proof.
  unfold lnfact. rewrite fact_simpl, mult_INR, ln_mult; [lra|apply lt_0_INR; lia|apply INR_fact_lt_0].
Qed.

Lemma lnfact_tail lam : forall m k, (1 <= k)%nat ->
  bind_vals ([lam; ln lam] ++ map lnfact (seq 0 k)) (map (fun k => EAdd (EVar (2 + k - 1)) (ELn (EZ (Z.of_nat k)))) (seq k m))
  = map lnfact (seq k m).
Proof.
  induction m as [|m IH]; intros k Hk; [reflexivity|]. cbn [seq map bind_vals]. cbv zeta.
  assert (E : evalR ([lam; ln lam] ++ map lnfact (seq 0 k)) (EAdd (EVar (2 + k - 1)) (ELn (EZ (Z.of_nat k)))) = lnfact k).
  { cbn [evalR]. replace (2 + k - 1)%nat with (2 + (k - 1))%nat by lia.
    rewrite app_nth2 by (cbn; lia). cbn [length]. replace (2 + (k - 1) - 2)%nat with (k - 1)%nat by lia.
    rewrite (nth_indep _ 0 (lnfact 0)) by (rewrite map_length, seq_length; lia).
    rewrite map_nth, seq_nth by lia. cbn [plus]. destruct k as [|k]; [lia|]. replace (S k - 1)%nat with k by lia.
    rewrite lnfact_S, <- INR_IZR_INZ. reflexivity. }
  rewrite E. f_equal.
  replace (([lam; ln lam] ++ map lnfact (seq 0 k)) ++ [lnfact k]) with ([lam; ln lam] ++ map lnfact (seq 0 (S k))).
  - apply IH. lia.
  - rewrite seq_S, map_app, <- app_assoc. reflexivity.
Qed.

Lemma lnfact_vals lam K : bind_vals [lam; ln lam] (lnfact_bindings K) = map lnfact (seq 0 (S K)).
Proof.
  unfold lnfact_bindings. cbn [bind_vals]. cbv zeta. cbn [evalR seq map].
  assert (L0 : lnfact 0 = 0) by (unfold lnfact; cbn; apply ln_1).
  rewrite L0. f_equal. pose proof (lnfact_tail lam K 1 (le_n 1)) as H. cbn [seq map app] in H. rewrite L0 in H. exact H.
Qed.

Lemma fold_Rsum env l : fold_right (fun x acc => evalR env x + acc) 0 l = Rsum (map (evalR env) l).
Proof. induction l as [|a l IH]; cbn [fold_right map Rsum]; [reflexivity|]. unfold Rsum in IH. rewrite IH. reflexivity. Qed.

(* the expression the interval layer evaluates IS the partial sum of -p_k ln p_k *)
Theorem entropy_trunc_meaning K lamE lam : evalR [] lamE = lam -> 0 < lam ->
  evalR [] (entropy_trunc_expr K lamE) = partial_entropy lam K.
Proof.
  intros El Hl. unfold entropy_trunc_expr. cbn [evalR app nth]. rewrite El.
  rewrite bind_all_eval, lnfact_vals. cbn [evalR]. rewrite fold_Rsum, map_map.
  unfold partial_entropy.
  set (env := [lam; ln lam] ++ map lnfact (seq 0 (S K))).
  assert (Hlen : length env = (K + 3)%nat) by (unfold env; cbn [length app]; rewrite map_length, seq_length; lia).
  assert (T : forall k, (k <= K)%nat -> evalR env (term_expr K k) = exp (qk lam k) * qk lam k).
  { intros k Hk. unfold term_expr. cbn [evalR].
    assert (Q : - nth 0 env 0 + IZR (Z.of_nat k) * nth 1 env 0 - nth (2 + k) env 0 = qk lam k).
    { unfold env. change (2 + k)%nat with (S (S k)). cbn [app nth].
      rewrite (nth_indep _ 0 (lnfact 0)) by (rewrite map_length, seq_length; lia).
      rewrite map_nth, seq_nth by lia. cbn [plus]. rewrite <- INR_IZR_INZ. reflexivity. }
    rewrite Q. rewrite app_nth2 by lia. rewrite Hlen, Nat.sub_diag. reflexivity. }
  assert (G : forall l, (forall k, In k l -> (k <= K)%nat) ->
              - Rsum (map (fun x => evalR env (term_expr K x)) l) = Rsum (map (fun k => hx (pk lam k)) l)).
  { induction l as [|a l IH]; intros Hin; [cbn; lra|]. cbn [map Rsum fold_right].
    fold (Rsum (map (fun x => evalR env (term_expr K x)) l)). fold (Rsum (map (fun k => hx (pk lam k)) l)).
    rewrite <- IH by (intros k Hk; apply Hin; right; exact Hk). rewrite T by (apply Hin; left; reflexivity).
    rewrite hx_pk by exact Hl. lra. }
  apply G. intros k Hk. apply in_seq in Hk. lia.
Qed.

Lemma Rsum_app l1 l2 : Rsum (l1 ++ l2) = Rsum l1 + Rsum l2.
Proof. unfold Rsum. induction l1 as [|a l1 IH]; cbn [app fold_right]; [lra|]. rewrite IH. lra. Qed.

Lemma partial_entropy_split lam K M : partial_entropy lam (K + M) = partial_entropy lam K + sumR (fun j => hx (pk lam (K + j))) M.
Proof.
  induction M as [|M IH]; [rewrite Nat.add_0_r; cbn [sumR]; lra|].
  rewrite Nat.add_succ_r. unfold partial_entropy in *. rewrite seq_S, map_app.
  rewrite Rsum_app, IH. cbn [sumR map Rsum fold_right plus]. rewrite Nat.add_succ_r. lra.
Qed.

(* ---- the complete check: enclosure of S_K, p_K <= delta, 2 lam <= K+1 (Model/Poisson.v check_entropy_full_case) ---- *)
Lemma lnfact_sum K : Rsum (map (fun j => ln (INR j)) (seq 1 K)) = lnfact K.
Proof.
  induction K as [|K IH]; [unfold lnfact; cbn; symmetry; apply ln_1|].
  rewrite seq_S, map_app, lnfact_S.
  rewrite Rsum_app, IH. cbn [map Rsum fold_right plus]. lra.
Qed.

Lemma pK_meaning K lamE lam : evalR [] lamE = lam -> 0 < lam -> evalR [] (pK_expr K lamE) = pk lam K - / 10 ^ 18.
Proof.
  intros El Hl. unfold pK_expr. cbn [evalR app nth]. rewrite El, fold_Rsum, map_map.
  rewrite (map_ext (fun x => evalR [lam] (ELn (EZ (Z.of_nat x)))) (fun j => ln (INR j))) by (intros j; cbn [evalR]; rewrite <- INR_IZR_INZ; reflexivity).
  rewrite lnfact_sum, (pk_exp lam K Hl). unfold qk. rewrite <- INR_IZR_INZ. unfold delta18, EQ. cbn [evalR].
  f_equal. unfold Rdiv. rewrite Rmult_1_l. f_equal. change (10 ^ 18)%Z with (10 ^ Z.of_nat 18)%Z. rewrite <- pow_IZR. reflexivity.
Qed.

(* the two numeric constants, by hand (no numeric tactic: the independent checker re-checks these in seconds) *)
Lemma e_gt_2 : 2 < exp 1. Proof. pose proof (exp_ineq1 1 ltac:(lra)). lra. Qed.
Lemma ln10_le : ln 10 <= 7 / 2.
Proof.
  (* 10 = e^2 * (10 / e^2) with 10 / e^2 < 10 / 4, and ln x <= x - 1 *)
  assert (E2 : 4 < exp 2). { replace 2 with (1 + 1) by lra. rewrite exp_plus. pose proof e_gt_2. nra. }
  assert (P : 0 < exp 2) by apply exp_pos.
  replace 10 with (exp 2 * (10 / exp 2)) by (field; lra).
  rewrite ln_mult; [|assumption|apply Rdiv_lt_0_compat; lra]. rewrite ln_exp.
  pose proof (ln_le_minus_1 (10 / exp 2) ltac:(apply Rdiv_lt_0_compat; lra)) as L.
  assert (10 / exp 2 < 10 / 4). { unfold Rdiv. apply Rmult_lt_compat_l; [lra|]. apply Rinv_lt_contravar; lra. }
  lra.
Qed.
Lemma ln2_le : ln 2 <= 1. Proof. pose proof (ln_le_minus_1 2 ltac:(lra)). lra. Qed.
Lemma pow10_18_pos : 0 < 10 ^ 18. Proof. apply pow_lt; lra. Qed.
Lemma inv18_le_1 : / 10 ^ 18 <= 1.
Proof. rewrite <- Rinv_1. apply Rinv_le_contravar; [lra|]. apply pow_R1_Rle; lra. Qed.
Lemma delta_small : / 10 ^ 18 <= exp (-1).
Proof.
  replace (exp (-1)) with (exp (- (1))) by (f_equal; lra).
  rewrite exp_Ropp. apply Rinv_le_contravar; [apply exp_pos|].
  apply Rle_trans with 3; [apply exp_le_3|]. apply Rle_trans with (10 ^ 1); [lra|]. apply Rle_pow; [lra|lia].
Qed.
Lemma delta_tail : / 10 ^ 18 * (- ln (/ 10 ^ 18) + 2 * ln 2) <= / 10 ^ 16.
Proof.
  pose proof pow10_18_pos as P18.
  rewrite ln_Rinv by assumption. rewrite Ropp_involutive. rewrite ln_pow by lra.
  pose proof ln10_le. pose proof ln2_le.
  assert (B : INR 18 * ln 10 + 2 * ln 2 <= 100). { replace (INR 18) with 18 by (cbn; lra). lra. }
  replace (/ 10 ^ 16) with (/ 10 ^ 18 * 100).
  - apply Rmult_le_compat_l; [left; apply Rinv_0_lt_compat; assumption|exact B].
  - replace (10 ^ 18) with (10 ^ 16 * 100) by (cbn; lra). rewrite Rinv_mult. field; try (apply pow_nonzero; lra).
Qed.

Lemma hx_nonneg x : 0 < x -> x <= 1 -> 0 <= hx x.
Proof.
  intros H0 H1. unfold hx. assert (ln x <= 0).
  { destruct (Rle_lt_or_eq_dec _ _ H1) as [Hlt| ->]; [|rewrite ln_1; lra]. rewrite <- ln_1. apply Rlt_le, ln_increasing; assumption. }
  nra.
Qed.

Lemma sumR_nonneg f n : (forall j, 0 <= f j) -> 0 <= sumR f n.
Proof. intros H. induction n as [|n IH]; cbn [sumR]; [lra|]. specialize (H (S n)). lra. Qed.

Theorem entropy_full_sound ln_ ld K vn vd : check_entropy_full_case (ln_, ld, K, vn, vd) = true ->
  let lam := IZR ln_ / IZR ld in let v := IZR vn / IZR vd in
  0 < lam /\ forall M, Rabs (partial_entropy lam (K + M) - v) <= / 10 ^ 9.
Proof.
  unfold check_entropy_full_case. rewrite !Bool.andb_true_iff. intros [[[[[H1 H2] H3] H4] H5] H6]. cbv zeta.
  apply Z.ltb_lt in H1, H2, H3. apply Z.leb_le in H4.
  set (lam := IZR ln_ / IZR ld).
  assert (Hld : 0 < IZR ld) by (apply IZR_lt; exact H2).
  assert (Hl : 0 < lam) by (unfold lam; apply Rdiv_lt_0_compat; [apply IZR_lt; exact H1|exact Hld]).
  assert (El : evalR [] (EQ ln_ ld) = lam) by reflexivity.
  assert (HK : 2 * lam <= INR (S K)).
  { unfold lam. apply Rmult_le_reg_r with (IZR ld); [exact Hld|]. unfold Rdiv. rewrite Rmult_assoc, Rmult_assoc, Rinv_l, Rmult_1_r by lra.
    rewrite INR_IZR_INZ, <- !mult_IZR. apply IZR_le. exact H4. }
  assert (HpK : pk lam K <= / 10 ^ 18).
  { apply (le0_sound prec80) in H5. rewrite (pK_meaning K _ lam El Hl) in H5. lra. }
  apply close_sound in H6. rewrite (entropy_trunc_meaning K _ lam El Hl) in H6.
  assert (Et : evalR [] (ESub (EQ 1 (10 ^ 9)) tail_margin) = / 10 ^ 9 - / 10 ^ 16).
  { unfold tail_margin, EQ. cbn [evalR]. unfold Rdiv. rewrite !Rmult_1_l.
    change (10 ^ 9)%Z with (10 ^ Z.of_nat 9)%Z. change (10 ^ 16)%Z with (10 ^ Z.of_nat 16)%Z. rewrite <- !pow_IZR. reflexivity. }
  rewrite Et in H6. change (evalR [] (EQ vn vd)) with (IZR vn / IZR vd) in H6.
  split; [exact Hl|]. intros M. rewrite partial_entropy_split.
  pose proof (tail_bound lam K (/ 10 ^ 18) M Hl HK HpK delta_small) as Tb.
  pose proof delta_tail as Dt.
  assert (T0 : 0 <= sumR (fun j => hx (pk lam (K + j))) M).
  { apply sumR_nonneg. intros j. apply hx_nonneg; [apply pk_pos; exact Hl|].
    eapply Rle_trans; [apply pk_geometric; assumption|]. assert (P2 : 1 <= 2 ^ j) by (clear; induction j; cbn [pow]; lra).
    apply Rle_trans with (pk lam K); [|pose proof inv18_le_1; lra].
    unfold Rdiv. rewrite <- (Rmult_1_r (pk lam K)) at 2. apply Rmult_le_compat_l; [apply Rlt_le, pk_pos; exact Hl|].
    rewrite <- Rinv_1. apply Rinv_le_contravar; lra. }
  set (S := partial_entropy lam K) in *. set (t := sumR (fun j => hx (pk lam (K + j))) M) in *. set (v := IZR vn / IZR vd) in *.
  assert (H6' : - (/ 10 ^ 9 - / 10 ^ 16) <= S - v <= / 10 ^ 9 - / 10 ^ 16).
  { unfold Rabs in H6. destruct (Rcase_abs (S - v)); lra. }
  apply Rabs_le. lra.
Qed.
