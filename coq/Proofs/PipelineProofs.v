From Coq Require Import List Arith ZArith QArith Bool Lia Permutation.
From CE Require Import Model.Lagged Model.Selection Model.ShuffleTest Model.Dispatch Model.Discover Model.Pipeline
  Proofs.LaggedProofs Proofs.SelectionProofs Proofs.ShuffleTestProofs Proofs.DiscoverProofs.
Import ListNotations.
Local Open Scope nat_scope.

(* ---------- the selection reads its oracles only at the traced queries ---------------------------- *)
Lemma argmax_first_ext (s s' : nat -> Z) l : forall best,
  (forall j, In j (best :: l) -> s j = s' j) -> argmax_first s best l = argmax_first s' best l.
Proof.
  induction l as [|x l IH]; intros best H; [reflexivity|]. cbn [argmax_first].
  rewrite <- (H best) by (cbn; auto). rewrite <- (H x) by (cbn; auto).
  destruct (s best <? s x)%Z; apply IH; intros j Hj; apply H; cbn in Hj |- *; tauto.
Qed.

Lemma argmax_ext (s s' : nat -> Z) l : (forall j, In j l -> s j = s' j) -> argmax s l = argmax s' l.
Proof. destruct l as [|c l]; [reflexivity|]. intros H. unfold argmax. apply argmax_first_ext. exact H. Qed.

Section Frame.
Variables f f' : nat -> list nat -> Z.
Variables g g' : nat -> list nat -> bool.
Variable init : list nat.

Definition agree (q : query) : Prop :=
  let '(b, j, Zs) := q in f j Zs = f' j Zs /\ (b = true -> g j Zs = g' j Zs).

Lemma round_agree cands Zc j : (forall q, In q (round_q cands Zc j) -> agree q) ->
  (forall c, In c cands -> f c Zc = f' c Zc) /\ g j Zc = g' j Zc.
Proof.
  intros H. split.
  - intros c Hc. apply (H (false, c, Zc)). unfold round_q. apply in_or_app. left.
    apply in_map_iff. exists c. split; [reflexivity|exact Hc].
  - apply (H (true, j, Zc)); [|reflexivity]. unfold round_q. apply in_or_app. right. left. reflexivity.
Qed.

Lemma std_fwd_frame : forall fuel cands S,
  (forall q, In q (std_fwd_q f g init fuel cands S) -> agree q) ->
  std_fwd f g init fuel cands S = std_fwd f' g' init fuel cands S.
Proof.
  induction fuel as [|fuel IH]; intros cands S H; [reflexivity|].
  destruct cands as [|c cs]; [reflexivity|]. cbn [std_fwd std_fwd_q] in H |- *.
  set (Zc := init ++ S) in *. set (cands := c :: cs) in *.
  destruct (round_agree cands Zc (argmax (fun j => f j Zc) cands)) as [Hf Hg].
  { intros q Hq. apply H. apply in_or_app. left. exact Hq. }
  assert (Ej : argmax (fun j => f' j Zc) cands = argmax (fun j => f j Zc) cands).
  { symmetry. apply argmax_ext. exact Hf. }
  rewrite Ej, <- Hg.
  destruct (g (argmax (fun j => f j Zc) cands) Zc); apply IH; intros q Hq; apply H; apply in_or_app; right; exact Hq.
Qed.

Lemma alt_fwd_frame : forall fuel cands S,
  (forall q, In q (alt_fwd_q f g init fuel cands S) -> agree q) ->
  alt_fwd f g init fuel cands S = alt_fwd f' g' init fuel cands S.
Proof.
  induction fuel as [|fuel IH]; intros cands S H; [reflexivity|].
  destruct cands as [|c cs]; [reflexivity|]. cbn [alt_fwd alt_fwd_q] in H |- *.
  set (Zc := init ++ S) in *. set (cands := c :: cs) in *.
  destruct (round_agree cands Zc (argmax (fun j => f j Zc) cands)) as [Hf Hg].
  { intros q Hq. apply H. apply in_or_app. left. exact Hq. }
  assert (Ej : argmax (fun j => f' j Zc) cands = argmax (fun j => f j Zc) cands).
  { symmetry. apply argmax_ext. exact Hf. }
  rewrite Ej, <- Hg.
  destruct (g (argmax (fun j => f j Zc) cands) Zc); [|reflexivity].
  apply IH; intros q Hq; apply H; apply in_or_app; right; exact Hq.
Qed.

Lemma fwd_frame vr m : (forall q, In q (fwd_q f g init vr m) -> agree q) -> fwd f g init vr m = fwd f' g' init vr m.
Proof. destruct vr; cbn [fwd fwd_q]; [apply std_fwd_frame|apply alt_fwd_frame]. Qed.

Lemma bwd_frame : forall order S, (forall q, In q (bwd_q g order S) -> agree q) -> bwd g order S = bwd g' order S.
Proof.
  induction order as [|j o IH]; intros S H; [reflexivity|]. cbn [bwd bwd_q] in H |- *.
  assert (Hg : g j (remove Nat.eq_dec j S) = g' j (remove Nat.eq_dec j S)).
  { apply (H (true, j, remove Nat.eq_dec j S)); [right; left; reflexivity|reflexivity]. }
  rewrite <- Hg. destruct (g j (remove Nat.eq_dec j S)); apply IH; intros q Hq; apply H; right; right; exact Hq.
Qed.
End Frame.

Lemma in_emit_q S s : In s S -> In (false, s, others S s) (emit_q S) /\ In (true, s, others S s) (emit_q S).
Proof.
  intros H. unfold emit_q. split; apply in_flat_map; exists s; (split; [exact H|]); cbn; auto.
Qed.

Lemma flat_map_ext_in {A B} (h h' : A -> list B) l : (forall a, In a l -> h a = h' a) -> flat_map h l = flat_map h' l.
Proof.
  induction l as [|a l IH]; intros H; [reflexivity|]. cbn [flat_map]. rewrite (H a) by (left; reflexivity).
  f_equal. apply IH. intros b Hb. apply H. right. exact Hb.
Qed.

(* ---------- the whole pipeline ---------------------------------------------------------------------- *)
Section Pipe.
Variables n L : nat.
Variable scale : positive.
Variables aF bF aB bB : Z.

Section TwoOracles.
Variables cmi cmi' : nat -> label -> list label -> Z.
Variables sur sur' : nat -> label -> list label -> list Z.

(* the two oracle pairs give the same answers on the entries (is-test, target, X label, Z labels) *)
Definition same_on (es : list (bool * nat * label * list label)) : Prop :=
  forall b i x zs, In (b, i, x, zs) es -> cmi i x zs = cmi' i x zs /\ (b = true -> sur i x zs = sur' i x zs).

Lemma same_info i b j Zs : same_on [(b, i, lab L j, labs L Zs)] -> info L cmi i j Zs = info L cmi' i j Zs.
Proof. intros H. unfold info. destruct (H b i _ _ (or_introl eq_refl)) as [E _]. rewrite E. reflexivity. Qed.

Lemma same_test a b i j Zs : same_on [(true, i, lab L j, labs L Zs)] -> test L cmi sur a b i j Zs = test L cmi' sur' a b i j Zs.
Proof.
  intros H. unfold test, info, nulls. destruct (H true i _ _ (or_introl eq_refl)) as [E1 E2].
  rewrite E1, (E2 eq_refl). reflexivity.
Qed.

Lemma same_on_single es e : same_on es -> In e es -> same_on [e].
Proof. intros H He b i x zs [E|[]]. apply H. rewrite <- E. exact He. Qed.

Lemma queries_agree i (qs : list query) a b :
  same_on (map (as_entry L i) qs) ->
  forall q, In q qs -> agree (info L cmi i) (info L cmi' i)
                             (fun j Zs => r_pass (test L cmi sur a b i j Zs)) (fun j Zs => r_pass (test L cmi' sur' a b i j Zs)) q.
Proof.
  intros H [[bq j] Zs] Hq. unfold agree.
  assert (Hin : In (bq, i, lab L j, labs L Zs) (map (as_entry L i) qs)).
  { apply in_map_iff. exists (bq, j, Zs). split; [reflexivity|exact Hq]. }
  split.
  - apply (same_info i bq). apply (same_on_single _ _ H Hin).
  - intros ->. rewrite (same_test a b i j Zs); [reflexivity|]. apply (same_on_single _ _ H Hin).
Qed.

Lemma same_on_app_l es es' : same_on (es ++ es') -> same_on es.
Proof. intros H b i x zs Hin. apply H. apply in_or_app. left. exact Hin. Qed.
Lemma same_on_app_r es es' : same_on (es ++ es') -> same_on es'.
Proof. intros H b i x zs Hin. apply H. apply in_or_app. right. exact Hin. Qed.

Variable vr : variant.
Variable order : nat -> list nat.

Lemma parents_frame i :
  same_on (map (as_entry L i) (select_q n L aF bF aB bB cmi sur vr order i)) ->
  parents n L aF bF aB bB cmi sur vr order i = parents n L aF bF aB bB cmi' sur' vr order i.
Proof.
  intros H. unfold select_q in H. rewrite map_app in H. unfold parents, ocse.
  assert (Ef : fwd (info L cmi i) (gF L aF bF cmi sur i) (init_of L vr i) vr (n * L)
             = fwd (info L cmi' i) (gF L aF bF cmi' sur' i) (init_of L vr i) vr (n * L)).
  { apply fwd_frame. apply (queries_agree i _ aF bF). apply (same_on_app_l _ _ H). }
  rewrite <- Ef. apply (bwd_frame (info L cmi i) (info L cmi' i)).
  apply (queries_agree i _ aB bB). apply (same_on_app_r _ _ H).
Qed.

(* FRAME, one target: the edges into i are determined by the oracle entries listed by [target_q i] *)
Theorem target_frame i :
  same_on (map (as_entry L i) (target_q n L aF bF aB bB cmi sur vr order i)) ->
  edges_of_target L (parents n L aF bF aB bB cmi sur vr order)
     (edge_est L scale cmi (parents n L aF bF aB bB cmi sur vr order))
     (edge_cnt L aB bB cmi sur (parents n L aF bF aB bB cmi sur vr order)) i
  = edges_of_target L (parents n L aF bF aB bB cmi' sur' vr order)
     (edge_est L scale cmi' (parents n L aF bF aB bB cmi' sur' vr order))
     (edge_cnt L aB bB cmi' sur' (parents n L aF bF aB bB cmi' sur' vr order)) i.
Proof.
  intros H. unfold target_q in H. rewrite map_app in H.
  pose proof (parents_frame i (same_on_app_l _ _ H)) as EP. apply same_on_app_r in H.
  unfold edges_of_target. rewrite <- EP. apply map_ext_in. intros s Hs.
  destruct (in_emit_q _ s Hs) as [_ Ht].
  assert (Hin : In (true, i, lab L s, labs L (others (parents n L aF bF aB bB cmi sur vr order i) s))
                   (map (as_entry L i) (emit_q (parents n L aF bF aB bB cmi sur vr order i)))).
  { apply in_map_iff. eexists. split; [|exact Ht]. reflexivity. }
  pose proof (same_on_single _ _ H Hin) as H1.
  unfold edge_est, edge_cnt. rewrite <- EP.
  rewrite (same_test aB bB i s _ H1). destruct (H1 true i _ _ (or_introl eq_refl)) as [E _]. rewrite E. reflexivity.
Qed.

(* FRAME, whole graph *)
Theorem model_frame :
  same_on (entries n L aF bF aB bB cmi sur vr order) ->
  discover_model n L scale aF bF aB bB cmi sur vr order = discover_model n L scale aF bF aB bB cmi' sur' vr order.
Proof.
  intros H. unfold discover_model, discover_with, discover_edges. apply flat_map_ext_in. intros i Hi.
  apply target_frame. intros b i' x zs Hin. apply H. unfold entries. apply in_flat_map. exists i. split; [exact Hi|].
  exact Hin.
Qed.
End TwoOracles.

(* (iv) targets are independent: the edges into w only depend on the oracles restricted to target w
        (and on the order in which backward() visits w's forward set) *)
Theorem targets_independent cmi cmi' sur sur' vr order order' w :
  (forall x zs, cmi w x zs = cmi' w x zs) -> (forall x zs, sur w x zs = sur' w x zs) -> order w = order' w ->
  filter (fun e => Nat.eqb (e_dst e) w) (discover_model n L scale aF bF aB bB cmi sur vr order)
  = filter (fun e => Nat.eqb (e_dst e) w) (discover_model n L scale aF bF aB bB cmi' sur' vr order').
Proof.
  intros Hc Hs Ho.
  assert (Eblock : forall sel est cnt sel' est' cnt',
            edges_of_target L sel est cnt w = edges_of_target L sel' est' cnt' w ->
            forall l, filter (fun e => Nat.eqb (e_dst e) w) (flat_map (edges_of_target L sel est cnt) l)
                    = filter (fun e => Nat.eqb (e_dst e) w) (flat_map (edges_of_target L sel' est' cnt') l)).
  { intros sel est cnt sel' est' cnt' E l. induction l as [|i l IH]; [reflexivity|]. cbn [flat_map].
    rewrite !filter_app, IH. f_equal. destruct (Nat.eq_dec i w) as [->|Hne]; [rewrite E; reflexivity|].
    assert (Z0 : forall sl es cn, filter (fun e => Nat.eqb (e_dst e) w) (edges_of_target L sl es cn i) = []).
    { intros sl es cn. unfold edges_of_target. induction (sl i) as [|s r IHr]; [reflexivity|]. cbn [map filter e_dst].
      destruct (Nat.eqb_spec i w); [contradiction|exact IHr]. }
    rewrite !Z0. reflexivity. }
  unfold discover_model, discover_with, discover_edges. apply Eblock.
  (* same oracle on target w, same order at w *)
  assert (EP : parents n L aF bF aB bB cmi sur vr order w = parents n L aF bF aB bB cmi' sur' vr order' w).
  { unfold parents. rewrite <- Ho. transitivity (parents n L aF bF aB bB cmi' sur' vr order w); [|reflexivity].
    apply parents_frame. intros b i x zs Hin. apply in_map_iff in Hin. destruct Hin as ([[bq j] Zs] & E & _).
    cbn in E. injection E as _ <- _ _. split; [apply Hc|intros _; apply Hs]. }
  unfold edges_of_target. rewrite <- EP. apply map_ext_in. intros s _.
  unfold edge_est, edge_cnt, test, info, nulls. rewrite <- EP, !Hc, !Hs. reflexivity.
Qed.

(* (v) equal oracles give equal graphs *)
Theorem model_deterministic cmi cmi' sur sur' vr order order' :
  (forall i x zs, cmi i x zs = cmi' i x zs) -> (forall i x zs, sur i x zs = sur' i x zs) ->
  (forall i, i < n -> order i = order' i) ->
  discover_model n L scale aF bF aB bB cmi sur vr order = discover_model n L scale aF bF aB bB cmi' sur' vr order'.
Proof.
  intros Hc Hs Ho. transitivity (discover_model n L scale aF bF aB bB cmi' sur' vr order).
  - apply model_frame. intros b i x zs _. split; [apply Hc|intros _; apply Hs].
  - unfold discover_model, discover_with, discover_edges. apply flat_map_ext_in. intros i Hi. apply in_seq in Hi.
    unfold edges_of_target, parents, edge_est, edge_cnt, parents. rewrite (Ho i) by lia. reflexivity.
Qed.

(* ---------- evaluation on finite tables is faithful ------------------------------------------------- *)
Lemma has_key_find {A} (tbl : list (key * A)) k : has_key tbl k = true -> exists v, find_key tbl k = Some v.
Proof. unfold has_key. destruct (find_key tbl k) as [v|]; [eauto|discriminate]. Qed.

(* a total oracle pair that answers as the tables do wherever the tables have an entry *)
Definition extends (tc : list (key * Z)) (ts : list (key * list Z))
  (cmi : nat -> label -> list label -> Z) (sur : nat -> label -> list label -> list Z) : Prop :=
  (forall i x zs v, find_key tc (i, x, sort_labels zs) = Some v -> cmi i x zs = v) /\
  (forall i x zs v, find_key ts (i, x, sort_labels zs) = Some v -> sur i x zs = v).

Theorem table_evaluation_faithful tc ts cmi sur vr order :
  forallb (covered tc ts) (entries n L aF bF aB bB (tbl_cmi tc) (tbl_sur ts) vr order) = true ->
  extends tc ts cmi sur ->
  discover_model n L scale aF bF aB bB cmi sur vr order
  = discover_model n L scale aF bF aB bB (tbl_cmi tc) (tbl_sur ts) vr order.
Proof.
  intros Hcov [Hc Hs]. symmetry. apply model_frame. intros b i x zs Hin.
  rewrite forallb_forall in Hcov. specialize (Hcov _ Hin). unfold covered in Hcov.
  apply andb_true_iff in Hcov. destruct Hcov as [H1 H2].
  destruct (has_key_find _ _ H1) as [v Hv]. split.
  - unfold tbl_cmi. rewrite Hv. symmetry. apply Hc. exact Hv.
  - intros ->. cbn in H2. destruct (has_key_find _ _ H2) as [w Hw]. unfold tbl_sur. rewrite Hw. symmetry. apply Hs. exact Hw.
Qed.

(* ---------- (i) well-formed, (ii) characterisation, (iii) attributes -------------------------------- *)
Section One.
Variable cmi : nat -> label -> list label -> Z.
Variable sur : nat -> label -> list label -> list Z.
Variable vr : variant.
Variable order : nat -> list nat.
Hypothesis HL : 0 < L.
Hypothesis Hord : forall i, Permutation (order i) (fwd (info L cmi i) (gF L aF bF cmi sur i) (init_of L vr i) vr (n * L)).

Notation PAR := (parents n L aF bF aB bB cmi sur vr order).

Lemma count_range nsh sel i s : (forall i x zs, (Z.of_nat (length (sur i x zs)) <= nsh)%Z) ->
  (0 <= edge_cnt L aB bB cmi sur sel i s <= nsh)%Z.
Proof.
  intros H. unfold edge_cnt, test, shuffle_model, r_count, count_ge.
  pose proof (cge_le (info L cmi i s (others (sel i) s)) (nulls L sur i s (others (sel i) s))) as Hc.
  unfold nulls in Hc |- *. rewrite map_length in Hc. specialize (H i (lab L s) (labs L (others (sel i) s))). lia.
Qed.

(* (i) *)
Theorem pipeline_wf nsh : (forall i x zs, (Z.of_nat (length (sur i x zs)) <= nsh)%Z) ->
  wf_graph n L nsh (discover_model n L scale aF bF aB bB cmi sur vr order) = true.
Proof.
  intros Hn. unfold discover_model, discover_with.
  exact (discover_wf_ocse n L nsh (info L cmi) (gF L aF bF cmi sur) (gB L aB bB cmi sur) (init_of L vr) vr order
           (edge_est L scale cmi PAR) (edge_cnt L aB bB cmi sur PAR) HL (fun i s => count_range nsh PAR i s Hn) Hord).
Qed.

(* the selected set of every target is a result the relational oCSE rule of C02 allows, on the landscape and
   verdicts that the two oracles induce *)
Theorem parents_follow_rule w :
  ocse_spec (info L cmi w) (gF L aF bF cmi sur w) (gB L aB bB cmi sur w) (init_of L vr w) vr (n * L) (PAR w).
Proof. apply ocse_in_spec. apply Hord. Qed.

Lemma parents_range w s : In s (PAR w) -> s < n * L.
Proof.
  intros H. destruct (spec_result_wellformed _ _ _ _ _ _ _ (parents_follow_rule w)) as [_ I].
  specialize (I s H). apply in_seq in I. lia.
Qed.

(* (ii) an edge u -> w at lag tau is emitted iff column (u, tau) is among the oCSE parents of w *)
Theorem edge_iff u w tau :
  (exists e, In e (discover_model n L scale aF bF aB bB cmi sur vr order) /\ e_src e = u /\ e_dst e = w /\ e_lag e = tau)
  <-> (u < n /\ w < n /\ 1 <= tau <= L /\ In (feature_index L u tau) (PAR w)).
Proof.
  split.
  - intros (e & He & <- & <- & <-). apply (in_discover n L _ _ _ HL) in He. destruct He as (i & s & Hi & Hs & ->).
    cbn [e_src e_dst e_lag]. destruct (feature_range n L s HL (parents_range i s Hs)) as [H1 H2].
    rewrite (feature_index_feature L s HL). repeat split; try assumption; lia.
  - intros (Hu & Hw & Ht & Hin). eexists. split.
    + unfold discover_model, discover_with, discover_edges. apply in_flat_map. exists w. split; [apply in_seq; lia|].
      unfold edges_of_target. apply in_map. exact Hin.
    + cbn [e_src e_dst e_lag]. rewrite (feature_feature_index L u tau Ht). repeat split.
Qed.

(* (iii) the attributes of an emitted edge: floor0 of the oracle value for
         X = column (u, tau), Y = target now, Z = the columns of the other selected parents;
         p-count = number of that query's (floored) surrogates that are >= the (floored) value *)
Theorem edge_attributes e : In e (discover_model n L scale aF bF aB bB cmi sur vr order) ->
  let w := e_dst e in let c := feature_index L (e_src e) (e_lag e) in
  let zs := map (feature L) (others (PAR w) c) in
  In c (PAR w) /\
  (forall k, In k (others (PAR w) c) <-> In k (PAR w) /\ k <> c) /\
  e_cmi e = floor0 (Fin (cmi w (e_src e, e_lag e) zs # scale)) /\
  e_count e = count_ge (fl (cmi w (e_src e, e_lag e) zs)) (map fl (sur w (e_src e, e_lag e) zs)).
Proof.
  intros He. apply (in_discover n L _ _ _ HL) in He. destruct He as (i & s & Hi & Hs & ->).
  cbn [e_src e_dst e_lag e_cmi e_count]. rewrite (feature_index_feature L s HL).
  split; [exact Hs|]. split; [intros k; apply edge_conditioning_is_other_parents|].
  unfold edge_est, edge_cnt, test, shuffle_model, r_count, info, nulls, lab, labs.
  rewrite <- (surjective_pairing (feature L s)). split; reflexivity.
Qed.

(* the C01 meaning: on any series, the columns of that query are the triple of Lagged.edge_triple *)
Theorem edge_query_is_edge_triple {V} (d : V) (s : series) w c :
  edge_triple d s L w (PAR w) c = (x_lagged_col d s L c, y_col d s L w, map (x_lagged_col d s L) (others (PAR w) c)).
Proof. reflexivity. Qed.
End One.

(* LASSO variants: the support reported by the solver is data; the emission part is the same *)
Theorem lasso_wf cmi sur support nsh : 0 < L ->
  (forall i, i < n -> NoDup (support i) /\ (forall s, In s (support i) -> s < n * L)) ->
  (forall i x zs, (Z.of_nat (length (sur i x zs)) <= nsh)%Z) ->
  wf_graph n L nsh (discover_model_lasso n L scale aB bB cmi sur support) = true.
Proof.
  intros HL Hs Hn. unfold discover_model_lasso, discover_with. apply discover_wf; [exact HL|exact Hs|].
  intros i s. apply count_range; assumption.
Qed.

Theorem lasso_edge_iff cmi sur support u w tau : 0 < L ->
  (forall i, i < n -> forall s, In s (support i) -> s < n * L) ->
  (exists e, In e (discover_model_lasso n L scale aB bB cmi sur support) /\ e_src e = u /\ e_dst e = w /\ e_lag e = tau)
  <-> (u < n /\ w < n /\ 1 <= tau <= L /\ In (feature_index L u tau) (support w)).
Proof.
  intros HL Hr. split.
  - intros (e & He & <- & <- & <-). apply (in_discover n L _ _ _ HL) in He. destruct He as (i & s & Hi & Hs & ->).
    cbn [e_src e_dst e_lag]. destruct (feature_range n L s HL (Hr i Hi s Hs)) as [H1 H2].
    rewrite (feature_index_feature L s HL). repeat split; try assumption; lia.
  - intros (Hu & Hw & Ht & Hin). eexists. split.
    + unfold discover_model_lasso, discover_with, discover_edges. apply in_flat_map. exists w. split; [apply in_seq; lia|].
      unfold edges_of_target. apply in_map. exact Hin.
    + cbn [e_src e_dst e_lag]. rewrite (feature_feature_index L u tau Ht). repeat split.
Qed.
End Pipe.

(* ---------- non-vacuity ------------------------------------------------------------------------------
   3 variables, max_lag 2 (candidate columns 0..5 = (0,1) (0,2) (1,1) (1,2) (2,1) (2,2)), alpha = 1/4 in both
   phases, 4 surrogates 2 3 4 5 for every query (threshold 4.25).  Target 1: (0,1) is accepted first (10 > 4.25),
   then (2,2) given (0,1) (8); the next best is 0 and fails.  Backward visits (0,1) first: given (2,2) its value is
   1 -> PRUNED; (2,2) alone keeps 8.  Target 2: (1,1) has 9 whatever the conditioning.  Target 0: the raw value
   -3 is floored to 0 and never passes. *)
Definition ex_cmi (i : nat) (x : label) (zs : list label) : Z :=
  match i, x, zs with
  | 1, (0, 1), [] => 10%Z | 1, (2, 2), [(0, 1)] => 8%Z | 1, (0, 1), [(2, 2)] => 1%Z | 1, (2, 2), [] => 8%Z
  | 2, (1, 1), _ => 9%Z
  | 0, _, _ => (-3)%Z
  | _, _, _ => 0%Z
  end.
Definition ex_sur (i : nat) (x : label) (zs : list label) : list Z := [2; 3; 4; 5]%Z.
Definition ex_order (i : nat) : list nat := match i with 1 => [0; 5] | 2 => [2] | _ => [] end.

Example pipeline_instance :
  (forall i, Permutation (ex_order i) (fwd (info 2 ex_cmi i) (gF 2 1 4 ex_cmi ex_sur i) (init_of 2 Alternative i) Alternative (3 * 2)))
  /\ fwd (info 2 ex_cmi 1) (gF 2 1 4 ex_cmi ex_sur 1) [] Alternative 6 = [0; 5]
  /\ parents 3 2 1 4 1 4 ex_cmi ex_sur Alternative ex_order 1 = [5]
  /\ discover_model 3 2 16 1 4 1 4 ex_cmi ex_sur Alternative ex_order
     = [ {| e_src := 2; e_dst := 1; e_lag := 2; e_cmi := Fin (8 # 16); e_count := 0 |};
         {| e_src := 1; e_dst := 2; e_lag := 1; e_cmi := Fin (9 # 16); e_count := 0 |} ]
  /\ wf_graph 3 2 4 (discover_model 3 2 16 1 4 1 4 ex_cmi ex_sur Alternative ex_order) = true
  (* standard variant: the exact-match entries of target 1 are never hit once its own lags are conditioned on *)
  /\ map (fun e => (e_src e, e_dst e, e_lag e)) (discover_model 3 2 16 1 4 1 4 ex_cmi ex_sur Standard (fun i => match i with 2 => [2] | _ => [] end))
     = [(1, 2, 1)].
Proof.
  split; [|vm_compute; repeat split; reflexivity].
  intros [|[|[|i]]]; vm_compute; apply Permutation_refl.
Qed.

(* the same oracle as finite tables: complete tables are accepted, a table with one entry missing is refused *)
Definition ex_keys : list key :=
  flat_map (fun i => flat_map (fun c => map (fun zs => (i, feature 2 c, zs)) [[]; [(0, 1)]; [(1, 1)]; [(2, 2)]; [(0, 1); (2, 2)]]) (seq 0 6)) (seq 0 3).
Definition ex_pcase (drop : nat) : pcase :=
  {| pc_std := false; pc_ordered := true; pc_seam_ok := true; pc_n := 3; pc_L := 2; pc_scale := 16;
     pc_aF := 1; pc_bF := 4; pc_aB := 1; pc_bB := 4; pc_nsh := 4;
     pc_cmi := skipn drop (map (fun k => (k, let '(i, x, zs) := k in ex_cmi i x zs)) ex_keys);
     pc_sur := map (fun k => (k, [2; 3; 4; 5]%Z)) ex_keys;
     pc_orders := [[]; [0; 5]; [2]];
     pc_edges := [(2, 1, 2, Fin (1 # 2), 0%Z); (1, 2, 1, Fin (9 # 16), 0%Z)] |}.
Example pipeline_table_instance : check_pipeline_case (ex_pcase 0) = true /\ check_pipeline_case (ex_pcase 1) = false.
Proof. vm_compute. split; reflexivity. Qed.
