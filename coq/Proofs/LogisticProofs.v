From Coq Require Import List QArith Lqa Lia.
From CE Require Import Model.Logistic.
Import ListNotations.
Open Scope Q_scope.

Lemma sq_nonneg (a : Q) : 0 <= a * a.
Proof.
  destruct (Qlt_le_dec a 0) as [H|H].
  - assert (E : a * a == (- a) * (- a)) by ring. rewrite E. apply Qmult_le_0_compat; lra.
  - apply Qmult_le_0_compat; exact H.
Qed.

Lemma quarter x : x * (1 - x) <= 1 # 4.
Proof. pose proof (sq_nonneg (x - (1#2))) as H. lra. Qed.

(* the logistic map sends the unit interval into itself for 0 <= r <= 4 *)
Theorem fmap_unit r x : 0 <= r -> r <= 4 -> in_unit x -> in_unit (fmap r x).
Proof.
  intros Hr0 Hr4 [Hx0 Hx1]. unfold in_unit, fmap. pose proof (quarter x) as H2.
  assert (H1 : 0 <= x * (1 - x)) by nra.
  assert (E : r * x * (1 - x) == r * (x * (1 - x))) by ring. rewrite E. split; nra.
Qed.

Lemma qsum_nonneg w : Forall (fun a => 0 <= a) w -> 0 <= qsum w.
Proof. induction 1 as [|a w Ha _ IH]; cbn [qsum]; lra. Qed.

Lemma dot_bounds w : Forall (fun a => 0 <= a) w -> forall f, Forall in_unit f -> 0 <= dot w f /\ dot w f <= qsum w.
Proof.
  induction 1 as [|a w Ha Hw IH]; intros f Hf; cbn [dot qsum]; [destruct f; split; lra|].
  destruct f as [|b f].
  - pose proof (qsum_nonneg w Hw). split; lra.
  - inversion Hf as [|? ? [Hb0 Hb1] Hf']; subst. destruct (IH f Hf') as [I0 I1]. split; nra.
Qed.

(* one coordinate of the update: a convex combination *)
Theorem update_unit s fi w f : 0 <= s -> s <= 1 -> in_unit fi -> substochastic w -> Forall in_unit f ->
  in_unit (update s fi (dot w f)).
Proof.
  intros Hs0 Hs1 [Hf0 Hf1] [Hw Hsum] Hf. destruct (dot_bounds w Hw f Hf) as [D0 D1].
  unfold in_unit, update.
  assert (E : fi - s * (fi - dot w f) == (1 - s) * fi + s * dot w f) by ring. rewrite E. split; nra.
Qed.

Theorem step_unit r s W x : 0 <= r -> r <= 4 -> 0 <= s -> s <= 1 ->
  Forall substochastic W -> Forall in_unit x -> Forall in_unit (step r s W x).
Proof.
  intros Hr0 Hr4 Hs0 Hs1 HW Hx. unfold step.
  assert (Hf : Forall in_unit (map (fmap r) x)).
  { rewrite Forall_forall in *. intros y Hy. apply in_map_iff in Hy. destruct Hy as (v & <- & Hv). apply fmap_unit; auto. }
  rewrite Forall_forall. intros y Hy. apply in_map_iff in Hy. destruct Hy as ([w fi] & <- & Hin).
  apply in_combine_l in Hin as Hw. apply in_combine_r in Hin as Hfi.
  rewrite Forall_forall in HW. apply update_unit; auto.
  rewrite Forall_forall in Hf. apply Hf. exact Hfi.
Qed.

(* every row of every trajectory, of any length, for any network size *)
Theorem traj_unit r s W : 0 <= r -> r <= 4 -> 0 <= s -> s <= 1 -> Forall substochastic W ->
  forall steps x0, Forall in_unit x0 -> Forall (Forall in_unit) (traj r s W x0 steps).
Proof.
  intros Hr0 Hr4 Hs0 Hs1 HW. induction steps as [|k IH]; intros x0 Hx; cbn [traj].
  - constructor; [exact Hx|constructor].
  - constructor; [exact Hx|]. apply IH. apply step_unit; assumption.
Qed.

(* the row normalisation yields a substochastic row (sum 1 or an all-zero row) *)
Lemma qsum_div w s : ~ s == 0 -> qsum (map (fun a => a / s) w) == qsum w / s.
Proof.
  intros Hs. induction w as [|a w IH]; cbn [map qsum]; [field; exact Hs|]. rewrite IH. field. exact Hs.
Qed.

Theorem normalise_row_substochastic row : Forall (fun a => 0 <= a) row -> substochastic (normalise_row row).
Proof.
  intros Hrow. unfold normalise_row, substochastic. destruct (Qle_bool (qsum row) 0) eqn:E.
  - apply Qle_bool_iff in E. split; [exact Hrow|lra].
  - assert (Hpos : 0 < qsum row).
    { apply Qnot_le_lt. intros H. apply Qle_bool_iff in H. congruence. }
    split.
    + rewrite Forall_forall in *. intros y Hy. apply in_map_iff in Hy. destruct Hy as (a & <- & Ha).
      apply Qle_shift_div_l; [exact Hpos|]. specialize (Hrow a Ha). lra.
    + rewrite qsum_div by lra. apply Qle_shift_div_r; [exact Hpos|]. lra.
Qed.

(* the reduced-fraction evaluator used by the correspondence computes the same values *)
Lemma dot_red_eq w : forall f, dot_red w f == dot w f.
Proof.
  induction w as [|a w IH]; intros f; cbn [dot dot_red]; [reflexivity|]. destruct f as [|b f]; [reflexivity|].
  rewrite Qred_correct, IH. reflexivity.
Qed.

(* the pinned (pre-fix) code used the TRANSPOSED (column-stochastic) matrix: the update then leaves
   the unit interval -- finding F3 inside Coq (3-node star, hub row sums to 2) *)
Theorem pinned_refuted : exists W x, Forall in_unit x /\ (forall j, qsum (map (fun row => nth j row 0) W) <= 1) /\
  ~ Forall in_unit (step 4 1 W x).
Proof.
  exists [[0; 1; 1]; [1#2; 0; 0]; [1#2; 0; 0]], [1#2; 1#2; 1#2]. split; [|split].
  - repeat constructor; cbn; lra.
  - intros [|[|[|j]]]; cbn; try lra. destruct j; cbn; lra.
  - intros H. inversion H as [|? ? [_ H1] _]; subst. vm_compute in H1. apply H1. reflexivity.
Qed.

Example logistic_instance :
  let W := [[0; 1#2; 1#2]; [1; 0; 0]; [0; 0; 0]] in
  Forall substochastic W /\ close_list 0 (step_red 4 (1#2) W [1#2; 1#4; 1]) [11#16; 7#8; 0] = true.
Proof.
  split; [|vm_compute; reflexivity].
  repeat constructor; cbn; lra.
Qed.
