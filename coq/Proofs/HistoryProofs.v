(* Lemmas about Model/History.v (C07).  Most statements about the stateful reading are immediate: the model has
   no hidden state by construction, and saying so is the point -- they fix what the history correspondence must
   establish about the implementation.  The parts with content are the abstraction of presentations
   (transposition, label round trip) and the soundness of the in-kernel checker. *)
From Coq Require Import List ZArith QArith Bool String Ascii DecimalString DecimalNat Lia.
From CE Require Import Model.History.
Import ListNotations.

(* ------------------------------------------------------------------ decidable equalities are Leibniz *)
Lemma q_eqb_eq a b : q_eqb a b = true <-> a = b.
Proof.
  destruct a as [n d], b as [n' d']. unfold q_eqb. cbn [Qnum Qden]. rewrite andb_true_iff, Z.eqb_eq, Pos.eqb_eq.
  split; [intros [-> ->]; reflexivity | intros E; inversion E; auto].
Qed.

Lemma leqb_eq {A} (eqb : A -> A -> bool) (H : forall x y, eqb x y = true <-> x = y) :
  forall a b, leqb eqb a b = true <-> a = b.
Proof.
  induction a as [|x a IH]; destruct b as [|y b]; cbn [leqb]; try (split; [discriminate | discriminate]).
  - split; reflexivity.
  - rewrite andb_true_iff, H, IH. split; [intros [-> ->]; reflexivity | intros E; inversion E; auto].
Qed.

Lemma params_eqb_eq a b : params_eqb a b = true <-> a = b.
Proof.
  destruct a as [a1 a2 a3 a4 a5 a6 a7 a8 a9], b as [b1 b2 b3 b4 b5 b6 b7 b8 b9]. unfold params_eqb. cbn [p_method p_info p_max_lag p_alpha_f p_alpha_b p_k p_n_shuffles p_metric p_bandwidth].
  rewrite !andb_true_iff, !String.eqb_eq, !Z.eqb_eq, !q_eqb_eq.
  split; [intros [[[[[[[[-> ->] ->] ->] ->] ->] ->] ->] ->]; reflexivity | intros E; inversion E; tauto].
Qed.

Lemma req_eqb_eq a b : req_eqb a b = true <-> a = b.
Proof.
  destruct a as [m p], b as [m' p']. unfold req_eqb. cbn [fst snd].
  rewrite andb_true_iff, params_eqb_eq, (leqb_eq _ (leqb_eq _ q_eqb_eq)).
  split; [intros [-> ->]; reflexivity | intros E; inversion E; auto].
Qed.

Lemma fnum_eqb_eq a b : fnum_eqb a b = true <-> a = b.
Proof.
  destruct a, b; cbn [fnum_eqb]; try (split; [discriminate | discriminate]); try (split; reflexivity).
  rewrite q_eqb_eq. split; [intros ->; reflexivity | intros E; inversion E; auto].
Qed.

Lemma edge_eqb_eq a b : edge_eqb a b = true <-> a = b.
Proof.
  destruct a as [a1 a2 a3 a4 a5], b as [b1 b2 b3 b4 b5]. unfold edge_eqb. cbn [e_src e_dst e_lag e_cmi e_p].
  rewrite !andb_true_iff, !Nat.eqb_eq, Z.eqb_eq, !fnum_eqb_eq.
  split; [intros [[[[-> ->] ->] ->] ->]; reflexivity | intros E; inversion E; tauto].
Qed.

(* ------------------------------------------------------------------ history independence, framing *)
Section Stateful.
  Variables NpState PyState Rest : Type.
  Variable discover : request -> result.
  Notation world := (world NpState PyState Rest).
  Notation op := (op NpState PyState Rest).
  Notation step := (step NpState PyState Rest discover).
  Notation run := (run NpState PyState Rest discover).
  Notation trace := (trace NpState PyState Rest discover).
  Notation resp_after := (resp_after NpState PyState Rest discover).
  Notation respond := (respond discover).

  (* the answer to a request does not depend on the history nor on the world it is asked in *)
  Theorem history_independent (h1 h2 : list op) (w1 w2 : world) p prm :
    resp_after h1 w1 p prm = resp_after h2 w2 p prm.
  Proof. reflexivity. Qed.

  Theorem answer_is_function_of_abstract_request (h : list op) (w : world) p prm :
    resp_after h w p prm = Some (labels p, name_edges (labels p) (discover (abs p, norm_params prm))).
  Proof. reflexivity. Qed.

  (* a call leaves the whole world -- in particular both global generators -- as it found it *)
  Theorem globals_framed (w : world) p prm :
    let w' := fst (step w (Call p prm)) in
    np_rng w' = np_rng w /\ py_rng w' = py_rng w /\ rest w' = rest w.
  Proof. cbn. auto. Qed.

  (* over whole histories: the final world is the one reached when every call is erased *)
  Theorem calls_can_be_erased (h : list op) (w : world) :
    run h w = run (filter (fun o => negb (is_call NpState PyState Rest o)) h) w.
  Proof.
    revert w. induction h as [|o h IH]; intros w; [reflexivity|].
    destruct o; cbn [run filter is_call negb step fst]; apply IH.
  Qed.

  Corollary only_calls_change_nothing (h : list op) (w : world) :
    forallb (is_call NpState PyState Rest) h = true -> run h w = w.
  Proof.
    intros H. rewrite calls_can_be_erased.
    replace (filter (fun o => negb (is_call NpState PyState Rest o)) h) with (@nil op); [reflexivity|].
    induction h as [|o h IH]; [reflexivity|]. cbn [forallb] in H. apply andb_true_iff in H as [Ho Hh].
    cbn [filter]. rewrite Ho. cbn [negb]. auto.
  Qed.

  (* ---- refinement of the memo-table specification *)
  Definition memo_sound (m : memo) : Prop := forall rq r, lookup rq m = Some r -> r = discover rq.

  Lemma spec_step_agrees m o w : memo_sound m ->
    snd (spec_step NpState PyState Rest discover m o) = snd (step w o) /\
    memo_sound (fst (spec_step NpState PyState Rest discover m o)).
  Proof.
    intros Hm. destruct o; cbn [spec_step step snd fst]; auto.
    destruct (lookup (mk_req p prm) m) as [r|] eqn:E; cbn [snd fst].
    - rewrite (Hm _ _ E). auto.
    - split; [reflexivity|]. intros rq r. cbn [lookup].
      destruct (req_eqb rq (mk_req p prm)) eqn:Eq.
      + apply req_eqb_eq in Eq. subst rq. intros [= <-]. reflexivity.
      + apply Hm.
  Qed.

  Lemma refines_from m h w : memo_sound m ->
    map snd (trace h w) = spec_answers NpState PyState Rest discover h m.
  Proof.
    revert m w. induction h as [|o h IH]; intros m w Hm; [reflexivity|].
    cbn [trace spec_answers]. destruct (spec_step_agrees m o w Hm) as [Ha Hs].
    destruct (step w o) as [w' r] eqn:Es. destruct (spec_step NpState PyState Rest discover m o) as [m' r'] eqn:Ep.
    cbn [map snd fst] in *. subst r'. f_equal. apply IH. exact Hs.
  Qed.

  (* every answer of every history is the FIRST answer that was given to the same abstract request *)
  Theorem refines_memo_spec (h : list op) (w : world) :
    map snd (trace h w) = spec_answers NpState PyState Rest discover h [].
  Proof. apply refines_from. intros rq r. discriminate. Qed.
End Stateful.

(* ------------------------------------------------------------------ labels: names map back to indices *)
Lemma index_of_nth ls : NoDup ls -> forall i, (i < List.length ls)%nat -> index_of (nth i ls ""%string) ls = Some i.
Proof.
  induction 1 as [|x ls Hx Hnd IH]; intros i Hi; cbn [List.length] in Hi; [lia|].
  destruct i as [|i]; cbn [nth index_of].
  - rewrite String.eqb_refl. reflexivity.
  - destruct (String.eqb (nth i ls ""%string) x) eqn:E.
    + apply String.eqb_eq in E. exfalso. apply Hx. rewrite <- E. apply nth_In. lia.
    + rewrite IH by lia. reflexivity.
Qed.

Definition in_range (n : nat) (r : result) : Prop := forall e, In e r -> (e_src e < n)%nat /\ (e_dst e < n)%nat.

Lemma unname_name ls r : NoDup ls -> in_range (List.length ls) r -> unname ls (name_edges ls r) = Some r.
Proof.
  intros Hnd. induction r as [|e r IH]; intros Hr; [reflexivity|].
  cbn [name_edges map unname]. fold (name_edges ls r).
  destruct (Hr e (or_introl eq_refl)) as [Hs Hd].
  unfold unname_edge, name_edge. cbn [n_src n_dst n_lag n_cmi n_p].
  rewrite !index_of_nth by assumption. rewrite IH by (intros x Hx; apply Hr; right; exact Hx).
  destruct e; reflexivity.
Qed.

(* default labels X0, X1, ... are pairwise distinct *)
Lemma default_label_inj i j : default_label i = default_label j -> i = j.
Proof.
  unfold default_label. cbn [append]. intros [= E].
  apply (f_equal NilEmpty.uint_of_string) in E. rewrite !NilEmpty.usu in E.
  injection E as E. apply Unsigned.to_uint_inj. exact E.
Qed.

Lemma default_labels_nodup n k : NoDup (map default_label (seq k n)).
Proof.
  revert k. induction n as [|n IH]; intros k; cbn [seq map]; constructor; [|apply IH].
  intros Hin. apply in_map_iff in Hin as (j & E & Hj). apply default_label_inj in E. subst j.
  apply in_seq in Hj. lia.
Qed.

(* a presentation whose node names can be mapped back: distinct labels, one per column *)
Definition well_presented (p : presentation) : Prop :=
  NoDup (labels p) /\ List.length (labels p) = ncols (abs p).

Lemma arrays_well_presented p : is_frame p = false -> well_presented p.
Proof.
  intros H. unfold well_presented.
  assert (E : labels p = map default_label (seq 0 (ncols (abs p)))) by (destruct p; try reflexivity; discriminate).
  rewrite E. split; [apply default_labels_nodup | rewrite map_length, seq_length; reflexivity].
Qed.

Definition answer_edges (p : presentation) (o : option response) : option result :=
  match o with Some r => unname (labels p) (snd r) | None => None end.

Section Presentations.
  Variables NpState PyState Rest : Type.
  Variable discover : request -> result.
  (* the edges of an answer refer to columns of the data (C06: the graph is well formed) *)
  Hypothesis discover_in_range : forall rq, in_range (ncols (fst rq)) (discover rq).

  Lemma answer_edges_resp h w p prm : well_presented p ->
    answer_edges p (resp_after NpState PyState Rest discover h w p prm) = Some (discover (mk_req p prm)).
  Proof.
    intros [Hnd Hlen]. cbn [resp_after step snd answer_edges respond].
    apply unname_name; [exact Hnd|]. rewrite Hlen. apply (discover_in_range (mk_req p prm)).
  Qed.

  (* equal numbers under two presentations, after any two histories: identical edges once the node names of each
     answer are mapped back to column indices *)
  Theorem presentation_independent h1 h2 w1 w2 p1 p2 prm :
    abs p1 = abs p2 -> well_presented p1 -> well_presented p2 ->
    answer_edges p1 (resp_after NpState PyState Rest discover h1 w1 p1 prm) =
    answer_edges p2 (resp_after NpState PyState Rest discover h2 w2 p2 prm).
  Proof.
    intros E H1 H2. rewrite !answer_edges_resp by assumption. unfold mk_req. rewrite E. reflexivity.
  Qed.
End Presentations.

(* ------------------------------------------------------------------ transposition: column-major presentations *)
Definition rect {A} (k : nat) (m : list (list A)) : Prop := Forall (fun r => List.length r = k) m.

Lemma map2_length {A B C} (f : A -> B -> C) a b : List.length (map2 f a b) = Nat.min (List.length a) (List.length b).
Proof. revert b. induction a as [|x a IH]; intros [|y b]; cbn [map2 List.length Nat.min]; auto. Qed.

Lemma transpose_cons {A} (c : list A) (rest : list (list A)) : rest <> [] ->
  transpose (c :: rest) = map2 cons c (transpose rest).
Proof. destruct rest; [congruence | reflexivity]. Qed.

Lemma transpose_single {A} (c : list A) : transpose [c] = map (fun x => [x]) c.
Proof. reflexivity. Qed.

Lemma transpose_length {A} k (m : list (list A)) : m <> [] -> rect k m -> List.length (transpose m) = k.
Proof.
  induction m as [|r m IH]; intros Hne Hr; [congruence|].
  inversion Hr as [|? ? Hk Hm]; subst. destruct m as [|r' m'].
  - rewrite transpose_single, map_length. reflexivity.
  - rewrite transpose_cons by discriminate. rewrite map2_length, IH by (auto; discriminate). lia.
Qed.

Lemma transpose_sing {A} (r : list A) : r <> [] -> transpose (map (fun x => [x]) r) = [r].
Proof.
  induction r as [|x r IH]; intros Hne; [congruence|]. destruct r as [|y r'].
  - reflexivity.
  - cbn [map]. rewrite transpose_cons by discriminate. change ([y] :: map (fun x0 => [x0]) r') with (map (fun x0 : A => [x0]) (y :: r')).
    rewrite IH by discriminate. reflexivity.
Qed.

Lemma transpose_map2_cons {A} (c : list A) : forall M, List.length c = List.length M -> M <> [] ->
  transpose (map2 cons c M) = c :: transpose M.
Proof.
  induction c as [|x c IH]; intros [|r M] Hl Hne; cbn [List.length] in Hl; try congruence; try lia.
  cbn [map2]. destruct c as [|x' c'], M as [|r' M']; cbn [List.length] in Hl; try lia.
  - reflexivity.
  - assert (E : map2 cons (x' :: c') (r' :: M') <> []) by (cbn [map2]; discriminate).
    rewrite transpose_cons by exact E. rewrite IH by (cbn [List.length]; try lia; discriminate).
    rewrite (transpose_cons r) by discriminate. reflexivity.
Qed.

Theorem transpose_involutive {A} k (m : list (list A)) : m <> [] -> (0 < k)%nat -> rect k m -> transpose (transpose m) = m.
Proof.
  intros Hne Hk. induction m as [|r m IH]; intros Hr; [congruence|].
  inversion Hr as [|? ? Hlen Hm]; subst. destruct m as [|r' m'].
  - rewrite transpose_single. apply transpose_sing. destruct r; [cbn in Hk; lia | discriminate].
  - rewrite transpose_cons by discriminate.
    assert (Hl : List.length (transpose (r' :: m')) = List.length r) by (apply transpose_length; [discriminate | exact Hm]).
    rewrite transpose_map2_cons.
    + rewrite IH by (auto; discriminate). reflexivity.
    + symmetry; exact Hl.
    + intros E. rewrite E in Hl. cbn in Hl. lia.
Qed.

Lemma map2_cons_map {A B} (f : A -> B) (a : list A) : forall M,
  map (map f) (map2 cons a M) = map2 cons (map f a) (map (map f) M).
Proof. induction a as [|x a IH]; intros [|r M]; cbn [map2 map]; auto. rewrite IH. reflexivity. Qed.

Lemma transpose_map {A B} (f : A -> B) (m : list (list A)) : transpose (map (map f) m) = map (map f) (transpose m).
Proof.
  induction m as [|r m IH]; [reflexivity|]. destruct m as [|r' m'].
  - cbn [map]. rewrite !transpose_single, !map_map. reflexivity.
  - change (map (map f) (r :: r' :: m')) with (map f r :: map (map f) (r' :: m')).
    rewrite transpose_cons by (cbn [map]; discriminate). rewrite IH. rewrite (transpose_cons r) by discriminate.
    rewrite map2_cons_map. reflexivity.
Qed.

(* the presentations of ONE rectangular matrix all abstract to the same request data *)
Lemma col_values_QCol T : map col_values (map QCol T) = T.
Proof. rewrite map_map. cbn [col_values]. apply map_id. Qed.
Lemma col_values_ZCol T : map col_values (map ZCol T) = of_ints T.
Proof. rewrite map_map. reflexivity. Qed.

Theorem float_presentations_one_matrix k (m : list (list Q)) ls : m <> [] -> (0 < k)%nat -> rect k m ->
  abs (ArrF (transpose m)) = abs (ArrC m) /\ abs (Nested m) = abs (ArrC m) /\
  abs (Frame ls (map QCol (transpose m))) = abs (ArrC m).
Proof.
  intros Hne Hk Hr. unfold abs. cbn [raw_matrix]. rewrite col_values_QCol, (transpose_involutive k) by assumption. auto.
Qed.

(* integer-typed counts, in any layout / container, are the same request as the float array holding the same integers *)
Theorem int_presentations_one_matrix k (mz : list (list Z)) ls : mz <> [] -> (0 < k)%nat -> rect k mz ->
  abs (IntArrC mz) = abs (ArrC (of_ints mz)) /\ abs (IntNested mz) = abs (ArrC (of_ints mz)) /\
  abs (IntArrF (transpose mz)) = abs (ArrC (of_ints mz)) /\
  abs (Frame ls (map ZCol (transpose mz))) = abs (ArrC (of_ints mz)).
Proof.
  intros Hne Hk Hr. unfold abs. cbn [raw_matrix]. rewrite col_values_ZCol. unfold of_ints.
  rewrite transpose_map, (transpose_involutive k) by assumption. auto.
Qed.

(* ------------------------------------------------------------------ soundness of the in-kernel checker *)
Lemma index_of_lt s ls i : index_of s ls = Some i -> (i < List.length ls)%nat.
Proof.
  revert i. induction ls as [|x ls IH]; intros i; cbn [index_of List.length]; [discriminate|].
  destruct (String.eqb s x); [intros [= <-]; lia|].
  destruct (index_of s ls) as [j|]; cbn [option_map]; [|discriminate]. intros [= <-]. specialize (IH j eq_refl). lia.
Qed.

Lemma response_matches_canon d p prm obs : well_presented p -> in_range (ncols (abs p)) (d (mk_req p prm)) ->
  response_matches (respond d p prm) obs = true ->
  fst obs = labels p /\ canon (labels p) (snd obs) = Some (sort_edges (d (mk_req p prm))).
Proof.
  intros [Hnd Hlen] Hr. unfold response_matches, respond. cbn [fst snd]. rewrite andb_true_iff. intros [Hn Hc].
  apply (leqb_eq _ String.eqb_eq) in Hn. split; [symmetry; exact Hn|].
  unfold canon in *. rewrite unname_name in Hc by (rewrite ?Hlen; assumption). cbn [option_map] in Hc.
  destruct (unname (labels p) (snd obs)) as [b|]; cbn [option_map] in *; [|discriminate].
  apply (leqb_eq _ edge_eqb_eq) in Hc. rewrite Hc. reflexivity.
Qed.

Lemma check_events_calls d es : forall w, check_events d w es = true ->
  forall p prm obs a b, In (ECall p prm obs a b) es -> response_matches (respond d p prm) obs = true.
Proof.
  induction es as [|e es IH]; intros w H p prm obs a b Hin; [destruct Hin|].
  cbn [check_events] in H. apply andb_true_iff in H as [He Hr].
  destruct Hin as [->|Hin]; [|eapply IH; eassumption].
  cbn [resp_after run step snd] in He. rewrite !andb_true_iff in He. tauto.
Qed.

(* a history the checker accepts is FUNCTIONAL: calls with the same abstract request -- whatever the presentation,
   wherever in the history -- were answered with the same canonical edge list, each named after its own labels *)
Theorem checked_history_is_functional d w es :
  (forall rq, in_range (ncols (fst rq)) (d rq)) -> check_events d w es = true ->
  forall p1 prm1 obs1 a1 b1 p2 prm2 obs2 a2 b2,
    In (ECall p1 prm1 obs1 a1 b1) es -> In (ECall p2 prm2 obs2 a2 b2) es ->
    mk_req p1 prm1 = mk_req p2 prm2 -> well_presented p1 -> well_presented p2 ->
    fst obs1 = labels p1 /\ fst obs2 = labels p2 /\ canon (labels p1) (snd obs1) = canon (labels p2) (snd obs2).
Proof.
  intros Hd H p1 prm1 obs1 a1 b1 p2 prm2 obs2 a2 b2 I1 I2 E W1 W2.
  pose proof (check_events_calls d es w H _ _ _ _ _ I1) as M1.
  pose proof (check_events_calls d es w H _ _ _ _ _ I2) as M2.
  apply response_matches_canon in M1; [|exact W1|apply (Hd (mk_req p1 prm1))].
  apply response_matches_canon in M2; [|exact W2|apply (Hd (mk_req p2 prm2))].
  destruct M1 as [N1 C1], M2 as [N2 C2]. rewrite C1, C2, E. auto.
Qed.

(* ... and every call in it left both global generator digests where the history had put them *)
Theorem checked_call_is_framed d w p prm obs a b es :
  check_events d w (ECall p prm obs a b :: es) = true -> a = np_rng w /\ b = py_rng w.
Proof.
  cbn [check_events ops_of run step fst]. rewrite !andb_true_iff, !Z.eqb_eq. intros [[[_ Ha] Hb] _]. auto.
Qed.

(* ------------------------------------------------------------------ non-vacuity / examples *)
Open Scope Q_scope.
Definition ex_rows : list (list Q) := [[1#2; 3]; [2#4; 4]; [-1; 5]].
Definition ex_params := mk_params "standard" "gaussian" 1 (5#100) (1#20) 3 20 "euclidean" "silverman".
(* the same numbers under seven presentations: one abstract matrix *)
Example ex_presentations_one_matrix :
  let m := abs (ArrC ex_rows) in
  forallb (fun p => leqb (leqb q_eqb) (abs p) m)
    [ArrF [[1#2; 1#2; -1]; [3; 4; 5]]; Nested ex_rows;
     Frame ["b"%string; "a"%string] [QCol [1#2; 1#2; -1]; ZCol [3; 4; 5]%Z];
     Frame ["X1"%string; "X0"%string] [QCol [2#4; 1#2; -1]; QCol [3; 4; 5]]] = true
  /\ leqb (leqb q_eqb) (abs (IntArrC [[1; 3]; [2; 4]]%Z)) (abs (IntArrF [[1; 2]; [3; 4]]%Z)) = true
  /\ leqb (leqb q_eqb) (abs (IntNested [[1; 3]; [2; 4]]%Z)) (abs (ArrF [[1; 2]; [6#2; 4]])) = true.
Proof. vm_compute. auto. Qed.

Example ex_rect : ex_rows <> [] /\ (0 < 2)%nat /\ rect 2 ex_rows.
Proof. split; [discriminate|]. split; [auto|]. repeat constructor. Qed.

(* an instance of the hypotheses of presentation_independent with a non-empty answer and adversarial labels *)
Definition ex_discover (rq : request) : result :=
  if Nat.leb 2 (ncols (fst rq)) then [mk_edge 0 1 1 (Fin (1#3)) (Fin 0); mk_edge 1 1 1 (Fin (1#7)) (Fin (1#20))] else [].
Example ex_discover_in_range : forall rq, in_range (ncols (fst rq)) (ex_discover rq).
Proof.
  intros rq e. unfold ex_discover. destruct (Nat.leb 2 (ncols (fst rq))) eqn:E; [|intros []].
  apply Nat.leb_le in E. intros [<-|[<-|[]]]; cbn [e_src e_dst]; lia.
Qed.
Example ex_frame_well_presented : well_presented (Frame ["X1"%string; "X0"%string] [QCol [2#4; 1#2; -1]; QCol [3; 4; 5]]).
Proof. split; [repeat constructor; cbn; intuition discriminate | reflexivity]. Qed.
Example ex_presentation_independent :
  answer_edges (Frame ["X1"%string; "X0"%string] [QCol [2#4; 1#2; -1]; QCol [3; 4; 5]])
    (resp_after unit unit unit ex_discover [ReseedNp tt; Call (ArrC [[1]; [2]]) ex_params] (mk_world tt tt tt)
       (Frame ["X1"%string; "X0"%string] [QCol [2#4; 1#2; -1]; QCol [3; 4; 5]]) ex_params)
  = answer_edges (ArrC ex_rows) (resp_after unit unit unit ex_discover [] (mk_world tt tt tt) (ArrC ex_rows) ex_params)
  /\ resp_after unit unit unit ex_discover [] (mk_world tt tt tt)
       (Frame ["X1"%string; "X0"%string] [QCol [2#4; 1#2; -1]; QCol [3; 4; 5]]) ex_params
     = Some (["X1"%string; "X0"%string],
             [mk_named "X1" "X0" 1 (Fin (1#3)) (Fin 0); mk_named "X0" "X0" 1 (Fin (1#7)) (Fin (1#20))]).
Proof. vm_compute. auto. Qed.

(* the checker accepts a consistent two-presentation history and rejects: a differing later answer, a call that
   moved a global generator, node names that are not the labels *)
Definition ex_obs_arr : response :=
  (["X0"%string; "X1"%string], [mk_named "X1" "X1" 1 (Fin (1#7)) (Fin (1#20)); mk_named "X0" "X1" 1 (Fin (1#3)) (Fin 0)]).
Definition ex_obs_frame (c : Q) : response :=
  (["b"%string; "a"%string], [mk_named "b" "a" 1 (Fin c) (Fin 0); mk_named "a" "a" 1 (Fin (1#7)) (Fin (1#20))]).
Definition ex_frame := Frame ["b"%string; "a"%string] [QCol [1#2; 1#2; -1]; ZCol [3; 4; 5]%Z].
Definition ex_ref := ECall (ArrC ex_rows) ex_params ex_obs_arr 0 0.
Example ex_checker :
  check_history_case (11, 22, 1%nat, [ex_ref], [ECall (Nested ex_rows) ex_params ex_obs_arr 11 22; ESeedNp 12; EDrawPy 23;
                              ECall ex_frame ex_params (ex_obs_frame (1#3)) 12 23])%Z = true
  /\ check_history_case (11, 22, 1%nat, [ex_ref], [ECall (ArrC ex_rows) ex_params ex_obs_arr 11 22; ESeedNp 12;
                                  ECall ex_frame ex_params (ex_obs_frame (1#4)) 12 22])%Z = false
  /\ check_history_case (11, 22, 1%nat, [ex_ref], [ECall (ArrC ex_rows) ex_params ex_obs_arr 11 22; ESeedNp 12;
                                  ECall ex_frame ex_params (ex_obs_frame (1#3)) 13 22])%Z = false
  /\ check_history_case (11, 22, 1%nat, [ex_ref], [ECall ex_frame ex_params ex_obs_arr 11 22])%Z = false
  /\ check_history_case (11, 22, 1%nat, [ex_ref], [ECall (IntArrC [[1]; [2]; [3]]) ex_params (["X0"%string], []) 11 22])%Z = false.
Proof. vm_compute. auto. Qed.
