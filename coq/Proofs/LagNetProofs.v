From Coq Require Import List Arith ZArith QArith Bool Lia Permutation.
From CE Require Import Model.LagNet.
Import ListNotations.
Local Open Scope nat_scope.

(* ---------- lag subnetworks ------------------------------------------------------------------- *)
Theorem subnet_exact k es e : In e (subnet k es) <-> In e es /\ lag e = k.
Proof. unfold subnet. rewrite filter_In, Nat.eqb_eq. reflexivity. Qed.

Lemma max_lag_ge es e : In e es -> lag e <= max_lag es.
Proof.
  induction es as [|a es IH]; [intros []|]. intros [->|H]; cbn [max_lag fold_right].
  - apply Nat.le_max_l.
  - specialize (IH H). fold (max_lag es). lia.
Qed.

Lemma flat_map_cons_at {A} (g : nat -> list A) (x : A) a : forall len start, start <= a < start + len ->
  Permutation (flat_map (fun k => if Nat.eqb k a then x :: g k else g k) (seq start len)) (x :: flat_map g (seq start len)).
Proof.
  induction len as [|len IH]; intros start H; [lia|]. cbn [seq flat_map].
  destruct (Nat.eqb_spec start a) as [E|E].
  - subst. cbn. constructor. apply Permutation_app_head.
    assert (G : forall l s, a < s -> flat_map (fun k => if Nat.eqb k a then x :: g k else g k) (seq s l) = flat_map g (seq s l)).
    { induction l as [|l IHl]; intros s Hs; [reflexivity|]. cbn [seq flat_map].
      destruct (Nat.eqb_spec s a); [lia|]. rewrite IHl by lia. reflexivity. }
    rewrite G by lia. apply Permutation_refl.
  - eapply Permutation_trans; [apply Permutation_app_head; apply IH; lia|].
    apply Permutation_sym, Permutation_middle.
Qed.

(* the subnetworks over all lags 0..K partition the edge set (no edge lost, none duplicated) *)
Theorem subnets_partition es K : (forall e, In e es -> lag e <= K) ->
  Permutation es (flat_map (fun k => subnet k es) (seq 0 (S K))).
Proof.
  induction es as [|e es IH]; intros HK.
  - clear. induction (seq 0 (S K)) as [|a l IHl]; [constructor|exact IHl].
  - assert (E : flat_map (fun k => subnet k (e :: es)) (seq 0 (S K)) =
                flat_map (fun k => if Nat.eqb k (lag e) then e :: subnet k es else subnet k es) (seq 0 (S K))).
    { apply flat_map_ext. intros k. unfold subnet. cbn [filter]. rewrite (Nat.eqb_sym (lag e) k). reflexivity. }
    rewrite E. eapply Permutation_trans; [|apply Permutation_sym, flat_map_cons_at].
    + constructor. apply IH. intros x Hx. apply HK. right; exact Hx.
    + specialize (HK e (or_introl eq_refl)). lia.
Qed.

Theorem subnets_disjoint k1 k2 es e : k1 <> k2 -> In e (subnet k1 es) -> ~ In e (subnet k2 es).
Proof. intros Hne H1 H2. apply subnet_exact in H1, H2. destruct H1, H2. congruence. Qed.

(* ---------- companion matrix ------------------------------------------------------------------ *)
Lemma nth_flat_map_blocks {A} (f : nat -> list A) n d : (forall k, length (f k) = n) -> 0 < n ->
  forall K start c, c < n * K -> nth c (flat_map f (seq start K)) d = nth (c mod n) (f (start + c / n)) d.
Proof.
  intros Hlen Hn. induction K as [|K IH]; intros start c Hc; [lia|]. cbn [seq flat_map].
  destruct (Nat.lt_ge_cases c n) as [Hlt|Hge].
  - rewrite app_nth1 by (rewrite Hlen; exact Hlt). rewrite Nat.div_small, Nat.mod_small by exact Hlt.
    rewrite Nat.add_0_r. reflexivity.
  - rewrite app_nth2 by (rewrite Hlen; exact Hge). rewrite Hlen. rewrite IH by nia.
    pose proof (Nat.div_add (c - n) 1 n ltac:(lia)) as D. pose proof (Nat.mod_add (c - n) 1 n ltac:(lia)) as M.
    replace (c - n + 1 * n) with c in D, M by lia. rewrite D, M. f_equal. f_equal. lia.
Qed.

Lemma adj_row_length n H u : length (adj_row n H u) = n.
Proof. unfold adj_row. rewrite map_length, seq_length. reflexivity. Qed.

Lemma adj_row_nth n H u v : v < n ->
  nth v (adj_row n H u) 0%Z = if existsb (fun e => Nat.eqb (src e) u && Nat.eqb (dst e) v) H then 1%Z else 0%Z.
Proof.
  intros Hv. unfold adj_row.
  set (g := fun v0 => if existsb (fun e => Nat.eqb (src e) u && Nat.eqb (dst e) v0) H then 1%Z else 0%Z).
  rewrite (nth_indep _ 0%Z (g 0)) by (rewrite map_length, seq_length; exact Hv).
  rewrite (map_nth g). rewrite seq_nth by exact Hv. reflexivity.
Qed.

Lemma existsb_filter {A} (p q : A -> bool) l : existsb p (filter q l) = existsb (fun x => p x && q x) l.
Proof.
  induction l as [|a l IH]; [reflexivity|]. cbn [filter existsb]. destruct (q a) eqn:E; cbn [existsb]; rewrite IH.
  - rewrite andb_true_r. reflexivity.
  - rewrite andb_false_r. reflexivity.
Qed.

Lemma unit_row_nth len pos c : c < len -> nth c (unit_row len pos) 0%Z = if Nat.eqb c pos then 1%Z else 0%Z.
Proof.
  intros Hc. unfold unit_row. set (g := fun c0 => if Nat.eqb c0 pos then 1%Z else 0%Z).
  rewrite (nth_indep _ 0%Z (g 0)) by (rewrite map_length, seq_length; exact Hc).
  rewrite (map_nth g). rewrite seq_nth by exact Hc. reflexivity.
Qed.

Lemma flat_map_blocks_length {A} (f : nat -> list A) n : (forall k, length (f k) = n) ->
  forall K start, length (flat_map f (seq start K)) = n * K.
Proof.
  intros Hlen. induction K as [|K IH]; intros start; [cbn; lia|].
  cbn [seq flat_map]. rewrite app_length, Hlen, IH. lia.
Qed.

Theorem companion_empty n es : max_lag es = 0 -> companion n es = [].
Proof. intros H. unfold companion. rewrite H. reflexivity. Qed.

Theorem companion_shape n es : 0 < max_lag es -> 0 < n ->
  length (companion n es) = n * max_lag es /\ Forall (fun row => length row = n * max_lag es) (companion n es).
Proof.
  intros HK Hn. unfold companion. destruct (Nat.eqb_spec (max_lag es) 0) as [E|E]; [lia|]. split.
  - rewrite app_length, !map_length, !seq_length. nia.
  - apply Forall_app. split; rewrite Forall_forall; intros row Hrow; apply in_map_iff in Hrow; destruct Hrow as (u & <- & _).
    + unfold top_row. apply flat_map_blocks_length. intros k. apply adj_row_length.
    + unfold unit_row. rewrite map_length, seq_length. reflexivity.
Qed.

(* EVERY entry of the companion matrix: first block row = [A1 ... AK] with Ak the adjacency
   (source row, target column) of the lag-k subnetwork; identity blocks on the sub-diagonal; zero elsewhere *)
Theorem companion_entry n es r c : 0 < n -> r < n * max_lag es -> c < n * max_lag es ->
  nth c (nth r (companion n es) []) 0%Z = entry_spec n es r c.
Proof.
  intros Hn Hr Hc. unfold companion, entry_spec. set (K := max_lag es) in *.
  destruct (Nat.eqb_spec K 0) as [E|E]; [rewrite E in Hr; lia|].
  destruct (Nat.ltb_spec r n) as [Hlt|Hge].
  - rewrite app_nth1 by (rewrite map_length, seq_length; exact Hlt).
    rewrite (nth_indep _ [] (top_row n K es 0)) by (rewrite map_length, seq_length; exact Hlt).
    rewrite (map_nth (top_row n K es)). rewrite seq_nth by exact Hlt. cbn [Nat.add].
    unfold top_row. rewrite (nth_flat_map_blocks _ n 0%Z (fun l => adj_row_length n _ r) Hn K 1 c Hc).
    rewrite adj_row_nth by (apply Nat.mod_upper_bound; lia).
    unfold subnet. rewrite existsb_filter. replace (1 + c / n) with (c / n + 1) by lia. reflexivity.
  - rewrite app_nth2 by (rewrite map_length, seq_length; exact Hge). rewrite map_length, seq_length.
    set (g := fun r0 => unit_row (n * K) (r0 - n)).
    rewrite (nth_indep _ [] (g 0)) by (rewrite map_length, seq_length; lia).
    rewrite (map_nth g). rewrite seq_nth by lia. unfold g. rewrite unit_row_nth by exact Hc.
    replace (n + (r - n) - n) with (r - n) by lia. reflexivity.
Qed.

(* contemporaneous (lag 0) edges never enter the matrix *)
Theorem lag0_ignored n e es r c : lag e = 0 -> entry_spec n (e :: es) r c = entry_spec n es r c.
Proof.
  intros H0. unfold entry_spec. cbn [existsb]. rewrite H0.
  replace (Nat.eqb 0 (c / n + 1)) with false by (symmetry; apply Nat.eqb_neq; lia).
  rewrite andb_false_r. reflexivity.
Qed.

Example lagnet_instance :
  let es := [ {| src := 0; dst := 1; lag := 1; cmi := 1#2; pval := 0 |};
              {| src := 1; dst := 1; lag := 2; cmi := 1#4; pval := 1 |};
              {| src := 1; dst := 0; lag := 0; cmi := 0; pval := 1#2 |} ] in
  companion 2 es = [[0;1;0;0]; [0;0;0;1]; [1;0;0;0]; [0;1;0;0]]%Z /\ length (subnet 1 es) = 1.
Proof. vm_compute. split; reflexivity. Qed.
