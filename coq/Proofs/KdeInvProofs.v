(* Invariances of the KDE estimator models: sample order, X/Y roles, order of the conditioning columns (C10). *)
From Coq Require Import List ZArith Reals Lra Lia Permutation.
From CE Require Import Model.Itv Model.KnnCounts Model.Kde Proofs.KnnProofs Proofs.KnnInvProofs Proofs.KdeProofs.
Import ListNotations.
Open Scope R_scope.

Lemma Rsum_perm l l' : Permutation l l' -> Rsum l = Rsum l'.
Proof.
  induction 1 as [|x l l' _ IH|x y l|l l' l'' _ IH1 _ IH2]; cbn [Rsum fold_right] in *; try lra.
  fold (Rsum l) in *. fold (Rsum l') in *. lra.
Qed.

(* the entropy of a point list given as an image  map P all  depends on P only through the point width and the
   pairwise squared distances *)
Lemma kde_spec_transport {A} h D (P P' : A -> list Z) (all : list A) : D <> 0 ->
  (forall a b, In a all -> In b all -> dist Euclid (P' a) (P' b) = dist Euclid (P a) (P b)) ->
  length (hd [] (map P' all)) = length (hd [] (map P all)) ->
  kde_entropy_spec h D (map P' all) = kde_entropy_spec h D (map P all).
Proof.
  intros HD Hd Hw. unfold kde_entropy_spec. cbv zeta. rewrite !map_length, Hw. f_equal. f_equal.
  rewrite !map_map. apply Rsum_ext. intros a Ha. f_equal. unfold dens. f_equal.
  rewrite !map_map. apply Rsum_ext. intros b Hb.
  rewrite <- !(dist_euclid_scaled D) by exact HD. rewrite (Hd a b Ha Hb). reflexivity.
Qed.

Lemma kde_spec_perm h D (pts pts' : list (list Z)) : Permutation pts pts' ->
  length (hd [] pts) = length (hd [] pts') ->
  kde_entropy_spec h D pts = kde_entropy_spec h D pts'.
Proof.
  intros P Hw. unfold kde_entropy_spec. cbv zeta. rewrite (Permutation_length P), Hw. f_equal. f_equal.
  rewrite (Rsum_perm _ _ (Permutation_map (fun p => ln (dens h D (INR (length pts')) (INR (length (hd [] pts'))) pts p)) P)).
  apply Rsum_ext. intros p _. f_equal. unfold dens. f_equal.
  apply Rsum_perm, Permutation_map, P.
Qed.

(* bandwidth argument accepted by the estimators: a rule name or a positive number *)
Definition bw_ok (b : bw) : Prop := match b with Num n dd => 0 < IZR n / IZR dd | _ => True end.

Section Inv.
Variable b : bw.
Variable D : Z.
Hypothesis HD : D <> 0%Z.
Hypothesis Hb : bw_ok b.

Lemma expr_spec pts : pts <> [] -> evalR [] (kde_entropy_expr b D pts) =
  kde_entropy_spec (bandwidth_spec b (INR (length pts)) (INR (length (hd [] pts)))) (IZR D) pts.
Proof. intros Hne. apply kde_entropy_expr_spec; [exact HD|exact Hne|apply bandwidth_rules_positive; exact Hb]. Qed.

Lemma entropy_transport {A} (P P' : A -> list Z) (all : list A) : all <> [] ->
  (forall a b, In a all -> In b all -> dist Euclid (P' a) (P' b) = dist Euclid (P a) (P b)) ->
  length (hd [] (map P' all)) = length (hd [] (map P all)) ->
  evalR [] (kde_entropy_expr b D (map P' all)) = evalR [] (kde_entropy_expr b D (map P all)).
Proof.
  intros Hne Hd Hw. assert (N1 : map P' all <> []) by (destruct all; [congruence|discriminate]).
  assert (N2 : map P all <> []) by (destruct all; [congruence|discriminate]).
  rewrite !expr_spec by assumption. rewrite !map_length, Hw.
  apply kde_spec_transport; [apply not_0_IZR; exact HD|exact Hd|exact Hw].
Qed.

Lemma entropy_perm (pts pts' : list (list Z)) : pts <> [] -> Permutation pts pts' ->
  length (hd [] pts) = length (hd [] pts') ->
  evalR [] (kde_entropy_expr b D pts) = evalR [] (kde_entropy_expr b D pts').
Proof.
  intros Hne P Hw. assert (N' : pts' <> []) by (intros E; subst pts'; apply Permutation_sym, Permutation_nil in P; congruence).
  rewrite !expr_spec by assumption. rewrite (Permutation_length P), Hw. apply kde_spec_perm; assumption.
Qed.

(* all rows of the argument arrays have the same block widths *)
Lemma hd_width {A} (P : A -> list Z) (all all' : list A) w : all <> [] -> all' <> [] ->
  (forall a, In a all -> length (P a) = w) -> (forall a, In a all' -> length (P a) = w) ->
  length (hd [] (map P all)) = length (hd [] (map P all')).
Proof.
  intros H1 H2 W1 W2. destruct all as [|a l]; [congruence|]. destruct all' as [|a' l']; [congruence|].
  cbn [map hd]. rewrite W1, W2 by (left; reflexivity). reflexivity.
Qed.

Definition widths (all : list sample) (wx wy wz : nat) : Prop :=
  forall p, In p all -> length (sx p) = wx /\ length (sy p) = wy /\ length (sz p) = wz.

Lemma widths_uniform all wx wy wz : widths all wx wy wz -> uniform all.
Proof. intros W p q Hp Hq. destruct (W p Hp) as [? [? ?]]. destruct (W q Hq) as [? [? ?]]. repeat split; congruence. Qed.

(* ---- sample order ---------------------------------------------------------------------------------- *)
Theorem kde_cmi_row_perm all all' wx wy wz : all <> [] -> widths all wx wy wz -> Permutation all all' ->
  evalR [] (kde_cmi_expr b D all) = evalR [] (kde_cmi_expr b D all').
Proof.
  intros Hne W P. rewrite !kde_cmi_expr_def.
  assert (Hne' : all' <> []) by (intros E; subst all'; apply Permutation_sym, Permutation_nil in P; congruence).
  assert (W' : widths all' wx wy wz) by (intros p Hp; apply W; eapply Permutation_in; [apply Permutation_sym; exact P|exact Hp]).
  assert (M : forall Pr : sample -> list Z, map Pr all <> []) by (intros Pr; destruct all; [congruence|discriminate]).
  rewrite (entropy_perm (map pxz all) (map pxz all')), (entropy_perm (map pyz all) (map pyz all')),
          (entropy_perm (map pj all) (map pj all')), (entropy_perm (map sz all) (map sz all')); try reflexivity;
    try apply M; try (apply Permutation_map; exact P).
  - apply (hd_width sz all all' wz); auto; intros a Ha; [apply W|apply W']; exact Ha.
  - apply (hd_width pj all all' (wx + (wy + wz))); auto; intros a Ha; unfold pj; rewrite !app_length;
      [destruct (W a Ha) as [-> [-> ->]]|destruct (W' a Ha) as [-> [-> ->]]]; reflexivity.
  - apply (hd_width pyz all all' (wy + wz)); auto; intros a Ha; unfold pyz; rewrite !app_length;
      [destruct (W a Ha) as [_ [-> ->]]|destruct (W' a Ha) as [_ [-> ->]]]; reflexivity.
  - apply (hd_width pxz all all' (wx + wz)); auto; intros a Ha; unfold pxz; rewrite !app_length;
      [destruct (W a Ha) as [-> [_ ->]]|destruct (W' a Ha) as [-> [_ ->]]]; reflexivity.
Qed.

Theorem kde_mi_row_perm all all' wx wy wz : all <> [] -> widths all wx wy wz -> Permutation all all' ->
  evalR [] (kde_mi_expr b D all) = evalR [] (kde_mi_expr b D all').
Proof.
  intros Hne W P. rewrite !kde_mi_expr_def.
  assert (Hne' : all' <> []) by (intros E; subst all'; apply Permutation_sym, Permutation_nil in P; congruence).
  assert (W' : widths all' wx wy wz) by (intros p Hp; apply W; eapply Permutation_in; [apply Permutation_sym; exact P|exact Hp]).
  assert (M : forall Pr : sample -> list Z, map Pr all <> []) by (intros Pr; destruct all; [congruence|discriminate]).
  rewrite (entropy_perm (map sx all) (map sx all')), (entropy_perm (map sy all) (map sy all')),
          (entropy_perm (map (fun s => sx s ++ sy s) all) (map (fun s => sx s ++ sy s) all')); try reflexivity;
    try apply M; try (apply Permutation_map; exact P).
  - apply (hd_width (fun s => sx s ++ sy s) all all' (wx + wy)); auto; intros a Ha; rewrite !app_length;
      [destruct (W a Ha) as [-> [-> _]]|destruct (W' a Ha) as [-> [-> _]]]; reflexivity.
  - apply (hd_width sy all all' wy); auto; intros a Ha; [apply W|apply W']; exact Ha.
  - apply (hd_width sx all all' wx); auto; intros a Ha; [apply W|apply W']; exact Ha.
Qed.

(* ---- exchanging X and Y ----------------------------------------------------------------------------- *)
Lemma map_swap (Pr : sample -> list Z) all : map Pr (map swap all) = map (fun s => Pr (swap s)) all.
Proof. apply map_map. Qed.

Theorem kde_cmi_swap all wx wy wz : all <> [] -> widths all wx wy wz ->
  evalR [] (kde_cmi_expr b D (map swap all)) = evalR [] (kde_cmi_expr b D all).
Proof.
  intros Hne W. rewrite !kde_cmi_expr_def. rewrite !map_swap.
  change (fun s => pxz (swap s)) with pyz. change (fun s => pyz (swap s)) with pxz. change (fun s => sz (swap s)) with sz.
  rewrite (entropy_transport pj (fun s => pj (swap s)) all Hne).
  - ring.
  - intros a c Ha Hc. apply (dJ_swap Euclid all a c (widths_uniform _ _ _ _ W) Ha Hc).
  - destruct all as [|a l]; [congruence|]. cbn [map hd]. unfold pj, swap; cbn [sx sy sz]. rewrite !app_length. lia.
Qed.

Theorem kde_mi_swap all wx wy wz : all <> [] -> widths all wx wy wz ->
  evalR [] (kde_mi_expr b D (map swap all)) = evalR [] (kde_mi_expr b D all).
Proof.
  intros Hne W. rewrite !kde_mi_expr_def. rewrite !map_swap.
  change (fun s => sx (swap s)) with sy. change (fun s => sy (swap s)) with sx.
  rewrite (entropy_transport (fun s => sx s ++ sy s) (fun s => sx (swap s) ++ sy (swap s)) all Hne).
  - ring.
  - intros a c Ha Hc. destruct (W a Ha) as [Ax [Ay _]]. destruct (W c Hc) as [Cx [Cy _]]. cbn [swap sx sy].
    rewrite !dist_app by congruence. apply op_comm.
  - destruct all as [|a l]; [congruence|]. cbn [map hd swap sx sy]. rewrite !app_length. lia.
Qed.

(* ---- reordering the columns of Z ------------------------------------------------------------------ *)
Theorem kde_cmi_zcol_perm all sigma wx wy wz : all <> [] -> widths all wx wy wz -> Permutation sigma (seq 0 wz) ->
  evalR [] (kde_cmi_expr b D (map (zperm sigma) all)) = evalR [] (kde_cmi_expr b D all).
Proof.
  intros Hne W Hs. rewrite !kde_cmi_expr_def. rewrite !map_map.
  pose proof (widths_uniform _ _ _ _ W) as U.
  assert (Hdz : forall p, In p all -> length (sz p) = wz) by (intros p Hp; apply W; exact Hp).
  assert (Hlen : length sigma = wz) by (rewrite (Permutation_length Hs), seq_length; reflexivity).
  rewrite (entropy_transport pxz (fun s => pxz (zperm sigma s)) all Hne),
          (entropy_transport pyz (fun s => pyz (zperm sigma s)) all Hne),
          (entropy_transport pj (fun s => pj (zperm sigma s)) all Hne),
          (entropy_transport sz (fun s => sz (zperm sigma s)) all Hne); try reflexivity.
  - intros a c Ha Hc. apply (dz_zperm Euclid sigma all wz Hdz Hs a c Ha Hc).
  - destruct all as [|a l]; [congruence|]. cbn [map hd zperm sz]. rewrite reidx_length, Hlen. symmetry. apply Hdz. left. reflexivity.
  - intros a c Ha Hc. apply (dJ_zperm Euclid sigma all wz U Hdz Hs a c Ha Hc).
  - destruct all as [|a l]; [congruence|]. cbn [map hd]. unfold pj; cbn [zperm sx sy sz]. rewrite !app_length, reidx_length, Hlen.
    rewrite (Hdz a (or_introl eq_refl)). reflexivity.
  - intros a c Ha Hc. apply (dyz_zperm Euclid sigma all wz U Hdz Hs a c Ha Hc).
  - destruct all as [|a l]; [congruence|]. cbn [map hd]. unfold pyz; cbn [zperm sx sy sz]. rewrite !app_length, reidx_length, Hlen.
    rewrite (Hdz a (or_introl eq_refl)). reflexivity.
  - intros a c Ha Hc. apply (dxz_zperm Euclid sigma all wz U Hdz Hs a c Ha Hc).
  - destruct all as [|a l]; [congruence|]. cbn [map hd]. unfold pxz; cbn [zperm sx sy sz]. rewrite !app_length, reidx_length, Hlen.
    rewrite (Hdz a (or_introl eq_refl)). reflexivity.
Qed.
End Inv.
