(* Invariances of the kNN estimator models: sample order, X/Y roles, order of the conditioning columns (C10). *)
From Coq Require Import List ZArith QArith Bool Sorting Permutation Mergesort Orders Lia ZifyBool Setoid Morphisms.
From CE Require Import Model.KnnCounts Proofs.KnnProofs.
Import ListNotations.
Close Scope Q_scope.

Definition opt_Qeq (a b : option Q) : Prop :=
  match a, b with Some x, Some y => Qeq x y | None, None => True | _, _ => False end.

(* ---- generic form of both estimators: projections as parameters ---------------------------------- *)
Section Gen.
Variable m : metric.
Variable k : nat.
Definition term2 (P1 P2 : sample -> list Z) all p : Q := (harmZ (cnt m k P1 all p) + harmZ (cnt m k P2 all p))%Q.
Definition term3 (P1 P2 P3 : sample -> list Z) all p : Q :=
  (harmZ (cnt m k P1 all p) + harmZ (cnt m k P2 all p) - harmZ (cnt m k P3 all p))%Q.
Definition gen (term : list sample -> sample -> Q) (head : nat -> Q) (all : list sample) : option Q :=
  if radii_ok m k all then Some (head (length all) - qmean (map (term all) all))%Q else None.

Lemma knn_mi_gen all : knn_mi m k all = gen (term2 sx sy) (fun N => harm (k - 1) + harm (N - 1))%Q all.
Proof. reflexivity. Qed.
Lemma knn_cmi_gen all : knn_cmi m k all = gen (term3 pxz pyz sz) (fun _ => harm (k - 1)) all.
Proof. reflexivity. Qed.

(* ---- Q sums -------------------------------------------------------------------------------------- *)
Lemma qsum_cons a l : Qeq (qsum (a :: l)) (a + qsum l)%Q.
Proof. cbn [qsum]. apply Qred_correct. Qed.
Lemma qsum_perm l l' : Permutation l l' -> Qeq (qsum l) (qsum l').
Proof.
  induction 1 as [|x l l' _ IH|x y l|l l' l'' _ IH1 _ IH2].
  - reflexivity.
  - rewrite !qsum_cons, IH. reflexivity.
  - rewrite !qsum_cons. ring.
  - rewrite IH1. exact IH2.
Qed.
Lemma qsum_ext {A} (f g : A -> Q) l : (forall a, In a l -> Qeq (f a) (g a)) -> Qeq (qsum (map f l)) (qsum (map g l)).
Proof.
  induction l as [|a l IH]; intros H; [reflexivity|]. cbn [map]. rewrite !qsum_cons, (H a (or_introl eq_refl)), IH; [reflexivity|].
  intros b Hb. apply H. right. exact Hb.
Qed.
Lemma qmean_eq l l' : Qeq (qsum l) (qsum l') -> length l = length l' -> Qeq (qmean l) (qmean l').
Proof. intros Hs Hl. unfold qmean. rewrite Hs, Hl. reflexivity. Qed.

(* ---- sample order ---------------------------------------------------------------------------------- *)
Lemma eps_perm all all' p : Permutation all all' -> eps m k all p = eps m k all' p.
Proof. intros P. unfold eps. rewrite (sort_perm_inv _ _ (Permutation_map (fun q => dist m (pj p) (pj q)) P)). reflexivity. Qed.
Lemma cnt_perm proj all all' p : Permutation all all' -> cnt m k proj all p = cnt m k proj all' p.
Proof. intros P. unfold cnt, cnt_e. rewrite (eps_perm all all' p P). rewrite (filter_len_perm _ _ _ P). reflexivity. Qed.
Lemma forallb_perm {A} (f : A -> bool) l l' : Permutation l l' -> forallb f l = forallb f l'.
Proof.
  induction 1 as [|x l l' _ IH|x y l|l l' l'' _ IH1 _ IH2]; cbn [forallb]; try congruence.
  destruct (f x), (f y); reflexivity.
Qed.
Lemma forallb_ext_in' {A} (f g : A -> bool) l : (forall a, In a l -> f a = g a) -> forallb f l = forallb g l.
Proof.
  induction l as [|a l IH]; intros H; [reflexivity|]. cbn [forallb]. rewrite (H a (or_introl eq_refl)), IH; [reflexivity|].
  intros b Hb. apply H. right. exact Hb.
Qed.
Lemma forallb_map' {A B} (g : A -> B) (f : B -> bool) l : forallb f (map g l) = forallb (fun a => f (g a)) l.
Proof. induction l as [|a l IH]; cbn [map forallb]; [reflexivity|]. rewrite IH. reflexivity. Qed.
Lemma radii_ok_perm all all' : Permutation all all' -> radii_ok m k all = radii_ok m k all'.
Proof.
  intros P. unfold radii_ok. rewrite (Permutation_length P). f_equal.
  rewrite (forallb_perm _ _ _ P). apply forallb_ext_in'. intros p _. rewrite (eps_perm all all' p P). reflexivity.
Qed.

Lemma gen_perm term head all all' :
  (forall p, term all p = term all' p) -> Permutation all all' -> opt_Qeq (gen term head all) (gen term head all').
Proof.
  intros Ht P. unfold gen. rewrite (radii_ok_perm all all' P). destruct (radii_ok m k all'); [|exact I].
  cbn [opt_Qeq]. rewrite (Permutation_length P).
  assert (E : Qeq (qmean (map (term all) all)) (qmean (map (term all') all'))).
  { apply qmean_eq; [|rewrite !map_length; apply Permutation_length, P].
    rewrite (map_ext _ _ Ht). apply qsum_perm, Permutation_map, P. }
  rewrite E. reflexivity.
Qed.

Theorem knn_mi_row_perm all all' : Permutation all all' -> opt_Qeq (knn_mi m k all) (knn_mi m k all').
Proof. intros P. rewrite !knn_mi_gen. apply gen_perm; [|exact P]. intros p. unfold term2. rewrite !(cnt_perm _ all all' p P). reflexivity. Qed.
Theorem knn_cmi_row_perm all all' : Permutation all all' -> opt_Qeq (knn_cmi m k all) (knn_cmi m k all').
Proof. intros P. rewrite !knn_cmi_gen. apply gen_perm; [|exact P]. intros p. unfold term3. rewrite !(cnt_perm _ all all' p P). reflexivity. Qed.

(* ---- transport along a map of samples that preserves the relevant distances ----------------------- *)
Lemma filter_map_len' {A B} (g : A -> B) (f : B -> bool) l : length (filter f (map g l)) = length (filter (fun a => f (g a)) l).
Proof. induction l as [|a l IH]; cbn [map filter]; [reflexivity|]. destruct (f (g a)); cbn [length]; congruence. Qed.
Lemma filter_ext_len {A} (f g : A -> bool) l : (forall a, In a l -> f a = g a) -> length (filter f l) = length (filter g l).
Proof.
  induction l as [|a l IH]; intros H; [reflexivity|]. cbn [filter]. rewrite (H a (or_introl eq_refl)).
  destruct (g a); cbn [length]; rewrite IH; auto; intros b Hb; apply H; right; exact Hb.
Qed.

Section Transport.
Variable phi : sample -> sample.
Variable all : list sample.
Hypothesis HJ : forall p q, In p all -> In q all -> dist m (pj (phi p)) (pj (phi q)) = dist m (pj p) (pj q).

Lemma eps_transport p : In p all -> eps m k (map phi all) (phi p) = eps m k all p.
Proof.
  intros Hp. unfold eps. rewrite map_map. f_equal. f_equal. apply map_ext_in. intros q Hq. apply HJ; assumption.
Qed.
Lemma cnt_transport P' P p : In p all ->
  (forall q, In q all -> dist m (P' (phi p)) (P' (phi q)) = dist m (P p) (P q)) ->
  cnt m k P' (map phi all) (phi p) = cnt m k P all p.
Proof.
  intros Hp HP. unfold cnt, cnt_e. rewrite (eps_transport p Hp). rewrite filter_map_len'.
  rewrite (filter_ext_len _ (fun q => Z.ltb (dist m (P p) (P q)) (eps m k all p))); [reflexivity|].
  intros q Hq. rewrite (HP q Hq). reflexivity.
Qed.
Lemma radii_ok_transport : radii_ok m k (map phi all) = radii_ok m k all.
Proof.
  unfold radii_ok. rewrite map_length. f_equal. rewrite forallb_map'. apply forallb_ext_in'.
  intros p Hp. rewrite (eps_transport p Hp). reflexivity.
Qed.
Lemma gen_transport term' term head :
  (forall p, In p all -> Qeq (term' (map phi all) (phi p)) (term all p)) ->
  opt_Qeq (gen term' head (map phi all)) (gen term head all).
Proof.
  intros Ht. unfold gen. rewrite radii_ok_transport. destruct (radii_ok m k all); [|exact I]. cbn [opt_Qeq].
  rewrite map_length, map_map.
  assert (E : Qeq (qmean (map (fun x => term' (map phi all) (phi x)) all)) (qmean (map (term all) all))).
  { apply qmean_eq; [apply qsum_ext; exact Ht|rewrite !map_length; reflexivity]. }
  rewrite E. reflexivity.
Qed.
End Transport.
End Gen.

(* ---- exchanging the roles of X and Y ------------------------------------------------------------- *)
Definition swap (s : sample) : sample := {| sx := sy s; sy := sx s; sz := sz s |}.
(* every sample has the same block widths (the arguments are arrays) *)
Definition uniform (all : list sample) : Prop :=
  forall p q, In p all -> In q all -> length (sx p) = length (sx q) /\ length (sy p) = length (sy q) /\ length (sz p) = length (sz q).

Lemma dJ_swap m all p q : uniform all -> In p all -> In q all -> dist m (pj (swap p)) (pj (swap q)) = dist m (pj p) (pj q).
Proof.
  intros U Hp Hq. destruct (U p q Hp Hq) as [Hx [Hy Hz]]. unfold pj, swap; cbn [sx sy sz].
  rewrite !dist_app by assumption. rewrite !op_assoc. f_equal. apply op_comm.
Qed.

Theorem knn_mi_swap m k all : uniform all -> opt_Qeq (knn_mi m k (map swap all)) (knn_mi m k all).
Proof.
  intros U. rewrite !knn_mi_gen.
  apply (gen_transport m k swap all (fun p q Hp Hq => dJ_swap m all p q U Hp Hq)).
  intros p Hp. unfold term2.
  rewrite (cnt_transport m k swap all (fun p q Hp Hq => dJ_swap m all p q U Hp Hq) sx sy p Hp) by reflexivity.
  rewrite (cnt_transport m k swap all (fun p q Hp Hq => dJ_swap m all p q U Hp Hq) sy sx p Hp) by reflexivity.
  ring.
Qed.

Theorem knn_cmi_swap m k all : uniform all -> opt_Qeq (knn_cmi m k (map swap all)) (knn_cmi m k all).
Proof.
  intros U. rewrite !knn_cmi_gen.
  apply (gen_transport m k swap all (fun p q Hp Hq => dJ_swap m all p q U Hp Hq)).
  intros p Hp. unfold term3.
  rewrite (cnt_transport m k swap all (fun p q Hp Hq => dJ_swap m all p q U Hp Hq) pxz pyz p Hp) by reflexivity.
  rewrite (cnt_transport m k swap all (fun p q Hp Hq => dJ_swap m all p q U Hp Hq) pyz pxz p Hp) by reflexivity.
  rewrite (cnt_transport m k swap all (fun p q Hp Hq => dJ_swap m all p q U Hp Hq) sz sz p Hp) by reflexivity.
  ring.
Qed.

(* ---- reordering the columns of Z ------------------------------------------------------------------ *)
Definition reidx (sigma : list nat) (a : list Z) : list Z := map (fun i => nth i a 0%Z) sigma.
Definition zperm (sigma : list nat) (s : sample) : sample := {| sx := sx s; sy := sy s; sz := reidx sigma (sz s) |}.

Lemma combine_seq (a b : list Z) : length a = length b ->
  combine a b = map (fun i => (nth i a 0%Z, nth i b 0%Z)) (seq 0 (length a)).
Proof.
  revert b. induction a as [|x a IH]; intros [|y b] H; cbn [length] in *; try lia; [reflexivity|].
  cbn [combine seq map nth]. f_equal. rewrite <- seq_shift, map_map. apply IH. lia.
Qed.
Lemma combine_reidx sigma (a b : list Z) :
  combine (reidx sigma a) (reidx sigma b) = map (fun i => (nth i a 0%Z, nth i b 0%Z)) sigma.
Proof. unfold reidx. induction sigma as [|i s IH]; cbn [map combine]; [reflexivity|]. f_equal. exact IH. Qed.

Lemma dist_reidx m sigma a b : length a = length b -> Permutation sigma (seq 0 (length a)) ->
  dist m (reidx sigma a) (reidx sigma b) = dist m a b.
Proof.
  intros Hl P. unfold dist. rewrite combine_reidx, (combine_seq a b Hl). apply agg_perm.
  apply Permutation_map, Permutation_map. exact P.
Qed.

Lemma reidx_length sigma a : length (reidx sigma a) = length sigma.
Proof. apply map_length. Qed.

Section ZPerm.
Variable m : metric.
Variable k : nat.
Variable sigma : list nat.
Variable all : list sample.
Variable dz : nat.
Hypothesis U : uniform all.
Hypothesis Hdz : forall p, In p all -> length (sz p) = dz.
Hypothesis Hs : Permutation sigma (seq 0 dz).

Lemma dz_zperm p q : In p all -> In q all -> dist m (sz (zperm sigma p)) (sz (zperm sigma q)) = dist m (sz p) (sz q).
Proof.
  intros Hp Hq. cbn [zperm sz]. apply dist_reidx; [rewrite (Hdz p Hp), (Hdz q Hq); reflexivity|rewrite (Hdz p Hp); exact Hs].
Qed.
Lemma dJ_zperm p q : In p all -> In q all -> dist m (pj (zperm sigma p)) (pj (zperm sigma q)) = dist m (pj p) (pj q).
Proof.
  intros Hp Hq. destruct (U p q Hp Hq) as [Hx [Hy Hz]]. unfold pj; cbn [zperm sx sy].
  rewrite !dist_app by assumption. f_equal. f_equal. apply (dz_zperm p q Hp Hq).
Qed.
Lemma dxz_zperm p q : In p all -> In q all -> dist m (pxz (zperm sigma p)) (pxz (zperm sigma q)) = dist m (pxz p) (pxz q).
Proof.
  intros Hp Hq. destruct (U p q Hp Hq) as [Hx [Hy Hz]]. unfold pxz; cbn [zperm sx sy].
  rewrite !dist_app by assumption. f_equal. apply (dz_zperm p q Hp Hq).
Qed.
Lemma dyz_zperm p q : In p all -> In q all -> dist m (pyz (zperm sigma p)) (pyz (zperm sigma q)) = dist m (pyz p) (pyz q).
Proof.
  intros Hp Hq. destruct (U p q Hp Hq) as [Hx [Hy Hz]]. unfold pyz; cbn [zperm sx sy].
  rewrite !dist_app by assumption. f_equal. apply (dz_zperm p q Hp Hq).
Qed.

Theorem knn_cmi_zcol_perm : opt_Qeq (knn_cmi m k (map (zperm sigma) all)) (knn_cmi m k all).
Proof.
  rewrite !knn_cmi_gen. apply (gen_transport m k (zperm sigma) all dJ_zperm).
  intros p Hp. unfold term3.
  rewrite (cnt_transport m k (zperm sigma) all dJ_zperm pxz pxz p Hp) by (intros q Hq; apply dxz_zperm; assumption).
  rewrite (cnt_transport m k (zperm sigma) all dJ_zperm pyz pyz p Hp) by (intros q Hq; apply dyz_zperm; assumption).
  rewrite (cnt_transport m k (zperm sigma) all dJ_zperm sz sz p Hp) by (intros q Hq; apply dz_zperm; assumption).
  reflexivity.
Qed.
End ZPerm.

(* non-vacuity: a concrete uniform sample with a non-trivial column permutation *)
Example zperm_instance :
  let all := map mk [([0], [0], [1; 7]); ([1], [3], [4; 2]); ([5], [1], [0; 9]); ([2], [2], [6; 3])]%Z in
  knn_cmi Cheb 1 (map (zperm [1; 0]%nat) all) = knn_cmi Cheb 1 all /\ knn_cmi Cheb 1 all <> None.
Proof. vm_compute. split; [reflexivity|discriminate]. Qed.
